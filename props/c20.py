"""C20 - tokenizing then detokenizing returns the original text.

Tie (P): the real model.BytePairEncoding (llama 3.2 test vocabulary + synthetic byte-complete vocabularies) and the
real model.SentencePieceModel (synthetic vocabularies; the gemma file is empty in this tree) encode and decode
generated texts; the Coq model (coq/Tok) is evaluated by vm_compute on the same texts and must produce the same ids
and the same decoded bytes.  The pre-tokeniser (regexp2) is an oracle of the model: its observed answers are handed
to the model and the hypothesis of the theorems (it returns a partition into non-empty pieces) is tested on them.
Monitor: the property itself on the implementation's observations - decode(encode(t)) == t, ids inside the
vocabulary, a planted special-token literal becomes exactly that token's id.
"""
import hashlib
import json
import os
import re
import threading

from lib import vlib
from lib.vlib import cq_bytes, cq_list, cq_bool

SETUP_BUILDS = [{"name": "c20"}]
COQ_TARGETS = ["Tok/Properties_C20.v", "Tok/Corr.v"]
HEADER0 = ("From Coq Require Import List NArith ZArith Bool.\n"
           "From V Require Import Common.Bytes Tok.Utf8 Tok.ByteMap Tok.Heap Tok.Vocab Tok.Special Tok.Bpe Tok.Spm Tok.Pretok Tok.Corr.\n"
           "Import ListNotations.\n")

LLAMA_PRE = r"(?i:'s|'t|'re|'ve|'m|'ll|'d)|[^\r\n\p{L}\p{N}]?\p{L}+|\p{N}{1,3}| ?[^\s\p{L}\p{N}]+[\r\n]*|\s*[\r\n]+|\s+(?!\S)|\s+"
SIMPLE_PRE = r"\S+|\s+"
SEP = "▁"
TEKKEN_PRE = (r"[^\r\n\p{L}\p{N}]?[\p{Lu}\p{Lt}\p{Lm}\p{Lo}\p{M}]*[\p{Ll}\p{Lm}\p{Lo}\p{M}]+|[^\r\n\p{L}\p{N}]?[\p{Lu}\p{Lt}\p{Lm}\p{Lo}\p{M}]+[\p{Ll}\p{Lm}\p{Lo}\p{M}]*"
              r"|\p{N}| ?[^\s\p{L}\p{N}]+[\r\n/]*|\s*[\r\n]+|\s+(?!\S)|\s+")
# the patterns as modelled in coq/Tok/Pretok.v (llama3 = 0, tekken = 1)
MODELLED = {LLAMA_PRE: 0, TEKKEN_PRE: 1}


def repo_patterns():
    """the default pre-tokeniser patterns the CURRENT tree passes to NewBytePairEncoding, read from the sources
    (the harness compiles exactly these strings with the real regexp2): {where: pattern}"""
    out = {}
    for where in ("model/models/llama/model.go", "model/models/mllama/model.go", "model/models/mistral3/model_text.go", "model/process_text_test.go"):
        try:
            src = open(os.path.join(vlib.REPO, where), encoding="utf-8").read()
        except OSError:
            continue
        m = re.search(r'"tokenizer\.ggml\.pretokenizer",\s*`([^`]*)`', src) or re.search(r'NewBytePairEncoding\(\s*`([^`]*)`', src)
        if m:
            out[where] = m.group(1)
    return out


# ------------------------------------------------------------------ the byte <-> rune map (reference: GPT-2)

def gpt2_map():
    bs = list(range(33, 127)) + list(range(161, 173)) + list(range(174, 256))
    m, n = {}, 0
    for b in range(256):
        if b in bs:
            m[b] = b
        else:
            m[b] = 256 + n
            n += 1
    return m


GPT2 = gpt2_map()


def mapped(bs):
    """the string BytePairEncoding.Encode builds for one pre-token (repaired map = GPT-2's map)"""
    return "".join(chr(GPT2[b]) for b in bs)


# ------------------------------------------------------------------ vocabularies

class Vocab:
    def __init__(self, name, kind, values, types, scores, merges, pre=None, bos=1, eos=2, add_bos=False, add_eos=False,
                 complete=True, sparse=False):
        self.name, self.kind = name, kind
        self.values, self.types, self.scores, self.merges = values, types, scores, merges
        self.pre, self.bos, self.eos, self.add_bos, self.add_eos = pre, bos, eos, add_bos, add_eos
        self.complete, self.sparse = complete, sparse
        self.which = 0   # which modelled pattern describes self.pre (0 llama3, 1 tekken)
        self.enc = {}
        for i, v in enumerate(values):
            self.enc[v] = i
        self.rank = {}
        for i, m in enumerate(merges):
            self.rank[m] = i
        self.specials = [v for i, v in enumerate(values) if i in (105, 106) or types[i] == 3]

    def setup_line(self):
        if self.sparse:
            return {"op": "llama", "name": self.name, "pre": self.pre or ""}
        return {"op": "vocab", "name": self.name, "kind": self.kind, "values": [v.hex() for v in self.values], "types": self.types,
                "scores": self.scores, "merges": [m.hex() for m in self.merges], "pre": self.pre or "", "bos": self.bos, "eos": self.eos,
                "add_bos": self.add_bos, "add_eos": self.add_eos}

    def coq_def(self):
        return "Definition %s : vocab := vocab_of %s %s %s %s (%d)%%Z (%d)%%Z %s %s.\n" % (
            self.name, cq_list([cq_bytes(v) for v in self.values], "str"), cq_list(["%d%%N" % t for t in self.types], "N"),
            cq_list(["(%d)%%Z" % s for s in self.scores], "Z"), cq_list([cq_bytes(m) for m in self.merges], "str"),
            self.bos, self.eos, cq_bool(self.add_bos), cq_bool(self.add_eos))


BPE_ALPHA = list("abcde") + [" ", " ", "~", "1", "2", ".", "'", "\n", "é", "€", "́", "s", "t"]


def mk_bpe_vocab(rng, name, style):
    """byte-complete BPE vocabulary: 256 single-rune tokens (GPT-2 order, as in llama 3), random merges, control tokens"""
    order = list(range(33, 127)) + list(range(161, 173)) + list(range(174, 256)) + [b for b in range(256) if GPT2[b] >= 256]
    values = [chr(GPT2[b]).encode() for b in order]
    types = [1] * 256
    complete = True
    if style in ("safe105", "overlap"):
        # ids 105/106 are treated as special by SpecialVocabulary whatever their type: make them plain ASCII here.  The FIRST
        # special (id 105) and the LAST one ("<|last|>", appended below) share the prefix "<|", which the other special tokens
        # ("ab"/"[INST]"/"EOT"/"<end of turn>"/...) do not have
        values[105], values[106] = b"<|p105|>", (b"ab" if style == "safe105" else b"[p106]")
        values += [chr(GPT2[order[105]]).encode(), chr(GPT2[order[106]]).encode()]
        types += [1, 1]
    if style == "incomplete":
        gone = rng.sample(range(256), 12)
        for g in gone:
            if g not in (105, 106):
                values[g] = b"\xef\xbf\xbe%d" % g
        complete = False
    merges = []
    pool = [mapped(c.encode()) for c in BPE_ALPHA]
    pool = [p for p in pool if len(p) == 1] + [ch for c in BPE_ALPHA for ch in mapped(c.encode())]
    have = set(values)
    if style == "overlap":
        # overlapping pairs: XY and YZ are merges with random ranks, the triple XYZ is a merge/token or not at random, so
        # that a queued pair goes stale because one of its ends was merged with its other neighbour first
        L = [mapped(c.encode()) for c in OVERLAP_ALPHA]
        cand = []
        for x in L:
            for y in L:
                if rng.random() < 0.65:
                    cand.append((x, y))
        pairs = list(cand)
        for x, y in pairs:
            for z in L:
                if (y, z) in pairs:
                    if rng.random() < 0.35:
                        cand.append((x + y, z))
                    if rng.random() < 0.35:
                        cand.append((x, y + z))
        rng.shuffle(cand)
        for l, r in cand:
            merges.append((l + " " + r).encode())
            if (len(l + r) == 2 or rng.random() < 0.6) and (l + r).encode() not in have:
                values.append((l + r).encode())
                types.append(1)
                have.add((l + r).encode())
        pool = []
    for _ in range(rng.randint(25, 60) if pool else 0):
        l, r = rng.choice(pool), rng.choice(pool)
        if len(l) + len(r) > 8:
            continue
        merges.append((l + " " + r).encode())
        if rng.random() < 0.88:
            if (l + r).encode() not in have or rng.random() < 0.1:
                values.append((l + r).encode())
                types.append(1)
                have.add((l + r).encode())
            pool.append(l + r)
        if rng.random() < 0.08 and merges:
            merges.append(rng.choice(merges))  # duplicate merge line: the later rank wins
    ctrl = [b"<|bos|>", b"<|eot|>"] + ([b"<~ x>"] if style != "std" else [])
    # special tokens that are prefixes of each other: which one wins depends on the order in Values
    ctrl = ([b"<|eot|>!"] + ctrl) if style in ("safe105", "simple") else (ctrl + [b"<|bos|>!"])
    # special tokens whose literal contains characters the pre-processing rewrites: inner / leading / trailing space, tab,
    # and (style overlap) the image of the space under the byte map (non-ASCII: the known 105/106-style finding class)
    ctrl = ctrl + [b"<end of turn>"] + ([b" <lead>", b"<trail> "] if style in ("std", "simple", "overlap") else [b"<tool  call>", b"<a\tb>"])
    if style == "overlap":
        ctrl.append("<|Ġ|>".encode())
    # heterogeneous literals: other bracket, no bracket at all; in two styles the last special shares "<|" with the first
    ctrl = ctrl + [b"[INST]", b"[/INST]", b"EOT"]
    if style in ("safe105", "overlap"):
        ctrl.append(b"<|last|>")
    bos = len(values) + ctrl.index(b"<|bos|>")
    for c in ctrl:
        values.append(c)
        types.append(3)
    pats = repo_patterns()
    v = Vocab(name, "bpe", values, types, [], merges, bos=bos, eos=bos + 1, add_bos=True, add_eos=(style == "safe105"), complete=complete)
    # the pattern strings come from the CURRENT sources; the model of each is fixed (Tok/Pretok.v)
    if style == "overlap":
        v.alpha = OVERLAP_ALPHA
    if style == "simple":
        v.pre, v.which = pats.get("model/models/mistral3/model_text.go", TEKKEN_PRE), 1
    elif style == "safe105":
        v.pre, v.which = pats.get("model/models/mllama/model.go", LLAMA_PRE), 0
    else:
        v.pre, v.which = pats.get("model/models/llama/model.go", LLAMA_PRE), 0
    return v


OVERLAP_ALPHA = ["q", "z", "x", "w", " ", " "]
SPM_ALPHA = list("abcde") + [" ", " ", " ", "1", ".", "é", "€", "́", "\U0001F600", "~"]


def mk_spm_vocab(rng, name, style):
    values, types, scores = [b"<unk>", b"<s>", b"</s>"], [2, 3, 3], [0, 0, 0]
    if style == "normal-first":
        # the FIRST and the LAST special token ("[BOS]" ... "[INST]") share the prefix "[", the others ("<pad105>", "<start_of_turn>",
        # "EOT", ...) do not
        values[1], values[2] = b"[BOS]", b"[EOS]"
    normal = []
    singles = [c.replace(" ", SEP) for c in SPM_ALPHA]
    singles = sorted(set(singles))
    rng.shuffle(singles)
    drop = set(x for x in singles[:4] if x != SEP or style == "incomplete")  # characters without a token of their own: byte fallback
    # (a vocabulary that "covers every byte" has the whitespace marker itself as a token: otherwise a space falls back to the
    #  bytes of U+2581 and decodes as U+2581)
    pool = [s for s in singles]
    if style == "overlap":
        # overlapping pieces around the whitespace marker: XY and YZ are pieces with random scores, XYZ is a piece or not at
        # random: a queued candidate (X, Y) goes stale when Y absorbs Z first (or X is absorbed by its left neighbour)
        L = [c.replace(" ", SEP) for c in OVERLAP_ALPHA]
        L = sorted(set(L))
        normal = list(L)
        pairs = [(x, y) for x in L for y in L if rng.random() < 0.65]
        normal += [x + y for x, y in pairs]
        for x, y in pairs:
            for z in L:
                if (y, z) in pairs and rng.random() < 0.3:
                    normal.append(x + y + z)
        for _ in range(6):
            normal.append("".join(rng.choice(L) for _ in range(4)))
        rng.shuffle(normal)
        singles, drop, pool = [], set(), []
    for s in singles:
        if s not in drop:
            normal.append(s)
    for _ in range(rng.randint(20, 50) if pool else 0):
        l, r = rng.choice(pool), rng.choice(pool)
        if len(l + r) > 6:
            continue
        normal.append(l + r)  # duplicates allowed: the later id wins
        pool.append(l + r)
    bytetoks = [b"<0x%02X>" % b for b in range(256)]
    complete = True
    if style == "incomplete":
        for g in rng.sample(range(256), 20):
            bytetoks[g] = b"<unused%d>" % g
        complete = False
    if style in ("normal-first", "overlap"):
        rng.shuffle(bytetoks)   # the 256 byte tokens are NOT stored in ascending byte order
    if style == "normal-first":
        for t in normal:
            values.append(t.encode())
            types.append(rng.choice([1, 1, 1, 4]))
            scores.append(-rng.randint(0, 12))
        while len(values) < 110:
            values.append(b"<pad%d>" % len(values))
            types.append(5)
            scores.append(0)
        for t in bytetoks:
            values.append(t)
            types.append(6)
            scores.append(0)
    else:
        for t in bytetoks:
            values.append(t)
            types.append(6)
            scores.append(0)
        for t in normal:
            values.append(t.encode())
            types.append(rng.choice([1, 1, 1, 4]))
            scores.append(-rng.randint(0, 12))
    if style == "normal-first":
        # tokens of the byte-token SHAPE that are not byte tokens: Decode parses them with strconv.ParseUint(.., 0, 8)
        for t in (b"<0xZZ>", b"<0x_F>", b"<0xF_>", b"<0x1g>", b"<0xab>", b"<0x\xe2\x96\x81\xe2\x96\x81>"):
            values.append(t)
            types.append(1)
            scores.append(-3)
    # control tokens whose literal contains spaces (inner, leading, trailing, double) or U+2581 itself: Encode splits on the
    # special literals FIRST (raw text) and escapes spaces to U+2581 only inside the remaining text fragments
    spaced = ([b"<end of turn>", b" <lead>", b"<trail> "] if style != "normal-first" else [b"<tool  call>", b"<a b c>", ("<u" + SEP + "v>").encode()])
    hetero = [b"[INST]", b"EOT", (SEP + "<x>").encode(), b"<zlast>"] if style != "normal-first" else [b"EOT", b"<|eot|>", b"[INST]"]
    for t in ([b"<start_of_turn>", b"</s>!"] if style != "normal-first" else [b"<s>s", b"<start_of_turn>"]) + spaced + hetero:
        values.append(t)
        types.append(3)
        scores.append(0)
    v = Vocab(name, "spm", values, types, scores, [], bos=1, eos=2, add_bos=True, add_eos=(style == "normal-first"), complete=complete)
    if style == "overlap":
        v.alpha = OVERLAP_ALPHA
    return v


def load_llama(name):
    d = os.path.join(vlib.REPO, "model", "testdata", "llama3.2")
    enc = json.load(open(os.path.join(d, "encoder.json"), encoding="utf-8"))
    values = [None] * len(enc)
    for t, i in enc.items():
        values[i] = t.encode("utf-8", "surrogatepass")
    types = [1] * len(values)
    for t in (b"<|begin_of_text|>", b"<|end_of_text|>"):
        if t not in values:
            values.append(t)
            types.append(3)
    merges = []
    with open(os.path.join(d, "vocab.bpe"), "rb") as f:
        for line in f.read().split(b"\n"):
            if line.startswith(b"#"):
                continue
            merges.append(line.rstrip(b"\r"))
    if merges and merges[-1] == b"":
        merges.pop()
    v = Vocab(name, "bpe", values, types, [], merges, pre=repo_patterns().get("model/models/llama/model.go", LLAMA_PRE), bos=0, eos=0, sparse=True)
    return v


# ------------------------------------------------------------------ python re-statement of the special split (only to know
# which fragments to ask the real pre-tokeniser about; the Coq model computes its own fragments)

def py_fragments(v, text):
    frags = [(text, None)]
    for sp in v.specials:
        if not sp:
            continue
        out = []
        for val, fid in frags:
            if fid is not None:
                out.append((val, fid))
                continue
            while True:
                i = val.find(sp)
                if i < 0:
                    out.append((val, None))
                    break
                if i > 0:
                    out.append((val[:i], None))
                out.append((sp, v.enc[sp]))
                val = val[i + len(sp):]
                if not val:
                    break
        frags = out
    return frags


# ------------------------------------------------------------------ texts

WORDS = ["hello", "world", "the", "quick", "brown", "fox", "it's", "I'LL", "don't", "we've", "Hello", "WORLD", "tokenizer", "a", "I",
         "naïve", "café", "über", "你好", "こんにちは", "Привет",
         "مرحبا", "שלום", "हिन्दी", "한국어", "123", "4567", "3.14", "1,000,000", "0x41",
         "é", "ạ̈", "\U0001F600", "\U0001F468‍\U0001F469‍\U0001F467", "\U0001F1E9\U0001F1EA", " ", " ", "​", "﻿",
         "~", "~~", "~/x", "a~b", "\x7f", "\x01", "\x1f", "\u0080", "\u009f", "­", "¬", "®", "¡", "ÿ", "Ā", "Ġ", "Ń", "Ċ",
         "!", "?!", "...", "--", "(x)", "{[]}", "#$%", "^&*", "`", "|", "\\", "/", "<", ">", "<|", "|>", "_", "=", "+", ";", ":", "\"", "'", "@",
         SEP, SEP + "a", "a" + SEP + "b", "<0x41>", "<0x0A>", "<0xe2>", "<0x4", "<0xZZ>", "<0x_F>", "x<0xab>", "<0x  >", "�", "\U0010FFFF", "퟿", "", "߿", "ࠀ", "￿", "\U00010000"]
WS = [" ", " ", " ", "  ", "   ", "\t", "\n", "\n\n", " \n", "\r\n", " \t ", " ", "\x0b", "\x0c", "\x1c"]


REPEATS = ["aaaa", "aaaaaaaaa", "abababab", "aabbaabb", "      ", " a a a a", "\n\n\n\n\n", "........", "1111111", "12345678901", "ééééé",
           "a" * 23, "ab" * 11, "   a   b   ", "''''", "~~~~~", "a~a~a~", "\x7f\x7f\x7f"]


# class representatives for the pre-tokeniser: lower, upper, space, newline, digit, punctuation, apostrophe, contraction letters, CR, tab,
# other-letter, mark, titlecase, modifier letter, other number, slash, NBSP, emoji, long s, Kelvin
PT_ALPHA = ["a", "A", " ", "\n", "1", "!", "'", "s", "\r", "\t", "中", "́", "L", "ǅ", "ʰ", "½", "/", "\u00a0", "\U0001F600", "ſ", "K", "t", "\u3000", "\x0b", "\x85"]
PT_TEXTS = ["I'll we've DON'T it'S 'tis o'clock 'LL'Ll", "x  y   z    ", "a\n\n b\r\n\r\nc \n", " \n \n", "1234567890 12 1", "a1b22c333d4444", "!!!\n\n??? ...",
            " !a !1 ! ", "  !", "\t\ta", "a\t", "end  ", "  ", " ", "", "e\u0301e\u0301", "中文字符 and ελληνικά", "ǅungla ʰa", "½ ²³ ٣٤٥٦", "a/b//c\n/",
            "'s's'S", "'", "''s", "a's", "A'S", "'re're", "'r", "'l", "'ll", "'v", "1's", " 's", "\n's"]


def rnd_text(rng, alpha=None, maxw=6):
    if alpha is not None:
        return "".join(rng.choice(alpha) for _ in range(rng.randint(0, 2 * maxw)))
    out = []
    for _ in range(rng.randint(0, maxw)):
        if rng.random() < 0.55:
            out.append(rng.choice(WS))
        out.append(rng.choice(WORDS))
    if rng.random() < 0.3:
        out.append(rng.choice(WS))
    return "".join(out)


def coverage_texts():
    """texts that together contain every byte value that can occur in valid UTF-8 (except NUL)"""
    out = ["".join(chr(c) for c in range(1, 128))]
    out.append("".join(chr(c) for c in range(0x80, 0x100)))                      # C2/C3 + every continuation byte
    out.append("".join(chr(0x80 + 0x40 * k) for k in range(2, 30)))              # lead bytes C4..DF
    out.append("".join(chr(0x1000 * k + 0x800) for k in range(0, 16) if not 0xD800 <= 0x1000 * k + 0x800 <= 0xDFFF))  # E0..EF
    out.append("".join(chr(c) for c in (0x10000, 0x40000, 0x80000, 0xC0000, 0x100000)))  # F0..F4
    return out


def clean(s):
    return s.replace("\x00", "")


# ------------------------------------------------------------------ cases

def gen(ctx):
    rng = ctx.rng
    q = ctx.quick()
    vocabs = []
    for i, st in enumerate(["std", "safe105", "simple", "incomplete", "overlap"] if q else ["std", "safe105", "simple", "incomplete", "overlap", "std", "safe105", "simple", "overlap"]):
        vocabs.append(mk_bpe_vocab(rng, "vb%d" % i, st))
    for i, st in enumerate(["bytes-first", "normal-first", "incomplete", "overlap"] if q else ["bytes-first", "normal-first", "incomplete", "overlap", "bytes-first", "normal-first", "overlap"]):
        vocabs.append(mk_spm_vocab(rng, "vs%d" % i, st))
    llama = load_llama("vl")
    vocabs.append(llama)
    cases = []

    part_idx = {}

    def add(v, text, klass, add_special=False, group=None):
        b = text if isinstance(text, bytes) else clean(text).encode("utf-8", "surrogatepass")
        if klass == "special-part":
            # the same part text serves every group that needs it
            key = (v.name, b)
            if key in part_idx:
                cases[part_idx[key]]["group"].append(group)
                return
            part_idx[key] = len(cases)
            group = [group]
        frs = [f for f, fid in py_fragments(v, b) if fid is None] if v.kind == "bpe" else []
        cases.append({"op": "enc", "vocab": v.name, "text": b.hex(), "frags": sorted(set(f.hex() for f in frs)), "add_special": add_special,
                      "klass": klass, "group": group})

    # corpus: minimal past failures first
    cdir = os.path.join(vlib.VERIF, "corpus", "C20")
    corpus = []
    if os.path.isdir(cdir):
        for fn in sorted(os.listdir(cdir)):
            if fn.endswith(".json"):
                corpus += json.load(open(os.path.join(cdir, fn)))
    for c in corpus:
        for v in vocabs:
            if v.kind == c["family"] and (c.get("vocab") in (None, v.name[:2])):
                add(v, bytes.fromhex(c["text"]), "corpus")
    per = (70 if q else 900)
    for v in vocabs:
        alpha = None if v.sparse else getattr(v, "alpha", None) or (BPE_ALPHA if v.kind == "bpe" else SPM_ALPHA)
        for t in coverage_texts():
            add(v, t, "byte-coverage")
        for w in WORDS:
            add(v, w, "single-word")
        for rep in REPEATS:
            add(v, rep, "repeats")
        # addSpecial: BOS/EOS only around a non-empty id list; a text that already starts/ends with the BOS/EOS literal
        bl = v.values[v.bos].decode("utf-8", "replace") if 0 <= v.bos < len(v.values) else ""
        el = v.values[v.eos].decode("utf-8", "replace") if 0 <= v.eos < len(v.values) else ""
        for t in ["", "ab", " ", "a b", bl, bl + "a", "a" + el, bl + "a" + el, el + bl, "\n"]:
            add(v, t, "add-special", add_special=True)
        # exhaustive small scope: every string up to a length over a few symbols (all merge orders of short inputs)
        import itertools
        syms, maxl = (("a", "b", " "), 3) if q else (("a", "b", " ", "~"), 5 if not v.sparse else 4)
        if getattr(v, "alpha", None):
            syms, maxl = ("q", "z", "x", " "), (4 if q else 6)
        for L in range(1, maxl + 1):
            for tup in itertools.product(syms, repeat=L):
                add(v, "".join(tup), "exhaustive-short")
        nv = len(v.values)
        for k in range(per // 2):
            ids = [rng.randrange(0, nv) for _ in range(rng.randint(1, 6))]
            if v.kind == "spm" and rng.random() < 0.5:
                ids[rng.randrange(len(ids))] = rng.randrange(max(0, nv - 12), nv)  # the tail holds the odd tokens
            if rng.random() < 0.06:
                ids[rng.randrange(len(ids))] = rng.choice([-1, nv, nv + 5, -7])
            cases.append({"op": "dec", "vocab": v.name, "ids": ids, "klass": "decode-only", "group": None, "add_special": False, "text": ""})
        for k in range(per // 6):
            # runs of one or two symbols: many equal-rank / equal-score pairs, the heap's pop order decides the pieces
            a1 = rng.choice(alpha or list("abcdeilnost 1.\n"))
            a2 = rng.choice(alpha or list("abcdeilnost 1.\n"))
            add(v, "".join(rng.choice([a1, a1, a2]) for _ in range(rng.randint(3, 14))), "repeats")
        for k in range(per):
            r = rng.random()
            if r < 0.45 and alpha is not None:
                add(v, rnd_text(rng, alpha, maxw=rng.choice([2, 5, 9])), "alphabet-text", add_special=rng.random() < 0.15)
            elif r < 0.8:
                add(v, rnd_text(rng), "mixed-text", add_special=rng.random() < 0.1)
            else:
                # planted special literal: a + sp + b with a, b free of special literals; also a and b alone
                sps = [s for s in v.specials]
                if not sps:
                    continue
                sp = rng.choice(sps).decode("utf-8", "replace")
                a = rnd_text(rng, alpha, 3) if alpha and rng.random() < 0.5 else rnd_text(rng, None, 3)
                b = rnd_text(rng, alpha, 3) if alpha and rng.random() < 0.5 else rnd_text(rng, None, 3)
                g = "g%d" % len(cases)
                add(v, a, "special-part", group=g + ":a")
                add(v, b, "special-part", group=g + ":b")
                add(v, a + sp + b, "special-literal", group=g + ":t:" + sp.encode().hex())
    # the pre-tokeniser alone: real regexp2 split of the patterns of the current sources vs the modelled splitter
    pats = repo_patterns()
    roles = [(pats.get("model/models/llama/model.go", LLAMA_PRE), 0, PT_ALPHA[:13] if q else PT_ALPHA),
             (pats.get("model/models/mistral3/model_text.go", TEKKEN_PRE), 1, PT_ALPHA[:11] if q else PT_ALPHA)]
    if pats.get("model/models/mllama/model.go", roles[0][0]) != roles[0][0]:
        roles.append((pats["model/models/mllama/model.go"], 0, PT_ALPHA[:10]))
    if pats.get("model/process_text_test.go", roles[0][0]) != roles[0][0]:
        roles.append((pats["model/process_text_test.go"], 0, PT_ALPHA[:10]))
    # the match loop itself: a pattern that leaves gaps, a pattern with empty matches
    roles.append((r"\p{L}+|\p{N}{1,3}", 2, PT_ALPHA[:6]))
    roles.append((r"\p{L}*", 3, PT_ALPHA[:6]))
    import itertools as _it
    for pat, which, alpha in roles:
        def addp(t, klass):
            b = t if isinstance(t, bytes) else clean(t).encode("utf-8", "surrogatepass")
            cases.append({"op": "pretok", "pre": pat, "which": which, "text": b.hex(), "klass": klass, "vocab": None, "group": None, "add_special": False})
        for L in range(0, 4):
            for tup in _it.product(alpha, repeat=L):
                addp("".join(tup), "pretok-exhaustive")
        if not q:
            for tup in _it.product(alpha[:12] if which < 2 else alpha, repeat=4):
                addp("".join(tup), "pretok-exhaustive")
        for w in PT_TEXTS:
            addp(w, "pretok-fixed")
        if which >= 2:
            continue
        for w in WORDS + WS + REPEATS:
            addp(w, "pretok-fixed")
        for t in coverage_texts():
            addp(t, "pretok-fixed")
        for k in range(150 if q else 3000):
            r = rng.random()
            if r < 0.4:
                addp("".join(rng.choice(PT_ALPHA) for _ in range(rng.randint(4, 14))), "pretok-random")
            elif r < 0.7:
                addp(rnd_text(rng, None, 8), "pretok-random")
            else:
                # contractions in both cases, digit runs, whitespace runs
                bits = ["I", "we", "THEY", "don", "'s", "'S", "'t", "'T", "'re", "'RE", "'Ve", "'ve", "'m", "'M", "'ll", "'LL", "'lL", "'d", "'D", "'x", "'", "''",
                        "1", "12", "123", "1234", "1234567", "٣٤٥", "½", "²", " ", "  ", "   ", "\t", "\n", "\r\n", "\n\n ", " \n", "\u00a0", "\u3000", "\u2028",
                        "ſ", "K", "'ſ", "'K", "!", "!!", " !", "/", "//\n", "a", "Ab", "aB", "ǅ", "ʰ", "中", "é", "é"]
                addp("".join(rng.choice(bits) for _ in range(rng.randint(2, 8))), "pretok-random")

    # several DIFFERENT special literals, several occurrences, every order (a fragment is split in a later pass while
    # fragments already exist to its right), text between / at the ends or not, adjacent specials, prefix-related specials
    for v in vocabs:
        sps = [x for x in v.specials if x]
        if len(sps) < 2:
            continue
        alpha = None if v.sparse else getattr(v, "alpha", None) or (BPE_ALPHA if v.kind == "bpe" else SPM_ALPHA)
        fixed = []
        for i in range(len(sps)):
            for j in range(len(sps)):
                if i != j and len(fixed) < 8:
                    fixed.append([sps[i], sps[j], sps[i], sps[j]])      # alternating
                    fixed.append([sps[j], sps[j], sps[i]])              # lower-index special right of a higher-index one
        # every special token whose literal contains a space / tab / U+2581, embedded in text that itself has spaces around it
        spaced = [x for x in sps if b" " in x or b"\t" in x or SEP.encode() in x]
        nfix2 = 0
        for x in spaced:
            fixed.append([x])
            fixed.append([x, x])
            nfix2 += 2
            others = [y for y in sps if y != x]
            if others:
                fixed.append([rng.choice(others), x])
                nfix2 += 1
        # EVERY special token alone between ordinary text (deterministic; whatever prefix family it belongs to)
        for x in sps:
            if x not in spaced:
                fixed.append([x])
                nfix2 += 1
        spaced_parts = [["say ", " now"], ["a b ", " c d"], ["", " x"], ["x ", ""], [" ", " "], ["a", "b"], ["\U0001F600", "."]]
        nfixed0 = len(fixed) - nfix2
        for k in range(len(fixed) + (18 if q else 250)):
            if k < len(fixed):
                seq = fixed[k]
            else:
                pool = rng.sample(sps, min(len(sps), rng.randint(2, 4)))
                seq = [rng.choice(pool) for _ in range(rng.randint(2, 6))]
            parts = []
            for _ in range(len(seq) + 1):
                r = rng.random()
                parts.append("" if r < 0.3 else (rnd_text(rng, alpha, 2) if alpha and r < 0.65 else rnd_text(rng, None, 2)))
            if k < nfixed0 and k % 2 == 0:
                parts = ["hi", "yo", "", "hello", "x"][:len(seq) + 1]
            elif nfixed0 <= k < len(fixed):
                sp_ = spaced_parts[k % len(spaced_parts)]
                parts = ([sp_[0]] + [" and "] * (len(seq) - 1) + [sp_[1]])
            g = "m%d" % len(cases)
            whole = b""
            for n, pt in enumerate(parts):
                pb = clean(pt).encode("utf-8", "surrogatepass")
                add(v, pb, "special-part", group="%s:p%d" % (g, n))
                whole += pb + (seq[n] if n < len(seq) else b"")
            add(v, whole, "multi-special", group="%s:t:%s" % (g, ",".join(x.hex() for x in seq)))
    # SEQUENCES on one long-lived tokenizer object: growing prefixes of a text (cut inside / at the edges of special literals,
    # inside words, at whitespace, between the runes of multi-byte text), then shrinking, unrelated and repeated texts; every call
    # must answer what a fresh tokenizer answers
    for v in vocabs:
        sps = [x.decode("utf-8", "replace") for x in v.specials if x and is_valid_utf8(x)]
        alpha = None if v.sparse else getattr(v, "alpha", None) or (BPE_ALPHA if v.kind == "bpe" else SPM_ALPHA)
        for k in range((6 if v.sparse else 10) if q else 60):
            parts = []
            for _ in range(rng.randint(1, 3)):
                parts.append(rng.choice(["Hello there", "General Kenobi", "你好世界", "naïve café", "a b  c\n", "1234 56", "it's"]) if rng.random() < 0.5
                             else (rnd_text(rng, alpha, 3) if alpha and rng.random() < 0.5 else rnd_text(rng, None, 3)))
                if sps and rng.random() < 0.8:
                    parts.append(rng.choice(sps))
            t = clean("".join(parts))
            cuts = set()
            pos = 0
            for pt in parts:
                if pt in sps:
                    for d in (0, 1, 2, len(pt) // 2, len(pt) - 1, len(pt)):
                        cuts.add(pos + d)          # at the edges of / inside the special literal
                pos += len(clean(pt))
            for _ in range(rng.randint(2, 5)):
                cuts.add(rng.randint(0, len(t)))
            cuts = sorted(c_ for c_ in cuts if 0 < c_ < len(t))
            if len(cuts) > 7:
                cuts = sorted(rng.sample(cuts, 7))
            seq = [t[:c_] for c_ in cuts] + [t]
            seq += [t[:cuts[0]] if cuts else "", rnd_text(rng, None, 2), t, t + rng.choice(["", " more", "!"] + sps[:1]), seq[0] if seq else ""]
            cases.append({"op": "seq", "vocab": v.name, "texts": [x.encode("utf-8", "surrogatepass").hex() for x in seq], "add_special": rng.random() < 0.15,
                          "new_live": rng.random() < 0.5, "klass": "sequence", "group": None, "text": ""})
    return vocabs, cases


# ------------------------------------------------------------------ long inputs and idle time (round-trip monitor only)

def long_texts(rng, q):
    """(class, text): whitespace-free multi-byte runs whose 4096k / 16384k / 65536k byte offsets fall at every phase of a
    character, long whitespace / digit / word runs.  No special-token literal, no U+2581, no NUL."""
    out = []
    chars = {2: ["é", "Ж", "ע", "ω"], 3: ["中", "あ", "ท", "한", "語", "ก"], 4: ["\U00020000", "\U0002A6D6", "\U0001F600", "\U00010348"]}
    kib = 1024
    for w in (2, 3, 4):
        for phase in range(w):
            n = (20 if q else 70) * kib
            body = "".join(rng.choice(chars[w]) for _ in range(n // w))
            out.append(("long-multibyte-w%d" % w, "a" * phase + body))
    # mixed widths: the phase drifts along the text; crosses 16 KiB / 64 KiB windows many times
    for n in ([40, 72] if q else [40, 72, 136, 200, 200]):
        allc = chars[2] + chars[3] * 3 + chars[4]
        out.append(("long-mixed", "".join(rng.choice(allc) for _ in range(n * kib // 3))))
    # CJK sentences with rare spaces (whitespace-free windows of > 16 KiB between them)
    t = []
    for _ in range(3 if q else 6):
        t.append("".join(rng.choice(chars[3]) for _ in range(rng.randint(5800, 7000))))
    out.append(("long-cjk-sparse-space", " ".join(t)))
    for ws, n in ([(" ", 10000), ("\t", 30000), ("\x0c", 20000), (" \n", 20000), (" ", 100000)] if q else
                  [(" ", 10000), ("\t", 30000), ("\x0c", 20000), (" \n", 50000), (" ", 100000), (" ", 1000000), ("\t ", 300000)]):
        out.append(("long-whitespace", "x" + ws * n + "y"))
        out.append(("long-whitespace", ws * (n // 2)))
    out.append(("long-digits", "1234567890" * (2000 if q else 20000)))
    out.append(("long-digits", "٣٤٥" * 7000))
    out.append(("long-word", "a" * (50000 if q else 200000)))
    out.append(("long-word", "ab" * 30000 + " " + "Zz" * 9000))
    out.append(("long-word", "".join(rng.choice("abcdeilnost") for _ in range(40000))))
    out.append(("long-punct", "!?." * 12000 + "\n" * 5000))
    return out


def gen_long(ctx, vocabs):
    q = ctx.quick()
    texts = long_texts(ctx.rng, q)
    want = ["vb0", "vb2", "vs0", "vl"] if q else [v.name for v in vocabs if v.complete]
    cases = []
    for v in vocabs:
        if v.name not in want or not v.complete:
            continue
        for k, t in texts:
            if v.sparse and k == "long-whitespace" and len(t) > 300000:
                continue
            cases.append({"op": "rt", "vocab": v.name, "text": t.encode("utf-8").hex(), "klass": k})
    return cases


def idle_cases(vocabs, q=True):
    """encode, stay idle for 4.5 s, encode again (a text with a long whitespace run, a long word, CJK)"""
    v = [x for x in vocabs if x.name == "vb0"][0]
    vs = [x for x in vocabs if x.name == "vs0"][0]
    # after the idle period the FIRST regexp2 scan is a long one (a whitespace run of 3e6: several hundred ms)
    texts = ["hello  world", " " * 3000000 + "y\n\n" + "中文" * 500 + " end", "  \t\t  " * 300 + "tail", "a" * 3000 + " b"]
    cs = [v.setup_line(), vs.setup_line(), {"op": "rt", "vocab": v.name, "text": texts[0].encode().hex(), "klass": "idle-before"},
          {"op": "rt", "vocab": vs.name, "text": texts[0].encode().hex(), "klass": "idle-before"}, {"op": "sleep", "ms": 4500}]
    for t in texts[1:]:
        cs.append({"op": "rt", "vocab": v.name, "text": t.encode().hex(), "klass": "idle-after"})
    for t in texts[2:]:
        cs.append({"op": "rt", "vocab": vs.name, "text": t.encode().hex(), "klass": "idle-after"})
    if not q:
        # a single match that runs for more than a second (no idle period needed): pre-tokeniser only
        cs.append({"op": "rt", "vocab": v.name, "text": ("x" + " " * 14000000 + "y").encode().hex(), "klass": "long-whitespace-huge", "split_only": True})
    return cs


WS_TEXTS = ["hello\nworld", "hello\tworld", "hello\rworld", "a\nb", "a\tb", "a\rb", "a\n1", "a\t!", "\nword", "\tword", "\rword", "x \n y", "x\n y", "x \ny",
            "a  b", "a   b", "a    b c", "  lead", "trail  ", " ", "  ", "\n", "\t", "\r", "\n\n", "\r\n", "a\r\nb", "a\n\nb", "a\n\tb", "a\t\nb", "a \t b",
            "line one\nline two\nline three", "col1\tcol2\tcol3\n1\t2\t3", "def f():\n\treturn 1\n", "if x:\n    y = 2\n", "a\x0bb", "a\x0cb", "a\u00a0b",
            "a\u2028b", "a\u3000b", "tab\t", "nl\n", "\n!", "\t(", "\n's", "1\n2", "x\n\n\ny", "e\u0301\nx", "中\n文", "end.\nNext", "a \n", " \na",
            "hello world\n", "Hello, world!\nHow are you?\tFine.", "\n hello", "\t hello", "a\n b", "a\n  b"]


def ctor_cases(ctx, vocabs):
    """the tokenizer as the model constructors build it from GGUF metadata, per metadata variant; whitespace-rich texts"""
    rng = ctx.rng
    names = {v.name: v for v in vocabs}
    plan = [("llama", "vb0", "vb0"), ("llama", "vl", "vl"), ("mllama", "vb0", "vb0"), ("mistral3", "vb2", "vb2"), ("gemma2", "vs0", "vs0"), ("gemma3", "vs0", "vs0")]
    variants = [{}, {"tokenizer.ggml.pre": "llama-bpe"}, {"tokenizer.ggml.pre": "qwen2"}, {"tokenizer.ggml.pre": "default"}, {"tokenizer.ggml.pre": "gpt-2"},
                {"tokenizer.ggml.pre": "tekken"}, {"tokenizer.ggml.pretokenizer": "EXPLICIT"}, {"tokenizer.ggml.add_bos_token": False, "tokenizer.ggml.add_eos_token": True}]
    cases = []
    for arch, vn, direct in plan:
        v = names.get(vn)
        if v is None:
            continue
        texts = list(WS_TEXTS)
        sps = [x.decode() for x in v.specials if x and all(c < 0x80 for c in x)]
        for sp in sps[:3]:
            texts += [sp + "\nword", "a" + sp + "\tb", sp + "\n", "\n" + sp + " x"]
        for _ in range(10 if ctx.quick() else 200):
            texts.append("".join(rng.choice(WS + ["a", "B", "1", "!", "word", "é", "中"]) for _ in range(rng.randint(2, 9))))
        for var in variants:
            meta = dict(var)
            if v.kind == "bpe":
                meta["tokenizer.ggml.model"] = "gpt2"
                if meta.get("tokenizer.ggml.pretokenizer") == "EXPLICIT":
                    meta["tokenizer.ggml.pretokenizer"] = v.pre
            else:
                meta["tokenizer.ggml.model"] = "llama"
                if "tokenizer.ggml.pretokenizer" in meta:
                    continue
            cases.append({"op": "ctor", "arch": arch, "vocab": vn, "direct": direct, "meta": meta, "texts": [clean(t).encode("utf-8").hex() for t in texts]})
    return cases


def judge_ctor(ctx, vby, cases, obs):
    for c, o in zip(cases, obs):
        if c.get("op") != "ctor":
            continue
        v = vby[c["vocab"]]
        var = {k: val for k, val in c["meta"].items() if k not in ("tokenizer.ggml.model",)}
        tag = "%s.New(%s)" % (c["arch"], ", ".join("%s=%r" % (k.replace("tokenizer.ggml.", ""), (val if k != "tokenizer.ggml.pretokenizer" else "<explicit>")) for k, val in sorted(var.items())) or "defaults")
        if "res" not in o:
            ctx.obligation("constructor %s builds a tokenizer" % tag, False, str(o))
            ctx.mismatch("model constructor %s did not build a TextProcessor from the fake GGUF metadata" % tag, {"arch": c["arch"], "meta": c["meta"]}, o, None)
            continue
        nbad = 0
        for th, st in zip(c["texts"], o["res"]):
            tb = bytes.fromhex(th)
            ctx.note_case({"ctor": c["arch"], "m": sorted(var.items()), "v": v.name, "t": th}, st.get("ok") is True, v.kind + ":constructor",
                          sample={"case": {"constructor": tag, "vocab": v.name, "text": repr(tb)}, "impl": st})
            if "panic" in st or "enc_err" in st or "dec_err" in st:
                ctx.violation({"family": v.kind, "class": "encode-failed", "cause": "constructor"}, "%s: Encode/Decode failed on %r: %s" % (tag, tb, st), {"case": {"arch": c["arch"], "meta": c["meta"], "vocab": v.name, "text": th}, "impl": st})
                continue
            if st.get("ids_in_range") is False:
                ctx.violation({"family": v.kind, "class": "id-out-of-vocab"}, "%s: Encode(%r) produced an id outside the vocabulary" % (tag, tb), {"impl": st})
            if "split" in st and nbad < 2:
                ctx.violation({"family": "bpe", "class": "pretok-not-partition", "cause": "constructor"},
                              "%s: the pre-tokeniser pattern this constructor chose splits %r into %r - not a partition: split yields only the matches, the rest of the text is dropped" % (
                                  tag, tb, [bytes.fromhex(x) for x in st["split"]]), {"case": {"arch": c["arch"], "meta": c["meta"], "vocab": v.name, "text": th}, "impl": st})
            if st.get("ok") is False and v.complete and is_valid_utf8(tb) and b"\x00" not in tb:
                nbad += 1
                if nbad <= 2:
                    ctx.violation({"family": v.kind, "class": "roundtrip", "cause": classify(v, tb) if classify(v, tb) != "other" else "constructor"},
                                  "tokenizer built by %s (vocabulary %s): Decode(Encode(%r)) = %r" % (tag, v.name, tb, bytes.fromhex(st.get("dec", ""))),
                                  {"case": {"arch": c["arch"], "meta": c["meta"], "vocab": v.setup_line() if not v.sparse else {"op": "llama"}, "text": th}, "impl": st})
            elif st.get("same_as_direct") is False and len(ctx.mismatches) < 5:
                ctx.mismatch("tokenizer built by %s answers differently from NewBytePairEncoding/NewSentencePieceModel with the modelled pattern on the same vocabulary" % tag,
                             {"arch": c["arch"], "meta": c["meta"], "vocab": v.name, "text": th, "text_repr": repr(tb)}, st, None)


def judge_long(ctx, vby, cases, obs, binp):
    """monitors on the summarised round trips: Decode(Encode(t)) == t, ids inside the vocabulary, the real split is a partition"""
    nbad = 0
    for c, o in zip(cases, obs):
        if c["op"] != "rt":
            continue
        v = vby[c["vocab"]]
        tb = bytes.fromhex(c["text"])
        ctx.note_case({"v": v.name, "long": hashlib.sha1(tb).hexdigest(), "k": c["klass"]}, o.get("n_ids", 0) > 1, v.kind + ":" + c["klass"],
                      sample={"case": {"vocab": v.name, "klass": c["klass"], "text_len": len(tb), "text_head": repr(tb[:24])}, "impl": o})
        ctx.extra["long_ms_max"] = max(ctx.extra.get("long_ms_max", 0), o.get("ms", 0))
        if "panic" in o or "enc_err" in o or "dec_err" in o or "harness_error" in o:
            ctx.violation({"family": v.kind, "class": "encode-failed", "cause": "long-text"}, "Encode/Decode failed on a %d-byte %s text: %s" % (len(tb), c["klass"], o), {"case_len": len(tb), "klass": c["klass"], "impl": o})
            continue
        if not o.get("ids_in_range", True):
            ctx.violation({"family": v.kind, "class": "id-out-of-vocab"}, "Encode of a %d-byte %s text produced an id outside the vocabulary" % (len(tb), c["klass"]), {"impl": o})
        if v.kind == "bpe" and o.get("split_ok") is False:
            nbad += 1
            if nbad <= 2:
                ctx.violation({"family": "bpe", "class": "pretok-not-partition", "cause": c["klass"]},
                              "the real pre-tokeniser split of a %d-byte %s text (%r...) is not a partition of the text (its pieces total %d bytes): text is dropped or altered" % (
                                  len(tb), c["klass"], tb[:16], o.get("split_len", -1)), {"vocab": v.name, "klass": c["klass"], "text_len": len(tb), "text_head_hex": tb[:64].hex(), "impl": o})
        if o.get("ok") is False:
            # shrink: the shortest failing prefix among a ladder of prefixes (one batched harness run)
            short = None
            if not c["klass"].startswith("idle"):
                try:
                    text = tb.decode("utf-8")
                    L = len(text)
                    lens = sorted(set(max(1, L * i // 16) for i in range(1, 16)) | set(x for x in (1366, 2731, 5462, 5463, 8193, 16385, 21846) if x < L))
                    cs = [{"op": "rt", "vocab": v.name, "text": text[:n].encode().hex()} for n in lens]
                    ob, _ = ctx.run_jsonl(binp, [v.setup_line()] + cs, args=[vlib.REPO])
                    for n, oo in zip(lens, (ob or [])[1:]):
                        if oo.get("ok") is False:
                            short = (n, oo)
                            break
                except Exception:
                    pass
            ctx.violation({"family": v.kind, "class": "roundtrip", "cause": "long-text" if not c["klass"].startswith("idle") else "after-idle"},
                          "%s vocabulary %s: Decode(Encode(t)) != t for a %d-byte %s text (%r...): decoded %d bytes, first difference at byte %s (decoded ...%s..., text ...%s...)%s" % (
                              v.kind, v.name, len(tb), c["klass"], tb[:16], o.get("dec_len", -1), o.get("diff_at"), o.get("dec_snip"), o.get("text_snip"),
                              "; shortest failing prefix tried: %d characters" % short[0] if short else ""),
                          {"vocab": v.name, "klass": c["klass"], "text_len": len(tb), "text_head_hex": tb[:96].hex(), "impl": o,
                           "shortest_failing_prefix_chars": short[0] if short else None, "prefix_impl": short[1] if short else None,
                           "how_to_rebuild": "props/c20.py long_texts(rng seeded by VERIF_SEED) class %s" % c["klass"]})


# ------------------------------------------------------------------ monitor

BYTE_LIT = re.compile(rb"(?=(<0x(?:[^\xe2]|\xe2\x96\x81){2}>))", re.S)


def is_valid_utf8(b):
    try:
        b.decode("utf-8")
        return True
    except UnicodeDecodeError:
        return False


def roundtrip_fails(c, o):
    if o.get("dec_panic") or o.get("dec_err") or "panic" in o or "enc_err" in o:
        return True
    return o.get("dec") != c["text"]


def in_property_domain(v, c):
    b = bytes.fromhex(c["text"])
    return v.complete and not c["add_special"] and is_valid_utf8(b) and b"\x00" not in b


def classify(v, tb):
    """cause of a round-trip failure of the MINIMAL failing text tb"""
    if v.kind == "spm":
        if SEP.encode() in tb:
            return "u2581-in-text"
        for m in BYTE_LIT.finditer(tb.replace(b" ", SEP.encode())):
            if m.group(1) in v.enc:
                return "byte-token-literal"
        return "other"
    for sp in v.specials:
        if sp in tb and any(x >= 0x80 for x in sp):
            return "nonascii-special-literal"
    return "other"


def substrings(text, maxlen):
    n = len(text)
    for L in range(1, min(n, maxlen) + 1):
        for i in range(0, n - L + 1):
            yield text[i:i + L]


def minimise(ctx, binp, v, tb):
    """all minimal failing char-substrings of tb (each fails, no proper substring of it fails); one harness run"""
    try:
        text = tb.decode("utf-8")
    except UnicodeDecodeError:
        return [tb]
    subs = []
    seen = set()
    for s in substrings(text, 24 if len(text) > 90 else 48):
        if s not in seen:
            seen.add(s)
            subs.append(s)
    cs = [{"op": "enc", "vocab": v.name, "text": s.encode().hex(), "frags": [], "add_special": False} for s in subs]
    obs, err = ctx.run_jsonl(binp, [v.setup_line()] + cs, args=[vlib.REPO])
    if not obs or len(obs) != len(cs) + 1:
        return [tb]
    failing = [s for s, c, o in zip(subs, cs, obs[1:]) if roundtrip_fails(c, o)]
    mins = []
    for s in failing:  # ascending length
        if not any(m in s for m in mins):
            mins.append(s)
    return [m.encode() for m in mins] or [tb]


# ------------------------------------------------------------------ rendering for Coq

def cq_strs(l):
    return cq_list([cq_bytes(x) for x in l], "str")


def cq_ids(l):
    return cq_list(["(%d)%%Z" % i for i in l], "Z")


def sparse_vocab_term(v, pieces, ids):
    """vocab_sparse restricted to everything the model can look up for these pre-token pieces (+ the observed ids)"""
    ents, mrg = {}, {}
    for p in pieces:
        m = mapped(p)
        n = len(m)
        for i in range(n):
            for j in range(i + 1, min(n, i + 40) + 1):
                s = m[i:j].encode()
                if s in v.enc:
                    ents[s] = v.enc[s]
                for k in range(i + 1, j):
                    key = (m[i:k] + " " + m[k:j]).encode()
                    if key in v.rank:
                        mrg[(m[i:k].encode(), m[k:j].encode())] = v.rank[key]
    for sp in v.specials:
        ents[sp] = v.enc[sp]
    extra = []
    for i in ids:
        if 0 <= i < len(v.values) and v.values[i] not in ents:
            extra.append((v.values[i], i))
        elif 0 <= i < len(v.values) and ents[v.values[i]] != i:
            extra.append((v.values[i], i))
    el = ["(%s, (%d)%%Z)" % (cq_bytes(s), i) for s, i in sorted(ents.items())] + ["(%s, (%d)%%Z)" % (cq_bytes(s), i) for s, i in extra]
    ml = ["(%s, %s, (%d)%%Z)" % (cq_bytes(a), cq_bytes(b), r) for (a, b), r in sorted(mrg.items())]
    return "(vocab_sparse %s %s [] %s (%d)%%Z (%d)%%Z (%d)%%Z %s %s)" % (
        cq_list(el, "(str * Z)"), cq_list(ml, "(str * str * Z)"), cq_strs(v.specials), len(v.values), v.bos, v.eos, cq_bool(v.add_bos), cq_bool(v.add_eos)), ents, mrg


def render(v, c, o):
    text = bytes.fromhex(c["text"])
    ids = o["ids"]
    if v.kind == "bpe":
        tbl = list(zip(c["frags"], o.get("splits", [])))
        tterm = cq_list(["(%s, %s)" % (cq_bytes(bytes.fromhex(f)), cq_strs([bytes.fromhex(p) for p in ps])) for f, ps in tbl], "(str * list str)")
        dec_ok = "dec" in o
        dec = bytes.fromhex(o.get("dec", ""))
        if v.sparse:
            pieces = [bytes.fromhex(p) for f, ps in tbl for p in ps]
            vt, _, _ = sparse_vocab_term(v, pieces, ids)
        else:
            vt = v.name
        ctbl = cq_list(["(%d%%N, %d%%N)" % (r, m) for r, m in o.get("classes", [])], "(N * N)")
        return "(chk_bpe %s %s %s %s %s %s %s && chk_pretok_tbl %d%%N %s %s)" % (
            vt, tterm, cq_bytes(text), cq_bool(c["add_special"]), cq_ids(ids), cq_bool(dec_ok), cq_bytes(dec), v.which, ctbl, tterm)
    code = 0 if "dec" in o else (1 if "dec_err" in o else 2)
    return "chk_spm %s %s %s %s %d%%N %s" % (v.name, cq_bytes(text), cq_bool(c["add_special"]), cq_ids(ids), code, cq_bytes(bytes.fromhex(o.get("dec", ""))))


def render_pretok(c, o):
    ctbl = cq_list(["(%d%%N, %d%%N)" % (r, m) for r, m in o.get("classes", [])], "(N * N)")
    return "chk_pretok %d%%N %s %s %s" % (c["which"], ctbl, cq_bytes(bytes.fromhex(c["text"])), cq_strs([bytes.fromhex(x) for x in o.get("pieces", [])]))


def render_dec(v, c, o):
    ids = c["ids"]
    dec = bytes.fromhex(o.get("dec", ""))
    if v.kind == "bpe":
        vt = sparse_vocab_term(v, [], ids)[0] if v.sparse else v.name
        return "chk_bpe_dec %s %s %s %s" % (vt, cq_ids(ids), cq_bool("dec" in o), cq_bytes(dec))
    code = 0 if "dec" in o else (1 if "dec_err" in o else 2)
    return "chk_spm_dec %s %s %d%%N %s" % (v.name, cq_ids(ids), code, cq_bytes(dec))


def model_term(v, c, o):
    if c["op"] == "dec":
        vt = (sparse_vocab_term(v, [], c["ids"])[0] if v.sparse else v.name)
        return ("bpe_decode %s %s" if v.kind == "bpe" else "spm_decode %s %s") % (vt, cq_ids(c["ids"]))
    text = bytes.fromhex(c["text"])
    if v.kind == "bpe":
        tbl = list(zip(c["frags"], o.get("splits", [])))
        tterm = cq_list(["(%s, %s)" % (cq_bytes(bytes.fromhex(f)), cq_strs([bytes.fromhex(p) for p in ps])) for f, ps in tbl], "(str * list str)")
        if v.sparse:
            vt, _, _ = sparse_vocab_term(v, [bytes.fromhex(p) for f, ps in tbl for p in ps], o.get("ids", []))
        else:
            vt = v.name
        return "let ids := bpe_encode %s (table_split %s) %s %s in (ids, bpe_decode %s ids)" % (vt, tterm, cq_bytes(text), cq_bool(c["add_special"]), vt)
    return "let ids := spm_encode %s %s %s in (ids, spm_decode %s ids)" % (v.name, cq_bytes(text), cq_bool(c["add_special"]), v.name)


def validate_sparse(ctx, binp, vocabs, cases, obs):
    """the per-case restriction of the llama vocabulary handed to the Coq model is python's view of encoder.json /
    vocab.bpe: check it against what the real Vocabulary.Encode / Merge answer for the same strings"""
    for v in vocabs:
        if not v.sparse:
            continue
        strings, pairs = {}, {}
        for c, o in zip(cases, obs):
            if c["vocab"] != v.name or "ids" not in o:
                continue
            pieces = [bytes.fromhex(p) for ps in o.get("splits", []) for p in ps]
            _, ents, mrg = sparse_vocab_term(v, pieces, o["ids"])
            strings.update(ents)
            pairs.update(mrg)
            for p in pieces[:3]:
                strings.setdefault(mapped(p).encode() + b"\xef\xbf\xbe", -1)  # a string that is not a token
            if len(strings) > 6000:
                break
        sl = sorted(strings)
        pl = sorted(pairs)
        q = {"op": "vlookup", "vocab": v.name, "strings": [x.hex() for x in sl], "pairs": [y.hex() for ab in pl for y in ab]}
        out, err = ctx.run_jsonl(binp, [v.setup_line(), q], args=[vlib.REPO])
        ok = bool(out) and len(out) == 2 and out[1].get("ids") == [strings[x] for x in sl] and out[1].get("ranks") == [pairs[x] for x in pl]
        ctx.obligation("sparse llama tables agree with the real Vocabulary.Encode/Merge on %d strings and %d pairs" % (len(sl), len(pl)), ok, str(err))
        if not ok:
            ctx.mismatch("python view of the llama 3.2 vocabulary differs from model.Vocabulary (Encode/Merge lookups)", {"strings": len(sl), "pairs": len(pl)},
                         {"got": str(out)[:500]}, None)


# ------------------------------------------------------------------ run

def run(ctx, only=None):
    ctx.rule = ("cases: for each synthetic BPE vocabulary (4 quick / 7 thorough, fresh per seed), each synthetic SentencePiece vocabulary (3 / 5) and the "
                "llama 3.2 test vocabulary: corpus of past minimal failures; texts covering every byte value of valid UTF-8; ~115 fixed words (scripts, "
                "whitespace, digits, punctuation incl. ~ and DEL, C1 controls, combining marks, emoji, U+2581, byte-token literals); runs of one/two symbols "
                "(equal ranks/scores); every string up to length 3 (thorough 5) over {a,b,space(,~)}; random texts over a small alphabet (many merges) "
                "and over the word list; texts with one or several planted special-token literals (+ the parts alone); decode-only id lists (incl. out-of-range ids); addSpecial on/off; "
                "pre-tokeniser alone: for the llama 3 and tekken patterns read from the current sources, every string up to length 3 (thorough 4) over 13-25 class representatives, "
                "fixed and random texts (contractions in both cases, digit runs, whitespace runs, every script), plus two test patterns for gaps and empty matches; "
                "non-trivial = more than one token and not one token per byte (a merge or a multi-byte piece happened), or a non-empty decode for decode-only; "
                "distinct = by (vocabulary, text, add_special) / (vocabulary, ids)")
    ctx.trusted = ["Coq 8.16.1 kernel + vm_compute", "hand-written model coq/Tok/*.v tied to model/process_text.go and model/process_text_spm.go by this differential run only",
                   "regexp2: the patterns of the sources (llama 3, tekken) are MODELLED (Tok/Pretok.v: backtracking matcher + match loop) and compared with the real split on every case; "
                   "what stays an oracle is the per-rune Unicode class membership (\\p{L}, \\p{N}, \\s, ...), observed from the real engine and handed to the model as a table "
                   "(the partition theorem holds for ANY class table); for arbitrary patterns the Section-style hypothesis split_partition remains",
                   "Go runtime string<->[]rune conversions, strings.Index/ReplaceAll, strconv.ParseUint, container/heap and gods binaryheap as modelled in Tok/Utf8.v, Tok/Heap.v",
                   "Go harness harness/cmd/c20 (+ overlay model/c20.go, build tag verif); python generator/monitor props/c20.py",
                   "llama 3.2 vocabulary handed to the model as a per-case restriction to the strings that can be looked up (validated against the real Vocabulary.Encode/Merge)"]
    ctx.assumptions = ["round-trip theorems: vocabulary covers every byte (every single mapped rune / every <0xXX> token present), text valid UTF-8 without NUL, addSpecial=false",
                       "C20_bpe_roundtrip (arbitrary pattern): pre-tokeniser returns a partition (hypothesis; tested on every fragment); C20_bpe_roundtrip_llama3/_tekken: no such hypothesis "
                       "(tekken: every \\p{L} rune is in a letter subclass - tested on every observed class)",
                       "special-token strings are non-empty",
                       "round trip needs the pre-tokeniser to return a PARTITION of each text fragment (C20_bpe_decode_is_pieces: Decode(Encode(t)) is the concatenation of the pieces); "
                       "tested per model constructor (llama, mllama, mistral3; gemma2/gemma3 have no pre-tokeniser) and per GGUF metadata variant (pre unset/llama-bpe/qwen2/default/gpt-2/tekken, "
                       "explicit pretokenizer key, add_bos/add_eos) on whitespace-rich texts through the real constructors with a fake fs.Config",
                       "float32 scores are only compared: the model uses integers, the generator integer-valued scores"]
    ctx.proof_stage(["Tok"], "Tok/Properties_C20.v", extra_targets=["Tok/Corr.v"])
    binp = ctx.go_build("c20")
    if not binp:
        return
    vocabs, cases = gen(ctx)
    if only is not None:
        cases = only(vocabs)
    vby = {v.name: v for v in vocabs}
    setup = [v.setup_line() for v in vocabs]
    side = {}
    if only is None:
        # long inputs and the idle case run in their own harness processes, concurrently with the main one
        lcases = gen_long(ctx, vocabs)
        lsetup = [v.setup_line() for v in vocabs if any(c["vocab"] == v.name for c in lcases)]
        icases = idle_cases(vocabs, ctx.quick())

        def side_run(key, cs):
            side[key] = ctx.run_jsonl(binp, cs, args=[vlib.REPO], timeout=1500)
        ccases = ctor_cases(ctx, vocabs)
        csetup = [v.setup_line() for v in vocabs if any(c["vocab"] == v.name or c.get("direct") == v.name for c in ccases)]
        th = [threading.Thread(target=side_run, args=("long", lsetup + lcases)), threading.Thread(target=side_run, args=("idle", icases)),
              threading.Thread(target=side_run, args=("constructors", csetup + ccases))]
        for t in th:
            t.start()
    obs, err = ctx.run_jsonl(binp, setup + cases, args=[vlib.REPO])
    if only is None:
        for t in th:
            t.join()
        for key, cs, skip in (("long", lsetup + lcases, len(lsetup)), ("idle", icases, 0), ("constructors", csetup + ccases, len(csetup))):
            so, se = side.get(key, (None, "not run"))
            okk = so is not None and len(so) == len(cs)
            ctx.obligation("harness c20 answered every %s case" % key, okk, str(se))
            if not okk:
                ctx.proof_failures.append({"obligation": "correspondence: harness c20 did not answer every %s case" % key, "detail": str(se)})
                continue
            if key == "constructors":
                judge_ctor(ctx, vby, cs, so)
            else:
                judge_long(ctx, vby, cs, so, binp)
    if obs is None or len(obs) != len(setup) + len(cases):
        ctx.obligation("harness c20 answered every case", False, str(err))
        ctx.proof_failures.append({"obligation": "correspondence: harness c20 did not answer every case", "detail": str(err)})
        return
    sobs, obs = obs[:len(setup)], obs[len(setup):]
    # the special vocabulary the implementation derives = the one the model derives (python restates it only to pick fragments)
    for v, so in zip(vocabs, sobs):
        if "specials" not in so or [bytes.fromhex(x) for x in so["specials"]] != v.specials:
            ctx.mismatch("Tok/Vocab.specials_from: SpecialVocabulary() differs", {"vocab": v.name}, so, [s.hex() for s in v.specials])
    validate_sparse(ctx, binp, vocabs, cases, obs)
    header = HEADER0 + "".join(v.coq_def() for v in vocabs if not v.sparse)
    items, meta = [], []
    part_bad = 0
    fails = {}
    groups = {}
    npt_bad = 0
    seq_fail = []
    cls_bad = []
    for c, o in zip(cases, obs):
        for r_, m_ in o.get("classes", []) if isinstance(o, dict) else []:
            # hypothesis of C20_pretokenize_partition_tekken: a \p{L} rune is in one of the letter subclasses
            if m_ & 1 and not m_ & 0b11111000:
                cls_bad.append(r_)
        if c["op"] == "seq":
            v = vby[c["vocab"]]
            steps = o.get("steps")
            ctx.note_case({"v": v.name, "seq": c["texts"], "s": c["add_special"]}, bool(steps) and len(steps) > 2, v.kind + ":sequence",
                          sample={"case": {"vocab": v.name, "texts": [repr(bytes.fromhex(x)) for x in c["texts"]]}, "impl": [st.get("ids") for st in (steps or [])][:4]})
            if steps is None or len(steps) != len(c["texts"]):
                ctx.violation({"family": v.kind, "class": "encode-failed"}, "sequence of Encode calls failed: %s" % str(o)[:300], {"case": c, "impl": o})
                continue
            for k, (th, st) in enumerate(zip(c["texts"], steps)):
                tb = bytes.fromhex(th)
                if any(i < 0 or i >= o["n"] for i in st.get("ids", [])):
                    ctx.violation({"family": v.kind, "class": "id-out-of-vocab"}, "Encode(%r) produced an id outside the vocabulary" % tb, {"case": c, "impl": st})
                if not st.get("same", False):
                    seq_fail.append((v, c, k, st))
                    break
            continue
        if c["op"] == "pretok":
            tb = bytes.fromhex(c["text"])
            ps = [bytes.fromhex(x) for x in o.get("pieces", [])]
            ctx.note_case({"pre": c["which"], "p": c["pre"], "t": c["text"]}, len(ps) > 1, "pretok:" + c["klass"],
                          sample={"case": {"pattern": c["pre"], "text": repr(tb)}, "impl": [repr(x) for x in ps]})
            if "pieces" not in o:
                ctx.violation({"family": "bpe", "class": "pretok-failed"}, "split panicked/failed on %r: %s" % (tb, o), {"case": c, "impl": o})
            elif c["which"] < 2 and is_valid_utf8(tb) and (b"".join(ps) != tb or any(x == b"" for x in ps)):
                npt_bad += 1
                if npt_bad <= 3:
                    ctx.violation({"family": "bpe", "class": "pretok-not-partition"},
                                  "the pre-tokeniser pattern %r splits %r into %r: not a partition into non-empty pieces, so Encode drops/duplicates text for "
                                  "every vocabulary and Decode(Encode(t)) != t" % (c["pre"], tb, ps), {"case": c, "impl": o})
            items.append(render_pretok(c, o) if "pieces" in o else "false")
            meta.append((None, c, o))
            continue
        v = vby[c["vocab"]]
        tb = bytes.fromhex(c["text"])
        if "harness_error" in o:
            ctx.obligation("harness c20 case", False, str(o))
            ctx.proof_failures.append({"obligation": "harness error", "detail": str(o)})
            continue
        if c["op"] == "dec":
            inr = all(0 <= i < len(v.values) for i in c["ids"])
            ctx.note_case({"v": v.name, "ids": c["ids"]}, inr and "dec" in o and len(o["dec"]) > 0, v.kind + ":decode-only",
                          sample={"case": {"vocab": v.name, "ids": c["ids"]}, "impl": o})
            if "panic" in o and inr:
                ctx.violation({"family": v.kind, "class": "decode-panic"}, "Decode(%s) panicked on ids inside the vocabulary: %s" % (c["ids"], o["panic"]), {"case": c, "impl": o})
            items.append(render_dec(v, c, o))
            meta.append((v, c, o))
            continue
        ids = o.get("ids", [])
        nontriv = len(ids) > 1 and len(ids) != len(tb)
        ctx.note_case({"v": v.name, "t": c["text"], "s": c["add_special"]}, nontriv, v.kind + ":" + c["klass"], sample={"case": {k: c[k] for k in ("vocab", "text", "add_special")}, "text": repr(tb), "impl": {k: o[k] for k in o if k != "splits"}})
        # --- monitor 1: ids inside the vocabulary
        if "panic" in o or "enc_err" in o:
            ctx.violation({"family": v.kind, "class": "encode-failed"}, "Encode panicked/failed on %r: %s" % (tb, o), {"case": c, "impl": o})
            items.append("false")
            meta.append((v, c, o))
            continue
        if any(i < 0 or i >= o["n"] for i in ids):
            ctx.violation({"family": v.kind, "class": "id-out-of-vocab"}, "Encode(%r) produced an id outside the vocabulary: %s" % (tb, ids), {"case": c, "impl": o})
        # --- hypothesis test: the pre-tokeniser returned a partition into non-empty pieces
        for f, ps in zip(c["frags"], o.get("splits", [])):
            if "".join(ps) != f or any(p == "" for p in ps):
                part_bad += 1
                ctx.mismatch("hypothesis split_partition (pre-tokeniser returns a partition of its input) fails on the real regexp2 split",
                             {"fragment": f, "pre": v.pre}, {"pieces": ps}, None)
        # --- monitor 2: round trip
        if in_property_domain(v, c) and roundtrip_fails(c, o):
            fails.setdefault(v.name, []).append((c, o))
        # --- monitor 3 bookkeeping: planted special literal
        for gs in (c["group"] if isinstance(c.get("group"), list) else [c["group"]] if c.get("group") else []):
            g = gs.split(":")
            groups.setdefault(g[0], {})[g[1]] = (c, o, g[2] if len(g) > 2 else None)
        items.append(render(v, c, o))
        meta.append((v, c, o))
    ctx.obligation("hypothesis split_partition holds on every observed pre-tokeniser answer", part_bad == 0)
    ctx.obligation("hypothesis of the tekken partition theorem (every \\p{L} rune is Lu/Lt/Lm/Lo/Ll) holds on every observed class", not cls_bad, str(cls_bad[:10]))
    if cls_bad:
        ctx.mismatch("hypothesis letter_subclasses of C20_pretokenize_partition_tekken fails on the real engine's classes", {"runes": cls_bad[:10]}, None, None)
    # monitor 3: every planted special literal is encoded as exactly its id, between the encodings of the parts
    nsp = 0
    for g, d in groups.items():
        if "t" not in d:
            continue
        ct, ot, sph = d["t"]
        v = vby[ct["vocab"]]
        seq = [bytes.fromhex(x) for x in sph.split(",")]
        if "a" in d and "b" in d:
            parts = [d["a"], d["b"]]
        else:
            parts = [d.get("p%d" % n) for n in range(len(seq) + 1)]
        if any(x is None for x in parts) or "ids" not in ot or any("ids" not in x[1] for x in parts):
            continue
        whole = bytes.fromhex(ct["text"])
        # only when the planted literals are the only special literals of the text (no accidental or overlapping occurrence)
        occ = sum(whole.count(x) for x in set(v.specials) if x)
        if occ != len(seq):
            continue
        nsp += 1
        want = []
        for n, (cp_, op_, _) in enumerate(parts):
            want += op_["ids"]
            if n < len(seq):
                want.append(v.enc[seq[n]])
        if ot["ids"] != want:
            ctx.violation({"family": v.kind, "class": "special-literal"},
                          "text %r with the special-token literals %s (ids %s) encoded to %s, expected %s (parts encoded alone, literal -> its id)" % (
                              whole, seq, [v.enc[x] for x in seq], ot["ids"], want),
                          {"case": ct, "impl": ot, "parts": [x[1] for x in parts]})
    ctx.extra["special_literal_checks"] = nsp
    # monitor 4: state across calls - shrink each diverging sequence to (one earlier text, the diverging text)
    for v, c, k, st in seq_fail[:4]:
        texts = c["texts"]
        cand = [[texts[j], texts[k]] for j in range(k)] + [[texts[k], texts[k]]]
        cs = [{"op": "seq", "vocab": v.name, "texts": x, "add_special": c["add_special"], "new_live": True} for x in cand]
        ob, _ = ctx.run_jsonl(binp, [v.setup_line()] + cs, args=[vlib.REPO])
        pair = None
        for x, oo in zip(cand, (ob or [])[1:]):
            sts = oo.get("steps") or []
            if len(sts) == 2 and not sts[1].get("same", True):
                pair = (x, sts)
                break
        tb = bytes.fromhex(texts[k])
        sp_in = [s_ for s_ in v.specials if s_ and s_ in tb]
        ctx.violation({"family": v.kind, "class": "sequence-state"},
                      "%s vocabulary %s: Encode(%r) on a tokenizer that had encoded %s before returns %s, a fresh tokenizer returns %s%s" % (
                          v.kind, v.name, tb, ("%r" % bytes.fromhex(pair[0][0])) if pair else "%d earlier texts" % k, st.get("ids"), st.get("fresh"),
                          "; the text contains the special-token literal(s) %s (ids %s), which must be encoded as those ids" % (sp_in, [v.enc[x] for x in sp_in]) if sp_in else ""),
                      {"vocab": v.setup_line() if not v.sparse else {"op": "llama"}, "sequence": [repr(bytes.fromhex(x)) for x in texts[:k + 1]], "sequence_hex": texts[:k + 1],
                       "minimal_pair_hex": pair[0] if pair else None, "impl_step": st, "add_special": c["add_special"]})
    # monitor 2: shrink and classify
    nfail = 0
    for vn, lst in fails.items():
        v = vby[vn]
        seen_min = set()
        budget = 6
        for c, o in sorted(lst, key=lambda x: len(x[0]["text"])):
            tb = bytes.fromhex(c["text"])
            if any(m in tb for m in seen_min):
                nfail += 1
                continue
            if budget == 0:
                # unexplained by an already-minimised failure and out of shrinking budget: report as is
                mins = [tb]
            else:
                budget -= 1
                mins = minimise(ctx, binp, v, tb)
            for m in mins:
                if m in seen_min:
                    continue
                seen_min.add(m)
                nfail += 1
                cause = classify(v, m)
                ctx.violation({"family": v.kind, "class": "roundtrip", "cause": cause},
                              "%s vocabulary %s: Decode(Encode(%r)) != text (minimal failing text %r from %r; decoded %r)" % (
                                  v.kind, v.name, m, m, tb, bytes.fromhex(o.get("dec", "")) if "dec" in o else o),
                              {"vocab": v.setup_line() if not v.sparse else {"op": "llama"}, "minimal_text_hex": m.hex(), "minimal_text": repr(m), "from_case": {k: c[k] for k in ("vocab", "text", "add_special")}, "impl": {k: o[k] for k in o if k != "splits"}})
    ctx.extra["roundtrip_failures_seen"] = nfail
    # correspondence
    bad, log = ctx.coq_eval(header, items, per_file=max(40, len(items) // 32 + 1))
    if bad is None:
        ctx.obligation("correspondence: model evaluated on all cases", False, log)
        ctx.proof_failures.append({"obligation": "correspondence evaluation failed in coqc", "detail": log})
        return
    ctx.disagreements_checked = len(items)
    ctx.obligation("correspondence: model = implementation on %d cases" % len(items), not bad)
    for i in bad[:20]:
        v, c, o = meta[i]
        if c["op"] == "pretok":
            ctx.mismatch("Tok/Corr.chk_pretok (modelled pattern %s vs the real regexp2 split of the pattern in the sources)" % ("llama3", "tekken", "gappy-test", "empty-match-test")[c["which"]],
                         {"pattern": c["pre"], "text": c["text"], "text_repr": repr(bytes.fromhex(c["text"])), "klass": c["klass"]}, o,
                         ctx.coq_print(header, "pretok (pattern_of %d%%N %s) %s" % (c["which"], cq_list(["(%d%%N, %d%%N)" % (r, m) for r, m in o.get("classes", [])], "(N * N)"),
                                                                                 cq_bytes(bytes.fromhex(c["text"])))) if len(ctx.mismatches) < 3 else None)
            continue
        ctx.mismatch("Tok/Corr.%s" % (("chk_bpe" if v.kind == "bpe" else "chk_spm") + ("_dec" if c["op"] == "dec" else "")),
                     {k: c[k] for k in ("vocab", "text", "add_special", "klass", "ids") if k in c},
                     {k: o[k] for k in o}, ctx.coq_print(header, model_term(v, c, o)) if len(ctx.mismatches) < 3 else None)
    if ctx.tier == "thorough":
        ctx.coqchk(["V.Tok.Properties_C20"])


def replay(ctx, path):
    """re-run the shrunk case of a replay file (violation: the minimal text with its vocabulary; correspondence break: the
    disagreeing cases) on both sides, then the whole check"""
    r = json.load(open(path))
    ctx.log("replaying", path)
    rep = r.get("replay") or {}
    texts = []
    if rep.get("minimal_text_hex") is not None:
        texts.append((rep.get("from_case", {}).get("vocab"), rep["minimal_text_hex"]))
    if rep.get("case") and isinstance(rep["case"], dict) and "text" in rep["case"]:
        texts.append((rep["case"].get("vocab"), rep["case"]["text"]))
    for d in r.get("disagreements", []):
        if isinstance(d.get("case"), dict) and "text" in d["case"]:
            texts.append((d["case"].get("vocab"), d["case"]["text"]))

    def only(vocabs):
        out = []
        for vn, th in texts:
            for v in vocabs:
                if vn in (None, v.name):
                    b = bytes.fromhex(th)
                    frs = [f for f, fid in py_fragments(v, b) if fid is None] if v.kind == "bpe" else []
                    out.append({"op": "enc", "vocab": v.name, "text": th, "frags": sorted(set(f.hex() for f in frs)), "add_special": False,
                                "klass": "replay", "group": None})
        return out
    if texts:
        seed = r.get("seed")
        if seed is not None and seed != ctx.seed:
            ctx.log("note: replay was recorded with VERIF_SEED=%s (synthetic vocabularies depend on the seed)" % seed)
        run(ctx, only=only)
    else:
        run(ctx)


MANIFEST = {
    "property_id": "C20",
    "quick_cmd": "python3 check.py C20 --tier quick",
    "thorough_cmd": "python3 check.py C20 --tier thorough",
    "evidence_file": "evidence/C20.json",
    "replay_cmd_template": "python3 check.py C20 --replay {path}",
    "engine": "coq-model+go-differential",
    "level_claimed": {
        "category": "proof",
        "text": "Coq theorems over an executable model of both tokenizers (any vocabulary that covers every byte, any text): the byte<->rune map is inverted by Decode "
                "on all 255 non-NUL bytes (exhaustive), the merge loops preserve the text whatever the ranks/scores, the special-token split is a partition, "
                "Decode(Encode(t)) = t for BPE and SentencePiece under the stated guards, ids lie in the vocabulary, a special literal becomes its id. "
                "The pre-tokeniser patterns of the sources (llama 3, tekken) are modelled as a backtracking matcher + match loop and proved to partition every valid text for any Unicode class tables "
                "(round trip restated without any pre-tokeniser hypothesis); only per-rune class membership is observed from regexp2. "
                "The model is tied to model/process_text.go and process_text_spm.go by a differential run evaluated inside Coq with vm_compute.",
        "design_ref": "DESIGN.md section 5, C20",
    },
    "level_note": "Trusted: Coq kernel/vm_compute; regexp2 only for per-rune class membership and as the differential reference of the modelled patterns; the model-to-code tie is differential testing (generator-bounded). "
                  "Known findings: SentencePiece cannot round-trip U+2581 or byte-token literals; ids 105/106 are hard-wired special (non-ASCII literal does not round-trip).",
    "technique": "Coq proof (exhaustive byte map, loop invariants of the merge loops, induction over fragments) + model/implementation differential check",
}
