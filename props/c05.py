"""C05 - a GGUF file written by ggml.WriteGGUF decodes (ggml.Decode) to the same metadata, tensors and tensor bytes.

Tie (P): every case = (key/value map, tensor list, maxArraySize) is written and decoded by the REAL code (harness c05)
and by the Coq model (Gguf/Model.v: write_ordered / decode, evaluated by vm_compute): output bytes are compared
exactly, the decode result field by field.  Leaf tables (typeSize/blockSize for every kind, ggufPadding for every
(offset mod a, a) with a <= 64) are enumerated exhaustively on every run.
Monitor: the property itself on what the implementation produced - decoded keys/values = written ones (+ the patched
general.parameter_count), tensor names/kinds/reversed shapes in the writer's order, for every tensor the bytes at
Tensors().Offset + tensor.Offset are the bytes written and that position is a multiple of the alignment, the end
offset equals the file length.
"""
import json
from lib import vlib
from lib.vlib import cq_list, cq_bool

SETUP_BUILDS = [{"name": "c05"}, {"name": "c05", "race": True}]
COQ_TARGETS = ["Gguf/Properties_C05.v", "Gguf/Corr.v"]
HEADER = ("From Coq Require Import List NArith ZArith Bool Uint63.\nFrom V Require Import Common.Bytes Gguf.Model Gguf.SeekerModel Gguf.Corr.\n"
          "Import ListNotations.\nOpen Scope N_scope.\n")
M64 = 1 << 64

K_ALIGN = b"general.alignment"
K_PARAMS = b"general.parameter_count"


# ---------------------------------------------------------------- size tables (generation only; the monitor uses Go's)
def block_size(k):
    if k in (0, 1, 24, 25, 26, 27, 28, 30):
        return 1
    if k in (2, 3, 6, 7, 8, 9, 20):
        return 32
    return 256


def type_size(k):
    bs = block_size(k)
    t = {0: 4, 1: 2, 2: 2 + bs // 2, 3: 4 + bs // 2, 6: 6 + bs // 2, 7: 8 + bs // 2, 8: 2 + bs, 9: 4 + bs,
         10: bs // 16 + bs // 4 + 4, 11: bs // 8 + bs // 4 + 14, 12: 16 + bs // 2, 13: 16 + bs // 8 + bs // 2,
         14: bs // 2 + bs // 4 + bs // 16 + 2, 15: 4 + bs + 2 * bs // 16, 16: 2 + 2 * bs // 8, 17: 2 + 2 * bs // 8 + bs // 32,
         18: 2 + bs // 4 + bs // 8, 19: 2 + bs // 8 + bs // 16, 20: 2 + bs // 2, 21: 2 + bs // 4 + bs // 8 + bs // 32 + 4,
         22: 2 + bs // 4 + bs // 16, 23: 4 + bs // 2 + bs // 64, 24: 1, 25: 2, 26: 4, 27: 8, 28: 8, 29: bs // 8 + bs // 16 + bs // 32, 30: 2}
    return t.get(k, 0)


def params(shape):
    c = 1
    for n in shape:
        c = (c * n) % M64
    return c


def tsize(kind, shape):
    return ((params(shape) * type_size(kind)) % M64) // block_size(kind)


def pat(seed, n):
    """procedural tensor data; same formula as Gguf/Corr.pat"""
    return bytes((seed * 37 + j * 11 + 1) % 251 + 1 for j in range(n))


def hash_bytes(b):
    h = 7
    for x in b:
        h = (h * 1000003 + x + 1) % 2305843009213693951
    return h


# ---------------------------------------------------------------- generators
KEYS = [b"general.architecture", b"general.name", b"llama.block_count", b"tokenizer.ggml.tokens", b"tokenizer.ggml.scores",
        b"tokenizer.ggml.token_type", b"a", b"", b"general.file_type", b"llama.attention.head_count", b"z.z", b"general.alignmen",
        b"general.alignment2", b"tokenizer.chat_template", b"\xff\x00k", b"B", b"general.parameter_count"]
NAMES = [b"token_embd.weight", b"output.weight", b"blk.0.attn_q.weight", b"blk.0.ffn_up.weight", b"blk.1.attn_q.weight", b"blk.2.x",
         b"blk.10.attn_k.weight", b"blk.-3.w", b"blk.1x.w", b"blk.7", b"blk.3.", b"", b"a", b"b", b"c", b"v.blk.0.w", b"rope_freqs.weight",
         b"blk. 4.w", b"blk.+5.w", b"blk.007.w"]
KINDS = list(range(0, 32)) + [40, 1000]


def rnd_str(rng, maxlen=8):
    n = rng.choice([0, 0, 1, 2, 3, 5, maxlen])
    return bytes(rng.choice([0, 1, 65, 66, 97, 98, 46, 255, 128, 32]) for _ in range(n))


def rnd_u32(rng):
    return rng.choice([0, 1, 2, 3, 7, 31, 32, 255, 256, 65535, 65536, (1 << 31) - 1, 1 << 31, (1 << 32) - 1, rng.getrandbits(32)])


def rnd_f32(rng):
    # bit patterns incl. zeros, denormals, infinities and quiet NaNs (signalling NaNs may be quieted by the FPU on the way)
    r = rng.getrandbits(32)
    if (r >> 23) & 0xff == 0xff and r & 0x7fffff:
        r |= 0x00400000   # quiet NaN
    return rng.choice([0, 1 << 31, 0x3f800000, 0xbf800000, 0x7f800000, 0xff800000, 0x7fc00000, 0x7fc00001, 1, 0x00800000, r, r])


def gen_value(rng, big=False):
    t = rng.choice(["u32", "f32", "bool", "str", "i32s", "u32s", "f32s", "strs"])
    if t == "u32":
        return {"t": t, "v": str(rnd_u32(rng))}
    if t == "f32":
        return {"t": t, "v": str(rnd_f32(rng))}
    if t == "bool":
        return {"t": t, "v": rng.random() < 0.5}
    if t == "str":
        if big and rng.random() < 0.3:
            return {"t": t, "v": (bytes([rng.randrange(256)]) * rng.choice([16384, 16385, 20000])).hex()}
        return {"t": t, "v": rnd_str(rng, 40).hex()}
    n = rng.choice([0, 0, 1, 2, 3, 4, 5, 9]) if not big else rng.choice([1023, 1024, 1025, 1100])
    if t == "strs":
        return {"t": t, "v": [rnd_str(rng, 6).hex() for _ in range(n)]}
    if t == "f32s":
        return {"t": t, "v": [str(rnd_f32(rng)) for _ in range(n)]}
    return {"t": t, "v": [str(rnd_u32(rng)) for _ in range(n)]}


def gen_kv(rng, align, big=False):
    kv = {}
    for _ in range(rng.choice([0, 1, 2, 3, 4, 6])):
        k = rng.choice(KEYS) if rng.random() < 0.8 else rnd_str(rng, 12)
        if k == K_ALIGN:
            continue
        kv[k] = gen_value(rng, big and rng.random() < 0.5)
    if align is not None:
        kv[K_ALIGN] = {"t": "u32", "v": str(align)}
    items = [{"k": k.hex(), **v} for k, v in kv.items()]
    rng.shuffle(items)
    return items


def gen_shape(rng, kind, unaligned):
    bs = block_size(kind)
    r = rng.random()
    if r < 0.05:
        return []
    if r < 0.10:
        return [rng.choice([0, 1, 3]), 0]
    if r < 0.13:
        return [1 << 32, 1 << 32] if rng.random() < 0.5 else [(1 << 63) + 1, 2, 3]
    nb = rng.choice([1, 1, 2, 3, 5, 7]) if unaligned else rng.choice([1, 2, 4, 8])
    first = bs * nb if rng.random() < 0.85 else bs * nb + rng.randrange(bs)   # not always a whole number of blocks
    shape = [first]
    for _ in range(rng.choice([0, 0, 1, 1, 2, 3])):
        shape.append(rng.choice([1, 1, 2, 3]))
    rng.shuffle(shape)
    return shape


def gen_tensors(rng, n, unaligned=True, mismatch=False):
    ts = []
    for i in range(n):
        kind = rng.choice([0, 0, 1, 24, 2, 8, 12, 14, 30]) if rng.random() < 0.7 else rng.choice(KINDS)
        shape = gen_shape(rng, kind, unaligned)
        sz = tsize(kind, shape)
        if sz > 4096:
            shape = [block_size(kind)]
            sz = tsize(kind, shape)
        if mismatch and rng.random() < 0.5:
            sz = max(0, sz + rng.choice([-1, 1, 3]))
        name = rng.choice(NAMES) if rng.random() < 0.85 else rnd_str(rng, 10)
        data = pat(i, sz)
        ts.append({"name": name.hex(), "kind": kind, "shape": [str(x) for x in shape], "data": data.hex()})
    return ts


def witness_case():
    """the minimal case of the offset defect (fixed by fixes/C05-offsets.patch): F32 tensors of 1, 7, 1 elements"""
    return {"op": "rt", "kv": [], "max_array": -1, "klass": "corpus",
            "tensors": [{"name": b"a".hex(), "kind": 0, "shape": ["1"], "data": "01020304"},
                        {"name": b"b".hex(), "kind": 0, "shape": ["7"], "data": "aa" * 28},
                        {"name": b"c".hex(), "kind": 0, "shape": ["1"], "data": "05060708"}]}


def corpus_cases():
    import glob
    import os
    out = [witness_case()]
    for p in sorted(glob.glob(os.path.join(vlib.VERIF, "corpus", "C05", "*.json"))):
        try:
            c = json.load(open(p))
            c["klass"] = "corpus"
            out.append(c)
        except Exception:
            pass
    return out


def lying_witnesses():
    """>= 2 tensors, a non-last one with a size that is not a multiple of the alignment, written through WriterTo's that return 0 / n-1"""
    out = []
    for lie in ("zero", "short", "double", "neg"):
        out.append({"op": "rt", "kv": [], "max_array": -1, "klass": "corpus+lying-writer",
                    "tensors": [{"name": b"a".hex(), "kind": 0, "shape": ["3"], "data": pat(0, 12).hex(), "lie": lie},
                                {"name": b"b".hex(), "kind": 1, "shape": ["3", "5"], "data": pat(1, 30).hex(), "lie": lie},
                                {"name": b"c".hex(), "kind": 0, "shape": ["1"], "data": pat(2, 4).hex(), "lie": lie}]})
    return out


def gen_cases(ctx):
    rng = ctx.rng
    cases = corpus_cases() + lying_witnesses()
    n = 200 if ctx.quick() else 6000
    for i in range(n):
        r = rng.random()
        align = rng.choice([None, None, 1, 2, 8, 32, 64, 3, 5, 16, 100, 4096 if rng.random() < 0.2 else 7])
        if r < 0.50:
            klass, nt = "3plus-unaligned", rng.choice([3, 3, 4, 5, 6, 8])
            ts = gen_tensors(rng, nt, True)
        elif r < 0.60:
            klass, ts = "few-tensors", gen_tensors(rng, rng.choice([0, 1, 2]), True)
        elif r < 0.68:
            klass, ts = "aligned-sizes", gen_tensors(rng, rng.choice([3, 5]), False)
        elif r < 0.71:
            klass, ts = "many-tensors", gen_tensors(rng, rng.choice([19, 20, 21, 22, 30, 45]), True)
        elif r < 0.74:
            # more than 20 tensors whose block numbers make the comparator a consistent order: the order is then determined
            klass, ts = "many-consistent", gen_tensors(rng, rng.choice([21, 25, 33, 45]), True)
            pool = rng.choice([[b"blk.%d.w" % k for k in (1, 2, 3, 7, 10)] + [b"output", b"token_embd"], [b"blk.0.a", b"blk.0.b", b"x", b"y", b"blk.-2.z"],
                               [b"blk.0.a", b"blk.1.b", b"blk.2.c", b"blk.11.d"]])
            for t in ts:
                t["name"] = rng.choice(pool).hex()
        elif r < 0.80:
            klass, ts = "size-mismatch", gen_tensors(rng, rng.choice([1, 3, 4]), True, mismatch=True)
        else:
            klass, ts = "kv-heavy", gen_tensors(rng, rng.choice([0, 1, 3]), True)
        big = klass == "kv-heavy" and rng.random() < 0.25
        kv = gen_kv(rng, align, big)
        if klass == "kv-heavy":
            kv += [x for x in gen_kv(rng, None, big) if x["k"] not in {y["k"] for y in kv}]
        ma = rng.choice([-1, -1, -1, 0, 0, 1, 2, 3, 1024, 5000]) if not big else rng.choice([-1, 0, 1024, 1100])
        if rng.random() < 0.35:
            # the tensor's io.WriterTo misreports how many bytes it wrote (the convert package's writers all return 0): the layout must depend on the
            # declared shapes/types only
            lie = rng.choice(["zero", "zero", "short", "double", "neg"])
            for t in ts:
                if rng.random() < 0.8:
                    t["lie"] = lie
            klass += "+lying-writer"
        cases.append({"op": "rt", "kv": kv, "tensors": ts, "max_array": ma, "file": rng.random() < 0.08, "klass": klass})
    # concurrent and repeated use of WriteGGUF in ONE process: state shared between calls (pools, caches, scratch buffers) only shows when
    # calls overlap or follow each other.  Every file is judged against ITS OWN input.
    def writer(nkv_lo, nkv_hi):
        kv = []
        for _ in range(3):
            kv += [x for x in gen_kv(rng, None, False) if x["k"] not in {y["k"] for y in kv}]
        kv = kv[:rng.randint(nkv_lo, nkv_hi)]
        al = rng.choice([None, 8, 32])
        if al is not None:
            kv.append({"k": K_ALIGN.hex(), "t": "u32", "v": str(al)})
        return {"op": "rt", "kv": kv, "tensors": gen_tensors(rng, rng.choice([0, 1, 3, 4]), True), "max_array": -1}
    nconc = 14 if ctx.quick() else 300
    for i in range(nconc):
        nw = rng.choice([2, 2, 3, 4])
        ws = [writer(1, 8) for _ in range(nw)]
        mode = ["lockstep", "lockstep", "lockstep", "free", "seq"][i % 5]
        procs = rng.choice([1, 1, 4]) if mode != "free" else rng.choice([1, 4, 8])
        if mode == "seq":   # growing then shrinking key/value sections
            ws = [writer(6, 10), writer(0, 1), writer(3, 5), writer(8, 12), writer(1, 2)]
        sched = [rng.randrange(nw) for _ in range(rng.choice([1, 2, 3, 7]))] if rng.random() < 0.6 else list(range(nw))
        cases.append({"op": "conc", "writers": ws, "mode": mode, "procs": procs, "sched": sched, "klass": "concurrent-" + mode})
    # Tensor.block (fmt.Sscanf "blk.%d."): exhaustive short names + boundary cases
    a1 = bytes([0x30, 0x31, 0x39, 0x2b, 0x2d, 0x5f, 0x2e, 0x20, 0x0a, 0x0d, 0x78, 0xc2, 0xa0, 0x09])
    cases.append({"op": "block_all", "prefix": b"blk.".hex(), "alpha": (a1[:10] if ctx.quick() else a1).hex(), "maxlen": 4, "klass": "block-exhaustive"})
    cases.append({"op": "block_all", "prefix": "", "alpha": b"blk.0 ".hex(), "maxlen": 5, "klass": "block-exhaustive"})
    cases.append({"op": "block_all", "prefix": b"blk.".hex(), "alpha": bytes([0xe2, 0x80, 0x81, 0x83, 0x9f, 0xa8, 0xe3, 0xe1, 0x9a, 0x35, 0x2e]).hex(), "maxlen": 4, "klass": "block-exhaustive"})
    names = list(NAMES) + [b"blk.9223372036854775807.", b"blk.9223372036854775808.", b"blk.-9223372036854775808.", b"blk.-9223372036854775809.",
                           b"blk.00000000000000000000000000012.x", b"blk.99999999999999999999999.", b"blk.\xe2\x80\x83 5.", b"blk.\xe3\x80\x805.", b"blk.\xe2\x805.", b"blk.5",
                           b"blk.5x", b"blk.+.", b"blk.-0.", b"blk.\r\n5.", b"blk.\r5.", b"Blk.5.", b" blk.5.", b"blk .5.", b"blk..5.", b"blk.1_0.", b"blk.\xc2\x855.",
                           b"blk.\xe1\x9a\x805.", b"blk.\xe2\x81\x9f7.w", b"blk.+7.a", b"blk.-7.a", b"blk.4294967296.", b"blk.\t\x0b\x0c 3."]
    names += [b"blk." + rnd_str(rng, 6) + b"." for _ in range(40)]
    cases.append({"op": "block", "names": [x.hex() for x in names], "klass": "block-names"})
    # type.go: every file type number 0..44 (+ large), ParseFileType of its name and of other strings
    for t in list(range(0, 45)) + [255, (1 << 32) - 1]:
        cases.append({"op": "ftype", "t": str(t), "klass": "file-type"})
    for sname in [b"", b"F32", b"f32", b"Q4_K_M", b"Q4_K_M ", b"unknown", b"Q4_2", b"Q4_3", b"BF16", b"bf16", b"IQ1_M", b"IQ1_MM", b"Q4_1_F16", b"F64", b"\xff"]:
        cases.append({"op": "parse", "s": sname.hex(), "klass": "file-type"})
    # buffer_seeker.go: random io.ReadFull / Seek sequences over small data and small buffers
    for _ in range(60 if ctx.quick() else 1500):
        n = rng.choice([0, 1, 5, 17, 40, 100])
        data = bytes(rng.randrange(256) for _ in range(n))
        ops = []
        for _ in range(rng.randint(1, 12)):
            if rng.random() < 0.5:
                ops.append(["r", rng.choice([0, 1, 2, 3, 8, 16, 17, 33, n, n + 1])])
            else:
                wh = rng.choice([0, 1, 1, 1, 2])
                off = rng.choice([0, 1, -1, 5, -5, n, -n, n + 3, 16, 31, 1 << 40, -(1 << 40), (1 << 63) - 1, -(1 << 63), (1 << 63) - n - 1, rng.randint(-50, 150)])
                ops.append(["s", str(off), wh])
        cases.append({"op": "bseek", "data": data.hex(), "bufsize": rng.choice([16, 16, 17, 32, 64, 32768]), "ops": ops, "klass": "buffered-seeker"})
    # exhaustive leaves
    for k in list(range(0, 45)) + [255, 256, 1 << 31, (1 << 32) - 1]:
        cases.append({"op": "leaf_kind", "kind": str(k), "klass": "leaf-kind"})
    amax = 64 if ctx.quick() else 64
    for a in range(1, amax + 1):
        for o in range(a):
            cases.append({"op": "leaf_pad", "off": str(o + a * (o % 3)), "al": str(a), "klass": "leaf-pad"})
    for a, o in [(32, (1 << 40) + 5), (4096, 4097), ((1 << 32) - 1, 12345678901), (1 << 31, (1 << 62) + 1)]:
        cases.append({"op": "leaf_pad", "off": str(o), "al": str(a), "klass": "leaf-pad"})
    return cases


# ---------------------------------------------------------------- monitor (the property on the implementation's output)
def expected_val(e, max_array):
    """what the statement says decoding gives for a written value, in the harness' VerifVal form"""
    t = e["t"]
    if t == "u32":
        return {"t": 4, "b": e["v"]}
    if t == "f32":
        return {"t": 6, "b": e["v"]}
    if t == "bool":
        return {"t": 7, "b": "1" if e["v"] else "0"}
    if t == "str":
        return {"t": 8, "s": e["v"]}
    et = {"i32s": 5, "u32s": 4, "f32s": 6, "strs": 8}[t]
    n = len(e["v"])
    eff = 1024 if max_array == 0 else max_array
    if eff >= 0 and n > eff:
        return {"t": 9, "n": str(n), "a": None}
    if et == 8:
        return {"t": 9, "n": str(n), "a": [{"t": 8, "s": x} for x in e["v"]]}
    return {"t": 9, "n": str(n), "a": [{"t": et, "b": x} for x in e["v"]]}


def norm_val(v):
    t = v["t"]
    if t == 8:
        return {"t": 8, "s": v.get("s", "")}
    if t == 9:
        return {"t": 9, "n": v.get("n"), "a": None if v.get("a") is None else [norm_val(x) for x in v["a"]]}
    return {"t": t, "b": v.get("b")}


def align_of(c):
    for e in c["kv"]:
        if bytes.fromhex(e["k"]) == K_ALIGN and e["t"] == "u32":
            return int(e["v"])
    return 32


def prop_failures(c, o):
    """list of (class, text) - empty when the property holds on this observation"""
    out = []
    if "panic" in o:
        return [("panic", "WriteGGUF/Decode panicked: %s" % o["panic"])]
    if o.get("werr"):
        return [("write-error", "WriteGGUF failed on supported input: %s" % o["werr"])]
    d = o["dec"]
    if d.get("panic"):
        return [("decode-panic", "decoding the written file panicked: %s" % d["panic"])]
    if d.get("err"):
        return [("decode-error", "the written file does not decode: %s" % d.get("errtext"))]
    b = bytes.fromhex(o["bytes"])
    ts_in = c["tensors"]
    order = o["order"]
    if sorted(order) != list(range(len(ts_in))):
        return [("tensor-set", "the written tensor order %s is not a permutation of the input" % order)]
    # keys and values
    exp = {e["k"]: expected_val(e, c["max_array"]) for e in c["kv"]}
    pc = 0
    for t in ts_in:
        pc = (pc + params([int(x) for x in t["shape"]])) % M64
    exp[K_PARAMS.hex()] = {"t": 10, "b": str(pc)}
    got = {e["k"]: norm_val(e["v"]) for e in d["kv"]}
    if got != exp:
        diff = [k for k in set(got) | set(exp) if got.get(k) != exp.get(k)]
        out.append(("kv", "decoded key/values differ from the written ones at keys %s" % [bytes.fromhex(k) for k in diff[:3]]))
    # tensor metadata in the writer's order
    dts = d["tensors"]
    if len(dts) != len(ts_in):
        out.append(("tensor-meta", "decoded %d tensors, wrote %d" % (len(dts), len(ts_in))))
        return out
    al = align_of(c)
    toff = int(d["toff"])
    # the statement is about tensors whose WriterTo supplies Size() bytes; if one does not, every later position shifts:
    # such cases are compared with the model only
    sizes_ok = all(len(bytes.fromhex(t["data"])) == tsize(t["kind"], [int(x) for x in t["shape"]]) for t in ts_in)
    for pos, idx in enumerate(order):
        w, g = ts_in[idx], dts[pos]
        if g["name"] != w["name"] or g["kind"] != w["kind"] or g["shape"] != list(reversed(w["shape"])):
            out.append(("tensor-meta", "tensor #%d decoded as %s, written as %s" % (pos, g, {k: w[k] for k in ("name", "kind", "shape")})))
            continue
        data = bytes.fromhex(w["data"])
        if not sizes_ok:
            continue
        at = toff + int(g["offset"])
        if b[at:at + len(data)] != data:
            out.append(("tensor-bytes", "tensor #%d (%r, %d bytes): bytes at decoded location %d (data offset %d + %s) are not the bytes written"
                        % (pos, bytes.fromhex(w["name"]), len(data), at, toff, g["offset"])))
        elif at % al != 0:
            out.append(("tensor-align", "tensor #%d at %d is not aligned to %d" % (pos, at, al)))
    if sizes_ok:
        if int(d["end"]) != len(b):
            out.append(("end-offset", "decoder end offset %s, file length %d" % (d["end"], len(b))))
    return out


def shrink(ctx, binp, c, klass):
    """smallest sub-case (fewer tensors, fewer keys, smaller data) on which the same class of failure shows"""
    def fails(cand):
        obs, _ = ctx.run_jsonl(binp, [cand])
        return bool(obs) and any(k == klass for k, _ in prop_failures(cand, obs[0]))
    cur = dict(c)
    if len(cur["tensors"]) > 1:
        ts = vlib.ddmin(cur["tensors"], lambda sub: fails({**cur, "tensors": sub}), max_tests=60)
        cur["tensors"] = ts
    if len(cur["kv"]) > 0:
        if fails({**cur, "kv": []}):
            cur["kv"] = []
        elif len(cur["kv"]) > 1:
            cur["kv"] = vlib.ddmin(cur["kv"], lambda sub: fails({**cur, "kv": sub}), max_tests=40)
    return cur


def signature(c, klass):
    ts = c["tensors"]
    un = sum(1 for t in ts if len(bytes.fromhex(t["data"])) % align_of(c) != 0)
    return {"class": klass, "tensors": min(len(ts), 3), "unaligned_sizes": un > 0, "keys": min(len(c["kv"]), 1)}


# ---------------------------------------------------------------- rendering into Coq
def cq_chunk(b):
    """a run-free chunk: short = list literal, long = 7-byte little-endian words as primitive-int literals (fast to elaborate)"""
    if len(b) <= 12:
        return vlib.cq_bytes(b)
    ws = ["0x%x" % int.from_bytes(b[i:i + 7], "little") for i in range(0, len(b), 7)]
    return "(unp %d [%s]%%uint63)" % (len(b), ";".join(ws))


def cq_bytes(b):
    """byte string as a Coq term of type list N.  A 16 KiB list literal overflows coqc's stack and long literals elaborate slowly,
    so: procedural tensor data as (pat seed len), runs of one byte as (repeat b n), other long stretches as packed words"""
    if len(b) <= 12:
        return vlib.cq_bytes(b)
    for seed in range(64):
        if b[0] == pat(seed, 1)[0] and b == pat(seed, len(b)):
            return "(pat %d %d)" % (seed, len(b))
    segs, i, start = [], 0, 0
    n = len(b)
    while i < n:
        j = i
        while j < n and b[j] == b[i]:
            j += 1
        if j - i >= 96:
            if i > start:
                segs.append(cq_chunk(b[start:i]))
            segs.append("(repeat %d (N.to_nat %d))" % (b[i], j - i))
            start = j
        i = j
    if start < n:
        segs.append(cq_chunk(b[start:]))
    return segs[0] if len(segs) == 1 else "(" + " ++ ".join(segs) + ")"


def cqN(x):
    return str(int(x))


def cq_obytes(b):
    if len(b) <= 1000:
        return "(OBExact %s)" % cq_chunk(b)
    return "(OBHash %d %d)" % (len(b), hash_bytes(b))


def cq_wval(e):
    t = e["t"]
    if t == "u32":
        return "WU32 %s" % e["v"]
    if t == "f32":
        return "WF32 %s" % e["v"]
    if t == "bool":
        return "WBool %s" % cq_bool(e["v"])
    if t == "str":
        return "WStr %s" % cq_bytes(bytes.fromhex(e["v"]))
    if t == "strs":
        return "WStrs %s" % cq_list([cq_bytes(bytes.fromhex(x)) for x in e["v"]], "str")
    ctor = {"i32s": "WI32s", "u32s": "WU32s", "f32s": "WF32s"}[t]
    return "%s %s" % (ctor, cq_list([cqN(x) for x in e["v"]], "N"))


def cq_kv(kv):
    return cq_list(["(%s, %s)" % (cq_bytes(bytes.fromhex(e["k"])), cq_wval(e)) for e in kv], "(str * wval)")


def cq_tensor(t):
    return "mkT %s %d %s %s" % (cq_bytes(bytes.fromhex(t["name"])), t["kind"], cq_list([cqN(x) for x in t["shape"]], "N"), cq_bytes(bytes.fromhex(t["data"])))


def cq_val(v):
    t = v["t"]
    if t == 8:
        return "VStr %s" % cq_bytes(bytes.fromhex(v.get("s", "")))
    if t == 9:
        n = int(v["n"])
        if n < 0:
            return None
        if v.get("a") is None:
            return "VArr %d None" % n
        items = [cq_val(x) for x in v["a"]]
        if any(x is None for x in items):
            return None
        if len(items) > 8 and len(set(items)) == 1:
            return "VArr %d (Some (repeat (%s) (N.to_nat %d)))" % (n, items[0], len(items))
        return "VArr %d (Some %s)" % (n, cq_list(["(%s)" % x for x in items], "val"))
    if t == 99:
        return None
    return "VNum %d %s" % (t, v["b"])


def cq_obs(d):
    if d.get("panic"):
        return "OPanic"
    if d.get("err"):
        return "(OErr %d)" % {"eof": 0, "ueof": 1, "other": 2}[d["err"]]
    kvs = []
    for e in d["kv"]:
        v = cq_val(e["v"])
        if v is None:
            return None
        kvs.append("(%s, %s)" % (cq_bytes(bytes.fromhex(e["k"])), v))
    ts = ["mkTI %s %d %s %s" % (cq_bytes(bytes.fromhex(t["name"])), t["kind"], t["offset"], cq_list([cqN(x) for x in t["shape"]], "N")) for t in d["tensors"]]
    return "(OOk %d %s %s %s (%s)%%Z)" % (d["version"], cq_list(kvs, "(str * val)"), cq_list(ts, "tinfo"), d["toff"], d["end"])


def render(c, o):
    op = c["op"]
    if "panic" in o or "harness_error" in o:
        return "false"
    if op == "block_all":
        return "chk_block_all %s %s %d %d %s" % (vlib.cq_bytes(bytes.fromhex(c["prefix"])), vlib.cq_bytes(bytes.fromhex(c["alpha"])), c["maxlen"], o["n"], o["hash"])
    if op == "block":
        return "forallb (fun p => chk_block (fst p) (snd p)) %s" % cq_list(["(%s, (%s)%%Z)" % (cq_bytes(bytes.fromhex(n)), b) for n, b in zip(c["names"], o["blocks"])], "(str * Z)")
    if op == "ftype":
        if o["tensor_type"] != o["name"]:
            return "false"
        return "chk_ftype %s %s (%s)%%Z" % (c["t"], cq_bytes(bytes.fromhex(o["name"])), o["parsed"])
    if op == "parse":
        return "chk_parse %s (%s)%%Z" % (cq_bytes(bytes.fromhex(c["s"])), o["parsed"])
    if op == "bseek":
        ops = cq_list(["SRead (%d)%%Z" % x[1] if x[0] == "r" else "SSeek (%s)%%Z %d" % (x[1], x[2]) for x in c["ops"]], "sop")
        res = cq_list(["RRead %s %d" % (cq_bytes(bytes.fromhex(r["b"])), {"": 0, "eof": 1, "ueof": 2}.get(r["e"], 3)) if "b" in r else
                       "RSeek (%s)%%Z %s" % (r["p"], cq_bool(r["ok"])) for r in o["res"]], "sres")
        return "chk_bseek %s %s %s" % (cq_bytes(bytes.fromhex(c["data"])), ops, res)
    if op == "leaf_kind":
        return "chk_kind %s %s %s" % (c["kind"], o["ts"], o["bs"])
    if op == "leaf_pad":
        return "chk_pad (%s)%%Z (%s)%%Z (%s)%%Z" % (c["off"], c["al"], o["pad"])
    if o.get("werr"):
        return "false"
    ob = cq_obs(o["dec"])
    if ob is None:
        return "false"
    return "chk_rt true %s %s %s %s %s (%d)%%Z %s" % (
        cq_kv(c["kv"]), cq_list(["(%s)" % cq_tensor(t) for t in c["tensors"]], "tensor"),
        cq_list(["(%d)%%Z" % x for x in o["blocks"]], "Z"), cq_list(["%d%%nat" % i for i in o["order"]], "nat"),
        cq_obytes(bytes.fromhex(o["bytes"])), c["max_array"], ob)


def model_term(c, o):
    if c["op"] != "rt" or "order" not in o:
        return "tt"
    return "(let b := write_ordered true %s (pick %s %s) in (b, decode b (%d)%%Z))" % (
        cq_kv(c["kv"]), cq_list(["(%s)" % cq_tensor(t) for t in c["tensors"]], "tensor"), cq_list(["%d%%nat" % i for i in o["order"]], "nat"), c["max_array"])


def strip(c):
    return {k: v for k, v in c.items() if k not in ("klass", "_parent")}


def flatten(cases, obs):
    """a concurrent/sequential case is judged writer by writer: each file against its own input"""
    out = []
    for c, o in zip(cases, obs):
        if c["op"] != "conc":
            out.append((c, o))
            continue
        ws = o.get("writers") if isinstance(o, dict) else None
        if not ws or len(ws) != len(c["writers"]):
            ws = [{"panic": o.get("panic") or o.get("harness_error") or "no answer"}] * len(c["writers"])
        for sub, so in zip(c["writers"], ws):
            out.append(({**sub, "op": "rt", "klass": c["klass"], "_parent": c}, so))
    return out


def run_cases(ctx, binp, cases):
    obs, err = ctx.run_jsonl(binp, [strip(c) for c in cases])
    if obs is None or len(obs) != len(cases):
        ctx.obligation("harness c05 answered every case", False, err)
        ctx.proof_failures.append({"obligation": "correspondence: harness c05 did not answer every case", "detail": err})
        return None
    return obs


def run(ctx, only=None):
    ctx.rule = ("cases: random key/value maps over all 8 writable value types (empty strings/arrays, arrays around maxArraySize, strings around the "
                "16 KiB scratch size, general.alignment in {absent,1,2,3,5,7,8,16,32,64,100,4096}) x tensor lists (0..45 tensors, all kinds 0..31 and unknown, "
                "block/non-block names, sizes mostly not a multiple of the alignment, zero-size and uint64-wrapping shapes), written by the real WriteGGUF and "
                "decoded by the real Decode; non-trivial = at least 3 tensors of which one has a size that is not a multiple of the alignment, or >= 2 keys; "
                "distinct = by canonical JSON of the case. Leaves (typeSize/blockSize per kind, ggufPadding per (offset mod a, a<=64)) exhaustively.")
    ctx.trusted = ["Coq 8.16.1 kernel + vm_compute", "hand-written model coq/Gguf/Model.v tied to fs/ggml/gguf.go+ggml.go by this differential run only",
                   "Go harness harness/cmd/c05 and overlay exports harness/overlay/fs/ggml/c05.go (add-only, build tag verif)",
                   "python generator, monitor and renderer (props/c05.py)", "encoding/binary, bufio, bytes.Reader, slices.SortStableFunc (order taken as observed above 20 tensors when the comparator is inconsistent on the blocks present)"]
    ctx.assumptions = ["keys of the map are distinct (Go map); values/kinds/shape entries within their Go types (uint32/uint64); general.alignment, if present, is a uint32 > 0",
                       "every tensor's WriterTo writes exactly Tensor.Size() bytes", "the file is shorter than 2^63 bytes",
                       "Tensor.block (fmt.Sscanf \"blk.%d.\") is modelled (block_of) and tied exhaustively on short names; slices.SortStableFunc is modelled as "
                       "Go's insertion sort: exact up to 20 tensors and whenever the comparator is consistent on the block numbers present"]
    ctx.proof_stage(["Gguf"], "Gguf/Properties_C05.v", extra_targets=["Gguf/Corr.v"], expect_theorems=['C05_kv_roundtrip', 'C05_tensor_meta_roundtrip', 'C05_tensor_bytes_at_offset', 'C05_end_offset', 'C05_tensor_bytes_unrepaired_refuted', 'C05_order_sorted', 'C05_comparator_transitive_refuted', 'C05_block_canonical', 'C05_buffered_seek_refines'])
    if not ctx.quick():
        ctx.coqchk(["V.Gguf.Properties_C05", "V.Gguf.Corr"])
    binp = ctx.go_build("c05")
    if not binp:
        return
    cases = only if only is not None else gen_cases(ctx)
    obs = run_cases(ctx, binp, cases)
    if obs is None:
        return
    items = []
    reported = set()
    flat = flatten(cases, obs)
    cases = [c for c, _ in flat]
    obs = [o for _, o in flat]
    for c, o in flat:
        if c["op"] == "rt":
            ts = c["tensors"]
            al = align_of(c)
            nt = (len(ts) >= 3 and any(len(t["data"]) // 2 % al for t in ts)) or len(c["kv"]) >= 2
            ctx.note_case(strip(c), nt, c["klass"], sample={"case": {"kv": c["kv"][:3], "tensors": [{k: t[k] for k in ("name", "kind", "shape")} for t in ts[:4]], "max_array": c["max_array"]},
                                                             "impl": {"len": len(o.get("bytes", "")) // 2, "order": o.get("order"), "end": (o.get("dec") or {}).get("end")}})
            ctx.count("tensors=%s" % (len(ts) if len(ts) < 4 else "4-9" if len(ts) < 10 else "10+"))
            for klass, text in prop_failures(c, o):
                par = c.get("_parent")
                if par is not None:
                    key = (klass, par["mode"])
                    if key in reported:
                        continue
                    reported.add(key)
                    ctx.violation({"class": klass, "concurrent": par["mode"]},
                                  "%s WriteGGUF calls in one process (%s, GOMAXPROCS %s): a file no longer decodes to ITS OWN input: %s" % (len(par["writers"]), par["mode"], par["procs"], text),
                                  {"case": strip(par), "failing_writer": strip(c), "impl": o,
                                   "how": "python3 check.py C05 --replay <this file> (the writers run in goroutines whose WriteSeeker stops at every Write until scheduled)"})
                    continue
                if klass in reported:
                    continue
                reported.add(klass)
                small = shrink(ctx, binp, strip(c), klass)
                so, _ = ctx.run_jsonl(binp, [small])
                ctx.violation(signature(small, klass), text, {"case": small, "impl": so[0] if so else None, "failures": prop_failures(small, so[0]) if so else None,
                                                               "how": "feed the case (one JSON line) to build/bin/c05; python3 check.py C05 --replay <this file>"})
        else:
            ctx.note_case(strip(c), True, c["klass"])
            if c["op"] == "block_all" and "n" in o:
                ctx.cases += int(o["n"])
                ctx.count("block-exhaustive-names", int(o["n"]))
        items.append(render(c, o))
    if not ctx.quick() and only is None:
        race_stage(ctx, [c["_parent"] for c in cases if c.get("_parent") is not None and c["_parent"]["mode"] != "seq"])
    bad, log = ctx.coq_eval(HEADER, items, per_file=40 if ctx.quick() else 100)
    if bad is None:
        ctx.obligation("correspondence: model evaluated on all cases", False, log)
        ctx.proof_failures.append({"obligation": "correspondence evaluation failed in coqc", "detail": log})
        return
    ctx.disagreements_checked = len(items)
    ctx.obligation("correspondence: model = implementation on %d cases" % len(items), not bad)
    for i in bad[:20]:
        ctx.mismatch("Gguf/Corr.%s" % items[i].split()[0], strip(cases[i]), {k: v for k, v in obs[i].items()},
                     ctx.coq_print(HEADER, model_term(cases[i], obs[i])) if len(ctx.mismatches) < 2 else None)


def race_stage(ctx, parents):
    """thorough tier: the concurrent cases again, free-running, on a harness built with -race"""
    seen, todo = set(), []
    for p in parents:
        if id(p) not in seen:
            seen.add(id(p))
            todo.append({**strip(p), "mode": "free", "procs": 1})
            todo.append({**strip(p), "mode": "free", "procs": 4})
    binr = ctx.go_build("c05", race=True)
    if not binr or not todo:
        return
    env = dict(vlib.goenv(), GORACE="halt_on_error=0 exitcode=0")
    import subprocess
    try:
        p = subprocess.run([binr], input="".join(json.dumps(c) + "\n" for c in todo), stdout=subprocess.PIPE, stderr=subprocess.PIPE, text=True, timeout=1800, env=env, cwd=ctx.tmp)
        obs = [l for l in p.stdout.split("\n") if l.startswith("{")]
        err = p.stderr
    except subprocess.TimeoutExpired:
        obs, err = None, "timeout"
    races = err.count("WARNING: DATA RACE")
    at = err.find("WARNING: DATA RACE")
    err = err[max(at, 0):][:3000] if races else err[-1500:]
    ctx.extra["race_stage"] = {"cases": len(todo), "data_races": races}
    ok = obs is not None and len(obs) == len(todo) and races == 0
    ctx.obligation("race detector: %d concurrent WriteGGUF cases without a data race" % len(todo), ok, (err or "")[-1500:])
    if not ok:
        ctx.violation({"class": "data-race", "concurrent": "free"}, "the race detector reports a data race between overlapping WriteGGUF calls (or the -race harness died): %s" % (err or "")[-600:],
                      {"case": todo[0], "stderr": (err or "")[-3000:]})


def replay(ctx, path):
    r = json.load(open(path))
    ctx.log("replaying", path)
    case = (r.get("replay") or {}).get("case")
    if case is None and r.get("disagreements"):
        case = r["disagreements"][0]["case"]
    if case is None:
        return run(ctx)
    case = dict(case)
    case.setdefault("klass", "replay")
    run(ctx, only=[case])


MANIFEST = {
    "property_id": "C05",
    "quick_cmd": "python3 check.py C05 --tier quick",
    "thorough_cmd": "python3 check.py C05 --tier thorough",
    "evidence_file": "evidence/C05.json",
    "replay_cmd_template": "python3 check.py C05 --replay {path}",
    "engine": "coq-model+go-differential",
    "level_claimed": {
        "category": "proof",
        "text": "Coq theorems about a byte-exact model of WriteGGUF and gguf.Decode: for every key/value list with distinct keys over the writable value "
                "types, every tensor list (any count, kind, shape, order) whose data has Size() bytes, every alignment > 0 and every maxArraySize, decoding the "
                "written bytes succeeds with the written keys/values (+ parameter_count), the tensor metadata in the writer's order with reversed shapes, "
                "the written bytes at every decoded tensor location which is a multiple of the alignment, and end offset = file length. "
                "The model is tied to the real WriteGGUF/Decode by a byte-exact differential run evaluated inside Coq (vm_compute) and the property is "
                "monitored directly on the implementation's output.",
        "design_ref": "DESIGN.md section 5, C05",
    },
    "level_note": "Trusted: Coq kernel/vm_compute; the model-to-code tie is differential testing (generator-bounded). Tensor.block (fmt.Sscanf) is an oracle; "
                  "the stable sort is modelled as Go's insertion sort (exact up to 20 tensors), the theorems hold for every tensor order. Files below 2^63 bytes.",
    "technique": "Coq proof (induction over the key/value list, the tensor list and the layout) + byte-exact model/implementation differential check",
}
