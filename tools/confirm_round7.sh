#!/bin/bash
# usage: tools/confirm_round7.sh C18 C08 ...   (round 7: one candidate per property, /tmp/seedout7-<ID>/1 -> seeded/<ID>-s13; then run the checks against it)
cd /verif
for id in "$@"; do
  n=13
  echo "== $id-s$n"
  tools/confirm_from_meta.sh /tmp/seedout7-$id/1 $id-s$n 2>&1 | grep -v "^WARNING" | tail -4 | cut -c1-400
  git -C /repo worktree remove --force /tmp/seedwt7-$id 2>/dev/null
  [ -f seeded/$id-s$n/meta.json ] && python3 tools/seeded.py $id-s$n 2>&1 | grep -v WARNING | cut -c1-400
done
