#!/bin/bash
# usage: tools/confirm_round2.sh C18 C08 ...   (candidates in /tmp/seedout6-<ID>/{1,2} -> seeded/<ID>-s3, <ID>-s4; then run the checks against them)
cd /verif
for id in "$@"; do
  sids=""
  for i in 1 2; do
    n=$((i+10))
    echo "== $id-s$n"
    tools/confirm_from_meta.sh /tmp/seedout6-$id/$i $id-s$n 2>&1 | grep -v "^WARNING" | tail -4 | cut -c1-400
    [ -f seeded/$id-s$n/meta.json ] && sids="$sids $id-s$n"
  done
  git -C /repo worktree remove --force /tmp/seedwt6-$id 2>/dev/null
  [ -n "$sids" ] && python3 tools/seeded.py $sids 2>&1 | grep -v WARNING | cut -c1-400
done
