#!/usr/bin/env python3
"""Run a registered check against a seeded (property-breaking) change without touching /repo:
   tools/seeded.py <seeded-id> [--tier quick]      (seeded/<id>/patch.diff, seeded/<id>/meta.json {"property": "C05", ...})
   tools/seeded.py --all
A scratch worktree /tmp/verif-seed-wt is (re)used, the patch applied, the property's check run with VERIF_REPO pointing at it,
and the verdict recorded in seeded/<id>/result.json (caught = a VIOLATION line was printed)."""
import json
import os
import shutil
import subprocess
import sys
import time

V = os.path.dirname(os.path.dirname(os.path.abspath(__file__)))
WT = os.environ.get("VERIF_SEED_WT", "/tmp/verif-seed-wt")


def sh(cmd, **kw):
    return subprocess.run(cmd, shell=True, stdout=subprocess.PIPE, stderr=subprocess.STDOUT, text=True, errors="replace", **kw)


def fresh_wt():
    if not os.path.isdir(WT):
        r = sh("git -C /repo worktree add --detach %s HEAD" % WT)
        if r.returncode:
            print(r.stdout)
            sys.exit(2)
    else:
        sh("git -C %s checkout -q --detach $(git -C /repo rev-parse HEAD) && git -C %s checkout -- . && git -C %s clean -fdq" % (WT, WT, WT))


def run_one(sid, tier):
    d = os.path.join(V, "seeded", sid)
    meta = json.load(open(os.path.join(d, "meta.json")))
    fresh_wt()
    r = sh("git -C %s apply --whitespace=nowarn %s" % (WT, os.path.join(d, "patch.diff")))
    if r.returncode:
        print(sid, "patch does not apply:", r.stdout)
        return None
    results = {}
    # does the change still break its own demonstration on the current /repo HEAD?  (a later fix: commit can neutralise a seed)
    demo = meta.get("demo") or {}
    demo_state = None
    if demo.get("cmd") and "--no-demo" not in sys.argv:
        placed = []
        for pl in demo.get("place", []):
            src, dst = pl.split(":")
            dd = os.path.join(WT, dst)
            os.makedirs(os.path.dirname(dd), exist_ok=True)
            shutil.copy(os.path.join(d, src), dd)
            placed.append(dd)
        try:
            r = sh("timeout 900 " + demo["cmd"], cwd=WT, env=dict(os.environ, GOFLAGS="-mod=mod", GOPROXY="off"))
            demo_state = "fails" if r.returncode else "passes"
        except Exception as ex:  # noqa
            demo_state = "error"
        for dd in placed:
            os.remove(dd)
        print(sid, "demo on current HEAD + change:", demo_state, flush=True)
    for pid in ([meta["property"]] + meta.get("also_check", [])):
        t = time.time()
        env = dict(os.environ, VERIF_REPO=WT)
        r = sh("python3 %s/check.py %s --tier %s" % (V, pid, tier), env=env, cwd=V)
        lines = [l for l in r.stdout.split("\n") if l.startswith("VIOLATION") or l.startswith("KNOWN-FINDING")]
        caught = any(l.startswith("VIOLATION") for l in lines)
        nfi = any("no-failing-input-found" in l for l in lines)
        replay = None
        for l in lines:
            if l.startswith("VIOLATION") and "replay=" in l:
                rp = l.split("replay=")[1].split()[0]
                try:
                    replay = json.load(open(rp))
                except Exception:
                    pass
        results[pid] = {"rc": r.returncode, "caught": caught, "no_failing_input_found": nfi, "lines": lines, "wall_s": round(time.time() - t, 1),
                        "what": (replay or {}).get("what") or (replay or {}).get("obligation"), "tail": r.stdout[-600:] if not caught else ""}
        print(sid, pid, "CAUGHT" if caught else "MISSED", "(no-failing-input-found)" if nfi else "", results[pid]["what"] or "", flush=True)
    head = sh("git -C /repo rev-parse --short HEAD").stdout.strip().split("\n")[-1]
    json.dump({"seeded": sid, "tier": tier, "repo_head": head, "demo_with_change_on_head": demo_state, "results": results}, open(os.path.join(d, "result.json"), "w"), indent=1)
    sh("git -C %s checkout -- . && git -C %s clean -fdq" % (WT, WT))
    return results


def main():
    tier = "quick"
    args = [a for a in sys.argv[1:] if a not in ("--keep", "--no-demo")]
    if "--tier" in args:
        i = args.index("--tier")
        tier = args[i + 1]
        del args[i:i + 2]
    if args == ["--all"]:
        args = sorted(x for x in os.listdir(os.path.join(V, "seeded")) if os.path.exists(os.path.join(V, "seeded", x, "patch.diff")))
    for sid in args:
        run_one(sid, tier)
    if "--keep" not in sys.argv:
        sh("git -C /repo worktree remove --force %s" % WT)


if __name__ == "__main__":
    main()
