#!/bin/sh
# usage: tools/goal.sh <file.v relative to coq/> <line>   -- prints the proof state after that line
f=$1; n=$2
d=$(mktemp -d)
head -n "$n" "/verif/coq/$f" > "$d/Goal_tmp.v"
echo "Show." >> "$d/Goal_tmp.v"
(cd "$d" && coqc -Q /verif/coq V Goal_tmp.v 2>&1 | grep -v "^Error: There are pending proofs\|conda" | head -${3:-60})
rm -rf "$d"
