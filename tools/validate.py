#!/usr/bin/env python3
"""validate MANIFEST.json and every evidence file against the schemas (run with python3-vt, which has jsonschema)"""
import glob
import json
import jsonschema
ms = json.load(open('/root/.vp/MANIFEST.schema.json'))
es = json.load(open('/root/.vp/EVIDENCE.schema.json'))
jsonschema.validate(json.load(open('/verif/MANIFEST.json')), ms)
print("MANIFEST ok")
for f in sorted(glob.glob('/verif/evidence/*.json')):
    try:
        jsonschema.validate(json.load(open(f)), es)
        print(f, "ok")
    except Exception as e:
        print(f, "INVALID", str(e)[:300])
