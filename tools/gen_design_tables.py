#!/usr/bin/env python3
"""Rewrite the generated tables of DESIGN.md (between <!-- BEGIN GENERATED x --> / <!-- END GENERATED x -->) from
known_findings.json, known_findings.d/*.json and seeded/*/{meta,result}.json."""
import glob
import json
import os
import re
import sys

V = os.path.dirname(os.path.dirname(os.path.abspath(__file__)))
sys.path.insert(0, V)
from lib import vlib  # noqa: E402


def esc(s):
    return str(s).replace("|", "\\|").replace("\n", " ")


def findings():
    ks = vlib.load_known()
    out = ["| Property | Kind | Id | Commit in /repo | What |", "|---|---|---|---|---|"]
    for k in sorted(ks, key=lambda k: (k.get("property", ""), k.get("kind", ""), k.get("id", ""))):
        what = k.get("what", "")
        what = re.sub(r"^fixed: property=\w+ \w+ ", "", what)
        out.append("| %s | %s | %s | %s | %s |" % (k.get("property"), k.get("kind"), k.get("id"), k.get("commit", "—"), esc(what[:400])))
    return "\n".join(out)


def seeds():
    out = ["| Seed | Property | Change (file: mechanism) | Needs to manifest | Verdict of `check.py` (quick) | Reported as |", "|---|---|---|---|---|---|"]
    for d in sorted(glob.glob(os.path.join(V, "seeded", "*"))):
        mp = os.path.join(d, "meta.json")
        if not os.path.exists(mp):
            continue
        m = json.load(open(mp))
        sid = os.path.basename(d)
        res, demo_state = {}, None
        rp = os.path.join(d, "result.json")
        if os.path.exists(rp):
            rj = json.load(open(rp))
            res = rj.get("results", {})
            demo_state = rj.get("demo_with_change_on_head")
        verdicts, whats = [], []
        for pid, r in res.items():
            v = "CAUGHT" if r.get("caught") else "MISSED"
            if r.get("no_failing_input_found"):
                v += " (no-failing-input-found)"
            verdicts.append("%s: %s" % (pid, v))
            if r.get("what"):
                whats.append(esc(str(r["what"])[:160]))
        if demo_state == "passes":
            verdicts.append("(demo no longer fails on the repaired tree: neutralised by a later fix)")
        for k, label in (("note", "note"), ("rebased", "rebased"), ("stale_patch", "patch stale")):
            if m.get(k):
                verdicts.append("(%s: %s)" % (label, esc(str(m[k])[:260])))
        out.append("| %s | %s | %s | %s | %s | %s |" % (sid, m.get("property"), esc(m.get("title", m.get("what_breaks", ""))[:200]), esc(m.get("needs_to_manifest", "")[:220]),
                                                  "; ".join(verdicts) or "not run yet", "; ".join(whats)))
    return "\n".join(out)


def main():
    p = os.path.join(V, "DESIGN.md")
    s = open(p).read()
    for tag, fn in (("FINDINGS", findings), ("SEEDS", seeds)):
        b, e = "<!-- BEGIN GENERATED %s -->" % tag, "<!-- END GENERATED %s -->" % tag
        if b in s:
            s = s[:s.index(b) + len(b)] + "\n" + fn() + "\n" + s[s.index(e):]
    open(p, "w").write(s)


main()
