#!/usr/bin/env python3
"""Confirm a candidate seeded change and file it under seeded/<id>/.
usage: tools/confirm_seed.py <candidate-dir> <seeded-id> --place <file>:<repo-rel-path> [...] --cmd "<demo command>" --pkgs "<pkgs to go test>"
Steps (scratch worktree /tmp/verif-confirm-wt, removed at the end):
  unchanged tree + demo  -> demo must pass;   patch applied -> go build ./... ok, demo must FAIL;
  demo removed, patch applied -> existing tests of --pkgs must pass.
On success copies patch.diff, demo files, meta.json (+"confirmed") to /verif/seeded/<id>/."""
import argparse
import json
import os
import shutil
import subprocess
import sys

V = os.path.dirname(os.path.dirname(os.path.abspath(__file__)))
WT = os.environ.get("VERIF_CONFIRM_WT", "/tmp/verif-confirm-wt")
ENV = dict(os.environ, GOFLAGS="-mod=mod", GOPROXY="off")
ENV.pop("GOTOOLCHAIN", None)


def sh(cmd, cwd=None, timeout=3000):
    p = subprocess.run(cmd, shell=True, cwd=cwd, env=ENV, stdout=subprocess.PIPE, stderr=subprocess.STDOUT, text=True, errors="replace", timeout=timeout)
    return p.returncode, p.stdout


ap = argparse.ArgumentParser()
ap.add_argument("cand")
ap.add_argument("sid")
ap.add_argument("--place", action="append", default=[])
ap.add_argument("--cmd", required=True)
ap.add_argument("--pkgs", required=True)
ap.add_argument("--base", default="HEAD", help="commit of /repo to confirm against (default HEAD); use an older commit when a later fix: commit makes the demo itself unusable")
a = ap.parse_args()
if os.path.isdir(WT):
    sh("git -C /repo worktree remove --force " + WT)
rc, out = sh("git -C /repo worktree add --detach %s %s" % (WT, a.base))
assert rc == 0, out
log = {}
try:
    placed = []
    for pl in a.place:
        src, dst = pl.split(":")
        d = os.path.join(WT, dst)
        os.makedirs(os.path.dirname(d), exist_ok=True)
        shutil.copy(os.path.join(a.cand, src), d)
        placed.append(d)
    rc, out = sh(a.cmd, cwd=WT)
    log["demo_unchanged"] = {"rc": rc, "tail": out[-800:]}
    print("demo on unchanged tree: rc=%d" % rc)
    ok = rc == 0
    rc, out = sh("git apply --whitespace=nowarn %s" % os.path.join(os.path.abspath(a.cand), "patch.diff"), cwd=WT)
    assert rc == 0, "patch does not apply: " + out
    rc, out = sh("go build ./...", cwd=WT)
    log["build"] = {"rc": rc, "tail": out[-800:]}
    print("build with change: rc=%d" % rc)
    ok = ok and rc == 0
    rc, out = sh(a.cmd, cwd=WT)
    log["demo_changed"] = {"rc": rc, "tail": out[-1500:]}
    print("demo with change: rc=%d (must be non-zero)" % rc)
    ok = ok and rc != 0
    for d in placed:
        os.remove(d)
    rc, out = sh("go test -vet=off -count=1 " + a.pkgs, cwd=WT)
    log["existing_tests_with_change"] = {"rc": rc, "cmd": "go test -vet=off -count=1 " + a.pkgs, "tail": out[-1500:]}
    print("existing tests with change: rc=%d" % rc)
    ok = ok and rc == 0
    if ok:
        dst = os.path.join(V, "seeded", a.sid)
        os.makedirs(dst, exist_ok=True)
        for f in os.listdir(a.cand):
            shutil.copy(os.path.join(a.cand, f), os.path.join(dst, f))
        meta = json.load(open(os.path.join(a.cand, "meta.json")))
        meta["demo"] = {"place": a.place, "cmd": a.cmd}
        meta["confirmed"] = {"by": "tools/confirm_seed.py in a scratch worktree of /repo at " + sh("git -C /repo rev-parse --short " + a.base)[1].strip().split("\n")[-1],
                             "demo_passes_unchanged": True, "builds_with_change": True, "demo_fails_with_change": True,
                             "existing_tests_pass_with_change": log["existing_tests_with_change"]["cmd"]}
        json.dump(meta, open(os.path.join(dst, "meta.json"), "w"), indent=1)
        print("CONFIRMED ->", dst)
    else:
        print("NOT CONFIRMED", json.dumps(log, indent=1)[-3000:])
finally:
    sh("git -C /repo worktree remove --force " + WT)
sys.exit(0 if ok else 1)
