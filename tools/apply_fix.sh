#!/bin/bash
# coordinator only: tools/apply_fix.sh <patch> "<commit message starting with fix:>" "<pkgs to test>"
export GOFLAGS=-mod=mod GOPROXY=off
cd /repo || exit 1
git apply --check "$1" || { echo "DOES NOT APPLY $1"; exit 1; }
git apply "$1" || exit 1
files=$(git diff --name-only | grep -v tokenizer.model)
go build ./... || { echo BUILD FAILED; git checkout -- $files; exit 1; }
out=$(go test -vet=off -count=1 $3 2>&1); rc=$?
echo "$out" | grep -v "^ok\|no test files" | tail -15
if [ $rc -ne 0 ]; then echo "TESTS FAILED, reverting"; git checkout -- $files; exit 1; fi
git add $files && git commit -qm "$2" && git log --oneline | head -1
