#!/usr/bin/env python3
"""setup_cmd: build the Coq development of every *claimed* check (full .vo) and warm the Go build cache for
its harnesses.  Only the checks listed in MANIFEST.json are built, from the `COQ_TARGETS` / `SETUP_BUILDS` of
their props/<id>.py, so that unfinished work of an unclaimed property cannot break the setup."""
import importlib
import json
import os
import shutil
import sys

V = os.path.dirname(os.path.dirname(os.path.abspath(__file__)))
sys.path.insert(0, V)
from lib import vlib  # noqa: E402

man = json.load(open(os.path.join(V, "MANIFEST.json")))
mods = []
for c in man.get("checks", []):
    mods.append(importlib.import_module("props." + c["property_id"].lower()))
targets = []
for m in mods:
    for t in getattr(m, "COQ_TARGETS", []):
        t = t + "o" if t.endswith(".v") else t
        if t not in targets:
            targets.append(t)
ok = True
if targets:
    rc, out = vlib.coq_make(targets, timeout=6000)
    print(out[-3000:])
    if rc != 0:
        print("setup: Coq build failed")
        sys.exit(1)
ctx = vlib.Ctx("SETUP", "quick", 1)
done = set()
for m in mods:
    for b in getattr(m, "SETUP_BUILDS", []):
        kw = dict(b)
        key = json.dumps(kw, sort_keys=True)
        if key in done:
            continue
        done.add(key)
        name = kw.pop("name")
        p = ctx.go_build(name, **kw)
        print("setup: go build", name, "->", p, flush=True)
        ok = ok and bool(p)
shutil.rmtree(ctx.tmp, ignore_errors=True)
sys.exit(0 if ok else 1)
