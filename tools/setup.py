#!/usr/bin/env python3
"""setup_cmd: build the whole Coq development (full .vo) and warm the Go build cache for every harness."""
import os
import sys
import importlib

V = os.path.dirname(os.path.dirname(os.path.abspath(__file__)))
sys.path.insert(0, V)
from lib import vlib  # noqa: E402

rc, out = vlib.coq_make([], timeout=3000)
print(out[-3000:])
if rc != 0:
    print("setup: Coq build failed")
    sys.exit(1)
ctx = vlib.Ctx("SETUP", "quick", 1)
ok = True
for f in sorted(os.listdir(os.path.join(V, "props"))):
    if not f.endswith(".py") or f.startswith("_"):
        continue
    m = importlib.import_module("props." + f[:-3])
    for b in getattr(m, "SETUP_BUILDS", []):
        kw = dict(b)
        name = kw.pop("name")
        p = ctx.go_build(name, **kw)
        print("setup: go build", name, "->", p)
        ok = ok and bool(p)
import shutil
shutil.rmtree(ctx.tmp, ignore_errors=True)
sys.exit(0 if ok else 1)
