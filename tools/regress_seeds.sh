#!/bin/bash
# usage: tools/regress_seeds.sh [workers]   re-runs every kept seeded change against the current checks (quick tier, no demo re-run),
# in N parallel workers with their own scratch worktrees; prints one verdict line per seed. Results go to seeded/<sid>/result.json.
cd /verif
n=${1:-3}
ls seeded | sort > /tmp/regress-all.txt
for i in $(seq 0 $((n-1))); do
  awk -v n=$n -v i=$i 'NR%n==i' /tmp/regress-all.txt > /tmp/regress-$i.txt
  ( VERIF_SEED_WT=/tmp/verif-seed-wt-r$i python3 tools/seeded.py --no-demo $(cat /tmp/regress-$i.txt) 2>&1 | grep -v WARNING | cut -c1-200 > /tmp/regress-$i.log ) &
done
wait
cat /tmp/regress-*.log | grep -c CAUGHT
cat /tmp/regress-*.log | grep -v CAUGHT
