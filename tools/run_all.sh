#!/bin/bash
# run every claimed check (quick tier) against /repo, 3 at a time; print the summary / VIOLATION / KNOWN-FINDING lines
cd /verif
tier=${1:-quick}
grep -v '^#' claimed.txt | xargs -P 3 -I{} sh -c "python3 check.py {} --tier $tier 2>/dev/null | grep -v '^\[' | cut -c1-200 > /tmp/runall-{}.log"
for id in $(grep -v '^#' claimed.txt); do tail -1 /tmp/runall-$id.log; grep "^VIOLATION" /tmp/runall-$id.log; done
python3-vt tools/validate.py | grep -v " ok$"
