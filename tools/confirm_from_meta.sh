#!/bin/bash
# usage: tools/confirm_from_meta.sh <candidate-dir> <seeded-id>   (reads meta.json demo.place / demo.cmd / pkgs)
set -e
cand=$1; sid=$2
places=$(python3 -c "import json,sys; m=json.load(open('$cand/meta.json')); print(' '.join('--place '+p for p in m['demo']['place']))")
cmd=$(python3 -c "import json,sys; m=json.load(open('$cand/meta.json')); print(m['demo']['cmd'])")
pkgs=$(python3 -c "import json,sys; m=json.load(open('$cand/meta.json')); print(m['pkgs'])")
python3 /verif/tools/confirm_seed.py "$cand" "$sid" $places --cmd "$cmd" --pkgs "$pkgs"
