#!/bin/bash
# from-scratch build of the whole development, then every claimed check's thorough tier (sequentially); summary lines only
cd "$(dirname "$0")/.."
find coq -name '*.vo' -o -name '*.vok' -o -name '*.vos' -o -name '*.glob' | xargs rm -f
rm -rf build
date
/usr/bin/time -v python3 tools/setup.py 2>&1 | grep -E "setup:|Elapsed|Maximum resident|failed" 
date
for id in $(grep -v '^#' claimed.txt); do
  timeout 5400 python3 check.py $id --tier thorough 2>/dev/null | grep -v '^\[' | cut -c1-220 | tail -4
  date
done
