#!/usr/bin/env python3
"""Assemble /verif/MANIFEST.json from the MANIFEST dict of every props/cXX.py; properties without a module
(or whose module has CLAIMED = False) are listed under not_applicable with the reason given there."""
import importlib
import json
import os
import sys

V = os.path.dirname(os.path.dirname(os.path.abspath(__file__)))
sys.path.insert(0, V)
props = [json.loads(l) for l in open(os.path.join(V, "properties.jsonl")) if l.strip()]
checks, na, engines = [], [], {}
# claimed.txt is maintained by hand: a property is claimed only after its check was seen to pass on the unchanged tree
claimed = set(l.strip() for l in open(os.path.join(V, "claimed.txt")) if l.strip() and not l.startswith("#"))
for p in props:
    pid = p["id"]
    path = os.path.join(V, "props", pid.lower() + ".py")
    if not os.path.exists(path) or pid not in claimed:
        na.append({"property_id": pid, "reason": "check not built yet in this round (planned, see DESIGN.md section 5); nothing is claimed for it"})
        continue
    m = importlib.import_module("props." + pid.lower())
    if not getattr(m, "CLAIMED", True):
        na.append({"property_id": pid, "reason": getattr(m, "NOT_CLAIMED_REASON", "not claimed")})
        continue
    checks.append(m.MANIFEST)
man = {
    "version": 1,
    "setup_cmd": "python3 tools/setup.py",
    "hooks": {
        "guard": "verif",
        "enable": "go build -tags verif -overlay build/harness/overlay-<harness>.json (add-only //go:build verif files injected from harness/overlay/<pkg>/ by -overlay; nothing is committed into /repo for instrumentation)",
        "baseline_off_cmd": "cd /repo && go build ./... && go test -vet=off -count=1 ./...",
        "source_commits": [],
        "add_only": True,
    },
    "engines": [
        {"name": "coq-model+go-differential", "path": "check.py", "serves_properties": [c["property_id"] for c in checks],
         "kind_free_text": "Coq 8.16.1 theorems about hand-written executable Gallina models (coq/), tied to /repo on every run by running the model (coqc vm_compute) and the implementation (Go harness built from the current working tree with -tags verif -overlay) on the same cases; property monitors on the implementation's observations"},
    ],
    "checks": checks,
    "notes": "See DESIGN.md. known_findings.json lists recorded and repaired defects. fix: commits in /repo are listed there as kind=fixed.",
    "not_applicable": na,
}
json.dump(man, open(os.path.join(V, "MANIFEST.json"), "w"), indent=1)
print("MANIFEST.json: %d checks, %d not claimed" % (len(checks), len(na)))
