(** KvCache/Model.v - executable model of [kvcache.Causal] (kvcache/causal.go), construct by construct.

    State: the metadata [cells] (position + owning sequences per location, as [cacheCell]), the *physical*
    contents of the K/V tensors per location [phys] (token stored there and the position baked into K), kept
    separately so that data/metadata divergence is expressible, [ranges] (= [cellRanges], an association list
    standing for the Go map; (MaxInt,0) is [newRange()]), window, paddings, whether a shift function exists and
    whether K/V storage exists for at least one layer.

    Operations: [start_forward] (= StartForward(reserve=false) + Put on every layer; sliding-window eviction,
    first-fit [find_start], [defrag]-and-retry, cell/range update, [build_mask]), [copy_prefix], [remove]
    (with position shift and the re-RoPE [shift] of the physical data), [can_resume].

    [defrag] follows the Go loop: the dst/src scan, [cells[dst] = cells[src]], the pending triple
    (pendingSrc, pendingDst, pendingLen), the merge test and [moveCells] as a block copy of [phys].
    The boolean [fx] selects the *repaired* code (fixes/C06-defrag-merge.patch: merge test [src == pendingSrc-1],
    metadata of a merged block put into the order of the block copy, no division by zero without layers;
    fixes/C06-canresume-window.patch: CanResume also requires the whole window of the new token to be present)
    or the code as found ([fx = false]: merge test [src == pendingSrc-pendingLen], no reordering, old CanResume).  All theorems are about [fx = true];
    [fx = false] is kept to state the defect ([Properties_C06.C06_defrag_as_found_swaps]).

    Definitions only. *)
From Coq Require Import List ZArith NArith Bool Arith Lia.
Import ListNotations.
Open Scope Z_scope.

Definition MaxInt32 : Z := 2147483647.
Definition MaxInt : Z := 9223372036854775807.

Record cell := mkCell { c_pos : Z; c_seqs : list nat }.
Record datum := mkDatum { d_tok : N; d_kpos : Z }.
Definition rng := (Z * Z)%type.
Definition new_range : rng := (MaxInt, 0).

Record cache := mkCache {
  cells : list cell;
  phys : list (option datum);
  ranges : list (nat * rng);
  window : option Z;          (* None = math.MaxInt32 (NewCausalCache) *)
  cpad : nat;                 (* config.CachePadding (>= 1 after Init) *)
  bpad : nat;                 (* config.MaskBatchPadding *)
  can_shift : bool;           (* shiftFn != nil *)
  has_layers : bool           (* some layer has K/V storage (a Put happened) *)
}.

Inductive err := EFull | EShared | ENotSupported | EBackend.    (* EBackend: an error handed up from the ml backend *)

Definition empty_cell : cell := mkCell 0 [].

(** ** cells *)
Definition has (q : nat) (cl : cell) : bool := existsb (Nat.eqb q) (c_seqs cl).
Definition others (q : nat) (cl : cell) : bool := existsb (fun x => negb (Nat.eqb x q)) (c_seqs cl).
Definition del (q : nat) (cl : cell) : cell := mkCell (c_pos cl) (filter (fun x => negb (Nat.eqb x q)) (c_seqs cl)).
Definition add (q : nat) (cl : cell) : cell := mkCell (c_pos cl) (c_seqs cl ++ [q]).
Definition live (cl : cell) : bool := match c_seqs cl with [] => false | _ => true end.

Definition cell_at (l : list cell) (i : nat) : cell := nth i l empty_cell.

Fixpoint set_nth {A} (i : nat) (x : A) (l : list A) : list A :=
  match l, i with
  | [], _ => []
  | _ :: t, O => x :: t
  | h :: t, S i' => h :: set_nth i' x t
  end.

Fixpoint mapi_from {A B} (i : nat) (f : nat -> A -> B) (l : list A) : list B :=
  match l with [] => [] | x :: t => f i x :: mapi_from (S i) f t end.
Definition mapi {A B} (f : nat -> A -> B) (l : list A) : list B := mapi_from 0 f l.

(** ** ranges: the Go map [cellRanges] *)
Fixpoint lookup (m : list (nat * rng)) (q : nat) : option rng :=
  match m with [] => None | (k, r) :: t => if Nat.eqb k q then Some r else lookup t q end.
Fixpoint update (m : list (nat * rng)) (q : nat) (r : rng) : list (nat * rng) :=
  match m with
  | [] => [(q, r)]
  | (k, r0) :: t => if Nat.eqb k q then (k, r) :: t else (k, r0) :: update t q r
  end.
Fixpoint delete (m : list (nat * rng)) (q : nat) : list (nat * rng) :=
  match m with [] => [] | (k, r0) :: t => if Nat.eqb k q then delete t q else (k, r0) :: delete t q end.

Definition widen (r : rng) (i : nat) : rng := (Z.min (fst r) (Z.of_nat i), Z.max (snd r) (Z.of_nat i)).

(** [if f(i, cell) { if i < min {min = i}; if i > max {max = i} }] over all locations *)
Fixpoint range_from (i : nat) (f : nat -> cell -> bool) (l : list cell) (r : rng) : rng :=
  match l with
  | [] => r
  | cl :: t => range_from (S i) f t (if f i cl then widen r i else r)
  end.
Definition range_of (f : nat -> cell -> bool) (l : list cell) : rng := range_from 0 f l new_range.

Definition in_rng (r : rng) (i : nat) : bool := (fst r <=? Z.of_nat i) && (Z.of_nat i <=? snd r).

(** ** Init *)
Definition round_up (n pad : nat) : nat := ((n + pad - 1) / pad * pad)%nat.
Definition round_down (n pad : nat) : nat := (n / pad * pad)%nat.
Definition round_upZ (n : Z) (pad : nat) : Z := (n + Z.of_nat pad - 1) / Z.of_nat pad * Z.of_nat pad.
Definition round_downZ (n : Z) (pad : nat) : Z := n / Z.of_nat pad * Z.of_nat pad.

Definition cache_size (w : option Z) (max_sequences capacity max_batch cp : nat) : nat :=
  let raw := match w with
             | None => (max_sequences * capacity)%nat
             | Some w => if (Z.of_nat capacity <? w) then (max_sequences * capacity)%nat
                         else (max_sequences * Z.to_nat w + max_batch)%nat
             end in
  round_up raw cp.

Definition norm_pad (p : nat) : nat := match p with O => 1%nat | _ => p end.

Definition init (w : option Z) (max_sequences capacity max_batch cp bp : nat) (shiftable : bool) : cache :=
  let n := cache_size w max_sequences capacity max_batch (norm_pad cp) in
  mkCache (repeat empty_cell n) (repeat None n) [] w (norm_pad cp) (norm_pad bp) shiftable false.

(** ** StartForward *)
Definition entry := (nat * Z * N)%type.      (* sequence, position, token *)

(** [updateSlidingWindow]: lowest batch position per sequence, in order of first occurrence *)
Fixpoint lowest (batch : list entry) (q : nat) : option Z :=
  match batch with
  | [] => None
  | (q', p, _) :: r =>
      if Nat.eqb q' q then match lowest r q with Some m => Some (Z.min p m) | None => Some p end
      else lowest r q
  end.

Fixpoint batch_seqs (batch : list entry) (seen : list nat) : list nat :=
  match batch with
  | [] => []
  | (q, _, _) :: r => if existsb (Nat.eqb q) seen then batch_seqs r seen else q :: batch_seqs r (q :: seen)
  end.

(** one iteration of the eviction loop for sequence [q] with lowest position [p] *)
Definition evict_seq (w : Z) (c_cells : list cell) (rs : list (nat * rng)) (q : nat) (p : Z)
  : list cell * list (nat * rng) :=
  match lookup rs q with
  | None => (c_cells, rs)
  | Some old =>
      let cells' := mapi (fun i cl => if in_rng old i && has q cl && (c_pos cl <? p - w) then del q cl else cl) c_cells in
      let r' := range_of (fun i cl => in_rng old i && has q cl && negb (c_pos cl <? p - w)) c_cells in
      (cells', update rs q r')
  end.

Definition update_window (c : cache) (batch : list entry) : cache :=
  match window c with
  | None => c
  | Some w =>
      let '(cs, rs) := fold_left (fun st q => match lowest batch q with
                                               | Some p => evict_seq w (fst st) (snd st) q p
                                               | None => st end)
                                 (batch_seqs batch []) (cells c, ranges c) in
      mkCache cs (phys c) rs (window c) (cpad c) (bpad c) (can_shift c) (has_layers c)
  end.

(** [findStartLoc] *)
Fixpoint find_start_from (l : list cell) (i start count n : nat) : option nat :=
  match l with
  | [] => None
  | cl :: t =>
      if live cl then find_start_from t (S i) (S i) 0 n
      else if (n <=? S count)%nat then Some start else find_start_from t (S i) start (S count) n
  end.
Definition find_start (l : list cell) (n : nat) : option nat := find_start_from l 0 0 0 n.

(** ** defrag *)
Record dstate := mkD {
  d_cells : list cell; d_phys : list (option datum);
  d_src : nat; d_ps : nat; d_pd : nat; d_pl : nat }.

(** [moveCells(src, dst, len)]: block copy of the K/V rows, ascending *)
Fixpoint copy_block {A} (src dst len : nat) (orig l : list A) (dflt : A) : list A :=
  match len with
  | O => l
  | S k => copy_block (S src) (S dst) k orig (set_nth dst (nth src orig dflt) l) dflt
  end.
Definition move_cells (src dst len : nat) (p : list (option datum)) : list (option datum) :=
  copy_block src dst len p p None.

(** the repair: the metadata of the pending block was assigned in the opposite order from the data *)
Definition reverse_block {A} (start len : nat) (l : list A) : list A :=
  firstn start l ++ rev (firstn len (skipn start l)) ++ skipn (start + len) l.

Definition flush (fx : bool) (st : dstate) : dstate :=
  if (d_pl st =? 0)%nat then st
  else mkD (if fx then reverse_block (d_pd st) (d_pl st) (d_cells st) else d_cells st)
           (move_cells (d_ps st) (d_pd st) (d_pl st) (d_phys st))
           (d_src st) (d_ps st) (d_pd st) 0.

(** [for ; src > dst; src-- { if len(cells[src].sequences) != 0 {...; break} }]: the location at which the scan stops
    ([dst] if it runs out) *)
Fixpoint scan_src (l : list cell) (dst src : nat) : nat :=
  match src with
  | O => O
  | S s' => if (src <=? dst)%nat then src else if live (cell_at l src) then src else scan_src l dst s'
  end.

Definition merge_test (fx : bool) (st : dstate) (dst s : nat) : bool :=
  if fx then (S s =? d_ps st)%nat && (dst =? d_pd st + d_pl st)%nat
  else (s + d_pl st =? d_ps st)%nat && (dst =? d_pd st + d_pl st)%nat.

Definition do_move (fx : bool) (st : dstate) (dst s : nat) : dstate :=
  let cs := set_nth s empty_cell (set_nth dst (cell_at (d_cells st) s) (d_cells st)) in
  if (0 <? d_pl st)%nat && merge_test fx st dst s
  then mkD cs (d_phys st) s s (d_pd st) (S (d_pl st))
  else let st1 := flush fx (mkD cs (d_phys st) s (d_ps st) (d_pd st) (d_pl st)) in
       mkD (d_cells st1) (d_phys st1) s s dst 1.

Fixpoint defrag_loop (fx : bool) (fuel dst : nat) (st : dstate) : dstate :=
  match fuel with
  | O => st
  | S f =>
      if (dst <? d_src st)%nat then
        let st' :=
          if live (cell_at (d_cells st) dst) then st
          else let s := scan_src (d_cells st) dst (d_src st) in
               if (s <=? dst)%nat then mkD (d_cells st) (d_phys st) s (d_ps st) (d_pd st) (d_pl st)
               else do_move fx st dst s in
        defrag_loop fx f (S dst) st'
      else st
  end.

Definition with_cpr (c : cache) (cs : list cell) (p : list (option datum)) (rs : list (nat * rng)) : cache :=
  mkCache cs p rs (window c) (cpad c) (bpad c) (can_shift c) (has_layers c).

(** [None] = the integer division by zero in [maxMoves := (... ) / (6 * layers)] when no layer has storage yet
    (as found; the repaired code does not divide then) *)
Definition defrag (fx : bool) (c : cache) : option cache :=
  if negb fx && negb (has_layers c) then None
  else
    let n := length (cells c) in
    let st := flush fx (defrag_loop fx n 0 (mkD (cells c) (phys c) (n - 1) 0 0 0)) in
    let rs := map (fun kr => (fst kr, range_of (fun _ cl => has (fst kr) cl) (d_cells st))) (ranges c) in
    Some (with_cpr c (d_cells st) (d_phys st) rs).

(** placement of the batch at [loc]: cells, ranges and [curCellRange] *)
Fixpoint place (cs : list cell) (rs : list (nat * rng)) (cur : rng) (loc : nat) (batch : list entry)
  : list cell * list (nat * rng) * rng :=
  match batch with
  | [] => (cs, rs, cur)
  | (q, p, _) :: t =>
      let cs' := set_nth loc (mkCell p [q]) cs in
      let r0 := match lookup rs q with Some r => r | None => new_range end in
      let r1 := (fst r0, if snd r0 <? Z.of_nat loc then Z.of_nat loc else snd r0) in
      let cur1 := (fst cur, if snd cur <? snd r1 then snd r1 else snd cur) in
      let r2 := (if Z.of_nat loc <? fst r1 then Z.of_nat loc else fst r1, snd r1) in
      let cur2 := (if fst r2 <? fst cur1 then fst r2 else fst cur1, snd cur1) in
      place cs' (update rs q r2) cur2 (S loc) t
  end.

(** [Put]: the rows of the batch go to [curLoc..] *)
Fixpoint put (p : list (option datum)) (loc : nat) (batch : list entry) : list (option datum) :=
  match batch with
  | [] => p
  | (_, ps, t) :: r => put (set_nth loc (Some (mkDatum t ps)) p) (S loc) r
  end.

(** [buildMask]: padded range and, per batch token, the locations that are NOT masked *)
Definition pad_range (cp : nat) (cur : rng) : rng :=
  (round_downZ (fst cur) cp, round_upZ (snd cur + 1) cp - 1).

Definition visible_at (w : option Z) (cl : cell) (q : nat) (p : Z) : bool :=
  has q cl && negb (p <? c_pos cl) && negb (match w with None => c_pos cl <? p - MaxInt32 | Some w => c_pos cl <? p - w end).

Fixpoint seqZ (lo : Z) (n : nat) : list Z := match n with O => [] | S k => lo :: seqZ (lo + 1) k end.

Definition mask_row (w : option Z) (cs : list cell) (pr : rng) (q : nat) (p : Z) : list nat :=
  filter (fun j => visible_at w (cell_at cs j) q p)
         (map Z.to_nat (seqZ (fst pr) (Z.to_nat (snd pr - fst pr + 1)))).

Record fwd_out := mkFwd { f_loc : nat; f_min : Z; f_max : Z; f_vis : list (list nat) }.

Inductive out :=
| OFwd (f : fwd_out)
| OErr (e : err)
| OOk
| OBool (b : bool)
| OPanic.

Definition with_layers (c : cache) : cache :=
  mkCache (cells c) (phys c) (ranges c) (window c) (cpad c) (bpad c) (can_shift c) true.

(** [StartForward] proper: metadata only ([meta_place], [start_forward_meta]); the K/V rows arrive with [Put] *)
Definition meta_place (c : cache) (loc : nat) (batch : list entry) : cache * out :=
  let '(cs, rs, cur) := place (cells c) (ranges c) new_range loc batch in
  let pr := pad_range (cpad c) cur in
  let vis := map (fun e : entry => let '(q, p, _) := e in mask_row (window c) cs pr q p) batch in
  (with_cpr c cs (phys c) rs, OFwd (mkFwd loc (fst pr) (snd pr) vis)).

Definition start_forward_meta (fx : bool) (c : cache) (batch : list entry) : cache * out :=
  let c1 := update_window c batch in
  let n := length batch in
  match find_start (cells c1) n with
  | Some loc => meta_place c1 loc batch
  | None =>
      match defrag fx c1 with
      | None => (c1, OPanic)
      | Some c2 =>
          match find_start (cells c2) n with
          | Some loc => meta_place c2 loc batch
          | None => (c2, OErr EFull)
          end
      end
  end.

Definition put_batch (c : cache) (loc : nat) (batch : list entry) : cache :=
  with_layers (with_cpr c (cells c) (put (phys c) loc batch) (ranges c)).

(** StartForward followed by Put on every layer (what a forward pass does) *)
Definition start_forward (fx : bool) (c : cache) (batch : list entry) : cache * out :=
  let '(c', r) := start_forward_meta fx c batch in
  match r with
  | OFwd f => (put_batch c' (f_loc f) batch, r)
  | _ => (c', r)
  end.

(** [StartForward(reserve = true)]: no metadata changes; the mask covers the whole cache.  The worst-case graph is built
    (Put allocates the K/V storage) but never computed. *)
Definition reserve_forward (c : cache) (batch : list entry) : cache * out :=
  let pr := pad_range (cpad c) (0, Z.of_nat (length (cells c)) - 1) in
  (with_layers c, OFwd (mkFwd 0 (fst pr) (snd pr) [])).     (* the mask of a reservation pass is never computed: not compared *)

(** ** CopyPrefix *)
Definition copy_cell (src dst : nat) (len : Z) (cl : cell) : cell :=
  let cl1 := if has dst cl then del dst cl else cl in
  if has src cl1 && (c_pos cl1 <? len) then add dst cl1 else cl1.

Definition copy_prefix (c : cache) (src dst : nat) (len : Z) : cache :=
  let r := range_of (fun _ cl => let cl1 := if has dst cl then del dst cl else cl in has src cl1 && (c_pos cl1 <? len)) (cells c) in
  with_cpr c (map (copy_cell src dst len) (cells c)) (phys c) (update (ranges c) dst r).

(** ** Remove *)
Definition shift_cell (off : Z) (cl : cell) : cell := mkCell (c_pos cl + off) (c_seqs cl).

(** the loop over the cells; [true] in the third component = early return with
    "shifting cells shared by multiple sequences not supported" (cells before the offending one stay updated) *)
Fixpoint rm_loop (q : nat) (b e off : Z) (i : nat) (l : list cell) (r : rng) : list cell * rng * bool :=
  match l with
  | [] => ([], r, false)
  | cl :: t =>
      if has q cl then
        if (b <=? c_pos cl) && (c_pos cl <? e) then
          let '(t', r', er) := rm_loop q b e off (S i) t r in (del q cl :: t', r', er)
        else if (e <=? c_pos cl) && others q cl then (cl :: t, r, true)
        else
          let cl' := if e <=? c_pos cl then shift_cell off cl else cl in
          let '(t', r', er) := rm_loop q b e off (S i) t (widen r i) in (cl' :: t', r', er)
      else
        let '(t', r', er) := rm_loop q b e off (S i) t r in (cl :: t', r', er)
  end.

(** [shift]: K rows of the sequence's range whose metadata says "this sequence, position >= beginIndex" are re-RoPEd *)
Definition shift_phys (cs : list cell) (r : rng) (q : nat) (begin off : Z) (p : list (option datum)) : list (option datum) :=
  mapi (fun i d => if in_rng r i && has q (cell_at cs i) && (begin <=? c_pos (cell_at cs i))
                   then match d with Some x => Some (mkDatum (d_tok x) (d_kpos x + off)) | None => None end
                   else d) p.

Definition remove (c : cache) (q : nat) (b e : Z) : cache * out :=
  let off := if e =? MaxInt32 then 0 else b - e in
  let '(cs, r, er) := rm_loop q b e off 0 (cells c) new_range in
  if er then (with_cpr c cs (phys c) (ranges c), OErr EShared)
  else if (fst r =? MaxInt) && (snd r =? 0) then (with_cpr c cs (phys c) (delete (ranges c) q), OOk)
  else
    let rs := update (ranges c) q r in
    if e =? MaxInt32 then (with_cpr c cs (phys c) rs, OOk)
    else if negb (can_shift c) then (with_cpr c cs (phys c) rs, OErr ENotSupported)
    else (with_cpr c cs (shift_phys cs r q (e + off) off (phys c)) rs, OOk).

(** ** CanResume *)
Definition last_in (cs : list cell) (r : rng) (q : nat) : Z :=
  fold_left Z.max (mapi (fun i cl => if in_rng r i && has q cl then c_pos cl else -1) cs) (-1).

(** [inWindow]: cells of the sequence (inside its range) with position in [lo, hi) *)
Definition count_in (cs : list cell) (r : rng) (q : nat) (lo hi : Z) : Z :=
  Z.of_nat (length (filter (fun b : bool => b)
     (mapi (fun i cl => in_rng r i && has q cl && (lo <=? c_pos cl) && (c_pos cl <? hi)) cs))).

(** [fx = true]: with fixes/C06-canresume-window.patch (every position of the new token's window must be present) *)
Definition can_resume (fx : bool) (c : cache) (q : nat) (p : Z) : bool :=
  match window c with
  | None => true
  | Some w =>
      match lookup (ranges c) q with
      | None => false
      | Some r =>
          let last := last_in (cells c) r q in
          if last =? -1 then false
          else
            let pws := Z.max 0 (p - w) in
            if pws <? Z.max 0 (last - w) then false
            else if fx then count_in (cells c) r q pws p =? p - pws else true
      end
  end.

(** ** operations as data *)
Inductive op :=
| Forward (batch : list entry)
| Copy (src dst : nat) (len : Z)
| Remove (q : nat) (b e : Z)
| CanResume (q : nat) (p : Z).

Definition step (fx : bool) (c : cache) (o : op) : cache * out :=
  match o with
  | Forward batch => start_forward fx c batch
  | Copy s d len => (copy_prefix c s d len, OOk)
  | Remove q b e => remove c q b e
  | CanResume q p => (c, OBool (can_resume fx c q p))
  end.

Definition run (fx : bool) (c : cache) (ops : list op) : cache := fold_left (fun c o => fst (step fx c o)) ops c.

(** ** SetCausal (CausalOptions.Except): inside a forward pass the model may exempt batch indices from the causal part of
    the mask (gemma3: the tokens of an image attend to each other in both directions).  The cache keeps the current
    exemption list ([c.opts.Except]); StartForward resets it, SetCausal rebuilds the mask when the list changes (and a
    context is given).  A pass is modelled by the exemption list and the mask rows currently returned by Get. *)
Definition visible_ex (w : option Z) (cl : cell) (q : nat) (p : Z) (enabled : bool) : bool :=
  has q cl && negb (enabled && (p <? c_pos cl)) &&
  negb (match w with None => c_pos cl <? p - MaxInt32 | Some w => c_pos cl <? p - w end).

Definition mask_row_ex (w : option Z) (cs : list cell) (pr : rng) (q : nat) (p : Z) (enabled : bool) : list nat :=
  filter (fun j => visible_ex w (cell_at cs j) q p enabled)
         (map Z.to_nat (seqZ (fst pr) (Z.to_nat (snd pr - fst pr + 1)))).

Definition rows_ex (c : cache) (pr : rng) (batch : list entry) (ex : list nat) : list (list nat) :=
  mapi (fun i (e : entry) => let '(q, p, _) := e in
          mask_row_ex (window c) (cells c) pr q p (negb (existsb (Nat.eqb i) ex))) batch.

Record pass := mkPass { p_except : list nat; p_vis : list (list nat) }.

Fixpoint list_eqb (a b : list nat) : bool :=
  match a, b with
  | [], [] => true
  | x :: a', y :: b' => Nat.eqb x y && list_eqb a' b'
  | _, _ => false
  end.

(** [SetCausal(ctx, CausalOptions{Except: ex})]; [ctx = false] stands for a nil context (options stored, mask not rebuilt) *)
Definition set_causal (c : cache) (pr : rng) (batch : list entry) (ps : pass) (ex : list nat) (ctx : bool) : pass :=
  if list_eqb (p_except ps) ex then ps
  else mkPass ex (if ctx then rows_ex c pr batch ex else p_vis ps).

(** the pass right after StartForward: nothing exempt, the causal mask *)
Definition pass_start (f : fwd_out) : pass := mkPass [] (f_vis f).

(** ** backend faults.  The only error-returning backend calls inside the cache are the mask upload of [buildMask]
    (ctx.Input().FromFloatSlice) and, in [shift], the upload of the offsets (FromIntSlice) and the model's shift function.
    StartForward that fails there has already registered the batch (cells, ranges) - nothing is rolled back; Remove that
    fails there has already shifted the positions in the metadata while the K rows keep their old rotation (the same
    state as with ErrNotSupported). *)
Definition start_forward_fault (fx : bool) (c : cache) (batch : list entry) : cache * out :=
  let '(c', r) := start_forward_meta fx c batch in
  match r with
  | OFwd _ => (c', OErr EBackend)
  | _ => (c', r)
  end.

Definition set_shift (c : cache) (b : bool) : cache :=
  mkCache (cells c) (phys c) (ranges c) (window c) (cpad c) (bpad c) b (has_layers c).

Definition remove_fault (c : cache) (q : nat) (b e : Z) : cache * out :=
  let '(c', r) := remove (set_shift c false) q b e in
  (set_shift c' (can_shift c),
   match r with
   | OErr ENotSupported => if can_shift c then OErr EBackend else r
   | _ => r
   end).

(** ** Remove as the interface prescribes it (kvcache/cache.go): if it fails, the sequence is cleared *)
Definition remove_c (c : cache) (q : nat) (b e : Z) : cache * out :=
  let '(c', r) := remove c q b e in
  match r with
  | OErr _ => (fst (remove c' q 0 MaxInt32), r)
  | _ => (c', r)
  end.

Definition pstep (c : cache) (o : op) : cache * out :=
  match o with
  | Remove q b e => remove_c c q b e
  | _ => step true c o
  end.
Definition prun (c : cache) (ops : list op) : cache := fold_left (fun c o => fst (pstep c o)) ops c.

(** ** WrapperCache (kvcache/wrapper.go) over two caches: every operation goes to both; a forward pass that fails in
    the second cache is unwound in the first by [Remove(seq_k, pos_k, MaxInt32)] for every batch entry *)
Fixpoint unwind (c : cache) (batch : list entry) : cache :=
  match batch with
  | [] => c
  | (q, p, _) :: t => unwind (fst (remove c q p MaxInt32)) t
  end.

Definition wstep (fx : bool) (w : cache * cache) (o : op) : (cache * cache) * out * out :=
  let '(c0, c1) := w in
  match o with
  | Forward batch =>
      let '(c0', r0) := start_forward_meta fx c0 batch in
      match r0 with
      | OFwd f0 =>
          let '(c1', r1) := start_forward_meta fx c1 batch in
          match r1 with
          | OFwd f1 => ((put_batch c0' (f_loc f0) batch, put_batch c1' (f_loc f1) batch), r0, r1)
          | _ => ((unwind c0' batch, c1'), r1, r1)
          end
      | _ => ((c0', c1), r0, r0)
      end
  | Copy s d len => ((copy_prefix c0 s d len, copy_prefix c1 s d len), OOk, OOk)
  | Remove q b e =>
      let '(c0', r0) := remove c0 q b e in
      match r0 with
      | OOk => let '(c1', r1) := remove c1 q b e in ((c0', c1'), r1, r1)
      | _ => ((c0', c1), r0, r0)
      end
  | CanResume q p => (w, OBool (can_resume fx c0 q p && can_resume fx c1 q p), OOk)
  end.

(** ** EncoderCache (kvcache/encoder.go): one position-independent K/V entry (the most recent image), with the
    bookkeeping of the position it belongs to.  [e_data] is what the storage tensors of each layer hold, [e_pend] the
    copies queued by Put in the graph of the current pass (executed by Compute, dropped by a reservation pass or a new
    pass).  [fx = true]: with fixes/C06-encoder-shift.patch (Remove moves encoderPos down with the positions behind the
    removed range). *)
Record enc := mkEnc {
  e_cached : bool; e_pos : Z; e_cur : Z; e_reserve : bool;
  e_data : list (nat * N); e_pend : list (nat * N)
}.
Definition enc_init : enc := mkEnc false 0 0 false [] [].

Inductive eop :=
| EStart (positions : list Z) (mm : list nat) (reserve : bool)   (* StartForward; mm = indices of the multimodal inputs *)
| EPut (layer : nat) (img : N)
| ECompute (run : bool)                                           (* the pass is computed / only reserved *)
| ERemove (b e : Z)
| EResume.

Fixpoint lookupN (m : list (nat * N)) (l : nat) : option N :=
  match m with [] => None | (k, v) :: t => if Nat.eqb k l then Some v else lookupN t l end.
Definition storeN (m : list (nat * N)) (kv : nat * N) : list (nat * N) :=
  kv :: filter (fun x => negb (Nat.eqb (fst x) (fst kv))) m.

Definition enc_remove (fx : bool) (e : enc) (b en : Z) : enc :=
  if (b <=? e_pos e) && (e_pos e <? en)
  then mkEnc false (e_pos e) (e_cur e) (e_reserve e) (e_data e) (e_pend e)
  else if fx && (en <=? e_pos e) && negb (en =? MaxInt32)
       then mkEnc (e_cached e) (e_pos e - (en - b)) (e_cur e) (e_reserve e) (e_data e) (e_pend e)
       else e.

(** [None] = index out of range of batch.Positions (a Go panic) *)
Definition enc_start (e : enc) (positions : list Z) (mm : list nat) (reserve : bool) : option enc :=
  match mm with
  | [] => Some (mkEnc (e_cached e) (e_pos e) (e_cur e) reserve (e_data e) [])
  | _ => match nth_error positions (last mm 0%nat) with
         | Some p => Some (mkEnc (e_cached e) (e_pos e) p reserve (e_data e) [])
         | None => None
         end
  end.

Definition enc_put (e : enc) (layer : nat) (img : N) : enc :=
  if e_reserve e then mkEnc (e_cached e) (e_pos e) (e_cur e) (e_reserve e) (e_data e) (e_pend e ++ [(layer, img)])
  else mkEnc true (e_cur e) (e_cur e) (e_reserve e) (e_data e) (e_pend e ++ [(layer, img)]).

Definition enc_compute (e : enc) (run : bool) : enc :=
  mkEnc (e_cached e) (e_pos e) (e_cur e) (e_reserve e)
        (if run then fold_left storeN (e_pend e) (e_data e) else e_data e) [].

Definition estep (fx : bool) (e : enc) (o : eop) : option enc :=
  match o with
  | EStart ps mm r => enc_start e ps mm r
  | EPut l img => Some (enc_put e l img)
  | ECompute run => Some (enc_compute e run)
  | ERemove b en => Some (enc_remove fx e b en)
  | EResume => Some e
  end.

(** WrapperCache(EncoderCache, Causal) as mllama builds it: layer 0 = cross attention (encoder cache), the others self
    attention.  A forward pass whose batch carries the image at index [at] stores it (Put + Compute). *)
Inductive ewop :=
| EWForward (batch : list entry) (img : option (nat * N))
| EWRemove (q : nat) (b e : Z)
| EWResume (q : nat) (p : Z).

Fixpoint enc_unwind (fx : bool) (e : enc) (batch : list entry) : enc :=
  match batch with
  | [] => e
  | (_, p, _) :: t => enc_unwind fx (enc_remove fx e p MaxInt32) t
  end.

Definition ewstep (fx : bool) (w : enc * cache) (o : ewop) : option ((enc * cache) * out) :=
  let '(e, c) := w in
  match o with
  | EWForward batch img =>
      match enc_start e (map (fun x : entry => snd (fst x)) batch) (match img with Some (at_, _) => [at_] | None => [] end) false with
      | None => None
      | Some e1 =>
          let '(c', r) := start_forward fx c batch in
          match r with
          | OFwd _ => Some ((match img with
                             | Some (_, id) => enc_compute (enc_put e1 0 id) true
                             | None => enc_compute e1 true end, c'), r)
          | _ => Some ((enc_unwind fx e1 batch, c'), r)
          end
      end
  | EWRemove q b en => let '(c', r) := remove c q b en in Some ((enc_remove fx e b en, c'), r)
  | EWResume q p => Some (w, OBool (can_resume fx c q p))
  end.

(** WrapperCache at protocol level: a failing Remove (which stops at the first failing cache) is followed by
    Remove(seq, 0, MaxInt32), which reaches both caches *)
Definition wremove_c (w : cache * cache) (q : nat) (b e : Z) : (cache * cache) * out :=
  let '(w', r0, _) := wstep true w (Remove q b e) in
  match r0 with
  | OErr _ => (fst (fst (wstep true w' (Remove q 0 MaxInt32))), r0)
  | _ => (w', r0)
  end.

Definition wpstep (w : cache * cache) (o : op) : (cache * cache) * out :=
  match o with
  | Remove q b e => wremove_c w q b e
  | _ => let '(w', r, _) := wstep true w o in (w', r)
  end.
Definition wprun (w : cache * cache) (ops : list op) : cache * cache := fold_left (fun w o => fst (wpstep w o)) ops w.

(** WrapperCache with a backend fault in the [k]-th mask upload / in the shift of Remove *)
Definition wforward_fault (fx : bool) (w : cache * cache) (batch : list entry) (k : nat) : (cache * cache) * out :=
  let '(c0, c1) := w in
  let '(c0', r0) := start_forward_meta fx c0 batch in
  match r0 with
  | OFwd _ =>
      match k with
      | O => ((c0', c1), OErr EBackend)
      | _ => let '(c1', r1) := start_forward_meta fx c1 batch in
             ((unwind c0' batch, c1'), match r1 with OFwd _ => OErr EBackend | _ => r1 end)
      end
  | _ => ((c0', c1), r0)
  end.

Definition wremove_fault (w : cache * cache) (q : nat) (b e : Z) : (cache * cache) * out :=
  let '(c0, c1) := w in
  let '(c0', r0) := remove_fault c0 q b e in
  match r0 with
  | OOk => let '(c1', r1) := remove_fault c1 q b e in ((c0', c1'), r1)
  | _ => ((c0', c1), r0)
  end.

