(** KvCache/ProofsInv.v - the representation invariant of the cache model, the abstraction function into
    KvCache/Spec.v, and general facts about cells, ranges and permutations used by the per-operation proofs. *)
From Coq Require Import List ZArith NArith Bool Arith Lia Permutation.
From V Require Import KvCache.Model KvCache.ProofsList.
From V Require KvCache.Spec.
Import ListNotations.
Open Scope Z_scope.

(** ** abstraction *)
Notation pair := (cell * option datum)%type (only parsing).
Definition livep (p : pair) : bool := live (fst p).
Definition tok_of (d : option datum) : N := match d with Some x => d_tok x | None => 0%N end.
Definition to_acell (p : pair) : Spec.acell := Spec.mkA (c_pos (fst p)) (tok_of (snd p)) (c_seqs (fst p)).
Definition live_pairs (cs : list cell) (ps : list (option datum)) : list pair := filter livep (combine cs ps).
Definition abs_cells (cs : list cell) (ps : list (option datum)) : list Spec.acell := map to_acell (live_pairs cs ps).
Definition abs (c : cache) : Spec.sstate :=
  Spec.mkS (abs_cells (cells c) (phys c)) (window c) (length (cells c)) (can_shift c).

(** a live pair is well-formed: data present, the position baked into K is the position of the metadata,
    and the position is a valid int32 position *)
Definition good_pair (p : pair) : Prop :=
  exists x, snd p = Some x /\ d_kpos x = c_pos (fst p) /\ 0 <= c_pos (fst p) < MaxInt32.

Record Inv (c : cache) : Prop := mkInv {
  inv_len : length (phys c) = length (cells c);
  inv_size : Z.of_nat (length (cells c)) < MaxInt;
  inv_data : Forall good_pair (live_pairs (cells c) (phys c));
  inv_rng : forall i q, (i < length (cells c))%nat -> has q (cell_at (cells c) i) = true ->
            exists r, lookup (ranges c) q = Some r /\ in_rng r i = true;
  inv_pad : (1 <= cpad c)%nat;
  inv_rpos : forall q r, lookup (ranges c) q = Some r -> 0 <= fst r
}.

(** relation with a specification state: same multiset of entries, same parameters *)
Definition R (c : cache) (s : Spec.sstate) : Prop :=
  Permutation (abs_cells (cells c) (phys c)) (Spec.s_cells s) /\
  Spec.s_window s = window c /\ Spec.s_cap s = length (cells c) /\ Spec.s_shift s = can_shift c.

Lemma R_abs : forall c, R c (abs c).
Proof. intros c. unfold R, abs. simpl. auto. Qed.

(** ** cells: model helpers against the specification's *)
Lemma has_spec : forall q p, Spec.has q (to_acell p) = has q (fst p).
Proof. reflexivity. Qed.
Lemma others_spec : forall q p, Spec.others q (to_acell p) = others q (fst p).
Proof. reflexivity. Qed.
Lemma live_spec : forall p, Spec.live (to_acell p) = livep p.
Proof. intros [[ps sq] d]. destruct sq; reflexivity. Qed.

Lemma has_del_same : forall q cl, has q (del q cl) = false.
Proof.
  intros q cl. unfold has, del. simpl. induction (c_seqs cl) as [|x t IH]; simpl; auto.
  destruct (Nat.eqb_spec x q); simpl; auto. destruct (Nat.eqb_spec q x); [lia|]. simpl. exact IH.
Qed.

Lemma has_del_other : forall q q' cl, q <> q' -> has q (del q' cl) = has q cl.
Proof.
  intros q q' cl H. unfold has, del. simpl. induction (c_seqs cl) as [|x t IH]; simpl; auto.
  destruct (Nat.eqb_spec x q'); simpl.
  - subst. destruct (Nat.eqb_spec q q'); [lia|]. simpl. exact IH.
  - rewrite IH. reflexivity.
Qed.

Lemma has_false_del : forall q cl, has q cl = false -> del q cl = cl.
Proof.
  intros q [p sq] H. unfold del, has in *. simpl in *. f_equal.
  induction sq as [|x t IH]; simpl in *; auto. apply orb_false_iff in H. destruct H as [H1 H2].
  destruct (Nat.eqb_spec x q); simpl.
  - subst. rewrite Nat.eqb_refl in H1. discriminate.
  - f_equal. auto.
Qed.

Lemma live_false_seqs : forall cl, live cl = false -> c_seqs cl = [].
Proof. intros [p [|x t]]; simpl; intros; [reflexivity|discriminate]. Qed.

Lemma has_dead : forall q cl, live cl = false -> has q cl = false.
Proof. intros q cl H. unfold has. rewrite (live_false_seqs _ H). reflexivity. Qed.

Lemma has_live : forall q cl, has q cl = true -> live cl = true.
Proof. intros q cl H. destruct (live cl) eqn:E; auto. rewrite (has_dead q _ E) in H. discriminate. Qed.

Lemma cell_at_oob : forall l i, (length l <= i)%nat -> cell_at l i = empty_cell.
Proof. intros. unfold cell_at. apply nth_overflow. assumption. Qed.

Lemma has_empty : forall q, has q empty_cell = false.
Proof. reflexivity. Qed.

(** ** filters and permutations *)
Lemma Permutation_filter' : forall A (f : A -> bool) l l', Permutation l l' -> Permutation (filter f l) (filter f l').
Proof.
  intros A f l l' H. induction H; simpl.
  - constructor.
  - destruct (f x); auto.
  - destruct (f x); destruct (f y); auto. constructor.
  - eapply Permutation_trans; eauto.
Qed.

Lemma Permutation_existsb : forall A (f : A -> bool) l l', Permutation l l' -> existsb f l = existsb f l'.
Proof.
  intros A f l l' H. induction H; simpl; auto.
  - rewrite IHPermutation. reflexivity.
  - destruct (f x); destruct (f y); reflexivity.
  - congruence.
Qed.

Lemma filter_map_comm : forall A B (g : A -> B) (f : B -> bool) l, filter f (map g l) = map g (filter (fun x => f (g x)) l).
Proof. intros. induction l; simpl; auto. destruct (f (g a)); simpl; rewrite IHl; reflexivity. Qed.

Lemma filter_filter : forall A (f g : A -> bool) l, filter f (filter g l) = filter (fun x => g x && f x) l.
Proof. intros. induction l; simpl; auto. destruct (g a); simpl; [destruct (f a)|]; rewrite IHl; reflexivity. Qed.

Lemma filter_ext_in' : forall A (f g : A -> bool) l, (forall x, In x l -> f x = g x) -> filter f l = filter g l.
Proof.
  intros A f g l H. induction l as [|a t IH]; simpl; auto.
  rewrite (H a) by (left; reflexivity). rewrite IH; [reflexivity|]. intros; apply H; right; assumption.
Qed.

(** mapping the cells of a pair list by a function that keeps dead cells dead *)
Definition on_cell (f : cell -> cell) (p : pair) : pair := (f (fst p), snd p).

Lemma combine_map_l : forall (f : cell -> cell) cs (ps : list (option datum)),
  combine (map f cs) ps = map (on_cell f) (combine cs ps).
Proof. intros f cs. induction cs as [|c t IH]; intros [|p ps]; simpl; auto. rewrite IH. reflexivity. Qed.

Lemma live_pairs_map : forall (f : cell -> cell) cs ps,
  (forall cl, live cl = false -> live (f cl) = false) ->
  live_pairs (map f cs) ps = filter livep (map (on_cell f) (live_pairs cs ps)).
Proof.
  intros f cs ps H. unfold live_pairs. rewrite combine_map_l.
  induction (combine cs ps) as [|p t IH]; simpl; auto.
  destruct (livep p) eqn:E; simpl.
  - destruct (livep (on_cell f p)); rewrite IH; reflexivity.
  - unfold livep in E. unfold livep at 1. simpl. rewrite (H _ E). exact IH.
Qed.

(** ** ranges *)
Lemma lookup_update_same : forall m q r, lookup (update m q r) q = Some r.
Proof.
  intros m q r. induction m as [|[k r0] t IH]; simpl.
  - rewrite Nat.eqb_refl. reflexivity.
  - destruct (Nat.eqb_spec k q); simpl.
    + subst. rewrite Nat.eqb_refl. reflexivity.
    + destruct (Nat.eqb_spec k q); [lia|]. exact IH.
Qed.

Lemma lookup_update_other : forall m q q' r, q <> q' -> lookup (update m q' r) q = lookup m q.
Proof.
  intros m q q' r H. induction m as [|[k r0] t IH]; simpl.
  - destruct (Nat.eqb_spec q' q); [lia|reflexivity].
  - destruct (Nat.eqb_spec k q'); simpl.
    + subst. destruct (Nat.eqb_spec q' q); [lia|reflexivity].
    + destruct (Nat.eqb_spec k q); [reflexivity|exact IH].
Qed.

Lemma lookup_delete_other : forall m q q', q <> q' -> lookup (delete m q') q = lookup m q.
Proof.
  intros m q q' H. induction m as [|[k r0] t IH]; simpl; auto.
  destruct (Nat.eqb_spec k q'); simpl.
  - subst. destruct (Nat.eqb_spec q' q); [lia|exact IH].
  - destruct (Nat.eqb_spec k q); [reflexivity|exact IH].
Qed.

Lemma widen_in : forall r i j, in_rng r j = true -> in_rng (widen r i) j = true.
Proof.
  intros [a b] i j H. unfold in_rng, widen in *. simpl in *. apply andb_true_iff in H. destruct H as [H1 H2].
  apply andb_true_iff. split; apply Z.leb_le; apply Z.leb_le in H1, H2; lia.
Qed.

Lemma widen_self : forall r i, in_rng (widen r i) i = true.
Proof. intros [a b] i. unfold in_rng, widen. simpl. apply andb_true_iff. split; apply Z.leb_le; lia. Qed.

Lemma range_from_mono : forall f l i r j, in_rng r j = true -> in_rng (range_from i f l r) j = true.
Proof.
  intros f l. induction l as [|cl t IH]; intros i r j H; simpl; auto.
  apply IH. destruct (f i cl); [apply widen_in|]; assumption.
Qed.

Lemma range_from_covers : forall f l i r k, (k < length l)%nat -> f (i + k)%nat (nth k l empty_cell) = true ->
  in_rng (range_from i f l r) (i + k) = true.
Proof.
  intros f l. induction l as [|cl t IH]; intros i r k Hk Hf; simpl in *; [lia|].
  destruct k as [|k].
  - rewrite Nat.add_0_r in *. rewrite Hf. apply range_from_mono. apply widen_self.
  - replace (i + S k)%nat with (S i + k)%nat in * by lia. apply IH; [lia|assumption].
Qed.

Lemma range_of_covers : forall f l k, (k < length l)%nat -> f k (cell_at l k) = true -> in_rng (range_of f l) k = true.
Proof. intros. unfold range_of. apply (range_from_covers f l 0 new_range k); assumption. Qed.

(** a range computed over fewer than MaxInt locations is [new_range] exactly when nothing matched *)
Lemma range_from_fst_le : forall f l i r, fst (range_from i f l r) <= fst r.
Proof.
  intros f l. induction l as [|cl t IH]; intros i r; simpl; [lia|].
  etransitivity; [apply IH|]. destruct (f i cl); simpl; lia.
Qed.

Lemma range_from_none : forall f l i r, (forall k, (k < length l)%nat -> f (i + k)%nat (nth k l empty_cell) = false) ->
  range_from i f l r = r.
Proof.
  intros f l. induction l as [|cl t IH]; intros i r H; simpl; auto.
  pose proof (H 0%nat) as H0. simpl in H0. rewrite Nat.add_0_r in H0. rewrite H0 by lia.
  apply IH. intros k Hk. replace (S i + k)%nat with (i + S k)%nat by lia. apply (H (S k)). simpl. lia.
Qed.

Lemma range_from_some : forall f l i r k, (k < length l)%nat -> f (i + k)%nat (nth k l empty_cell) = true ->
  fst (range_from i f l r) <= Z.of_nat (i + k).
Proof.
  intros f l. induction l as [|cl t IH]; intros i r k Hk Hf; simpl in *; [lia|].
  destruct k as [|k].
  - rewrite Nat.add_0_r in *. rewrite Hf. etransitivity; [apply range_from_fst_le|]. simpl. lia.
  - replace (i + S k)%nat with (S i + k)%nat in * by lia. apply IH; [lia|assumption].
Qed.

Lemma range_of_new_iff : forall f l, Z.of_nat (length l) < MaxInt ->
  ((fst (range_of f l) =? MaxInt) && (snd (range_of f l) =? 0) = true <->
   forall k, (k < length l)%nat -> f k (cell_at l k) = false).
Proof.
  intros f l Hl. split.
  - intros H k Hk. destruct (f k (cell_at l k)) eqn:E; auto. exfalso.
    apply andb_true_iff in H. destruct H as [H _]. apply Z.eqb_eq in H.
    pose proof (range_from_some f l 0 new_range k Hk E) as H1. unfold range_of in H. simpl in H1. lia.
  - intros H. unfold range_of. rewrite range_from_none; [reflexivity|]. intros k Hk. apply H. assumption.
Qed.

(** ranges never start below location 0 *)
Definition RP (m : list (nat * rng)) : Prop := forall q r, lookup m q = Some r -> 0 <= fst r.

Lemma range_from_fst_nonneg : forall f l i r, 0 <= fst r -> 0 <= fst (range_from i f l r).
Proof.
  intros f l. induction l as [|cl t IH]; intros i r H; simpl; auto.
  apply IH. destruct (f i cl); simpl; lia.
Qed.

Lemma range_of_fst_nonneg : forall f l, 0 <= fst (range_of f l).
Proof. intros. unfold range_of. apply range_from_fst_nonneg. unfold new_range, MaxInt. simpl. lia. Qed.

Lemma lookup_delete_same : forall m q, lookup (delete m q) q = None.
Proof.
  intros m q. induction m as [|[k r0] t IH]; simpl; auto.
  destruct (Nat.eqb_spec k q); simpl; auto. destruct (Nat.eqb_spec k q); [lia|exact IH].
Qed.

Lemma rpos_update : forall m q0 r0, RP m -> 0 <= fst r0 -> RP (update m q0 r0).
Proof.
  intros m q0 r0 H H0 q r Hr. destruct (Nat.eq_dec q q0) as [->|Hne].
  - rewrite lookup_update_same in Hr. injection Hr as <-. exact H0.
  - rewrite lookup_update_other in Hr by assumption. eapply H; eauto.
Qed.

Lemma rpos_delete : forall m q0, RP m -> RP (delete m q0).
Proof.
  intros m q0 H q r Hr. destruct (Nat.eq_dec q q0) as [->|Hne].
  - rewrite lookup_delete_same in Hr. discriminate.
  - rewrite lookup_delete_other in Hr by assumption. eapply H; eauto.
Qed.

(** ** positions of pairs in a zipped list *)
Lemma nth_combine : forall (cs : list cell) (ps : list (option datum)) i,
  length ps = length cs -> (i < length cs)%nat ->
  nth i (combine cs ps) (empty_cell, None) = (cell_at cs i, nth i ps None).
Proof. intros. unfold cell_at. apply combine_nth. auto. Qed.

Lemma In_live_pairs : forall cs ps p, length ps = length cs ->
  (In p (live_pairs cs ps) <-> exists i, (i < length cs)%nat /\ p = (cell_at cs i, nth i ps None) /\ live (cell_at cs i) = true).
Proof.
  intros cs ps p Hl. unfold live_pairs. rewrite filter_In. split.
  - intros [Hin Hlive]. apply (In_nth _ _ (empty_cell, None)) in Hin. destruct Hin as [i [Hi Hn]].
    rewrite combine_length, Hl, Nat.min_id in Hi. exists i. rewrite nth_combine in Hn by assumption.
    subst p. unfold livep in Hlive. simpl in Hlive. auto.
  - intros [i [Hi [Hp Hlive]]]. subst p. split; [|exact Hlive].
    rewrite <- nth_combine by assumption. apply nth_In. rewrite combine_length, Hl, Nat.min_id. assumption.
Qed.
