(** KvCache/ProofsCausal.v - SetCausal: the mask rows of a pass follow the current exemption list; rows of tokens that are
    not exempt are the causal rows; after a reset to the empty list the mask is the causal mask of StartForward again. *)
From Coq Require Import List ZArith NArith Bool Arith Lia.
From V Require Import KvCache.Model KvCache.ProofsList.
Import ListNotations.
Open Scope Z_scope.

Lemma visible_ex_enabled : forall w cl q p, visible_ex w cl q p true = visible_at w cl q p.
Proof. reflexivity. Qed.

Lemma mask_row_ex_enabled : forall w cs pr q p, mask_row_ex w cs pr q p true = mask_row w cs pr q p.
Proof. reflexivity. Qed.

Lemma list_eqb_eq : forall a b, list_eqb a b = true <-> a = b.
Proof.
  induction a as [|x a IH]; intros [|y b]; simpl; split; intros H; try discriminate; auto.
  - apply andb_true_iff in H. destruct H as [H1 H2]. apply Nat.eqb_eq in H1. apply IH in H2. congruence.
  - injection H as -> ->. rewrite Nat.eqb_refl. apply IH. reflexivity.
Qed.

(** the causal rows, as StartForward builds them *)
Definition causal_rows (c : cache) (pr : rng) (batch : list entry) : list (list nat) :=
  map (fun e : entry => let '(q, p, _) := e in mask_row (window c) (cells c) pr q p) batch.

Lemma mapi_from_nil_ex : forall c pr batch i,
  mapi_from i (fun k (e : entry) => let '(q, p, _) := e in mask_row_ex (window c) (cells c) pr q p (negb (existsb (Nat.eqb k) []))) batch
  = causal_rows c pr batch.
Proof. intros c pr batch. induction batch as [|[[q p] t] r IH]; intros i; simpl; auto. rewrite IH. reflexivity. Qed.

Lemma rows_ex_nil : forall c pr batch, rows_ex c pr batch [] = causal_rows c pr batch.
Proof. intros. unfold rows_ex, mapi. apply mapi_from_nil_ex. Qed.

(** a token that is not exempt has its causal row, whatever else is exempt *)
Lemma rows_ex_not_exempt : forall c pr batch ex i q p t,
  nth_error batch i = Some (q, p, t) -> existsb (Nat.eqb i) ex = false ->
  nth_error (rows_ex c pr batch ex) i = Some (mask_row (window c) (cells c) pr q p).
Proof.
  intros c pr batch ex i q p t Hn He. unfold rows_ex, mapi.
  assert (G : forall l k j, nth_error l j = Some (q, p, t) -> existsb (Nat.eqb (k + j)) ex = false ->
            nth_error (mapi_from k (fun i0 (e : entry) => let '(q0, p0, _) := e in
                          mask_row_ex (window c) (cells c) pr q0 p0 (negb (existsb (Nat.eqb i0) ex))) l) j
            = Some (mask_row (window c) (cells c) pr q p)).
  { induction l as [|e r IH]; intros k j Hj Hk; destruct j as [|j]; simpl in *; try discriminate.
    - injection Hj as ->. rewrite Nat.add_0_r in Hk. rewrite Hk. reflexivity.
    - apply IH; [exact Hj|]. replace (S k + j)%nat with (k + S j)%nat by lia. exact Hk. }
  apply (G batch 0%nat i Hn). exact He.
Qed.

(** along the SetCausal calls of a pass (each with a context), the mask is the one of the current exemption list *)
Definition pass_ok (c : cache) (pr : rng) (batch : list entry) (ps : pass) : Prop :=
  p_vis ps = rows_ex c pr batch (p_except ps).

Lemma set_causal_ok : forall c pr batch ps ex, pass_ok c pr batch ps ->
  pass_ok c pr batch (set_causal c pr batch ps ex true) /\ p_except (set_causal c pr batch ps ex true) = ex.
Proof.
  intros c pr batch ps ex H. unfold set_causal. destruct (list_eqb (p_except ps) ex) eqn:E.
  - apply list_eqb_eq in E. split; [exact H|exact E].
  - split; reflexivity.
Qed.

Definition run_calls (c : cache) (pr : rng) (batch : list entry) (ps : pass) (calls : list (list nat)) : pass :=
  fold_left (fun ps ex => set_causal c pr batch ps ex true) calls ps.

Lemma last_indep : forall A (l : list A) x d d', last (x :: l) d = last (x :: l) d'.
Proof. intros A l. induction l as [|y t IH]; intros x d d'; [reflexivity|]. simpl in *. apply (IH y). Qed.

Theorem set_causal_run : forall calls c pr batch ps, pass_ok c pr batch ps ->
  pass_ok c pr batch (run_calls c pr batch ps calls) /\
  p_except (run_calls c pr batch ps calls) = last calls (p_except ps).
Proof.
  induction calls as [|ex t IH]; intros c pr batch ps H; simpl; auto.
  destruct (set_causal_ok c pr batch ps ex H) as [H1 H2].
  destruct (IH c pr batch _ H1) as [I1 I2]. split; [exact I1|]. rewrite I2.
  destruct t as [|y t']; [simpl; exact H2|]. apply last_indep.
Qed.

(** after a reset to the empty list, whatever was exempt before, the mask is the causal mask again *)
Theorem set_causal_reset : forall calls c pr batch ps, pass_ok c pr batch ps ->
  p_vis (run_calls c pr batch ps (calls ++ [[]])) = causal_rows c pr batch.
Proof.
  intros calls c pr batch ps H. destruct (set_causal_run (calls ++ [[]]) c pr batch ps H) as [H1 H2].
  unfold pass_ok in H1. rewrite H1, H2, last_last. apply rows_ex_nil.
Qed.
