(** KvCache/ProofsEnc.v - EncoderCache (kvcache/encoder.go): the one entry it holds is exposed (EncoderCached, Get)
    exactly as long as the position it was stored for is part of the sequence, positions being followed through the
    shifts of Remove.  Protocol-level operations: a forward pass that carries an image (StartForward with the image's
    index, Put on every cross-attention layer, Compute), a forward pass without image, a reservation pass, Remove. *)
From Coq Require Import List ZArith NArith Bool Arith Lia.
From V Require Import KvCache.Model.
Import ListNotations.
Open Scope Z_scope.

Inductive pe_op :=
| PStore (positions : list Z) (at_ : nat) (img : N)      (* batch with an image at index [at_] *)
| PText (positions : list Z)                              (* batch without image *)
| PReserve (positions : list Z) (mm : list nat) (img : N) (* reservation pass (worst-case graph, never computed) *)
| PRemove (b e : Z).

(** the primitive operations a protocol operation consists of *)
Definition expand (layers : list nat) (o : pe_op) : list eop :=
  match o with
  | PStore ps a img => EStart ps [a] false :: map (fun l => EPut l img) layers ++ [ECompute true]
  | PText ps => [EStart ps [] false; ECompute true]
  | PReserve ps mm img => EStart ps mm true :: map (fun l => EPut l img) layers ++ [ECompute false]
  | PRemove b e => [ERemove b e]
  end.

Fixpoint erun (fx : bool) (e : enc) (ops : list eop) : option enc :=
  match ops with
  | [] => Some e
  | o :: t => match estep fx e o with Some e' => erun fx e' t | None => None end
  end.

Fixpoint perun (fx : bool) (layers : list nat) (e : enc) (ops : list pe_op) : option enc :=
  match ops with
  | [] => Some e
  | o :: t => match erun fx e (expand layers o) with Some e' => perun fx layers e' t | None => None end
  end.

(** the ideal entry: position (in current coordinates) and image *)
Definition ideal_step (s : option (Z * N)) (o : pe_op) : option (Z * N) :=
  match o with
  | PStore ps a img => match nth_error ps a with Some p => Some (p, img) | None => s end
  | PText _ | PReserve _ _ _ => s
  | PRemove b e =>
      match s with
      | None => None
      | Some (p, img) =>
          if (b <=? p) && (p <? e) then None
          else if (e <=? p) && negb (e =? MaxInt32) then Some (p - (e - b), img) else s
      end
  end.
Definition ideal_run (s : option (Z * N)) (ops : list pe_op) : option (Z * N) := fold_left ideal_step ops s.

Definition EI (layers : list nat) (e : enc) (s : option (Z * N)) : Prop :=
  e_pend e = [] /\
  match s with
  | None => e_cached e = false
  | Some (p, img) => e_cached e = true /\ e_pos e = p /\ forall l, In l layers -> lookupN (e_data e) l = Some img
  end.

Lemma lookup_storeN_same : forall m l v, lookupN (storeN m (l, v)) l = Some v.
Proof. intros. unfold storeN. simpl. rewrite Nat.eqb_refl. reflexivity. Qed.

Lemma lookup_storeN_other : forall m l l' v, l <> l' -> lookupN (storeN m (l', v)) l = lookupN m l.
Proof.
  intros m l l' v H. unfold storeN. simpl. destruct (Nat.eqb_spec l' l); [congruence|].
  induction m as [|[k x] t IH]; simpl; auto. destruct (Nat.eqb_spec k l'); simpl.
  - subst. destruct (Nat.eqb_spec l' l); [congruence|]. exact IH.
  - destruct (Nat.eqb_spec k l); [reflexivity|exact IH].
Qed.

Lemma fold_store_all : forall layers img m l, In l layers ->
  lookupN (fold_left storeN (map (fun l => (l, img)) layers) m) l = Some img.
Proof.
  induction layers as [|x t IH]; intros img m l H; simpl in *; [contradiction|].
  destruct (in_dec Nat.eq_dec l t) as [Hi|Hn].
  - apply IH. exact Hi.
  - destruct H as [->|H]; [|contradiction].
    assert (G : forall t' m', ~ In l t' -> lookupN (fold_left storeN (map (fun l0 => (l0, img)) t') m') l = lookupN m' l).
    { induction t' as [|y t' IH']; intros m' Hn'; simpl; auto. rewrite IH' by (intros C; apply Hn'; right; exact C).
      apply lookup_storeN_other. intros ->. apply Hn'. left. reflexivity. }
    rewrite G by exact Hn. apply lookup_storeN_same.
Qed.

(** the Puts of one pass, then Compute *)
Lemma erun_puts : forall fx layers img e run, e_pend e = [] ->
  erun fx e (map (fun l => EPut l img) layers ++ [ECompute run]) =
  Some (mkEnc (if e_reserve e then e_cached e else match layers with [] => e_cached e | _ => true end)
              (if e_reserve e then e_pos e else match layers with [] => e_pos e | _ => e_cur e end)
              (e_cur e) (e_reserve e)
              (if run then fold_left storeN (map (fun l => (l, img)) layers) (e_data e) else e_data e) []).
Proof.
  intros fx layers img e run Hp.
  assert (G : forall ls e0, erun fx e0 (map (fun l => EPut l img) ls ++ [ECompute run]) =
            Some (mkEnc (if e_reserve e0 then e_cached e0 else match ls with [] => e_cached e0 | _ => true end)
                        (if e_reserve e0 then e_pos e0 else match ls with [] => e_pos e0 | _ => e_cur e0 end)
                        (e_cur e0) (e_reserve e0)
                        (if run then fold_left storeN (e_pend e0 ++ map (fun l => (l, img)) ls) (e_data e0) else e_data e0) [])).
  { induction ls as [|x t IH]; intros e0; simpl.
    - unfold enc_compute. rewrite app_nil_r. destruct (e_reserve e0); reflexivity.
    - rewrite IH. unfold enc_put. destruct (e_reserve e0) eqn:Er; simpl; rewrite ?Er, <- ?app_assoc; simpl.
      + reflexivity.
      + destruct t; reflexivity. }
  rewrite G, Hp. reflexivity.
Qed.

(** indices of multimodal inputs lie inside the batch (otherwise the Go code panics with an index error) *)
Definition pe_ok (o : pe_op) : Prop :=
  match o with
  | PStore ps a _ => nth_error ps a <> None
  | PReserve ps mm _ => mm = [] \/ nth_error ps (last mm 0%nat) <> None
  | _ => True
  end.

Theorem enc_step_refines : forall layers e s o, layers <> [] -> EI layers e s -> pe_ok o ->
  exists e', erun true e (expand layers o) = Some e' /\ EI layers e' (ideal_step s o).
Proof.
  intros layers e s o Hl [Hp Hs] Hok. destruct o as [ps a img|ps|ps mm img|b en]; simpl in *.
  - destruct (nth_error ps a) as [p|] eqn:En; [|congruence]. unfold enc_start. simpl. rewrite ?En.
    rewrite erun_puts by reflexivity. simpl. eexists. split; [reflexivity|].
    destruct layers as [|l0 lt]; [congruence|]. split; [reflexivity|]. simpl. repeat split; auto.
    intros l Hin. apply (fold_store_all (l0 :: lt) img (e_data e) l Hin).
  - unfold enc_start, enc_compute. simpl. eexists. split; [reflexivity|]. split; [reflexivity|].
    destruct s as [[p i]|]; simpl; exact Hs.
  - assert (Hst : exists cur, enc_start e ps mm true = Some (mkEnc (e_cached e) (e_pos e) cur true (e_data e) [])).
    { unfold enc_start. destruct mm as [|n mm']; [eexists; reflexivity|].
      destruct Hok as [Hok|Hok]; [discriminate|]. destruct (nth_error ps (last (n :: mm') 0%nat)); [eexists; reflexivity|congruence]. }
    destruct Hst as [cur Hst]. rewrite Hst.
    rewrite erun_puts by reflexivity. simpl. eexists. split; [reflexivity|]. split; [reflexivity|].
    destruct s as [[p i]|]; simpl; exact Hs.
  - eexists. split; [reflexivity|]. unfold enc_remove. destruct s as [[p i]|]; simpl in *.
    + destruct Hs as [Hc [Hpos Hd]]. rewrite Hpos.
      destruct ((b <=? p) && (p <? en)); simpl; [split; [exact Hp|reflexivity]|].
      destruct ((en <=? p) && negb (en =? MaxInt32)); simpl; split; auto.
    + destruct ((b <=? e_pos e) && (e_pos e <? en)); simpl; [split; [exact Hp|reflexivity]|].
      destruct ((en <=? e_pos e) && negb (en =? MaxInt32)); simpl; split; auto.
Qed.

Theorem enc_refines : forall layers ops e s, layers <> [] -> EI layers e s -> Forall pe_ok ops ->
  exists e', perun true layers e ops = Some e' /\ EI layers e' (ideal_run s ops).
Proof.
  intros layers ops. induction ops as [|o t IH]; intros e s Hl HE Hok; simpl.
  - eexists. split; [reflexivity|exact HE].
  - inversion Hok as [|? ? Ho Ht]; subst. destruct (enc_step_refines layers e s o Hl HE Ho) as [e1 [H1 HE1]].
    rewrite H1. apply IH; assumption.
Qed.

Lemma EI_init : forall layers, EI layers enc_init None.
Proof. intros. split; reflexivity. Qed.

(** as found (no shift of encoderPos): image stored at position 1 of [0;1;2]; Remove(0,1) twice removes first the token
    before the image, then the image itself - and the cache still claims to hold it *)
Theorem enc_as_found_refuted :
  ~ (forall layers ops e', layers <> [] -> Forall pe_ok ops ->
     perun false layers enc_init ops = Some e' -> EI layers e' (ideal_run None ops)).
Proof.
  intros H.
  specialize (H [0%nat] [PStore [0; 1; 2] 1 7%N; PRemove 0 1; PRemove 0 1] _ ltac:(discriminate)
                ltac:(repeat constructor; simpl; discriminate) eq_refl).
  destruct H as [_ H]. vm_compute in H. discriminate.
Qed.

(** ** WrapperCache(EncoderCache, Causal) ([ewstep]): each component goes through exactly the operations analysed above *)
Theorem encwrap_forward_image : forall e c batch a id e' c' f,
  ewstep true (e, c) (EWForward batch (Some (a, id))) = Some ((e', c'), OFwd f) ->
  erun true e (expand [0%nat] (PStore (map (fun x : entry => snd (fst x)) batch) a id)) = Some e' /\
  start_forward true c batch = (c', OFwd f).
Proof.
  intros e c batch a id e' c' f H. unfold ewstep in H.
  destruct (enc_start e (map (fun x : entry => snd (fst x)) batch) [a] false) as [e1|] eqn:E1; [|discriminate].
  destruct (start_forward true c batch) as [c2 r] eqn:E2. destruct r; try discriminate. injection H as <- <- <-.
  split; [|reflexivity]. cbn [expand map app erun estep]. rewrite E1. reflexivity.
Qed.

Theorem encwrap_forward_text : forall e c batch e' c' f,
  ewstep true (e, c) (EWForward batch None) = Some ((e', c'), OFwd f) ->
  erun true e (expand [0%nat] (PText (map (fun x : entry => snd (fst x)) batch))) = Some e' /\
  start_forward true c batch = (c', OFwd f).
Proof.
  intros e c batch e' c' f H. unfold ewstep in H.
  destruct (enc_start e (map (fun x : entry => snd (fst x)) batch) [] false) as [e1|] eqn:E1; [|discriminate].
  destruct (start_forward true c batch) as [c2 r] eqn:E2. destruct r; try discriminate. injection H as <- <- <-.
  split; [|reflexivity]. cbn [expand erun estep]. rewrite E1. reflexivity.
Qed.

Theorem encwrap_remove : forall e c q b en e' c' r,
  ewstep true (e, c) (EWRemove q b en) = Some ((e', c'), r) ->
  erun true e (expand [0%nat] (PRemove b en)) = Some e' /\ remove c q b en = (c', r).
Proof.
  intros e c q b en e' c' r H. unfold ewstep in H. destruct (remove c q b en) as [c2 r2]. injection H as <- <- <-. split; reflexivity.
Qed.

(** a refused pass: the unwind Remove(seq_k, pos_k, MaxInt32) leaves the encoder entry alone when the batch continues the
    sequence behind the image *)
Lemma enc_unwind_fresh : forall batch e, (forall q p t, In (q, p, t) batch -> e_pos e < p) -> enc_unwind true e batch = e.
Proof.
  induction batch as [|[[q p] t] r IH]; intros e H; simpl; auto.
  assert (E : enc_remove true e p MaxInt32 = e).
  { unfold enc_remove. specialize (H q p t (or_introl eq_refl)).
    destruct ((p <=? e_pos e) && (e_pos e <? MaxInt32)) eqn:A.
    - apply andb_true_iff in A. destruct A as [A _]. apply Z.leb_le in A. exfalso. apply (Z.lt_irrefl p). eapply Z.le_lt_trans; eauto.
    - rewrite Z.eqb_refl. cbn [negb]. rewrite andb_false_r. reflexivity. }
  rewrite E. apply IH. intros q' p' t' Hin. apply (H q' p' t'). right. exact Hin.
Qed.

Theorem encwrap_refused : forall e c batch img e' c' er,
  ewstep true (e, c) (EWForward batch img) = Some ((e', c'), OErr er) ->
  (forall q p t, In (q, p, t) batch -> e_pos e < p) ->
  e_cached e' = e_cached e /\ e_pos e' = e_pos e /\ e_data e' = e_data e /\ start_forward true c batch = (c', OErr er).
Proof.
  intros e c batch img e' c' er H Hf. unfold ewstep in H.
  destruct (enc_start e (map (fun x : entry => snd (fst x)) batch) (match img with Some (at_, _) => [at_] | None => [] end) false) as [e1|] eqn:E1; [|discriminate].
  destruct (start_forward true c batch) as [c2 r] eqn:E2. destruct r; try discriminate.
  injection H as <- <- <-.
  assert (H1 : e_cached e1 = e_cached e /\ e_pos e1 = e_pos e /\ e_data e1 = e_data e).
  { unfold enc_start in E1. destruct img as [[a i]|]; [destruct (nth_error _ _) in E1; [|discriminate]|]; injection E1 as <-; auto. }
  destruct H1 as [A [B C]]. rewrite enc_unwind_fresh by (intros; rewrite B; eapply Hf; eauto). auto.
Qed.
