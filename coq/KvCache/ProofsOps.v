(** KvCache/ProofsOps.v - every operation of the cache model keeps the invariant and refines the corresponding
    operation of KvCache/Spec.v (part 1: defrag at cache level, CopyPrefix, CanResume, Remove). *)
From Coq Require Import List ZArith NArith Bool Arith Lia Permutation.
From V Require Import KvCache.Model KvCache.ProofsList KvCache.ProofsInv KvCache.ProofsDefrag.
From V Require KvCache.Spec.
Import ListNotations.
Open Scope Z_scope.

(** ** generic: a cell-wise metadata transformation seen through the abstraction *)
Lemma abs_map : forall (f : cell -> cell) (g : Spec.acell -> Spec.acell) LP,
  (forall p, g (to_acell p) = to_acell (on_cell f p)) ->
  map to_acell (filter livep (map (on_cell f) LP)) = Spec.prune (map g (map to_acell LP)).
Proof.
  intros f g LP H. unfold Spec.prune. induction LP as [|p t IH]; simpl; auto.
  rewrite H, live_spec. destruct (livep (on_cell f p)); simpl; rewrite IH; reflexivity.
Qed.

Lemma abs_cells_map : forall (f : cell -> cell) g cs ps,
  (forall cl, live cl = false -> live (f cl) = false) ->
  (forall p, g (to_acell p) = to_acell (on_cell f p)) ->
  abs_cells (map f cs) ps = Spec.prune (map g (abs_cells cs ps)).
Proof.
  intros f g cs ps Hd Hg. unfold abs_cells. rewrite live_pairs_map by assumption. apply abs_map. assumption.
Qed.

Lemma cell_at_map : forall (f : cell -> cell) cs i, (i < length cs)%nat -> cell_at (map f cs) i = f (cell_at cs i).
Proof.
  intros f cs i H. unfold cell_at. rewrite (nth_indep _ empty_cell (f empty_cell)) by (rewrite map_length; assumption).
  apply map_nth.
Qed.

(** good pairs survive a transformation that keeps positions *)
Lemma good_map : forall (f : cell -> cell) cs ps,
  (forall cl, live cl = false -> live (f cl) = false) ->
  (forall cl, c_pos (f cl) = c_pos cl) ->
  Forall good_pair (live_pairs cs ps) -> Forall good_pair (live_pairs (map f cs) ps).
Proof.
  intros f cs ps Hd Hp H. rewrite live_pairs_map by assumption.
  apply Forall_forall. intros p Hin. apply filter_In in Hin. destruct Hin as [Hin _].
  apply in_map_iff in Hin. destruct Hin as [p0 [E Hin0]]. subst p.
  rewrite Forall_forall in H. destruct (H p0 Hin0) as [x [H1 [H2 H3]]].
  exists x. unfold on_cell. simpl. rewrite Hp. auto.
Qed.

(** ** defrag at the level of the cache *)
Lemma lookup_map_range : forall (g : nat -> rng) m q,
  lookup (map (fun kr => (fst kr, g (fst kr))) m) q = match lookup m q with Some _ => Some (g q) | None => None end.
Proof.
  intros g m q. induction m as [|[k r] t IH]; simpl; auto.
  destruct (Nat.eqb_spec k q); [subst; reflexivity|exact IH].
Qed.

Theorem defrag_correct : forall c c', Inv c -> defrag true c = Some c' ->
  Inv c' /\ Permutation (live_pairs (cells c') (phys c')) (live_pairs (cells c) (phys c)) /\
  compact (cells c') /\ length (cells c') = length (cells c) /\
  window c' = window c /\ cpad c' = cpad c /\ bpad c' = bpad c /\ can_shift c' = can_shift c /\ has_layers c' = has_layers c.
Proof.
  intros c c' HI H. unfold defrag in H. simpl in H. injection H as H. subst c'. simpl.
  destruct (defrag_loop_correct (cells c) (phys c) (inv_len c HI)) as [L1 [L2 [HP HC]]].
  set (st := flush true (defrag_loop true (length (cells c)) 0
               (mkD (cells c) (phys c) (length (cells c) - 1) 0 0 0))) in *.
  split; [|repeat split; auto].
  constructor; simpl.
  - lia.
  - rewrite L1. apply (inv_size c HI).
  - eapply Permutation_Forall; [apply Permutation_sym; exact HP|apply (inv_data c HI)].
  - intros i q Hi Hq. rewrite (lookup_map_range (fun k => range_of (fun _ cl => has k cl) (d_cells st))).
    (* the pair at i comes from some original live pair, so q was a key of the ranges *)
    assert (Hin : In (cell_at (d_cells st) i, nth i (d_phys st) None) (live_pairs (d_cells st) (d_phys st))).
    { apply In_live_pairs; [lia|]. exists i. repeat split; auto. eapply has_live; eauto. }
    apply (Permutation_in _ HP) in Hin. apply In_live_pairs in Hin; [|apply (inv_len c HI)].
    destruct Hin as [i0 [Hi0 [E _]]]. injection E as E1 E2.
    rewrite E1 in Hq. destruct (inv_rng c HI i0 q Hi0 Hq) as [r [Hr _]]. rewrite Hr.
    exists (range_of (fun _ cl => has q cl) (d_cells st)). split; [reflexivity|].
    apply range_of_covers; [lia|]. rewrite E1. exact Hq.
  - apply (inv_pad c HI).
  - intros q r Hr. rewrite (lookup_map_range (fun k => range_of (fun _ cl => has k cl) (d_cells st))) in Hr.
    destruct (lookup (ranges c) q); [injection Hr as <-; apply range_of_fst_nonneg|discriminate].
Qed.

(** ** CopyPrefix *)
Definition copy_cell' (src dst : nat) (len : Z) (cl : cell) : cell :=
  let cl1 := del dst cl in if has src cl1 && (c_pos cl1 <? len) then add dst cl1 else cl1.

Lemma copy_cell_eq : forall src dst len cl, copy_cell src dst len cl = copy_cell' src dst len cl.
Proof.
  intros. unfold copy_cell, copy_cell'. destruct (has dst cl) eqn:E; [reflexivity|].
  rewrite (has_false_del _ _ E). reflexivity.
Qed.

Lemma copy_cell_dead : forall src dst len cl, live cl = false -> live (copy_cell src dst len cl) = false.
Proof.
  intros src dst len cl H. rewrite copy_cell_eq. unfold copy_cell'.
  assert (E : del dst cl = cl) by (apply has_false_del, has_dead; assumption). rewrite E.
  rewrite (has_dead src cl H). simpl. exact H.
Qed.

Lemma copy_cell_spec : forall src dst len p,
  Spec.copy_cell src dst len (to_acell p) = to_acell (on_cell (copy_cell src dst len) p).
Proof.
  intros src dst len [cl d]. unfold on_cell. simpl. rewrite copy_cell_eq. unfold Spec.copy_cell, copy_cell'.
  change (Spec.drop_seq dst (to_acell (cl, d))) with (to_acell (del dst cl, d)).
  rewrite has_spec. simpl.
  destruct (has src (del dst cl) && (c_pos cl <? len)); reflexivity.
Qed.

Lemma has_add : forall q q' cl, has q (add q' cl) = has q cl || Nat.eqb q q'.
Proof. intros. unfold has, add. simpl. rewrite existsb_app. simpl. rewrite orb_false_r. reflexivity. Qed.

Theorem copy_prefix_correct : forall c src dst len, Inv c ->
  Inv (copy_prefix c src dst len) /\
  abs_cells (cells (copy_prefix c src dst len)) (phys (copy_prefix c src dst len)) =
    Spec.s_cells (Spec.spec_copy (abs c) src dst len) /\
  length (cells (copy_prefix c src dst len)) = length (cells c).
Proof.
  intros c src dst len HI. unfold copy_prefix. simpl. split; [|split].
  - constructor; simpl.
    + rewrite map_length. apply (inv_len c HI).
    + rewrite map_length. apply (inv_size c HI).
    + apply good_map; [apply copy_cell_dead| |apply (inv_data c HI)].
      intros cl. rewrite copy_cell_eq. unfold copy_cell'. destruct (has src (del dst cl) && _); reflexivity.
    + intros i q Hi Hq. rewrite map_length in Hi. rewrite cell_at_map in Hq by assumption.
      destruct (Nat.eq_dec q dst) as [E|E].
      * subst q. rewrite lookup_update_same. eexists. split; [reflexivity|].
        apply range_of_covers; [assumption|].
        rewrite copy_cell_eq in Hq. unfold copy_cell' in Hq.
        destruct (has dst (cell_at (cells c) i)) eqn:Ed.
        -- destruct (has src (del dst (cell_at (cells c) i)) && (c_pos (del dst (cell_at (cells c) i)) <? len)) eqn:Ec; [reflexivity|].
           rewrite has_del_same in Hq. discriminate.
        -- rewrite (has_false_del _ _ Ed) in *.
           destruct (has src (cell_at (cells c) i) && (c_pos (cell_at (cells c) i) <? len)) eqn:Ec; [reflexivity|].
           congruence.
      * rewrite lookup_update_other by assumption. apply (inv_rng c HI i q Hi).
        rewrite copy_cell_eq in Hq. unfold copy_cell' in Hq.
        destruct (has src (del dst (cell_at (cells c) i)) && _) in Hq.
        -- rewrite has_add in Hq. destruct (Nat.eqb_spec q dst); [lia|]. rewrite orb_false_r in Hq.
           rewrite has_del_other in Hq by assumption. exact Hq.
        -- rewrite has_del_other in Hq by assumption. exact Hq.
    + apply (inv_pad c HI).
    + apply rpos_update; [exact (inv_rpos c HI)|apply range_of_fst_nonneg].
  - unfold Spec.spec_copy. simpl. apply abs_cells_map; [apply copy_cell_dead|apply copy_cell_spec].
  - apply map_length.
Qed.

(** ** quantities that depend on the metadata only *)
Lemma map_fst_combine : forall (cs : list cell) (ps : list (option datum)), length ps = length cs -> map fst (combine cs ps) = cs.
Proof.
  intros cs. induction cs as [|c t IH]; intros [|p ps] H; simpl in *; try lia; auto. f_equal. apply IH. lia.
Qed.

Lemma map_fst_filter : forall (P : cell -> bool) (l : list (cell * option datum)),
  map fst (filter (fun p => P (fst p)) l) = filter P (map fst l).
Proof. intros. induction l as [|a t IH]; simpl; auto. destruct (P (fst a)); simpl; rewrite IH; reflexivity. Qed.

Lemma metas_filter : forall (P : cell -> bool) cs ps, length ps = length cs ->
  (forall cl, P cl = true -> live cl = true) ->
  map fst (filter (fun p => P (fst p)) (live_pairs cs ps)) = filter P cs.
Proof.
  intros P cs ps Hl HP. unfold live_pairs. rewrite filter_filter.
  rewrite (filter_ext_in' _ (fun x => livep x && P (fst x)) (fun x => P (fst x))).
  - rewrite map_fst_filter, map_fst_combine by assumption. reflexivity.
  - intros x _. unfold livep. destruct (P (fst x)) eqn:E; [rewrite (HP _ E); reflexivity|apply andb_false_r].
Qed.

Lemma abs_filter_metas : forall (P : cell -> bool) (Q : Spec.acell -> bool) cs ps, length ps = length cs ->
  (forall cl, P cl = true -> live cl = true) ->
  (forall p, Q (to_acell p) = P (fst p)) ->
  map Spec.a_pos (filter Q (abs_cells cs ps)) = map c_pos (filter P cs).
Proof.
  intros P Q cs ps Hl HP HQ. unfold abs_cells. rewrite filter_map_comm, map_map.
  rewrite (filter_ext_in' _ (fun x => Q (to_acell x)) (fun x => P (fst x))) by (intros; apply HQ).
  rewrite <- (metas_filter P cs ps Hl HP). rewrite map_map. reflexivity.
Qed.

Lemma mapi_from_eq_map : forall A B (f : nat -> A -> B) (g : A -> B) l i d,
  (forall k, (k < length l)%nat -> f (i + k)%nat (nth k l d) = g (nth k l d)) -> mapi_from i f l = map g l.
Proof.
  intros A B f g l. induction l as [|h t IH]; intros i d H; simpl; auto. f_equal.
  - specialize (H 0%nat). simpl in H. rewrite Nat.add_0_r in H. apply H. lia.
  - apply (IH (S i) d). intros k Hk. replace (S i + k)%nat with (i + S k)%nat by lia. apply (H (S k)). simpl. lia.
Qed.

Lemma fold_max_left_right : forall (g : cell -> Z) (P : cell -> bool) (h : cell -> Z) l a,
  (forall cl, g cl = if P cl then h cl else -1) -> -1 <= a ->
  fold_left Z.max (map g l) a = Z.max a (fold_right Z.max (-1) (map h (filter P l))).
Proof.
  intros g P h l. induction l as [|cl t IH]; intros a Hg Ha; simpl.
  - lia.
  - rewrite IH by (auto; lia). rewrite Hg. destruct (P cl); simpl; lia.
Qed.

Lemma length_filter_id_map : forall A (f : A -> bool) l, length (filter (fun b : bool => b) (map f l)) = length (filter f l).
Proof. intros. induction l as [|a t IH]; simpl; auto. destruct (f a); simpl; rewrite IH; reflexivity. Qed.

(** under the invariant, the range restriction of the scans is immaterial *)
Lemma in_rng_of_inv : forall c q r, Inv c -> lookup (ranges c) q = Some r ->
  forall k, (k < length (cells c))%nat -> has q (cell_at (cells c) k) = true -> in_rng r k = true.
Proof.
  intros c q r HI Hr k Hk Hq. destruct (inv_rng c HI k q Hk Hq) as [r' [Hr' Hin]]. congruence.
Qed.

Lemma no_range_no_cell : forall c q, Inv c -> lookup (ranges c) q = None -> filter (has q) (cells c) = [].
Proof.
  intros c q HI Hr. destruct (filter (has q) (cells c)) as [|x t] eqn:E; auto. exfalso.
  assert (Hin : In x (filter (has q) (cells c))) by (rewrite E; left; reflexivity).
  apply filter_In in Hin. destruct Hin as [Hin Hq]. apply (In_nth _ _ empty_cell) in Hin.
  destruct Hin as [k [Hk Hn]]. destruct (inv_rng c HI k q Hk) as [r [Hr' _]]; [unfold cell_at; rewrite Hn; exact Hq|congruence].
Qed.

Lemma last_in_metas : forall c q r, Inv c -> lookup (ranges c) q = Some r ->
  last_in (cells c) r q = fold_right Z.max (-1) (map c_pos (filter (has q) (cells c))).
Proof.
  intros c q r HI Hr. unfold last_in, mapi.
  rewrite (mapi_from_eq_map _ _ _ (fun cl => if has q cl then c_pos cl else -1) (cells c) 0 empty_cell).
  - rewrite (fold_max_left_right _ (has q) c_pos) by (auto; lia).
    assert (-1 <= fold_right Z.max (-1) (map c_pos (filter (has q) (cells c)))).
    { induction (map c_pos (filter (has q) (cells c))); simpl; lia. }
    lia.
  - intros k Hk. simpl. destruct (has q (nth k (cells c) empty_cell)) eqn:E; [|rewrite andb_false_r; reflexivity].
    rewrite (in_rng_of_inv c q r HI Hr k Hk E). reflexivity.
Qed.

Lemma count_in_metas : forall c q r lo hi, Inv c -> lookup (ranges c) q = Some r ->
  count_in (cells c) r q lo hi =
  Z.of_nat (length (filter (fun cl => has q cl && (lo <=? c_pos cl) && (c_pos cl <? hi)) (cells c))).
Proof.
  intros c q r lo hi HI Hr. unfold count_in, mapi.
  rewrite (mapi_from_eq_map _ _ _ (fun cl => has q cl && (lo <=? c_pos cl) && (c_pos cl <? hi)) (cells c) 0 empty_cell).
  - rewrite length_filter_id_map. reflexivity.
  - intros k Hk. simpl. destruct (has q (nth k (cells c) empty_cell)) eqn:E; [|rewrite andb_false_r; reflexivity].
    rewrite (in_rng_of_inv c q r HI Hr k Hk E). reflexivity.
Qed.

Lemma spec_last_pos_metas : forall c q, Inv c ->
  Spec.last_pos (abs c) q = fold_right Z.max (-1) (map c_pos (filter (has q) (cells c))).
Proof.
  intros c q HI. unfold Spec.last_pos, abs. simpl.
  rewrite (abs_filter_metas (has q) (Spec.has q) _ _ (inv_len c HI)); auto. intros; eapply has_live; eauto.
Qed.

Lemma spec_count_pos_metas : forall c q lo hi, Inv c ->
  Spec.count_pos (abs c) q lo hi =
  Z.of_nat (length (filter (fun cl => has q cl && (lo <=? c_pos cl) && (c_pos cl <? hi)) (cells c))).
Proof.
  intros c q lo hi HI. unfold Spec.count_pos, abs. simpl. f_equal.
  rewrite <- (map_length Spec.a_pos), <- (map_length c_pos).
  rewrite (abs_filter_metas (fun cl => has q cl && (lo <=? c_pos cl) && (c_pos cl <? hi))
             (fun a => Spec.has q a && (lo <=? Spec.a_pos a) && (Spec.a_pos a <? hi)) _ _ (inv_len c HI)); auto.
  intros cl H. apply andb_true_iff in H. destruct H as [H _]. apply andb_true_iff in H. destruct H as [H _].
  eapply has_live; eauto.
Qed.

Theorem can_resume_correct : forall c q p, Inv c -> can_resume true c q p = Spec.spec_can_resume (abs c) q p.
Proof.
  intros c q p HI. unfold can_resume, Spec.spec_can_resume. simpl. destruct (window c) as [w|]; [|reflexivity].
  rewrite spec_last_pos_metas by assumption.
  destruct (lookup (ranges c) q) as [r|] eqn:Hr.
  - rewrite (last_in_metas c q r HI Hr).
    destruct (fold_right Z.max (-1) (map c_pos (filter (has q) (cells c))) =? -1); [reflexivity|].
    rewrite (count_in_metas c q r _ _ HI Hr), spec_count_pos_metas by assumption.
    destruct (Z.ltb_spec (Z.max 0 (p - w)) (Z.max 0 (fold_right Z.max (-1) (map c_pos (filter (has q) (cells c))) - w)));
      destruct (Z.leb_spec (Z.max 0 (fold_right Z.max (-1) (map c_pos (filter (has q) (cells c))) - w)) (Z.max 0 (p - w)));
      try lia; reflexivity.
  - rewrite (no_range_no_cell c q HI Hr). reflexivity.
Qed.

(** ** Remove *)
Definition in_be (b e : Z) (cl : cell) : bool := (b <=? c_pos cl) && (c_pos cl <? e).
Definition blocked (q : nat) (b e : Z) (cl : cell) : bool :=
  has q cl && negb (in_be b e cl) && (e <=? c_pos cl) && others q cl.
Definition rm_cell' (q : nat) (b e off : Z) (cl : cell) : cell :=
  if has q cl then if in_be b e cl then del q cl else if e <=? c_pos cl then shift_cell off cl else cl else cl.
Definition kept (q : nat) (b e : Z) (cl : cell) : bool := has q cl && negb (in_be b e cl).

Lemma rm_loop_spec : forall q b e off l i r,
  let '(l', r', er) := rm_loop q b e off i l r in
  er = existsb (blocked q b e) l /\ length l' = length l /\
  (er = false -> l' = map (rm_cell' q b e off) l /\ r' = range_from i (fun _ cl => kept q b e cl) l r).
Proof.
  intros q b e off l. induction l as [|cl t IH]; intros i r; simpl.
  - auto.
  - unfold blocked, kept, rm_cell', in_be. destruct (has q cl) eqn:Hq; simpl.
    + destruct ((b <=? c_pos cl) && (c_pos cl <? e)) eqn:Hin; simpl.
      * specialize (IH (S i) r). destruct (rm_loop q b e off (S i) t r) as [[t' r'] er].
        destruct IH as [I1 [I2 I3]]. simpl. split; [exact I1|split; [lia|intros E; destruct (I3 E); subst; auto]].
      * destruct (e <=? c_pos cl) eqn:He; simpl.
        -- destruct (others q cl) eqn:Ho; simpl.
           ++ split; [reflexivity|split; [reflexivity|discriminate]].
           ++ specialize (IH (S i) (widen r i)). destruct (rm_loop q b e off (S i) t (widen r i)) as [[t' r'] er].
              destruct IH as [I1 [I2 I3]]. simpl. split; [exact I1|split; [lia|intros E; destruct (I3 E); subst; auto]].
        -- specialize (IH (S i) (widen r i)). destruct (rm_loop q b e off (S i) t (widen r i)) as [[t' r'] er].
           destruct IH as [I1 [I2 I3]]. simpl. split; [exact I1|split; [lia|intros E; destruct (I3 E); subst; auto]].
    + specialize (IH (S i) r). destruct (rm_loop q b e off (S i) t r) as [[t' r'] er].
      destruct IH as [I1 [I2 I3]]. simpl. split; [exact I1|split; [lia|intros E; destruct (I3 E); subst; auto]].
Qed.

(** whatever the loop did (also when it gave up half way), cell by cell: the other owners are untouched, a cell with
    another owner keeps its position, and what the sequence still owns has a valid position *)
Definition pert (q : nat) (a a' : cell) : Prop :=
  c_seqs (del q a') = c_seqs (del q a) /\ (others q a = true -> c_pos a' = c_pos a) /\
  (has q a' = true -> 0 <= c_pos a' < MaxInt32).

Lemma del_del : forall q cl, del q (del q cl) = del q cl.
Proof. intros. apply has_false_del. apply has_del_same. Qed.

Lemma rm_loop_pert : forall q b e off l i r,
  0 <= b <= e -> (off = 0 \/ off = b - e) ->
  Forall (fun cl => has q cl = true -> 0 <= c_pos cl < MaxInt32) l ->
  Forall2 (pert q) l (fst (fst (rm_loop q b e off i l r))).
Proof.
  intros q b e off l. induction l as [|cl t IH]; intros i r Hbe Hoff Hpos; simpl.
  - constructor.
  - inversion Hpos as [|? ? Hc Ht]; subst.
    assert (Hsame : pert q cl cl) by (unfold pert; auto).
    destruct (has q cl) eqn:Hq.
    + destruct ((b <=? c_pos cl) && (c_pos cl <? e)) eqn:Hin.
      * specialize (IH (S i) r Hbe Hoff Ht). destruct (rm_loop q b e off (S i) t r) as [[t' r'] er]. simpl in *.
        constructor; auto. unfold pert. rewrite del_del, has_del_same. repeat split; auto; discriminate.
      * destruct (e <=? c_pos cl) eqn:He; simpl.
        -- destruct (others q cl) eqn:Ho; simpl.
           ++ constructor; auto. clear IH. induction t; constructor; auto; unfold pert; auto.
              ** inversion Ht; subst. auto.
              ** inversion Ht; subst. auto.
           ++ specialize (IH (S i) (widen r i) Hbe Hoff Ht). destruct (rm_loop q b e off (S i) t (widen r i)) as [[t' r'] er]. simpl in *.
              constructor; auto. unfold pert, shift_cell, del, has. simpl. repeat split; auto; try discriminate.
              all: try (intros; congruence).
              all: specialize (Hc eq_refl); apply Z.leb_le in He; lia.
        -- specialize (IH (S i) (widen r i) Hbe Hoff Ht). destruct (rm_loop q b e off (S i) t (widen r i)) as [[t' r'] er]. simpl in *.
           constructor; auto.
    + specialize (IH (S i) r Hbe Hoff Ht). destruct (rm_loop q b e off (S i) t r) as [[t' r'] er]. simpl in *.
      constructor; auto.
Qed.

(** pointwise reading of [inv_data] *)
Lemma data_nth : forall cs ps, length ps = length cs ->
  (Forall good_pair (live_pairs cs ps) <->
   forall i, (i < length cs)%nat -> live (cell_at cs i) = true -> good_pair (cell_at cs i, nth i ps None)).
Proof.
  intros cs ps Hl. rewrite Forall_forall. split.
  - intros H i Hi Hlive. apply H. apply In_live_pairs; auto. exists i. auto.
  - intros H p Hin. apply In_live_pairs in Hin; auto. destruct Hin as [i [Hi [E Hlive]]]. subst p. auto.
Qed.

Lemma existsb_abs : forall (P : cell -> bool) (Q : Spec.acell -> bool) cs ps, length ps = length cs ->
  (forall cl, P cl = true -> live cl = true) -> (forall p, Q (to_acell p) = P (fst p)) ->
  existsb Q (abs_cells cs ps) = existsb P cs.
Proof.
  intros P Q cs. induction cs as [|c t IH]; intros [|p ps] Hl HP HQ; simpl in *; try lia; auto.
  unfold abs_cells, live_pairs in *. simpl. unfold livep at 1. simpl.
  destruct (live c) eqn:E; simpl.
  - rewrite HQ. simpl. f_equal. apply IH; auto.
  - destruct (P c) eqn:EP; [rewrite (HP _ EP) in E; discriminate|]. simpl. apply IH; auto.
Qed.

Lemma existsb_false_nth : forall (P : cell -> bool) l,
  existsb P l = false <-> forall k, (k < length l)%nat -> P (cell_at l k) = false.
Proof.
  intros P l. split.
  - intros H k Hk. destruct (P (cell_at l k)) eqn:E; auto.
    assert (existsb P l = true) by (apply existsb_exists; exists (cell_at l k); split; [apply nth_In; assumption|assumption]).
    congruence.
  - intros H. destruct (existsb P l) eqn:E; auto. apply existsb_exists in E. destruct E as [x [Hin Hx]].
    apply (In_nth _ _ empty_cell) in Hin. destruct Hin as [k [Hk Hn]]. specialize (H k Hk). unfold cell_at in H. congruence.
Qed.

Lemma abs_cells_tok_ext : forall cs ps ps', Forall2 (fun d d' => tok_of d = tok_of d') ps ps' ->
  abs_cells cs ps = abs_cells cs ps'.
Proof.
  intros cs. induction cs as [|c t IH]; intros ps ps' H; simpl; auto.
  inversion H as [|d d' l l' Hd Hl]; subst; simpl; auto.
  unfold abs_cells, live_pairs in *. simpl.
  replace (livep (c, d')) with (livep (c, d)) by reflexivity.
  destruct (livep (c, d)); simpl.
  - f_equal; [unfold to_acell; simpl; rewrite Hd; reflexivity|]. apply IH. assumption.
  - apply IH. assumption.
Qed.

Lemma Forall2_mapi_from : forall A (Rel : A -> A -> Prop) (f : nat -> A -> A) l i,
  (forall k x, Rel x (f k x)) -> Forall2 Rel l (mapi_from i f l).
Proof. intros A Rel f l. induction l; intros; simpl; constructor; auto. Qed.

Lemma shift_phys_tok : forall cs r q bg off ps, Forall2 (fun d d' => tok_of d = tok_of d') ps (shift_phys cs r q bg off ps).
Proof.
  intros. unfold shift_phys, mapi. apply Forall2_mapi_from. intros k x.
  destruct (in_rng r k && has q (cell_at cs k) && (bg <=? c_pos (cell_at cs k))); [destruct x|]; reflexivity.
Qed.

Lemma rm_cell_dead : forall q b e off cl, live cl = false -> live (rm_cell' q b e off cl) = false.
Proof. intros. unfold rm_cell'. rewrite (has_dead q cl H). exact H. Qed.

Lemma rm_cell_spec : forall q b e p,
  Spec.rm_cell q b e (to_acell p) = to_acell (on_cell (rm_cell' q b e (if e =? MaxInt32 then 0 else b - e)) p).
Proof.
  intros q b e [cl d]. unfold on_cell, Spec.rm_cell, rm_cell', in_be, Spec.in_range, Spec.rm_offset. simpl.
  rewrite has_spec. simpl. destruct (has q cl); [|reflexivity].
  destruct ((b <=? c_pos cl) && (c_pos cl <? e)); [reflexivity|].
  change Spec.MaxInt32 with MaxInt32. destruct (e <=? c_pos cl); reflexivity.
Qed.

Lemma has_rm_cell_same : forall q b e off cl, has q (rm_cell' q b e off cl) = kept q b e cl.
Proof.
  intros. unfold rm_cell', kept. destruct (has q cl) eqn:Hq; simpl; [|exact Hq].
  destruct (in_be b e cl); simpl; [apply has_del_same|].
  destruct (e <=? c_pos cl); [unfold has, shift_cell; simpl|]; exact Hq.
Qed.

Lemma has_rm_cell_other : forall q q' b e off cl, q' <> q -> has q' (rm_cell' q b e off cl) = has q' cl.
Proof.
  intros. unfold rm_cell'. destruct (has q cl); [|reflexivity].
  destruct (in_be b e cl); [apply has_del_other; assumption|]. destruct (e <=? c_pos cl); reflexivity.
Qed.

(** the successful paths of Remove *)
Theorem remove_ok : forall c q b e c', Inv c -> 0 <= b <= e -> remove c q b e = (c', OOk) ->
  Inv c' /\ length (cells c') = length (cells c) /\
  window c' = window c /\ can_shift c' = can_shift c /\
  exists s', Spec.spec_remove (abs c) q b e = (s', None) /\ abs_cells (cells c') (phys c') = Spec.s_cells s'.
Proof.
  intros c q b e c' HI Hbe H. unfold remove in H.
  set (off := if e =? MaxInt32 then 0 else b - e) in *.
  pose proof (rm_loop_spec q b e off (cells c) 0 new_range) as HS.
  destruct (rm_loop q b e off 0 (cells c) new_range) as [[cs r] er]. destruct HS as [Her [Hlen Hok]].
  destruct er; [discriminate|]. destruct (Hok eq_refl) as [Hcs Hr]. clear Hok.
  fold (range_of (fun _ cl => kept q b e cl) (cells c)) in Hr.
  symmetry in Her. pose proof (proj1 (existsb_false_nth _ _) Her) as Hnb.
  pose proof (inv_len c HI) as HL. pose proof (proj1 (data_nth _ _ HL) (inv_data c HI)) as HD.
  (* the specification side *)
  assert (Hsb : existsb (Spec.rm_blocked q b e) (abs_cells (cells c) (phys c)) = false).
  { rewrite (existsb_abs (blocked q b e) _ _ _ HL); auto.
    intros cl Hb. unfold blocked in Hb. repeat (apply andb_true_iff in Hb; destruct Hb as [Hb _]). eapply has_live; eauto. }
  assert (Habs : forall ps', Forall2 (fun d d' => tok_of d = tok_of d') (phys c) ps' ->
            abs_cells cs ps' = Spec.prune (map (Spec.rm_cell q b e) (abs_cells (cells c) (phys c)))).
  { intros ps' Hps. rewrite <- (abs_cells_tok_ext cs (phys c) ps' Hps). subst cs.
    apply abs_cells_map; [apply rm_cell_dead|apply rm_cell_spec]. }
  assert (Hhq : existsb (Spec.has q) (abs_cells cs (phys c)) = existsb (kept q b e) (cells c)).
  { rewrite (existsb_abs (has q) (Spec.has q)); auto; [|rewrite Hlen; exact HL|intros; eapply has_live; eauto].
    subst cs. clear. induction (cells c); simpl; auto. rewrite has_rm_cell_same, IHl. reflexivity. }
  assert (Hnew : (fst r =? MaxInt) && (snd r =? 0) = negb (existsb (kept q b e) (cells c))).
  { destruct (existsb (kept q b e) (cells c)) eqn:Ek; simpl.
    - destruct ((fst r =? MaxInt) && (snd r =? 0)) eqn:En; auto. exfalso.
      rewrite Hr in En.
      pose proof (proj1 (range_of_new_iff (fun _ cl => kept q b e cl) (cells c) (inv_size c HI)) En) as En1.
      pose proof (proj2 (existsb_false_nth (kept q b e) (cells c)) En1) as En2. congruence.
    - rewrite Hr. apply (proj2 (range_of_new_iff (fun _ cl => kept q b e cl) (cells c) (inv_size c HI))).
      apply (proj1 (existsb_false_nth (kept q b e) (cells c))). exact Ek. }
  assert (Hself : Forall2 (fun d d' : option datum => tok_of d = tok_of d') (phys c) (phys c)).
  { clear. induction (phys c); constructor; auto. }
  (* invariant of the result, for either physical outcome *)
  assert (HInv : forall ps' rs',
            (ps' = phys c /\ (e = MaxInt32 \/ existsb (kept q b e) (cells c) = false) \/
             ps' = shift_phys cs r q (e + off) off (phys c) /\ e <> MaxInt32) ->
            (forall q', q' <> q -> lookup rs' q' = lookup (ranges c) q') ->
            (existsb (kept q b e) (cells c) = true -> lookup rs' q = Some r) ->
            RP rs' ->
            Inv (with_cpr c cs ps' rs')).
  { intros ps' rs' Hps Hro Hrq Hrp. constructor; simpl.
    - destruct Hps as [[-> _]|[-> _]]; [|unfold shift_phys; rewrite mapi_length]; lia.
    - rewrite Hlen. apply (inv_size c HI).
    - apply data_nth.
      { destruct Hps as [[-> _]|[-> _]]; [|unfold shift_phys; rewrite mapi_length]; lia. }
      intros i Hi Hlive. rewrite Hlen in Hi. subst cs. rewrite cell_at_map in * by assumption.
      set (cl := cell_at (cells c) i) in *.
      assert (Hb := Hnb i Hi). fold cl in Hb.
      unfold rm_cell' in *. destruct (has q cl) eqn:Hq.
      + destruct (in_be b e cl) eqn:Hin.
        * (* removed from the sequence, still owned by others *)
          assert (Hl0 : live cl = true) by (eapply has_live; eauto).
          destruct (HD i Hi Hl0) as [x [Hx [Hk Hp]]]. fold cl in Hx, Hk, Hp. simpl in Hx.
          destruct Hps as [[-> _]|[-> Hne]].
          -- exists x. simpl. auto.
          -- unfold shift_phys. rewrite (nth_mapi _ _ _ _ _ None None) by lia.
             rewrite cell_at_map by assumption. fold cl. unfold rm_cell'. rewrite Hq, Hin.
             rewrite has_del_same, andb_false_r. simpl. exists x. simpl. auto.
        * unfold blocked in Hb. rewrite Hq, Hin in Hb. simpl in Hb.
          assert (Hl0 : live cl = true) by (eapply has_live; eauto).
          destruct (HD i Hi Hl0) as [x [Hx [Hk Hp]]]. fold cl in Hx, Hk, Hp. simpl in Hx, Hk, Hp.
          destruct (e <=? c_pos cl) eqn:He.
          -- (* shifted *)
             apply Z.leb_le in He.
             assert (Hne : e <> MaxInt32) by (unfold MaxInt32 in *; lia).
             assert (Hoff : off = b - e) by (unfold off; destruct (Z.eqb_spec e MaxInt32); [contradiction|reflexivity]).
             destruct Hps as [[-> [Hc|Hc]]|[-> _]].
             ++ contradiction.
             ++ exfalso. apply existsb_false_nth with (k := i) in Hc; [|assumption]. fold cl in Hc.
                unfold kept in Hc. rewrite Hq, Hin in Hc. discriminate.
             ++ unfold shift_phys. rewrite (nth_mapi _ _ _ _ _ None None) by lia.
                rewrite cell_at_map by assumption. fold cl. unfold rm_cell'. rewrite Hq, Hin.
                replace (e <=? c_pos cl) with true by (symmetry; apply Z.leb_le; exact He).
                assert (Hrng : in_rng r i = true).
                { rewrite Hr. apply range_of_covers; [assumption|]. fold cl. unfold kept. rewrite Hq, Hin. reflexivity. }
                rewrite Hrng. change (has q (shift_cell off cl)) with (has q cl). rewrite Hq.
                change (c_pos (shift_cell off cl)) with (c_pos cl + off).
                replace (e + off <=? c_pos cl + off) with true by (symmetry; apply Z.leb_le; lia).
                simpl. rewrite Hx. exists (mkDatum (d_tok x) (d_kpos x + off)). simpl. repeat split; auto; lia.
          -- (* kept below the range *)
             apply Z.leb_gt in He. pose proof Hin as Hin'. unfold in_be in Hin'.
             assert (Hlt : c_pos cl < b).
             { destruct (Z.leb_spec b (c_pos cl)); destruct (Z.ltb_spec (c_pos cl) e); simpl in Hin'; try discriminate; lia. }
             destruct Hps as [[-> _]|[-> Hne]].
             ++ exists x. simpl. auto.
             ++ unfold shift_phys. rewrite (nth_mapi _ _ _ _ _ None None) by lia.
                rewrite cell_at_map by assumption. fold cl. unfold rm_cell'. rewrite Hq, Hin.
                replace (e <=? c_pos cl) with false by (symmetry; apply Z.leb_gt; lia).
                assert (Hoff : off = b - e) by (unfold off; destruct (Z.eqb_spec e MaxInt32); [contradiction|reflexivity]).
                replace (e + off <=? c_pos cl) with false by (symmetry; apply Z.leb_gt; lia).
                rewrite andb_false_r. exists x. simpl. auto.
      + (* not owned by the sequence *)
        destruct (HD i Hi Hlive) as [x [Hx [Hk Hp]]]. fold cl in Hx, Hk, Hp. simpl in Hx.
        destruct Hps as [[-> _]|[-> Hne]].
        * exists x. simpl. auto.
        * unfold shift_phys. rewrite (nth_mapi _ _ _ _ _ None None) by lia.
          rewrite cell_at_map by assumption. fold cl. unfold rm_cell'. rewrite Hq. rewrite Hq.
          rewrite andb_false_r. simpl. exists x. simpl. auto.
    - intros i q' Hi Hq'. rewrite Hlen in Hi. subst cs. rewrite cell_at_map in Hq' by assumption.
      destruct (Nat.eq_dec q' q) as [->|Hne].
      + rewrite has_rm_cell_same in Hq'. exists r. split.
        * apply Hrq. apply existsb_exists. exists (cell_at (cells c) i). split; [apply nth_In; assumption|exact Hq'].
        * rewrite Hr. apply range_of_covers; assumption.
      + rewrite has_rm_cell_other in Hq' by assumption. rewrite Hro by assumption. apply (inv_rng c HI i q' Hi Hq').
    - apply (inv_pad c HI).
    - exact Hrp. }
  assert (Hrpu : RP (update (ranges c) q r)).
  { apply rpos_update; [exact (inv_rpos c HI)|rewrite Hr; apply range_of_fst_nonneg]. }
  (* case analysis on the exit taken *)
  unfold Spec.spec_remove. simpl. rewrite Hsb. rewrite <- (Habs (phys c) Hself), Hhq.
  rewrite Hnew in H. destruct (existsb (kept q b e) (cells c)) eqn:Ek; simpl in H |- *.
  - change Spec.MaxInt32 with MaxInt32. destruct (Z.eqb_spec e MaxInt32) as [Ee|Ee].
    + injection H as H. subst c'. simpl. split; [|repeat split; auto].
      * apply HInv; [left; auto|intros; apply lookup_update_other; assumption|intros; apply lookup_update_same|exact Hrpu].
      * eexists. split; [reflexivity|]. reflexivity.
    + destruct (can_shift c) eqn:Esh; simpl in H; [|discriminate].
      injection H as H. subst c'. simpl. split; [|repeat split; auto].
      * apply HInv; [right; auto|intros; apply lookup_update_other; assumption|intros; apply lookup_update_same|exact Hrpu].
      * eexists. split; [reflexivity|]. simpl. symmetry. apply abs_cells_tok_ext. apply shift_phys_tok.
  - injection H as H. subst c'. simpl. split; [|repeat split; auto].
    + apply HInv; [left; auto|intros; apply lookup_delete_other; assumption|discriminate|apply rpos_delete; exact (inv_rpos c HI)].
    + eexists. split; [reflexivity|]. reflexivity.
Qed.

(** ** Remove that fails, and the prescribed clean-up *)
Definition err_match (er : err) (ser : Spec.serr) : Prop :=
  match er, ser with
  | EFull, Spec.EFull => True | EShared, Spec.EShared => True | ENotSupported, Spec.ENotSupported => True
  | _, _ => False
  end.

Lemma valid_positions : forall c q, Inv c -> Forall (fun cl => has q cl = true -> 0 <= c_pos cl < MaxInt32) (cells c).
Proof.
  intros c q HI. apply Forall_forall. intros cl Hin Hq. apply (In_nth _ _ empty_cell) in Hin.
  destruct Hin as [k [Hk Hn]]. pose proof (proj1 (data_nth _ _ (inv_len c HI)) (inv_data c HI) k Hk) as HD.
  unfold cell_at in HD. rewrite Hn in HD. destruct HD as [x [_ [_ Hp]]]; [eapply has_live; eauto|exact Hp].
Qed.

Theorem remove_err : forall c q b e c' er, Inv c -> 0 <= b <= e -> remove c q b e = (c', OErr er) ->
  (exists ser, Spec.spec_remove (abs c) q b e = (abs c, Some ser) /\ err_match er ser) /\
  Forall2 (pert q) (cells c) (cells c') /\ phys c' = phys c /\
  window c' = window c /\ can_shift c' = can_shift c /\ cpad c' = cpad c /\ bpad c' = bpad c /\ has_layers c' = has_layers c /\
  (forall q', q' <> q -> lookup (ranges c') q' = lookup (ranges c) q').
Proof.
  intros c q b e c' er HI Hbe H. unfold remove in H.
  set (off := if e =? MaxInt32 then 0 else b - e) in *.
  assert (Hoff : off = 0 \/ off = b - e) by (unfold off; destruct (e =? MaxInt32); auto).
  pose proof (rm_loop_spec q b e off (cells c) 0 new_range) as HS.
  pose proof (rm_loop_pert q b e off (cells c) 0 new_range Hbe Hoff (valid_positions c q HI)) as HP.
  destruct (rm_loop q b e off 0 (cells c) new_range) as [[cs r] er0]. simpl in HP. destruct HS as [Her [Hlen Hok]].
  pose proof (inv_len c HI) as HL.
  assert (Hsb : existsb (Spec.rm_blocked q b e) (abs_cells (cells c) (phys c)) = er0).
  { rewrite (existsb_abs (blocked q b e) _ _ _ HL); auto.
    intros cl Hb. unfold blocked in Hb. repeat (apply andb_true_iff in Hb; destruct Hb as [Hb _]). eapply has_live; eauto. }
  destruct er0.
  - injection H as H1 H2. subst c' er. simpl. split; [|repeat split; auto].
    exists Spec.EShared. unfold Spec.spec_remove. simpl. rewrite Hsb. split; [reflexivity|exact I].
  - destruct (Hok eq_refl) as [Hcs Hr]. clear Hok.
    fold (range_of (fun _ cl => kept q b e cl) (cells c)) in Hr.
    destruct ((fst r =? MaxInt) && (snd r =? 0)) eqn:En; [discriminate|].
    destruct (e =? MaxInt32) eqn:Ee; [discriminate|].
    destruct (can_shift c) eqn:Esh; simpl in H; [discriminate|].
    injection H as H1 H2. subst c' er. simpl. split; [|repeat split; auto; intros; apply lookup_update_other; assumption].
    exists Spec.ENotSupported. unfold Spec.spec_remove. simpl. rewrite Hsb.
    assert (Hhq : existsb (Spec.has q) (Spec.prune (map (Spec.rm_cell q b e) (abs_cells (cells c) (phys c)))) = true).
    { assert (Hspec : forall p, Spec.rm_cell q b e (to_acell p) = to_acell (on_cell (rm_cell' q b e off) p)).
      { intros p. rewrite rm_cell_spec, Ee. reflexivity. }
      rewrite <- (abs_cells_map (rm_cell' q b e off) _ _ _ (rm_cell_dead q b e off) Hspec).
      rewrite (existsb_abs (has q) (Spec.has q)); auto; [|rewrite map_length; exact HL|intros; eapply has_live; eauto].
      destruct (existsb (has q) (map (rm_cell' q b e off) (cells c))) eqn:Ex; auto. exfalso.
      assert (Ek : existsb (kept q b e) (cells c) = false).
      { rewrite <- Ex. clear. induction (cells c); simpl; auto. rewrite has_rm_cell_same, IHl. reflexivity. }
      rewrite Hr in En.
      rewrite (proj2 (range_of_new_iff (fun _ cl => kept q b e cl) (cells c) (inv_size c HI))) in En; [discriminate|].
      apply (proj1 (existsb_false_nth (kept q b e) (cells c))). exact Ek. }
    rewrite Hhq. simpl. change Spec.MaxInt32 with MaxInt32. rewrite Ee, Esh. split; [reflexivity|exact I].
Qed.

Lemma rm_loop_clear : forall q l i r, Forall (fun cl => has q cl = true -> 0 <= c_pos cl < MaxInt32) l ->
  rm_loop q 0 MaxInt32 0 i l r = (map (del q) l, r, false).
Proof.
  intros q l. induction l as [|cl t IH]; intros i r H; simpl; auto.
  inversion H as [|? ? Hc Ht]; subst. rewrite (IH (S i) r Ht).
  destruct (has q cl) eqn:Hq.
  - specialize (Hc eq_refl).
    replace ((0 <=? c_pos cl) && (c_pos cl <? MaxInt32)) with true; [reflexivity|].
    symmetry. apply andb_true_iff. split; [apply Z.leb_le|apply Z.ltb_lt]; lia.
  - rewrite (has_false_del _ _ Hq). reflexivity.
Qed.

Definition eq_or_dead (x y : cell) : Prop := x = y \/ (live x = false /\ live y = false).

Lemma live_pairs_ext : forall cs1 cs2 ps, Forall2 eq_or_dead cs1 cs2 -> live_pairs cs1 ps = live_pairs cs2 ps.
Proof.
  intros cs1 cs2 ps H. revert ps. induction H as [|x y l l' Hxy Hl IH]; intros ps; simpl; auto.
  destruct ps as [|p ps]; simpl; auto. unfold live_pairs in *. simpl.
  destruct Hxy as [->|[Hx Hy]].
  - destruct (livep (y, p)); rewrite IH; reflexivity.
  - replace (livep (x, p)) with false by (unfold livep; simpl; congruence).
    replace (livep (y, p)) with false by (unfold livep; simpl; congruence). apply IH.
Qed.

Lemma pert_del : forall q l l', Forall2 (pert q) l l' -> Forall2 eq_or_dead (map (del q) l') (map (del q) l).
Proof.
  intros q l l' H. induction H as [|a a' t t' Ha Ht IH]; simpl; constructor; auto.
  destruct Ha as [Hs [Hp _]]. unfold eq_or_dead.
  destruct (c_seqs (del q a)) as [|x rest] eqn:Es.
  - right. unfold live. rewrite Hs, Es. auto.
  - left. assert (Ho : others q a = true).
    { unfold others. apply existsb_exists. exists x. assert (Hin : In x (c_seqs (del q a))) by (rewrite Es; left; reflexivity).
      unfold del in Hin. simpl in Hin. apply filter_In in Hin. exact Hin. }
    specialize (Hp Ho). unfold del in *. simpl in *. rewrite Hp, Hs, Es. reflexivity.
Qed.

Lemma pert_has_other : forall q q' a a', pert q a a' -> q' <> q -> has q' a' = has q' a.
Proof.
  intros q q' a a' [Hs _] Hne. rewrite <- (has_del_other q' q a') by assumption. rewrite <- (has_del_other q' q a) by assumption.
  unfold has. rewrite Hs. reflexivity.
Qed.

Lemma pert_refl : forall q l, Forall (fun cl => has q cl = true -> 0 <= c_pos cl < MaxInt32) l -> Forall2 (pert q) l l.
Proof. intros q l H. induction H; constructor; auto. unfold pert. auto. Qed.

Lemma Forall2_length' : forall A B (Rel : A -> B -> Prop) l l', Forall2 Rel l l' -> length l = length l'.
Proof. intros A B Rel l l' H. induction H; simpl; auto. Qed.

(** clearing a sequence in a state that differs from a good state [c] only by a half-done Remove of that sequence *)
Theorem clear_correct : forall c c1 q, Inv c ->
  Forall2 (pert q) (cells c) (cells c1) -> phys c1 = phys c ->
  window c1 = window c -> can_shift c1 = can_shift c -> cpad c1 = cpad c ->
  (forall q', q' <> q -> lookup (ranges c1) q' = lookup (ranges c) q') ->
  exists c2, remove c1 q 0 MaxInt32 = (c2, OOk) /\ Inv c2 /\
    abs_cells (cells c2) (phys c2) = Spec.s_cells (fst (Spec.spec_remove (abs c) q 0 MaxInt32)) /\
    length (cells c2) = length (cells c) /\ window c2 = window c /\ can_shift c2 = can_shift c.
Proof.
  intros c c1 q HI HP Hph Hw Hsh Hpad Hrs.
  assert (Hlen1 : length (cells c1) = length (cells c)) by (symmetry; eapply Forall2_length'; eauto).
  assert (Hv1 : Forall (fun cl => has q cl = true -> 0 <= c_pos cl < MaxInt32) (cells c1)).
  { clear - HP. induction HP; constructor; auto. destruct H as [_ [_ H]]. exact H. }
  (* the same clean-up from the good state, for which remove_ok applies *)
  assert (Hrm : remove c q 0 MaxInt32 = (with_cpr c (map (del q) (cells c)) (phys c) (delete (ranges c) q), OOk)).
  { unfold remove. rewrite Z.eqb_refl. rewrite (rm_loop_clear q _ 0 new_range (valid_positions c q HI)). reflexivity. }
  destruct (remove_ok c q 0 MaxInt32 _ HI ltac:(unfold MaxInt32; lia) Hrm) as [HI0 [_ [_ [_ [s' [Hs' Ha]]]]]].
  simpl in Ha.
  exists (with_cpr c1 (map (del q) (cells c1)) (phys c1) (delete (ranges c1) q)).
  split; [|split; [|split; [|repeat split; simpl; auto; rewrite map_length; auto]]].
  - unfold remove. rewrite Z.eqb_refl. rewrite (rm_loop_clear q _ 0 new_range Hv1). reflexivity.
  - assert (Hlp : live_pairs (map (del q) (cells c1)) (phys c) = live_pairs (map (del q) (cells c)) (phys c)).
    { apply live_pairs_ext. apply pert_del. exact HP. }
    constructor; simpl.
    + rewrite map_length, Hph, Hlen1. apply (inv_len c HI).
    + rewrite map_length, Hlen1. apply (inv_size c HI).
    + rewrite Hph, Hlp. apply (inv_data _ HI0).
    + intros i q' Hi Hq'. rewrite map_length in Hi. rewrite cell_at_map in Hq' by assumption.
      destruct (Nat.eq_dec q' q) as [->|Hne]; [rewrite has_del_same in Hq'; discriminate|].
      rewrite has_del_other in Hq' by assumption.
      rewrite lookup_delete_other, Hrs by assumption.
      apply (inv_rng c HI i q'); [lia|].
      assert (Hpi : pert q (cell_at (cells c) i) (cell_at (cells c1) i)).
      { clear - HP Hi Hlen1. revert i Hi. induction HP; intros i Hi; simpl in *; [lia|].
        destruct i; unfold cell_at; simpl; auto. apply IHHP; lia. }
      rewrite <- (pert_has_other q q' _ _ Hpi Hne). exact Hq'.
    + rewrite Hpad. apply (inv_pad c HI).
    + intros q' r Hr. destruct (Nat.eq_dec q' q) as [->|Hne].
      * rewrite lookup_delete_same in Hr. discriminate.
      * rewrite lookup_delete_other, Hrs in Hr by assumption. eapply (inv_rpos c HI); eauto.
  - simpl. rewrite Hs'. simpl. rewrite <- Ha. unfold abs_cells. rewrite Hph.
    f_equal. apply live_pairs_ext. apply pert_del. exact HP.
Qed.

Definition out_match (o : out) (so : option Spec.serr) : Prop :=
  match o, so with
  | OOk, None => True
  | OErr er, Some ser => err_match er ser
  | _, _ => False
  end.

Lemma remove_out_shape : forall c q b e, snd (remove c q b e) = OOk \/ exists er, snd (remove c q b e) = OErr er.
Proof.
  intros. unfold remove. destruct (rm_loop _ _ _ _ _ _ _) as [[? ?] []]; simpl; eauto.
  repeat match goal with |- context [if ?x then _ else _] => destruct x end; simpl; eauto.
Qed.

Theorem remove_c_correct : forall c q b e, Inv c -> 0 <= b <= e ->
  Inv (fst (remove_c c q b e)) /\
  abs_cells (cells (fst (remove_c c q b e))) (phys (fst (remove_c c q b e))) = Spec.s_cells (fst (Spec.spec_remove_c (abs c) q b e)) /\
  out_match (snd (remove_c c q b e)) (snd (Spec.spec_remove_c (abs c) q b e)) /\
  length (cells (fst (remove_c c q b e))) = length (cells c) /\
  window (fst (remove_c c q b e)) = window c /\ can_shift (fst (remove_c c q b e)) = can_shift c.
Proof.
  intros c q b e HI Hbe. unfold remove_c, Spec.spec_remove_c.
  destruct (remove c q b e) as [c' r] eqn:Hr.
  destruct (remove_out_shape c q b e) as [Hsh|[er Hsh]]; rewrite Hr in Hsh; simpl in Hsh; subst r.
  - destruct (remove_ok c q b e c' HI Hbe Hr) as [HI' [Hl [Hw [Hsh [s' [Hs Ha]]]]]].
    rewrite Hs. simpl. split; [assumption|repeat split; auto].
  - destruct (remove_err c q b e c' er HI Hbe Hr) as [[ser [Hs Hm]] [HP [Hph [Hw [Hsh [Hpad [_ [_ Hrs]]]]]]]].
    rewrite Hs. destruct (clear_correct c c' q HI HP Hph Hw Hsh Hpad Hrs) as [c2 [Hc2 [HI2 [Ha [Hl [Hw2 Hs2]]]]]].
    simpl. rewrite Hc2. simpl. split; [assumption|repeat split; auto].
Qed.
