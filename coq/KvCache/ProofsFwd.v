(** KvCache/ProofsFwd.v - StartForward + Put: sliding-window eviction, first-fit placement, defrag-and-retry,
    cell/range update, mask - keep the invariant and refine [Spec.spec_forward]; the mask exposes exactly the
    specified history. *)
From Coq Require Import List ZArith NArith Bool Arith Lia Permutation.
From V Require Import KvCache.Model KvCache.ProofsList KvCache.ProofsInv KvCache.ProofsDefrag KvCache.ProofsOps.
From V Require KvCache.Spec.
Import ListNotations.
Open Scope Z_scope.

(** ** A. updateSlidingWindow *)
Definition RI (cs : list cell) (rs : list (nat * rng)) : Prop :=
  forall i q, (i < length cs)%nat -> has q (cell_at cs i) = true -> exists r, lookup rs q = Some r /\ in_rng r i = true.

Definition ev1 (w : Z) (q : nat) (p : Z) (cl : cell) : cell :=
  if has q cl && (c_pos cl <? p - w) then del q cl else cl.

Lemma has_ev1_same : forall w q p cl, has q (ev1 w q p cl) = has q cl && negb (c_pos cl <? p - w).
Proof.
  intros. unfold ev1. destruct (has q cl) eqn:Hq; simpl; [|exact Hq].
  destruct (c_pos cl <? p - w); simpl; [apply has_del_same|exact Hq].
Qed.

Lemma has_ev1_other : forall w q q' p cl, q' <> q -> has q' (ev1 w q p cl) = has q' cl.
Proof. intros. unfold ev1. destruct (has q cl && _); [apply has_del_other; assumption|reflexivity]. Qed.

Lemma map_id_nth : forall (f : cell -> cell) l, (forall k, (k < length l)%nat -> f (cell_at l k) = cell_at l k) -> map f l = l.
Proof.
  intros f l H. apply (nth_ext _ _ empty_cell empty_cell); [apply map_length|].
  intros k Hk. rewrite map_length in Hk. fold (cell_at (map f l) k). rewrite cell_at_map by assumption. apply H. assumption.
Qed.

Lemma evict_seq_spec : forall w cs rs q p, RI cs rs ->
  fst (evict_seq w cs rs q p) = map (ev1 w q p) cs /\ RI (fst (evict_seq w cs rs q p)) (snd (evict_seq w cs rs q p)).
Proof.
  intros w cs rs q p HR. unfold evict_seq. destruct (lookup rs q) as [old|] eqn:Hl; simpl.
  - assert (Hcs : mapi (fun i cl => if in_rng old i && has q cl && (c_pos cl <? p - w) then del q cl else cl) cs = map (ev1 w q p) cs).
    { unfold mapi. apply (mapi_from_eq_map _ _ _ _ cs 0 empty_cell). intros k Hk. simpl. unfold ev1.
      destruct (has q (nth k cs empty_cell)) eqn:Hq; [|rewrite andb_false_r; reflexivity].
      destruct (HR k q Hk Hq) as [r [Hr Hin]]. rewrite Hl in Hr. injection Hr as <-. rewrite Hin. reflexivity. }
    rewrite Hcs. split; [reflexivity|].
    intros i q' Hi Hq'. rewrite map_length in Hi. rewrite cell_at_map in Hq' by assumption.
    destruct (Nat.eq_dec q' q) as [->|Hne].
    + rewrite lookup_update_same. eexists. split; [reflexivity|].
      rewrite has_ev1_same in Hq'. apply andb_true_iff in Hq'. destruct Hq' as [Hq1 Hq2].
      apply range_of_covers; [assumption|]. rewrite Hq1, Hq2.
      destruct (HR i q Hi Hq1) as [r [Hr Hin]]. rewrite Hl in Hr. injection Hr as <-. rewrite Hin. reflexivity.
    + rewrite lookup_update_other by assumption. rewrite has_ev1_other in Hq' by assumption. apply HR; assumption.
  - assert (Hcs : map (ev1 w q p) cs = cs).
    { apply map_id_nth. intros k Hk. unfold ev1. destruct (has q (cell_at cs k)) eqn:Hq; [|reflexivity].
      destruct (HR k q Hk Hq) as [r [Hr _]]. congruence. }
    rewrite Hcs. split; [reflexivity|exact HR].
Qed.

Definition evq (w : Z) (batch : list entry) (q : nat) (cl : cell) : cell :=
  match lowest batch q with Some p => ev1 w q p cl | None => cl end.

Definition ev_test (w : Z) (batch : list entry) (q : nat) (pos : Z) : bool :=
  match lowest batch q with Some l => pos <? l - w | None => false end.

Lemma evq_formula : forall w batch q cl,
  evq w batch q cl = mkCell (c_pos cl) (filter (fun x => negb (Nat.eqb x q && ev_test w batch q (c_pos cl))) (c_seqs cl)).
Proof.
  intros w batch q [ps sq]. unfold evq, ev_test, ev1. simpl. destruct (lowest batch q) as [p|].
  - destruct (ps <? p - w) eqn:E.
    + rewrite andb_true_r.
      replace (if has q (mkCell ps sq) then del q (mkCell ps sq) else mkCell ps sq) with (del q (mkCell ps sq))
        by (destruct (has q (mkCell ps sq)) eqn:Hq; [reflexivity|apply has_false_del; exact Hq]).
      unfold del. simpl. f_equal. apply filter_ext_in'. intros x _. rewrite andb_true_r. reflexivity.
    + rewrite andb_false_r. f_equal. symmetry. rewrite <- (filter_ext_in' _ (fun _ => true)); [|intros; rewrite andb_false_r; reflexivity].
      clear. induction sq; simpl; congruence.
  - f_equal. symmetry. rewrite <- (filter_ext_in' _ (fun _ => true)); [|intros; rewrite andb_false_r; reflexivity].
    clear. induction sq; simpl; congruence.
Qed.

Lemma fold_evq : forall w batch qs cl,
  fold_left (fun cl q => evq w batch q cl) qs cl =
  mkCell (c_pos cl) (filter (fun x => negb (existsb (fun q => Nat.eqb x q && ev_test w batch q (c_pos cl)) qs)) (c_seqs cl)).
Proof.
  intros w batch qs. induction qs as [|q t IH]; intros cl; simpl.
  - destruct cl as [ps sq]. simpl. f_equal. clear. induction sq; simpl; congruence.
  - rewrite IH. rewrite evq_formula. simpl. f_equal. rewrite filter_filter. apply filter_ext_in'.
    intros x _. rewrite negb_orb. reflexivity.
Qed.

Lemma batch_seqs_complete : forall batch seen q, lowest batch q <> None -> ~ In q seen -> In q (batch_seqs batch seen).
Proof.
  intros batch. induction batch as [|[[q' p] t] r IH]; intros seen q Hl Hs; simpl in *; [congruence|].
  destruct (existsb (Nat.eqb q') seen) eqn:Es.
  - destruct (Nat.eqb_spec q' q) as [->|Hne].
    + exfalso. apply existsb_exists in Es. destruct Es as [x [Hx Hxe]]. apply Nat.eqb_eq in Hxe. subst. contradiction.
    + apply IH; assumption.
  - destruct (Nat.eqb_spec q' q) as [->|Hne]; [left; reflexivity|].
    right. apply IH; [assumption|]. intros [H|H]; [congruence|contradiction].
Qed.

Definition evict_cell' (w : Z) (batch : list entry) (cl : cell) : cell :=
  mkCell (c_pos cl) (filter (fun x => negb (ev_test w batch x (c_pos cl))) (c_seqs cl)).

Lemma fold_evq_all : forall w batch cl,
  fold_left (fun cl q => evq w batch q cl) (batch_seqs batch []) cl = evict_cell' w batch cl.
Proof.
  intros. rewrite fold_evq. unfold evict_cell'. f_equal. apply filter_ext_in'. intros x _. f_equal.
  destruct (ev_test w batch x (c_pos cl)) eqn:E.
  - apply existsb_exists. exists x. split; [|rewrite Nat.eqb_refl; exact E].
    apply batch_seqs_complete; [|intros []]. unfold ev_test in E. destruct (lowest batch x); [discriminate|discriminate].
  - destruct (existsb _ _) eqn:Ex; auto. apply existsb_exists in Ex. destruct Ex as [y [_ Hy]].
    apply andb_true_iff in Hy. destruct Hy as [H1 H2]. apply Nat.eqb_eq in H1. subst. congruence.
Qed.

Lemma fold_map_cells : forall (F : nat -> cell -> cell) qs cs,
  fold_left (fun cs q => map (F q) cs) qs cs = map (fun cl => fold_left (fun cl q => F q cl) qs cl) cs.
Proof.
  intros F qs. induction qs as [|q t IH]; intros cs; simpl.
  - symmetry. apply map_id.
  - rewrite IH, map_map. reflexivity.
Qed.

Lemma update_window_fold : forall w batch qs cs rs, RI cs rs ->
  let st := fold_left (fun st q => match lowest batch q with
                                   | Some p => evict_seq w (fst st) (snd st) q p
                                   | None => st end) qs (cs, rs) in
  fst st = fold_left (fun cs q => map (evq w batch q) cs) qs cs /\ RI (fst st) (snd st).
Proof.
  intros w batch qs. induction qs as [|q t IH]; intros cs rs HR; simpl; auto.
  destruct (lowest batch q) as [p|] eqn:El.
  - destruct (evict_seq_spec w cs rs q p HR) as [H1 H2].
    destruct (evict_seq w cs rs q p) as [cs1 rs1] eqn:E. simpl in *.
    destruct (IH cs1 rs1 H2) as [I1 I2]. split; [|exact I2]. rewrite I1. subst cs1.
    f_equal. apply map_ext. intros cl. unfold evq. rewrite El. reflexivity.
  - destruct (IH cs rs HR) as [I1 I2]. split; [|exact I2]. rewrite I1. f_equal.
    symmetry. rewrite <- (map_id cs) at 2. apply map_ext. intros cl. unfold evq. rewrite El. reflexivity.
Qed.

Lemma update_window_fold_rp : forall w batch qs cs rs, RP rs ->
  RP (snd (fold_left (fun st q => match lowest batch q with
                                  | Some p => evict_seq w (fst st) (snd st) q p
                                  | None => st end) qs (cs, rs))).
Proof.
  intros w batch qs. induction qs as [|q t IH]; intros cs rs HR; simpl; auto.
  destruct (lowest batch q) as [p|]; [|apply IH; exact HR].
  destruct (evict_seq w cs rs q p) as [cs1 rs1] eqn:E. simpl. apply IH.
  unfold evict_seq in E. destruct (lookup rs q); injection E as _ <-; [|exact HR].
  apply rpos_update; [exact HR|apply range_of_fst_nonneg].
Qed.

Lemma lowest_spec : forall batch q, Spec.lowest batch q = lowest batch q.
Proof.
  intros batch q. induction batch as [|[[q' p] t] r IH]; simpl; auto.
Qed.

Lemma evict_cell_spec : forall w batch p,
  Spec.evict_cell w batch (to_acell p) = to_acell (on_cell (evict_cell' w batch) p).
Proof.
  intros w batch [cl d]. reflexivity.
Qed.

Lemma evict_cell_dead : forall w batch cl, live cl = false -> live (evict_cell' w batch cl) = false.
Proof. intros w batch cl H. unfold evict_cell', live. simpl. rewrite (live_false_seqs _ H). reflexivity. Qed.

Lemma RI_of_Inv : forall c, Inv c -> RI (cells c) (ranges c).
Proof. intros c HI. exact (inv_rng c HI). Qed.

Theorem update_window_correct : forall c batch, Inv c ->
  Inv (update_window c batch) /\
  abs_cells (cells (update_window c batch)) (phys (update_window c batch)) =
    Spec.evict (window c) batch (abs_cells (cells c) (phys c)) /\
  length (cells (update_window c batch)) = length (cells c) /\
  window (update_window c batch) = window c /\ can_shift (update_window c batch) = can_shift c /\
  cpad (update_window c batch) = cpad c /\ phys (update_window c batch) = phys c /\
  has_layers (update_window c batch) = has_layers c.
Proof.
  intros c batch HI. unfold update_window. destruct (window c) as [w|] eqn:Ew.
  - pose proof (update_window_fold w batch (batch_seqs batch []) (cells c) (ranges c) (RI_of_Inv c HI)) as HF.
    pose proof (update_window_fold_rp w batch (batch_seqs batch []) (cells c) (ranges c) (inv_rpos c HI)) as HRP.
    cbv zeta in HF. destruct (fold_left _ (batch_seqs batch []) (cells c, ranges c)) as [cs rs]. simpl in HF, HRP.
    destruct HF as [Hcs HR]. rewrite fold_map_cells in Hcs.
    assert (Hcs' : cs = map (evict_cell' w batch) (cells c)).
    { rewrite Hcs. apply map_ext. intros cl. apply fold_evq_all. }
    clear Hcs. subst cs. simpl. split; [|split; [|repeat split; auto; apply map_length]].
    + constructor; simpl.
      * rewrite map_length. apply (inv_len c HI).
      * rewrite map_length. apply (inv_size c HI).
      * apply good_map; [apply evict_cell_dead|reflexivity|apply (inv_data c HI)].
      * exact HR.
      * apply (inv_pad c HI).
      * exact HRP.
    + unfold Spec.evict. apply abs_cells_map; [apply evict_cell_dead|apply evict_cell_spec].
  - simpl. split; [exact HI|repeat split; auto].
Qed.

(** ** B. findStartLoc *)
Lemma find_start_from_sound : forall l i start count n loc,
  find_start_from l i start count n = Some loc -> (start + count = i)%nat -> (1 <= n)%nat ->
  (start <= loc)%nat /\ (loc + n <= i + length l)%nat /\
  (forall k, (i <= k)%nat -> (loc <= k < loc + n)%nat -> live (nth (k - i) l empty_cell) = false).
Proof.
  intros l. induction l as [|cl t IH]; intros i start count n loc H Hs Hn; simpl in H; [discriminate|].
  destruct (live cl) eqn:El.
  - destruct (IH (S i) (S i) 0%nat n loc H ltac:(lia) Hn) as [I1 [I2 I3]]. simpl. repeat split; try lia.
    intros k Hk1 Hk2. replace (k - i)%nat with (S (k - S i)) by lia. simpl. apply I3; lia.
  - destruct (Nat.leb_spec n (S count)).
    + injection H as <-. simpl. repeat split; try lia.
      intros k Hk1 Hk2. replace (k - i)%nat with 0%nat by lia. exact El.
    + destruct (IH (S i) start (S count) n loc H ltac:(lia) Hn) as [I1 [I2 I3]]. simpl. repeat split; try lia.
      intros k Hk1 Hk2. destruct (Nat.eq_dec k i) as [->|Hne].
      * rewrite Nat.sub_diag. exact El.
      * replace (k - i)%nat with (S (k - S i)) by lia. simpl. apply I3; lia.
Qed.

Lemma find_start_sound : forall l n loc, find_start l n = Some loc -> (1 <= n)%nat ->
  (loc + n <= length l)%nat /\ forall k, (loc <= k < loc + n)%nat -> live (cell_at l k) = false.
Proof.
  intros l n loc H Hn. destruct (find_start_from_sound l 0 0 0 n loc H eq_refl Hn) as [_ [H2 H3]].
  split; [lia|]. intros k Hk. specialize (H3 k ltac:(lia) Hk). rewrite Nat.sub_0_r in H3. exact H3.
Qed.

Lemma find_start_live_prefix : forall L D n i s c, Forall (fun cl => live cl = true) L ->
  find_start_from (L ++ D) i s c n =
  find_start_from D (i + length L) (match L with [] => s | _ => i + length L end)%nat (match L with [] => c | _ => 0 end)%nat n.
Proof.
  intros L D n. induction L as [|cl t IH]; intros i s c H; simpl.
  - rewrite Nat.add_0_r. reflexivity.
  - inversion H as [|? ? Hc Ht]; subst. rewrite Hc. rewrite (IH (S i) (S i) 0%nat Ht).
    replace (S i + length t)%nat with (i + S (length t))%nat by lia.
    destruct t; simpl; f_equal; lia.
Qed.

Lemma find_start_dead : forall D n i s c, Forall (fun cl => live cl = false) D -> (c < n)%nat ->
  find_start_from D i s c n = if (n <=? c + length D)%nat then Some s else None.
Proof.
  intros D n. induction D as [|cl t IH]; intros i s c H Hc; simpl.
  - destruct (Nat.leb_spec n (c + 0)); [lia|reflexivity].
  - inversion H as [|? ? Hd Ht]; subst. rewrite Hd. destruct (Nat.leb_spec n (S c)).
    + destruct (Nat.leb_spec n (c + S (length t))); [reflexivity|lia].
    + rewrite (IH (S i) s (S c) Ht) by lia.
      destruct (Nat.leb_spec n (S c + length t)); destruct (Nat.leb_spec n (c + S (length t))); auto; lia.
Qed.

Lemma compact_split : forall l, compact l ->
  exists k, (k <= length l)%nat /\ Forall (fun cl => live cl = true) (firstn k l) /\ Forall (fun cl => live cl = false) (skipn k l).
Proof.
  intros l. induction l as [|cl t IH]; intros Hc.
  - exists 0%nat. simpl. auto.
  - destruct (live cl) eqn:El.
    + destruct IH as [k [Hk [H1 H2]]].
      { intros i j Hij Hj. apply (Hc (S i) (S j)); [lia|exact Hj]. }
      exists (S k). simpl. repeat split; auto; lia.
    + exists 0%nat. simpl. repeat split; auto; [lia|]. constructor; [exact El|].
      apply Forall_forall. intros x Hin. destruct (live x) eqn:Ex; auto. exfalso.
      apply (In_nth _ _ empty_cell) in Hin. destruct Hin as [j [Hj Hn]].
      assert (H : live (cell_at (cl :: t) 0) = true).
      { apply (Hc 0%nat (S j)); [lia|]. unfold cell_at. simpl. rewrite Hn. exact Ex. }
      unfold cell_at in H. simpl in H. congruence.
Qed.

Definition nlive (l : list cell) : nat := length (filter live l).

Lemma nlive_le : forall l, (nlive l <= length l)%nat.
Proof. intros. unfold nlive. induction l as [|a t IH]; simpl; auto. destruct (live a); simpl; lia. Qed.

Lemma nlive_app : forall a b, nlive (a ++ b) = (nlive a + nlive b)%nat.
Proof. intros. unfold nlive. rewrite filter_app, app_length. reflexivity. Qed.

Lemma nlive_all : forall l, Forall (fun cl => live cl = true) l -> nlive l = length l.
Proof. intros l H. unfold nlive. induction H; simpl; auto. rewrite H. simpl. auto. Qed.

Lemma nlive_none : forall l, Forall (fun cl => live cl = false) l -> nlive l = 0%nat.
Proof. intros l H. unfold nlive. induction H; simpl; auto. rewrite H. auto. Qed.

(** on a compacted cache the search fails exactly when fewer than [n] locations are free *)
Lemma find_start_compact : forall l n, compact l -> (1 <= n)%nat ->
  (find_start l n = None <-> (length l - nlive l < n)%nat).
Proof.
  intros l n Hc Hn. destruct (compact_split l Hc) as [k [Hk [H1 H2]]].
  assert (Hl : l = firstn k l ++ skipn k l) by (symmetry; apply firstn_skipn).
  assert (Hnl : nlive l = k).
  { rewrite Hl, nlive_app, (nlive_all _ H1), (nlive_none _ H2), firstn_length. lia. }
  unfold find_start. rewrite Hl at 1. rewrite (find_start_live_prefix _ _ n 0 0 0 H1).
  assert (Hfs : forall s, find_start_from (skipn k l) (0 + length (firstn k l)) s 0 n =
                          if (n <=? 0 + length (skipn k l))%nat then Some s else None).
  { intros s. apply find_start_dead; [exact H2|lia]. }
  rewrite skipn_length in Hfs.
  destruct (firstn k l) eqn:Ef; rewrite Hfs; destruct (Nat.leb_spec n (0 + (length l - k))); split; intros; try discriminate; try lia; try reflexivity.
Qed.

(** a successful search needs that many free locations *)
Lemma find_start_free : forall l n loc, find_start l n = Some loc -> (1 <= n)%nat -> (n <= length l - nlive l)%nat.
Proof.
  intros l n loc H Hn. destruct (find_start_sound l n loc H Hn) as [H1 H2].
  assert (Hl : l = firstn loc l ++ firstn n (skipn loc l) ++ skipn n (skipn loc l)).
  { rewrite firstn_skipn, firstn_skipn. reflexivity. }
  assert (Hd : nlive (firstn n (skipn loc l)) = 0%nat).
  { apply nlive_none. apply Forall_forall. intros x Hin. apply (In_nth _ _ empty_cell) in Hin. destruct Hin as [j [Hj Hx]].
    rewrite firstn_length, skipn_length in Hj. rewrite nth_firstn', nth_skipn' in Hx.
    destruct (Nat.ltb_spec j n); [|lia]. rewrite <- Hx. apply (H2 (loc + j)%nat). lia. }
  rewrite Hl at 2. rewrite !nlive_app, Hd.
  pose proof (nlive_le (firstn loc l)) as P1. pose proof (nlive_le (skipn n (skipn loc l))) as P2.
  rewrite firstn_length in P1. rewrite !skipn_length in P2. lia.
Qed.

(** ** C. placing the batch: cells, ranges, curCellRange, and the rows written by Put *)
Definition new_cell (e : entry) : cell := let '(q, p, _) := e in mkCell p [q].
Definition new_datum (e : entry) : option datum := let '(_, p, t) := e in Some (mkDatum t p).
Definition new_pair (e : entry) : cell * option datum := (new_cell e, new_datum e).

Lemma combine_app' : forall A B (a b : list A) (a' b' : list B), length a = length a' ->
  combine (a ++ b) (a' ++ b') = combine a a' ++ combine b b'.
Proof.
  intros A B a. induction a as [|x t IH]; intros b [|y t'] b' H; simpl in *; try lia; auto. f_equal. apply IH. lia.
Qed.

Lemma live_pairs_set_nth : forall cs ps loc x d, (loc < length cs)%nat -> length ps = length cs ->
  live (cell_at cs loc) = false -> live x = true ->
  Permutation (live_pairs (set_nth loc x cs) (set_nth loc d ps)) ((x, d) :: live_pairs cs ps).
Proof.
  intros cs ps loc x d Hl Hlen Hd Hx. unfold live_pairs.
  rewrite (set_nth_split _ cs loc x Hl), (set_nth_split _ ps loc d) by lia.
  rewrite (list_split_nth _ cs loc empty_cell Hl) at 3. rewrite (list_split_nth _ ps loc None) at 3 by lia.
  remember (skipn (S loc) cs) as tc. remember (skipn (S loc) ps) as tp.
  rewrite !combine_app' by (rewrite !firstn_length; lia). simpl. rewrite !filter_app. simpl.
  replace (livep (nth loc cs empty_cell, nth loc ps None)) with false
    by (unfold livep; simpl; fold (cell_at cs loc); congruence).
  replace (livep (x, d)) with true by (unfold livep; simpl; congruence).
  apply Permutation_sym, Permutation_middle.
Qed.

Definition place_cells cs rs cur loc batch := fst (fst (place cs rs cur loc batch)).
Definition place_rs cs rs cur loc batch := snd (fst (place cs rs cur loc batch)).
Definition place_cur cs rs cur loc batch := snd (place cs rs cur loc batch).

Lemma place_put_perm : forall batch cs ps rs cur loc,
  length ps = length cs -> (loc + length batch <= length cs)%nat ->
  (forall k, (loc <= k < loc + length batch)%nat -> live (cell_at cs k) = false) ->
  length (place_cells cs rs cur loc batch) = length cs /\ length (put ps loc batch) = length ps /\
  Permutation (live_pairs (place_cells cs rs cur loc batch) (put ps loc batch)) (map new_pair batch ++ live_pairs cs ps).
Proof.
  intros batch. induction batch as [|[[q p] t] r IH]; intros cs ps rs cur loc Hlen Hfit Hdead.
  - unfold place_cells. simpl. auto.
  - unfold place_cells in *. simpl in *.
    set (cs1 := set_nth loc (mkCell p [q]) cs).
    match goal with |- context [place cs1 ?a ?b (S loc) r] => specialize (IH cs1 (set_nth loc (Some (mkDatum t p)) ps) a b (S loc)) end.
    assert (L1 : length cs1 = length cs) by (unfold cs1; apply set_nth_length).
    destruct IH as [I1 [I2 I3]].
    + rewrite set_nth_length, L1. exact Hlen.
    + rewrite L1. lia.
    + intros k Hk. unfold cs1, cell_at. rewrite nth_set_nth_neq by lia. apply Hdead. lia.
    + rewrite I1, I2, set_nth_length, L1. repeat split; auto.
      eapply Permutation_trans; [exact I3|].
      eapply Permutation_trans; [apply Permutation_app_head; apply live_pairs_set_nth; auto; [lia|apply Hdead; lia]|].
      apply Permutation_sym, Permutation_middle.
Qed.

Definition rsub (r cur : rng) : Prop := fst cur <= fst r /\ snd r <= snd cur.

Lemma place_ranges : forall batch cs rs cur loc Sq,
  RI cs rs -> (loc + length batch <= length cs)%nat ->
  (forall q, In q Sq -> forall r, lookup rs q = Some r -> rsub r cur) ->
  RI (place_cells cs rs cur loc batch) (place_rs cs rs cur loc batch) /\
  (forall q, In q (Sq ++ map (fun e : entry => fst (fst e)) batch) ->
     forall r, lookup (place_rs cs rs cur loc batch) q = Some r -> rsub r (place_cur cs rs cur loc batch)) /\
  rsub cur (place_cur cs rs cur loc batch).
Proof.
  intros batch. induction batch as [|[[q p] t] rest IH]; intros cs rs cur loc Sq HR Hfit HC.
  - unfold place_cells, place_rs, place_cur. simpl. rewrite app_nil_r. split; [exact HR|split; [exact HC|unfold rsub; lia]].
  - unfold place_cells, place_rs, place_cur in *. simpl in *.
    set (r0 := match lookup rs q with Some r => r | None => new_range end).
    set (r1 := (fst r0, if snd r0 <? Z.of_nat loc then Z.of_nat loc else snd r0)).
    set (cur1 := (fst cur, if snd cur <? snd r1 then snd r1 else snd cur)).
    set (r2 := (if Z.of_nat loc <? fst r1 then Z.of_nat loc else fst r1, snd r1)).
    set (cur2 := (if fst r2 <? fst cur1 then fst r2 else fst cur1, snd cur1)).
    set (cs1 := set_nth loc (mkCell p [q]) cs).
    assert (L1 : length cs1 = length cs) by (unfold cs1; apply set_nth_length).
    assert (Hr2loc : in_rng r2 loc = true).
    { unfold in_rng, r2, r1. simpl. apply andb_true_iff. split; apply Z.leb_le;
        destruct (Z.ltb_spec (Z.of_nat loc) (fst r0)); destruct (Z.ltb_spec (snd r0) (Z.of_nat loc)); simpl; lia. }
    assert (Hr2sup : forall i, in_rng r0 i = true -> in_rng r2 i = true).
    { intros i Hi. unfold in_rng, r2, r1 in *. simpl. apply andb_true_iff in Hi. destruct Hi as [A B].
      apply Z.leb_le in A, B. apply andb_true_iff. split; apply Z.leb_le;
        destruct (Z.ltb_spec (Z.of_nat loc) (fst r0)); destruct (Z.ltb_spec (snd r0) (Z.of_nat loc)); simpl; lia. }
    assert (Hsub2 : rsub r2 cur2).
    { unfold rsub, cur2, cur1, r2, r1. simpl.
      repeat match goal with |- context [Z.ltb ?a ?b] => destruct (Z.ltb_spec a b) end; simpl in *; lia. }
    assert (Hcur : rsub cur cur2).
    { unfold rsub, cur2, cur1, r2, r1. simpl.
      repeat match goal with |- context [Z.ltb ?a ?b] => destruct (Z.ltb_spec a b) end; simpl in *; lia. }
    destruct (IH cs1 (update rs q r2) cur2 (S loc) (Sq ++ [q])) as [I1 [I2 I3]].
    + (* RI after this token *)
      intros i q' Hi Hq'. rewrite L1 in Hi. unfold cs1, cell_at in Hq'. rewrite nth_set_nth in Hq'.
      destruct (Nat.eqb_spec i loc) as [->|Hne]; simpl in Hq'.
      * destruct (Nat.ltb_spec loc (length cs)); [|lia]. unfold has in Hq'. simpl in Hq'. rewrite orb_false_r in Hq'.
        apply Nat.eqb_eq in Hq'. subst q'. rewrite lookup_update_same. eauto.
      * destruct (HR i q' Hi Hq') as [r [Hr Hin]]. destruct (Nat.eq_dec q' q) as [->|Hq].
        -- rewrite lookup_update_same. exists r2. split; [reflexivity|]. apply Hr2sup. unfold r0. rewrite Hr. exact Hin.
        -- rewrite lookup_update_other by assumption. eauto.
    + rewrite L1. lia.
    + intros q' Hin r Hr. apply in_app_or in Hin. destruct (Nat.eq_dec q' q) as [->|Hq].
      * rewrite lookup_update_same in Hr. injection Hr as <-. exact Hsub2.
      * rewrite lookup_update_other in Hr by assumption. destruct Hin as [Hin|[Hin|[]]]; [|congruence].
        destruct (HC q' Hin r Hr) as [A B]. destruct Hcur as [C D]. unfold rsub. lia.
    + split; [exact I1|]. split.
      * intros q' Hin. apply I2. rewrite <- app_assoc. simpl. exact Hin.
      * destruct I3 as [A B]. destruct Hcur as [C D]. unfold rsub. split; eapply Z.le_trans; [exact A|exact C|exact D|exact B].
Qed.

Lemma place_rs_rp : forall batch cs rs cur loc, RP rs -> RP (place_rs cs rs cur loc batch).
Proof.
  intros batch. induction batch as [|[[q p] t] rest IH]; intros cs rs cur loc HR; unfold place_rs in *; simpl; auto.
  apply IH. apply rpos_update; [exact HR|]. simpl.
  set (r0 := match lookup rs q with Some r => r | None => new_range end).
  assert (H0 : 0 <= fst r0).
  { unfold r0. destruct (lookup rs q) eqn:E; [eapply HR; eauto|unfold new_range, MaxInt; simpl; lia]. }
  destruct (Z.of_nat loc <? fst r0); lia.
Qed.

(** ** D. the mask *)
Lemma seqZ_nat : forall n lo, 0 <= lo -> map Z.to_nat (seqZ lo n) = seq (Z.to_nat lo) n.
Proof.
  induction n as [|n IH]; intros lo H; simpl; auto. f_equal. rewrite IH by lia. f_equal. lia.
Qed.

Lemma filter_none : forall A (V : A -> bool) l, (forall x, In x l -> V x = false) -> filter V l = [].
Proof. intros A V l H. induction l as [|a t IH]; simpl; auto. rewrite (H a) by (left; reflexivity). apply IH. intros; apply H; right; assumption. Qed.

Lemma filter_seq_window : forall (V : nat -> bool) lo len M,
  (forall j, V j = true -> (lo <= j < lo + len)%nat) -> (lo + len <= M)%nat ->
  filter V (seq 0 M) = filter V (seq lo len).
Proof.
  intros V lo len M HV HM.
  replace M with (lo + (len + (M - lo - len)))%nat by lia.
  rewrite seq_app, seq_app, !filter_app. simpl.
  rewrite (filter_none _ V (seq 0 lo)), (filter_none _ V (seq (lo + len) (M - lo - len))).
  - rewrite app_nil_r. reflexivity.
  - intros x Hx. apply in_seq in Hx. destruct (V x) eqn:E; auto. apply HV in E. lia.
  - intros x Hx. apply in_seq in Hx. destruct (V x) eqn:E; auto. apply HV in E. lia.
Qed.

Definition pair_at (cs : list cell) (ps : list (option datum)) (j : nat) : cell * option datum := (cell_at cs j, nth j ps None).

Lemma combine_as_map : forall cs ps, length ps = length cs -> combine cs ps = map (pair_at cs ps) (seq 0 (length cs)).
Proof.
  intros cs ps Hl. apply (nth_ext _ _ (empty_cell, None) (pair_at cs ps 0)).
  - rewrite combine_length, map_length, seq_length. lia.
  - intros k Hk. rewrite combine_length, Hl, Nat.min_id in Hk. rewrite map_nth, seq_nth by assumption.
    rewrite nth_combine by assumption. reflexivity.
Qed.

Lemma visible_has : forall w cl q p, visible_at w cl q p = true -> has q cl = true.
Proof. intros w cl q p H. unfold visible_at in H. apply andb_true_iff in H. destruct H as [H _]. apply andb_true_iff in H. tauto. Qed.

Theorem mask_exact : forall cs ps w q p pr, length ps = length cs -> 0 <= fst pr ->
  (forall j, (j < length cs)%nat -> has q (cell_at cs j) = true -> fst pr <= Z.of_nat j <= snd pr) ->
  map (pair_at cs ps) (mask_row w cs pr q p) = filter (fun x => visible_at w (fst x) q p) (live_pairs cs ps).
Proof.
  intros cs ps w q p [pmin pmax] Hl Hmin Hcov. simpl in *. unfold mask_row, live_pairs. simpl.
  rewrite seqZ_nat by assumption.
  rewrite (combine_as_map cs ps Hl), !filter_map_comm. f_equal.
  rewrite filter_filter.
  set (V := fun j => visible_at w (cell_at cs j) q p).
  rewrite (filter_ext_in' _ (fun x => livep (pair_at cs ps x) && visible_at w (fst (pair_at cs ps x)) q p) V).
  2:{ intros x _. unfold V, livep, pair_at. simpl. destruct (visible_at w (cell_at cs x) q p) eqn:E; [|apply andb_false_r].
      rewrite (has_live q _ (visible_has _ _ _ _ E)). reflexivity. }
  set (a := Z.to_nat pmin). set (cnt := Z.to_nat (pmax - pmin + 1)).
  assert (HV1 : forall j, V j = true -> (j < length cs)%nat).
  { intros j Hj. destruct (Nat.lt_ge_cases j (length cs)); auto. unfold V in Hj. rewrite cell_at_oob in Hj by assumption.
    apply visible_has in Hj. discriminate. }
  assert (HV2 : forall j, V j = true -> (a <= j < a + cnt)%nat).
  { intros j Hj. pose proof (HV1 j Hj) as H1. specialize (Hcov j H1 (visible_has _ _ _ _ Hj)). unfold a, cnt. lia. }
  rewrite <- (filter_seq_window V a cnt (Nat.max (length cs) (a + cnt)) HV2 ltac:(lia)).
  rewrite <- (filter_seq_window V 0 (length cs) (Nat.max (length cs) (a + cnt))); [reflexivity| |lia].
  intros j Hj. specialize (HV1 j Hj). lia.
Qed.

Lemma visible_at_spec : forall w cl q p, 0 <= c_pos cl < MaxInt32 -> 0 <= p < MaxInt32 ->
  visible_at w cl q p = has q cl && Spec.in_window w (c_pos cl) p.
Proof.
  intros w cl q p Hc Hp. unfold visible_at, Spec.in_window. rewrite <- andb_assoc. f_equal.
  destruct w as [w|].
  - destruct (Z.ltb_spec p (c_pos cl)); destruct (Z.ltb_spec (c_pos cl) (p - w));
      destruct (Z.leb_spec (c_pos cl) p); destruct (Z.leb_spec (p - w) (c_pos cl)); simpl; auto; lia.
  - destruct (Z.ltb_spec p (c_pos cl)); destruct (Z.ltb_spec (c_pos cl) (p - MaxInt32));
      destruct (Z.leb_spec (c_pos cl) p); simpl; auto; lia.
Qed.

(** what a location holds, as the attention kernel sees it: the position baked into K and the token *)
Definition kt (ps : list (option datum)) (j : nat) : Z * N :=
  match nth j ps None with Some x => (d_kpos x, d_tok x) | None => (0, 0%N) end.

Theorem mask_visible : forall c q p pr, Inv c -> 0 <= p < MaxInt32 -> 0 <= fst pr ->
  (forall j, (j < length (cells c))%nat -> has q (cell_at (cells c) j) = true -> fst pr <= Z.of_nat j <= snd pr) ->
  map (kt (phys c)) (mask_row (window c) (cells c) pr q p) = Spec.visible_raw (abs c) q p.
Proof.
  intros c q p pr HI Hp Hmin Hcov.
  unfold Spec.visible_raw, abs. simpl. unfold abs_cells. rewrite filter_map_comm, map_map.
  rewrite (filter_ext_in' _ (fun x => Spec.has q (to_acell x) && Spec.in_window (window c) (Spec.a_pos (to_acell x)) p)
             (fun x => visible_at (window c) (fst x) q p)).
  2:{ intros x Hx. pose proof (inv_data c HI) as HD. rewrite Forall_forall in HD.
      destruct (HD x Hx) as [y [_ [_ Hb]]]. rewrite visible_at_spec by assumption. reflexivity. }
  rewrite <- (mask_exact (cells c) (phys c) (window c) q p pr (inv_len c HI) Hmin Hcov).
  rewrite map_map. apply map_ext_in. intros j Hj.
  unfold mask_row in Hj. apply filter_In in Hj. destruct Hj as [_ Hv].
  assert (Hlive : live (cell_at (cells c) j) = true) by (eapply has_live; eapply visible_has; eauto).
  assert (Hj : (j < length (cells c))%nat).
  { destruct (Nat.lt_ge_cases j (length (cells c))); auto. rewrite cell_at_oob in Hlive by assumption. discriminate. }
  destruct (proj1 (data_nth _ _ (inv_len c HI)) (inv_data c HI) j Hj Hlive) as [x [Hx [Hk _]]]. simpl in Hx, Hk.
  unfold kt, pair_at, Spec.pt, to_acell. simpl. rewrite Hx. simpl. rewrite Hk. reflexivity.
Qed.

(** ** E. StartForward + Put as a whole *)
Definition e_seq (e : entry) : nat := fst (fst e).
Definition e_pos (e : entry) : Z := snd (fst e).
Definition valid_batch (batch : list entry) : Prop :=
  batch <> [] /\ Forall (fun e : entry => 0 <= e_pos e < MaxInt32) batch.

Lemma place_cur_nonneg : forall batch cs rs cur loc, RP rs -> 0 <= fst cur -> 0 <= fst (place_cur cs rs cur loc batch).
Proof.
  intros batch. induction batch as [|[[q p] t] rest IH]; intros cs rs cur loc HR Hc; unfold place_cur in *; simpl; auto.
  set (r0 := match lookup rs q with Some r => r | None => new_range end).
  assert (H0 : 0 <= fst r0).
  { unfold r0. destruct (lookup rs q) eqn:E; [eapply HR; eauto|unfold new_range, MaxInt; simpl; lia]. }
  apply IH.
  - apply rpos_update; [exact HR|]. simpl. destruct (Z.of_nat loc <? fst r0); lia.
  - simpl. destruct (Z.of_nat loc <? fst r0); destruct (_ <? fst cur); lia.
Qed.

Lemma round_down_le : forall x pad, (1 <= pad)%nat -> 0 <= x -> 0 <= round_downZ x pad <= x.
Proof.
  intros x pad Hp Hx. unfold round_downZ. assert (0 < Z.of_nat pad) by lia.
  pose proof (Z.mul_div_le x (Z.of_nat pad) H). pose proof (Z.div_pos x (Z.of_nat pad) Hx H). nia.
Qed.

Lemma round_up_ge : forall y pad, (1 <= pad)%nat -> y <= round_upZ (y + 1) pad - 1.
Proof.
  intros y pad Hp. unfold round_upZ. assert (H : 0 < Z.of_nat pad) by lia.
  pose proof (Z.mod_pos_bound (y + 1 + Z.of_nat pad - 1) (Z.of_nat pad) H) as Hm.
  pose proof (Z.div_mod (y + 1 + Z.of_nat pad - 1) (Z.of_nat pad) ltac:(lia)) as Hd. nia.
Qed.

Lemma length_abs : forall cs ps, length ps = length cs -> length (abs_cells cs ps) = nlive cs.
Proof.
  intros cs ps Hl. unfold abs_cells, live_pairs, nlive. rewrite map_length.
  rewrite <- (map_fst_combine cs ps Hl) at 2. rewrite <- (map_fst_filter live), map_length. reflexivity.
Qed.

Lemma new_pair_spec : forall e, to_acell (new_pair e) = Spec.entry_cell e.
Proof. intros [[q p] t]. reflexivity. Qed.

Lemma new_pair_good : forall e, 0 <= e_pos e < MaxInt32 -> good_pair (new_pair e).
Proof. intros [[q p] t] H. unfold good_pair, new_pair, e_pos in *. simpl in *. eexists. repeat split; eauto; lia. Qed.

Definition fwd_vis_ok (c' : cache) (batch : list entry) (f : fwd_out) : Prop :=
  forall i e, nth_error batch i = Some e ->
  exists vis, nth_error (f_vis f) i = Some vis /\ map (kt (phys c')) vis = Spec.visible_raw (abs c') (e_seq e) (e_pos e).

Theorem place_correct : forall c loc batch, Inv c -> valid_batch batch ->
  (loc + length batch <= length (cells c))%nat ->
  (forall k, (loc <= k < loc + length batch)%nat -> live (cell_at (cells c) k) = false) ->
  let r := meta_place c loc batch in
  let c' := put_batch (fst r) loc batch in
  Inv c' /\
  Permutation (abs_cells (cells c') (phys c')) (abs_cells (cells c) (phys c) ++ map Spec.entry_cell batch) /\
  length (cells c') = length (cells c) /\ window c' = window c /\ can_shift c' = can_shift c /\
  exists f, snd r = OFwd f /\ f_loc f = loc /\ fwd_vis_ok c' batch f.
Proof.
  intros c loc batch HI [Hne Hval] Hfit Hdead. cbv zeta. unfold meta_place.
  pose proof (place_put_perm batch (cells c) (phys c) (ranges c) new_range loc (inv_len c HI) Hfit Hdead) as [L1 [L2 HP]].
  pose proof (place_ranges batch (cells c) (ranges c) new_range loc [] (RI_of_Inv c HI) Hfit ltac:(intros q []))
    as [HRI [Hcur _]].
  pose proof (place_rs_rp batch (cells c) (ranges c) new_range loc (inv_rpos c HI)) as HRP.
  pose proof (place_cur_nonneg batch (cells c) (ranges c) new_range loc (inv_rpos c HI) ltac:(unfold new_range, MaxInt; simpl; lia)) as Hcn.
  unfold place_cells, place_rs, place_cur in *.
  destruct (place (cells c) (ranges c) new_range loc batch) as [[cs rs] cur]. simpl in *.
  assert (HI' : Inv (put_batch (with_cpr c cs (phys c) rs) loc batch)).
  { constructor; simpl.
    - rewrite L1, L2. apply (inv_len c HI).
    - rewrite L1. apply (inv_size c HI).
    - eapply Permutation_Forall; [apply Permutation_sym; exact HP|]. apply Forall_app. split.
      + apply Forall_forall. intros x Hx. apply in_map_iff in Hx. destruct Hx as [e [<- He]].
        apply new_pair_good. rewrite Forall_forall in Hval. auto.
      + apply (inv_data c HI).
    - exact HRI.
    - apply (inv_pad c HI).
    - exact HRP. }
  split; [exact HI'|]. split; [|split; [exact L1|split; [reflexivity|split; [reflexivity|]]]].
  - unfold abs_cells. eapply Permutation_trans; [apply Permutation_map; exact HP|].
    rewrite map_app, map_map. rewrite (map_ext _ _ new_pair_spec). apply Permutation_app_comm.
  - eexists. split; [reflexivity|]. split; [reflexivity|].
    intros i e He. simpl. rewrite (map_nth_error _ _ _ He). eexists. split; [reflexivity|].
    destruct e as [[q p] t]. unfold e_seq, e_pos. simpl.
    assert (Hin : In (q, p, t) batch) by (eapply nth_error_In; eauto).
    assert (Hp : 0 <= p < MaxInt32) by (rewrite Forall_forall in Hval; apply (Hval _ Hin)).
    set (c' := put_batch (with_cpr c cs (phys c) rs) loc batch) in *.
    apply (mask_visible c' q p (pad_range (cpad c) cur) HI' Hp).
    + unfold pad_range. simpl. apply round_down_le; [apply (inv_pad c HI)|exact Hcn].
    + intros j Hj Hq. simpl in Hj, Hq. destruct (HRI j q Hj Hq) as [r [Hr Hrj]].
      assert (Hs : rsub r cur).
      { apply (Hcur q); [|exact Hr]. simpl. apply in_map_iff. exists (q, p, t). split; [reflexivity|exact Hin]. }
      destruct Hs as [S1 S2]. unfold in_rng in Hrj. apply andb_true_iff in Hrj. destruct Hrj as [R1 R2].
      apply Z.leb_le in R1, R2. unfold pad_range. simpl.
      pose proof (round_down_le (fst cur) (cpad c) (inv_pad c HI) Hcn).
      pose proof (round_up_ge (snd cur) (cpad c) (inv_pad c HI)). lia.
Qed.

Definition fwd_result_ok (c : cache) (batch : list entry) (r : cache * out) (sr : Spec.sstate * option Spec.serr) : Prop :=
  Inv (fst r) /\ Permutation (abs_cells (cells (fst r)) (phys (fst r))) (Spec.s_cells (fst sr)) /\
  length (cells (fst r)) = length (cells c) /\ window (fst r) = window c /\ can_shift (fst r) = can_shift c /\
  ((snd r = OErr EFull /\ snd sr = Some Spec.EFull) \/
   (exists f, snd r = OFwd f /\ snd sr = None /\ fwd_vis_ok (fst r) batch f)).

Lemma spec_forward_unfold : forall c batch,
  Spec.spec_forward (abs c) batch =
  if (length (cells c) - length (Spec.evict (window c) batch (abs_cells (cells c) (phys c))) <? Nat.max 1 (length batch))%nat
  then (Spec.with_cells (abs c) (Spec.evict (window c) batch (abs_cells (cells c) (phys c))), Some Spec.EFull)
  else (Spec.with_cells (abs c) (Spec.evict (window c) batch (abs_cells (cells c) (phys c)) ++ map Spec.entry_cell batch), None).
Proof. reflexivity. Qed.

Theorem forward_correct : forall c batch, Inv c -> valid_batch batch ->
  fwd_result_ok c batch (start_forward true c batch) (Spec.spec_forward (abs c) batch).
Proof.
  intros c batch HI Hvb. pose proof Hvb as [Hne Hval].
  assert (Hn : (1 <= length batch)%nat) by (destruct batch; [congruence|simpl; lia]).
  destruct (update_window_correct c batch HI) as [HI1 [Ha1 [Hl1 [Hw1 [Hs1 [Hp1 [Hph1 Hly1]]]]]]].
  unfold start_forward, start_forward_meta. set (c1 := update_window c batch) in *.
  rewrite spec_forward_unfold. rewrite <- Ha1.
  rewrite (length_abs _ _ (inv_len c1 HI1)). rewrite <- Hl1.
  assert (Hmax : Nat.max 1 (@length Spec.entry batch) = length batch) by (apply Nat.max_r; exact Hn). rewrite Hmax.
  (* placing the batch in a state [ck] that holds the same entries as [c1] *)
  assert (Hplace : forall ck loc, Inv ck -> find_start (cells ck) (length batch) = Some loc ->
            Permutation (abs_cells (cells ck) (phys ck)) (abs_cells (cells c1) (phys c1)) ->
            length (cells ck) = length (cells c1) -> window ck = window c1 -> can_shift ck = can_shift c1 ->
            fwd_result_ok c batch
              (let '(c', r) := meta_place ck loc batch in
               match r with OFwd f => (put_batch c' (f_loc f) batch, r) | _ => (c', r) end)
              (Spec.with_cells (abs c) (abs_cells (cells c1) (phys c1) ++ map Spec.entry_cell batch), None)).
  { intros ck loc HIk Hfs Hperm Hlk Hwk Hsk. destruct (find_start_sound _ _ _ Hfs Hn) as [Hfit Hdead].
    pose proof (place_correct ck loc batch HIk Hvb Hfit Hdead) as HPc. cbv zeta in HPc.
    destruct (meta_place ck loc batch) as [c' r]. simpl in HPc.
    destruct HPc as [HI' [HP' [HL' [HW' [HS' [f [Hr [Hloc Hvis]]]]]]]]. subst r. rewrite Hloc.
    unfold fwd_result_ok. simpl. split; [exact HI'|]. split; [|split; [lia|split; [congruence|split; [congruence|]]]].
    - eapply Permutation_trans; [exact HP'|]. apply Permutation_app_tail. exact Hperm.
    - right. exists f. auto. }
  destruct (find_start (cells c1) (length batch)) as [loc|] eqn:Hfs.
  - pose proof (find_start_free _ _ _ Hfs Hn) as Hfree.
    destruct (Nat.ltb_spec (length (cells c1) - nlive (cells c1)) (length batch)); [lia|].
    apply Hplace; auto.
  - assert (Hd : defrag true c1 = Some (with_cpr c1
               (d_cells (flush true (defrag_loop true (length (cells c1)) 0 (mkD (cells c1) (phys c1) (length (cells c1) - 1) 0 0 0))))
               (d_phys (flush true (defrag_loop true (length (cells c1)) 0 (mkD (cells c1) (phys c1) (length (cells c1) - 1) 0 0 0))))
               (map (fun kr => (fst kr, range_of (fun _ cl => has (fst kr) cl)
                      (d_cells (flush true (defrag_loop true (length (cells c1)) 0 (mkD (cells c1) (phys c1) (length (cells c1) - 1) 0 0 0))))))
                    (ranges c1)))) by reflexivity.
    rewrite Hd. set (c2 := with_cpr c1 _ _ _) in *.
    destruct (defrag_correct c1 c2 HI1 Hd) as [HI2 [HP2 [Hcomp [Hl2 [Hw2 [_ [_ [Hs2 _]]]]]]]].
    assert (Hperm : Permutation (abs_cells (cells c2) (phys c2)) (abs_cells (cells c1) (phys c1))).
    { unfold abs_cells. apply Permutation_map. exact HP2. }
    assert (Hnl : nlive (cells c2) = nlive (cells c1)).
    { rewrite <- (length_abs _ _ (inv_len c2 HI2)), <- (length_abs _ _ (inv_len c1 HI1)). apply Permutation_length. exact Hperm. }
    destruct (find_start (cells c2) (length batch)) as [loc|] eqn:Hfs2.
    + pose proof (find_start_free _ _ _ Hfs2 Hn) as Hfree. rewrite Hnl, Hl2 in Hfree.
      destruct (Nat.ltb_spec (length (cells c1) - nlive (cells c1)) (length batch)); [lia|].
      apply Hplace; auto.
    + pose proof (proj1 (find_start_compact _ _ Hcomp Hn) Hfs2) as Hfull. rewrite Hnl, Hl2 in Hfull.
      destruct (Nat.ltb_spec (length (cells c1) - nlive (cells c1)) (length batch)); [|lia].
      unfold fwd_result_ok. cbn [fst snd Spec.with_cells Spec.s_cells]. split; [exact HI2|]. split; [exact Hperm|].
      split; [lia|split; [congruence|split; [congruence|left; auto]]].
Qed.
