(** KvCache/Properties_C06.v - theorems of property C06, "the KV cache exposes exactly the causal history of
    each sequence" (statements; the proofs are in KvCache/Proofs*.v).

    Model: KvCache/Model.v ([fx = true]: kvcache/causal.go with fixes/C06-defrag-merge.patch and
    fixes/C06-canresume-window.patch applied).  Specification: KvCache/Spec.v - a multiset of entries
    (position, token, owning sequences); sliding-window eviction is part of the specification.
    [prun] runs a history in which a failing Remove is followed by Remove(seq, 0, MaxInt32), as kvcache/cache.go
    prescribes.  [op_ok]: batches are non-empty with positions in [0, MaxInt32), Remove has 0 <= begin <= end. *)
From Coq Require Import List ZArith NArith Bool Arith Lia Permutation.
From V Require Import KvCache.Model KvCache.ProofsList KvCache.ProofsInv KvCache.ProofsDefrag KvCache.ProofsOps
  KvCache.ProofsFwd KvCache.ProofsRefine KvCache.ProofsFindings.
From V Require KvCache.Spec.
Import ListNotations.
Open Scope Z_scope.

(** *** Refinement, over every operation history, capacity, padding and window.
    After ANY history of protocol-level operations starting from the state built by Init, the representation
    invariant holds (metadata and physical data agree: every live location holds the row stored for it, with
    the position baked into K equal to the position of the cell; every live cell lies inside the range recorded
    for each of its sequences) and the live entries are, as a multiset, those of the specification run on the
    same operations. *)
Theorem C06_refines : forall w ms cap mb cp bp sh ops,
  Z.of_nat (cache_size w ms cap mb (norm_pad cp)) < MaxInt ->
  Forall op_ok ops ->
  let c := prun (init w ms cap mb cp bp sh) ops in
  Inv c /\ R c (Spec.spec_prun (Spec.spec_init (cache_size w ms cap mb (norm_pad cp)) w sh) (map to_sop ops)).
Proof.
  intros w ms cap mb cp bp sh ops Hsz Hok. destruct (init_inv w ms cap mb cp bp sh Hsz) as [HI HR].
  apply prun_refines; assumption.
Qed.
Print Assumptions C06_refines.

(** every single operation commutes with its specification, results included (EFull / EShared / ENotSupported
    are reported exactly when the specification reports them; CanResume answers what the specification answers) *)
Theorem C06_step_refines : forall c s o, Inv c -> R c s -> op_ok o ->
  Inv (fst (pstep c o)) /\ R (fst (pstep c o)) (fst (Spec.spec_pstep s (to_sop o))) /\
  out_agree (snd (pstep c o)) (snd (Spec.spec_pstep s (to_sop o))).
Proof. exact step_refines. Qed.
Print Assumptions C06_step_refines.

(** *** The exposed history is exact.
    After a successful StartForward + Put, for every batch token i = (seq, pos, _): the (kpos, token) pairs
    read from the physical rows at the locations the mask leaves open - locations taken from the *padded*
    range - are, as a multiset, the specification's visible history of (seq, pos): the entries owned by seq
    with position <= pos and, when a window is configured, >= pos - window.  Nothing foreign, nothing removed,
    nothing later, nothing missing, and kpos = position on each of them. *)
Theorem C06_visible_exact : forall c s batch c' f, Inv c -> R c s -> valid_batch batch ->
  start_forward true c batch = (c', OFwd f) ->
  forall i e, nth_error batch i = Some e ->
  exists vis, nth_error (f_vis f) i = Some vis /\
    Permutation (map (kt (phys c')) vis) (Spec.visible_raw (fst (Spec.spec_forward s batch)) (e_seq e) (e_pos e)).
Proof.
  intros c s batch c' f HI HR Hvb Hsf i e He.
  pose proof (forward_correct c batch HI Hvb) as HF. rewrite Hsf in HF.
  destruct HF as [HI' [_ [_ [_ [_ [[Hc _]|[f' [Hf [_ Hvis]]]]]]]]]; simpl in *; [discriminate|].
  injection Hf as <-. destruct (Hvis i e He) as [vis [Hn Hm]]. exists vis. split; [exact Hn|]. rewrite Hm.
  pose proof (step_refines c s (Forward batch) HI HR Hvb) as [_ [HR' _]]. simpl in HR'. rewrite Hsf in HR'. simpl in HR'.
  apply visible_raw_perm. apply R_seqv. exact HR'.
Qed.
Print Assumptions C06_visible_exact.

(** what the specification's visible history is, spelled out *)
Theorem C06_visible_meaning : forall s q p x,
  In x (Spec.visible_raw s q p) <->
  exists a, In a (Spec.s_cells s) /\ Spec.has q a = true /\ Spec.a_pos a <= p /\
            match Spec.s_window s with Some w => p - w <= Spec.a_pos a | None => True end /\
            x = (Spec.a_pos a, Spec.a_tok a).
Proof.
  intros s q p x. unfold Spec.visible_raw, Spec.in_window. rewrite in_map_iff. split.
  - intros [a [Hx Ha]]. apply filter_In in Ha. destruct Ha as [Hin Hc]. apply andb_true_iff in Hc. destruct Hc as [H1 H2].
    apply andb_true_iff in H2. destruct H2 as [H2 H3]. exists a. repeat split; auto.
    + apply Z.leb_le. exact H2.
    + destruct (Spec.s_window s); [apply Z.leb_le; exact H3|exact I].
  - intros [a [Hin [H1 [H2 [H3 ->]]]]]. exists a. split; [reflexivity|]. apply filter_In. split; [exact Hin|].
    rewrite H1. simpl. apply andb_true_iff. split; [apply Z.leb_le; exact H2|].
    destruct (Spec.s_window s); [apply Z.leb_le; exact H3|reflexivity].
Qed.
Print Assumptions C06_visible_meaning.

(** *** A full cache is an error, nothing else.
    StartForward either places the batch or returns ErrKvCacheFull (it never panics in the repaired code), it
    returns ErrKvCacheFull exactly when fewer locations are free (after sliding-window eviction) than the batch
    needs, and then the live entries are exactly those before the call minus what the window evicted: no live
    entry was overwritten or altered (defragmentation may have moved them, rows included). *)
Theorem C06_full_is_error : forall c batch, Inv c -> valid_batch batch ->
  let r := start_forward true c batch in
  let kept := Spec.evict (window c) batch (abs_cells (cells c) (phys c)) in
  Inv (fst r) /\
  ((length (cells c) - length kept < length batch)%nat ->
     snd r = OErr EFull /\ Permutation (abs_cells (cells (fst r)) (phys (fst r))) kept) /\
  ((length batch <= length (cells c) - length kept)%nat -> exists f, snd r = OFwd f).
Proof.
  intros c batch HI Hvb. cbv zeta.
  pose proof (forward_correct c batch HI Hvb) as [HI' [HP [_ [_ [_ Hout]]]]].
  assert (Hn : (1 <= length batch)%nat) by (destruct Hvb as [Hne _]; destruct batch; [congruence|simpl; lia]).
  rewrite spec_forward_unfold in HP, Hout.
  assert (Hmax : Nat.max 1 (@length Spec.entry batch) = length batch) by (apply Nat.max_r; exact Hn).
  rewrite Hmax in HP, Hout. split; [exact HI'|]. split.
  - intros Hlt. destruct (Nat.ltb_spec (length (cells c) - length (Spec.evict (window c) batch (abs_cells (cells c) (phys c)))) (length batch)); [|lia].
    simpl in HP, Hout. destruct Hout as [[Ho _]|[f [_ [Hc _]]]]; [|discriminate]. auto.
  - intros Hge. destruct (Nat.ltb_spec (length (cells c) - length (Spec.evict (window c) batch (abs_cells (cells c) (phys c)))) (length batch)); [lia|].
    simpl in Hout. destruct Hout as [[_ Hc]|[f [Ho _]]]; [discriminate|]. eauto.
Qed.
Print Assumptions C06_full_is_error.

(** *** Defragmentation (repaired) keeps every (cell, row) pair together and compacts the cache. *)
Theorem C06_defrag_repaired : forall c c', Inv c -> defrag true c = Some c' ->
  Inv c' /\ Permutation (live_pairs (cells c') (phys c')) (live_pairs (cells c) (phys c)) /\ compact (cells c').
Proof. intros c c' HI H. destruct (defrag_correct c c' HI H) as [A [B [C _]]]. auto. Qed.
Print Assumptions C06_defrag_repaired.

(** *** The defects of the code as found, as theorems about [fx = false] (see KvCache/ProofsFindings.v). *)

(** defrag as found: the full statement, its refutation, and the repaired statement is [C06_defrag_repaired] *)
Definition C06_defrag_as_found_full : Prop :=
  forall c c', Inv c -> defrag false c = Some c' -> Inv c'.
Theorem C06_defrag_as_found_refuted : ~ C06_defrag_as_found_full.
Proof. exact defrag_as_found_refuted. Qed.
Print Assumptions C06_defrag_as_found_refuted.

(** defrag as found divides by the number of layers: a forward pass into a cache without storage that does not
    fit panics instead of reporting ErrKvCacheFull *)
Theorem C06_defrag_as_found_panics : exists c batch, Inv c /\ valid_batch batch /\ snd (start_forward false c batch) = OPanic.
Proof. exact defrag_as_found_panics. Qed.
Print Assumptions C06_defrag_as_found_panics.

(** CanResume: the repaired check guarantees that the window of the resumed position is completely present
    (positions of a sequence being distinct, as the runner guarantees); the check as found does not *)
Theorem C06_can_resume_sound : forall c q p w, Inv c -> window c = Some w ->
  NoDup (map c_pos (filter (has q) (cells c))) ->
  can_resume true c q p = true ->
  forall x, Z.max 0 (p - w) <= x < p -> exists cl, In cl (cells c) /\ has q cl = true /\ c_pos cl = x.
Proof. exact can_resume_sound. Qed.
Print Assumptions C06_can_resume_sound.

Definition C06_can_resume_as_found_full : Prop :=
  forall c q p w, Inv c -> window c = Some w -> NoDup (map c_pos (filter (has q) (cells c))) ->
  can_resume false c q p = true ->
  forall x, Z.max 0 (p - w) <= x < p -> exists cl, In cl (cells c) /\ has q cl = true /\ c_pos cl = x.
Theorem C06_can_resume_as_found_refuted : ~ C06_can_resume_as_found_full.
Proof. exact can_resume_as_found_refuted. Qed.
Print Assumptions C06_can_resume_as_found_refuted.

(** *** Non-vacuity: a concrete history (store, copy the prefix, diverge, remove a middle range with shift, fill
    up so that defragmentation runs) satisfies the hypotheses, and the visible history at its end is the expected one *)
Example C06_example_history :
  let ops := [Forward [(0%nat, 0, 1%N); (0%nat, 1, 2%N); (0%nat, 2, 3%N)];
              Copy 0 1 2;
              Forward [(1%nat, 2, 4%N)];
              Remove 0 1 2;
              Forward [(0%nat, 2, 5%N); (1%nat, 3, 6%N)];
              Remove 1 0 MaxInt32;
              Forward [(0%nat, 3, 7%N); (0%nat, 4, 8%N); (0%nat, 5, 9%N)]] in
  Forall op_ok ops /\
  let c := prun (init None 2 4 3 1 1 true) ops in
  Spec.visible (Spec.spec_prun (Spec.spec_init 8 None true) (map to_sop ops)) 0 5 =
    [(0, 1%N); (1, 3%N); (2, 5%N); (3, 7%N); (4, 8%N); (5, 9%N)] /\
  map (fun cl => (c_pos cl, c_seqs cl)) (cells c) =
    [(0, [0%nat]); (4, [0%nat]); (1, [0%nat]); (5, [0%nat]); (3, [0%nat]); (2, [0%nat]); (0, []); (0, [])].
Proof.
  cbv zeta. split.
  - repeat constructor; unfold valid_batch, e_pos, MaxInt32; simpl; try (intro; discriminate); try lia;
      repeat constructor; simpl; lia.
  - vm_compute. split; reflexivity.
Qed.
