(** KvCache/Properties_C06.v - theorems of property C06 (statements only; proofs in KvCache/Proofs*.v). *)
From Coq Require Import List ZArith NArith Bool Arith Lia.
From V Require Import KvCache.Model.
Import ListNotations.
Open Scope Z_scope.

(** every location a batch token attends to is owned by the token's sequence, not later than the token and
    inside the window *)
Theorem C06_mask_sound : forall w cs pr q p j,
  In j (mask_row w cs pr q p) ->
  has q (cell_at cs j) = true /\ c_pos (cell_at cs j) <= p /\
  match w with Some w => p - w <= c_pos (cell_at cs j) | None => True end.
Proof.
  intros w cs pr q p j H. unfold mask_row in H. apply filter_In in H. destruct H as [_ H].
  unfold visible_at in H. apply andb_true_iff in H. destruct H as [H H3]. apply andb_true_iff in H. destruct H as [H1 H2].
  split; [exact H1|]. apply negb_true_iff in H2, H3. split; [lia|]. destruct w; [lia|exact I].
Qed.
Print Assumptions C06_mask_sound.
