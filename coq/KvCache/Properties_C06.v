(** KvCache/Properties_C06.v - theorems of property C06, "the KV cache exposes exactly the causal history of
    each sequence" (statements; the proofs are in KvCache/Proofs*.v).

    Model: KvCache/Model.v ([fx = true]: kvcache/causal.go with fixes/C06-defrag-merge.patch and
    fixes/C06-canresume-window.patch applied).  Specification: KvCache/Spec.v - a multiset of entries
    (position, token, owning sequences); sliding-window eviction is part of the specification.
    [prun] runs a history in which a failing Remove is followed by Remove(seq, 0, MaxInt32), as kvcache/cache.go
    prescribes.  [op_ok]: batches are non-empty with positions in [0, MaxInt32), Remove has 0 <= begin <= end. *)
From Coq Require Import List ZArith NArith Bool Arith Lia Permutation.
From V Require Import KvCache.Model KvCache.ProofsList KvCache.ProofsInv KvCache.ProofsDefrag KvCache.ProofsOps
  KvCache.ProofsFwd KvCache.ProofsRefine KvCache.ProofsFindings KvCache.ProofsWindow KvCache.ProofsWrapper KvCache.ProofsEnc KvCache.ProofsCausal.
From V Require KvCache.Spec.
Import ListNotations.
Open Scope Z_scope.

(** *** Refinement, over every operation history, capacity, padding and window.
    After ANY history of protocol-level operations starting from the state built by Init, the representation
    invariant holds (metadata and physical data agree: every live location holds the row stored for it, with
    the position baked into K equal to the position of the cell; every live cell lies inside the range recorded
    for each of its sequences) and the live entries are, as a multiset, those of the specification run on the
    same operations. *)
Theorem C06_refines : forall w ms cap mb cp bp sh ops,
  Z.of_nat (cache_size w ms cap mb (norm_pad cp)) < MaxInt ->
  Forall op_ok ops ->
  let c := prun (init w ms cap mb cp bp sh) ops in
  Inv c /\ R c (Spec.spec_prun (Spec.spec_init (cache_size w ms cap mb (norm_pad cp)) w sh) (map to_sop ops)).
Proof.
  intros w ms cap mb cp bp sh ops Hsz Hok. destruct (init_inv w ms cap mb cp bp sh Hsz) as [HI HR].
  apply prun_refines; assumption.
Qed.
Print Assumptions C06_refines.

(** every single operation commutes with its specification, results included (EFull / EShared / ENotSupported
    are reported exactly when the specification reports them; CanResume answers what the specification answers) *)
Theorem C06_step_refines : forall c s o, Inv c -> R c s -> op_ok o ->
  Inv (fst (pstep c o)) /\ R (fst (pstep c o)) (fst (Spec.spec_pstep s (to_sop o))) /\
  out_agree (snd (pstep c o)) (snd (Spec.spec_pstep s (to_sop o))).
Proof. exact step_refines. Qed.
Print Assumptions C06_step_refines.

(** *** The exposed history is exact.
    After a successful StartForward + Put, for every batch token i = (seq, pos, _): the (kpos, token) pairs
    read from the physical rows at the locations the mask leaves open - locations taken from the *padded*
    range - are, as a multiset, the specification's visible history of (seq, pos): the entries owned by seq
    with position <= pos and, when a window is configured, >= pos - window.  Nothing foreign, nothing removed,
    nothing later, nothing missing, and kpos = position on each of them. *)
Theorem C06_visible_exact : forall c s batch c' f, Inv c -> R c s -> valid_batch batch ->
  start_forward true c batch = (c', OFwd f) ->
  forall i e, nth_error batch i = Some e ->
  exists vis, nth_error (f_vis f) i = Some vis /\
    Permutation (map (kt (phys c')) vis) (Spec.visible_raw (fst (Spec.spec_forward s batch)) (e_seq e) (e_pos e)).
Proof.
  intros c s batch c' f HI HR Hvb Hsf i e He.
  pose proof (forward_correct c batch HI Hvb) as HF. rewrite Hsf in HF.
  destruct HF as [HI' [_ [_ [_ [_ [[Hc _]|[f' [Hf [_ Hvis]]]]]]]]]; simpl in *; [discriminate|].
  injection Hf as <-. destruct (Hvis i e He) as [vis [Hn Hm]]. exists vis. split; [exact Hn|]. rewrite Hm.
  pose proof (step_refines c s (Forward batch) HI HR Hvb) as [_ [HR' _]]. simpl in HR'. rewrite Hsf in HR'. simpl in HR'.
  apply visible_raw_perm. apply R_seqv. destruct (Spec.spec_forward s batch) as [s1 e1]. exact HR'.
Qed.
Print Assumptions C06_visible_exact.

(** what the specification's visible history is, spelled out *)
Theorem C06_visible_meaning : forall s q p x,
  In x (Spec.visible_raw s q p) <->
  exists a, In a (Spec.s_cells s) /\ Spec.has q a = true /\ Spec.a_pos a <= p /\
            match Spec.s_window s with Some w => p - w <= Spec.a_pos a | None => True end /\
            x = (Spec.a_pos a, Spec.a_tok a).
Proof.
  intros s q p x. unfold Spec.visible_raw, Spec.in_window. rewrite in_map_iff. split.
  - intros [a [Hx Ha]]. apply filter_In in Ha. destruct Ha as [Hin Hc]. apply andb_true_iff in Hc. destruct Hc as [H1 H2].
    apply andb_true_iff in H2. destruct H2 as [H2 H3]. exists a. repeat split; auto.
    + apply Z.leb_le. exact H2.
    + destruct (Spec.s_window s); [apply Z.leb_le; exact H3|exact I].
  - intros [a [Hin [H1 [H2 [H3 ->]]]]]. exists a. split; [reflexivity|]. apply filter_In. split; [exact Hin|].
    rewrite H1. simpl. apply andb_true_iff. split; [apply Z.leb_le; exact H2|].
    destruct (Spec.s_window s); [apply Z.leb_le; exact H3|reflexivity].
Qed.
Print Assumptions C06_visible_meaning.

(** *** A full cache is an error, nothing else.
    StartForward either places the batch or returns ErrKvCacheFull (it never panics in the repaired code), it
    returns ErrKvCacheFull exactly when fewer locations are free (after sliding-window eviction) than the batch
    needs, and then the live entries are exactly those before the call minus what the window evicted: no live
    entry was overwritten or altered (defragmentation may have moved them, rows included). *)
Theorem C06_full_is_error : forall c batch, Inv c -> valid_batch batch ->
  let r := start_forward true c batch in
  let kept := Spec.evict (window c) batch (abs_cells (cells c) (phys c)) in
  Inv (fst r) /\
  ((length (cells c) - length kept < length batch)%nat ->
     snd r = OErr EFull /\ Permutation (abs_cells (cells (fst r)) (phys (fst r))) kept) /\
  ((length batch <= length (cells c) - length kept)%nat -> exists f, snd r = OFwd f).
Proof.
  intros c batch HI Hvb. cbv zeta.
  pose proof (forward_correct c batch HI Hvb) as [HI' [HP [_ [_ [_ Hout]]]]].
  assert (Hn : (1 <= length batch)%nat) by (destruct Hvb as [Hne _]; destruct batch; [congruence|simpl; lia]).
  rewrite spec_forward_unfold in HP, Hout.
  assert (Hmax : Nat.max 1 (@length Spec.entry batch) = length batch) by (apply Nat.max_r; exact Hn).
  rewrite Hmax in HP, Hout. split; [exact HI'|]. split.
  - intros Hlt. destruct (Nat.ltb_spec (length (cells c) - length (Spec.evict (window c) batch (abs_cells (cells c) (phys c)))) (length batch)); [|lia].
    simpl in HP, Hout. destruct Hout as [[Ho _]|[f [_ [Hc _]]]]; [|discriminate]. auto.
  - intros Hge. destruct (Nat.ltb_spec (length (cells c) - length (Spec.evict (window c) batch (abs_cells (cells c) (phys c)))) (length batch)); [lia|].
    simpl in Hout. destruct Hout as [[_ Hc]|[f [Ho _]]]; [discriminate|]. eauto.
Qed.
Print Assumptions C06_full_is_error.

(** *** Defragmentation (repaired) keeps every (cell, row) pair together and compacts the cache. *)
Theorem C06_defrag_repaired : forall c c', Inv c -> defrag true c = Some c' ->
  Inv c' /\ Permutation (live_pairs (cells c') (phys c')) (live_pairs (cells c) (phys c)) /\ compact (cells c').
Proof. intros c c' HI H. destruct (defrag_correct c c' HI H) as [A [B [C _]]]. auto. Qed.
Print Assumptions C06_defrag_repaired.

(** *** The defects of the code as found, as theorems about [fx = false] (see KvCache/ProofsFindings.v). *)

(** defrag as found: the full statement, its refutation, and the repaired statement is [C06_defrag_repaired] *)
Definition C06_defrag_as_found_full : Prop :=
  forall c c', Inv c -> defrag false c = Some c' -> Inv c'.
Theorem C06_defrag_as_found_refuted : ~ C06_defrag_as_found_full.
Proof. exact defrag_as_found_refuted. Qed.
Print Assumptions C06_defrag_as_found_refuted.

(** defrag as found divides by the number of layers: a forward pass into a cache without storage that does not
    fit panics instead of reporting ErrKvCacheFull *)
Theorem C06_defrag_as_found_panics : exists c batch, Inv c /\ valid_batch batch /\ snd (start_forward false c batch) = OPanic.
Proof. exact defrag_as_found_panics. Qed.
Print Assumptions C06_defrag_as_found_panics.

(** CanResume: the repaired check guarantees that the window of the resumed position is completely present
    (positions of a sequence being distinct, as the runner guarantees); the check as found does not *)
Theorem C06_can_resume_sound : forall c q p w, Inv c -> window c = Some w ->
  NoDup (map c_pos (filter (has q) (cells c))) ->
  can_resume true c q p = true ->
  forall x, Z.max 0 (p - w) <= x < p -> exists cl, In cl (cells c) /\ has q cl = true /\ c_pos cl = x.
Proof. exact can_resume_sound. Qed.
Print Assumptions C06_can_resume_sound.

Definition C06_can_resume_as_found_full : Prop :=
  forall c q p w, Inv c -> window c = Some w -> NoDup (map c_pos (filter (has q) (cells c))) ->
  can_resume false c q p = true ->
  forall x, Z.max 0 (p - w) <= x < p -> exists cl, In cl (cells c) /\ has q cl = true /\ c_pos cl = x.
Theorem C06_can_resume_as_found_refuted : ~ C06_can_resume_as_found_full.
Proof. exact can_resume_as_found_refuted. Qed.
Print Assumptions C06_can_resume_as_found_refuted.

(** *** The specification against the ideal history that never forgets (KvCache/ProofsWindow.v).
    [grun] runs the specification together with the ideal per-sequence histories [g_A] (store / copy of the prefix /
    removal with shift, by the meaning of the operations alone) and the ghost [g_M] of what the window evicted.
    [sop_ok]: valid positions, 0 <= begin <= end, CopyPrefix between different sequences. *)

(** after every history, for every sequence and position: ideal window = what the specification exposes ++ what was
    evicted inside that window *)
Theorem C06_window_ideal : forall cap w sh ops q p, Forall sop_ok ops ->
  let g := grun (ginit (Spec.spec_init cap w sh)) ops in
  Permutation (filter (inw w p) (g_A g q)) (Spec.visible_raw (g_s g) q p ++ filter (inw w p) (g_M g q)).
Proof.
  intros cap w sh ops q p Hok. cbv zeta.
  pose proof (grun_inv ops _ (ginit_inv cap w sh) Hok) as HG.
  pose proof (visible_ideal _ q p HG) as H. rewrite window_grun in H. exact H.
Qed.
Print Assumptions C06_window_ideal.

(** caches without a window: the exposed history is the ideal history, for every history whatsoever *)
Theorem C06_complete_no_window : forall cap sh ops q p, Forall sop_ok ops ->
  let g := grun (ginit (Spec.spec_init cap None sh)) ops in
  Permutation (filter (inw None p) (g_A g q)) (Spec.visible_raw (g_s g) q p).
Proof.
  intros cap sh ops q p Hok. cbv zeta. pose proof (C06_window_ideal cap None sh ops q p Hok) as H. cbv zeta in H.
  rewrite (no_window_no_eviction ops (ginit (Spec.spec_init cap None sh)) eq_refl (fun _ => eq_refl) q) in H.
  simpl in H. rewrite app_nil_r in H. exact H.
Qed.
Print Assumptions C06_complete_no_window.

(** sliding-window caches.  Full statement: after any history of valid operations, the tokens of a batch that continues
    each of its sequences where it ends see their complete ideal window.  It is FALSE: Remove of a middle range shifts
    the tail down, and the window of the next token reaches entries that were evicted (the known finding
    C06-swa-middle-remove, the TODO in kvcache/causal.go Remove). *)
Definition C06_window_complete_full : Prop :=
  forall cap w sh ops batch, Forall sop_ok ops -> sop_ok (Spec.SForward batch) ->
  let g0 := grun (ginit (Spec.spec_init cap (Some w) sh)) ops in
  contiguous_batch (g_A g0) batch ->
  let g := gstep g0 (Spec.SForward batch) in
  forall q p t, In (q, p, t) batch -> Permutation (filter (inw (Some w) p) (g_A g q)) (Spec.visible_raw (g_s g) q p).

Theorem C06_window_complete_refuted : ~ C06_window_complete_full.
Proof.
  intros H.
  specialize (H 12%nat 3 true
    [Spec.SForward [(0%nat, 0, 1%N); (0%nat, 1, 2%N); (0%nat, 2, 3%N); (0%nat, 3, 4%N)];
     Spec.SForward [(0%nat, 4, 5%N); (0%nat, 5, 6%N); (0%nat, 6, 7%N); (0%nat, 7, 8%N)];
     Spec.SRemove 0%nat 2 7]
    [(0%nat, 3, 20%N)]).
  cbv zeta in H.
  assert (Hp := fun a b c => H a b c 0%nat 3 20%N (or_introl eq_refl)). clear H.
  assert (HP : forall X Y : list (Z * N), (Permutation X Y) -> length X = length Y) by (intros; apply Permutation_length; assumption).
  eapply HP in Hp.
  - vm_compute in Hp. discriminate.
  - repeat constructor; unfold Spec.MaxInt32; simpl; lia.
  - repeat constructor; unfold Spec.MaxInt32; simpl; lia.
  - intros q L HL. simpl in HL. destruct q as [|q]; [|discriminate].
    injection HL as <-. vm_compute. reflexivity.
Qed.
Print Assumptions C06_window_complete_refuted.

(** the strongest partial statement, with the decidable guard that excludes exactly the failing class: a token sees its
    complete ideal window IF AND ONLY IF nothing the window evicted lies inside that window *)
Theorem C06_window_complete_partial : forall cap w sh ops q p, Forall sop_ok ops ->
  let g := grun (ginit (Spec.spec_init cap w sh)) ops in
  (filter (inw w p) (g_M g q) = [] <->
   Permutation (filter (inw w p) (g_A g q)) (Spec.visible_raw (g_s g) q p)).
Proof.
  intros cap w sh ops q p Hok. cbv zeta.
  pose proof (grun_inv ops _ (ginit_inv cap w sh) Hok) as HG.
  pose proof (complete_iff _ q p HG) as H. rewrite window_grun in H. exact H.
Qed.
Print Assumptions C06_window_complete_partial.

(** and the guard holds for the protocol "store where the sequence ends, or clear the sequence" (no CopyPrefix, no
    Remove other than Remove(seq, 0, MaxInt32)): every token of every batch of such a run sees its complete ideal window,
    whether or not intermediate batches were refused with ErrKvCacheFull *)
Theorem C06_window_complete_appends : forall cap w sh ops pre batch post,
  append_run (ginit (Spec.spec_init cap (Some w) sh)) ops -> ops = pre ++ Spec.SForward batch :: post ->
  forall q p t, In (q, p, t) batch ->
  let g := grun (ginit (Spec.spec_init cap (Some w) sh)) (pre ++ [Spec.SForward batch]) in
  Permutation (filter (inw (Some w) p) (g_A g q)) (Spec.visible_raw (g_s g) q p).
Proof.
  intros cap w sh ops pre batch post Hrun Heq q p t Hin.
  apply (append_run_complete ops w (ginit (Spec.spec_init cap (Some w) sh)) (ginit_inv cap (Some w) sh) eq_refl) with (post := post) (t := t); auto.
  intros q' x Hx. simpl in Hx. contradiction.
Qed.
Print Assumptions C06_window_complete_appends.

(** the complete caller protocol of sliding-window caches, truncate-and-resume included: store where the sequence ends;
    clear; or, after CanResume(seq, b) answered true, Remove(seq, b, MaxInt32) and continue at b ([proto_run]; batches store
    each position of a sequence once).  Every token of every batch of such a run sees its complete ideal window. *)
Theorem C06_window_complete_protocol : forall cap w sh ops pre batch post, 0 <= w ->
  proto_run (ginit (Spec.spec_init cap (Some w) sh)) ops -> ops = pre ++ Spec.SForward batch :: post ->
  forall q p t, In (q, p, t) batch ->
  let g := grun (ginit (Spec.spec_init cap (Some w) sh)) (pre ++ [Spec.SForward batch]) in
  Permutation (filter (inw (Some w) p) (g_A g q)) (Spec.visible_raw (g_s g) q p).
Proof.
  intros cap w sh ops pre batch post Hw Hrun Heq q p t Hin.
  apply (proto_run_complete ops w (ginit (Spec.spec_init cap (Some w) sh)) (ginit_inv cap (Some w) sh) eq_refl Hw)
    with (post := post) (t := t); auto.
  - intros q' x Hx. simpl in Hx. contradiction.
  - intros q'. simpl. constructor.
Qed.
Print Assumptions C06_window_complete_protocol.

(** end to end: what the MODEL exposes for a batch token, together with what the window evicted inside the token's
    window, is the token's ideal window *)
Theorem C06_exposed_is_ideal : forall w ms cap mb cp bp sh ops batch c' f,
  Z.of_nat (cache_size w ms cap mb (norm_pad cp)) < MaxInt ->
  Forall op_ok ops -> Forall sop_ok (map to_sop ops) -> valid_batch batch ->
  start_forward true (prun (init w ms cap mb cp bp sh) ops) batch = (c', OFwd f) ->
  let g := gstep (grun (ginit (Spec.spec_init (cache_size w ms cap mb (norm_pad cp)) w sh)) (map to_sop ops)) (Spec.SForward batch) in
  forall i e, nth_error batch i = Some e ->
  exists vis, nth_error (f_vis f) i = Some vis /\
    Permutation (map (kt (phys c')) vis ++ filter (inw w (e_pos e)) (g_M g (e_seq e)))
                (filter (inw w (e_pos e)) (g_A g (e_seq e))).
Proof.
  intros w ms cap mb cp bp sh ops batch c' f Hsz Hok Hsok Hvb Hsf g i e He.
  destruct (C06_refines w ms cap mb cp bp sh ops Hsz Hok) as [HI HR].
  destruct (C06_visible_exact _ _ batch c' f HI HR Hvb Hsf i e He) as [vis [Hn Hp]].
  exists vis. split; [exact Hn|].
  set (s0 := Spec.spec_init (cache_size w ms cap mb (norm_pad cp)) w sh) in *.
  assert (HG : GI g).
  { unfold g. apply gstep_inv; [apply grun_inv; [apply ginit_inv|exact Hsok]|]. destruct Hvb as [_ Hv]. exact Hv. }
  assert (Hgs : g_s g = fst (Spec.spec_forward (Spec.spec_prun s0 (map to_sop ops)) batch)).
  { unfold g. simpl. rewrite g_s_grun. simpl. destruct (Spec.spec_forward (Spec.spec_prun s0 (map to_sop ops)) batch). reflexivity. }
  assert (Hw : Spec.s_window (g_s g) = w).
  { pose proof (window_grun (map to_sop ops ++ [Spec.SForward batch]) (ginit s0)) as H.
    unfold grun in H. rewrite fold_left_app in H. simpl in H. exact H. }
  pose proof (visible_ideal g (e_seq e) (e_pos e) HG) as HV. rewrite Hw, Hgs in HV.
  apply Permutation_sym. eapply Permutation_trans; [exact HV|]. apply Permutation_app_tail. apply Permutation_sym. exact Hp.
Qed.
Print Assumptions C06_exposed_is_ideal.

(** *** WrapperCache (kvcache/wrapper.go) over two Causal caches with their own windows (gemma-style: sliding window +
    plain).  The state is the pair; the specification is the pair of specifications, with StartForward unwinding the first
    cache by Remove(seq_k, pos_k, MaxInt32) when the second refuses the batch, Remove stopping at the first failing cache and
    the prescribed Remove(seq, 0, MaxInt32) clearing both ([wpstep] / [wspec_pstep], KvCache/ProofsWrapper.v). *)
Theorem C06_wrapper_refines : forall w0 w1 ms cap mb cp bp sh ops,
  Z.of_nat (cache_size w0 ms cap mb (norm_pad cp)) < MaxInt -> Z.of_nat (cache_size w1 ms cap mb (norm_pad cp)) < MaxInt ->
  Forall op_ok ops ->
  let w := wprun (init w0 ms cap mb cp bp sh, init w1 ms cap mb cp bp sh) ops in
  Inv2 w /\
  R2 w (wspec_prun (Spec.spec_init (cache_size w0 ms cap mb (norm_pad cp)) w0 sh,
                    Spec.spec_init (cache_size w1 ms cap mb (norm_pad cp)) w1 sh) ops).
Proof.
  intros w0 w1 ms cap mb cp bp sh ops H0 H1 Hok. cbv zeta.
  destruct (init_inv w0 ms cap mb cp bp sh H0) as [I0 R0]. destruct (init_inv w1 ms cap mb cp bp sh H1) as [I1 R1].
  apply wprun_refines; [split; assumption|split; assumption|exact Hok].
Qed.
Print Assumptions C06_wrapper_refines.

Theorem C06_wrapper_step_refines : forall w ws o, Inv2 w -> R2 w ws -> op_ok o ->
  Inv2 (fst (wpstep w o)) /\ R2 (fst (wpstep w o)) (fst (wspec_pstep ws o)) /\
  out_agree (snd (wpstep w o)) (snd (wspec_pstep ws o)).
Proof. exact wstep_refines. Qed.
Print Assumptions C06_wrapper_step_refines.

(** each layer type sees exactly the visible history of its own cache's specification *)
Theorem C06_wrapper_visible_exact : forall c0 c1 s0 s1 batch w' f0 f1,
  Inv c0 -> Inv c1 -> R c0 s0 -> R c1 s1 -> valid_batch batch ->
  wstep true (c0, c1) (Forward batch) = (w', OFwd f0, OFwd f1) ->
  forall i e, nth_error batch i = Some e ->
  (exists vis, nth_error (f_vis f0) i = Some vis /\
     Permutation (map (kt (phys (fst w'))) vis) (Spec.visible_raw (fst (Spec.spec_forward s0 batch)) (e_seq e) (e_pos e))) /\
  (exists vis, nth_error (f_vis f1) i = Some vis /\
     Permutation (map (kt (phys (snd w'))) vis) (Spec.visible_raw (fst (Spec.spec_forward s1 batch)) (e_seq e) (e_pos e))).
Proof.
  intros c0 c1 s0 s1 batch w' f0 f1 HI0 HI1 HR0 HR1 Hvb H i e He. unfold wstep in H.
  destruct (start_forward_meta true c0 batch) as [c0' r0] eqn:E0. destruct r0 as [g0| | | |]; try (injection H; intros; discriminate).
  destruct (start_forward_meta true c1 batch) as [c1' r1] eqn:E1. destruct r1 as [g1| | | |]; try (injection H; intros; discriminate).
  injection H as <- <- <-. cbn [fst snd]. split.
  - apply (C06_visible_exact c0 s0 batch (put_batch c0' (f_loc g0) batch) g0 HI0 HR0 Hvb); [rewrite start_forward_eq, E0; reflexivity|exact He].
  - apply (C06_visible_exact c1 s1 batch (put_batch c1' (f_loc g1) batch) g1 HI1 HR1 Hvb); [rewrite start_forward_eq, E1; reflexivity|exact He].
Qed.
Print Assumptions C06_wrapper_visible_exact.

(** a forward pass refused by the wrapper (either cache full), the batch continuing its sequences: both caches keep the
    invariant and hold exactly what they held before minus what their own window evicted - the unwind removes the batch
    from the first cache and nothing else *)
Theorem C06_wrapper_full_is_error : forall c0 c1 s0 s1 batch,
  Inv c0 -> Inv c1 -> R c0 s0 -> R c1 s1 -> valid_batch batch ->
  (forall q p t a, In (q, p, t) batch -> In a (Spec.s_cells s0) -> Spec.has q a = true -> Spec.a_pos a < p) ->
  snd (wpstep (c0, c1) (Forward batch)) = OErr EFull ->
  let w' := fst (wpstep (c0, c1) (Forward batch)) in
  Inv2 w' /\
  exists s0' s1', R (fst w') s0' /\ R (snd w') s1' /\
    Spec.s_cells s0' = Spec.evict (Spec.s_window s0) batch (Spec.s_cells s0) /\
    (s1' = s1 \/ Spec.s_cells s1' = Spec.evict (Spec.s_window s1) batch (Spec.s_cells s1)).
Proof. exact wrapper_full_fresh. Qed.
Print Assumptions C06_wrapper_full_is_error.

(** *** SetCausal (CausalOptions.Except, gemma3 image batches).  Inside a pass, after any sequence of SetCausal calls (each
    with a context) the mask Get returns is the one of the exemption list given LAST: a token that is not exempt has exactly
    its causal row - the row StartForward built, to which [C06_visible_exact] applies - and after a reset to the empty list the
    whole mask is the causal mask again, whatever was exempt before.  Across passes nothing is carried: StartForward
    ([start_forward], whose mask [C06_visible_exact] describes) does not depend on earlier SetCausal calls. *)
Theorem C06_set_causal_exact : forall c pr batch calls,
  let ps := run_calls c pr batch (mkPass [] (causal_rows c pr batch)) calls in
  p_vis ps = rows_ex c pr batch (last calls []) /\
  (forall i q p t, nth_error batch i = Some (q, p, t) -> existsb (Nat.eqb i) (last calls []) = false ->
     nth_error (p_vis ps) i = Some (mask_row (window c) (cells c) pr q p)) /\
  (last calls [] = [] -> p_vis ps = causal_rows c pr batch).
Proof.
  intros c pr batch calls. cbv zeta.
  assert (H0 : pass_ok c pr batch (mkPass [] (causal_rows c pr batch))) by (unfold pass_ok; simpl; symmetry; apply rows_ex_nil).
  destruct (set_causal_run calls c pr batch _ H0) as [H1 H2]. simpl in H2. unfold pass_ok in H1. rewrite H2 in H1.
  split; [exact H1|]. split.
  - intros i q p t Hn He. rewrite H1. eapply rows_ex_not_exempt; eauto.
  - intros E. rewrite H1, E. apply rows_ex_nil.
Qed.
Print Assumptions C06_set_causal_exact.

(** *** Backend faults.  The only error-returning backend calls inside the cache are the mask upload in StartForward and,
    in Remove's shift, the upload of the offsets and the model's shift function ([start_forward_fault], [remove_fault]:
    the state the code leaves - nothing is rolled back).  After the recovery the code base itself uses for a partly performed
    StartForward (WrapperCache: Remove(seq_k, pos_k, MaxInt32) for every batch entry), resp. the clearing that kvcache/cache.go
    prescribes after a failed Remove, the cache satisfies the invariant again and holds exactly the specified entries - so by
    [C06_visible_exact] every later visible history is exact. *)
Theorem C06_fault_forward_recovers : forall c s batch c', Inv c -> R c s -> valid_batch batch ->
  start_forward_fault true c batch = (c', OErr EBackend) ->
  Inv (unwind c' batch) /\ R (unwind c' batch) (spec_unwind (fst (Spec.spec_forward s batch)) batch).
Proof. exact fault_forward_recovers. Qed.
Print Assumptions C06_fault_forward_recovers.

Theorem C06_fault_remove_recovers : forall c s q b e c', Inv c -> R c s -> 0 <= b <= e ->
  remove_fault c q b e = (c', OErr EBackend) ->
  snd (remove c' q 0 MaxInt32) = OOk /\ Inv (fst (remove c' q 0 MaxInt32)) /\ R (fst (remove c' q 0 MaxInt32)) (sclear s q).
Proof. exact fault_remove_recovers. Qed.
Print Assumptions C06_fault_remove_recovers.

(** *** EncoderCache (kvcache/encoder.go, with fixes/C06-encoder-shift.patch).  Its one entry (the K/V of the most recent
    image, per cross-attention layer) is exposed - EncoderCached() true and Get returning it - exactly as long as the
    position it was stored for is part of the sequence; positions are followed through the shifts of Remove.  Histories:
    forward passes with an image (StartForward with its index, Put on every layer, Compute), without, reservation passes
    (never computed), Remove.  [pe_ok]: multimodal indices lie inside the batch. *)
Theorem C06_encoder_exact : forall layers ops, layers <> [] -> Forall pe_ok ops ->
  exists e, perun true layers enc_init ops = Some e /\
    match ideal_run None ops with
    | None => e_cached e = false
    | Some (p, img) => e_cached e = true /\ Model.e_pos e = p /\ forall l, In l layers -> lookupN (e_data e) l = Some img
    end.
Proof.
  intros layers ops Hl Hok. destruct (enc_refines layers ops enc_init None Hl (EI_init layers) Hok) as [e [He [_ HE]]].
  exists e. auto.
Qed.
Print Assumptions C06_encoder_exact.

(** WrapperCache(EncoderCache, Causal) as mllama builds it ([ewstep]): a pass with an image / without / a Remove drives the
    encoder component through exactly the protocol operations of [C06_encoder_exact] and the Causal component through
    StartForward+Put / Remove (so [C06_step_refines] applies to it); a refused pass whose batch lies behind the image leaves the
    encoder entry as it was *)
Theorem C06_encwrap_components : forall e c,
  (forall batch a id e' c' f, ewstep true (e, c) (EWForward batch (Some (a, id))) = Some ((e', c'), OFwd f) ->
     erun true e (expand [0%nat] (PStore (map (fun x : entry => snd (fst x)) batch) a id)) = Some e' /\ start_forward true c batch = (c', OFwd f)) /\
  (forall batch e' c' f, ewstep true (e, c) (EWForward batch None) = Some ((e', c'), OFwd f) ->
     erun true e (expand [0%nat] (PText (map (fun x : entry => snd (fst x)) batch))) = Some e' /\ start_forward true c batch = (c', OFwd f)) /\
  (forall q b en e' c' r, ewstep true (e, c) (EWRemove q b en) = Some ((e', c'), r) ->
     erun true e (expand [0%nat] (PRemove b en)) = Some e' /\ remove c q b en = (c', r)) /\
  (forall batch img e' c' er, ewstep true (e, c) (EWForward batch img) = Some ((e', c'), OErr er) ->
     (forall q p t, In (q, p, t) batch -> Model.e_pos e < p) ->
     e_cached e' = e_cached e /\ Model.e_pos e' = Model.e_pos e /\ e_data e' = e_data e /\ start_forward true c batch = (c', OErr er)).
Proof.
  intros e c. split; [|split; [|split]].
  - intros; eapply encwrap_forward_image; eauto.
  - intros; eapply encwrap_forward_text; eauto.
  - intros; eapply encwrap_remove; eauto.
  - intros; eapply encwrap_refused; eauto.
Qed.
Print Assumptions C06_encwrap_components.

Definition C06_encoder_as_found_full : Prop :=
  forall layers ops e', layers <> [] -> Forall pe_ok ops ->
  perun false layers enc_init ops = Some e' -> EI layers e' (ideal_run None ops).
Theorem C06_encoder_as_found_refuted : ~ C06_encoder_as_found_full.
Proof. exact enc_as_found_refuted. Qed.
Print Assumptions C06_encoder_as_found_refuted.

(** *** Non-vacuity: a concrete history (store, copy the prefix, diverge, remove a middle range with shift, clear a
    sequence, store a batch that only fits after defragmentation) satisfies the hypotheses; the cache (6 locations)
    ends up defragmented and the visible history of the last token is the expected one *)
Example C06_example_history :
  let ops := [Forward [(0%nat, 0, 1%N); (0%nat, 1, 2%N); (0%nat, 2, 3%N)];
              Copy 0 1 2;
              Forward [(1%nat, 2, 4%N)];
              Remove 0 1 2;
              Forward [(0%nat, 2, 5%N); (1%nat, 3, 6%N)];
              Remove 1 0 MaxInt32;
              Forward [(0%nat, 3, 7%N); (0%nat, 4, 8%N); (0%nat, 5, 9%N)]] in
  Forall op_ok ops /\
  Z.of_nat (cache_size None 2 3 3 (norm_pad 1)) < MaxInt /\
  let c := prun (init None 2 3 3 1 1 true) ops in
  Spec.visible (Spec.spec_prun (Spec.spec_init 6 None true) (map to_sop ops)) 0%nat 5 =
    [(0, 1%N); (1, 3%N); (2, 5%N); (3, 7%N); (4, 8%N); (5, 9%N)] /\
  map (fun cl => (c_pos cl, c_seqs cl)) (cells c) =
    [(0, [0%nat]); (2, [0%nat]); (1, [0%nat]); (3, [0%nat]); (4, [0%nat]); (5, [0%nat])] /\
  map (kt (phys c)) [0; 1; 2; 3; 4; 5]%nat = [(0, 1%N); (2, 5%N); (1, 3%N); (3, 7%N); (4, 8%N); (5, 9%N)].
Proof.
  cbv zeta. split; [|split].
  - repeat constructor; unfold valid_batch, e_pos, MaxInt32; simpl; try (intro; discriminate); try lia;
      repeat constructor; simpl; lia.
  - vm_compute. reflexivity.
  - vm_compute. repeat split; reflexivity.
Qed.

(** the hypotheses of [C06_can_resume_sound] are satisfiable with a positive answer *)
Example C06_example_resume :
  let c := prun (init (Some 2) 1 8 4 1 1 true)
             [Forward [(0%nat, 0, 1%N); (0%nat, 1, 2%N); (0%nat, 2, 3%N)]; Forward [(0%nat, 3, 4%N)]; Forward [(0%nat, 4, 5%N)]] in
  window c = Some 2 /\ NoDup (map c_pos (filter (has 0%nat) (cells c))) /\ can_resume true c 0%nat 4 = true /\
  can_resume true c 0%nat 3 = false.
Proof.
  cbv zeta. vm_compute. repeat split; try reflexivity. repeat constructor; simpl; intuition discriminate.
Qed.

(** the guard of [C06_window_complete_partial] holds in a run in which the window did evict entries, and the protocol
    of [C06_window_complete_appends] is satisfiable by such a run *)
Example C06_example_window :
  let ops := [Spec.SForward [(0%nat, 0, 1%N); (0%nat, 1, 2%N); (0%nat, 2, 3%N); (0%nat, 3, 4%N)];
              Spec.SForward [(0%nat, 4, 5%N); (0%nat, 5, 6%N); (0%nat, 6, 7%N); (0%nat, 7, 8%N)];
              Spec.SForward [(0%nat, 8, 9%N)]] in
  let g := grun (ginit (Spec.spec_init 12 (Some 3) true)) ops in
  Forall sop_ok ops /\ append_run (ginit (Spec.spec_init 12 (Some 3) true)) ops /\
  g_M g 0%nat = [(0, 1%N); (1, 2%N); (2, 3%N); (3, 4%N); (4, 5%N)] /\ filter (inw (Some 3) 8) (g_M g 0%nat) = [] /\
  Spec.visible_raw (g_s g) 0%nat 8 = [(5, 6%N); (6, 7%N); (7, 8%N); (8, 9%N)].
Proof.
  cbv zeta. split; [|split].
  - repeat constructor; unfold Spec.MaxInt32; simpl; lia.
  - simpl. repeat split; try (repeat constructor; unfold Spec.MaxInt32; simpl; lia);
      intros q L HL; simpl in HL; destruct q as [|q]; try discriminate; injection HL as <-; vm_compute; reflexivity.
  - vm_compute. repeat split; reflexivity.
Qed.

(** wrapper and encoder hypotheses are satisfiable: a refused batch in a 2+2... wrapper whose second cache is full, and an
    image that survives a context shift at its new position while a later removal of that position drops it *)
Example C06_example_wrapper :
  let w := wprun (init (Some 2) 1 8 2 1 1 true, init None 1 4 2 1 1 true)
             [Forward [(0%nat, 0, 1%N); (0%nat, 1, 2%N)]; Forward [(0%nat, 2, 3%N); (0%nat, 3, 4%N)]] in
  snd (wpstep w (Forward [(0%nat, 4, 5%N)])) = OErr EFull /\
  map (fun cl => (c_pos cl, c_seqs cl)) (cells (fst (fst (wpstep w (Forward [(0%nat, 4, 5%N)]))))) =
    [(4, []); (1, []); (2, [0%nat]); (3, [0%nat])].
Proof. cbv zeta. vm_compute. split; reflexivity. Qed.

Example C06_example_encoder :
  let ops := [PStore [0; 1; 2; 3] 2 7%N; PText [4; 5]; PRemove 0 2; PReserve [4; 5] [1%nat] 9%N; PRemove 1 4] in
  Forall pe_ok ops /\ ideal_run None (firstn 4 ops) = Some (0, 7%N) /\ ideal_run None ops = Some (0, 7%N) /\
  ideal_run None (ops ++ [PRemove 0 1]) = None /\
  match perun true [0%nat; 3%nat] enc_init ops with Some e => e_cached e = true /\ Model.e_pos e = 0 | None => False end.
Proof. cbv zeta. split; [repeat constructor; simpl; try discriminate; right; discriminate|]. vm_compute. repeat split; reflexivity. Qed.

(** [C06_window_complete_protocol]: a run with eviction, a granted CanResume, the truncation and the continuation *)
Example C06_example_protocol :
  let s0 := Spec.spec_init 12 (Some 3) true in
  let ops := [Spec.SForward [(0%nat, 0, 1%N); (0%nat, 1, 2%N); (0%nat, 2, 3%N); (0%nat, 3, 4%N)];
              Spec.SForward [(0%nat, 4, 5%N); (0%nat, 5, 6%N)];
              Spec.SCanResume 0%nat 5;
              Spec.SRemove 0%nat 5 Spec.MaxInt32;
              Spec.SForward [(0%nat, 5, 7%N)]] in
  proto_run (ginit s0) ops /\
  Spec.spec_can_resume (g_s (grun (ginit s0) (firstn 2 ops))) 0%nat 5 = true /\
  Spec.spec_can_resume (g_s (grun (ginit s0) (firstn 2 ops))) 0%nat 3 = false /\
  Spec.visible_raw (g_s (grun (ginit s0) ops)) 0%nat 5 = [(2, 3%N); (3, 4%N); (4, 5%N); (5, 7%N)].
Proof.
  cbv zeta. split; [|vm_compute; repeat split; reflexivity].
  simpl. repeat split; try (repeat constructor; unfold Spec.MaxInt32; simpl; lia);
    try (intros q L HL; simpl in HL; destruct q as [|q]; try discriminate; injection HL as <-; vm_compute; reflexivity);
    try (intros q; destruct q as [|q]; vm_compute; repeat constructor; simpl; intuition discriminate).
Qed.
