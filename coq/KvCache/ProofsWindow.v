(** KvCache/ProofsWindow.v - the specification (KvCache/Spec.v, which evicts what slid out of the window) against
    the *ideal* history that never forgets: per sequence the list of (position, token) stored, copied and removed
    by the meaning of the operations alone.

    A ghost component [M] collects, per sequence, what the sliding window evicted.  Main lemma ([ghost_inv]):
    after every history, for every sequence, ideal history = what the specification state still holds ++ what was
    evicted.  Consequently a token sees exactly its ideal window iff nothing evicted lies inside that window
    ([visible_ideal]).  Without a window nothing is ever evicted; with a window, appending keeps evicted entries
    below every later window, while Remove of a middle range (positions shift down) does not - the known finding. *)
From Coq Require Import List ZArith NArith Bool Arith Lia Permutation.
From V Require Import KvCache.ProofsInv.
From V Require Import KvCache.Spec.
Import ListNotations.
Open Scope Z_scope.

Definition pmap := nat -> list (Z * N).
Definition upd (f : pmap) (q : nat) (v : list (Z * N)) : pmap := fun x => if Nat.eqb x q then v else f x.

Definition batch_of (batch : list entry) (q : nat) : list (Z * N) :=
  map (fun e : entry => (snd (fst e), snd e)) (filter (fun e : entry => Nat.eqb q (fst (fst e))) batch).

Definition rm_list (b e : Z) (l : list (Z * N)) : list (Z * N) :=
  filter (fun x => fst x <? b) l ++ map (fun x => (fst x + rm_offset b e, snd x)) (filter (fun x => e <=? fst x) l).

(** the ideal operations, on one per-sequence map *)
Definition a_forward (A : pmap) (batch : list entry) : pmap := fun q => A q ++ batch_of batch q.
Definition a_copy (A : pmap) (src dst : nat) (len : Z) : pmap := upd A dst (filter (fun x => fst x <? len) (A src)).
Definition a_remove (A : pmap) (q : nat) (b e : Z) : pmap := upd A q (rm_list b e (A q)).
Definition a_clear (A : pmap) (q : nat) : pmap := upd A q [].

(** what the window evicts from sequence [q] when [batch] is stored *)
Definition m_forward (w : option Z) (M : pmap) (s : sstate) (batch : list entry) : pmap :=
  match w with
  | None => M
  | Some w => fun q => M q ++ filter (fun x => evicted w batch q (fst x)) (hist_raw s q)
  end.

Record gstate := mkG { g_s : sstate; g_A : pmap; g_M : pmap }.

Definition gstep (g : gstate) (o : sop) : gstate :=
  match o with
  | SForward batch =>
      let '(s', e) := spec_forward (g_s g) batch in
      mkG s' (match e with None => a_forward (g_A g) batch | Some _ => g_A g end)
          (m_forward (s_window (g_s g)) (g_M g) (g_s g) batch)
  | SCopy src dst len => mkG (spec_copy (g_s g) src dst len) (a_copy (g_A g) src dst len) (a_copy (g_M g) src dst len)
  | SRemove q b e =>
      let '(s', r) := spec_remove_c (g_s g) q b e in
      match r with
      | None => mkG s' (a_remove (g_A g) q b e) (a_remove (g_M g) q b e)
      | Some _ => mkG s' (a_clear (g_A g) q) (a_clear (g_M g) q)
      end
  | SCanResume _ _ => g
  end.

Definition grun (g : gstate) (ops : list sop) : gstate := fold_left gstep ops g.
Definition ginit (s : sstate) : gstate := mkG s (fun _ => []) (fun _ => []).

Lemma g_s_grun : forall ops g, g_s (grun g ops) = spec_prun (g_s g) ops.
Proof.
  induction ops as [|o t IH]; intros g; simpl; auto. rewrite IH. f_equal.
  destruct o; simpl; auto.
  - destruct (spec_forward (g_s g) batch); reflexivity.
  - destruct (spec_remove_c (g_s g) q b e) as [s' [er|]]; reflexivity.
Qed.

(** ** validity of operations and of states *)
Definition sop_ok (o : sop) : Prop :=
  match o with
  | SForward batch => Forall (fun e : entry => 0 <= snd (fst e) < MaxInt32) batch
  | SRemove _ b e => 0 <= b <= e
  | SCopy src dst _ => src <> dst
  | SCanResume _ _ => True
  end.

Definition pos_ok (s : sstate) : Prop := Forall (fun a => 0 <= a_pos a < MaxInt32) (s_cells s).

Record GI (g : gstate) : Prop := mkGI {
  gi_pos : pos_ok (g_s g);
  gi_perm : forall q, Permutation (hist_raw (g_s g) q ++ g_M g q) (g_A g q)
}.

(** ** per-sequence projections of the specification's operations *)
Lemma has_live_spec : forall q a, has q a = true -> live a = true.
Proof. intros q [p t [|x sq]] H; simpl in *; [discriminate|reflexivity]. Qed.

Lemma filter_has_prune : forall q l, filter (has q) (prune l) = filter (has q) l.
Proof.
  intros q l. unfold prune. rewrite filter_filter. apply filter_ext_in'. intros x _.
  destruct (has q x) eqn:E; [rewrite (has_live_spec _ _ E); reflexivity|apply andb_false_r].
Qed.

Lemma hist_raw_cells : forall s l q, hist_raw (with_cells s l) q = map pt (filter (has q) l).
Proof. reflexivity. Qed.

Lemma hist_batch : forall batch q, map pt (filter (has q) (map entry_cell batch)) = batch_of batch q.
Proof.
  intros batch q. unfold batch_of. induction batch as [|[[q' p] t] r IH]; simpl; auto.
  unfold has at 1. simpl. rewrite orb_false_r. destruct (Nat.eqb q q'); simpl; rewrite IH; reflexivity.
Qed.

Lemma filter_partition_perm : forall A (f : A -> bool) l, Permutation (filter (fun x => negb (f x)) l ++ filter f l) l.
Proof.
  intros A f l. induction l as [|a t IH]; simpl; auto. destruct (f a); simpl.
  - apply Permutation_sym, Permutation_cons_app, Permutation_sym. exact IH.
  - constructor. exact IH.
Qed.

Lemma has_filter_seqs : forall q (f : seqid -> bool) p t sq, has q (mkA p t (filter f sq)) = has q (mkA p t sq) && f q.
Proof.
  intros q f p t sq. unfold has. simpl. induction sq as [|x r IH]; simpl; auto.
  destruct (f x) eqn:Ef; simpl.
  - rewrite IH. destruct (Nat.eqb_spec q x); simpl; [subst; rewrite Ef; reflexivity|reflexivity].
  - rewrite IH. destruct (Nat.eqb_spec q x); simpl; [subst; rewrite Ef, andb_false_r; reflexivity|reflexivity].
Qed.

Lemma hist_evict : forall w batch l q,
  map pt (filter (has q) (prune (map (evict_cell w batch) l))) =
  filter (fun x => negb (evicted w batch q (fst x))) (map pt (filter (has q) l)).
Proof.
  intros w batch l q. rewrite filter_has_prune. induction l as [|[p t sq] r IH]; simpl; auto.
  unfold evict_cell at 1. simpl. rewrite has_filter_seqs. simpl.
  destruct (has q (mkA p t sq)); simpl; [|exact IH].
  destruct (evicted w batch q p); simpl; rewrite IH; reflexivity.
Qed.

Lemma has_drop_same : forall q a, has q (drop_seq q a) = false.
Proof.
  intros q [p t sq]. unfold has, drop_seq. simpl. induction sq as [|x r IH]; simpl; auto.
  destruct (Nat.eqb_spec x q); simpl; auto. destruct (Nat.eqb_spec q x); [lia|]. exact IH.
Qed.

Lemma has_drop_other : forall q q' a, q <> q' -> has q (drop_seq q' a) = has q a.
Proof.
  intros q q' [p t sq] H. unfold has, drop_seq. simpl. induction sq as [|x r IH]; simpl; auto.
  destruct (Nat.eqb_spec x q'); simpl.
  - subst. destruct (Nat.eqb_spec q q'); [lia|]. exact IH.
  - rewrite IH. reflexivity.
Qed.

Lemma has_add_seq : forall q q' a, has q (add_seq q' a) = has q a || Nat.eqb q q'.
Proof. intros q q' [p t sq]. unfold has, add_seq. simpl. rewrite existsb_app. simpl. rewrite orb_false_r. reflexivity. Qed.

Lemma copy_cell_pt : forall src dst len a, pt (copy_cell src dst len a) = pt a.
Proof. intros src dst len [p t sq]. unfold copy_cell. simpl. destruct (_ && _); reflexivity. Qed.

Lemma copy_cell_has : forall src dst len a q, src <> dst ->
  has q (copy_cell src dst len a) = if Nat.eqb q dst then has src a && (a_pos a <? len) else has q a.
Proof.
  intros src dst len a q Hne. unfold copy_cell. rewrite (has_drop_other src dst a Hne).
  destruct (Nat.eqb_spec q dst) as [->|Hq].
  - destruct (has src a && (a_pos a <? len)).
    + rewrite has_add_seq, Nat.eqb_refl. apply orb_true_r.
    + apply has_drop_same.
  - destruct (has src a && (a_pos a <? len)).
    + rewrite has_add_seq. destruct (Nat.eqb_spec q dst); [contradiction|]. rewrite orb_false_r. apply has_drop_other. exact Hq.
    + apply has_drop_other. exact Hq.
Qed.

Lemma hist_copy : forall s src dst len q, src <> dst ->
  hist_raw (spec_copy s src dst len) q =
  if Nat.eqb q dst then filter (fun x => fst x <? len) (hist_raw s src) else hist_raw s q.
Proof.
  intros s src dst len q Hne. unfold spec_copy, hist_raw. simpl. rewrite filter_has_prune.
  induction (s_cells s) as [|a r IH]; simpl.
  - destruct (Nat.eqb q dst); reflexivity.
  - rewrite (copy_cell_has src dst len a q Hne). destruct (Nat.eqb q dst).
    + destruct (has src a); simpl.
      * change (fst (pt a)) with (a_pos a). destruct (a_pos a <? len); simpl; rewrite ?copy_cell_pt, IH; reflexivity.
      * exact IH.
    + destruct (has q a); simpl; rewrite ?copy_cell_pt, IH; reflexivity.
Qed.

(** Remove that succeeds: the other sequences are untouched; the sequence itself loses the range and its tail shifts *)
Lemma hist_remove_other : forall l q q' b e, q' <> q -> existsb (rm_blocked q b e) l = false ->
  map pt (filter (has q') (map (rm_cell q b e) l)) = map pt (filter (has q') l).
Proof.
  intros l q q' b e Hne. induction l as [|a r IH]; simpl; auto. intros Hb. apply orb_false_iff in Hb. destruct Hb as [Hb1 Hb2].
  destruct (has q a) eqn:Hq.
  - destruct (in_range b e (a_pos a)) eqn:Hin.
    + replace (rm_cell q b e a) with (drop_seq q a) by (unfold rm_cell; rewrite Hq, Hin; reflexivity).
      rewrite (has_drop_other q' q a Hne). assert (Hpt : pt (drop_seq q a) = pt a) by (destruct a; reflexivity).
      destruct (has q' a); simpl; rewrite ?Hpt, IH; auto.
    + destruct (e <=? a_pos a) eqn:He.
      * (* would be shifted: then nobody else owns it *)
        replace (rm_cell q b e a) with (shift_pos (rm_offset b e) a) by (unfold rm_cell; rewrite Hq, Hin, He; reflexivity).
        unfold rm_blocked in Hb1. rewrite Hq, Hin, He in Hb1. simpl in Hb1.
        assert (Hq' : has q' a = false).
        { destruct (has q' a) eqn:E; auto. exfalso. unfold others in Hb1. unfold has in E.
          apply existsb_exists in E. destruct E as [x [Hx Hxe]]. apply Nat.eqb_eq in Hxe. subst x.
          assert (existsb (fun x => negb (Nat.eqb x q)) (a_seqs a) = true).
          { apply existsb_exists. exists q'. split; auto. destruct (Nat.eqb_spec q' q); [contradiction|reflexivity]. }
          congruence. }
        assert (Hs : has q' (shift_pos (rm_offset b e) a) = has q' a) by (destruct a; reflexivity).
        rewrite Hs, Hq'. apply IH. exact Hb2.
      * replace (rm_cell q b e a) with a by (unfold rm_cell; rewrite Hq, Hin, He; reflexivity).
        destruct (has q' a); simpl; rewrite IH; auto.
  - replace (rm_cell q b e a) with a by (unfold rm_cell; rewrite Hq; reflexivity).
    destruct (has q' a); simpl; rewrite IH; auto.
Qed.

Lemma hist_remove_same : forall l q b e, b <= e ->
  Permutation (map pt (filter (has q) (map (rm_cell q b e) l))) (rm_list b e (map pt (filter (has q) l))).
Proof.
  intros l q b e Hbe. unfold rm_list. induction l as [|a r IH]; simpl; auto.
  destruct (has q a) eqn:Hq.
  2:{ replace (rm_cell q b e a) with a by (unfold rm_cell; rewrite Hq; reflexivity). rewrite Hq. exact IH. }
  simpl. change (fst (pt a)) with (a_pos a).
  destruct (in_range b e (a_pos a)) eqn:Hin.
  - replace (rm_cell q b e a) with (drop_seq q a) by (unfold rm_cell; rewrite Hq, Hin; reflexivity).
    rewrite has_drop_same. unfold in_range in Hin. apply andb_true_iff in Hin. destruct Hin as [H1 H2].
    apply Z.leb_le in H1. apply Z.ltb_lt in H2.
    destruct (Z.ltb_spec (a_pos a) b); [lia|]. destruct (Z.leb_spec e (a_pos a)); [lia|]. exact IH.
  - destruct (e <=? a_pos a) eqn:He.
    + replace (rm_cell q b e a) with (shift_pos (rm_offset b e) a) by (unfold rm_cell; rewrite Hq, Hin, He; reflexivity).
      assert (Hs : has q (shift_pos (rm_offset b e) a) = true) by (destruct a; exact Hq). rewrite Hs. simpl.
      apply Z.leb_le in He. destruct (Z.ltb_spec (a_pos a) b); [lia|]. simpl.
      apply Permutation_cons_app. exact IH.
    + replace (rm_cell q b e a) with a by (unfold rm_cell; rewrite Hq, Hin, He; reflexivity).
      rewrite Hq. simpl. apply Z.leb_gt in He. unfold in_range in Hin.
      destruct (Z.ltb_spec (a_pos a) b).
      * simpl. constructor. exact IH.
      * exfalso. destruct (Z.leb_spec b (a_pos a)); destruct (Z.ltb_spec (a_pos a) e); simpl in Hin; try discriminate; lia.
Qed.

(** clearing a sequence *)
Lemma clear_cells : forall s q, pos_ok s ->
  spec_remove s q 0 MaxInt32 = (with_cells s (prune (map (drop_seq q) (s_cells s))), None).
Proof.
  intros s q Hp. unfold spec_remove.
  assert (Hb : existsb (rm_blocked q 0 MaxInt32) (s_cells s) = false).
  { unfold pos_ok in Hp. induction Hp as [|a r Ha Hr IH]; simpl; auto. rewrite IH, orb_false_r.
    unfold rm_blocked. destruct (Z.leb_spec MaxInt32 (a_pos a)); [lia|]. rewrite andb_false_r. reflexivity. }
  rewrite Hb.
  assert (Hm : map (rm_cell q 0 MaxInt32) (s_cells s) = map (drop_seq q) (s_cells s)).
  { clear Hb. unfold pos_ok in Hp. induction Hp as [|a r Ha Hr IH]; simpl; auto. rewrite IH. f_equal.
    unfold rm_cell, in_range. destruct (has q a) eqn:Hq.
    - destruct (Z.leb_spec 0 (a_pos a)); destruct (Z.ltb_spec (a_pos a) MaxInt32); simpl; try lia. reflexivity.
    - destruct a as [p t sq]. unfold drop_seq, has in *. simpl in *. f_equal. clear - Hq.
      induction sq as [|x l IH]; simpl in *; auto. apply orb_false_iff in Hq. destruct Hq as [H1 H2].
      destruct (Nat.eqb_spec x q); simpl; [subst; rewrite Nat.eqb_refl in H1; discriminate|]. f_equal. auto. }
  rewrite Hm.
  assert (Hn : existsb (has q) (prune (map (drop_seq q) (s_cells s))) = false).
  { destruct (existsb (has q) (prune (map (drop_seq q) (s_cells s)))) eqn:E; auto. exfalso.
    apply existsb_exists in E. destruct E as [x [Hx Hq]]. unfold prune in Hx. apply filter_In in Hx. destruct Hx as [Hx _].
    apply in_map_iff in Hx. destruct Hx as [a [<- _]]. rewrite has_drop_same in Hq. discriminate. }
  rewrite Hn. reflexivity.
Qed.

Lemma hist_clear : forall l q q',
  map pt (filter (has q') (prune (map (drop_seq q) l))) = if Nat.eqb q' q then [] else map pt (filter (has q') l).
Proof.
  intros l q q'. rewrite filter_has_prune. destruct (Nat.eqb_spec q' q) as [E|Hne].
  - subst q'. induction l as [|a r IH]; simpl; auto. rewrite has_drop_same. exact IH.
  - induction l as [|a r IH]; simpl; auto.
    rewrite (has_drop_other q' q a Hne). assert (Hpt : pt (drop_seq q a) = pt a) by (destruct a; reflexivity).
    destruct (has q' a); simpl; rewrite ?Hpt, IH; reflexivity.
Qed.

(** ** positions stay valid *)
Lemma pos_ok_prune_map : forall (f : acell -> acell) s l,
  (forall a, 0 <= a_pos a < MaxInt32 -> 0 <= a_pos (f a) < MaxInt32) ->
  Forall (fun a => 0 <= a_pos a < MaxInt32) l -> pos_ok (with_cells s (prune (map f l))).
Proof.
  intros f s l Hf Hl. unfold pos_ok. simpl. apply Forall_forall. intros x Hx. unfold prune in Hx. apply filter_In in Hx.
  destruct Hx as [Hx _]. apply in_map_iff in Hx. destruct Hx as [a [<- Ha]]. apply Hf. rewrite Forall_forall in Hl. auto.
Qed.

Lemma rm_cell_pos : forall q b e a, 0 <= b <= e -> 0 <= a_pos a < MaxInt32 -> 0 <= a_pos (rm_cell q b e a) < MaxInt32.
Proof.
  intros q b e [p t sq] Hbe Hp. unfold rm_cell, rm_offset. simpl in *. destruct (has q _); auto.
  destruct (in_range b e p); auto. destruct (Z.leb_spec e p); auto. simpl.
  destruct (Z.eqb_spec e MaxInt32); lia.
Qed.

Lemma spec_remove_pos : forall s q b e, pos_ok s -> 0 <= b <= e -> pos_ok (fst (spec_remove s q b e)).
Proof.
  intros s q b e Hp Hbe. unfold spec_remove.
  assert (H : pos_ok (with_cells s (prune (map (rm_cell q b e) (s_cells s)))))
    by (apply pos_ok_prune_map; [intros; apply rm_cell_pos; assumption|exact Hp]).
  repeat match goal with |- context [if ?x then _ else _] => destruct x end; simpl; auto.
Qed.

Lemma spec_remove_ok_shape : forall s q b e s1, spec_remove s q b e = (s1, None) ->
  existsb (rm_blocked q b e) (s_cells s) = false /\ s1 = with_cells s (prune (map (rm_cell q b e) (s_cells s))).
Proof.
  intros s q b e s1 H. unfold spec_remove in H. destruct (existsb (rm_blocked q b e) (s_cells s)); [discriminate|].
  split; [reflexivity|].
  repeat match type of H with context [if ?x then _ else _] => destruct x end; try discriminate; injection H as <-; reflexivity.
Qed.

(** ** the ghost invariant *)
Lemma rm_list_perm : forall b e l l', Permutation l l' -> Permutation (rm_list b e l) (rm_list b e l').
Proof.
  intros b e l l' H. unfold rm_list. apply Permutation_app; [apply Permutation_filter'|apply Permutation_map, Permutation_filter']; assumption.
Qed.

Lemma rm_list_app : forall b e l1 l2, Permutation (rm_list b e (l1 ++ l2)) (rm_list b e l1 ++ rm_list b e l2).
Proof.
  intros. unfold rm_list. rewrite !filter_app, map_app. rewrite <- !app_assoc. apply Permutation_app_head.
  rewrite !app_assoc. apply Permutation_app_tail. apply Permutation_app_comm.
Qed.

Lemma evicted_none : forall w batch q x, lowest batch q = None -> evicted w batch q x = false.
Proof. intros. unfold evicted. rewrite H. reflexivity. Qed.

Theorem gstep_inv : forall g o, GI g -> sop_ok o -> GI (gstep g o).
Proof.
  intros g o [Hpos Hperm] Hok. destruct o as [batch|src dst len|q b e|q p]; simpl in *.
  - (* forward *)
    unfold spec_forward.
    set (l := evict (s_window (g_s g)) batch (s_cells (g_s g))).
    assert (Hl : Forall (fun a => 0 <= a_pos a < MaxInt32) l).
    { unfold l, evict. destruct (s_window (g_s g)) as [w|]; [|exact Hpos].
      apply (pos_ok_prune_map (evict_cell w batch) (g_s g)); [intros [p t sq]; auto|exact Hpos]. }
    assert (Hh : forall q, Permutation (map pt (filter (has q) l) ++ m_forward (s_window (g_s g)) (g_M g) (g_s g) batch q) (g_A g q)).
    { intros q. unfold l, evict, m_forward. destruct (s_window (g_s g)) as [w|]; [|apply Hperm].
      rewrite hist_evict. fold (hist_raw (g_s g) q).
      eapply Permutation_trans; [|apply Hperm].
      eapply Permutation_trans; [apply Permutation_app_head, Permutation_app_comm|].
      rewrite app_assoc. apply Permutation_app_tail.
      apply (filter_partition_perm _ (fun x => evicted w batch q (fst x))). }
    destruct (_ <? _)%nat; constructor; simpl.
    + exact Hl.
    + intros q. rewrite hist_raw_cells. apply Hh.
    + unfold pos_ok. simpl. apply Forall_app. split; [exact Hl|].
      apply Forall_forall. intros x Hx. apply in_map_iff in Hx. destruct Hx as [[[q' p] t] [<- Hin]]. simpl.
      rewrite Forall_forall in Hok. apply (Hok _ Hin).
    + intros q. rewrite hist_raw_cells, filter_app, map_app, hist_batch. unfold a_forward.
      eapply Permutation_trans; [|apply Permutation_app_tail; apply Hh].
      rewrite <- !app_assoc. apply Permutation_app_head. apply Permutation_app_comm.
  - (* copy *)
    constructor; simpl.
    + apply pos_ok_prune_map; [intros [p t sq] H; unfold copy_cell; simpl; destruct (_ && _); exact H|exact Hpos].
    + intros q. rewrite (hist_copy _ _ _ _ _ Hok). unfold a_copy, upd. destruct (Nat.eqb q dst); [|apply Hperm].
      rewrite <- filter_app. apply Permutation_filter'. apply Hperm.
  - (* remove, cleared on failure *)
    unfold spec_remove_c. destruct (spec_remove (g_s g) q b e) as [s1 [er|]] eqn:E.
    + (* failed: the sequence is cleared *)
      simpl. rewrite (clear_cells _ q Hpos). simpl. constructor; simpl.
      * apply pos_ok_prune_map; [intros [p t sq] H; exact H|exact Hpos].
      * intros q'. rewrite hist_raw_cells, hist_clear. unfold a_clear, upd. destruct (Nat.eqb q' q); [constructor|apply Hperm].
    + destruct (spec_remove_ok_shape _ _ _ _ _ E) as [Hb ->]. constructor; simpl.
      * apply pos_ok_prune_map; [intros; apply rm_cell_pos; assumption|exact Hpos].
      * intros q'. rewrite hist_raw_cells, filter_has_prune. unfold a_remove, upd. destruct (Nat.eqb_spec q' q) as [->|Hne].
        -- eapply Permutation_trans; [apply Permutation_app_tail; apply hist_remove_same; lia|].
           eapply Permutation_trans; [apply Permutation_sym, rm_list_app|]. apply rm_list_perm. apply Hperm.
        -- rewrite (hist_remove_other _ _ _ _ _ Hne Hb). apply Hperm.
  - constructor; assumption.
Qed.

Theorem grun_inv : forall ops g, GI g -> Forall sop_ok ops -> GI (grun g ops).
Proof.
  induction ops as [|o t IH]; intros g HG Hok; simpl; auto. inversion Hok; subst. apply IH; auto. apply gstep_inv; assumption.
Qed.

Lemma ginit_inv : forall cap w sh, GI (ginit (spec_init cap w sh)).
Proof. intros. constructor; simpl; [constructor|intros; constructor]. Qed.

(** ** what a token sees against its ideal window *)
Definition inw (w : option Z) (p : Z) (x : Z * N) : bool := in_window w (fst x) p.

Lemma visible_as_hist : forall s q p, visible_raw s q p = filter (inw (s_window s) p) (hist_raw s q).
Proof.
  intros s q p. unfold visible_raw, hist_raw, inw. induction (s_cells s) as [|a r IH]; simpl; auto.
  destruct (has q a); simpl; [|exact IH]. change (fst (pt a)) with (a_pos a).
  destruct (in_window (s_window s) (a_pos a) p); simpl; rewrite IH; reflexivity.
Qed.

Theorem visible_ideal : forall g q p, GI g ->
  Permutation (filter (inw (s_window (g_s g)) p) (g_A g q))
              (visible_raw (g_s g) q p ++ filter (inw (s_window (g_s g)) p) (g_M g q)).
Proof.
  intros g q p HG. rewrite visible_as_hist, <- filter_app. apply Permutation_filter'. apply Permutation_sym. apply (gi_perm g HG).
Qed.

(** the exact guard: a token sees its whole ideal window iff nothing evicted lies in that window *)
Theorem complete_iff : forall g q p, GI g ->
  (filter (inw (s_window (g_s g)) p) (g_M g q) = [] <->
   Permutation (filter (inw (s_window (g_s g)) p) (g_A g q)) (visible_raw (g_s g) q p)).
Proof.
  intros g q p HG. pose proof (visible_ideal g q p HG) as H. split.
  - intros E. rewrite E, app_nil_r in H. exact H.
  - intros HP. pose proof (Permutation_length (Permutation_trans (Permutation_sym HP) H)) as HL.
    rewrite app_length in HL. destruct (filter _ (g_M g q)); [reflexivity|simpl in HL; lia].
Qed.

(** without a window nothing is ever evicted *)
Lemma window_grun : forall ops g, s_window (g_s (grun g ops)) = s_window (g_s g).
Proof.
  induction ops as [|o t IH]; intros g; simpl; auto. rewrite IH. destruct o; simpl; auto.
  - unfold spec_forward. destruct (_ <? _)%nat; reflexivity.
  - unfold spec_remove_c, spec_remove.
    repeat match goal with |- context [if ?x then _ else _] => destruct x end; simpl; auto.
Qed.

Theorem no_window_no_eviction : forall ops g, s_window (g_s g) = None -> (forall q, g_M g q = []) ->
  forall q, g_M (grun g ops) q = [].
Proof.
  induction ops as [|o t IH]; intros g Hw HM q; simpl; auto. apply IH.
  - pose proof (window_grun [o] g) as H. simpl in H. rewrite H. exact Hw.
  - intros q'. destruct o; simpl; auto.
    + destruct (spec_forward (g_s g) batch). simpl. unfold m_forward. rewrite Hw. apply HM.
    + unfold a_copy, upd. destruct (Nat.eqb q' dst); [rewrite HM; reflexivity|apply HM].
    + destruct (spec_remove_c (g_s g) q0 b e) as [s' [er|]]; simpl.
      * unfold a_clear, upd. destruct (Nat.eqb q' q0); [reflexivity|apply HM].
      * unfold a_remove, upd. destruct (Nat.eqb q' q0); [rewrite HM; reflexivity|apply HM].
Qed.

(** ** the caller protocol "append where the sequence ends": evicted entries stay below every later window *)
Definition top (l : list (Z * N)) : Z := fold_right Z.max (-1) (map fst l).

Lemma fold_max_ge : forall l : list Z, -1 <= fold_right Z.max (-1) l.
Proof. induction l; simpl; lia. Qed.

Lemma top_ge : forall l, -1 <= top l.
Proof. intros l. unfold top. apply fold_max_ge. Qed.

Lemma top_app : forall l l', top (l ++ l') = Z.max (top l) (top l').
Proof.
  intros l l'. unfold top. rewrite map_app. induction (map fst l) as [|x r IH]; simpl.
  - pose proof (fold_max_ge (map fst l')). lia.
  - rewrite IH. lia.
Qed.

(** every sequence of the batch continues exactly where it ends in the ideal history *)
Definition contiguous_batch (A : pmap) (batch : list entry) : Prop :=
  forall q L, lowest batch q = Some L -> L = top (A q) + 1.

Definition append_op (A : pmap) (o : sop) : Prop :=
  match o with
  | SForward batch => contiguous_batch A batch
  | SRemove _ b e => b = 0 /\ e = MaxInt32
  | SCanResume _ _ => True
  | SCopy _ _ _ => False
  end.

Fixpoint append_run (g : gstate) (ops : list sop) : Prop :=
  match ops with
  | [] => True
  | o :: t => append_op (g_A g) o /\ sop_ok o /\ append_run (gstep g o) t
  end.

Definition KI (w : Z) (g : gstate) : Prop :=
  forall q x, In x (g_M g q) -> 0 <= fst x < MaxInt32 /\ fst x < top (g_A g q) + 1 - w.

Lemma lowest_le : forall batch q L p t, lowest batch q = Some L -> In (q, p, t) batch -> L <= p.
Proof.
  induction batch as [|[[q' p'] t'] r IH]; intros q L p t HL Hin; simpl in *; [contradiction|].
  destruct Hin as [E|Hin].
  - injection E as -> -> ->. rewrite Nat.eqb_refl in HL. destruct (lowest r q); injection HL as <-; lia.
  - destruct (Nat.eqb q' q).
    + destruct (lowest r q) as [m|] eqn:Em.
      * injection HL as <-. specialize (IH q m p t Em Hin). lia.
      * exfalso. clear - Em Hin. induction r as [|[[q2 p2] t2] r IH]; simpl in *; [contradiction|].
        destruct Hin as [E|Hin]; [injection E as -> -> ->; rewrite Nat.eqb_refl in Em; destruct (lowest r q); discriminate|].
        destruct (Nat.eqb q2 q); [destruct (lowest r q); [discriminate|auto]|auto].
    + eapply IH; eauto.
Qed.

Lemma lowest_in : forall batch q p t, In (q, p, t) batch -> exists L, lowest batch q = Some L.
Proof.
  induction batch as [|[[q' p'] t'] r IH]; intros q p t Hin; simpl in *; [contradiction|].
  destruct (Nat.eqb_spec q' q) as [->|Hne].
  - destruct (lowest r q); eauto.
  - destruct Hin as [E|Hin]; [injection E as -> -> ->; contradiction|]. eapply IH; eauto.
Qed.

Lemma filter_nil_all : forall A (V : A -> bool) l, (forall x, In x l -> V x = false) -> filter V l = [].
Proof. intros A V l H. induction l as [|a t IH]; simpl; auto. rewrite (H a) by (left; reflexivity). apply IH. intros; apply H; right; assumption. Qed.

Lemma hist_raw_pos : forall s q x, pos_ok s -> In x (hist_raw s q) -> 0 <= fst x < MaxInt32.
Proof.
  intros s q x Hp Hx. unfold hist_raw in Hx. apply in_map_iff in Hx. destruct Hx as [a [<- Ha]].
  apply filter_In in Ha. destruct Ha as [Ha _]. unfold pos_ok in Hp. rewrite Forall_forall in Hp. apply (Hp a Ha).
Qed.

Theorem append_step : forall w g o, GI g -> s_window (g_s g) = Some w -> KI w g -> append_op (g_A g) o ->
  KI w (gstep g o) /\
  match o with
  | SForward batch => forall q p t, In (q, p, t) batch -> filter (inw (Some w) p) (g_M (gstep g o) q) = []
  | _ => True
  end.
Proof.
  intros w g o HG Hw HK Ha. destruct o as [batch|src dst len|q b e|q p]; simpl in *.
  - (* forward: stored or refused, the same entries are evicted *)
    assert (HM : forall q x, In x (m_forward (Some w) (g_M g) (g_s g) batch q) ->
              0 <= fst x < MaxInt32 /\ fst x < top (g_A g q) + 1 - w /\ (forall L, lowest batch q = Some L -> fst x < L - w)).
    { intros q x Hx. unfold m_forward in Hx. apply in_app_or in Hx. destruct Hx as [Hx|Hx].
      - destruct (HK q x Hx) as [K1 K2]. split; [exact K1|]. split; [exact K2|]. intros L HL. rewrite (Ha q L HL). exact K2.
      - apply filter_In in Hx. destruct Hx as [Hh He]. unfold evicted in He. destruct (lowest batch q) as [L|] eqn:EL; [|discriminate].
        apply Z.ltb_lt in He. split; [apply (hist_raw_pos _ _ _ (gi_pos g HG) Hh)|].
        split; [rewrite (Ha q L EL) in He; lia|]. intros L' E'. injection E' as <-. exact He. }
    assert (HT : forall q p t, In (q, p, t) batch -> filter (inw (Some w) p) (m_forward (Some w) (g_M g) (g_s g) batch q) = []).
    { intros q p t Hin. apply filter_nil_all. intros x Hx. destruct (lowest_in _ _ _ _ Hin) as [L HL].
      destruct (HM q x Hx) as [_ [_ H2]]. specialize (H2 L HL). pose proof (lowest_le _ _ _ _ _ HL Hin).
      unfold inw, in_window. destruct (Z.leb_spec (p - w) (fst x)); [lia|]. apply andb_false_r. }
    rewrite Hw. destruct (spec_forward (g_s g) batch) as [s' [er|]]; cbn [g_A g_M g_s]; split; try exact HT.
    + intros q x Hx. cbn [g_A g_M] in *. destruct (HM q x Hx) as [H0 [H1 _]]. auto.
    + intros q x Hx. cbn [g_A g_M] in *. destruct (HM q x Hx) as [H0 [H1 _]]. split; [exact H0|].
      unfold a_forward. rewrite top_app. lia.
  - contradiction.
  - split; [|exact I]. destruct (spec_remove_c (g_s g) q b e) as [s' [er|]]; simpl.
    + intros q' x. cbn [g_A g_M]. unfold a_clear, upd. destruct (Nat.eqb q' q); intros Hx; [contradiction|apply HK; exact Hx].
    + destruct Ha as [-> ->]. intros q' x. cbn [g_A g_M]. unfold a_remove, upd. destruct (Nat.eqb q' q); intros Hx; [|apply HK; exact Hx].
      (* Remove(q, 0, MaxInt32) that succeeds keeps nothing of what was evicted either *)
      exfalso. unfold rm_list in Hx. apply in_app_or in Hx. destruct Hx as [Hx|Hx].
      * apply filter_In in Hx. destruct Hx as [Hx Hlt]. apply Z.ltb_lt in Hlt. destruct (HK q x Hx) as [K1 _]. lia.
      * apply in_map_iff in Hx. destruct Hx as [y [_ Hy]]. apply filter_In in Hy. destruct Hy as [Hy Hge].
        apply Z.leb_le in Hge. destruct (HK q y Hy) as [K1 _]. lia.
  - split; [exact HK|exact I].
Qed.

(** along a whole run that follows the protocol, every token of every batch has its complete ideal window *)
Theorem append_run_complete : forall ops w g, GI g -> s_window (g_s g) = Some w -> KI w g -> append_run g ops ->
  forall pre batch post, ops = pre ++ SForward batch :: post ->
  forall q p t, In (q, p, t) batch ->
  let g' := grun g (pre ++ [SForward batch]) in
  Permutation (filter (inw (Some w) p) (g_A g' q)) (visible_raw (g_s g') q p).
Proof.
  induction ops as [|o rest IH]; intros w g HG Hw HK Hrun pre batch post Heq q p t Hin.
  - destruct pre; discriminate.
  - simpl in Hrun. destruct Hrun as [Hop [Hok Hrest]].
    destruct (append_step w g o HG Hw HK Hop) as [HK' Htok].
    assert (HG' : GI (gstep g o)) by (apply gstep_inv; assumption).
    assert (Hw' : s_window (g_s (gstep g o)) = Some w).
    { pose proof (window_grun [o] g) as H. simpl in H. rewrite H. exact Hw. }
    destruct pre as [|o' pre'].
    + simpl in Heq. injection Heq as -> ->. cbv zeta. simpl.
      pose proof (proj1 (complete_iff (gstep g (SForward batch)) q p HG')) as Hc. rewrite Hw' in Hc.
      apply Hc. apply (Htok q p t Hin).
    + simpl in Heq. injection Heq as -> ->. cbv zeta. simpl.
      apply (IH w (gstep g o') HG' Hw' HK' Hrest pre' batch post eq_refl q p t Hin).
Qed.

(** ** the full caller protocol on sliding-window caches: append where the sequence ends, clear, or - after CanResume
    answered true for position [b] - truncate with Remove(seq, b, MaxInt32) and continue at [b] *)
Definition ND (g : gstate) : Prop := forall q, NoDup (map fst (g_A g q)).

Definition proto_op (g : gstate) (o : sop) : Prop :=
  match o with
  | SForward batch => contiguous_batch (g_A g) batch /\ forall q, NoDup (map fst (batch_of batch q))
  | SRemove q b e => e = MaxInt32 /\ (b = 0 \/ spec_can_resume (g_s g) q b = true)
  | SCanResume _ _ => True
  | SCopy _ _ _ => False
  end.

Fixpoint proto_run (g : gstate) (ops : list sop) : Prop :=
  match ops with
  | [] => True
  | o :: t => proto_op g o /\ sop_ok o /\ proto_run (gstep g o) t
  end.

Lemma top_max : forall l x, In x l -> fst x <= top l.
Proof.
  intros l x H. unfold top. induction l as [|y r IH]; simpl in *; [contradiction|].
  destruct H as [->|H]; [lia|]. specialize (IH H). lia.
Qed.

Lemma NoDup_app_inv : forall A (l l' : list A), NoDup (l ++ l') -> NoDup l /\ NoDup l' /\ forall x, In x l -> ~ In x l'.
Proof.
  intros A l l'. induction l as [|a r IH]; simpl; intros H.
  - split; [constructor|]. split; [exact H|]. intros x [].
  - inversion H as [|? ? Hn Hr]; subst. destruct (IH Hr) as [I1 [I2 I3]]. split; [|split; [exact I2|]].
    + constructor; [|exact I1]. intros C. apply Hn. apply in_or_app. left. exact C.
    + intros x [->|Hx]; [intros C; apply Hn; apply in_or_app; right; exact C|apply I3; exact Hx].
Qed.

Lemma NoDup_app_intro : forall A (l l' : list A), NoDup l -> NoDup l' -> (forall x, In x l -> ~ In x l') -> NoDup (l ++ l').
Proof.
  intros A l l' H1 H2 Hd. induction H1 as [|a r Hn Hr IH]; simpl; auto.
  constructor.
  - intros C. apply in_app_or in C. destruct C as [C|C]; [contradiction|]. apply (Hd a); [left; reflexivity|exact C].
  - apply IH. intros x Hx. apply Hd. right. exact Hx.
Qed.

Lemma batch_of_in : forall batch q x, In x (batch_of batch q) -> exists t, In (q, fst x, t) batch.
Proof.
  intros batch q x H. unfold batch_of in H. apply in_map_iff in H. destruct H as [[[q' p] t] [<- He]].
  apply filter_In in He. destruct He as [He Hq]. simpl in Hq. apply Nat.eqb_eq in Hq. subst q'. exists t. exact He.
Qed.

Lemma remove_max_spec : forall s q b, pos_ok s ->
  spec_remove s q b MaxInt32 = (with_cells s (prune (map (rm_cell q b MaxInt32) (s_cells s))), None).
Proof.
  intros s q b Hp. unfold spec_remove.
  assert (Hb : existsb (rm_blocked q b MaxInt32) (s_cells s) = false).
  { unfold pos_ok in Hp. induction Hp as [|a r Ha Hr IH]; simpl; auto. rewrite IH, orb_false_r.
    unfold rm_blocked. destruct (Z.leb_spec MaxInt32 (a_pos a)); [lia|]. rewrite andb_false_r. reflexivity. }
  rewrite Hb. destruct (negb _); [reflexivity|]. rewrite Z.eqb_refl. reflexivity.
Qed.

Lemma rm_list_max : forall b l, (forall x, In x l -> fst x < MaxInt32) -> rm_list b MaxInt32 l = filter (fun x => fst x <? b) l.
Proof.
  intros b l H. unfold rm_list. rewrite (filter_nil_all _ (fun x => MaxInt32 <=? fst x) l); [simpl; apply app_nil_r|].
  intros x Hx. specialize (H x Hx). destruct (Z.leb_spec MaxInt32 (fst x)); [lia|reflexivity].
Qed.

(** CanResume at the level of the per-sequence history: every position of [lo, b) is held *)
Lemma count_pos_hist : forall s q lo hi,
  count_pos s q lo hi = Z.of_nat (length (filter (fun x => (lo <=? fst x) && (fst x <? hi)) (hist_raw s q))).
Proof.
  intros. unfold count_pos, hist_raw. f_equal. induction (s_cells s) as [|a r IH]; simpl; auto.
  destruct (has q a); simpl; [|exact IH]. change (fst (pt a)) with (a_pos a).
  destruct ((lo <=? a_pos a) && (a_pos a <? hi)); simpl; rewrite IH; reflexivity.
Qed.

Fixpoint zrange (lo : Z) (n : nat) : list Z := match n with O => [] | S k => lo :: zrange (lo + 1) k end.

Lemma zrange_in : forall n lo x, In x (zrange lo n) <-> lo <= x < lo + Z.of_nat n.
Proof. induction n as [|n IH]; intros lo x; simpl; [split; [tauto|lia]|]. rewrite IH. lia. Qed.

Lemma zrange_length : forall n lo, length (zrange lo n) = n.
Proof. induction n; intros; simpl; auto. Qed.

Lemma map_fst_filter_pos : forall (P : Z -> bool) (l : list (Z * N)),
  map fst (filter (fun x => P (fst x)) l) = filter P (map fst l).
Proof. intros. induction l as [|a t IH]; simpl; auto. destruct (P (fst a)); simpl; rewrite IH; reflexivity. Qed.

(** pigeonhole: as many distinct positions in [lo, b) as the interval is long - every position is there *)
Lemma all_present : forall (H : list (Z * N)) lo b, NoDup (map fst H) -> lo <= b ->
  Z.of_nat (length (filter (fun x => (lo <=? fst x) && (fst x <? b)) H)) = b - lo ->
  forall y, lo <= y < b -> exists x, In x H /\ fst x = y.
Proof.
  intros H lo b Hnd Hle Hc y Hy.
  set (L := map fst (filter (fun x => (lo <=? fst x) && (fst x <? b)) H)).
  assert (HL : length L = Z.to_nat (b - lo)) by (unfold L; rewrite map_length; lia).
  assert (HN : NoDup L).
  { unfold L. rewrite (map_fst_filter_pos (fun z => (lo <=? z) && (z <? b))). apply NoDup_filter. exact Hnd. }
  assert (Hincl : incl L (zrange lo (Z.to_nat (b - lo)))).
  { intros z Hz. unfold L in Hz. apply in_map_iff in Hz. destruct Hz as [x [<- Hx]]. apply filter_In in Hx.
    destruct Hx as [_ Hc']. apply andb_true_iff in Hc'. destruct Hc' as [H1 H2]. apply Z.leb_le in H1. apply Z.ltb_lt in H2.
    apply zrange_in. lia. }
  assert (Hback : incl (zrange lo (Z.to_nat (b - lo))) L).
  { apply NoDup_length_incl; [exact HN| |exact Hincl]. rewrite zrange_length, HL. lia. }
  assert (Hin : In y L) by (apply Hback; apply zrange_in; lia).
  unfold L in Hin. apply in_map_iff in Hin. destruct Hin as [x [Hx Hf]]. apply filter_In in Hf. exists x. tauto.
Qed.

Theorem proto_step : forall w g o, GI g -> s_window (g_s g) = Some w -> 0 <= w -> KI w g -> ND g -> proto_op g o -> sop_ok o ->
  KI w (gstep g o) /\ ND (gstep g o) /\
  match o with
  | SForward batch => forall q p t, In (q, p, t) batch -> filter (inw (Some w) p) (g_M (gstep g o) q) = []
  | _ => True
  end.
Proof.
  intros w g o HG Hw Hw0 HK HN Hop Hok. destruct o as [batch|src dst len|q b e|q p]; simpl in Hop.
  - (* forward *)
    destruct Hop as [Hc Hnb]. destruct (append_step w g (SForward batch) HG Hw HK Hc) as [HK' HT].
    split; [exact HK'|]. split; [|exact HT].
    intros q. simpl. destruct (spec_forward (g_s g) batch) as [s' [er|]]; simpl; [apply HN|].
    unfold a_forward. rewrite map_app. apply NoDup_app_intro; [apply HN|apply Hnb|].
    intros z Hz Hz'. apply in_map_iff in Hz. destruct Hz as [x [<- Hx]]. apply in_map_iff in Hz'. destruct Hz' as [y [Hy Hyb]].
    destruct (batch_of_in _ _ _ Hyb) as [t Hin]. destruct (lowest_in _ _ _ _ Hin) as [L HL].
    pose proof (lowest_le _ _ _ _ _ HL Hin). rewrite (Hc q L HL) in H. pose proof (top_max _ _ Hx). lia.
  - contradiction.
  - (* Remove(q, b, MaxInt32): clear, or truncate after CanResume *)
    destruct Hop as [-> Hres]. simpl in Hok. split; [|split; [|exact I]].
    + (* KI *)
      simpl. unfold spec_remove_c. rewrite (remove_max_spec _ q b (gi_pos g HG)). simpl.
      intros q' x. cbn [g_A g_M]. unfold a_remove, upd. destruct (Nat.eqb_spec q' q) as [->|Hne]; [|apply HK].
      assert (HMv : forall y, In y (g_M g q) -> fst y < MaxInt32) by (intros y Hy; destruct (HK q y Hy); lia).
      assert (HAv : forall y, In y (g_A g q) -> fst y < MaxInt32).
      { intros y Hy. apply (Permutation_in _ (Permutation_sym (gi_perm g HG q))) in Hy. apply in_app_or in Hy.
        destruct Hy as [Hy|Hy]; [destruct (hist_raw_pos _ _ _ (gi_pos g HG) Hy); lia|apply HMv; exact Hy]. }
      rewrite (rm_list_max b _ HMv), (rm_list_max b _ HAv). intros Hx. apply filter_In in Hx. destruct Hx as [Hx Hlt].
      apply Z.ltb_lt in Hlt. destruct (HK q x Hx) as [K1 K2]. split; [exact K1|].
      destruct Hres as [->|Hcr]; [lia|].
      (* the positions the resumed window needs are all held *)
      unfold spec_can_resume in Hcr. rewrite Hw in Hcr.
      destruct (last_pos (g_s g) q =? -1); [discriminate|]. apply andb_true_iff in Hcr. destruct Hcr as [_ Hcnt].
      apply Z.eqb_eq in Hcnt. rewrite count_pos_hist in Hcnt.
      set (lo := Z.max 0 (b - w)) in *.
      pose proof (Permutation_NoDup (Permutation_map fst (Permutation_sym (gi_perm g HG q))) (HN q)) as HNA.
      rewrite map_app in HNA. destruct (NoDup_app_inv _ _ _ HNA) as [HNB [_ Hdisj]].
      assert (Hlob : lo <= b) by lia.
      pose proof (all_present (hist_raw (g_s g) q) lo b HNB Hlob Hcnt) as Hall.
      assert (Hxlo : fst x < lo).
      { destruct (Z.lt_ge_cases (fst x) lo); auto. exfalso. destruct (Hall (fst x) ltac:(lia)) as [y [Hy Hyf]].
        apply (Hdisj (fst x)); [rewrite <- Hyf; apply in_map; exact Hy|apply in_map; exact Hx]. }
      destruct (Z.le_gt_cases (b - w) 0) as [Hc0|Hc0]; [lia|].
      destruct (Z.eq_dec w 0) as [->|Hwn].
      * (* window 0 *)
        assert (Hin : In x (filter (fun y => fst y <? b) (g_A g q))).
        { apply filter_In. split; [|apply Z.ltb_lt; exact Hlt].
          apply (Permutation_in _ (gi_perm g HG q)). apply in_or_app. right. exact Hx. }
        pose proof (top_max _ _ Hin). lia.
      * destruct (Hall (b - 1) ltac:(lia)) as [y [Hy Hyf]].
        assert (Hin : In y (filter (fun z => fst z <? b) (g_A g q))).
        { apply filter_In. split; [|apply Z.ltb_lt; lia].
          apply (Permutation_in _ (gi_perm g HG q)). apply in_or_app. left. exact Hy. }
        pose proof (top_max _ _ Hin). lia.
    + (* ND *)
      intros q'. simpl. unfold spec_remove_c. rewrite (remove_max_spec _ q b (gi_pos g HG)). simpl.
      unfold a_remove, upd. destruct (Nat.eqb q' q); [|apply HN].
      unfold rm_list. rewrite map_app, map_map. simpl.
      assert (HAv : forall y, In y (g_A g q) -> fst y < MaxInt32).
      { intros y Hy. apply (Permutation_in _ (Permutation_sym (gi_perm g HG q))) in Hy. apply in_app_or in Hy.
        destruct Hy as [Hy|Hy]; [destruct (hist_raw_pos _ _ _ (gi_pos g HG) Hy); lia|destruct (HK q y Hy); lia]. }
      rewrite (filter_nil_all _ (fun x => MaxInt32 <=? fst x) (g_A g q)).
      * simpl. rewrite app_nil_r. rewrite (map_fst_filter_pos (fun z => z <? b)). apply NoDup_filter. apply HN.
      * intros y Hy. specialize (HAv y Hy). destruct (Z.leb_spec MaxInt32 (fst y)); [lia|reflexivity].
  - split; [exact HK|]. split; [exact HN|exact I].
Qed.

Theorem proto_run_complete : forall ops w g, GI g -> s_window (g_s g) = Some w -> 0 <= w -> KI w g -> ND g -> proto_run g ops ->
  forall pre batch post, ops = pre ++ SForward batch :: post ->
  forall q p t, In (q, p, t) batch ->
  let g' := grun g (pre ++ [SForward batch]) in
  Permutation (filter (inw (Some w) p) (g_A g' q)) (visible_raw (g_s g') q p).
Proof.
  induction ops as [|o rest IH]; intros w g HG Hw Hw0 HK HN Hrun pre batch post Heq q p t Hin.
  - destruct pre; discriminate.
  - simpl in Hrun. destruct Hrun as [Hop [Hok Hrest]].
    destruct (proto_step w g o HG Hw Hw0 HK HN Hop Hok) as [HK' [HN' Htok]].
    assert (HG' : GI (gstep g o)) by (apply gstep_inv; assumption).
    assert (Hw' : s_window (g_s (gstep g o)) = Some w).
    { pose proof (window_grun [o] g) as H. simpl in H. rewrite H. exact Hw. }
    destruct pre as [|o' pre'].
    + simpl in Heq. injection Heq as -> ->. cbv zeta. simpl.
      pose proof (proj1 (complete_iff (gstep g (SForward batch)) q p HG')) as Hc. rewrite Hw' in Hc.
      apply Hc. apply (Htok q p t Hin).
    + simpl in Heq. injection Heq as -> ->. cbv zeta. simpl.
      apply (IH w (gstep g o') HG' Hw' Hw0 HK' HN' Hrest pre' batch post eq_refl q p t Hin).
Qed.
