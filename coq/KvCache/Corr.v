(** KvCache/Corr.v - executable comparison of the model with observations of the real kvcache.Causal.

    The harness (harness/cmd/c06) reports, after every operation of a history, the result of the operation and
    the complete cache state (metadata of every location, cellRanges, decoded physical K/V data per location);
    [chk_history] replays the history on the model and compares after every step.  Everything in an
    observation is a [Z] so that the Python side renders plain numerals. *)
From Coq Require Import List ZArith NArith Bool Arith Lia.
From V Require Import KvCache.Model.
Import ListNotations.
Open Scope Z_scope.

Inductive zop :=
| ZF (batch : list (Z * Z * Z))        (* sequence, position, token *)
| ZC (src dst len : Z)
| ZR (q b e : Z)
| ZQ (q p : Z)
| ZV (batch : list (Z * Z * Z))        (* StartForward(reserve = true) + Put on every layer, graph reserved only *)
| ZFf (batch : list (Z * Z * Z)) (k : Z)   (* StartForward during which the k-th mask upload fails (0 = first cache) *)
| ZRf (q b e : Z)                      (* Remove during which the backend calls of shift fail *)
| ZFs (batch : list (Z * Z * Z)) (calls : list (list Z))
      (obs0 obs1 : list (list (list Z))).   (* a forward pass with SetCausal calls; observed mask rows after each call,
                                               for the (first) cache and for the second cache of a wrapper *)

Definition conv_batch (l : list (Z * Z * Z)) : list entry :=
  map (fun x => let '(q, p, t) := x in (Z.to_nat q, p, Z.to_N t)) l.

Definition to_op (o : zop) : op :=
  match o with
  | ZV _ | ZFf _ _ | ZRf _ _ _ => CanResume 0 0
  | ZFs l _ _ _ => Forward (conv_batch l)
  | ZF l => Forward (map (fun x => let '(q, p, t) := x in (Z.to_nat q, p, Z.to_N t)) l)
  | ZC s d len => Copy (Z.to_nat s) (Z.to_nat d) len
  | ZR q b e => Remove (Z.to_nat q) b e
  | ZQ q p => CanResume (Z.to_nat q) p
  end.

Inductive zout :=
| BFwd (loc mn mx : Z) (vis : list (list Z))
| BFull | BShared | BNotSupported | BBackend
| BOk
| BBool (b : bool)
| BPanic.

Record zobs := mkObs {
  o_out : zout;
  o_cells : list (Z * list Z);
  o_ranges : list (Z * (Z * Z));
  o_phys : list (option (Z * Z));       (* token, kpos; None = never written *)
  o_layers : bool
}.

Definition eqb_listZ (a b : list Z) : bool :=
  (length a =? length b)%nat && forallb (fun xy => fst xy =? snd xy) (combine a b).

Definition eqb_out (m : out) (o : zout) : bool :=
  match m, o with
  | OFwd f, BFwd loc mn mx vis =>
      (Z.of_nat (f_loc f) =? loc) && (f_min f =? mn) && (f_max f =? mx) &&
      (length (f_vis f) =? length vis)%nat &&
      forallb (fun xy => eqb_listZ (map Z.of_nat (fst xy)) (snd xy)) (combine (f_vis f) vis)
  | OErr EFull, BFull => true
  | OErr EShared, BShared => true
  | OErr ENotSupported, BNotSupported => true
  | OErr EBackend, BBackend => true
  | OOk, BOk => true
  | OBool a, BBool b => Bool.eqb a b
  | OPanic, BPanic => true
  | _, _ => false
  end.

Definition eqb_cell (cl : cell) (o : Z * list Z) : bool :=
  (c_pos cl =? fst o) && eqb_listZ (map Z.of_nat (c_seqs cl)) (snd o).

Definition eqb_cells (l : list cell) (o : list (Z * list Z)) : bool :=
  (length l =? length o)%nat && forallb (fun xy => eqb_cell (fst xy) (snd xy)) (combine l o).

Definition eqb_rng (a b : rng) : bool := (fst a =? fst b) && (snd a =? snd b).

(** the Go map has no order: same number of entries and every observed entry is in the model *)
Definition eqb_ranges (m : list (nat * rng)) (o : list (Z * (Z * Z))) : bool :=
  (length m =? length o)%nat &&
  forallb (fun kr => match lookup m (Z.to_nat (fst kr)) with Some r => eqb_rng r (snd kr) | None => false end) o.

Definition eqb_datum (d : option datum) (o : option (Z * Z)) : bool :=
  match d, o with
  | None, None => true
  | Some x, Some (t, k) => (Z.of_N (d_tok x) =? t) && (d_kpos x =? k)
  | _, _ => false
  end.

Definition eqb_phys (p : list (option datum)) (o : list (option (Z * Z))) : bool :=
  (length p =? length o)%nat && forallb (fun xy => eqb_datum (fst xy) (snd xy)) (combine p o).

Definition eqb_state (c : cache) (o : zobs) : bool :=
  eqb_cells (cells c) (o_cells o) && eqb_ranges (ranges c) (o_ranges o) && eqb_phys (phys c) (o_phys o)
  && Bool.eqb (has_layers c) (o_layers o).

(** index of the first step at which model and observation differ; None = they agree on the whole history.
    A panic ends a history (the harness stops there too). *)
Definition zstep (fx : bool) (c : cache) (o : zop) : cache * out :=
  match o with
  | ZV l => reserve_forward c (conv_batch l)
  | ZFf l _ => start_forward_fault fx c (conv_batch l)
  | ZRf q b e => remove_fault c (Z.to_nat q) b e
  | _ => step fx c (to_op o)
  end.

(** the SetCausal calls of a pass against the observed masks *)
Definition eqb_rows (m : list (list nat)) (o : list (list Z)) : bool :=
  (length m =? length o)%nat && forallb (fun xy => eqb_listZ (map Z.of_nat (fst xy)) (snd xy)) (combine m o).

Fixpoint chk_calls (c : cache) (pr : rng) (batch : list entry) (ps : pass) (calls : list (list Z)) (obs : list (list (list Z))) : bool :=
  match calls, obs with
  | [], [] => true
  | ex :: ct, o :: ot =>
      let ps' := set_causal c pr batch ps (map Z.to_nat ex) true in
      eqb_rows (p_vis ps') o && chk_calls c pr batch ps' ct ot
  | _, _ => false
  end.

Definition chk_sc (c' : cache) (r : out) (o : zop) (second : bool) : bool :=
  match o, r with
  | ZFs l calls obs0 obs1, OFwd f =>
      chk_calls c' (f_min f, f_max f) (conv_batch l) (pass_start f) calls (if second then obs1 else obs0)
  | _, _ => true
  end.

Fixpoint first_diff (fx : bool) (c : cache) (i : nat) (steps : list (zop * zobs)) : option nat :=
  match steps with
  | [] => None
  | (o, b) :: t =>
      let '(c', r) := zstep fx c o in
      match r with
      | OPanic => match o_out b with BPanic => None | _ => Some i end
      | _ => if eqb_out r (o_out b) && eqb_state c' b && chk_sc c' r o false then first_diff fx c' (S i) t else Some i
      end
  end.

Record zcfg := mkCfg {
  z_window : Z;           (* 0 = no window *)
  z_maxseq : Z; z_capacity : Z; z_maxbatch : Z; z_cpad : Z; z_bpad : Z;
  z_shift : bool
}.

Definition init_of (g : zcfg) : cache :=
  init (if z_window g =? 0 then None else Some (z_window g))
       (Z.to_nat (z_maxseq g)) (Z.to_nat (z_capacity g)) (Z.to_nat (z_maxbatch g))
       (Z.to_nat (z_cpad g)) (Z.to_nat (z_bpad g)) (z_shift g).

Definition chk_history (fx : bool) (g : zcfg) (ncells : Z) (steps : list (zop * zobs)) : bool :=
  let c := init_of g in
  (Z.of_nat (length (cells c)) =? ncells) &&
  match first_diff fx c 0 steps with None => true | Some _ => false end.

(** for replays: where the first difference is, and the model's own trace *)
Definition where_diff (fx : bool) (g : zcfg) (steps : list (zop * zobs)) : option nat :=
  first_diff fx (init_of g) 0 steps.

Fixpoint trace (fx : bool) (c : cache) (ops : list zop) : list (out * cache) :=
  match ops with
  | [] => []
  | o :: t => let '(c', r) := zstep fx c o in (r, c') :: match r with OPanic => [] | _ => trace fx c' t end
  end.

Definition show_state (c : cache) :=
  (map (fun cl => (c_pos cl, c_seqs cl)) (cells c), ranges c,
   map (fun d => match d with Some x => Some (d_tok x, d_kpos x) | None => None end) (phys c)).

Definition model_trace (fx : bool) (g : zcfg) (ops : list zop) :=
  map (fun rc => (fst rc, show_state (snd rc))) (trace fx (init_of g) ops).

(** ** WrapperCache of a sliding-window cache and a plain one *)
Definition is_fwd (r : out) : bool := match r with OFwd _ => true | _ => false end.

Fixpoint first_diff_w (fx : bool) (w : cache * cache) (i : nat) (steps : list (zop * (zobs * zobs))) : option nat :=
  match steps with
  | [] => None
  | (o, (b0, b1)) :: t =>
      let '(w', r0, r1) := match o with
                           | ZFf l k => let '(w1, r) := wforward_fault fx w (conv_batch l) (Z.to_nat k) in (w1, r, r)
                           | ZRf q b e => let '(w1, r) := wremove_fault w (Z.to_nat q) b e in (w1, r, r)
                           | _ => wstep fx w (to_op o)
                           end in
      match r0 with
      | OPanic => match o_out b0 with BPanic => None | _ => Some i end
      | _ => if eqb_out r0 (o_out b0) && (if is_fwd r0 then eqb_out r1 (o_out b1) else true)
                && eqb_state (fst w') b0 && eqb_state (snd w') b1
                && chk_sc (fst w') r0 o false && (if is_fwd r0 then chk_sc (snd w') r1 o true else true)
             then first_diff_w fx w' (S i) t else Some i
      end
  end.

Definition init_w (g : zcfg) : cache * cache :=
  (init_of g,
   init None (Z.to_nat (z_maxseq g)) (Z.to_nat (z_capacity g)) (Z.to_nat (z_maxbatch g))
        (Z.to_nat (z_cpad g)) (Z.to_nat (z_bpad g)) (z_shift g)).

Definition chk_whistory (fx : bool) (g : zcfg) (n0 n1 : Z) (steps : list (zop * (zobs * zobs))) : bool :=
  let w := init_w g in
  (Z.of_nat (length (cells (fst w))) =? n0) && (Z.of_nat (length (cells (snd w))) =? n1) &&
  match first_diff_w fx w 0 steps with None => true | Some _ => false end.

Definition where_diff_w (fx : bool) (g : zcfg) (steps : list (zop * (zobs * zobs))) : option nat :=
  first_diff_w fx (init_w g) 0 steps.

Fixpoint trace_w (fx : bool) (w : cache * cache) (ops : list zop) : list (out * out * (cache * cache)) :=
  match ops with
  | [] => []
  | o :: t => let '(w', r0, r1) := wstep fx w (to_op o) in
              (r0, r1, w') :: match r0 with OPanic => [] | _ => trace_w fx w' t end
  end.

Definition model_trace_w (fx : bool) (g : zcfg) (ops : list zop) :=
  map (fun x => let '(r0, r1, w) := x in (r0, r1, show_state (fst w), show_state (snd w))) (trace_w fx (init_w g) ops).

(** ** EncoderCache *)
Record zenc := mkZE { ze_cached : bool; ze_pos : Z; ze_cur : Z; ze_reserve : bool; ze_get : list (option Z) }.

Inductive zeop :=
| ZES (positions : list Z) (mm : list Z) (reserve : bool)
| ZEP (layer img : Z)
| ZEC (run : bool)
| ZER (b e : Z)
| ZEQ.

Definition to_eop (o : zeop) : eop :=
  match o with
  | ZES ps mm r => EStart ps (map Z.to_nat mm) r
  | ZEP l i => EPut (Z.to_nat l) (Z.to_N i)
  | ZEC r => ECompute r
  | ZER b e => ERemove b e
  | ZEQ => EResume
  end.

Definition eqb_optZ (a : option N) (b : option Z) : bool :=
  match a, b with
  | None, None => true
  | Some x, Some y => Z.of_N x =? y
  | _, _ => false
  end.

Definition eqb_enc (layers : list nat) (e : enc) (o : zenc) : bool :=
  Bool.eqb (e_cached e) (ze_cached o) && (e_pos e =? ze_pos o) && (e_cur e =? ze_cur o) && Bool.eqb (e_reserve e) (ze_reserve o) &&
  (length layers =? length (ze_get o))%nat &&
  forallb (fun lo => eqb_optZ (lookupN (e_data e) (fst lo)) (snd lo)) (combine layers (ze_get o)).

(** [None] in the observation = the operation panicked *)
Fixpoint first_diff_e (fx : bool) (layers : list nat) (e : enc) (i : nat) (steps : list (zeop * option zenc)) : option nat :=
  match steps with
  | [] => None
  | (o, b) :: t =>
      match estep fx e (to_eop o), b with
      | None, None => None
      | Some e', Some ob => if eqb_enc layers e' ob then first_diff_e fx layers e' (S i) t else Some i
      | _, _ => Some i
      end
  end.

Definition chk_ehistory (fx : bool) (steps : list (zeop * option zenc)) : bool :=
  match first_diff_e fx [0%nat; 3%nat] enc_init 0 steps with None => true | Some _ => false end.

(** WrapperCache(EncoderCache, Causal) *)
Inductive zewop :=
| ZWF (batch : list (Z * Z * Z)) (img : option (Z * Z))
| ZWR (q b e : Z)
| ZWQ (q p : Z).

Definition to_ewop (o : zewop) : ewop :=
  match o with
  | ZWF l img => EWForward (map (fun x => let '(q, p, t) := x in (Z.to_nat q, p, Z.to_N t)) l)
                           (match img with Some (a, i) => Some (Z.to_nat a, Z.to_N i) | None => None end)
  | ZWR q b e => EWRemove (Z.to_nat q) b e
  | ZWQ q p => EWResume (Z.to_nat q) p
  end.

Fixpoint first_diff_ew (fx : bool) (w : enc * cache) (i : nat) (steps : list (zewop * (option zenc * zobs))) : option nat :=
  match steps with
  | [] => None
  | (o, (be, bc)) :: t =>
      match ewstep fx w (to_ewop o), be with
      | None, None => None
      | Some (w', r), Some ob =>
          match r with
          | OPanic => match o_out bc with BPanic => None | _ => Some i end
          | _ => if eqb_out r (o_out bc) && eqb_state (snd w') bc && eqb_enc [0%nat] (fst w') ob
                 then first_diff_ew fx w' (S i) t else Some i
          end
      | _, _ => Some i
      end
  end.

Definition chk_ewhistory (fx : bool) (g : zcfg) (n1 : Z) (steps : list (zewop * (option zenc * zobs))) : bool :=
  let c := init None (Z.to_nat (z_maxseq g)) (Z.to_nat (z_capacity g)) (Z.to_nat (z_maxbatch g))
                (Z.to_nat (z_cpad g)) (Z.to_nat (z_bpad g)) (z_shift g) in
  (Z.of_nat (length (cells c)) =? n1) &&
  match first_diff_ew fx (enc_init, c) 0 steps with None => true | Some _ => false end.

(** WrapperCache of two caches with their own windows (0 = none) *)
Definition init_w2 (g : zcfg) (w2 : Z) : cache * cache :=
  (init_of g,
   init (if w2 =? 0 then None else Some w2) (Z.to_nat (z_maxseq g)) (Z.to_nat (z_capacity g)) (Z.to_nat (z_maxbatch g))
        (Z.to_nat (z_cpad g)) (Z.to_nat (z_bpad g)) (z_shift g)).

Definition chk_whistory2 (fx : bool) (g : zcfg) (w2 n0 n1 : Z) (steps : list (zop * (zobs * zobs))) : bool :=
  let w := init_w2 g w2 in
  (Z.of_nat (length (cells (fst w))) =? n0) && (Z.of_nat (length (cells (snd w))) =? n1) &&
  match first_diff_w fx w 0 steps with None => true | Some _ => false end.
