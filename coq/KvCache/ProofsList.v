(** KvCache/ProofsList.v - list lemmas used by the C06 proofs: [set_nth], [mapi], block copy / block reversal. *)
From Coq Require Import List ZArith NArith Bool Arith Lia Permutation.
From V Require Import KvCache.Model.
Import ListNotations.

Lemma set_nth_length : forall A i (x : A) l, length (set_nth i x l) = length l.
Proof. intros A i x l. revert i. induction l as [|h t IH]; intros [|i]; simpl; auto. Qed.

Lemma nth_set_nth : forall A (l : list A) i j x d,
  nth i (set_nth j x l) d = if (i =? j)%nat && (j <? length l)%nat then x else nth i l d.
Proof.
  intros A l. induction l as [|h t IH]; intros i j x d.
  - simpl. destruct j; destruct i; simpl; rewrite ?andb_false_r; reflexivity.
  - destruct j as [|j]; destruct i as [|i]; simpl; try reflexivity.
    rewrite IH. replace (S j <? S (length t))%nat with (j <? length t)%nat; [reflexivity|].
    destruct (Nat.ltb_spec j (length t)); destruct (Nat.ltb_spec (S j) (S (length t))); auto; lia.
Qed.

Lemma nth_set_nth_eq : forall A (l : list A) i x d, (i < length l)%nat -> nth i (set_nth i x l) d = x.
Proof. intros. rewrite nth_set_nth, Nat.eqb_refl. destruct (Nat.ltb_spec i (length l)); [reflexivity|lia]. Qed.

Lemma nth_set_nth_neq : forall A (l : list A) i j x d, i <> j -> nth i (set_nth j x l) d = nth i l d.
Proof. intros. rewrite nth_set_nth. destruct (Nat.eqb_spec i j); [lia|reflexivity]. Qed.

Lemma set_nth_split : forall A (l : list A) i x, (i < length l)%nat ->
  set_nth i x l = firstn i l ++ x :: skipn (S i) l.
Proof.
  intros A l. induction l as [|h t IH]; intros [|i] x H; simpl in *; try lia; auto.
  f_equal. apply IH. lia.
Qed.

Lemma set_nth_oob : forall A (l : list A) i x, (length l <= i)%nat -> set_nth i x l = l.
Proof. intros A l. induction l as [|h t IH]; intros [|i] x H; simpl in *; try lia; auto. f_equal. apply IH. lia. Qed.

Lemma list_split_nth : forall A (l : list A) i d, (i < length l)%nat ->
  l = firstn i l ++ nth i l d :: skipn (S i) l.
Proof.
  intros A l. induction l as [|h t IH]; intros [|i] d H; simpl in *; try lia; auto.
  f_equal. apply IH. lia.
Qed.

(** ** mapi *)
Lemma mapi_from_length : forall A B (f : nat -> A -> B) l i, length (mapi_from i f l) = length l.
Proof. intros A B f l. induction l; intros; simpl; auto. Qed.

Lemma mapi_length : forall A B (f : nat -> A -> B) l, length (mapi f l) = length l.
Proof. intros. apply mapi_from_length. Qed.

Lemma nth_mapi_from : forall A B (f : nat -> A -> B) l i k da db, (k < length l)%nat ->
  nth k (mapi_from i f l) db = f (i + k)%nat (nth k l da).
Proof.
  intros A B f l. induction l as [|h t IH]; intros i k da db H; simpl in *; [lia|].
  destruct k as [|k]; simpl.
  - rewrite Nat.add_0_r. reflexivity.
  - rewrite (IH (S i) k da db) by lia. f_equal. lia.
Qed.

Lemma nth_mapi : forall A B (f : nat -> A -> B) l k da db, (k < length l)%nat ->
  nth k (mapi f l) db = f k (nth k l da).
Proof. intros. unfold mapi. rewrite (nth_mapi_from _ _ f l 0 k da db) by assumption. reflexivity. Qed.

Lemma mapi_from_ext : forall A B (f g : nat -> A -> B) l i,
  (forall k x, (k < length l)%nat -> nth_error l k = Some x -> f (i + k)%nat x = g (i + k)%nat x) ->
  mapi_from i f l = mapi_from i g l.
Proof.
  intros A B f g l. induction l as [|h t IH]; intros i H; simpl; auto.
  f_equal.
  - specialize (H 0%nat h). rewrite Nat.add_0_r in H. apply H; simpl; auto; lia.
  - apply IH. intros k x Hk Hx. replace (S i + k)%nat with (i + S k)%nat by lia. apply H; simpl; auto; lia.
Qed.

Lemma mapi_from_map : forall A B (f : nat -> A -> B) (g : A -> B) l i,
  (forall k x, f k x = g x) -> mapi_from i f l = map g l.
Proof. intros A B f g l. induction l; intros; simpl; auto. rewrite H. f_equal. auto. Qed.

(** [mapi] as a [map] over the list zipped with its indices *)
Lemma mapi_from_combine : forall A B (f : nat -> A -> B) l i,
  mapi_from i f l = map (fun p => f (fst p) (snd p)) (combine (seq i (length l)) l).
Proof. intros A B f l. induction l; intros; simpl; auto. f_equal. auto. Qed.

(** ** block copy *)
Lemma copy_block_length : forall A len src dst (orig l : list A) d, length (copy_block src dst len orig l d) = length l.
Proof. intros A len. induction len; intros; simpl; auto. rewrite IHlen. apply set_nth_length. Qed.

Lemma nth_copy_block : forall A len src dst (orig l : list A) d i,
  (dst + len <= length l)%nat ->
  nth i (copy_block src dst len orig l d) d =
  if (dst <=? i)%nat && (i <? dst + len)%nat then nth (src + (i - dst)) orig d else nth i l d.
Proof.
  intros A len. induction len as [|k IH]; intros src dst orig l d i H; simpl.
  - destruct (Nat.leb_spec dst i); destruct (Nat.ltb_spec i (dst + 0)); simpl; auto; lia.
  - rewrite IH by (rewrite set_nth_length; lia).
    destruct (Nat.leb_spec (S dst) i); destruct (Nat.ltb_spec i (S dst + k)); simpl.
    + destruct (Nat.leb_spec dst i); destruct (Nat.ltb_spec i (dst + S k)); simpl; try lia. f_equal. lia.
    + rewrite nth_set_nth. destruct (Nat.eqb_spec i dst); [lia|]. simpl.
      destruct (Nat.leb_spec dst i); destruct (Nat.ltb_spec i (dst + S k)); simpl; auto; lia.
    + rewrite nth_set_nth. destruct (Nat.eqb_spec i dst).
      * subst. destruct (Nat.ltb_spec dst (length l)); [|lia]. simpl.
        destruct (Nat.leb_spec dst dst); destruct (Nat.ltb_spec dst (dst + S k)); simpl; try lia. f_equal. lia.
      * simpl. destruct (Nat.leb_spec dst i); destruct (Nat.ltb_spec i (dst + S k)); simpl; auto; lia.
    + lia.
Qed.

Lemma move_cells_length : forall src dst len p, length (move_cells src dst len p) = length p.
Proof. intros. apply copy_block_length. Qed.

Lemma nth_move_cells : forall src dst len p i, (dst + len <= length p)%nat ->
  nth i (move_cells src dst len p) None =
  if (dst <=? i)%nat && (i <? dst + len)%nat then nth (src + (i - dst)) p None else nth i p None.
Proof. intros. unfold move_cells. apply nth_copy_block. assumption. Qed.

(** ** block reversal *)
Lemma nth_firstn' : forall A (l : list A) n i d, nth i (firstn n l) d = if (i <? n)%nat then nth i l d else d.
Proof.
  intros A l. induction l as [|h t IH]; intros n i d.
  - rewrite firstn_nil. destruct i as [|i]; [destruct (0 <? n)%nat|destruct (S i <? n)%nat]; reflexivity.
  - destruct n as [|n]; simpl.
    + destruct i; reflexivity.
    + destruct i as [|i]; simpl; [reflexivity|]. rewrite IH.
      replace (S i <? S n)%nat with (i <? n)%nat; [reflexivity|].
      destruct (Nat.ltb_spec i n); destruct (Nat.ltb_spec (S i) (S n)); auto; lia.
Qed.

Lemma nth_skipn' : forall A (l : list A) n i d, nth i (skipn n l) d = nth (n + i) l d.
Proof.
  intros A l. induction l as [|h t IH]; intros n i d.
  - rewrite skipn_nil. destruct i as [|i]; [destruct (n + 0)%nat|destruct (n + S i)%nat]; reflexivity.
  - destruct n as [|n]; simpl; [reflexivity|]. apply IH.
Qed.

Lemma reverse_block_length : forall A start len (l : list A), (start + len <= length l)%nat ->
  length (reverse_block start len l) = length l.
Proof.
  intros. unfold reverse_block. rewrite !app_length, rev_length, !firstn_length, !skipn_length. lia.
Qed.

Lemma nth_reverse_block : forall A start len (l : list A) d i, (start + len <= length l)%nat ->
  nth i (reverse_block start len l) d =
  if (start <=? i)%nat && (i <? start + len)%nat then nth (start + len - 1 - (i - start)) l d else nth i l d.
Proof.
  intros A start len l d i H. unfold reverse_block.
  destruct (Nat.leb_spec start i); simpl.
  - rewrite app_nth2 by (rewrite firstn_length; lia). rewrite firstn_length, Nat.min_l by lia.
    destruct (Nat.ltb_spec i (start + len)).
    + rewrite app_nth1 by (rewrite rev_length, firstn_length, skipn_length; lia).
      rewrite rev_nth by (rewrite firstn_length, skipn_length; lia).
      rewrite firstn_length, skipn_length, Nat.min_l by lia.
      rewrite nth_firstn'. destruct (Nat.ltb_spec (len - S (i - start)) len); [|lia].
      rewrite nth_skipn'. f_equal. lia.
    + rewrite app_nth2 by (rewrite rev_length, firstn_length, skipn_length; lia).
      rewrite rev_length, firstn_length, skipn_length, Nat.min_l by lia.
      rewrite nth_skipn'. f_equal. lia.
  - rewrite app_nth1 by (rewrite firstn_length; lia). rewrite nth_firstn'.
    destruct (Nat.ltb_spec i start); [reflexivity|lia].
Qed.

Lemma skipn_skipn' : forall A (l : list A) m n, skipn n (skipn m l) = skipn (m + n) l.
Proof.
  intros A l. induction l as [|h t IH]; intros m n.
  - rewrite !skipn_nil. reflexivity.
  - destruct m as [|m]; simpl; [reflexivity|]. apply IH.
Qed.

Lemma reverse_block_perm : forall A start len (l : list A), Permutation (reverse_block start len l) l.
Proof.
  intros. unfold reverse_block.
  rewrite <- (firstn_skipn start l) at 4. apply Permutation_app_head.
  rewrite <- (firstn_skipn len (skipn start l)) at 2. rewrite skipn_skipn'.
  apply Permutation_app_tail.
  apply Permutation_sym, Permutation_rev.
Qed.
