(** KvCache/Spec.v - abstract specification of [kvcache.Causal] (kvcache/causal.go, kvcache/cache.go).

    The concrete cache ([KvCache/Model.v]) has locations, cell ranges, paddings, defragmentation and physical
    K/V data that is kept separately from the metadata.  The specification forgets all of that: a cache is a
    *multiset of entries* [(position, token, owners)] - what was stored, where in the sequence, and which
    sequences currently own it (an entry has several owners after [CopyPrefix]).  The order of [s_cells] carries
    no meaning; every statement about it is up to [Permutation] (use [hist]/[visible], which are sorted, when a
    canonical value is wanted).

    Stable interface (used by Runner/Slots.v of C07):
      types      [seqid] [entry] [acell] [sstate] [serr]
      states     [spec_init cap window can_shift]
      operations [spec_forward s batch]     StartForward(batch, reserve=false) followed by Put
                 [spec_copy s src dst len]  CopyPrefix
                 [spec_remove s q b e]      Remove  ([e = MaxInt32] = "to the end")
                 [spec_can_resume s q p]    CanResume
      views      [hist s q]                 everything sequence [q] owns, sorted by position
                 [visible s q p]            what a batch token of sequence [q] at position [p] may attend to
                                            (call it on the state *after* [spec_forward])
      sizes      [cache_size] (what Init computes)

    Errors.  [spec_forward] returns [Some EFull] exactly when the real StartForward returns ErrKvCacheFull; the
    state returned then differs from the argument only by sliding-window eviction (no entry is overwritten).
    [spec_remove] returns [Some EShared] ("shifting cells shared by multiple sequences not supported") or
    [Some ENotSupported] (no shift function) exactly when the real Remove fails; the real cache is then in a
    half-updated state *for that sequence only*: the specification returns its argument unchanged and the
    contents of sequence [q] are UNSPECIFIED until the caller has executed [spec_remove s q 0 MaxInt32] (which is
    what kvcache/cache.go tells callers to do).  All other sequences are unaffected.  See notes/C06.md. *)
From Coq Require Import List ZArith NArith Bool Arith Lia.
Import ListNotations.
Open Scope Z_scope.

Definition seqid := nat.
Definition MaxInt32 : Z := 2147483647.

(** one batch token / one stored item: sequence, position, token (the token stands for the K/V data) *)
Definition entry := (seqid * Z * N)%type.

Record acell := mkA { a_pos : Z; a_tok : N; a_seqs : list seqid }.

Record sstate := mkS {
  s_cells : list acell;      (* multiset of live entries; every [a_seqs] is non-empty *)
  s_window : option Z;       (* [None] = NewCausalCache, [Some w] = NewSWACache w *)
  s_cap : nat;               (* number of cache locations, [len(c.cells)] *)
  s_shift : bool             (* a shift function was supplied *)
}.

Inductive serr := EFull | EShared | ENotSupported.

Definition spec_init (cap : nat) (window : option Z) (can_shift : bool) : sstate :=
  mkS [] window cap can_shift.

Definition with_cells (s : sstate) (l : list acell) : sstate := mkS l (s_window s) (s_cap s) (s_shift s).

(** what [Causal.Init] computes *)
Definition round_up (n pad : nat) : nat := ((n + pad - 1) / pad * pad)%nat.
Definition cache_size (window : option Z) (max_sequences capacity max_batch cpad : nat) : nat :=
  let raw := match window with
             | None => (max_sequences * capacity)%nat
             | Some w => if (Z.of_nat capacity <? w) then (max_sequences * capacity)%nat
                         else (max_sequences * Z.to_nat w + max_batch)%nat
             end in
  round_up raw (Nat.max 1 cpad).

(** ** small helpers *)
Definition has (q : seqid) (a : acell) : bool := existsb (Nat.eqb q) (a_seqs a).
Definition others (q : seqid) (a : acell) : bool := existsb (fun x => negb (Nat.eqb x q)) (a_seqs a).
Definition drop_seq (q : seqid) (a : acell) : acell :=
  mkA (a_pos a) (a_tok a) (filter (fun x => negb (Nat.eqb x q)) (a_seqs a)).
Definition add_seq (q : seqid) (a : acell) : acell := mkA (a_pos a) (a_tok a) (a_seqs a ++ [q]).
Definition shift_pos (d : Z) (a : acell) : acell := mkA (a_pos a + d) (a_tok a) (a_seqs a).
Definition live (a : acell) : bool := match a_seqs a with [] => false | _ => true end.
Definition prune (l : list acell) : list acell := filter live l.

(** ** StartForward + Put *)

(** lowest position of sequence [q] in the batch *)
Fixpoint lowest (batch : list entry) (q : seqid) : option Z :=
  match batch with
  | [] => None
  | (q', p, _) :: r =>
      if Nat.eqb q' q then match lowest r q with Some m => Some (Z.min p m) | None => Some p end
      else lowest r q
  end.

(** [updateSlidingWindow]: sequence [q] loses what lies more than [w] before its lowest batch position *)
Definition evicted (w : Z) (batch : list entry) (q : seqid) (p : Z) : bool :=
  match lowest batch q with Some l => p <? l - w | None => false end.
Definition evict_cell (w : Z) (batch : list entry) (a : acell) : acell :=
  mkA (a_pos a) (a_tok a) (filter (fun q => negb (evicted w batch q (a_pos a))) (a_seqs a)).
Definition evict (w : option Z) (batch : list entry) (l : list acell) : list acell :=
  match w with None => l | Some w => prune (map (evict_cell w batch) l) end.

Definition entry_cell (e : entry) : acell := let '(q, p, t) := e in mkA p t [q].

(** a batch fits iff, after eviction, at least [max 1 (length batch)] locations are free (defragmentation makes
    the free locations contiguous; an empty batch still needs one free location, as in [findStartLoc]) *)
Definition spec_forward (s : sstate) (batch : list entry) : sstate * option serr :=
  let l := evict (s_window s) batch (s_cells s) in
  if (s_cap s - length l <? Nat.max 1 (length batch))%nat then (with_cells s l, Some EFull)
  else (with_cells s (l ++ map entry_cell batch), None).

(** ** views *)
Definition in_window (w : option Z) (hp p : Z) : bool :=
  (hp <=? p) && match w with None => true | Some w => p - w <=? hp end.

Definition pt_leb (x y : Z * N) : bool :=
  (fst x <? fst y) || ((fst x =? fst y) && (snd x <=? snd y)%N).
Fixpoint pt_insert (x : Z * N) (l : list (Z * N)) : list (Z * N) :=
  match l with [] => [x] | y :: r => if pt_leb x y then x :: l else y :: pt_insert x r end.
Definition pt_sort (l : list (Z * N)) : list (Z * N) := fold_right pt_insert [] l.

Definition pt (a : acell) : Z * N := (a_pos a, a_tok a).

(** unsorted versions (convenient in proofs) and the canonical sorted ones *)
Definition hist_raw (s : sstate) (q : seqid) : list (Z * N) := map pt (filter (has q) (s_cells s)).
Definition visible_raw (s : sstate) (q : seqid) (p : Z) : list (Z * N) :=
  map pt (filter (fun a => has q a && in_window (s_window s) (a_pos a) p) (s_cells s)).
Definition hist (s : sstate) (q : seqid) : list (Z * N) := pt_sort (hist_raw s q).
Definition visible (s : sstate) (q : seqid) (p : Z) : list (Z * N) := pt_sort (visible_raw s q p).

(** ** CopyPrefix: [dst] first loses everything, then shares [src]'s entries below [len]
    (so [spec_copy s q q len] empties [q], exactly as the code does) *)
Definition copy_cell (src dst : seqid) (len : Z) (a : acell) : acell :=
  let a' := drop_seq dst a in
  if has src a' && (a_pos a <? len) then add_seq dst a' else a'.
Definition spec_copy (s : sstate) (src dst : seqid) (len : Z) : sstate :=
  with_cells s (prune (map (copy_cell src dst len) (s_cells s))).

(** ** Remove *)
Definition rm_offset (b e : Z) : Z := if e =? MaxInt32 then 0 else b - e.
Definition in_range (b e p : Z) : bool := (b <=? p) && (p <? e).
(** the cell on which the code gives up: owned by [q], kept, at or after [e], and shared *)
Definition rm_blocked (q : seqid) (b e : Z) (a : acell) : bool :=
  has q a && negb (in_range b e (a_pos a)) && (e <=? a_pos a) && others q a.
Definition rm_cell (q : seqid) (b e : Z) (a : acell) : acell :=
  if has q a then
    if in_range b e (a_pos a) then drop_seq q a
    else if e <=? a_pos a then shift_pos (rm_offset b e) a else a
  else a.
Definition spec_remove (s : sstate) (q : seqid) (b e : Z) : sstate * option serr :=
  if existsb (rm_blocked q b e) (s_cells s) then (s, Some EShared)
  else
    let l := prune (map (rm_cell q b e) (s_cells s)) in
    if negb (existsb (has q) l) then (with_cells s l, None)          (* nothing left: no shift needed *)
    else if e =? MaxInt32 then (with_cells s l, None)
    else if s_shift s then (with_cells s l, None)
    else (s, Some ENotSupported).

(** ** CanResume (the repaired check, fixes/C06-canresume-window.patch: besides the comparison of the window starts,
    every position of the new token's window below [p] must be present) *)
Definition last_pos (s : sstate) (q : seqid) : Z :=
  fold_right Z.max (-1) (map a_pos (filter (has q) (s_cells s))).
Definition count_pos (s : sstate) (q : seqid) (lo hi : Z) : Z :=
  Z.of_nat (length (filter (fun a => has q a && (lo <=? a_pos a) && (a_pos a <? hi)) (s_cells s))).
Definition spec_can_resume (s : sstate) (q : seqid) (p : Z) : bool :=
  match s_window s with
  | None => true
  | Some w =>
      let last := last_pos s q in
      if last =? -1 then false
      else (Z.max 0 (last - w) <=? Z.max 0 (p - w)) && (count_pos s q (Z.max 0 (p - w)) p =? p - Z.max 0 (p - w))
  end.

(** ** Remove as the interface prescribes it: "If an error occurs, the entire context for the sequence should be
    removed by calling Remove(seq, 0, math.MaxInt32)" (kvcache/cache.go).  The error of the first call is reported. *)
Definition spec_remove_c (s : sstate) (q : seqid) (b e : Z) : sstate * option serr :=
  match spec_remove s q b e with
  | (_, Some er) => (fst (spec_remove s q 0 MaxInt32), Some er)
  | r => r
  end.

(** ** operations as data, for histories *)
Inductive sop :=
| SForward (batch : list entry)
| SCopy (src dst : seqid) (len : Z)
| SRemove (q : seqid) (b e : Z)
| SCanResume (q : seqid) (p : Z).

Inductive sout := OErr (e : option serr) | OBool (b : bool) | OUnit.

Definition spec_step (s : sstate) (o : sop) : sstate * sout :=
  match o with
  | SForward batch => let '(s', e) := spec_forward s batch in (s', OErr e)
  | SCopy src dst len => (spec_copy s src dst len, OUnit)
  | SRemove q b e => let '(s', r) := spec_remove s q b e in (s', OErr r)
  | SCanResume q p => (s, OBool (spec_can_resume s q p))
  end.

Definition spec_run (s : sstate) (ops : list sop) : sstate := fold_left (fun s o => fst (spec_step s o)) ops s.

(** the same with [Remove] followed by the prescribed clean-up when it fails *)
Definition spec_pstep (s : sstate) (o : sop) : sstate * sout :=
  match o with
  | SRemove q b e => let '(s', r) := spec_remove_c s q b e in (s', OErr r)
  | _ => spec_step s o
  end.
Definition spec_prun (s : sstate) (ops : list sop) : sstate := fold_left (fun s o => fst (spec_pstep s o)) ops s.
