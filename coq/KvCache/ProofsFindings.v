(** KvCache/ProofsFindings.v - the defects found in kvcache/causal.go, as statements about the model of the code
    as found ([fx = false]), and the soundness of the repaired CanResume. *)
From Coq Require Import List ZArith NArith Bool Arith Lia Permutation.
From V Require Import KvCache.Model KvCache.ProofsList KvCache.ProofsInv KvCache.ProofsDefrag KvCache.ProofsOps
  KvCache.ProofsFwd KvCache.ProofsRefine.
From V Require KvCache.Spec.
Import ListNotations.
Open Scope Z_scope.

(** ** defrag as found: two holes at the front, two live cells at the back.  The merged move assigns the cell of
    location 3 to location 0 and the cell of location 2 to location 1, then copies rows 2,3 to 0,1 in that order. *)
Definition swap_witness : cache :=
  mkCache [empty_cell; empty_cell; mkCell 0 [0%nat]; mkCell 1 [0%nat]]
          [None; None; Some (mkDatum 10 0); Some (mkDatum 11 1)]
          [(0%nat, (2, 3))] None 1 1 true true.

Lemma swap_witness_inv : Inv swap_witness.
Proof.
  constructor; simpl.
  - reflexivity.
  - unfold MaxInt. lia.
  - unfold live_pairs. simpl. repeat constructor; eexists; simpl; repeat split; try reflexivity; unfold MaxInt32; lia.
  - intros i q Hi Hq.
    destruct i as [|[|[|[|i]]]]; simpl in Hi; try lia; unfold cell_at, has in Hq; simpl in Hq; try discriminate;
      rewrite orb_false_r in Hq; apply Nat.eqb_eq in Hq; subst; eexists; split; reflexivity.
  - lia.
  - intros q r Hr. destruct q; simpl in Hr; [injection Hr as <-; simpl; lia|discriminate].
Qed.

Theorem defrag_as_found_refuted : ~ (forall c c', Inv c -> defrag false c = Some c' -> Inv c').
Proof.
  intros H.
  assert (E : defrag false swap_witness =
              Some (mkCache [mkCell 1 [0%nat]; mkCell 0 [0%nat]; empty_cell; empty_cell]
                            [Some (mkDatum 10 0); Some (mkDatum 11 1); Some (mkDatum 10 0); Some (mkDatum 11 1)]
                            [(0%nat, (0, 1))] None 1 1 true true)) by (vm_compute; reflexivity).
  pose proof (inv_data _ (H _ _ swap_witness_inv E)) as Hd. unfold live_pairs in Hd. simpl in Hd.
  inversion Hd as [|? ? Hg _]. destruct Hg as [y [E1 [E2 _]]]. simpl in *. injection E1 as <-. simpl in E2. discriminate.
Qed.

Theorem defrag_as_found_panics : exists c batch, Inv c /\ valid_batch batch /\ snd (start_forward false c batch) = OPanic.
Proof.
  exists (init None 1 3 4 1 1 true), [(0%nat, 0, 1%N); (0%nat, 1, 2%N); (0%nat, 2, 3%N); (0%nat, 3, 4%N)].
  split; [|split].
  - apply init_inv. vm_compute. reflexivity.
  - split; [discriminate|]. repeat constructor; unfold e_pos, MaxInt32; simpl; lia.
  - vm_compute. reflexivity.
Qed.

(** ** CanResume *)
Lemma In_seqZ : forall n lo x, In x (seqZ lo n) <-> lo <= x < lo + Z.of_nat n.
Proof.
  induction n as [|n IH]; intros lo x; simpl.
  - split; [tauto|lia].
  - rewrite IH. lia.
Qed.

Lemma seqZ_length : forall n lo, length (seqZ lo n) = n.
Proof. induction n; intros; simpl; auto. Qed.

Lemma map_filter_pos : forall (P : Z -> bool) l,
  map c_pos (filter (fun cl => P (c_pos cl)) l) = filter P (map c_pos l).
Proof. intros. induction l as [|a t IH]; simpl; auto. destruct (P (c_pos a)); simpl; rewrite IH; reflexivity. Qed.

Theorem can_resume_sound : forall c q p w, Inv c -> window c = Some w ->
  NoDup (map c_pos (filter (has q) (cells c))) ->
  can_resume true c q p = true ->
  forall x, Z.max 0 (p - w) <= x < p -> exists cl, In cl (cells c) /\ has q cl = true /\ c_pos cl = x.
Proof.
  intros c q p w HI Hw Hnd Hcr x Hx. unfold can_resume in Hcr. rewrite Hw in Hcr.
  destruct (lookup (ranges c) q) as [r|] eqn:Hr; [|discriminate].
  destruct (last_in (cells c) r q =? -1); [discriminate|].
  destruct (Z.max 0 (p - w) <? Z.max 0 (last_in (cells c) r q - w)); [discriminate|].
  apply Z.eqb_eq in Hcr. rewrite (count_in_metas c q r _ _ HI Hr) in Hcr.
  set (lo := Z.max 0 (p - w)) in *.
  set (L := map c_pos (filter (fun cl => (lo <=? c_pos cl) && (c_pos cl <? p)) (filter (has q) (cells c)))).
  assert (HL : length L = Z.to_nat (p - lo)).
  { unfold L. rewrite map_length, filter_filter.
    rewrite (filter_ext_in' _ (fun x0 => has q x0 && ((lo <=? c_pos x0) && (c_pos x0 <? p)))
               (fun cl => has q cl && (lo <=? c_pos cl) && (c_pos cl <? p))) by (intros; rewrite andb_assoc; reflexivity).
    lia. }
  assert (HN : NoDup L).
  { unfold L. rewrite (map_filter_pos (fun z => (lo <=? z) && (z <? p))). apply NoDup_filter. exact Hnd. }
  assert (Hincl : incl L (seqZ lo (Z.to_nat (p - lo)))).
  { intros y Hy. unfold L in Hy. apply in_map_iff in Hy. destruct Hy as [cl [<- Hcl]]. apply filter_In in Hcl.
    destruct Hcl as [_ Hc]. apply andb_true_iff in Hc. destruct Hc as [H1 H2]. apply Z.leb_le in H1. apply Z.ltb_lt in H2.
    apply In_seqZ. lia. }
  assert (Hback : incl (seqZ lo (Z.to_nat (p - lo))) L).
  { apply NoDup_length_incl; [exact HN| |exact Hincl]. rewrite seqZ_length, HL. lia. }
  assert (Hin : In x L) by (apply Hback; apply In_seqZ; lia).
  unfold L in Hin. apply in_map_iff in Hin. destruct Hin as [cl [Hp Hcl]]. apply filter_In in Hcl. destruct Hcl as [Hcl _].
  apply filter_In in Hcl. destruct Hcl as [Hin Hq]. exists cl. auto.
Qed.

(** the check as found: one entry at position 5 is all that is left of the window of position 6 (window 3), and
    CanResume(6) still says yes *)
Definition resume_witness : cache :=
  mkCache [mkCell 5 [0%nat]; empty_cell] [Some (mkDatum 1 5); None] [(0%nat, (0, 0))] (Some 3) 1 1 true true.

Lemma resume_witness_inv : Inv resume_witness.
Proof.
  constructor; simpl.
  - reflexivity.
  - unfold MaxInt. lia.
  - unfold live_pairs. simpl. repeat constructor; eexists; simpl; repeat split; try reflexivity; unfold MaxInt32; lia.
  - intros i q Hi Hq.
    destruct i as [|[|i]]; simpl in Hi; try lia; unfold cell_at, has in Hq; simpl in Hq; try discriminate;
      rewrite orb_false_r in Hq; apply Nat.eqb_eq in Hq; subst; eexists; split; reflexivity.
  - lia.
  - intros q r Hr. destruct q; simpl in Hr; [injection Hr as <-; simpl; lia|discriminate].
Qed.

Theorem can_resume_as_found_refuted :
  ~ (forall c q p w, Inv c -> window c = Some w -> NoDup (map c_pos (filter (has q) (cells c))) ->
     can_resume false c q p = true ->
     forall x, Z.max 0 (p - w) <= x < p -> exists cl, In cl (cells c) /\ has q cl = true /\ c_pos cl = x).
Proof.
  intros H.
  destruct (H resume_witness 0%nat 6 3 resume_witness_inv eq_refl) with (x := 3) as [cl [Hin [_ Hp]]].
  - simpl. repeat constructor. intros [].
  - vm_compute. reflexivity.
  - lia.
  - simpl in Hin. destruct Hin as [<-|[<-|[]]]; simpl in Hp; discriminate.
Qed.
