(** KvCache/ProofsWrapper.v - WrapperCache (kvcache/wrapper.go) over two Causal caches (a sliding-window one and a plain
    one, as gemma-style models use; any two windows are allowed): the pair refines the pair of specifications.
    StartForward that fails in the second cache unwinds the first by Remove(seq_k, pos_k, MaxInt32). *)
From Coq Require Import List ZArith NArith Bool Arith Lia Permutation.
From V Require Import KvCache.Model KvCache.ProofsList KvCache.ProofsInv KvCache.ProofsDefrag KvCache.ProofsOps
  KvCache.ProofsFwd KvCache.ProofsRefine.
From V Require KvCache.Spec.
Import ListNotations.
Open Scope Z_scope.

(** ** the specification of the pair *)
Fixpoint spec_unwind (s : Spec.sstate) (batch : list entry) : Spec.sstate :=
  match batch with
  | [] => s
  | (q, p, _) :: t => spec_unwind (fst (Spec.spec_remove s q p MaxInt32)) t
  end.

Definition wspec_forward (ws : Spec.sstate * Spec.sstate) (batch : list entry)
  : (Spec.sstate * Spec.sstate) * option Spec.serr :=
  let '(s0, s1) := ws in
  match Spec.spec_forward s0 batch with
  | (s0', Some er) => ((s0', s1), Some er)
  | (s0', None) =>
      match Spec.spec_forward s1 batch with
      | (s1', None) => ((s0', s1'), None)
      | (s1', Some er) => ((spec_unwind s0' batch, s1'), Some er)
      end
  end.

Definition sclear (s : Spec.sstate) (q : nat) : Spec.sstate := fst (Spec.spec_remove s q 0 MaxInt32).

Definition wspec_remove_c (ws : Spec.sstate * Spec.sstate) (q : nat) (b e : Z)
  : (Spec.sstate * Spec.sstate) * option Spec.serr :=
  let '(s0, s1) := ws in
  match Spec.spec_remove s0 q b e with
  | (_, Some er) => ((sclear s0 q, sclear s1 q), Some er)
  | (s0', None) =>
      match Spec.spec_remove s1 q b e with
      | (_, Some er) => ((sclear s0' q, sclear s1 q), Some er)
      | (s1', None) => ((s0', s1'), None)
      end
  end.

Definition wspec_pstep (ws : Spec.sstate * Spec.sstate) (o : op) : (Spec.sstate * Spec.sstate) * Spec.sout :=
  let '(s0, s1) := ws in
  match o with
  | Forward batch => let '(ws', e) := wspec_forward ws batch in (ws', Spec.OErr e)
  | Copy s d len => ((Spec.spec_copy s0 s d len, Spec.spec_copy s1 s d len), Spec.OUnit)
  | Remove q b e => let '(ws', r) := wspec_remove_c ws q b e in (ws', Spec.OErr r)
  | CanResume q p => (ws, Spec.OBool (Spec.spec_can_resume s0 q p && Spec.spec_can_resume s1 q p))
  end.
Definition wspec_prun (ws : Spec.sstate * Spec.sstate) (ops : list op) := fold_left (fun ws o => fst (wspec_pstep ws o)) ops ws.

Definition Inv2 (w : cache * cache) : Prop := Inv (fst w) /\ Inv (snd w).
Definition R2 (w : cache * cache) (ws : Spec.sstate * Spec.sstate) : Prop := R (fst w) (fst ws) /\ R (snd w) (snd ws).

(** ** Remove(seq, p, MaxInt32) never fails and does not look at the stored rows *)
Lemma remove_max_ok : forall c q b, Inv c -> snd (remove c q b MaxInt32) = OOk.
Proof.
  intros c q b HI. unfold remove. rewrite Z.eqb_refl.
  pose proof (rm_loop_spec q b MaxInt32 0 (cells c) 0 new_range) as HS.
  destruct (rm_loop q b MaxInt32 0 0 (cells c) new_range) as [[cs r] er]. destruct HS as [Her _].
  assert (E : existsb (blocked q b MaxInt32) (cells c) = false).
  { apply (proj2 (existsb_false_nth (blocked q b MaxInt32) (cells c))). intros k Hk. unfold blocked.
    destruct (has q (cell_at (cells c) k)) eqn:Hq; [|reflexivity].
    pose proof (valid_positions c q HI) as HV. rewrite Forall_forall in HV.
    assert (Hin : In (cell_at (cells c) k) (cells c)) by (apply nth_In; exact Hk).
    specialize (HV _ Hin Hq). destruct (Z.leb_spec MaxInt32 (c_pos (cell_at (cells c) k))); [lia|]. rewrite andb_false_r. reflexivity. }
  rewrite Her, E. destruct ((fst r =? MaxInt) && (snd r =? 0)); reflexivity.
Qed.

Lemma remove_max_refines : forall c s q b, Inv c -> R c s -> 0 <= b <= MaxInt32 ->
  Inv (fst (remove c q b MaxInt32)) /\ R (fst (remove c q b MaxInt32)) (fst (Spec.spec_remove s q b MaxInt32)) /\
  cells (fst (remove c q b MaxInt32)) = map (rm_cell' q b MaxInt32 0) (cells c) /\
  phys (fst (remove c q b MaxInt32)) = phys c.
Proof.
  intros c s q b HI HR Hb. pose proof (remove_max_ok c q b HI) as Hok.
  destruct (remove c q b MaxInt32) as [c' r] eqn:E. simpl in *. subst r.
  destruct (remove_ok c q b MaxInt32 c' HI Hb E) as [HI' [HL [HW [HS [s' [Hs Ha]]]]]].
  split; [exact HI'|]. split.
  - apply R_seqv. apply R_seqv in HR. destruct (spec_remove_perm (abs c) s q b MaxInt32 HR) as [Hv _].
    eapply seqv_trans; [|exact Hv]. rewrite Hs. simpl.
    destruct (spec_remove_params (abs c) q b MaxInt32) as [P1 [P2 P3]]. rewrite Hs in P1, P2, P3. simpl in P1, P2, P3.
    unfold seqv. rewrite P1, P2, P3. unfold abs. simpl. rewrite Ha, HL, HW, HS. auto.
  - unfold remove in E. rewrite Z.eqb_refl in E.
    pose proof (rm_loop_spec q b MaxInt32 0 (cells c) 0 new_range) as HSp.
    destruct (rm_loop q b MaxInt32 0 0 (cells c) new_range) as [[cs r] er]. destruct HSp as [_ [_ Hmap]].
    destruct er; [discriminate|]. destruct (Hmap eq_refl) as [-> _].
    destruct ((fst r =? MaxInt) && (snd r =? 0)); injection E as <-; simpl; auto.
Qed.

(** two caches that differ only in the stored rows (and in whether storage exists) *)
Definition meta_eq (c c' : cache) : Prop :=
  cells c = cells c' /\ ranges c = ranges c' /\ window c = window c' /\ cpad c = cpad c' /\ bpad c = bpad c' /\ can_shift c = can_shift c'.

Lemma remove_max_meta : forall c c' q b, meta_eq c c' ->
  meta_eq (fst (remove c q b MaxInt32)) (fst (remove c' q b MaxInt32)) /\
  snd (remove c q b MaxInt32) = snd (remove c' q b MaxInt32) /\
  phys (fst (remove c q b MaxInt32)) = phys c /\ phys (fst (remove c' q b MaxInt32)) = phys c'.
Proof.
  intros c c' q b [H1 [H2 [H3 [H4 [H5 H6]]]]]. unfold remove. rewrite Z.eqb_refl, <- H1.
  destruct (rm_loop q b MaxInt32 0 0 (cells c) new_range) as [[cs r] er].
  destruct er; simpl; [unfold meta_eq; simpl; rewrite ?H2; auto 10|].
  destruct ((fst r =? MaxInt) && (snd r =? 0)); simpl; unfold meta_eq; simpl; rewrite ?H2; auto 10.
Qed.

Lemma unwind_meta : forall batch c c', meta_eq c c' ->
  meta_eq (unwind c batch) (unwind c' batch) /\ phys (unwind c batch) = phys c /\ phys (unwind c' batch) = phys c'.
Proof.
  induction batch as [|[[q p] t] r IH]; intros c c' H; simpl; auto.
  destruct (remove_max_meta c c' q p H) as [Hm [_ [P1 P2]]].
  destruct (IH _ _ Hm) as [I1 [I2 I3]]. split; [exact I1|]. split; congruence.
Qed.

(** what the unwind does to one cell *)
Definition unwind_cell (batch : list entry) (cl : cell) : cell :=
  fold_left (fun cl (e : entry) => rm_cell' (e_seq e) (e_pos e) MaxInt32 0 cl) batch cl.

Lemma unwind_refines : forall batch c s, Inv c -> R c s -> Forall (fun e : entry => 0 <= e_pos e < MaxInt32) batch ->
  Inv (unwind c batch) /\ R (unwind c batch) (spec_unwind s batch) /\
  cells (unwind c batch) = map (unwind_cell batch) (cells c) /\ phys (unwind c batch) = phys c.
Proof.
  induction batch as [|[[q p] t] r IH]; intros c s HI HR Hv; simpl.
  - split; [exact HI|split; [exact HR|split; [symmetry; apply map_id|reflexivity]]].
  - inversion Hv as [|? ? Hp Hr]; subst. unfold e_pos in Hp. simpl in Hp.
    destruct (remove_max_refines c s q p HI HR ltac:(lia)) as [HI1 [HR1 [HC1 HP1]]].
    destruct (IH _ _ HI1 HR1 Hr) as [I1 [I2 [I3 I4]]].
    split; [exact I1|]. split; [exact I2|]. split; [|congruence].
    rewrite I3, HC1, map_map. reflexivity.
Qed.

Lemma unwind_cell_dead : forall batch cl, live cl = false -> live (unwind_cell batch cl) = false.
Proof.
  induction batch as [|e r IH]; intros cl H; simpl; auto. apply IH. apply rm_cell_dead. exact H.
Qed.

(** a cell written for a batch entry does not survive the unwind of that batch *)
Lemma unwind_cell_kills : forall batch q p t, In (q, p, t) batch -> 0 <= p < MaxInt32 ->
  live (unwind_cell batch (mkCell p [q])) = false.
Proof.
  induction batch as [|[[q1 p1] t1] r IH]; intros q p t Hin Hp; simpl in *; [contradiction|].
  unfold e_seq, e_pos. simpl.
  assert (Hcases : rm_cell' q1 p1 MaxInt32 0 (mkCell p [q]) = mkCell p [q] \/ live (rm_cell' q1 p1 MaxInt32 0 (mkCell p [q])) = false).
  { unfold rm_cell', has, in_be. simpl. destruct (Nat.eqb_spec q1 q) as [->|Hne]; simpl; [|left; reflexivity].
    destruct ((p1 <=? p) && (p <? MaxInt32)) eqn:E.
    - right. unfold del, live. simpl. rewrite Nat.eqb_refl. reflexivity.
    - destruct (Z.leb_spec MaxInt32 p); [lia|]. left. reflexivity. }
  destruct Hin as [E|Hin].
  - injection E as -> -> ->. apply unwind_cell_dead. unfold rm_cell', has, in_be. simpl. rewrite Nat.eqb_refl. simpl.
    destruct (Z.leb_spec p p); [|lia]. destruct (Z.ltb_spec p MaxInt32); [|lia]. simpl.
    unfold del, live. simpl. rewrite Nat.eqb_refl. reflexivity.
  - destruct Hcases as [E|E]; [rewrite E; eapply IH; eauto|apply unwind_cell_dead; exact E].
Qed.

(** ** the cells and rows written by StartForward / Put *)
Lemma place_nth : forall batch cs rs cur loc k, (loc + length batch <= length cs)%nat -> (k < length batch)%nat ->
  cell_at (place_cells cs rs cur loc batch) (loc + k) = new_cell (nth k batch (0%nat, 0, 0%N)).
Proof.
  induction batch as [|[[q p] t] r IH]; intros cs rs cur loc k Hfit Hk; simpl in *; [lia|].
  unfold place_cells in *. simpl.
  set (cs1 := set_nth loc (mkCell p [q]) cs).
  assert (L1 : length cs1 = length cs) by (unfold cs1; apply set_nth_length).
  destruct k as [|k].
  - (* the first cell is not touched by the rest of the batch *)
    rewrite Nat.add_0_r.
    assert (G : forall b cs' rs' cur' loc', (loc < loc')%nat ->
              cell_at (fst (fst (place cs' rs' cur' loc' b))) loc = cell_at cs' loc).
    { clear. induction b as [|[[q p] t] r IH]; intros cs' rs' cur' loc' H; simpl; auto.
      rewrite IH by lia. unfold cell_at. apply nth_set_nth_neq. lia. }
    rewrite G by lia. unfold cs1, cell_at. apply nth_set_nth_eq. lia.
  - replace (loc + S k)%nat with (S loc + k)%nat by lia.
    match goal with |- context [place cs1 ?a ?b (S loc) r] => apply (IH cs1 a b (S loc) k) end; [rewrite L1|]; lia.
Qed.

Lemma put_nth_out : forall batch ps loc i, (i < loc \/ loc + length batch <= i)%nat -> nth i (put ps loc batch) None = nth i ps None.
Proof.
  induction batch as [|[[q p] t] r IH]; intros ps loc i H; simpl; auto.
  rewrite IH by (simpl in H; lia). apply nth_set_nth_neq. simpl in H. lia.
Qed.

Lemma live_pairs_phys_ext : forall cs ps ps', length ps = length cs -> length ps' = length cs ->
  (forall i, (i < length cs)%nat -> live (cell_at cs i) = true -> nth i ps None = nth i ps' None) ->
  live_pairs cs ps = live_pairs cs ps'.
Proof.
  induction cs as [|c t IH]; intros [|p ps] [|p' ps'] H1 H2 H; simpl in *; try lia; auto.
  unfold live_pairs in *. simpl.
  replace (livep (c, p')) with (livep (c, p)) by reflexivity.
  destruct (livep (c, p)) eqn:E.
  - rewrite (H 0%nat ltac:(lia) E : p = p'). f_equal. apply IH; try lia. intros i Hi Hl. apply (H (S i)); [lia|exact Hl].
  - apply IH; try lia. intros i Hi Hl. apply (H (S i)); [lia|exact Hl].
Qed.

Lemma start_forward_eq : forall fx c batch,
  start_forward fx c batch =
  match snd (start_forward_meta fx c batch) with
  | OFwd f => (put_batch (fst (start_forward_meta fx c batch)) (f_loc f) batch, OFwd f)
  | r => (fst (start_forward_meta fx c batch), r)
  end.
Proof. intros. unfold start_forward. destruct (start_forward_meta fx c batch) as [c' [f|e| |b|]]; reflexivity. Qed.

Lemma forward_meta_cases : forall c batch c' f, start_forward_meta true c batch = (c', OFwd f) ->
  exists ck, find_start (cells ck) (length batch) = Some (f_loc f) /\ meta_place ck (f_loc f) batch = (c', OFwd f).
Proof.
  intros c batch c' f H. unfold start_forward_meta in H.
  assert (G : forall ck loc, meta_place ck loc batch = (c', OFwd f) -> f_loc f = loc).
  { intros ck loc E. unfold meta_place in E. destruct (place _ _ _ _ _) as [[? ?] ?]. injection E as _ <-. reflexivity. }
  destruct (find_start (cells (update_window c batch)) (length batch)) as [loc|] eqn:E1.
  - exists (update_window c batch). rewrite (G _ _ H). auto.
  - destruct (defrag true (update_window c batch)) as [c2|]; [|discriminate].
    destruct (find_start (cells c2) (length batch)) as [loc|] eqn:E2; [|discriminate].
    exists c2. rewrite (G _ _ H). auto.
Qed.

(** ** the unwind after a forward pass that only the first cache accepted *)
Theorem unwind_after_forward : forall c s batch c' f, Inv c -> R c s -> valid_batch batch ->
  start_forward_meta true c batch = (c', OFwd f) ->
  Inv (unwind c' batch) /\ R (unwind c' batch) (spec_unwind (fst (Spec.spec_forward s batch)) batch).
Proof.
  intros c s batch c' f HI HR Hvb Hm. pose proof Hvb as [Hne Hval].
  (* the state Put would have produced *)
  pose proof (step_refines c s (Forward batch) HI HR Hvb) as [HIP [HRP _]]. simpl in HIP, HRP.
  rewrite start_forward_eq, Hm in HIP, HRP. simpl in HIP, HRP.
  assert (HRP' : R (put_batch c' (f_loc f) batch) (fst (Spec.spec_forward s batch))).
  { destruct (Spec.spec_forward s batch). exact HRP. }
  set (cP := put_batch c' (f_loc f) batch) in *.
  destruct (unwind_refines batch cP _ HIP HRP' Hval) as [HIU [HRU [HCU HPU]]].
  assert (Hmeta : meta_eq c' cP) by (unfold meta_eq, cP, put_batch; simpl; auto 10).
  destruct (unwind_meta batch c' cP Hmeta) as [[M1 [M2 [M3 [M4 [M5 M6]]]]] [P1 P2]].
  (* where the batch was written *)
  destruct (forward_meta_cases c batch c' f Hm) as [ck [Hfs Hmp]].
  assert (Hn : (1 <= length batch)%nat) by (destruct batch; [congruence|simpl; lia]).
  destruct (find_start_sound _ _ _ Hfs Hn) as [Hfit _].
  unfold meta_place in Hmp. destruct (place (cells ck) (ranges ck) new_range (f_loc f) batch) as [[cs rs] cur] eqn:Epl.
  injection Hmp as Hc' _.
  assert (Hcells : cells c' = place_cells (cells ck) (ranges ck) new_range (f_loc f) batch)
    by (rewrite <- Hc'; unfold place_cells; rewrite Epl; reflexivity).
  assert (Hphys : phys c' = phys ck) by (rewrite <- Hc'; reflexivity).
  assert (Hlen : length (cells c') = length (cells ck)).
  { rewrite Hcells. clear - Hfit. revert Hfit. generalize (cells ck) (ranges ck) new_range (f_loc f).
    induction batch as [|[[q p] t] r IH]; intros l rs0 cur0 loc H; unfold place_cells in *; simpl in *; auto.
    rewrite IH; [apply set_nth_length|rewrite set_nth_length; lia]. }
  assert (HlenP : length (phys c') = length (cells c')).
  { pose proof (inv_len cP HIP) as H. unfold cP, put_batch in H. simpl in H.
    assert (forall b ps loc, length (put ps loc b) = length ps)
      by (clear; induction b as [|[[q p] t] r IH]; intros; simpl; auto; rewrite IH; apply set_nth_length).
    rewrite H0 in H. exact H. }
  (* every cell of the batch is dead after the unwind *)
  assert (Hdead : forall i, (f_loc f <= i < f_loc f + length batch)%nat ->
            live (cell_at (cells (unwind cP batch)) i) = false).
  { intros i Hi. rewrite HCU. rewrite cell_at_map by (unfold cP, put_batch; simpl; lia).
    unfold cP, put_batch. simpl. rewrite Hcells.
    replace i with (f_loc f + (i - f_loc f))%nat by lia. rewrite place_nth by lia.
    remember (nth (i - f_loc f) batch (0%nat, 0, 0%N)) as e. destruct e as [[q p] t]. simpl.
    assert (Hin : In (q, p, t) batch) by (rewrite Heqe; apply nth_In; lia).
    apply (unwind_cell_kills batch q p t Hin). rewrite Forall_forall in Hval. apply (Hval _ Hin). }
  (* so the rows that Put would have written do not matter *)
  assert (HLP : live_pairs (cells (unwind c' batch)) (phys (unwind c' batch)) =
                live_pairs (cells (unwind cP batch)) (phys (unwind cP batch))).
  { rewrite M1, P1, HPU. unfold cP at 3, put_batch. simpl.
    assert (Hl1 : length (cells (unwind cP batch)) = length (cells c')).
    { rewrite HCU, map_length. unfold cP, put_batch. reflexivity. }
    apply live_pairs_phys_ext.
    - rewrite Hl1. exact HlenP.
    - rewrite Hl1. pose proof (inv_len cP HIP) as H. unfold cP, put_batch in H. simpl in H. exact H.
    - intros i Hi Hl. symmetry. apply put_nth_out.
      destruct (Nat.lt_ge_cases i (f_loc f)); [left; assumption|]. right.
      destruct (Nat.le_gt_cases (f_loc f + length batch) i); [assumption|]. rewrite Hdead in Hl by lia. discriminate. }
  split.
  - constructor.
    + rewrite P1, M1, HCU, map_length. unfold cP, put_batch. simpl. exact HlenP.
    + rewrite M1. apply (inv_size _ HIU).
    + rewrite HLP. apply (inv_data _ HIU).
    + rewrite M1, M2. apply (inv_rng _ HIU).
    + rewrite M4. apply (inv_pad _ HIU).
    + rewrite M2. apply (inv_rpos _ HIU).
  - destruct HRU as [RA [RB [RC RD]]]. unfold R. unfold abs_cells in *. rewrite HLP, M1, M3, M6. auto.
Qed.

(** ** Remove on one cache, against an arbitrary related specification state *)
Lemma R_params : forall c s, R c s -> seqv (abs c) s.
Proof. intros. apply R_seqv. assumption. Qed.

Lemma remove_refines_ok : forall c s q b e c', Inv c -> R c s -> 0 <= b <= e -> remove c q b e = (c', OOk) ->
  Inv c' /\ R c' (fst (Spec.spec_remove s q b e)) /\ snd (Spec.spec_remove s q b e) = None.
Proof.
  intros c s q b e c' HI HR Hbe E.
  destruct (remove_ok c q b e c' HI Hbe E) as [HI' [HL [HW [HS [s' [Hs Ha]]]]]].
  destruct (spec_remove_perm (abs c) s q b e (R_params c s HR)) as [Hv Ho]. rewrite Hs in Hv, Ho. simpl in Hv, Ho.
  split; [exact HI'|]. split; [|symmetry; exact Ho].
  apply R_seqv. eapply seqv_trans; [|exact Hv].
  destruct (spec_remove_params (abs c) q b e) as [P1 [P2 P3]]. rewrite Hs in P1, P2, P3. simpl in P1, P2, P3.
  unfold seqv. rewrite P1, P2, P3. unfold abs. simpl. rewrite Ha, HL, HW, HS. auto.
Qed.

Lemma clear_refines : forall c s q, Inv c -> R c s ->
  snd (remove c q 0 MaxInt32) = OOk /\ Inv (fst (remove c q 0 MaxInt32)) /\ R (fst (remove c q 0 MaxInt32)) (sclear s q).
Proof.
  intros c s q HI HR. split; [apply remove_max_ok; exact HI|].
  destruct (remove_max_refines c s q 0 HI HR ltac:(unfold MaxInt32; lia)) as [A [B _]]. auto.
Qed.

Lemma remove_refines_err : forall c s q b e c' er, Inv c -> R c s -> 0 <= b <= e -> remove c q b e = (c', OErr er) ->
  (exists ser, snd (Spec.spec_remove s q b e) = Some ser /\ err_match er ser) /\
  snd (remove c' q 0 MaxInt32) = OOk /\ Inv (fst (remove c' q 0 MaxInt32)) /\ R (fst (remove c' q 0 MaxInt32)) (sclear s q).
Proof.
  intros c s q b e c' er HI HR Hbe E.
  destruct (remove_err c q b e c' er HI Hbe E) as [[ser [Hs Hm]] [HP [Hph [Hw [Hsh [Hpad [_ [_ Hrs]]]]]]]].
  destruct (spec_remove_perm (abs c) s q b e (R_params c s HR)) as [_ Ho]. rewrite Hs in Ho. simpl in Ho.
  split; [exists ser; split; [symmetry; exact Ho|exact Hm]|].
  destruct (clear_correct c c' q HI HP Hph Hw Hsh Hpad Hrs) as [c2 [Hc2 [HI2 [Ha [Hl [Hw2 Hs2]]]]]].
  rewrite Hc2. simpl. split; [reflexivity|]. split; [exact HI2|].
  destruct (spec_remove_perm (abs c) s q 0 MaxInt32 (R_params c s HR)) as [Hv _].
  apply R_seqv. eapply seqv_trans; [|exact Hv].
  destruct (spec_remove_params (abs c) q 0 MaxInt32) as [P1 [P2 P3]].
  unfold seqv. rewrite P1, P2, P3. unfold abs. simpl. rewrite Ha, Hl, Hw2, Hs2. auto.
Qed.

(** ** one operation of the wrapper *)
Lemma forward_meta_out : forall c batch, Inv c -> valid_batch batch ->
  snd (start_forward_meta true c batch) = OErr EFull \/ exists f, snd (start_forward_meta true c batch) = OFwd f.
Proof.
  intros c batch HI Hvb. pose proof (forward_correct c batch HI Hvb) as [_ [_ [_ [_ [_ H]]]]].
  rewrite start_forward_eq in H. destruct (snd (start_forward_meta true c batch)) eqn:E; simpl in H;
    destruct H as [[H _]|[f' [H _]]]; try discriminate; eauto.
Qed.

Theorem wstep_refines : forall w ws o, Inv2 w -> R2 w ws -> op_ok o ->
  Inv2 (fst (wpstep w o)) /\ R2 (fst (wpstep w o)) (fst (wspec_pstep ws o)) /\
  out_agree (snd (wpstep w o)) (snd (wspec_pstep ws o)).
Proof.
  intros [c0 c1] [s0 s1] o [HI0 HI1] [HR0 HR1] Hok. simpl in HI0, HI1, HR0, HR1.
  destruct o as [batch|src dst len|q b e|q p]; simpl in Hok.
  - (* StartForward *)
    unfold wpstep, wstep, wspec_pstep, wspec_forward.
    pose proof (step_refines c0 s0 (Forward batch) HI0 HR0 Hok) as [A0 [B0 C0]].
    pose proof (step_refines c1 s1 (Forward batch) HI1 HR1 Hok) as [A1 [B1 C1]].
    simpl in A0, B0, C0, A1, B1, C1. rewrite start_forward_eq in A0, B0, C0, A1, B1, C1.
    destruct (start_forward_meta true c0 batch) as [c0' r0] eqn:E0. simpl in A0, B0, C0.
    destruct (Spec.spec_forward s0 batch) as [s0' e0] eqn:Es0. simpl in B0, C0.
    destruct (forward_meta_out c0 batch HI0 Hok) as [H0|[f0 H0]]; rewrite E0 in H0; simpl in H0; subst r0.
    + (* the first cache is full *)
      simpl in *. destruct e0 as [ser|]; [|contradiction]. simpl.
      split; [split; assumption|]. split; [split; assumption|exact C0].
    + simpl in A0, B0, C0. destruct e0; [contradiction|].
      destruct (start_forward_meta true c1 batch) as [c1' r1] eqn:E1. simpl in A1, B1, C1.
      destruct (Spec.spec_forward s1 batch) as [s1' e1] eqn:Es1. simpl in B1, C1.
      destruct (forward_meta_out c1 batch HI1 Hok) as [H1|[f1 H1]]; rewrite E1 in H1; simpl in H1; subst r1.
      * (* the second cache is full: the first is unwound *)
        simpl in *. destruct e1 as [ser|]; [|contradiction]. simpl.
        destruct (unwind_after_forward c0 s0 batch c0' f0 HI0 HR0 Hok E0) as [HU1 HU2]. rewrite Es0 in HU2. simpl in HU2.
        split; [split; assumption|]. split; [split; assumption|exact C1].
      * simpl in *. destruct e1; [contradiction|]. simpl.
        split; [split; assumption|]. split; [split; assumption|exact I].
  - (* CopyPrefix *)
    unfold wpstep, wstep, wspec_pstep. simpl.
    pose proof (step_refines c0 s0 (Copy src dst len) HI0 HR0 I) as [A0 [B0 _]].
    pose proof (step_refines c1 s1 (Copy src dst len) HI1 HR1 I) as [A1 [B1 _]].
    simpl in *. split; [split; assumption|]. split; [split; assumption|exact I].
  - (* Remove, with the clean-up on failure *)
    unfold wpstep, wremove_c, wstep, wspec_pstep, wspec_remove_c.
    destruct (remove c0 q b e) as [c0' r0] eqn:E0.
    destruct (remove_out_shape c0 q b e) as [H0|[er0 H0]]; rewrite E0 in H0; simpl in H0; subst r0.
    + destruct (remove_refines_ok c0 s0 q b e c0' HI0 HR0 Hok E0) as [A0 [B0 C0]].
      destruct (Spec.spec_remove s0 q b e) as [s0' e0]. simpl in B0, C0. subst e0.
      destruct (remove c1 q b e) as [c1' r1] eqn:E1.
      destruct (remove_out_shape c1 q b e) as [H1|[er1 H1]]; rewrite E1 in H1; simpl in H1; subst r1.
      * destruct (remove_refines_ok c1 s1 q b e c1' HI1 HR1 Hok E1) as [A1 [B1 C1]].
        destruct (Spec.spec_remove s1 q b e) as [s1' e1]. simpl in B1, C1. subst e1. simpl.
        split; [split; assumption|]. split; [split; assumption|exact I].
      * destruct (remove_refines_err c1 s1 q b e c1' er1 HI1 HR1 Hok E1) as [[ser [Hs1 Hm]] [K1 [K2 K3]]].
        destruct (Spec.spec_remove s1 q b e) as [s1' e1]. simpl in Hs1. subst e1.
        destruct (clear_refines c0' s0' q A0 B0) as [L1 [L2 L3]].
        simpl. destruct (remove c0' q 0 MaxInt32) as [c0'' r0'']. simpl in L1, L2, L3. subst r0''.
        destruct (remove c1' q 0 MaxInt32) as [c1'' r1'']. simpl in K1, K2, K3. simpl.
        split; [split; assumption|]. split; [split; assumption|exact Hm].
    + destruct (remove_refines_err c0 s0 q b e c0' er0 HI0 HR0 Hok E0) as [[ser [Hs0 Hm]] [K1 [K2 K3]]].
      destruct (Spec.spec_remove s0 q b e) as [s0' e0]. simpl in Hs0. subst e0.
      destruct (clear_refines c1 s1 q HI1 HR1) as [L1 [L2 L3]].
      simpl. destruct (remove c0' q 0 MaxInt32) as [c0'' r0'']. simpl in K1, K2, K3. subst r0''.
      destruct (remove c1 q 0 MaxInt32) as [c1'' r1'']. simpl in L1, L2, L3. simpl.
      split; [split; assumption|]. split; [split; assumption|exact Hm].
  - (* CanResume *)
    unfold wpstep, wstep, wspec_pstep. simpl.
    split; [split; assumption|]. split; [split; assumption|].
    rewrite (can_resume_correct c0 q p HI0), (can_resume_correct c1 q p HI1).
    rewrite (spec_can_resume_perm (abs c0) s0 q p (R_params _ _ HR0)), (spec_can_resume_perm (abs c1) s1 q p (R_params _ _ HR1)).
    reflexivity.
Qed.

Theorem wprun_refines : forall ops w ws, Inv2 w -> R2 w ws -> Forall op_ok ops ->
  Inv2 (wprun w ops) /\ R2 (wprun w ops) (wspec_prun ws ops).
Proof.
  induction ops as [|o t IH]; intros w ws HI HR Hok; simpl; auto.
  inversion Hok as [|? ? Ho Ht]; subst.
  destruct (wstep_refines w ws o HI HR Ho) as [HI' [HR' _]]. apply IH; assumption.
Qed.

(** each layer type sees exactly the history of its own cache *)
Theorem wrapper_visible : forall c0 c1 s0 s1 batch w' f0 f1, Inv c0 -> Inv c1 -> R c0 s0 -> R c1 s1 -> valid_batch batch ->
  wstep true (c0, c1) (Forward batch) = (w', OFwd f0, OFwd f1) ->
  fst w' = fst (start_forward true c0 batch) /\ snd w' = fst (start_forward true c1 batch) /\
  fwd_vis_ok (fst w') batch f0 /\ fwd_vis_ok (snd w') batch f1.
Proof.
  intros c0 c1 s0 s1 batch w' f0 f1 HI0 HI1 HR0 HR1 Hvb H. unfold wstep in H.
  destruct (start_forward_meta true c0 batch) as [c0' r0] eqn:E0. destruct r0 as [g0| | | |]; try (injection H; intros; discriminate).
  destruct (start_forward_meta true c1 batch) as [c1' r1] eqn:E1. destruct r1 as [g1| | | |]; try (injection H; intros; discriminate).
  injection H as <- <- <-. simpl.
  pose proof (forward_correct c0 batch HI0 Hvb) as F0. pose proof (forward_correct c1 batch HI1 Hvb) as F1.
  rewrite start_forward_eq, E0 in F0 |- *. rewrite start_forward_eq, E1 in F1 |- *. simpl in *.
  destruct F0 as [_ [_ [_ [_ [_ [[X _]|[f [X [_ V0]]]]]]]]]; [discriminate|]. injection X as <-.
  destruct F1 as [_ [_ [_ [_ [_ [[X _]|[f [X [_ V1]]]]]]]]]; [discriminate|]. injection X as <-.
  auto.
Qed.

(** ** what the unwind leaves behind when the batch continued its sequences (fresh positions) *)
Lemma spec_remove_max_cells : forall s q p, (forall a, In a (Spec.s_cells s) -> Spec.a_pos a < MaxInt32) ->
  fst (Spec.spec_remove s q p MaxInt32) = Spec.with_cells s (Spec.prune (map (Spec.rm_cell q p MaxInt32) (Spec.s_cells s))).
Proof.
  intros s q p Hp. unfold Spec.spec_remove.
  assert (Hb : existsb (Spec.rm_blocked q p MaxInt32) (Spec.s_cells s) = false).
  { destruct (existsb _ _) eqn:E; auto. apply existsb_exists in E. destruct E as [a [Ha Hb]]. specialize (Hp a Ha).
    unfold Spec.rm_blocked in Hb. change Spec.MaxInt32 with MaxInt32 in *.
    destruct (Z.leb_spec MaxInt32 (Spec.a_pos a)); [lia|]. rewrite andb_false_r in Hb. discriminate. }
  rewrite Hb. destruct (negb _); [reflexivity|]. change Spec.MaxInt32 with MaxInt32. rewrite Z.eqb_refl. reflexivity.
Qed.

Lemma spec_unwind_fresh : forall batch s l B,
  Forall (fun a => Spec.live a = true) l ->
  (forall a, In a l -> Spec.a_pos a < MaxInt32) ->
  Forall (fun e : entry => 0 <= e_pos e < MaxInt32) batch ->
  (forall q p t a, In (q, p, t) batch -> In a l -> Spec.has q a = true -> Spec.a_pos a < p) ->
  (forall x, In x B -> exists e, In e batch /\ x = Spec.entry_cell e) ->
  Spec.s_cells (spec_unwind (Spec.with_cells s (l ++ B)) batch) = l.
Proof.
  induction batch as [|[[q p] t] r IH]; intros s l B Hlive Hpos Hval Hfresh HB; simpl.
  - destruct B as [|x B]; [apply app_nil_r|]. destruct (HB x (or_introl eq_refl)) as [e [[] _]].
  - inversion Hval as [|? ? Hp Hr]; subst. unfold e_pos in Hp. simpl in Hp.
    rewrite spec_remove_max_cells.
    2:{ simpl. intros a Ha. apply in_app_or in Ha. destruct Ha as [Ha|Ha]; [auto|].
        destruct (HB a Ha) as [[[q' p'] t'] [Hin ->]]. simpl. rewrite Forall_forall in Hval. apply (Hval _ Hin). }
    simpl. rewrite map_app. unfold Spec.prune. rewrite filter_app.
    assert (Hl : filter Spec.live (map (Spec.rm_cell q p MaxInt32) l) = l).
    { clear IH HB. induction l as [|a l' IHl]; simpl; auto. inversion Hlive as [|? ? Ha Hl']; subst.
      assert (E : Spec.rm_cell q p MaxInt32 a = a).
      { unfold Spec.rm_cell. destruct (Spec.has q a) eqn:Hq; [|reflexivity].
        pose proof (Hfresh q p t a (or_introl eq_refl) (or_introl eq_refl) Hq) as Hlt.
        pose proof (Hpos a (or_introl eq_refl)) as Hm. unfold Spec.in_range.
        destruct (Z.leb_spec p (Spec.a_pos a)); [lia|]. simpl. destruct (Z.leb_spec MaxInt32 (Spec.a_pos a)); [lia|reflexivity]. }
      rewrite E, Ha. f_equal. apply IHl; auto.
      - intros a' Ha'. apply Hpos. right. exact Ha'.
      - intros q0 p0 t0 a0 Hi Ha0. apply (Hfresh q0 p0 t0 a0 Hi). right. exact Ha0. }
    rewrite Hl.
    apply (IH (Spec.with_cells s (l ++ B)) l (filter Spec.live (map (Spec.rm_cell q p MaxInt32) B))); auto.
    + intros q0 p0 t0 a Hi. apply (Hfresh q0 p0 t0 a). right. exact Hi.
    + intros x Hx. apply filter_In in Hx. destruct Hx as [Hx Hlx]. apply in_map_iff in Hx. destruct Hx as [y [<- Hy]].
      destruct (HB y Hy) as [[[q' p'] t'] [Hin ->]]. destruct Hin as [E|Hin].
      * (* the entry of this very token does not survive *)
        injection E as <- <- <-. exfalso. unfold Spec.rm_cell, Spec.entry_cell, Spec.has, Spec.in_range in Hlx. simpl in Hlx.
        rewrite Nat.eqb_refl in Hlx. simpl in Hlx. destruct (Z.leb_spec p p); [|lia].
        change Spec.MaxInt32 with MaxInt32 in *. destruct (Z.ltb_spec p MaxInt32); [|lia]. simpl in Hlx.
        unfold Spec.drop_seq, Spec.live in Hlx. simpl in Hlx. rewrite Nat.eqb_refl in Hlx. discriminate.
      * exists (q', p', t'). split; [exact Hin|].
        unfold Spec.rm_cell, Spec.entry_cell, Spec.has, Spec.in_range in *. simpl in *. rewrite orb_false_r in *.
        destruct (Nat.eqb_spec q q') as [->|Hne]; [|reflexivity].
        change Spec.MaxInt32 with MaxInt32 in *.
        destruct ((p <=? p') && (p' <? MaxInt32)) eqn:Er.
        -- exfalso. unfold Spec.drop_seq, Spec.live in Hlx. simpl in Hlx. rewrite Nat.eqb_refl in Hlx. discriminate.
        -- rewrite Forall_forall in Hr. specialize (Hr _ Hin). unfold e_pos in Hr. simpl in Hr.
           destruct (Z.leb_spec MaxInt32 p'); [lia|reflexivity].
Qed.

Lemma R_cells_facts : forall c s, Inv c -> R c s ->
  Forall (fun a => Spec.live a = true) (Spec.s_cells s) /\ (forall a, In a (Spec.s_cells s) -> 0 <= Spec.a_pos a < MaxInt32).
Proof.
  intros c s HI [HP _].
  assert (H : forall a, In a (abs_cells (cells c) (phys c)) -> Spec.live a = true /\ 0 <= Spec.a_pos a < MaxInt32).
  { intros a Ha. unfold abs_cells in Ha. apply in_map_iff in Ha. destruct Ha as [p [<- Hp]]. split.
    - rewrite live_spec. unfold live_pairs in Hp. apply filter_In in Hp. tauto.
    - pose proof (inv_data c HI) as HD. rewrite Forall_forall in HD. destruct (HD p Hp) as [x [_ [_ Hb]]]. exact Hb. }
  split.
  - apply Forall_forall. intros a Ha. apply (H a). eapply Permutation_in; [apply Permutation_sym; exact HP|exact Ha].
  - intros a Ha. apply (H a). eapply Permutation_in; [apply Permutation_sym; exact HP|exact Ha].
Qed.

Lemma evict_facts : forall w batch l a', In a' (Spec.evict w batch l) ->
  Spec.live a' = true \/ w = None /\ In a' l.
Proof.
  intros w batch l a' H. unfold Spec.evict in H. destruct w; [|right; auto]. left. unfold Spec.prune in H. apply filter_In in H. tauto.
Qed.

Lemma evict_origin : forall w batch l a', In a' (Spec.evict w batch l) ->
  exists a, In a l /\ Spec.a_pos a' = Spec.a_pos a /\ (forall q, Spec.has q a' = true -> Spec.has q a = true).
Proof.
  intros w batch l a' H. unfold Spec.evict in H. destruct w as [w|]; [|exists a'; auto].
  unfold Spec.prune in H. apply filter_In in H. destruct H as [H _]. apply in_map_iff in H. destruct H as [a [<- Ha]].
  exists a. split; [exact Ha|]. split; [reflexivity|]. intros q Hq. unfold Spec.evict_cell, Spec.has in *. simpl in Hq.
  apply existsb_exists in Hq. destruct Hq as [x [Hx Hxe]]. apply filter_In in Hx. apply existsb_exists. exists x. tauto.
Qed.

(** a forward pass that the wrapper refuses, the batch continuing its sequences: the first cache holds exactly what it held
    before minus what its window evicted - whichever of the two caches was full - and the second cache likewise *)
Theorem wrapper_full_fresh : forall c0 c1 s0 s1 batch,
  Inv c0 -> Inv c1 -> R c0 s0 -> R c1 s1 -> valid_batch batch ->
  (forall q p t a, In (q, p, t) batch -> In a (Spec.s_cells s0) -> Spec.has q a = true -> Spec.a_pos a < p) ->
  snd (wpstep (c0, c1) (Forward batch)) = OErr EFull ->
  let w' := fst (wpstep (c0, c1) (Forward batch)) in
  Inv2 w' /\
  exists s0' s1', R (fst w') s0' /\ R (snd w') s1' /\
    Spec.s_cells s0' = Spec.evict (Spec.s_window s0) batch (Spec.s_cells s0) /\
    (s1' = s1 \/ Spec.s_cells s1' = Spec.evict (Spec.s_window s1) batch (Spec.s_cells s1)).
Proof.
  intros c0 c1 s0 s1 batch HI0 HI1 HR0 HR1 Hvb Hfresh Hout. cbv zeta.
  destruct (wstep_refines (c0, c1) (s0, s1) (Forward batch) (conj HI0 HI1) (conj HR0 HR1) Hvb) as [HI' [[HRa HRb] Hag]].
  split; [exact HI'|]. rewrite Hout in Hag. simpl in HRa, HRb, Hag.
  unfold wspec_forward in HRa, HRb, Hag. unfold Spec.spec_forward in HRa, HRb, Hag.
  set (l0 := Spec.evict (Spec.s_window s0) batch (Spec.s_cells s0)) in *.
  set (l1 := Spec.evict (Spec.s_window s1) batch (Spec.s_cells s1)) in *.
  destruct (_ <? _)%nat in HRa, HRb, Hag.
  - simpl in *. exists (Spec.with_cells s0 l0), s1. auto.
  - destruct (_ <? _)%nat in HRa, HRb, Hag; simpl in *; [|contradiction].
    eexists. exists (Spec.with_cells s1 l1). split; [exact HRa|]. split; [exact HRb|]. split; [|right; reflexivity].
    destruct (R_cells_facts c0 s0 HI0 HR0) as [Hlive Hpos]. destruct Hvb as [_ Hval].
    apply spec_unwind_fresh; auto.
    + apply Forall_forall. intros a' Ha'. destruct (evict_facts _ _ _ _ Ha') as [H|[_ H]]; [exact H|].
      rewrite Forall_forall in Hlive. auto.
    + intros a' Ha'. destruct (evict_origin _ _ _ _ Ha') as [a [Ha [Hp _]]]. rewrite Hp. apply Hpos. exact Ha.
    + intros q p t a' Hin Ha' Hq. destruct (evict_origin _ _ _ _ Ha') as [a [Ha [Hp Hh]]]. rewrite Hp.
      apply (Hfresh q p t a Hin Ha). apply Hh. exact Hq.
    + intros x Hx. apply in_map_iff in Hx. destruct Hx as [e [<- He]]. exists e. auto.
Qed.

(** ** backend faults and the recovery *)
Theorem fault_forward_recovers : forall c s batch c', Inv c -> R c s -> valid_batch batch ->
  start_forward_fault true c batch = (c', OErr EBackend) ->
  Inv (unwind c' batch) /\ R (unwind c' batch) (spec_unwind (fst (Spec.spec_forward s batch)) batch).
Proof.
  intros c s batch c' HI HR Hvb H. unfold start_forward_fault in H.
  destruct (start_forward_meta true c batch) as [c1 r] eqn:E.
  destruct (forward_meta_out c batch HI Hvb) as [Hr|[f Hr]]; rewrite E in Hr; simpl in Hr; subst r.
  - discriminate.
  - injection H as <-. apply (unwind_after_forward c s batch c1 f HI HR Hvb E).
Qed.

Lemma Inv_set_shift : forall c b, Inv c -> Inv (set_shift c b).
Proof. intros c b [A B C D E F]. constructor; assumption. Qed.

Definition sset_shift (s : Spec.sstate) (b : bool) : Spec.sstate := Spec.mkS (Spec.s_cells s) (Spec.s_window s) (Spec.s_cap s) b.

Lemma R_set_shift : forall c s b, R c s -> R (set_shift c b) (sset_shift s b).
Proof. intros c s b [A [B [C D]]]. unfold R. simpl. auto. Qed.

Lemma remove_max_set_shift : forall c q b b',
  remove (set_shift c b') q b MaxInt32 = (set_shift (fst (remove c q b MaxInt32)) b', snd (remove c q b MaxInt32)).
Proof.
  intros. unfold remove. rewrite Z.eqb_refl. simpl.
  destruct (rm_loop q b MaxInt32 0 0 (cells c) new_range) as [[cs r] er]. destruct er; [reflexivity|].
  destruct ((fst r =? MaxInt) && (snd r =? 0)); reflexivity.
Qed.

Lemma sclear_set_shift : forall s q b, Spec.s_cells (sclear (sset_shift s b) q) = Spec.s_cells (sclear s q).
Proof.
  intros. unfold sclear, Spec.spec_remove. simpl. destruct (existsb _ (Spec.s_cells s)); [reflexivity|].
  destruct (negb _); reflexivity.
Qed.

Lemma remove_no_backend : forall c q b e, snd (remove c q b e) <> OErr EBackend.
Proof.
  intros. unfold remove. destruct (rm_loop _ _ _ _ _ _ _) as [[? ?] []]; simpl; [discriminate|].
  repeat match goal with |- context [if ?x then _ else _] => destruct x end; simpl; discriminate.
Qed.

Theorem fault_remove_recovers : forall c s q b e c', Inv c -> R c s -> 0 <= b <= e ->
  remove_fault c q b e = (c', OErr EBackend) ->
  snd (remove c' q 0 MaxInt32) = OOk /\ Inv (fst (remove c' q 0 MaxInt32)) /\ R (fst (remove c' q 0 MaxInt32)) (sclear s q).
Proof.
  intros c s q b e c' HI HR Hbe H. unfold remove_fault in H.
  destruct (remove (set_shift c false) q b e) as [c1 r] eqn:E. injection H as <- Hr.
  assert (Er : r = OErr ENotSupported).
  { pose proof (remove_no_backend (set_shift c false) q b e) as Hn. rewrite E in Hn. simpl in Hn.
    destruct r as [f|er| |bb|]; try discriminate. destruct er; try discriminate; [reflexivity|contradiction]. }
  subst r.
  destruct (remove_refines_err (set_shift c false) (sset_shift s false) q b e c1 ENotSupported
              (Inv_set_shift c false HI) (R_set_shift c s false HR) Hbe E) as [_ [K1 [K2 K3]]].
  rewrite remove_max_set_shift. simpl. split; [exact K1|]. split; [apply Inv_set_shift; exact K2|].
  destruct K3 as [A [B [C D]]]. unfold R. simpl. rewrite sclear_set_shift in A.
  destruct HR as [_ [HB [HC HD]]].
  destruct (spec_remove_params s q 0 MaxInt32) as [P1 [P2 P3]].
  destruct (spec_remove_params (sset_shift s false) q 0 MaxInt32) as [Q1 [Q2 Q3]].
  unfold sclear in *. change Spec.MaxInt32 with MaxInt32 in *. rewrite P1, P2, P3. rewrite Q1 in B. rewrite Q2 in C. simpl in B, C.
  split; [exact A|]. split; [exact B|]. split; [exact C|]. exact HD.
Qed.
