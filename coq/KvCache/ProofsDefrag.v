(** KvCache/ProofsDefrag.v - correctness of the (repaired) defragmentation loop of KvCache/Model.v:
    the multiset of live (metadata, data) pairs is preserved - every live cell keeps the K/V row that was stored
    for it, although rows are copied late and block-wise - and afterwards all live cells precede all free ones. *)
From Coq Require Import List ZArith NArith Bool Arith Lia Permutation.
From V Require Import KvCache.Model KvCache.ProofsList KvCache.ProofsInv.
Import ListNotations.

Definition dflt : pair := (empty_cell, None).

Ltac nat_cases :=
  repeat match goal with
         | |- context [Nat.leb ?a ?b] => destruct (Nat.leb_spec a b)
         | |- context [Nat.ltb ?a ?b] => destruct (Nat.ltb_spec a b)
         | |- context [Nat.eqb ?a ?b] => destruct (Nat.eqb_spec a b)
         end; simpl; try lia; try reflexivity.

Lemma nth_app_if : forall A (a b : list A) i d,
  nth i (a ++ b) d = if (i <? length a)%nat then nth i a d else nth (i - length a) b d.
Proof. intros. destruct (Nat.ltb_spec i (length a)); [apply app_nth1|apply app_nth2]; lia. Qed.

Lemma nth_cons_if : forall A (x : A) l i d, nth i (x :: l) d = if (i =? 0)%nat then x else nth (i - 1) l d.
Proof. intros. destruct i; simpl; [reflexivity|]. rewrite Nat.sub_0_r. reflexivity. Qed.

(** ** the logical view of a loop state: what the cache holds once the pending move is flushed *)
Definition lp (st : dstate) (i : nat) : pair :=
  if (d_pd st <=? i)%nat && (i <? d_pd st + d_pl st)%nat then
    (cell_at (d_cells st) (d_pd st + d_pl st - 1 - (i - d_pd st)), nth (d_ps st + (i - d_pd st)) (d_phys st) None)
  else (cell_at (d_cells st) i, nth i (d_phys st) None).

Definition lview (st : dstate) : list pair := map (lp st) (seq 0 (length (d_cells st))).

Lemma lview_length : forall st, length (lview st) = length (d_cells st).
Proof. intros. unfold lview. rewrite map_length, seq_length. reflexivity. Qed.

Lemma nth_lview : forall st i, (i < length (d_cells st))%nat -> nth i (lview st) dflt = lp st i.
Proof.
  intros st i H. unfold lview.
  rewrite (nth_indep _ dflt (lp st 0%nat)) by (rewrite map_length, seq_length; assumption).
  rewrite map_nth. rewrite seq_nth by assumption. reflexivity.
Qed.

(** flushing realises the logical view *)
Lemma flush_view : forall st,
  length (d_phys st) = length (d_cells st) ->
  (d_pl st = 0 \/ d_pd st + d_pl st <= length (d_cells st))%nat ->
  combine (d_cells (flush true st)) (d_phys (flush true st)) = lview st /\
  length (d_cells (flush true st)) = length (d_cells st) /\
  length (d_phys (flush true st)) = length (d_cells st) /\
  d_pl (flush true st) = 0%nat /\ d_src (flush true st) = d_src st.
Proof.
  intros st Hl Hp. unfold flush. destruct (Nat.eqb_spec (d_pl st) 0) as [E|E]; cbv iota.
  - repeat split; auto. apply (nth_ext _ _ dflt dflt).
    + rewrite combine_length, lview_length, Hl, Nat.min_id. reflexivity.
    + intros i Hi. rewrite combine_length, Hl, Nat.min_id in Hi.
      rewrite nth_lview by assumption. unfold dflt. rewrite nth_combine by assumption.
      unfold lp. rewrite E. nat_cases.
  - destruct Hp as [Hp|Hp]; [lia|]. simpl.
    assert (L1 : length (reverse_block (d_pd st) (d_pl st) (d_cells st)) = length (d_cells st)) by (apply reverse_block_length; lia).
    assert (L2 : length (move_cells (d_ps st) (d_pd st) (d_pl st) (d_phys st)) = length (d_cells st)) by (rewrite move_cells_length; assumption).
    repeat split; auto. apply (nth_ext _ _ dflt dflt).
    + rewrite combine_length, lview_length, L1, L2, Nat.min_id. reflexivity.
    + intros i Hi. rewrite combine_length, L1, L2, Nat.min_id in Hi.
      rewrite nth_lview by assumption. unfold dflt. rewrite nth_combine by (rewrite ?L1, ?L2; auto).
      unfold cell_at. rewrite nth_reverse_block by lia. rewrite nth_move_cells by lia.
      unfold lp, cell_at. nat_cases.
Qed.

(** ** one move seen on the logical view: the pair at [s] is inserted at [pd], the pending block shifts right by one
    over the free location [pd+pl], and [s] becomes free *)
Definition ins (pd pl s : nat) (L : list pair) : list pair :=
  firstn pd L ++ nth s L dflt :: firstn pl (skipn pd L)
  ++ firstn (s - (pd + pl + 1)) (skipn (pd + pl + 1) L) ++ (empty_cell, snd (nth s L dflt)) :: skipn (S s) L.

Lemma ins_length : forall pd pl s L, (pd + pl < s)%nat -> (s < length L)%nat -> length (ins pd pl s L) = length L.
Proof.
  intros. unfold ins. rewrite app_length. cbn [length]. rewrite !app_length. cbn [length].
  rewrite !firstn_length, !skipn_length. lia.
Qed.

Lemma nth_ins : forall pd pl s L i, (pd + pl < s)%nat -> (s < length L)%nat -> (i < length L)%nat ->
  nth i (ins pd pl s L) dflt =
  if (i <? pd)%nat then nth i L dflt
  else if (i =? pd)%nat then nth s L dflt
  else if (i <=? pd + pl)%nat then nth (i - 1) L dflt
  else if (i <? s)%nat then nth i L dflt
  else if (i =? s)%nat then (empty_cell, snd (nth s L dflt))
  else nth i L dflt.
Proof.
  intros pd pl s L i H1 H2 H3. unfold ins.
  rewrite nth_app_if, firstn_length, Nat.min_l by lia.
  destruct (Nat.ltb_spec i pd).
  { rewrite nth_firstn'. nat_cases. }
  rewrite nth_cons_if. destruct (Nat.eqb_spec i pd).
  { subst. rewrite Nat.sub_diag. reflexivity. }
  destruct (Nat.eqb_spec (i - pd) 0); [lia|].
  rewrite nth_app_if, firstn_length, skipn_length, Nat.min_l by lia.
  destruct (Nat.leb_spec i (pd + pl)).
  { destruct (Nat.ltb_spec (i - pd - 1) pl); [|lia]. rewrite nth_firstn', nth_skipn'.
    destruct (Nat.ltb_spec (i - pd - 1) pl); [|lia]. f_equal. lia. }
  destruct (Nat.ltb_spec (i - pd - 1) pl); [lia|].
  rewrite nth_app_if, firstn_length, skipn_length, Nat.min_l by lia.
  destruct (Nat.ltb_spec i s).
  { destruct (Nat.ltb_spec (i - pd - 1 - pl) (s - (pd + pl + 1))); [|lia].
    rewrite nth_firstn', nth_skipn'. destruct (Nat.ltb_spec (i - pd - 1 - pl) (s - (pd + pl + 1))); [|lia]. f_equal. lia. }
  destruct (Nat.ltb_spec (i - pd - 1 - pl) (s - (pd + pl + 1))); [lia|].
  rewrite nth_cons_if. destruct (Nat.eqb_spec i s).
  { subst. destruct (Nat.eqb_spec (s - pd - 1 - pl - (s - (pd + pl + 1))) 0); [reflexivity|lia]. }
  destruct (Nat.eqb_spec (i - pd - 1 - pl - (s - (pd + pl + 1))) 0); [lia|].
  rewrite nth_skipn'. f_equal. lia.
Qed.

Lemma firstn_plus : forall A (l : list A) a b, firstn (a + b) l = firstn a l ++ firstn b (skipn a l).
Proof.
  intros A l. induction l as [|h t IH]; intros a b.
  - rewrite skipn_nil, !firstn_nil. reflexivity.
  - destruct a as [|a]; simpl; [reflexivity|]. f_equal. apply IH.
Qed.

(** [L] cut at the same places as [ins pd pl s L] *)
Lemma ins_decompose : forall pd pl s (L : list pair), (pd + pl < s)%nat -> (s < length L)%nat ->
  L = firstn pd L ++ firstn pl (skipn pd L) ++ nth (pd + pl) L dflt
      :: firstn (s - (pd + pl + 1)) (skipn (pd + pl + 1) L) ++ nth s L dflt :: skipn (S s) L.
Proof.
  intros pd pl s L H1 H2.
  rewrite (list_split_nth _ L (pd + pl) dflt) at 1 by lia.
  rewrite firstn_plus, <- app_assoc. f_equal. f_equal. f_equal.
  replace (S (pd + pl)) with (pd + pl + 1)%nat by lia.
  set (R := skipn (pd + pl + 1) L).
  assert (HR : (s - (pd + pl + 1) < length R)%nat) by (unfold R; rewrite skipn_length; lia).
  rewrite (list_split_nth _ R (s - (pd + pl + 1)) dflt) at 1 by assumption.
  f_equal. f_equal.
  - unfold R. rewrite nth_skipn'. f_equal. lia.
  - unfold R. rewrite skipn_skipn'. f_equal. lia.
Qed.

Lemma ins_perm : forall pd pl s L, (pd + pl < s)%nat -> (s < length L)%nat ->
  livep (nth (pd + pl) L dflt) = false ->
  Permutation (filter livep (ins pd pl s L)) (filter livep L).
Proof.
  intros pd pl s L H1 H2 Hd.
  rewrite (ins_decompose pd pl s L H1 H2) at 2. unfold ins.
  set (A := firstn pd L). set (M := firstn pl (skipn pd L)).
  set (B := firstn (s - (pd + pl + 1)) (skipn (pd + pl + 1) L)). set (C := skipn (S s) L).
  set (x := nth s L dflt).
  rewrite !filter_app. simpl. rewrite !filter_app. simpl. rewrite Hd.
  replace (livep (empty_cell, snd x)) with false by reflexivity.
  apply Permutation_app_head.
  destruct (livep x).
  - change (x :: filter livep M ++ filter livep B ++ filter livep C)
      with ([x] ++ filter livep M ++ filter livep B ++ filter livep C).
    rewrite (app_assoc (filter livep M)), (app_assoc [x]).
    replace (filter livep M ++ filter livep B ++ x :: filter livep C)
      with (((filter livep M ++ filter livep B) ++ [x]) ++ filter livep C)
      by (rewrite <- !app_assoc; reflexivity).
    apply Permutation_app_tail. apply Permutation_app_comm.
  - reflexivity.
Qed.

(** ** scanning for the next source *)
Lemma scan_src_spec : forall l dst src, (dst <= src)%nat ->
  let s := scan_src l dst src in
  (dst <= s <= src)%nat /\
  (forall i, (s < i <= src)%nat -> live (cell_at l i) = false) /\
  ((dst < s)%nat -> live (cell_at l s) = true).
Proof.
  intros l dst src. induction src as [|s' IH]; intros H; cbv zeta; cbn [scan_src].
  - repeat split; try lia; intros; lia.
  - destruct (Nat.leb_spec (S s') dst).
    + repeat split; try lia; intros; lia.
    + destruct (live (cell_at l (S s'))) eqn:E.
      * repeat split; try lia; intros; try lia. exact E.
      * destruct IH as [I1 [I2 I3]]; [lia|]. repeat split; try lia.
        -- intros i Hi. destruct (Nat.eq_dec i (S s')); [subst; exact E|]. apply I2. lia.
        -- exact I3.
Qed.

(** ** the loop invariant *)
Record J (n : nat) (L0 : list pair) (dst : nat) (st : dstate) : Prop := mkJ {
  j_lc : length (d_cells st) = n;
  j_lp : length (d_phys st) = n;
  j_src : (d_src st < n \/ (n = 0 /\ d_src st = 0))%nat;
  j_dst : (dst <= S (d_src st))%nat;
  j_live : forall i, (i < dst)%nat -> (i < d_src st)%nat -> live (cell_at (d_cells st) i) = true;
  j_dead : forall i, (d_src st < i)%nat -> live (cell_at (d_cells st) i) = false;
  j_pend : (d_pl st = 0 \/ (d_pd st + d_pl st <= dst /\ d_pd st + d_pl st <= d_src st /\ d_src st <= d_ps st /\ d_ps st + d_pl st <= n))%nat;
  j_perm : Permutation (filter livep (lview st)) (filter livep L0)
}.

(** the move on the logical view *)
Lemma do_move_view : forall n L0 dst st s,
  J n L0 dst st -> (dst < s)%nat -> (s <= d_src st)%nat ->
  lview (do_move true st dst s) =
  (if (0 <? d_pl st)%nat && merge_test true st dst s then ins (d_pd st) (d_pl st) s (lview st) else ins dst 0 s (lview st))
  /\ length (d_cells (do_move true st dst s)) = n /\ length (d_phys (do_move true st dst s)) = n.
Proof.
  intros n L0 dst st s HJ Hds Hss. destruct HJ as [Hlc Hlp Hsrc Hdst _ _ Hpend _].
  assert (Hsn : (s < n)%nat) by lia.
  set (cs := set_nth s empty_cell (set_nth dst (cell_at (d_cells st) s) (d_cells st))).
  assert (Lcs : length cs = n) by (unfold cs; rewrite !set_nth_length; exact Hlc).
  assert (Hcs : forall i, cell_at cs i = if (i =? s)%nat then empty_cell else if (i =? dst)%nat then cell_at (d_cells st) s else cell_at (d_cells st) i).
  { intros i. unfold cs, cell_at. rewrite !nth_set_nth, !set_nth_length. rewrite Hlc. nat_cases. }
  unfold do_move. fold cs.
  destruct ((0 <? d_pl st)%nat && merge_test true st dst s) eqn:Em.
  - (* merged into the pending move *)
    apply andb_true_iff in Em. destruct Em as [E0 Em]. apply Nat.ltb_lt in E0.
    unfold merge_test in Em. apply andb_true_iff in Em. destruct Em as [E1 E2].
    apply Nat.eqb_eq in E1, E2. destruct Hpend as [Hp|[Hp1 [Hp1' [Hp2 Hp3]]]]; [lia|].
    simpl. split; [|split; assumption].
    apply (nth_ext _ _ dflt dflt).
    + rewrite lview_length, ins_length; rewrite ?lview_length; simpl; lia.
    + intros i Hi. rewrite lview_length in Hi. simpl in Hi. rewrite Lcs in Hi.
      rewrite nth_lview by (simpl; lia). rewrite nth_ins by (rewrite ?lview_length; lia).
      rewrite !nth_lview by lia. unfold lp. simpl. rewrite !Hcs.
      nat_cases; f_equal; try (f_equal; lia); try reflexivity.
  - (* the pending move is flushed, a new one starts *)
    set (st0 := mkD cs (d_phys st) s (d_ps st) (d_pd st) (d_pl st)).
    assert (Hf : combine (d_cells (flush true st0)) (d_phys (flush true st0)) = lview st0 /\
                 length (d_cells (flush true st0)) = length (d_cells st0) /\
                 length (d_phys (flush true st0)) = length (d_cells st0) /\
                 d_pl (flush true st0) = 0%nat /\ d_src (flush true st0) = d_src st0).
    { apply flush_view; simpl; [lia|]. destruct Hpend as [Hp|Hp]; [left; exact Hp|right; lia]. }
    destruct Hf as [Hv [Hfc [Hfp _]]]. simpl in Hfc, Hfp. rewrite Lcs in Hfc, Hfp.
    simpl. split; [|split; assumption].
    assert (Hpair : forall i, (i < n)%nat ->
              (cell_at (d_cells (flush true st0)) i, nth i (d_phys (flush true st0)) None) = lp st0 i).
    { intros i Hi. rewrite <- nth_combine by lia. rewrite Hv. apply nth_lview. simpl. lia. }
    assert (Hmt : (0 <? d_pl st)%nat = false \/ merge_test true st dst s = false).
    { apply andb_false_iff in Em. exact Em. }
    apply (nth_ext _ _ dflt dflt).
    + rewrite lview_length, ins_length; rewrite ?lview_length; simpl; lia.
    + intros i Hi. rewrite lview_length in Hi. simpl in Hi. rewrite Hfc in Hi.
      rewrite nth_lview by (simpl; lia). rewrite nth_ins by (rewrite ?lview_length; lia).
      rewrite !nth_lview by lia.
      unfold lp at 1. simpl.
      pose proof (Hpair i Hi) as Pi. pose proof (Hpair s Hsn) as Ps. pose proof (Hpair dst ltac:(lia)) as Pd.
      assert (Ci : cell_at (d_cells (flush true st0)) i = fst (lp st0 i)) by (rewrite <- Pi; reflexivity).
      assert (Di : nth i (d_phys (flush true st0)) None = snd (lp st0 i)) by (rewrite <- Pi; reflexivity).
      assert (Ds : nth s (d_phys (flush true st0)) None = snd (lp st0 s)) by (rewrite <- Ps; reflexivity).
      assert (Cd : cell_at (d_cells (flush true st0)) dst = fst (lp st0 dst)) by (rewrite <- Pd; reflexivity).
      replace (dst + 1 - 1 - (i - dst))%nat with (dst - (i - dst))%nat by lia.
      destruct Hpend as [Hp|[Hp1 [Hp1' [Hp2 Hp3]]]].
      * (* nothing was pending *)
        unfold lp in *. simpl in *. rewrite Hp in *. rewrite !Hcs in *.
        nat_cases; try (replace (dst - (i - dst))%nat with dst in * by lia);
          rewrite ?Ci, ?Di, ?Ds, ?Cd; nat_cases; try reflexivity; f_equal; try lia; try reflexivity.
        all: try (replace (s + (i - dst))%nat with s by lia; rewrite Ds; nat_cases; reflexivity).
        all: try (subst; reflexivity).
        all: try (f_equal; lia).
      * unfold lp in *. simpl in *. rewrite !Hcs in *.
        nat_cases; try (replace (dst - (i - dst))%nat with dst in * by lia);
          rewrite ?Ci, ?Di, ?Ds, ?Cd; nat_cases; try reflexivity; f_equal; try lia; try reflexivity.
        all: try (replace (s + (i - dst))%nat with s by lia; rewrite Ds; nat_cases; reflexivity).
        all: try (subst; reflexivity).
        all: try (f_equal; lia).
Qed.

(** liveness of the metadata after a move *)
Lemma do_move_live : forall n L0 dst st s,
  J n L0 dst st -> (dst < s)%nat -> (s <= d_src st)%nat ->
  live (cell_at (d_cells st) dst) = false -> live (cell_at (d_cells st) s) = true ->
  (forall i, (s < i <= d_src st)%nat -> live (cell_at (d_cells st) i) = false) ->
  (forall i, (i <= dst)%nat -> live (cell_at (d_cells (do_move true st dst s)) i) = true) /\
  (forall i, (s < i)%nat -> live (cell_at (d_cells (do_move true st dst s)) i) = false).
Proof.
  intros n L0 dst st s HJ Hds Hss Hdd Hsl Hscan. destruct HJ as [Hlc Hlp Hsrc Hdst Hlive Hdead Hpend _].
  assert (Hsn : (s < n)%nat) by lia.
  set (cs := set_nth s empty_cell (set_nth dst (cell_at (d_cells st) s) (d_cells st))).
  assert (Lcs : length cs = n) by (unfold cs; rewrite !set_nth_length; exact Hlc).
  assert (Hcs : forall i, cell_at cs i = if (i =? s)%nat then empty_cell else if (i =? dst)%nat then cell_at (d_cells st) s else cell_at (d_cells st) i).
  { intros i. unfold cs, cell_at. rewrite !nth_set_nth, !set_nth_length. rewrite Hlc. nat_cases. }
  assert (A1 : forall i, (i <= dst)%nat -> live (cell_at cs i) = true).
  { intros i Hi. rewrite Hcs. nat_cases; try exact Hsl; apply Hlive; lia. }
  assert (A2 : forall i, (s < i)%nat -> live (cell_at cs i) = false).
  { intros i Hi. rewrite Hcs. nat_cases. destruct (Nat.le_gt_cases i (d_src st)); [apply Hscan|apply Hdead]; lia. }
  unfold do_move. fold cs.
  destruct ((0 <? d_pl st)%nat && merge_test true st dst s) eqn:Em; simpl; [split; assumption|].
  unfold flush. simpl. destruct (Nat.eqb_spec (d_pl st) 0) as [E|E]; simpl; [split; assumption|].
  destruct Hpend as [Hp|[Hp1 [Hp1' [Hp2 Hp3]]]]; [lia|].
  split; intros i Hi; unfold cell_at; rewrite nth_reverse_block by lia; nat_cases.
  - apply A1. lia.
  - apply A1. lia.
  - apply A1. lia.
  - apply A2. lia.
Qed.

Lemma lview_nopending : forall st, length (d_phys st) = length (d_cells st) -> d_pl st = 0%nat ->
  lview st = combine (d_cells st) (d_phys st).
Proof.
  intros st Hl Hp. destruct (flush_view st Hl (or_introl Hp)) as [H _].
  unfold flush in H. rewrite Hp in H. simpl in H. symmetry. exact H.
Qed.

(** one iteration of the outer loop keeps the invariant *)
Lemma J_step : forall n L0 dst st, J n L0 dst st -> (dst < d_src st)%nat ->
  J n L0 (S dst)
    (if live (cell_at (d_cells st) dst) then st
     else let s := scan_src (d_cells st) dst (d_src st) in
          if (s <=? dst)%nat then mkD (d_cells st) (d_phys st) s (d_ps st) (d_pd st) (d_pl st)
          else do_move true st dst s).
Proof.
  intros n L0 dst st HJ Hlt. pose proof HJ as HJ0.
  destruct HJ as [Hlc Hlp Hsrc Hdst Hlive Hdead Hpend Hperm].
  destruct (live (cell_at (d_cells st) dst)) eqn:El.
  - constructor; auto; try lia.
    + intros i Hi Hi2. destruct (Nat.eq_dec i dst); [subst; exact El|]. apply Hlive; lia.
  - cbv zeta. destruct (scan_src_spec (d_cells st) dst (d_src st) ltac:(lia)) as [S1 [S2 S3]].
    set (s := scan_src (d_cells st) dst (d_src st)) in *.
    destruct (Nat.leb_spec s dst).
    + (* nothing left above dst *)
      constructor; simpl; auto; try lia.
      * intros i Hi Hi2. apply Hlive; lia.
      * intros i Hi. destruct (Nat.le_gt_cases i (d_src st)); [apply S2|apply Hdead]; lia.
    + specialize (S3 ltac:(lia)).
      destruct (do_move_view n L0 dst st s HJ0 ltac:(lia) ltac:(lia)) as [Hv [Hc Hp]].
      destruct (do_move_live n L0 dst st s HJ0 ltac:(lia) ltac:(lia) El S3 S2) as [Hl1 Hl2].
      assert (Hsrc' : d_src (do_move true st dst s) = s).
      { unfold do_move. destruct ((0 <? d_pl st)%nat && merge_test true st dst s); reflexivity. }
      assert (Hdd : livep (nth dst (lview st) dflt) = false).
      { rewrite nth_lview by lia. unfold lp.
        destruct Hpend as [Hp0|Hp0]; [rewrite Hp0|]; nat_cases; unfold livep; simpl; exact El. }
      constructor; rewrite ?Hsrc'; auto; try lia.
      all: try (intros i Hi _; apply Hl1; lia).
      * unfold do_move.
        destruct ((0 <? d_pl st)%nat && merge_test true st dst s) eqn:Em; simpl.
        -- apply andb_true_iff in Em. destruct Em as [E0 Em]. apply Nat.ltb_lt in E0.
           unfold merge_test in Em. apply andb_true_iff in Em. destruct Em as [E1 E2].
           apply Nat.eqb_eq in E1, E2. destruct Hpend as [Hp0|Hp0]; [lia|]. right. lia.
        -- right. lia.
      * rewrite Hv. eapply Permutation_trans; [|exact Hperm].
        destruct ((0 <? d_pl st)%nat && merge_test true st dst s) eqn:Em.
        -- apply andb_true_iff in Em. destruct Em as [E0 Em]. apply Nat.ltb_lt in E0.
           unfold merge_test in Em. apply andb_true_iff in Em. destruct Em as [E1 E2].
           apply Nat.eqb_eq in E1, E2. apply ins_perm; rewrite ?lview_length; try lia.
           rewrite <- E2. exact Hdd.
        -- apply ins_perm; rewrite ?lview_length; try lia. rewrite Nat.add_0_r. exact Hdd.
Qed.

Lemma J_loop : forall fuel n L0 dst st, J n L0 dst st -> (n <= dst + fuel)%nat ->
  exists dst', J n L0 dst' (defrag_loop true fuel dst st) /\ (d_src (defrag_loop true fuel dst st) <= dst')%nat.
Proof.
  induction fuel as [|f IH]; intros n L0 dst st HJ Hf; simpl.
  - exists dst. split; [exact HJ|]. destruct (j_src _ _ _ _ HJ); lia.
  - destruct (Nat.ltb_spec dst (d_src st)).
    + apply IH; [|lia]. apply (J_step n L0 dst st HJ H).
    + exists dst. split; [exact HJ|lia].
Qed.

Definition compact (l : list cell) : Prop :=
  forall i j, (i < j)%nat -> live (cell_at l j) = true -> live (cell_at l i) = true.

(** the whole loop, followed by the final flush *)
Theorem defrag_loop_correct : forall cs ps,
  length ps = length cs ->
  let n := length cs in
  let st := flush true (defrag_loop true n 0 (mkD cs ps (n - 1) 0 0 0)) in
  length (d_cells st) = n /\ length (d_phys st) = n /\
  Permutation (live_pairs (d_cells st) (d_phys st)) (live_pairs cs ps) /\
  compact (d_cells st).
Proof.
  intros cs ps Hl n st. subst st.
  set (st0 := mkD cs ps (n - 1) 0 0 0).
  assert (J0 : J n (combine cs ps) 0 st0).
  { constructor; simpl; auto; try lia.
    - intros i Hi. unfold cell_at. rewrite nth_overflow; [reflexivity|]. fold n. lia.
    - rewrite lview_nopending by (simpl; auto). simpl. reflexivity. }
  destruct (J_loop n n (combine cs ps) 0 st0 J0 ltac:(lia)) as [dst' [HJ Hsd]].
  set (st1 := defrag_loop true n 0 st0) in *.
  destruct HJ as [Hlc Hlp Hsrc Hdst Hlive Hdead Hpend Hperm].
  destruct (flush_view st1 ltac:(lia)) as [Hv [Hfc [Hfp _]]].
  { destruct Hpend as [Hp|Hp]; [left; exact Hp|right; lia]. }
  set (st := flush true st1) in *.
  repeat split; try lia.
  - unfold live_pairs. rewrite Hv. exact Hperm.
  - (* compactness: liveness is unchanged by the flush, which permutes a block of live cells *)
    assert (Hst : forall i, live (cell_at (d_cells st) i) = live (cell_at (d_cells st1) i)).
    { intros i. unfold st, flush. destruct (Nat.eqb_spec (d_pl st1) 0); [reflexivity|]. simpl.
      destruct Hpend as [Hp|[Hp1 [Hp1' [Hp2 Hp3]]]]; [lia|].
      unfold cell_at. rewrite nth_reverse_block by lia. nat_cases.
      change (live (cell_at (d_cells st1) (d_pd st1 + d_pl st1 - 1 - (i - d_pd st1))) = live (cell_at (d_cells st1) i)).
      rewrite !Hlive by lia. reflexivity. }
    intros i j Hij Hj. rewrite Hst in *.
    assert (j <= d_src st1)%nat.
    { destruct (Nat.le_gt_cases j (d_src st1)); auto. rewrite Hdead in Hj by lia. discriminate. }
    apply Hlive; lia.
Qed.
