(** KvCache/ProofsRefine.v - the refinement of whole operation histories: every protocol-level operation of the
    cache model commutes with the operation of the specification (KvCache/Spec.v) up to the order of the entries,
    starting from the state built by Init. *)
From Coq Require Import List ZArith NArith Bool Arith Lia Permutation.
From V Require Import KvCache.Model KvCache.ProofsList KvCache.ProofsInv KvCache.ProofsDefrag KvCache.ProofsOps KvCache.ProofsFwd.
From V Require KvCache.Spec.
Import ListNotations.
Open Scope Z_scope.

(** ** the specification does not depend on the order of its entries *)
Definition seqv (s s' : Spec.sstate) : Prop :=
  Permutation (Spec.s_cells s) (Spec.s_cells s') /\ Spec.s_window s = Spec.s_window s' /\
  Spec.s_cap s = Spec.s_cap s' /\ Spec.s_shift s = Spec.s_shift s'.

Lemma seqv_refl : forall s, seqv s s.
Proof. intros. unfold seqv. auto. Qed.

Lemma prune_perm : forall l l', Permutation l l' -> Permutation (Spec.prune l) (Spec.prune l').
Proof. intros. unfold Spec.prune. apply Permutation_filter'. assumption. Qed.

Lemma evict_perm : forall w batch l l', Permutation l l' -> Permutation (Spec.evict w batch l) (Spec.evict w batch l').
Proof. intros w batch l l' H. unfold Spec.evict. destruct w; auto. apply prune_perm, Permutation_map. assumption. Qed.

Lemma spec_forward_perm : forall s s' batch, seqv s s' ->
  seqv (fst (Spec.spec_forward s batch)) (fst (Spec.spec_forward s' batch)) /\
  snd (Spec.spec_forward s batch) = snd (Spec.spec_forward s' batch).
Proof.
  intros s s' batch [HP [Hw [Hc Hs]]]. unfold Spec.spec_forward. rewrite <- Hw, <- Hc.
  pose proof (evict_perm (Spec.s_window s) batch _ _ HP) as HE.
  rewrite <- (Permutation_length HE).
  destruct (_ <? _)%nat; simpl; unfold seqv; simpl; repeat split; auto.
  apply Permutation_app_tail. assumption.
Qed.

Lemma spec_copy_perm : forall s s' src dst len, seqv s s' -> seqv (Spec.spec_copy s src dst len) (Spec.spec_copy s' src dst len).
Proof.
  intros s s' src dst len [HP [Hw [Hc Hs]]]. unfold Spec.spec_copy, seqv. simpl. repeat split; auto.
  apply prune_perm, Permutation_map. assumption.
Qed.

Lemma spec_remove_perm : forall s s' q b e, seqv s s' ->
  seqv (fst (Spec.spec_remove s q b e)) (fst (Spec.spec_remove s' q b e)) /\
  snd (Spec.spec_remove s q b e) = snd (Spec.spec_remove s' q b e).
Proof.
  intros s s' q b e Hv. pose proof Hv as [HP [Hw [Hc Hs]]]. unfold Spec.spec_remove.
  rewrite <- (Permutation_existsb _ _ _ _ HP). destruct (existsb (Spec.rm_blocked q b e) (Spec.s_cells s)); simpl; [auto|].
  assert (HL : Permutation (Spec.prune (map (Spec.rm_cell q b e) (Spec.s_cells s))) (Spec.prune (map (Spec.rm_cell q b e) (Spec.s_cells s'))))
    by (apply prune_perm, Permutation_map; assumption).
  rewrite <- (Permutation_existsb _ _ _ _ HL), <- Hs.
  assert (HW : seqv (Spec.with_cells s (Spec.prune (map (Spec.rm_cell q b e) (Spec.s_cells s))))
                    (Spec.with_cells s' (Spec.prune (map (Spec.rm_cell q b e) (Spec.s_cells s')))))
    by (unfold seqv; simpl; auto).
  destruct (negb _); simpl; [auto|]. destruct (e =? Spec.MaxInt32); simpl; [auto|].
  destruct (Spec.s_shift s); simpl; auto.
Qed.

Lemma spec_remove_c_perm : forall s s' q b e, seqv s s' ->
  seqv (fst (Spec.spec_remove_c s q b e)) (fst (Spec.spec_remove_c s' q b e)) /\
  snd (Spec.spec_remove_c s q b e) = snd (Spec.spec_remove_c s' q b e).
Proof.
  intros s s' q b e Hv. unfold Spec.spec_remove_c.
  destruct (spec_remove_perm s s' q b e Hv) as [H1 H2]. destruct (spec_remove_perm s s' q 0 Spec.MaxInt32 Hv) as [H3 _].
  destruct (Spec.spec_remove s q b e) as [s1 [er|]]; destruct (Spec.spec_remove s' q b e) as [s1' [er'|]]; simpl in *; try discriminate; auto.
Qed.

Lemma fold_max_perm : forall l l' a, Permutation l l' -> fold_right Z.max a l = fold_right Z.max a l'.
Proof. intros l l' a H. induction H; simpl; auto; try lia. Qed.

Lemma spec_can_resume_perm : forall s s' q p, seqv s s' -> Spec.spec_can_resume s q p = Spec.spec_can_resume s' q p.
Proof.
  intros s s' q p [HP [Hw [Hc Hs]]]. unfold Spec.spec_can_resume. rewrite <- Hw. destruct (Spec.s_window s) as [w|]; auto.
  assert (HL : Spec.last_pos s q = Spec.last_pos s' q).
  { unfold Spec.last_pos. apply fold_max_perm, Permutation_map, Permutation_filter'. assumption. }
  assert (HC : forall lo hi, Spec.count_pos s q lo hi = Spec.count_pos s' q lo hi).
  { intros. unfold Spec.count_pos. f_equal. apply Permutation_length, Permutation_filter'. assumption. }
  rewrite HL, HC. reflexivity.
Qed.

Lemma visible_raw_perm : forall s s' q p, seqv s s' -> Permutation (Spec.visible_raw s q p) (Spec.visible_raw s' q p).
Proof.
  intros s s' q p [HP [Hw _]]. unfold Spec.visible_raw. rewrite <- Hw. apply Permutation_map, Permutation_filter'. assumption.
Qed.

(** ** one protocol-level operation *)
Definition op_ok (o : op) : Prop :=
  match o with
  | Forward batch => valid_batch batch
  | Remove _ b e => 0 <= b <= e
  | _ => True
  end.

Definition to_sop (o : op) : Spec.sop :=
  match o with
  | Forward batch => Spec.SForward batch
  | Copy s d len => Spec.SCopy s d len
  | Remove q b e => Spec.SRemove q b e
  | CanResume q p => Spec.SCanResume q p
  end.

Definition out_agree (o : out) (so : Spec.sout) : Prop :=
  match o, so with
  | OFwd _, Spec.OErr None => True
  | OErr er, Spec.OErr (Some ser) => err_match er ser
  | OOk, Spec.OErr None => True
  | OOk, Spec.OUnit => True
  | OBool b, Spec.OBool b' => b = b'
  | _, _ => False
  end.

Lemma R_seqv : forall c s, R c s <-> seqv (abs c) s.
Proof. intros. unfold R, seqv, abs. simpl. split; intros [A [B [C D]]]; repeat split; auto. Qed.

Lemma seqv_trans : forall a b c, seqv a b -> seqv b c -> seqv a c.
Proof.
  intros a b c [P1 [W1 [C1 S1]]] [P2 [W2 [C2 S2]]]. unfold seqv. repeat split; try congruence.
  eapply Permutation_trans; eauto.
Qed.

Lemma spec_remove_params : forall s q b e,
  Spec.s_window (fst (Spec.spec_remove s q b e)) = Spec.s_window s /\
  Spec.s_cap (fst (Spec.spec_remove s q b e)) = Spec.s_cap s /\
  Spec.s_shift (fst (Spec.spec_remove s q b e)) = Spec.s_shift s.
Proof.
  intros. unfold Spec.spec_remove. repeat match goal with |- context [if ?x then _ else _] => destruct x eqn:? end; simpl; auto.
Qed.

Lemma spec_remove_c_params : forall s q b e,
  Spec.s_window (fst (Spec.spec_remove_c s q b e)) = Spec.s_window s /\
  Spec.s_cap (fst (Spec.spec_remove_c s q b e)) = Spec.s_cap s /\
  Spec.s_shift (fst (Spec.spec_remove_c s q b e)) = Spec.s_shift s.
Proof.
  intros. unfold Spec.spec_remove_c. pose proof (spec_remove_params s q b e) as H.
  destruct (Spec.spec_remove s q b e) as [s1 [er|]]; simpl in *; [apply spec_remove_params|exact H].
Qed.

Theorem step_refines : forall c s o, Inv c -> R c s -> op_ok o ->
  Inv (fst (pstep c o)) /\ R (fst (pstep c o)) (fst (Spec.spec_pstep s (to_sop o))) /\
  out_agree (snd (pstep c o)) (snd (Spec.spec_pstep s (to_sop o))).
Proof.
  intros c s o HI HR Hok. apply R_seqv in HR. destruct o as [batch|src dst len|q b e|q p]; simpl in *.
  - (* Forward *)
    destruct (forward_correct c batch HI Hok) as [HI' [HP [HL [HW [HS Hout]]]]].
    destruct (spec_forward_perm (abs c) s batch HR) as [Hv Ho].
    destruct (Spec.spec_forward s batch) as [s' so] eqn:Es. simpl in *.
    split; [exact HI'|]. split.
    + apply R_seqv. eapply seqv_trans; [|exact Hv].
      destruct (Spec.spec_forward (abs c) batch) as [sa soa] eqn:Ea. simpl in *.
      unfold seqv, abs. simpl. rewrite HL, HW, HS.
      assert (Hpar : Spec.s_window sa = window c /\ Spec.s_cap sa = length (cells c) /\ Spec.s_shift sa = can_shift c).
      { rewrite spec_forward_unfold in Ea. destruct (_ <? _)%nat in Ea; injection Ea as <- _; simpl; auto. }
      destruct Hpar as [-> [-> ->]]. auto.
    + rewrite <- Ho. destruct Hout as [[-> ->]|[f [-> [-> _]]]]; simpl; auto.
  - (* CopyPrefix *)
    destruct (copy_prefix_correct c src dst len HI) as [HI' [Ha HL]]. split; [exact HI'|]. split; [|exact I].
    apply R_seqv. eapply seqv_trans; [|apply spec_copy_perm; exact HR].
    unfold seqv. split; [rewrite <- Ha; reflexivity|]. unfold Spec.spec_copy, copy_prefix. simpl. rewrite map_length. auto.
  - (* Remove, cleared on failure *)
    destruct (remove_c_correct c q b e HI Hok) as [HI' [Ha [Hm [HL [HW HS]]]]].
    destruct (spec_remove_c_perm (abs c) s q b e HR) as [Hv Ho].
    destruct (Spec.spec_remove_c s q b e) as [s' so] eqn:Es. simpl in *.
    split; [exact HI'|]. split.
    + apply R_seqv. eapply seqv_trans; [|exact Hv].
      destruct (spec_remove_c_params (abs c) q b e) as [P1 [P2 P3]].
      unfold seqv. rewrite P1, P2, P3. split; [change (Spec.s_cells (abs (fst (remove_c c q b e)))) with
        (abs_cells (cells (fst (remove_c c q b e))) (phys (fst (remove_c c q b e)))); rewrite Ha; reflexivity|].
      unfold abs. simpl. auto.
    + rewrite <- Ho. unfold out_match in Hm. destruct (snd (remove_c c q b e)); destruct (snd (Spec.spec_remove_c (abs c) q b e)); simpl; auto.
  - (* CanResume *)
    split; [exact HI|]. split; [apply R_seqv; exact HR|].
    rewrite (can_resume_correct c q p HI). apply spec_can_resume_perm. exact HR.
Qed.

(** ** whole histories *)
Theorem prun_refines : forall ops c s, Inv c -> R c s -> Forall op_ok ops ->
  Inv (prun c ops) /\ R (prun c ops) (Spec.spec_prun s (map to_sop ops)).
Proof.
  induction ops as [|o t IH]; intros c s HI HR Hok; simpl; auto.
  inversion Hok as [|? ? Ho Ht]; subst.
  destruct (step_refines c s o HI HR Ho) as [HI' [HR' _]]. apply IH; assumption.
Qed.

(** ** the state built by Init *)
Lemma live_pairs_init : forall n, live_pairs (repeat empty_cell n) (repeat None n) = [].
Proof. induction n; simpl; auto. Qed.

Lemma cell_at_repeat : forall n i, cell_at (repeat empty_cell n) i = empty_cell.
Proof.
  intros n i. unfold cell_at. destruct (Nat.lt_ge_cases i n).
  - apply nth_repeat.
  - apply nth_overflow. rewrite repeat_length. assumption.
Qed.

Theorem init_inv : forall w ms cap mb cp bp sh,
  Z.of_nat (cache_size w ms cap mb (norm_pad cp)) < MaxInt ->
  Inv (init w ms cap mb cp bp sh) /\
  R (init w ms cap mb cp bp sh) (Spec.spec_init (cache_size w ms cap mb (norm_pad cp)) w sh).
Proof.
  intros w ms cap mb cp bp sh Hsz. unfold init. split.
  - constructor; simpl.
    + rewrite !repeat_length. reflexivity.
    + rewrite repeat_length. exact Hsz.
    + rewrite live_pairs_init. constructor.
    + intros i q _ Hq. rewrite cell_at_repeat in Hq. discriminate.
    + unfold norm_pad. destruct cp; lia.
    + intros q r Hr. discriminate.
  - unfold R, abs_cells. simpl. rewrite live_pairs_init, repeat_length. simpl. auto.
Qed.
