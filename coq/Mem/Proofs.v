(** Proofs about the memory-estimator model (Mem/Model.v). *)
From Coq Require Import List NArith ZArith Bool Arith Lia.
From Coq Require Import ZifyBool ZifyNat ZifyN.
From V Require Import Common.Bytes Mem.Model.
Import ListNotations.
Open Scope N_scope.

(** * uint64 arithmetic *)

Lemma w_fits x : fits x = true -> w x = x.
Proof. unfold fits, w. intros H. apply N.ltb_lt in H. now apply N.mod_small. Qed.

Lemma fits_lt x : fits x = true -> x < W.
Proof. unfold fits. apply N.ltb_lt. Qed.

Ltac split_ok H :=
  repeat match type of H with
         | (_ && _ = true) => let H2 := fresh "Hf" in apply andb_prop in H; destruct H as [H H2]
         end.

(** turn every [fits x = true] into [x < W] and replace [w x] by [x] everywhere *)
Ltac use_fits :=
  repeat match goal with
         | H : fits ?x = true |- _ =>
           let E := fresh "Ew" in
           pose proof (w_fits x H) as E; apply fits_lt in H; rewrite ?E in *
         end.

(** * list helpers *)

Lemma nth_upd_ne (l : list N) i j f d : i <> j -> nth i (upd l j f) d = nth i l d.
Proof.
  revert i j. induction l as [|x t IH]; intros i j Hne; destruct j, i; cbn; auto; try congruence.
Qed.

Lemma nth_upd_eq (l : list N) j f d :
  nth j (upd l j f) d = f (nth j l d) \/ (nth j (upd l j f) d = nth j l d /\ (length l <= j)%nat).
Proof.
  revert j. induction l as [|x t IH]; intros j.
  - right. destruct j; cbn; split; auto; lia.
  - destruct j; cbn.
    + now left.
    + destruct (IH j) as [H|[H L]]; [now left|right; split; auto; lia].
Qed.

Lemma nth_upd_lt (l : list N) j f d : (j < length l)%nat -> nth j (upd l j f) d = f (nth j l d).
Proof.
  revert j. induction l as [|x t IH]; intros j Hj; cbn in Hj; [lia|].
  destruct j; cbn; auto. apply IH. lia.
Qed.

Lemma length_upd (l : list N) j f : length (upd l j f) = length l.
Proof. revert j. induction l as [|x t IH]; intros j; destruct j; cbn; auto. Qed.

Lemma fold_add_acc (l : list N) a : fold_left N.add l a = a + fold_left N.add l 0.
Proof.
  revert a. induction l as [|x t IH]; intros a; cbn; [lia|].
  rewrite IH. rewrite (IH x). lia.
Qed.

Lemma sum_x_cons x l : sum_x (x :: l) = x + sum_x l.
Proof. unfold sum_x. cbn. now rewrite fold_add_acc. Qed.

Lemma sum_x_nil : sum_x [] = 0.
Proof. reflexivity. Qed.

Lemma sum_x_upd_succ (l : list N) j : (j < length l)%nat -> sum_x (upd l j N.succ) = sum_x l + 1.
Proof.
  revert j. induction l as [|x t IH]; intros j Hj; cbn in Hj; [lia|].
  destruct j; cbn [upd]; rewrite !sum_x_cons.
  - lia.
  - rewrite IH by lia. lia.
Qed.

Lemma sum_x_repeat0 n : sum_x (repeat 0 n) = 0.
Proof. induction n; cbn [repeat]; [reflexivity|]. now rewrite sum_x_cons, IHn. Qed.

Lemma sum_w_acc (l : list N) a :
  fold_left N.add l a < W -> fold_left (fun a x => w (a + x)) l a = fold_left N.add l a.
Proof.
  revert a. induction l as [|x t IH]; intros a H; cbn in *; auto.
  assert (Hax : a + x < W). { rewrite fold_add_acc in H. lia. }
  unfold w at 2. rewrite N.mod_small by exact Hax. now apply IH.
Qed.

Lemma sum_w_x l : fits (sum_x l) = true -> sum_w l = sum_x l.
Proof. intros H. apply fits_lt in H. unfold sum_w, sum_x in *. now apply sum_w_acc. Qed.

Lemma nth_le_sum_x (l : list N) i : nth i l 0 <= sum_x l.
Proof.
  revert i. induction l as [|x t IH]; intros i; destruct i; cbn [nth]; rewrite ?sum_x_cons, ?sum_x_nil; try lia.
  specialize (IH i). lia.
Qed.

(** * PredictServerFit *)

Lemma predict_loop_true groups m o v0 v :
  predict_loop groups m o v0 = (true, v) ->
  exists g, In g groups /\ fits_fully m o (r_layers (estimate g m o)) = true /\ v = r_vram (estimate g m o).
Proof.
  revert v0. induction groups as [|g rest IH]; intros v0 H; cbn [predict_loop] in H.
  - discriminate.
  - destruct (fits_fully m o (r_layers (estimate g m o))) eqn:E.
    + inversion H; subst. exists g. repeat split; auto. now left.
    + destruct (IH _ H) as (g' & Hin & Hf & Hv). exists g'. repeat split; auto. now right.
Qed.

(** * The plan: layer counts *)

Section Plan.
  Variable gs : list gpu.
  Variable ovh maxG : N.

  Definition fr (i : nat) : N := g_free (nth i gs gpu0).

  (** ** well-formedness of the index structures: every index in [ws] points into [al] and [ct] *)
  Definition wf (n : nat) (s : st) : Prop :=
    length (al s) = n /\ length (ct s) = n /\ Forall (fun i => (i < n)%nat) (ws s).

  Lemma Forall_remove_nth {A} (P : A -> Prop) k (l : list A) : Forall P l -> Forall P (remove_nth k l).
  Proof.
    revert k. induction l as [|x t IH]; intros k H; destruct k; cbn; auto; inversion H; subst; auto.
  Qed.

  Lemma length_remove_nth {A} k (l : list A) : (k < length l)%nat -> length (remove_nth k l) = pred (length l).
  Proof.
    revert k. induction l as [|x t IH]; intros k H; cbn in H; [lia|].
    destruct k; cbn; auto. rewrite IH by lia. destruct t; cbn in *; lia.
  Qed.

  Lemma Forall_nth_lt n (l : list nat) k : Forall (fun i => (i < n)%nat) l -> (k < length l)%nat -> (nth k l O < n)%nat.
  Proof. intros H Hk. rewrite Forall_forall in H. apply H. now apply nth_In. Qed.

  (** ** [place]: at most one more layer, split stays consistent *)
  Lemma place_counts n lsz i j s :
    wf n s -> j = length (ws s) ->
    let s' := place gs ovh maxG lsz i j s in
    wf n s' /\ (length (ws s') <= length (ws s))%nat /\
    ((lc s' = lc s /\ ct s' = ct s) \/ (lc s' = lc s + 1 /\ sum_x (ct s') = sum_x (ct s) + 1)).
  Proof.
    revert s. induction j as [|j' IH]; intros s Hwf Hj; cbn zeta.
    - cbn [place]. repeat split; try apply Hwf; auto.
    - cbn [place].
      destruct Hwf as (Ha & Hc & Hw).
      assert (Hk : (Nat.modulo i (S j') < length (ws s))%nat).
      { rewrite <- Hj. apply Nat.mod_upper_bound. lia. }
      match goal with |- context [if ?c then _ else _] => destruct c eqn:E end.
      + cbn [ws al ct lc]. split; [|split].
        * unfold wf; cbn [ws al ct]. rewrite !length_upd. auto.
        * lia.
        * right. split; [lia|]. apply sum_x_upd_succ. rewrite Hc. now apply Forall_nth_lt.
      + match goal with |- context [place gs ovh maxG lsz i j' ?s1] => specialize (IH s1) end.
        cbn [ws al ct lc] in IH.
        destruct IH as (Hwf' & Hlen & Hcase).
        * repeat split; auto. now apply Forall_remove_nth.
        * rewrite length_remove_nth by exact Hk. lia.
        * split; [exact Hwf'|]. split; [|exact Hcase].
          rewrite length_remove_nth in Hlen by exact Hk. lia.
  Qed.

  (** ** [place_out] *)
  Lemma place_out_counts n osz j s :
    wf n s -> (j <= length (ws s))%nat ->
    let s' := place_out gs ovh maxG osz j s in
    wf n s' /\ ws s' = ws s /\
    ((lc s' = lc s /\ ct s' = ct s) \/ (lc s' = lc s + 1 /\ sum_x (ct s') = sum_x (ct s) + 1)).
  Proof.
    revert s. induction j as [|j' IH]; intros s Hwf Hj; cbn zeta.
    - cbn [place_out]. repeat split; try apply Hwf; auto.
    - cbn [place_out].
      destruct Hwf as (Ha & Hc & Hw).
      assert (Hk : (Nat.modulo (N.to_nat (lc s)) (S j') < length (ws s))%nat).
      { eapply Nat.lt_le_trans; [apply Nat.mod_upper_bound; lia|exact Hj]. }
      match goal with |- context [if ?c then _ else _] => destruct c eqn:E end.
      + cbn [ws al ct lc]. split; [|split].
        * unfold wf; cbn [ws al ct]. rewrite !length_upd. auto.
        * reflexivity.
        * right. split; [lia|]. apply sum_x_upd_succ. rewrite Hc. now apply Forall_nth_lt.
      + match goal with |- context [place_out gs ovh maxG osz j' ?s1] => specialize (IH s1) end.
        cbn [ws al ct lc] in IH.
        destruct IH as (Hwf' & Hws & Hcase).
        * repeat split; auto.
        * lia.
        * split; [exact Hwf'|]. split; [exact Hws|exact Hcase].
  Qed.

  Lemma capped_false ng n : capped ng n = false -> (ng < 0 \/ Z.of_N n < ng)%Z.
  Proof. unfold capped. lia. Qed.

  Lemma capped_true ng n : capped ng n = true -> (0 <= ng <= Z.of_N n)%Z.
  Proof. unfold capped. lia. Qed.

  (** ** the block loop *)
  Definition counts_ok (ng : Z) (s : st) : Prop :=
    sum_x (ct s) = lc s /\ (0 <= ng -> Z.of_N (lc s) <= ng)%Z.

  Lemma blocks_counts n ng mm bl : forall i lsz mw s,
    wf n s -> counts_ok ng s ->
    let s' := snd (blocks_loop gs ovh maxG ng mm i bl lsz mw s) in
    wf n s' /\ counts_ok ng s' /\ lc s <= lc s' <= lc s + N.of_nat (length bl).
  Proof.
    induction bl as [|[[b kvp] kvm] bl' IH]; intros i lsz mw s Hwf Hc; cbv zeta.
    - cbn [blocks_loop snd length]. repeat split; try apply Hwf; try apply Hc; lia.
    - cbn [blocks_loop].
      assert (Hgen : forall lsz1 mw1 okb,
        let s1 := mkst (ws s) (al s) (ct s) (lc s) (ok s && okb) in
        let s2 := if capped ng (lc s1) then s1 else place gs ovh maxG lsz1 i (length (ws s1)) s1 in
        let s' := snd (blocks_loop gs ovh maxG ng mm (S i) bl' lsz1 mw1 s2) in
        wf n s' /\ counts_ok ng s' /\ lc s <= lc s' <= lc s + N.of_nat (length ((b, kvp, kvm) :: bl'))).
      { intros lsz1 mw1 okb s1 s2.
        assert (Hwf1 : wf n s1) by exact Hwf.
        assert (Hc1 : counts_ok ng s1) by exact Hc.
        assert (H2 : wf n s2 /\ counts_ok ng s2 /\ lc s <= lc s2 <= lc s + 1).
        { subst s2. destruct (capped ng (lc s1)) eqn:Ecap.
          - repeat split; try apply Hwf1; try apply Hc1; cbn [lc s1]; lia.
          - pose proof (place_counts n lsz1 i (length (ws s1)) s1 Hwf1 eq_refl) as Hp. cbv zeta in Hp.
            destruct Hp as (Hwf2 & _ & Hcase). split; [exact Hwf2|].
            apply capped_false in Ecap. destruct Hc1 as (Hs & Hcap). cbn [lc s1] in *.
            destruct Hcase as [(El & Ect)|(El & Ect)]; unfold counts_ok; rewrite ?El, ?Ect; cbn [lc ct s1] in *; lia. }
        destruct H2 as (Hwf2 & Hc2 & Hl2).
        specialize (IH (S i) lsz1 mw1 s2 Hwf2 Hc2). cbv zeta in IH.
        destruct IH as (Hwf' & Hc' & Hl').
        split; [exact Hwf'|]. split; [exact Hc'|]. cbn [length]. lia. }
      destruct b as [sz|]; cbv beta iota zeta; apply Hgen.
  Qed.

  (** ** the admission loop *)
  Lemma Forall_app_single {A} (P : A -> Prop) l x : Forall P l -> P x -> Forall P (l ++ [x]).
  Proof. intros. apply Forall_app. split; auto. Qed.

  Lemma adm_counts n gzo l0 rest : forall i s,
    wf n s -> (i + length rest = n)%nat ->
    let s' := adm_loop ovh maxG gzo l0 i rest s in
    wf n s' /\ ct s' = ct s /\ lc s' = lc s.
  Proof.
    induction rest as [|g rest' IH]; intros i s Hwf Hi; cbv zeta.
    - cbn [adm_loop]. auto.
    - cbn [adm_loop]. cbn [length] in Hi.
      match goal with |- context [if ?c then _ else _] => destruct c eqn:E end.
      + match goal with |- context [adm_loop ovh maxG gzo l0 (S i) rest' ?s1] => specialize (IH (S i) s1) end.
        cbv zeta in IH. cbn [ct lc] in IH. apply IH; [exact Hwf|lia].
      + match goal with |- context [adm_loop ovh maxG gzo l0 (S i) rest' ?s1] => specialize (IH (S i) s1) end.
        cbv zeta in IH. cbn [ct lc] in IH. apply IH; [|lia].
        destruct Hwf as (Ha & Hc & Hw). unfold wf; cbn [ws al ct]. rewrite length_upd.
        repeat split; auto. apply Forall_app_single; auto. lia.
  Qed.
End Plan.

Lemma admission_counts gs ovh maxG gzo l0 ok0 :
  let s := admission gs ovh maxG gzo l0 ok0 in
  wf (length gs) s /\ sum_x (ct s) = 0 /\ lc s = 0.
Proof.
  cbv zeta. unfold admission.
  set (s0 := mkst [] (repeat 0 (length gs)) (repeat 0 (length gs)) 0 ok0).
  assert (Hwf0 : wf (length gs) s0).
  { unfold wf, s0; cbn [ws al ct]. rewrite !repeat_length. auto. }
  pose proof (adm_counts ovh maxG (length gs) gzo l0 gs O s0 Hwf0 eq_refl) as H. cbv zeta in H.
  destruct H as (Hwf & Hct & Hlc).
  set (s1 := adm_loop ovh maxG gzo l0 0 gs s0) in *.
  assert (Hs1 : sum_x (ct s1) = 0) by (rewrite Hct; unfold s0; cbn [ct]; apply sum_x_repeat0).
  assert (Hl1 : lc s1 = 0) by (rewrite Hlc; reflexivity).
  destruct (ws s1) eqn:Ews.
  - auto.
  - cbn [ct lc]. split; [|auto]. destruct Hwf as (Ha & Hc & Hw). unfold wf; cbn [ws al ct].
    rewrite length_upd. rewrite Ews in Hw. auto.
Qed.

(** ** the whole plan *)
Lemma layout_counts gs ovh maxG ng mm blocks l0 mout s2 :
  wf (length gs) s2 -> sum_x (ct s2) = 0 -> lc s2 = 0 ->
  let p := layout gs ovh maxG ng mm blocks l0 mout s2 in
  let bc := N.of_nat (length blocks) in
  wf (length gs) (pl_st p) /\ sum_x (ct (pl_st p)) = lc (pl_st p) /\ lc (pl_st p) <= bc + 1 /\
  (0 <= ng -> Z.of_N (lc (pl_st p)) <= ng)%Z /\
  (lc (pl_st p) = bc + 1 -> pl_fully p = true).
Proof.
  intros Hwf Hs Hl. cbv zeta. unfold layout.
  assert (Hc2 : counts_ok ng s2). { unfold counts_ok. rewrite Hs, Hl. lia. }
  pose proof (blocks_counts gs ovh maxG (length gs) ng mm blocks O l0 0 s2 Hwf Hc2) as Hb. cbv zeta in Hb.
  destruct (blocks_loop gs ovh maxG ng mm 0 blocks l0 0 s2) as [[lsz mw] s3]. cbn [snd] in Hb.
  destruct Hb as (Hwf3 & (Hs3 & Hcap3) & Hl3). rewrite Hl in Hl3.
  set (bc := N.of_nat (length blocks)) in *.
  destruct (bc <=? lc s3) eqn:Efull.
  - (* all blocks placed *)
    destruct ((0 <? mout) && negb (capped ng (lc s3))) eqn:Eout.
    + pose proof (place_out_counts gs ovh maxG (length gs) mout (length (ws s3)) s3 Hwf3 (le_n _)) as Ho. cbv zeta in Ho.
      destruct Ho as (Hwf4 & _ & Hcase).
      apply andb_prop in Eout. destruct Eout as (_ & Ecap). apply negb_true_iff in Ecap. apply capped_false in Ecap.
      set (s' := place_out gs ovh maxG mout (length (ws s3)) s3) in *.
      destruct (lc s' <? bc + 1) eqn:Elt; cbn [pl_st pl_fully];
        (split; [exact Hwf4|]);
        destruct Hcase as [(El & Ect)|(El & Ect)]; rewrite ?El, ?Ect in *; repeat split; try lia.
    + cbn [pl_st pl_fully]. split; [exact Hwf3|]. split; [exact Hs3|]. repeat split; try lia; auto.
  - destruct ((0 <? mout) && negb (capped ng (lc s3))) eqn:Eout.
    + pose proof (place_out_counts gs ovh maxG (length gs) mout (length (ws s3)) s3 Hwf3 (le_n _)) as Ho. cbv zeta in Ho.
      destruct Ho as (Hwf4 & _ & Hcase).
      apply andb_prop in Eout. destruct Eout as (_ & Ecap). apply negb_true_iff in Ecap. apply capped_false in Ecap.
      set (s' := place_out gs ovh maxG mout (length (ws s3)) s3) in *.
      destruct (lc s' <? bc + 1) eqn:Elt; cbn [pl_st pl_fully];
        (split; [exact Hwf4|]);
        destruct Hcase as [(El & Ect)|(El & Ect)]; rewrite ?El, ?Ect in *; repeat split; try lia.
    + cbn [pl_st pl_fully]. split; [exact Hwf3|]. split; [exact Hs3|]. repeat split; try lia; auto.
Qed.

(** ** graph add-back *)
Lemma add_graph_length g als cts : length (fst (add_graph g als cts)) = length als.
Proof.
  revert cts. induction als as [|a als' IH]; intros cts; cbn [add_graph]; auto.
  destruct cts as [|c cts']; cbn [fst length]; auto.
  specialize (IH cts'). destruct (add_graph g als' cts') as [r o]. cbn [fst] in IH.
  destruct (c =? 0); cbn [fst length]; now rewrite IH.
Qed.

(** ** [estimate]: counts *)
Lemma estimate_counts gs m o :
  let r := estimate gs m o in
  let bc := N.of_nat (length (m_blocks m)) in
  length (p_allocs r) = length gs /\ length (p_counts r) = length gs /\
  sum_x (p_counts r) = p_lc r /\ p_lc r <= bc + 1 /\
  (0 <= o_numgpu o -> Z.of_N (p_lc r) <= o_numgpu o)%Z /\
  (p_lc r = bc + 1 -> p_fully r = true) /\
  (r_layers r = 0 \/ r_layers r = p_lc r) /\
  (r_split r = [] \/ (r_split r = p_counts r /\ r_layers r = p_lc r)) /\
  (r_sizes r = [] \/ r_sizes r = p_allocs r).
Proof.
  cbv zeta. unfold estimate. cbv zeta.
  set (q := prepare gs m o).
  set (maxG := N.max (q_gp q) (q_gf q)).
  set (gzo := w (q_pw q + q_pg q)).
  set (s2 := admission gs (o_overhead o) maxG gzo (q_l0 q) (q_ok q && fits (q_pw q + q_pg q))).
  pose proof (admission_counts gs (o_overhead o) maxG gzo (q_l0 q) (q_ok q && fits (q_pw q + q_pg q))) as Ha.
  cbv zeta in Ha. fold s2 in Ha. destruct Ha as (Hwf2 & Hs2 & Hl2).
  pose proof (layout_counts gs (o_overhead o) maxG (o_numgpu o) (q_mm q) (m_blocks m) (q_l0 q) (q_mout q) s2 Hwf2 Hs2 Hl2) as Hp.
  cbv zeta in Hp.
  set (p := layout gs (o_overhead o) maxG (o_numgpu o) (q_mm q) (m_blocks m) (q_l0 q) (q_mout q) s2) in *.
  destruct Hp as (Hwf4 & Hs4 & Hl4 & Hcap4 & Hfull4).
  pose proof (add_graph_length (if pl_fully p then q_gf q else q_gp q) (al (pl_st p)) (ct (pl_st p))) as Hlen.
  destruct (add_graph (if pl_fully p then q_gf q else q_gp q) (al (pl_st p)) (ct (pl_st p))) as [als ok_a].
  cbn [fst] in Hlen.
  cbn [p_allocs p_counts p_lc p_fully r_layers r_split r_sizes].
  destruct Hwf4 as (Hla & Hlc & _).
  repeat split; try assumption; try lia.
  - destruct (eqb_str (g_lib (hd gpu0 gs)) s_cpu || (lc (pl_st p) =? 0)); auto.
  - destruct (eqb_str (g_lib (hd gpu0 gs)) s_cpu || (lc (pl_st p) =? 0)); cbn [orb]; auto.
    destruct (negb (1 <? length gs)%nat); auto.
  - destruct (eqb_str (g_lib (hd gpu0 gs)) s_cpu || (lc (pl_st p) =? 0)); auto.
Qed.

(** * The plan: bytes.  Everything below is about runs in which no uint64 operation wrapped ([ok = true]). *)

Section Bound.
  Variable gs : list gpu.
  Variable ovh maxG : N.

  (** the per-GPU invariant: either nothing was planned on GPU i, or what is planned plus the larger graph plus
      the overhead fits into its free memory *)
  Definition bnd_at (s : st) (i : nat) : Prop :=
    (nth i (al s) 0 = 0 /\ nth i (ct s) 0 = 0) \/ nth i (al s) 0 + maxG + ovh <= fr gs i.
  Definition Bnd (s : st) : Prop := forall i, bnd_at s i.

  (** ** the [ok] flag only ever goes down *)
  Lemma place_ok_mono lsz i j : forall s, ok (place gs ovh maxG lsz i j s) = true -> ok s = true.
  Proof.
    induction j as [|j' IH]; intros s Hok; cbn [place] in Hok; auto.
    match type of Hok with context [if ?c then _ else _] => destruct c end.
    - cbn [ok] in Hok. split_ok Hok. assumption.
    - apply IH in Hok. cbn [ok] in Hok. split_ok Hok. assumption.
  Qed.

  Lemma place_out_ok_mono osz j : forall s, ok (place_out gs ovh maxG osz j s) = true -> ok s = true.
  Proof.
    induction j as [|j' IH]; intros s Hok; cbn [place_out] in Hok; auto.
    match type of Hok with context [if ?c then _ else _] => destruct c end.
    - cbn [ok] in Hok. split_ok Hok. assumption.
    - apply IH in Hok. cbn [ok] in Hok. split_ok Hok. assumption.
  Qed.

  Lemma blocks_ok_mono ng mm bl : forall i lsz mw s,
    ok (snd (blocks_loop gs ovh maxG ng mm i bl lsz mw s)) = true -> ok s = true.
  Proof.
    induction bl as [|[[b kvp] kvm] bl' IH]; intros i lsz mw s Hok; cbn [blocks_loop] in Hok; auto.
    assert (Hgen : forall lsz1 mw1 okb,
      ok (snd (blocks_loop gs ovh maxG ng mm (S i) bl' lsz1 mw1
           (if capped ng (lc (mkst (ws s) (al s) (ct s) (lc s) (ok s && okb)))
            then mkst (ws s) (al s) (ct s) (lc s) (ok s && okb)
            else place gs ovh maxG lsz1 i (length (ws (mkst (ws s) (al s) (ct s) (lc s) (ok s && okb))))
                       (mkst (ws s) (al s) (ct s) (lc s) (ok s && okb))))) = true -> ok s = true).
    { intros lsz1 mw1 okb H. apply IH in H.
      destruct (capped ng _); [|apply place_ok_mono in H]; cbn [ok] in H; split_ok H; assumption. }
    destruct b as [sz|]; cbv beta iota zeta in Hok; eapply Hgen; exact Hok.
  Qed.

  (** ** [place] keeps the invariant *)
  Lemma place_bnd lsz i j : forall s,
    ok (place gs ovh maxG lsz i j s) = true -> Bnd s -> Bnd (place gs ovh maxG lsz i j s).
  Proof.
    induction j as [|j' IH]; intros s Hok HB; cbn [place] in *; auto.
    set (gi := nth (Nat.modulo i (S j')) (ws s) O) in *.
    set (a := nth gi (al s) 0) in *.
    match type of Hok with context [if ?c then _ else _] => destruct c eqn:E end.
    - cbn [ok] in Hok. split_ok Hok.
      intros k. unfold bnd_at. cbn [al ct].
      destruct (Nat.eq_dec k gi) as [->|Hne].
      + right. apply N.ltb_lt in E. unfold fr.
        destruct (nth_upd_eq (al s) gi (fun x => w (x + lsz)) 0) as [H|[H _]];
          cbv beta in H; fold a in H; use_fits; rewrite H; lia.
      + rewrite !nth_upd_ne by exact Hne. apply HB.
    - apply IH; [exact Hok|]. intros k. apply HB.
  Qed.

  Lemma place_out_bnd osz j : forall s,
    ok (place_out gs ovh maxG osz j s) = true -> Bnd s -> Bnd (place_out gs ovh maxG osz j s).
  Proof.
    induction j as [|j' IH]; intros s Hok HB; cbn [place_out] in *; auto.
    set (gi := nth (Nat.modulo (N.to_nat (lc s)) (S j')) (ws s) O) in *.
    set (a := nth gi (al s) 0) in *.
    match type of Hok with context [if ?c then _ else _] => destruct c eqn:E end.
    - cbn [ok] in Hok. split_ok Hok.
      intros k. unfold bnd_at. cbn [al ct].
      destruct (Nat.eq_dec k gi) as [->|Hne].
      + right. apply N.ltb_lt in E. unfold fr.
        destruct (nth_upd_eq (al s) gi (fun x => w (x + osz)) 0) as [H|[H _]];
          cbv beta in H; fold a in H; use_fits; rewrite H; lia.
      + rewrite !nth_upd_ne by exact Hne. apply HB.
    - apply IH; [exact Hok|]. intros k. apply HB.
  Qed.

  Lemma blocks_bnd ng mm bl : forall i lsz mw s,
    ok (snd (blocks_loop gs ovh maxG ng mm i bl lsz mw s)) = true -> Bnd s ->
    Bnd (snd (blocks_loop gs ovh maxG ng mm i bl lsz mw s)).
  Proof.
    induction bl as [|[[b kvp] kvm] bl' IH]; intros i lsz mw s Hok HB; cbn [blocks_loop] in *; auto.
    assert (Hgen : forall lsz1 mw1 okb,
      let s1 := mkst (ws s) (al s) (ct s) (lc s) (ok s && okb) in
      let s2 := if capped ng (lc s1) then s1 else place gs ovh maxG lsz1 i (length (ws s1)) s1 in
      ok (snd (blocks_loop gs ovh maxG ng mm (S i) bl' lsz1 mw1 s2)) = true ->
      Bnd (snd (blocks_loop gs ovh maxG ng mm (S i) bl' lsz1 mw1 s2))).
    { intros lsz1 mw1 okb s1 s2 H. apply IH; [exact H|].
      apply blocks_ok_mono in H. subst s2.
      destruct (capped ng (lc s1)).
      - intros k. apply HB.
      - apply place_bnd; [exact H|]. intros k. apply HB. }
    destruct b as [sz|]; cbv beta iota zeta in Hok |- *; apply Hgen; exact Hok.
  Qed.

  (** ** admission *)
  Definition adm_inv (gzo : N) (i : nat) (s : st) : Prop :=
    (forall k, (i <= k)%nat -> nth k (al s) 0 = 0) /\
    Forall (fun z => (z < i)%nat) (ws s) /\
    (forall k, nth k (ct s) 0 = 0) /\
    (forall k, nth k (al s) 0 = 0 \/ nth k (al s) 0 + maxG + ovh <= fr gs k) /\
    match ws s with z :: _ => nth z (al s) 0 + gzo + maxG + ovh <= fr gs z | [] => True end.

  Lemma adm_ok_mono gzo l0 rest : forall i s, ok (adm_loop ovh maxG gzo l0 i rest s) = true -> ok s = true.
  Proof.
    induction rest as [|g rest' IH]; intros i s Hok; cbn [adm_loop] in Hok; auto.
    match type of Hok with context [if ?c then _ else _] => destruct c end;
      apply IH in Hok; cbn [ok] in Hok; split_ok Hok; assumption.
  Qed.

  Lemma adm_bnd gzo l0 rest : forall i s,
    (forall k, nth k rest gpu0 = nth (i + k) gs gpu0) ->
    ok (adm_loop ovh maxG gzo l0 i rest s) = true -> adm_inv gzo i s ->
    adm_inv gzo (i + length rest) (adm_loop ovh maxG gzo l0 i rest s).
  Proof.
    induction rest as [|g rest' IH]; intros i s Hrest Hok Hinv; cbn [adm_loop length] in *.
    - now rewrite Nat.add_0_r.
    - assert (Hg : g = nth i gs gpu0). { specialize (Hrest O). cbn in Hrest. now rewrite Nat.add_0_r in Hrest. }
      assert (Hrest' : forall k, nth k rest' gpu0 = nth (S i + k) gs gpu0).
      { intros k. specialize (Hrest (S k)). cbn [nth] in Hrest. rewrite Hrest. f_equal. lia. }
      replace (i + S (length rest'))%nat with (S i + length rest')%nat by lia.
      destruct Hinv as (Hz & Hw & Hct & Hb & Hhd).
      match type of Hok with context [if ?c then _ else _] => destruct c eqn:E end.
      + (* not admitted *)
        apply IH; [exact Hrest'|exact Hok|].
        unfold adm_inv; cbn [ws al ct]. repeat split; auto.
        * intros k Hk. apply Hz. lia.
        * eapply Forall_impl; [|exact Hw]. cbv beta. intros; lia.
      + (* admitted *)
        apply IH; [exact Hrest'|exact Hok|].
        apply adm_ok_mono in Hok. cbn [ok] in Hok. split_ok Hok.
        apply N.ltb_ge in E.
        assert (Ha0 : nth i (al s) 0 = 0) by (apply Hz; lia).
        rewrite Ha0 in *.
        assert (Hwi : ~ In i (ws s)). { intros Hin. rewrite Forall_forall in Hw. specialize (Hw _ Hin). lia. }
        assert (Hnew : nth i (upd (al s) i (fun x => w (x + w (g_min g + l0)))) 0 <= g_min g + l0).
        { destruct (nth_upd_eq (al s) i (fun x => w (x + w (g_min g + l0))) 0) as [H|[H _]]; cbv beta in H; rewrite H, Ha0;
            use_fits; lia. }
        unfold adm_inv; cbn [ws al ct]. repeat split; auto.
        * intros k Hk. rewrite nth_upd_ne by lia. apply Hz. lia.
        * apply Forall_app_single; [|lia]. eapply Forall_impl; [|exact Hw]. cbv beta. intros; lia.
        * intros k. destruct (Nat.eq_dec k i) as [->|Hne].
          -- right. unfold fr. rewrite <- Hg. destruct (ws s); use_fits; lia.
          -- rewrite nth_upd_ne by exact Hne. apply Hb.
        * destruct (ws s) as [|z0 wt] eqn:Ews; cbn [app].
          -- unfold fr. rewrite <- Hg. use_fits. lia.
          -- assert (z0 <> i). { intros ->. apply Hwi. now left. }
             rewrite nth_upd_ne by assumption. exact Hhd.
  Qed.

  Lemma admission_ok_mono gzo l0 ok0 : ok (admission gs ovh maxG gzo l0 ok0) = true -> ok0 = true.
  Proof.
    unfold admission. intros H.
    destruct (ws (adm_loop ovh maxG gzo l0 0 gs _)).
    - now apply adm_ok_mono in H.
    - cbn [ok] in H. split_ok H. now apply adm_ok_mono in H.
  Qed.

  Lemma admission_bnd gzo l0 ok0 :
    ok (admission gs ovh maxG gzo l0 ok0) = true -> Bnd (admission gs ovh maxG gzo l0 ok0).
  Proof.
    unfold admission. intros Hok.
    set (s0 := mkst [] (repeat 0 (length gs)) (repeat 0 (length gs)) 0 ok0) in *.
    assert (Hinv0 : adm_inv gzo 0 s0).
    { unfold adm_inv, s0; cbn [ws al ct]. repeat split; auto; intros; try left;
        (destruct (Nat.lt_ge_cases k (length gs)) as [Hlt|Hge];
         [apply nth_repeat|rewrite nth_overflow; [reflexivity|now rewrite repeat_length]]). }
    set (s1 := adm_loop ovh maxG gzo l0 0 gs s0) in *.
    assert (Hok1 : ok s1 = true).
    { destruct (ws s1); [exact Hok|]. cbn [ok] in Hok. split_ok Hok. exact Hok. }
    pose proof (adm_bnd gzo l0 gs O s0 (fun k => eq_refl) Hok1 Hinv0) as (Hz & Hw & Hct & Hb & Hhd).
    fold s1 in Hz, Hw, Hct, Hb, Hhd.
    destruct (ws s1) as [|z wt] eqn:Ews.
    - intros k. unfold bnd_at. destruct (Hb k) as [H|H]; [left; split; [exact H|apply Hct]|right; exact H].
    - cbn [ok] in Hok. split_ok Hok.
      intros k. unfold bnd_at; cbn [al ct].
      destruct (Nat.eq_dec k z) as [->|Hne].
      + right. destruct (nth_upd_eq (al s1) z (fun x => w (x + gzo)) 0) as [H|[H _]]; cbv beta in H; rewrite H;
          use_fits; lia.
      + rewrite nth_upd_ne by exact Hne. destruct (Hb k) as [H|H]; [left; split; [exact H|apply Hct]|right; exact H].
  Qed.

  (** ** the whole plan *)
  Lemma layout_ok_mono ng mm blocks l0 mout s2 :
    pl_ok (layout gs ovh maxG ng mm blocks l0 mout s2) = true ->
    ok s2 = true /\ fits (pl_ovf (layout gs ovh maxG ng mm blocks l0 mout s2)) = true.
  Proof.
    unfold layout. intros Hok.
    pose proof (blocks_ok_mono ng mm blocks O l0 0 s2) as Hbm.
    destruct (blocks_loop gs ovh maxG ng mm 0 blocks l0 0 s2) as [[lsz mw] s3]. cbn [snd] in *.
    assert (Hfw : forall x, fits (w x) = true).
    { intros x. unfold fits, w. apply N.ltb_lt. apply N.mod_lt. unfold W. lia. }
    destruct (N.of_nat (length blocks) <=? lc s3);
      destruct ((0 <? mout) && negb (capped ng (lc s3)));
      try destruct (lc (place_out gs ovh maxG mout (length (ws s3)) s3) <? N.of_nat (length blocks) + 1);
      cbn [pl_st pl_ok pl_ovf] in *; split_ok Hok;
      try (pose proof (place_out_ok_mono _ _ _ Hok) as Hok3);
      split; auto.
  Qed.

  Lemma layout_bnd ng mm blocks l0 mout s2 :
    pl_ok (layout gs ovh maxG ng mm blocks l0 mout s2) = true -> Bnd s2 ->
    Bnd (pl_st (layout gs ovh maxG ng mm blocks l0 mout s2)).
  Proof.
    unfold layout. intros Hok HB.
    pose proof (blocks_bnd ng mm blocks O l0 0 s2) as Hbb.
    destruct (blocks_loop gs ovh maxG ng mm 0 blocks l0 0 s2) as [[lsz mw] s3]. cbn [snd] in *.
    destruct (N.of_nat (length blocks) <=? lc s3);
      destruct ((0 <? mout) && negb (capped ng (lc s3)));
      try destruct (lc (place_out gs ovh maxG mout (length (ws s3)) s3) <? N.of_nat (length blocks) + 1);
      cbn [pl_st pl_ok pl_ovf] in *; split_ok Hok;
      try (pose proof (place_out_ok_mono _ _ _ Hok) as Hok3);
      auto; try apply place_out_bnd; auto.
  Qed.
End Bound.

(** ** graph add-back, entry by entry *)
Lemma add_graph_nth g als cts i :
  nth i (fst (add_graph g als cts)) 0 = nth i als 0 \/
  (nth i cts 0 <> 0 /\ (snd (add_graph g als cts) = true -> nth i (fst (add_graph g als cts)) 0 = nth i als 0 + g)).
Proof.
  revert cts i. induction als as [|a als' IH]; intros cts i; cbn [add_graph].
  - left. reflexivity.
  - destruct cts as [|c cts']; [left; reflexivity|].
    specialize (IH cts'). destruct (add_graph g als' cts') as [r o]. cbn [fst snd] in IH.
    destruct (c =? 0) eqn:Ec; cbn [fst snd]; destruct i as [|i']; cbn [nth].
    + left; reflexivity.
    + destruct (IH i') as [H|[H1 H2]]; auto.
    + right. split; [apply N.eqb_neq in Ec; exact Ec|]. intros H. split_ok H. use_fits. reflexivity.
    + destruct (IH i') as [H|[H1 H2]]; auto. right. split; auto. intros H. split_ok H. auto.
Qed.

(** ** [estimate]: bytes *)
Lemma estimate_bytes gs m o :
  let r := estimate gs m o in
  r_ok r = true ->
  (forall i, nth i (p_allocs r) 0 = 0 \/ nth i (p_allocs r) 0 + o_overhead o <= g_free (nth i gs gpu0)) /\
  r_vram r <= r_total r /\ r_vram r = sum_x (r_sizes r) /\ sum_x (p_allocs r) <= r_total r.
Proof.
  cbv zeta. unfold estimate. cbv zeta.
  set (q := prepare gs m o).
  set (maxG := N.max (q_gp q) (q_gf q)).
  set (gzo := w (q_pw q + q_pg q)).
  set (s2 := admission gs (o_overhead o) maxG gzo (q_l0 q) (q_ok q && fits (q_pw q + q_pg q))).
  set (p := layout gs (o_overhead o) maxG (o_numgpu o) (q_mm q) (m_blocks m) (q_l0 q) (q_mout q) s2).
  set (g := if pl_fully p then q_gf q else q_gp q).
  pose proof (add_graph_nth g (al (pl_st p)) (ct (pl_st p))) as Hnth.
  destruct (add_graph g (al (pl_st p)) (ct (pl_st p))) as [als ok_a]. cbn [fst snd] in Hnth.
  cbn [r_ok p_allocs r_vram r_total r_sizes].
  intros Hok. split_ok Hok.
  destruct (layout_ok_mono gs (o_overhead o) maxG (o_numgpu o) (q_mm q) (m_blocks m) (q_l0 q) (q_mout q) s2 Hok) as (Hok2 & Hovf).
  pose proof (layout_bnd gs (o_overhead o) maxG (o_numgpu o) (q_mm q) (m_blocks m) (q_l0 q) (q_mout q) s2 Hok
                (admission_bnd gs (o_overhead o) maxG gzo (q_l0 q) _ Hok2)) as HB.
  fold p in HB, Hovf.
  assert (Hg : g <= maxG). { unfold g, maxG. destruct (pl_fully p); lia. }
  assert (Hsum : sum_w als = sum_x als) by (apply sum_w_x; assumption).
  rewrite Hsum in *. use_fits.
  split; [|split; [|split]].
  - intros i. destruct (Hnth i) as [H|[Hc H]].
    + rewrite H. destruct (HB i) as [[Ha _]|Hb]; [left; exact Ha|right; unfold fr in Hb; lia].
    + rewrite (H Hf1). right. destruct (HB i) as [[_ Hc0]|Hb]; [contradiction|unfold fr in Hb; lia].
  - destruct (eqb_str (g_lib (hd gpu0 gs)) s_cpu || (lc (pl_st p) =? 0)); lia.
  - destruct (eqb_str (g_lib (hd gpu0 gs)) s_cpu || (lc (pl_st p) =? 0)); [reflexivity|reflexivity].
  - lia.
Qed.

Lemma estimate_split_reported gs m o :
  let r := estimate gs m o in
  (1 < length gs)%nat -> r_layers r <> 0 -> r_split r = p_counts r.
Proof.
  cbv zeta. unfold estimate. cbv zeta.
  destruct (add_graph _ _ _) as [als ok_a].
  cbn [r_layers r_split p_counts]. intros Hn Hl.
  destruct (eqb_str (g_lib (hd gpu0 gs)) s_cpu || (lc _ =? 0)); [congruence|].
  cbn [orb]. apply Nat.ltb_lt in Hn. rewrite Hn. reflexivity.
Qed.

(** * ByLibrary *)

Section ByLib.
  Context {A : Type}.
  Variable key : A -> str.

  Definition good_groups (all : list A) (groups : list (str * list A)) : Prop :=
    Forall (fun kg => snd kg <> [] /\ Forall (fun x => In x all /\ key x = fst kg) (snd kg)) groups.

  Lemma add_to_good all k g groups :
    In g all -> k = key g -> good_groups all groups -> good_groups all (add_to k g groups).
  Proof.
    intros Hin ->. induction groups as [|[k l] rest IH]; intros Hg; cbn [add_to].
    - constructor; [|constructor]. cbn [fst snd]. split; [discriminate|]. constructor; auto.
    - inversion Hg as [|? ? (Hne & Hall) Hrest]; subst. cbn [fst snd] in *.
      destruct (eqb_str k (key g)) eqn:E.
      + apply eqb_str_spec in E. constructor; [|exact Hrest]. cbn [fst snd]. split.
        * destruct l; discriminate.
        * apply Forall_app. split; [exact Hall|]. constructor; auto.
      + constructor; [cbn [fst snd]; auto|]. apply IH. exact Hrest.
  Qed.

  Lemma fold_add_to_good all l : forall groups,
    (forall g, In g l -> In g all) -> good_groups all groups ->
    good_groups all (fold_left (fun acc g => add_to (key g) g acc) l groups).
  Proof.
    induction l as [|g l' IH]; intros groups Hsub Hg; cbn [fold_left]; auto.
    apply IH; [intros; apply Hsub; now right|].
    apply add_to_good; auto. apply Hsub. now left.
  Qed.

  Lemma by_library_gen_groups all grp :
    In grp (by_library_gen key all) ->
    grp <> [] /\ (forall x, In x grp -> In x all) /\ (forall x y, In x grp -> In y grp -> key x = key y).
  Proof.
    unfold by_library_gen. intros Hin. apply in_map_iff in Hin. destruct Hin as ([k l] & <- & Hin). cbn [snd].
    pose proof (fold_add_to_good all all [] (fun g H => H) (Forall_nil _)) as Hg.
    unfold good_groups in Hg. rewrite Forall_forall in Hg. specialize (Hg _ Hin). cbn [fst snd] in Hg.
    destruct Hg as (Hne & Hall). rewrite Forall_forall in Hall.
    split; [exact Hne|]. split.
    - intros x Hx. apply Hall. exact Hx.
    - intros x y Hx Hy. destruct (Hall x Hx) as (_ & ->). destruct (Hall y Hy) as (_ & ->). reflexivity.
  Qed.

  (** every element of the list is in some group: ByLibrary loses nothing *)
  Lemma add_to_keeps k g (groups : list (str * list A)) x : (exists l, In l (map snd groups) /\ In x l) ->
    exists l, In l (map snd (add_to k g groups)) /\ In x l.
  Proof.
    induction groups as [|[k0 l0] rest IH]; intros (l & Hl & Hx); cbn [add_to].
    - destruct Hl.
    - cbn [map snd] in Hl. destruct (eqb_str k0 k).
      + destruct Hl as [<-|Hl].
        * exists (l0 ++ [g]). split; [now left|]. apply in_or_app. now left.
        * exists l. split; [now right|exact Hx].
      + destruct Hl as [<-|Hl].
        * exists l0. split; [now left|exact Hx].
        * destruct IH as (l' & Hl' & Hx'); [now exists l|]. exists l'. split; [now right|exact Hx'].
  Qed.

  Lemma add_to_has k g (groups : list (str * list A)) : exists l, In l (map snd (add_to k g groups)) /\ In g l.
  Proof.
    induction groups as [|[k0 l0] rest IH]; cbn [add_to].
    - exists [g]. split; now left.
    - destruct (eqb_str k0 k).
      + exists (l0 ++ [g]). split; [now left|]. apply in_or_app. right. now left.
      + destruct IH as (l' & Hl' & Hx'). exists l'. split; [now right|exact Hx'].
  Qed.

  Lemma by_library_gen_complete all x : In x all -> exists grp, In grp (by_library_gen key all) /\ In x grp.
  Proof.
    unfold by_library_gen.
    assert (Hgen : forall l groups, (In x l \/ exists grp, In grp (map snd groups) /\ In x grp) ->
              exists grp, In grp (map snd (fold_left (fun acc g => add_to (key g) g acc) l groups)) /\ In x grp).
    { induction l as [|g l' IH]; intros groups H; cbn [fold_left].
      - destruct H as [[]|H]; exact H.
      - apply IH. destruct H as [[->|H]|H]; auto.
        + right. apply add_to_has.
        + right. now apply add_to_keeps. }
    intros Hin. apply Hgen. now left.
  Qed.
End ByLib.

Lemma by_library_groups all grp :
  In grp (by_library all) ->
  grp <> [] /\ (forall x, In x grp -> In x all) /\ (forall x y, In x grp -> In y grp -> requested x = requested y).
Proof. apply by_library_gen_groups. Qed.

Lemma by_library_complete all x : In x all -> exists grp, In grp (by_library all) /\ In x grp.
Proof. apply by_library_gen_complete. Qed.

(** * the fit decision *)
Lemma fit_sound all m o v :
  predict_server_fit all m o = (true, v) ->
  exists g, In g (by_library all) /\ g <> [] /\ (forall x, In x g -> In x all) /\
    (forall x y, In x g -> In y g -> requested x = requested y) /\
    let r := estimate g m o in
    let bc := N.of_nat (length (m_blocks m)) in
    v = r_vram r /\ 0 < r_layers r /\ r_layers r = p_lc r /\
    ((o_numgpu o < 0)%Z -> r_layers r = bc + 1 /\ p_fully r = true) /\
    ((0 <= o_numgpu o)%Z -> Z.of_N (r_layers r) = o_numgpu o /\ (o_numgpu o <= Z.of_N bc + 1)%Z).
Proof.
  unfold predict_server_fit. intros H. apply predict_loop_true in H. destruct H as (g & Hin & Hf & Hv).
  exists g. destruct (by_library_groups all g Hin) as (Hne & Hsub & Hsame).
  repeat (split; [assumption|]). cbv zeta.
  pose proof (estimate_counts g m o) as Hc. cbv zeta in Hc.
  destruct Hc as (_ & _ & _ & Hle & Hcap & Hfull & Hlay & _ & _).
  unfold fits_fully in Hf.
  destruct (o_numgpu o <? 0)%Z eqn:Eng.
  - apply andb_prop in Hf. destruct Hf as (Hpos & Hall).
    assert (r_layers (estimate g m o) = p_lc (estimate g m o)) by lia.
    repeat split; try lia.
  - apply andb_prop in Hf. destruct Hf as (Hpos & Hall).
    assert (r_layers (estimate g m o) = p_lc (estimate g m o)) by lia.
    repeat split; try lia.
Qed.

(** * GPUs that were not admitted get nothing *)

Section Untouched.
  Variable gs : list gpu.
  Variable ovh maxG : N.

  (** [A] is the set of admitted GPUs; outside of it nothing is ever planned *)
  Definition untouched (A : list nat) (s : st) : Prop :=
    incl (ws s) A /\ forall k, ~ In k A -> nth k (al s) 0 = 0 /\ nth k (ct s) 0 = 0.

  Lemma incl_remove_nth {T} k (l : list T) : incl (remove_nth k l) l.
  Proof.
    revert k. induction l as [|x t IH]; intros k; destruct k; cbn [remove_nth]; intros y Hy; auto.
    - now right.
    - destruct Hy as [<-|Hy]; [now left|right; eapply IH; exact Hy].
  Qed.

  Lemma place_untouched A lsz i j : forall s,
    j = length (ws s) -> untouched A s -> untouched A (place gs ovh maxG lsz i j s).
  Proof.
    induction j as [|j' IH]; intros s Hj (Hincl & Hz); cbn [place]; [split; assumption|].
    assert (Hk : (Nat.modulo i (S j') < length (ws s))%nat).
    { rewrite <- Hj. apply Nat.mod_upper_bound. lia. }
    match goal with |- context [if ?c then _ else _] => destruct c end.
    - split; cbn [ws al ct]; [exact Hincl|]. intros k Hk'.
      assert (k <> nth (Nat.modulo i (S j')) (ws s) O).
      { intros ->. apply Hk'. apply Hincl. now apply nth_In. }
      rewrite !nth_upd_ne by assumption. now apply Hz.
    - apply IH.
      + cbn [ws]. rewrite length_remove_nth by exact Hk. lia.
      + split; cbn [ws al ct]; [|exact Hz]. eapply incl_tran; [apply incl_remove_nth|exact Hincl].
  Qed.

  Lemma place_out_untouched A osz j : forall s,
    (j <= length (ws s))%nat -> untouched A s -> untouched A (place_out gs ovh maxG osz j s).
  Proof.
    induction j as [|j' IH]; intros s Hj (Hincl & Hz); cbn [place_out]; [split; assumption|].
    assert (Hk : (Nat.modulo (N.to_nat (lc s)) (S j') < length (ws s))%nat).
    { eapply Nat.lt_le_trans; [apply Nat.mod_upper_bound; lia|exact Hj]. }
    match goal with |- context [if ?c then _ else _] => destruct c end.
    - split; cbn [ws al ct]; [exact Hincl|]. intros k Hk'.
      assert (k <> nth (Nat.modulo (N.to_nat (lc s)) (S j')) (ws s) O).
      { intros ->. apply Hk'. apply Hincl. now apply nth_In. }
      rewrite !nth_upd_ne by assumption. now apply Hz.
    - apply IH; [cbn [ws]; lia|]. split; cbn [ws al ct]; assumption.
  Qed.

  Lemma blocks_untouched A ng mm bl : forall i lsz mw s,
    untouched A s -> untouched A (snd (blocks_loop gs ovh maxG ng mm i bl lsz mw s)).
  Proof.
    induction bl as [|[[b kvp] kvm] bl' IH]; intros i lsz mw s Hu; cbn [blocks_loop]; auto.
    assert (Hgen : forall lsz1 mw1 okb,
      let s1 := mkst (ws s) (al s) (ct s) (lc s) (ok s && okb) in
      let s2 := if capped ng (lc s1) then s1 else place gs ovh maxG lsz1 i (length (ws s1)) s1 in
      untouched A (snd (blocks_loop gs ovh maxG ng mm (S i) bl' lsz1 mw1 s2))).
    { intros lsz1 mw1 okb s1 s2. apply IH. subst s2.
      destruct (capped ng (lc s1)); [exact Hu|]. apply place_untouched; [reflexivity|exact Hu]. }
    destruct b as [sz|]; cbv beta iota zeta; apply Hgen.
  Qed.

  Lemma layout_untouched A ng mm blocks l0 mout s2 :
    untouched A s2 -> untouched A (pl_st (layout gs ovh maxG ng mm blocks l0 mout s2)).
  Proof.
    unfold layout. intros Hu.
    pose proof (blocks_untouched A ng mm blocks O l0 0 s2 Hu) as Hb.
    destruct (blocks_loop gs ovh maxG ng mm 0 blocks l0 0 s2) as [[lsz mw] s3]. cbn [snd] in Hb.
    destruct (N.of_nat (length blocks) <=? lc s3);
      destruct ((0 <? mout) && negb (capped ng (lc s3)));
      try destruct (lc (place_out gs ovh maxG mout (length (ws s3)) s3) <? N.of_nat (length blocks) + 1);
      cbn [pl_st]; auto; apply place_out_untouched; auto.
  Qed.

  (** what admission guarantees about an admitted GPU (exact arithmetic) *)
  Definition adm_ok_at (l0 : N) (z : nat) : Prop :=
    ovh + maxG + g_min (nth z gs gpu0) + 2 * l0 <= fr gs z.

  Lemma adm_untouched gzo l0 rest : forall i s,
    (forall k, nth k rest gpu0 = nth (i + k) gs gpu0) ->
    ok (adm_loop ovh maxG gzo l0 i rest s) = true ->
    (forall z, In z (ws s) -> adm_ok_at l0 z) ->
    (forall k, ~ In k (ws s) -> nth k (al s) 0 = 0 /\ nth k (ct s) 0 = 0) ->
    let s' := adm_loop ovh maxG gzo l0 i rest s in
    (forall z, In z (ws s') -> adm_ok_at l0 z) /\
    (forall k, ~ In k (ws s') -> nth k (al s') 0 = 0 /\ nth k (ct s') 0 = 0).
  Proof.
    induction rest as [|g rest' IH]; intros i s Hrest Hok Hadm Hz; cbv zeta; cbn [adm_loop] in *; [split; assumption|].
    assert (Hg : g = nth i gs gpu0). { specialize (Hrest O). cbn in Hrest. now rewrite Nat.add_0_r in Hrest. }
    assert (Hrest' : forall k, nth k rest' gpu0 = nth (S i + k) gs gpu0).
    { intros k. specialize (Hrest (S k)). cbn [nth] in Hrest. rewrite Hrest. f_equal. lia. }
    match type of Hok with context [if ?c then _ else _] => destruct c eqn:E end.
    - apply IH; auto.
    - apply IH; auto; cbn [ws al ct].
      + apply adm_ok_mono in Hok. cbn [ok] in Hok. split_ok Hok. apply N.ltb_ge in E.
        intros z Hin. apply in_app_or in Hin. destruct Hin as [Hin|[<-|[]]]; [now apply Hadm|].
        unfold adm_ok_at, fr. rewrite <- Hg. destruct (ws s); use_fits; lia.
      + intros k Hk. assert (k <> i). { intros ->. apply Hk. apply in_or_app. right. now left. }
        rewrite nth_upd_ne by assumption. apply Hz. intros Hin. apply Hk. apply in_or_app. now left.
  Qed.

  Lemma admission_untouched gzo l0 ok0 :
    ok (admission gs ovh maxG gzo l0 ok0) = true ->
    exists A, untouched A (admission gs ovh maxG gzo l0 ok0) /\ forall z, In z A -> adm_ok_at l0 z.
  Proof.
    unfold admission. intros Hok.
    set (s0 := mkst [] (repeat 0 (length gs)) (repeat 0 (length gs)) 0 ok0) in *.
    set (s1 := adm_loop ovh maxG gzo l0 0 gs s0) in *.
    assert (Hok1 : ok s1 = true).
    { destruct (ws s1); [exact Hok|]. cbn [ok] in Hok. split_ok Hok. exact Hok. }
    assert (Hz0 : forall k, ~ In k (ws s0) -> nth k (al s0) 0 = 0 /\ nth k (ct s0) 0 = 0).
    { intros k _. unfold s0; cbn [al ct].
      destruct (Nat.lt_ge_cases k (length gs)) as [Hlt|Hge];
        [rewrite !nth_repeat; auto|rewrite !nth_overflow by (now rewrite repeat_length); auto]. }
    pose proof (adm_untouched gzo l0 gs O s0 (fun k => eq_refl) Hok1 (fun z (H : In z []) => match H with end) Hz0) as (Hadm & Hz).
    fold s1 in Hadm, Hz.
    exists (ws s1). split; [|exact Hadm].
    destruct (ws s1) as [|z wt] eqn:Ews.
    - split; [rewrite Ews; apply incl_refl|exact Hz].
    - split; cbn [ws al ct]; [apply incl_refl|]. intros k Hk.
      assert (k <> z). { intros ->. apply Hk. now left. }
      rewrite nth_upd_ne by assumption. apply Hz. exact Hk.
  Qed.
End Untouched.

Lemma estimate_unadmitted gs m o i :
  let r := estimate gs m o in
  let q := prepare gs m o in
  r_ok r = true ->
  g_free (nth i gs gpu0) < o_overhead o + N.max (q_gp q) (q_gf q) + g_min (nth i gs gpu0) + 2 * q_l0 q ->
  nth i (p_allocs r) 0 = 0 /\ nth i (p_counts r) 0 = 0.
Proof.
  cbv zeta. unfold estimate. cbv zeta.
  set (q := prepare gs m o).
  set (maxG := N.max (q_gp q) (q_gf q)).
  set (gzo := w (q_pw q + q_pg q)).
  set (s2 := admission gs (o_overhead o) maxG gzo (q_l0 q) (q_ok q && fits (q_pw q + q_pg q))).
  set (p := layout gs (o_overhead o) maxG (o_numgpu o) (q_mm q) (m_blocks m) (q_l0 q) (q_mout q) s2).
  set (g := if pl_fully p then q_gf q else q_gp q).
  pose proof (add_graph_nth g (al (pl_st p)) (ct (pl_st p)) i) as Hnth.
  destruct (add_graph g (al (pl_st p)) (ct (pl_st p))) as [als ok_a]. cbn [fst snd] in Hnth.
  cbn [r_ok p_allocs p_counts].
  intros Hok Hfree. split_ok Hok.
  destruct (layout_ok_mono gs (o_overhead o) maxG (o_numgpu o) (q_mm q) (m_blocks m) (q_l0 q) (q_mout q) s2 Hok) as (Hok2 & _).
  destruct (admission_untouched gs (o_overhead o) maxG gzo (q_l0 q) _ Hok2) as (A & Hu & HA).
  fold s2 in Hu.
  pose proof (layout_untouched gs (o_overhead o) maxG A (o_numgpu o) (q_mm q) (m_blocks m) (q_l0 q) (q_mout q) s2 Hu) as (_ & Hz).
  fold p in Hz.
  assert (Hni : ~ In i A).
  { intros Hin. specialize (HA i Hin). unfold adm_ok_at, fr in HA. lia. }
  destruct (Hz i Hni) as (Ha & Hc).
  split; [|exact Hc].
  destruct Hnth as [H|[H _]]; [now rewrite H|contradiction].
Qed.

(** * A condition on the inputs that excludes wrap-around *)

Lemma w_small x : x < W -> w x = x.
Proof. intros H. unfold w. now apply N.mod_small. Qed.

Lemma fits_small x : x < W -> fits x = true.
Proof. intros H. unfold fits. now apply N.ltb_lt. Qed.

Lemma In_le_sum_x x (l : list N) : In x l -> x <= sum_x l.
Proof.
  intros H. apply In_nth with (d := 0) in H. destruct H as (i & _ & <-). apply nth_le_sum_x.
Qed.

Lemma sum_x_le_length (l : list N) b : (forall k, nth k l 0 <= b) -> sum_x l <= N.of_nat (length l) * b.
Proof.
  induction l as [|x t IH]; intros H.
  - cbn. lia.
  - rewrite sum_x_cons. cbn [length]. rewrite Nat2N.inj_succ, N.mul_succ_l.
    pose proof (H O) as H0. cbn in H0.
    assert (Ht : forall k, nth k t 0 <= b) by (intros k; apply (H (S k))).
    specialize (IH Ht). lia.
Qed.

Fixpoint blocks_sum (mm : bool) (bl : list (option N * N * N)) : N :=
  match bl with
  | [] => 0
  | (b, kvp, kvm) :: t =>
    (match b with Some sz => sz + (if mm then kvm else kvp) | None => 0 end) + blocks_sum mm t
  end.

Section NoWrap.
  Variable gs : list gpu.
  Variable ovh maxG : N.

  Definition cap (c : N) (s : st) : Prop := forall k, nth k (al s) 0 <= c.

  Lemma cap_le c c' s : c <= c' -> cap c s -> cap c' s.
  Proof. intros Hle H k. specialize (H k). lia. Qed.

  Lemma place_nowrap lsz i j c : forall s,
    ok s = true -> cap c s -> ovh + c + maxG + lsz < W ->
    ok (place gs ovh maxG lsz i j s) = true /\ cap (c + lsz) (place gs ovh maxG lsz i j s).
  Proof.
    induction j as [|j' IH]; intros s Hok Hc Hb; cbn [place].
    - split; [exact Hok|]. eapply cap_le; [|exact Hc]. lia.
    - set (gi := nth (Nat.modulo i (S j')) (ws s) O).
      set (a := nth gi (al s) 0).
      assert (Ha : a <= c) by apply Hc.
      rewrite (w_small (a + maxG)) by lia.
      rewrite (w_small (ovh + (a + maxG))) by lia.
      rewrite (w_small (ovh + (a + maxG) + lsz)) by lia.
      rewrite Hok, (fits_small (a + maxG)), (fits_small (ovh + (a + maxG))), (fits_small (ovh + (a + maxG) + lsz)) by lia.
      cbn [andb].
      destruct (ovh + (a + maxG) + lsz <? g_free (nth gi gs gpu0)).
      + cbn [ok al]. rewrite (fits_small (a + lsz)) by lia. split; [reflexivity|].
        intros k. cbn [al]. destruct (Nat.eq_dec k gi) as [->|Hne].
        * destruct (nth_upd_eq (al s) gi (fun x => w (x + lsz)) 0) as [H|[H _]]; rewrite H; cbv beta; fold a;
            rewrite ?(w_small (a + lsz)) by lia; lia.
        * rewrite nth_upd_ne by exact Hne. specialize (Hc k). lia.
      + apply IH; auto.
  Qed.

  Lemma place_out_nowrap osz j c : forall s,
    ok s = true -> cap c s -> ovh + c + maxG + osz < W ->
    ok (place_out gs ovh maxG osz j s) = true /\ cap (c + osz) (place_out gs ovh maxG osz j s).
  Proof.
    induction j as [|j' IH]; intros s Hok Hc Hb; cbn [place_out].
    - split; [exact Hok|]. eapply cap_le; [|exact Hc]. lia.
    - set (gi := nth (Nat.modulo (N.to_nat (lc s)) (S j')) (ws s) O).
      set (a := nth gi (al s) 0).
      assert (Ha : a <= c) by apply Hc.
      rewrite (w_small (a + maxG)) by lia.
      rewrite (w_small (ovh + (a + maxG))) by lia.
      rewrite (w_small (ovh + (a + maxG) + osz)) by lia.
      rewrite Hok, (fits_small (a + maxG)), (fits_small (ovh + (a + maxG))), (fits_small (ovh + (a + maxG) + osz)) by lia.
      cbn [andb].
      destruct (ovh + (a + maxG) + osz <? g_free (nth gi gs gpu0)).
      + cbn [ok al]. rewrite (fits_small (a + osz)) by lia. split; [reflexivity|].
        intros k. cbn [al]. destruct (Nat.eq_dec k gi) as [->|Hne].
        * destruct (nth_upd_eq (al s) gi (fun x => w (x + osz)) 0) as [H|[H _]]; rewrite H; cbv beta; fold a;
            rewrite ?(w_small (a + osz)) by lia; lia.
        * rewrite nth_upd_ne by exact Hne. specialize (Hc k). lia.
      + apply IH; auto.
  Qed.

  Lemma blocks_nowrap ng mm T bl : forall i lsz mw s c,
    ok s = true -> cap c s -> lsz <= T -> mw + blocks_sum mm bl <= T ->
    ovh + c + N.of_nat (length bl) * T + maxG + T < W ->
    let r := blocks_loop gs ovh maxG ng mm i bl lsz mw s in
    ok (snd r) = true /\ cap (c + N.of_nat (length bl) * T) (snd r) /\ fst (fst r) <= T.
  Proof.
    induction bl as [|[[b kvp] kvm] bl' IH]; intros i lsz mw s c Hok Hc Hl Hm Hb; cbv zeta.
    - cbn [blocks_loop snd fst length]. split; [exact Hok|]. split; [|exact Hl]. eapply cap_le; [|exact Hc]. lia.
    - cbn [blocks_loop]. cbn [length] in *. rewrite Nat2N.inj_succ, N.mul_succ_l in *.
      set (nT := N.of_nat (length bl') * T) in *.
      assert (Hgen : forall lsz1 mw1,
        lsz1 <= T -> mw1 + blocks_sum mm bl' <= T ->
        let s1 := mkst (ws s) (al s) (ct s) (lc s) (ok s && true) in
        let s2 := if capped ng (lc s1) then s1 else place gs ovh maxG lsz1 i (length (ws s1)) s1 in
        let r := blocks_loop gs ovh maxG ng mm (S i) bl' lsz1 mw1 s2 in
        ok (snd r) = true /\ cap (c + (nT + T)) (snd r) /\ fst (fst r) <= T).
      { intros lsz1 mw1 Hl1 Hm1 s1 s2.
        assert (H2 : ok s2 = true /\ cap (c + T) s2).
        { subst s2. destruct (capped ng (lc s1)).
          - subst s1. cbn [ok]. rewrite Hok. split; [reflexivity|]. eapply cap_le; [|exact Hc]. lia.
          - destruct (place_nowrap lsz1 i (length (ws s1)) c s1) as (Ho & Hcp).
            + subst s1. cbn [ok]. now rewrite Hok.
            + exact Hc.
            + lia.
            + split; [exact Ho|]. eapply cap_le; [|exact Hcp]. lia. }
        destruct H2 as (Hok2 & Hc2).
        specialize (IH (S i) lsz1 mw1 s2 (c + T) Hok2 Hc2 Hl1 Hm1). cbv zeta in IH.
        fold nT in IH. destruct IH as (Ho & Hcp & Hlf); [lia|].
        split; [exact Ho|]. split; [|exact Hlf]. eapply cap_le; [|exact Hcp]. lia. }
      cbn [blocks_sum] in Hm.
      destruct b as [sz|].
      + set (kvi := if mm then kvm else kvp) in *.
        rewrite (w_small (sz + kvi)) by lia. rewrite (w_small (mw + sz)) by lia.
        rewrite (fits_small (sz + kvi)), (fits_small (mw + sz)) by lia. cbn [andb].
        cbv beta iota zeta. apply Hgen; lia.
      + cbv beta iota zeta. apply Hgen; lia.
  Qed.

  Lemma adm_nowrap gzo l0 mmax rest : forall i s,
    ok s = true -> (forall k, (i <= k)%nat -> nth k (al s) 0 = 0) -> cap (mmax + l0) s ->
    (forall g, In g rest -> g_min g <= mmax) ->
    ovh + gzo + maxG + mmax + 2 * l0 < W ->
    ok (adm_loop ovh maxG gzo l0 i rest s) = true /\ cap (mmax + l0) (adm_loop ovh maxG gzo l0 i rest s).
  Proof.
    induction rest as [|g rest' IH]; intros i s Hok Hz Hc Hmin Hb; cbn [adm_loop]; [split; assumption|].
    assert (Hg : g_min g <= mmax) by (apply Hmin; now left).
    assert (Hmin' : forall g', In g' rest' -> g_min g' <= mmax) by (intros; apply Hmin; now right).
    set (z := match ws s with [] => gzo | _ => 0 end).
    assert (Hzle : z <= gzo) by (subst z; destruct (ws s); lia).
    rewrite (w_small (ovh + z)) by lia.
    rewrite (w_small (ovh + z + maxG)) by lia.
    rewrite (w_small (ovh + z + maxG + g_min g)) by lia.
    rewrite (w_small (2 * l0)) by lia.
    rewrite (w_small (ovh + z + maxG + g_min g + 2 * l0)) by lia.
    rewrite Hok, (fits_small (ovh + z)), (fits_small (ovh + z + maxG)), (fits_small (ovh + z + maxG + g_min g)),
      (fits_small (2 * l0)), (fits_small (ovh + z + maxG + g_min g + 2 * l0)) by lia.
    cbn [andb].
    destruct (g_free g <? ovh + z + maxG + g_min g + 2 * l0).
    - apply IH; auto. intros k Hk. apply Hz. lia.
    - assert (Ha0 : nth i (al s) 0 = 0) by (apply Hz; lia).
      rewrite Ha0. rewrite (w_small (g_min g + l0)) by lia.
      rewrite (fits_small (g_min g + l0)), (fits_small (0 + (g_min g + l0))) by lia. cbn [andb].
      apply IH; auto; cbn [al].
      + intros k Hk. rewrite nth_upd_ne by lia. apply Hz. lia.
      + intros k. cbn [al]. destruct (Nat.eq_dec k i) as [->|Hne].
        * destruct (nth_upd_eq (al s) i (fun x => w (x + (g_min g + l0))) 0) as [H|[H _]]; rewrite H; cbv beta; rewrite ?Ha0;
            rewrite ?(w_small (0 + (g_min g + l0))) by lia; lia.
        * rewrite nth_upd_ne by exact Hne. apply Hc.
  Qed.

  Lemma admission_nowrap gzo l0 mmax ok0 :
    ok0 = true -> (forall g, In g gs -> g_min g <= mmax) ->
    ovh + gzo + maxG + mmax + 2 * l0 < W ->
    ok (admission gs ovh maxG gzo l0 ok0) = true /\ cap (mmax + l0 + gzo) (admission gs ovh maxG gzo l0 ok0).
  Proof.
    intros Hok0 Hmin Hb. unfold admission.
    set (s0 := mkst [] (repeat 0 (length gs)) (repeat 0 (length gs)) 0 ok0).
    assert (Hz0 : forall k, nth k (al s0) 0 = 0).
    { intros k. unfold s0; cbn [al]. destruct (Nat.lt_ge_cases k (length gs));
        [apply nth_repeat|apply nth_overflow; now rewrite repeat_length]. }
    destruct (adm_nowrap gzo l0 mmax gs O s0) as (Hok1 & Hc1); auto.
    { intros k. rewrite Hz0. lia. }
    set (s1 := adm_loop ovh maxG gzo l0 0 gs s0) in *.
    destruct (ws s1) as [|z wt].
    - split; [exact Hok1|]. eapply cap_le; [|exact Hc1]. lia.
    - cbn [ok al]. pose proof (Hc1 z) as Hz.
      rewrite Hok1, (fits_small (nth z (al s1) 0 + gzo)) by lia. split; [reflexivity|].
      intros k. cbn [al]. destruct (Nat.eq_dec k z) as [->|Hne].
      + destruct (nth_upd_eq (al s1) z (fun x => w (x + gzo)) 0) as [H|[H _]]; rewrite H; cbv beta;
          rewrite ?(w_small (nth z (al s1) 0 + gzo)) by lia; lia.
      + rewrite nth_upd_ne by exact Hne. specialize (Hc1 k). lia.
  Qed.

  Lemma layout_nowrap ng mm blocks l0 mout s2 c T :
    ok s2 = true -> cap c s2 -> l0 <= T -> blocks_sum mm blocks <= T ->
    ovh + c + N.of_nat (length blocks) * T + maxG + T + mout < W ->
    let p := layout gs ovh maxG ng mm blocks l0 mout s2 in
    pl_ok p = true /\ cap (c + N.of_nat (length blocks) * T + mout) (pl_st p) /\
    pl_ovf p <= N.of_nat (length blocks) * T + mout.
  Proof.
    intros Hok Hc Hl Hs Hb. cbv zeta. unfold layout.
    pose proof (blocks_nowrap ng mm T blocks O l0 0 s2 c Hok Hc Hl) as Hbl. cbv zeta in Hbl.
    destruct (blocks_loop gs ovh maxG ng mm 0 blocks l0 0 s2) as [[lsz mw] s3]. cbn [snd fst] in Hbl.
    destruct Hbl as (Hok3 & Hc3 & Hlsz); [lia|lia|].
    set (bc := N.of_nat (length blocks)) in *.
    assert (Hov : (bc - lc s3) * lsz <= bc * T).
    { apply N.mul_le_mono; lia. }
    assert (Hout : forall s', ok s' = true -> cap (c + bc * T + mout) s' ->
              forall fully ovf oko, oko = true -> ovf <= bc * T + mout ->
              pl_ok (mkplan s' fully ovf mw (ok s' && oko && true)) = true /\
              cap (c + bc * T + mout) (pl_st (mkplan s' fully ovf mw (ok s' && oko && true))) /\
              pl_ovf (mkplan s' fully ovf mw (ok s' && oko && true)) <= bc * T + mout).
    { intros s' Ho Hcs fully ovf oko -> Hovf. cbn [pl_ok pl_st pl_ovf]. rewrite Ho. auto. }
    destruct (place_out_nowrap mout (length (ws s3)) (c + bc * T) s3 Hok3 Hc3) as (Hok4 & Hc4); [lia|].
    assert (Hc3' : cap (c + bc * T + mout) s3) by (eapply cap_le; [|exact Hc3]; lia).
    destruct (bc <=? lc s3).
    - destruct ((0 <? mout) && negb (capped ng (lc s3))).
      + destruct (lc (place_out gs ovh maxG mout (length (ws s3)) s3) <? bc + 1).
        * rewrite (w_small (0 + mout)) by lia.
          replace (ok _ && true && fits (0 + mout)) with (ok (place_out gs ovh maxG mout (length (ws s3)) s3) && fits (0 + mout) && true)
            by (rewrite !andb_true_r; reflexivity).
          apply Hout; auto; [apply fits_small|]; lia.
        * apply Hout; auto. lia.
      + apply Hout; auto. lia.
    - rewrite (w_small ((bc - lc s3) * lsz)) by lia.
      destruct ((0 <? mout) && negb (capped ng (lc s3))).
      + destruct (lc (place_out gs ovh maxG mout (length (ws s3)) s3) <? bc + 1).
        * rewrite (w_small ((bc - lc s3) * lsz + mout)) by lia.
          rewrite Hok4, !fits_small by lia. cbn [pl_ok pl_st pl_ovf andb]. repeat split; auto. lia.
        * rewrite Hok4, !fits_small by lia. cbn [pl_ok pl_st pl_ovf andb]. repeat split; auto. lia.
      + rewrite Hok3, !fits_small by lia. cbn [pl_ok pl_st pl_ovf andb]. repeat split; auto. lia.
  Qed.
End NoWrap.

Lemma add_graph_nowrap g c als cts :
  (forall k, nth k als 0 <= c) -> c + g < W ->
  snd (add_graph g als cts) = true /\ (forall k, nth k (fst (add_graph g als cts)) 0 <= c + g).
Proof.
  revert cts. induction als as [|a als' IH]; intros cts Hc Hb; cbn [add_graph].
  - split; [reflexivity|]. intros k. cbn [fst]. destruct k; cbn; lia.
  - pose proof (Hc O) as Ha. cbn [nth] in Ha.
    assert (Hc' : forall k, nth k als' 0 <= c) by (intros k; apply (Hc (S k))).
    destruct cts as [|ct0 cts'].
    + split; [reflexivity|]. intros k. cbn [fst]. specialize (Hc k). lia.
    + specialize (IH cts' Hc' Hb). destruct (add_graph g als' cts') as [r o]. cbn [fst snd] in IH. destruct IH as (-> & Hr).
      destruct (ct0 =? 0); cbn [fst snd].
      * split; [reflexivity|]. intros [|k]; cbn [nth]; [lia|apply Hr].
      * rewrite (w_small (a + g)), (fits_small (a + g)) by lia. split; [reflexivity|].
        intros [|k]; cbn [nth]; [lia|apply Hr].
Qed.

(** the demand of a case: an explicit expression in the inputs ([prepare] only adds up sizes read from the file) *)
Definition demand (gs : list gpu) (m : model) (o : opts) : N :=
  let q := prepare gs m o in
  let n := N.of_nat (length gs) in
  let bc := N.of_nat (length (m_blocks m)) in
  let maxG := N.max (q_gp q) (q_gf q) in
  let T := q_l0 q + blocks_sum (q_mm q) (m_blocks m) in
  let B := sum_x (map g_min gs) + q_l0 q + (q_pw q + q_pg q) + bc * T + q_mout q in
  o_overhead o + (n + 1) * (B + maxG) + (bc + 2) * T + q_mout q.

Lemma estimate_nowrap gs m o :
  q_ok (prepare gs m o) = true -> demand gs m o < W -> r_ok (estimate gs m o) = true.
Proof.
  unfold demand, estimate. cbv zeta.
  set (q := prepare gs m o).
  set (n := N.of_nat (length gs)).
  set (bc := N.of_nat (length (m_blocks m))).
  set (maxG := N.max (q_gp q) (q_gf q)).
  set (T := q_l0 q + blocks_sum (q_mm q) (m_blocks m)).
  set (mmax := sum_x (map g_min gs)).
  set (gz := q_pw q + q_pg q).
  set (B := mmax + q_l0 q + gz + bc * T + q_mout q).
  intros Hq HD.
  replace ((n + 1) * (B + maxG)) with (n * (B + maxG) + (B + maxG)) in HD by lia.
  replace ((bc + 2) * T) with (bc * T + 2 * T) in HD by lia.
  set (nX := n * (B + maxG)) in *. set (bT := bc * T) in *.
  rewrite (w_small gz) by (unfold B in HD; lia).
  rewrite Hq, (fits_small gz) by (unfold B in HD; lia). cbn [andb].
  destruct (admission_nowrap gs (o_overhead o) maxG gz (q_l0 q) mmax true eq_refl) as (Hok2 & Hc2).
  { intros g Hin. unfold mmax. apply In_le_sum_x. now apply in_map. }
  { unfold B, T in HD. lia. }
  set (s2 := admission gs (o_overhead o) maxG gz (q_l0 q) true) in *.
  destruct (layout_nowrap gs (o_overhead o) maxG (o_numgpu o) (q_mm q) (m_blocks m) (q_l0 q) (q_mout q) s2 (mmax + q_l0 q + gz) T Hok2 Hc2)
    as (Hokp & Hcp & Hovf).
  { unfold T. lia. }
  { unfold T. lia. }
  { fold bc bT. unfold B in HD. lia. }
  fold bc bT in Hcp, Hovf.
  set (p := layout gs (o_overhead o) maxG (o_numgpu o) (q_mm q) (m_blocks m) (q_l0 q) (q_mout q) s2) in *.
  set (g := if pl_fully p then q_gf q else q_gp q).
  assert (Hg : g <= maxG) by (unfold g, maxG; destruct (pl_fully p); lia).
  assert (HcB : forall k, nth k (al (pl_st p)) 0 <= B) by (intros k; specialize (Hcp k); unfold B; lia).
  destruct (add_graph_nowrap g B (al (pl_st p)) (ct (pl_st p)) HcB) as (Hoka & Hals); [lia|].
  pose proof (add_graph_length g (al (pl_st p)) (ct (pl_st p))) as Hlen.
  destruct (add_graph g (al (pl_st p)) (ct (pl_st p))) as [als ok_a]. cbn [fst snd] in *.
  cbn [r_ok]. subst ok_a.
  assert (Hwf : length (al (pl_st p)) = length gs).
  { pose proof (admission_counts gs (o_overhead o) maxG gz (q_l0 q) true) as Ha. cbv zeta in Ha. fold s2 in Ha.
    destruct Ha as (Hwf2 & Hs2 & Hl2).
    pose proof (layout_counts gs (o_overhead o) maxG (o_numgpu o) (q_mm q) (m_blocks m) (q_l0 q) (q_mout q) s2 Hwf2 Hs2 Hl2) as Hp.
    cbv zeta in Hp. fold p in Hp. destruct Hp as ((Hla & _) & _). exact Hla. }
  assert (Hsum : sum_x als <= nX).
  { pose proof (sum_x_le_length als (B + g) Hals) as Hs. rewrite Hlen, Hwf in Hs. fold n in Hs.
    unfold nX. eapply N.le_trans; [exact Hs|]. apply N.mul_le_mono_l. lia. }
  rewrite Hokp. rewrite (fits_small (sum_x als)) by lia.
  rewrite (sum_w_x als) by (apply fits_small; lia).
  rewrite (fits_small (sum_x als + pl_ovf p)) by lia. reflexivity.
Qed.
