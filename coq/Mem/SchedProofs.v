(** Proofs about the scheduler-side model (Mem/Sched.v). *)
From Coq Require Import List NArith ZArith Bool Arith Lia.
From Coq Require Import ZifyBool ZifyNat ZifyN.
From V Require Import Common.Bytes Mem.Model Mem.Proofs Mem.Sched.
Import ListNotations.
Open Scope N_scope.

(** two records describe the same GPU (everything but FreeMemory) *)
Definition same_ident (a b : xgpu) : Prop :=
  x_id a = x_id b /\ x_total a = x_total b /\ g_min (x_g a) = g_min (x_g b) /\
  g_lib (x_g a) = g_lib (x_g b) /\ g_var (x_g a) = g_var (x_g b).

Lemma same_ident_refl a : same_ident a a.
Proof. unfold same_ident. auto. Qed.

(** * updateFreeSpace never raises FreeMemory *)
Lemma new_free_le total free p : new_free total free p <= free.
Proof. unfold new_free. destruct (total <? p) eqn:E1; [lia|]. destruct (total - p <? free) eqn:E2; lia. Qed.

Lemma new_free_le_room total free p : p <= total -> new_free total free p + p <= total.
Proof. unfold new_free. intros H. destruct (total <? p) eqn:E1; [lia|]. destruct (total - p <? free) eqn:E2; lia. Qed.

Lemma Forall2_map_r {A B} (R : A -> B -> Prop) (f : A -> B) l : (forall x, R x (f x)) -> Forall2 R l (map f l).
Proof. intros H. induction l; cbn; constructor; auto. Qed.

Lemma Forall2_refl {A} (R : A -> A -> Prop) l : (forall x, R x x) -> Forall2 R l l.
Proof. intros H. induction l; constructor; auto. Qed.

Definition not_raised (g g' : xgpu) : Prop := same_ident g g' /\ x_free g' <= x_free g.

Lemma update_free_not_raised rs allg : Forall2 not_raised allg (update_free rs allg).
Proof.
  unfold update_free. destruct (existsb rn_llama rs).
  - apply Forall2_map_r. intros g. split.
    + unfold same_ident, set_free. cbn. auto.
    + unfold set_free, x_free. cbn [x_g g_free]. apply new_free_le.
  - apply Forall2_refl. intros g. split; [apply same_ident_refl|lia].
Qed.

Lemma Forall2_In_r {A B} (R : A -> B -> Prop) l l' y : Forall2 R l l' -> In y l' -> exists x, In x l /\ R x y.
Proof.
  induction 1 as [|a b l l' Hab HF IH]; intros Hin; [destruct Hin|].
  destruct Hin as [<-|Hin]; [exists a; split; [now left|exact Hab]|].
  destruct (IH Hin) as (x & Hx & HR). exists x. split; [now right|exact HR].
Qed.

(** * filterGPUsWithoutLoadingModels only removes *)
Lemma drop_first_id_incl id l x : In x (drop_first_id id l) -> In x l.
Proof.
  induction l as [|g t IH]; cbn [drop_first_id]; auto.
  destruct (eqb_str (x_id g) id); intros H; [now right|].
  destruct H as [<-|H]; [now left|right; auto].
Qed.

Lemma fold_drop_incl ids : forall l x, In x (fold_left (fun ret id => drop_first_id id ret) ids l) -> In x l.
Proof.
  induction ids as [|id ids' IH]; intros l x H; cbn [fold_left] in H; auto.
  apply IH in H. eapply drop_first_id_incl; exact H.
Qed.

Lemma filter_loading_incl rs : forall gpus x, In x (filter_loading rs gpus) -> In x gpus.
Proof.
  unfold filter_loading. induction rs as [|r rs' IH]; intros gpus x H; cbn [fold_left] in H; auto.
  apply IH in H. destruct (rn_loading r); [eapply fold_drop_incl; exact H|exact H].
Qed.

(** the GPU list handed to the estimator: every entry is a reported GPU whose FreeMemory was not raised *)
Lemma handed_not_raised rs gpus g' :
  In g' (update_free rs (filter_loading rs gpus)) -> exists g, In g gpus /\ not_raised g g'.
Proof.
  intros H. destruct (Forall2_In_r _ _ _ _ (update_free_not_raised rs (filter_loading rs gpus)) H) as (g & Hg & HR).
  exists g. split; [eapply filter_loading_incl; exact Hg|exact HR].
Qed.

(** * sorting keeps the elements *)
Lemma ins_desc_In x y l : In x (ins_desc y l) <-> x = y \/ In x l.
Proof.
  induction l as [|z t IH]; cbn [ins_desc].
  - cbn. intuition.
  - destruct (x_free z <? x_free y); cbn [In]; [intuition|]. rewrite IH. intuition.
Qed.

Lemma sort_desc_In x l : In x (sort_desc l) <-> In x l.
Proof.
  unfold sort_desc.
  assert (H : forall acc, In x (fold_left (fun acc x => ins_desc x acc) l acc) <-> In x l \/ In x acc).
  { induction l as [|y t IH]; intros acc; cbn [fold_left].
    - cbn. intuition.
    - rewrite IH, ins_desc_In. cbn [In]. intuition (subst; auto). }
  rewrite H. cbn. intuition.
Qed.

Lemma ins_desc_length y l : length (ins_desc y l) = S (length l).
Proof. induction l as [|z t IH]; cbn [ins_desc]; auto. destruct (x_free z <? x_free y); cbn; auto. Qed.

Lemma sort_desc_length l : length (sort_desc l) = length l.
Proof.
  unfold sort_desc.
  assert (H : forall acc, length (fold_left (fun acc x => ins_desc x acc) l acc) = (length l + length acc)%nat).
  { induction l as [|y t IH]; intros acc; cbn [fold_left]; auto. rewrite IH, ins_desc_length. cbn. lia. }
  rewrite H. cbn. lia.
Qed.

Lemma sort_desc_nonempty l : l <> [] -> sort_desc l <> [].
Proof.
  intros Hne E. apply (f_equal (@length xgpu)) in E. rewrite sort_desc_length in E.
  destruct l; [congruence|discriminate E].
Qed.

(** * pickBestFullFitByLibrary *)
Definition full_ok (pool : list xgpu) (ps : list Z) (mp : Z -> model) (o : opts) (r : Z * list xgpu) : Prop :=
  In (fst r) ps /\ snd r <> [] /\ (forall x, In x (snd r) -> In x pool) /\
  fst (predict_server_fit (map x_g (snd r)) (mp (fst r)) o) = true.

Lemma first_single_sound sgl m o g : first_single sgl m o = Some g ->
  In g sgl /\ fst (predict_server_fit [x_g g] m o) = true.
Proof.
  induction sgl as [|y t IH]; cbn [first_single]; [discriminate|].
  destruct (fst (predict_server_fit [x_g y] m o)) eqn:E; intros H.
  - inversion H; subst. split; [now left|exact E].
  - destruct (IH H). split; [now right|assumption].
Qed.

Lemma try_single_sound ps sgl mp o r : try_single ps sgl mp o = Some r -> full_ok sgl ps mp o r.
Proof.
  induction ps as [|p t IH]; cbn [try_single]; [discriminate|].
  destruct (first_single sgl (mp p) o) as [g|] eqn:E; intros H.
  - inversion H; subst. apply first_single_sound in E. destruct E as (Hin & Hfit).
    unfold full_ok; cbn [fst snd map]. repeat split; auto; [now left|discriminate|].
    intros x [<-|[]]. exact Hin.
  - destruct (IH H) as (H1 & H2 & H3 & H4). unfold full_ok. repeat split; auto. now right.
Qed.

Lemma try_all_sound ps sgl mp o r : sgl <> [] -> try_all ps sgl mp o = Some r -> full_ok sgl ps mp o r.
Proof.
  intros Hne. induction ps as [|p t IH]; cbn [try_all]; [discriminate|].
  destruct (fst (predict_server_fit (map x_g sgl) (mp p) o)) eqn:E; intros H.
  - inversion H; subst. unfold full_ok; cbn [fst snd]. repeat split; auto. now left.
  - destruct (IH H) as (H1 & H2 & H3 & H4). unfold full_ok. repeat split; auto. now right.
Qed.

Lemma pick_groups_sound groups spread ps mp o r :
  (forall gl, In gl groups -> gl <> []) ->
  pick_groups groups spread ps mp o = Some r ->
  exists gl, In gl groups /\ full_ok gl ps mp o r.
Proof.
  induction groups as [|gl rest IH]; intros Hne; cbn [pick_groups]; [discriminate|].
  assert (Hsub : forall pool' r', full_ok (sort_desc gl) pool' mp o r' -> full_ok gl pool' mp o r').
  { intros pool' r' (H1 & H2 & H3 & H4). repeat split; auto. intros x Hx. apply sort_desc_In. auto. }
  destruct (if spread then None else try_single ps (sort_desc gl) mp o) as [r1|] eqn:E1.
  - intros H; inversion H; subst. exists gl. split; [now left|]. apply Hsub.
    destruct spread; [discriminate|]. now apply try_single_sound.
  - destruct (try_all ps (sort_desc gl) mp o) as [r2|] eqn:E2.
    + intros H; inversion H; subst. exists gl. split; [now left|]. apply Hsub.
      apply try_all_sound; [|exact E2]. apply sort_desc_nonempty. apply Hne. now left.
    + intros H. destruct IH as (gl' & Hin & Hok); auto.
      * intros g Hg. apply Hne. now right.
      * exists gl'. split; [now right|exact Hok].
Qed.

Lemma pick_full_sound gpus spread np mp o p chosen :
  pick_full gpus spread np mp o = Some (p, chosen) ->
  In p (tries np) /\ chosen <> [] /\ (forall x, In x chosen -> In x gpus) /\
  (forall x y, In x chosen -> In y chosen -> x_key x = x_key y) /\
  fst (predict_server_fit (map x_g chosen) (mp p) o) = true.
Proof.
  unfold pick_full. intros H.
  apply pick_groups_sound in H.
  - destruct H as (gl & Hin & (H1 & H2 & H3 & H4)). cbn [fst snd] in *.
    destruct (by_library_gen_groups x_key gpus gl Hin) as (_ & Hsub & Hsame).
    repeat split; auto.
  - intros gl Hin. apply (by_library_gen_groups x_key gpus gl Hin).
Qed.

(** * pickBestPartialFitByLibrary returns GPUs of the list *)
Lemma pick_partial_incl gpus np mp o x : In x (snd (pick_partial gpus np mp o)) -> In x gpus.
Proof.
  unfold pick_partial.
  destruct (by_library_gen x_key gpus) as [|g1 [|g2 rest]] eqn:E; cbn [snd]; auto.
  intros H.
  destruct (nth_in_or_default (best_partial (g1 :: g2 :: rest) 0 (mp (if (np <=? 0)%Z then 1%Z else np)) o 0 0) (g1 :: g2 :: rest) []) as [Hin|Hd].
  - rewrite <- E in H, Hin. destruct (by_library_gen_groups x_key gpus _ Hin) as (_ & Hsub & _). apply Hsub. exact H.
  - rewrite Hd in H. destruct H.
Qed.

(** * the plan for the GPUs that were handed over *)
Lemma plan_bound chosen m o i :
  let r := plan_for chosen m o in
  r_ok r = true ->
  nth i (r_sizes r) 0 = 0 \/
  (In (nth i chosen x0) chosen /\ nth i (r_sizes r) 0 + o_overhead o <= x_free (nth i chosen x0)).
Proof.
  cbv zeta. unfold plan_for. intros Hok.
  destruct (estimate_bytes (map x_g chosen) m o Hok) as (Hb & _).
  destruct (estimate_counts (map x_g chosen) m o) as (Hlen & _ & _ & _ & _ & _ & _ & _ & Hsz).
  rewrite map_length in Hlen.
  destruct Hsz as [E|E]; rewrite E; [left; now destruct i|].
  destruct (Nat.lt_ge_cases i (length chosen)) as [Hlt|Hge].
  - destruct (Hb i) as [H|H]; [now left|right]. split; [now apply nth_In|].
    change gpu0 with (x_g x0) in H. rewrite map_nth in H. exact H.
  - left. apply nth_overflow. lia.
Qed.

(** end to end, other models loaded *)
Lemma sched_loaded_bound rs gpus spread np mp o avail p chosen i :
  sched_loaded rs gpus spread np mp o = (avail, Some (p, chosen)) ->
  let r := plan_for chosen (mp p) o in
  r_ok r = true ->
  nth i (r_sizes r) 0 = 0 \/
  exists g, In g gpus /\ same_ident g (nth i chosen x0) /\ nth i (r_sizes r) 0 + o_overhead o <= x_free g.
Proof.
  unfold sched_loaded. intros H Hok. injection H as Hav Hpick. rewrite Hav in Hpick.
  destruct (pick_full_sound _ _ _ _ _ _ _ Hpick) as (_ & _ & Hsub & _).
  destruct (plan_bound chosen (mp p) o i Hok) as [Hz|(Hin & Hle)]; [now left|right].
  rewrite <- Hav in Hsub.
  destruct (handed_not_raised rs gpus _ (Hsub _ Hin)) as (g & Hg & (Hid & Hfree)).
  exists g. split; [exact Hg|split; [exact Hid|lia]].
Qed.

(** end to end, first model *)
Lemma sched_first_bound gpus spread np mp o p chosen i :
  sched_first gpus spread np mp o = (p, chosen) ->
  let r := plan_for chosen (mp p) o in
  r_ok r = true ->
  nth i (r_sizes r) 0 = 0 \/
  (In (nth i chosen x0) gpus /\ nth i (r_sizes r) 0 + o_overhead o <= x_free (nth i chosen x0)).
Proof.
  unfold sched_first. intros H Hok.
  assert (Hsub : forall x, In x chosen -> In x gpus).
  { destruct (pick_full gpus spread np mp o) as [[p' c']|] eqn:E.
    - inversion H; subst. apply (pick_full_sound _ _ _ _ _ _ _ E).
    - intros x Hx. apply (pick_partial_incl gpus np mp o). rewrite H. exact Hx. }
  destruct (plan_bound chosen (mp p) o i Hok) as [Hz|(Hin & Hle)]; [now left|right].
  split; auto.
Qed.

(** * updateFreeSpace accounts for what is already planned for the resident runners: free + predicted <= total *)
Lemma predicted_set_free rs allg g f : predicted rs allg (set_free g f) = predicted rs allg g.
Proof. reflexivity. Qed.

Lemma update_free_accounts rs allg g' :
  existsb rn_llama rs = true -> In g' (update_free rs allg) ->
  (predicted rs allg g' <= x_total g' -> x_free g' + predicted rs allg g' <= x_total g') /\
  (x_total g' < predicted rs allg g' -> x_free g' = 0).
Proof.
  unfold update_free. intros -> Hin. apply in_map_iff in Hin. destruct Hin as (g & <- & _).
  rewrite predicted_set_free. unfold set_free, x_free. cbn [x_g g_free x_total]. split.
  - apply new_free_le_room.
  - intros H. unfold new_free. apply N.ltb_lt in H. now rewrite H.
Qed.

(** * CPU branch: what is loaded next to other runners fits the reported free system memory *)
Lemma sched_cpu_load_fits loaded g np_env emb mp o p :
  sched_cpu loaded g np_env emb mp o = CpuLoad p ->
  p = cpu_parallel np_env emb /\ (1 <= p)%Z /\
  (loaded <> O -> r_total (plan_for [g] (mp p) o) <= x_free g).
Proof.
  unfold sched_cpu, plan_for. cbn [map].
  assert (Hp : (1 <= cpu_parallel np_env emb)%Z).
  { unfold cpu_parallel, default_parallel. destruct emb; [cbn; lia|]. destruct (np_env <=? 0)%Z eqn:E; lia. }
  destruct (Nat.eqb loaded 0) eqn:E0.
  - intros H; inversion H; subst. repeat split; auto. apply Nat.eqb_eq in E0. congruence.
  - destruct (r_total (estimate [x_g g] (mp (cpu_parallel np_env emb)) o) <=? x_free g) eqn:E; [|discriminate].
    intros H; inversion H; subst. repeat split; auto. intros _. now apply N.leb_le.
Qed.
