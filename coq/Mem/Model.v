(** Model of the memory estimator: llm/memory.go [EstimateGPULayers], [PredictServerFit] and
    discover/types.go [GpuInfoList.ByLibrary].  Definitions only (proofs: Mem/Proofs.v).

    The model follows the Go code loop for loop.  Its inputs are the abstract quantities the estimator reads
    from the model file (layer sizes, per-layer KV sizes and graph sizes as returned by GraphSize, output
    sizes, projector sizes), the GPU list, and the options (GPU overhead, NumGPU).  All arithmetic on sizes is
    Go's uint64 arithmetic: every sum/product is reduced modulo 2^64 ([w]); next to the values the model
    carries one flag [ok] which is true iff no such operation actually wrapped.  The theorems about sizes are
    stated for runs whose flag is true; the correspondence check compares the wrapped values (and so also
    covers runs that do wrap). *)
From Coq Require Import List NArith ZArith Bool Arith.
From V Require Import Common.Bytes.
Import ListNotations.
Open Scope N_scope.

Definition W : N := 18446744073709551616.   (* 2^64 *)
Definition w (x : N) : N := x mod W.          (* the value a uint64 expression takes *)
Definition fits (x : N) : bool := x <? W.     (* the exact value is representable, i.e. no wrap *)

(** discover.GpuInfo, the fields the estimator reads *)
Record gpu := mkgpu { g_free : N; g_min : N; g_lib : str; g_var : str }.
Definition gpu0 : gpu := mkgpu 0 0 [] [].
Definition s_cpu : str := [99; 112; 117].
Definition s_metal : str := [109; 101; 116; 97; 108].

(** what the estimator reads from the model file *)
Record model := mkmodel {
  m_blk0 : option N;                  (* layers["blk.0"].Size(), if the layer exists *)
  m_blocks : list (option N * N * N); (* for i < BlockCount: layers["blk.i"].Size() if it exists; kv[i] of GraphSize
                                         for the plain context; kv[i] for the multimodal context max(ctx,2048) *)
  m_graph : N * N;                    (* (partial, full) of GraphSize, plain context *)
  m_graph_mm : N * N;                 (* (partial, full) of GraphSize, multimodal context *)
  m_gqa : N;                          (* KV().GQA() *)
  m_out_norm : option N;              (* layers["output_norm"].Size() *)
  m_out : option N;                   (* layers["output"].Size() *)
  m_tok : option N;                   (* layers["token_embd"].Size() *)
  m_vision : N * N                    (* VisionGraphSize() *)
}.

Record opts := mkopts {
  o_overhead : N;                     (* envconfig.GpuOverhead() *)
  o_numgpu : Z;                       (* opts.NumGPU *)
  o_proj : list (N * N)               (* projectorMemoryRequirements of every projector path *)
}.

(** the running plan *)
Record st := mkst {
  ws : list nat;    (* gpusWithSpace, as indices into the GPU list *)
  al : list N;      (* gpuAllocations *)
  ct : list N;      (* layerCounts *)
  lc : N;           (* layerCount *)
  ok : bool         (* no uint64 operation wrapped so far *)
}.

Fixpoint upd (l : list N) (i : nat) (f : N -> N) : list N :=
  match l, i with
  | [], _ => []
  | x :: t, O => f x :: t
  | x :: t, S i' => x :: upd t i' f
  end.

Fixpoint remove_nth {A} (k : nat) (l : list A) : list A :=
  match l, k with
  | [], _ => []
  | _ :: t, O => t
  | x :: t, S k' => x :: remove_nth k' t
  end.

Definition sum_w (l : list N) : N := fold_left (fun a x => w (a + x)) l 0.
(** exact sum, and "no prefix sum wraps" *)
Definition sum_x (l : list N) : N := fold_left N.add l 0.

Section Estimate.
  Variable gs : list gpu.
  Variable ovh : N.      (* overhead *)
  Variable maxG : N.     (* max(graphPartialOffload, graphFullOffload) *)

  (** "Reduce set of GPUs to only those that have sufficient space ...": the loop [for i := range gpus] *)
  Fixpoint adm_loop (gzo l0 : N) (i : nat) (rest : list gpu) (s : st) : st :=
    match rest with
    | [] => s
    | g :: rest' =>
      let z := match ws s with [] => gzo | _ => 0 end in
      let t1 := w (ovh + z) in
      let t2 := w (t1 + maxG) in
      let t3 := w (t2 + g_min g) in
      let t4 := w (2 * l0) in
      let need := w (t3 + t4) in
      let ok1 := ok s && fits (ovh + z) && fits (t1 + maxG) && fits (t2 + g_min g) && fits (2 * l0) && fits (t3 + t4) in
      if g_free g <? need then
        adm_loop gzo l0 (S i) rest' (mkst (ws s) (al s) (ct s) (lc s) ok1)
      else
        let a := nth i (al s) 0 in
        let d := w (g_min g + l0) in
        adm_loop gzo l0 (S i) rest'
          (mkst (ws s ++ [i]) (upd (al s) i (fun x => w (x + d))) (ct s) (lc s)
                (ok1 && fits (g_min g + l0) && fits (a + d)))
    end.

  (** one layer of size [lsz] for block [i]: the loop [for j := len(gpusWithSpace); j > 0; j--] *)
  Fixpoint place (lsz : N) (i : nat) (j : nat) (s : st) : st :=
    match j with
    | O => s
    | S j' =>
      let k := Nat.modulo i (S j') in
      let gi := nth k (ws s) O in
      let a := nth gi (al s) 0 in
      let used := w (a + maxG) in
      let t1 := w (ovh + used) in
      let rhs := w (t1 + lsz) in
      let ok1 := ok s && fits (a + maxG) && fits (ovh + used) && fits (t1 + lsz) in
      if rhs <? g_free (nth gi gs gpu0) then
        mkst (ws s) (upd (al s) gi (fun x => w (x + lsz))) (upd (ct s) gi N.succ) (N.succ (lc s))
             (ok1 && fits (a + lsz))
      else
        place lsz i j' (mkst (remove_nth k (ws s)) (al s) (ct s) (lc s) ok1)
    end.

  (** the output layer: same search but GPUs are not dropped and the index is layerCount % j *)
  Fixpoint place_out (osz : N) (j : nat) (s : st) : st :=
    match j with
    | O => s
    | S j' =>
      let k := Nat.modulo (N.to_nat (lc s)) (S j') in
      let gi := nth k (ws s) O in
      let a := nth gi (al s) 0 in
      let used := w (a + maxG) in
      let t1 := w (ovh + used) in
      let rhs := w (t1 + osz) in
      let ok1 := ok s && fits (a + maxG) && fits (ovh + used) && fits (t1 + osz) in
      if rhs <? g_free (nth gi gs gpu0) then
        mkst (ws s) (upd (al s) gi (fun x => w (x + osz))) (upd (ct s) gi N.succ) (N.succ (lc s))
             (ok1 && fits (a + osz))
      else
        place_out osz j' (mkst (ws s) (al s) (ct s) (lc s) ok1)
    end.

  (** opts.NumGPU >= 0 && layerCount >= opts.NumGPU *)
  Definition capped (ng : Z) (n : N) : bool := ((0 <=? ng) && (ng <=? Z.of_N n))%Z.

  (** "For all the layers, find where they can fit on the GPU(s)": [for i := range BlockCount].
      The loop state besides the plan: layerSize and memoryWeights. *)
  Fixpoint blocks_loop (ng : Z) (mm : bool) (i : nat) (bl : list (option N * N * N)) (lsz mw : N) (s : st)
    : N * N * st :=
    match bl with
    | [] => (lsz, mw, s)
    | (b, kvp, kvm) :: bl' =>
      let kvi := if mm then kvm else kvp in
      let '(lsz1, mw1, okb) :=
        match b with
        | Some sz => (w (sz + kvi), w (mw + sz), fits (sz + kvi) && fits (mw + sz))
        | None => (lsz, mw, true)
        end in
      let s1 := mkst (ws s) (al s) (ct s) (lc s) (ok s && okb) in
      let s2 := if capped ng (lc s1) then s1 else place lsz1 i (length (ws s1)) s1 in
      blocks_loop ng mm (S i) bl' lsz1 mw1 s2
    end.

  (** "Add the applicable (full or partial) graph allocations": [for i := range gpus] *)
  Fixpoint add_graph (g : N) (als cts : list N) : list N * bool :=
    match als, cts with
    | a :: als', c :: cts' =>
      let '(r, o) := add_graph g als' cts' in
      if c =? 0 then (a :: r, o) else (w (a + g) :: r, o && fits (a + g))
    | _, _ => (als, true)
    end.
End Estimate.

Definition osz (o : option N) : N := match o with Some x => x | None => 0 end.

(** the MemoryEstimate returned, plus the internal plan (fields p_...) and the no-wrap flag *)
Record result := mkresult {
  r_layers : N;           (* Layers *)
  r_graph : N;            (* Graph *)
  r_vram : N;             (* VRAMSize *)
  r_total : N;            (* TotalSize *)
  r_sizes : list N;       (* GPUSizes *)
  r_split : list N;       (* TensorSplit, as numbers; [] for the empty string *)
  p_allocs : list N;      (* gpuAllocations at the end *)
  p_counts : list N;      (* layerCounts at the end *)
  p_lc : N;               (* layerCount at the end *)
  p_fully : bool;         (* fullyLoaded *)
  p_gp : N; p_gf : N;     (* graphPartialOffload / graphFullOffload after the metal / multi-GPU adjustment *)
  p_out : N;              (* memoryLayerOutput *)
  p_pw : N; p_pg : N;     (* projectorWeights / projectorGraph *)
  p_kv : N;               (* kvTotal *)
  p_mw : N;               (* memoryWeights *)
  r_ok : bool
}.

(** Phase 1: everything EstimateGPULayers computes before it looks at the GPUs' memory *)
Record prep := mkprep {
  q_mm : bool;            (* a projector path was given, i.e. opts.NumCtx = max(opts.NumCtx, 2048) happened *)
  q_pw : N; q_pg : N;     (* projectorWeights / projectorGraph *)
  q_l0 : N;               (* layerSize before the block loop: blk.0 (+ kv[0]) *)
  q_kvt : N;              (* kvTotal *)
  q_gp : N; q_gf : N;     (* graphPartialOffload / graphFullOffload after the metal / multi-GPU adjustment *)
  q_mout : N;             (* memoryLayerOutput *)
  q_ok : bool             (* nothing wrapped so far *)
}.

Definition prepare (gs : list gpu) (m : model) (o : opts) : prep :=
  let lib := g_lib (hd gpu0 gs) in
  let mm := match o_proj o with [] => false | _ => true end in
  (* projectors *)
  let pw0 := sum_w (map fst (o_proj o)) in
  let pg0 := sum_w (map snd (o_proj o)) in
  let ok_p := fits (sum_x (map fst (o_proj o))) && fits (sum_x (map snd (o_proj o))) in
  let '(pw, pg) := if (pw0 =? 0) && (pg0 =? 0) then m_vision m else (pw0, pg0) in
  (* layer buffer *)
  let l00 := osz (m_blk0 m) in
  let kvs := map (fun b : option N * N * N => let '(_, kvp, kvm) := b in if mm then kvm else kvp) (m_blocks m) in
  let '(l0, ok_l) := match kvs with k0 :: _ => (w (l00 + k0), fits (l00 + k0)) | [] => (l00, true) end in
  let kvt := sum_w kvs in
  let ok_k := fits (sum_x kvs) in
  (* graph *)
  let '(gp0, gf0) := if mm then m_graph_mm m else m_graph m in
  let '(gp1, ok_g) := if gp0 =? 0 then (w (m_gqa m * kvt) / 6, fits (m_gqa m * kvt)) else (gp0, true) in
  let gf1 := if gf0 =? 0 then gp1 else gf0 in
  let '(gp, gf) :=
    if eqb_str lib s_metal then (gf1, gf1)
    else if (1 <? length gs)%nat then (gp1, gp1)
    else (gp1, gf1) in
  (* output *)
  let on := osz (m_out_norm m) in
  let oo := match m_out m with Some x => x | None => osz (m_tok m) end in
  mkprep mm pw pg l0 kvt gp gf (w (on + oo)) (ok_p && ok_l && ok_k && ok_g && fits (on + oo)).

(** Phase 2: "Reduce set of GPUs ..." and the projector on the first admitted GPU *)
Definition admission (gs : list gpu) (ovh maxG gzo l0 : N) (ok0 : bool) : st :=
  let n := length gs in
  let s1 := adm_loop ovh maxG gzo l0 O gs (mkst [] (repeat 0 n) (repeat 0 n) 0 ok0) in
  match ws s1 with
  | z :: _ => mkst (ws s1) (upd (al s1) z (fun x => w (x + gzo))) (ct s1) (lc s1)
                   (ok s1 && fits (nth z (al s1) 0 + gzo))
  | [] => s1
  end.

(** Phase 3: the block loop, fullyLoaded / overflow, the output layer *)
Record plan := mkplan { pl_st : st; pl_fully : bool; pl_ovf : N; pl_mw : N; pl_ok : bool }.

Definition layout (gs : list gpu) (ovh maxG : N) (ng : Z) (mm : bool) (blocks : list (option N * N * N))
                  (l0 mout : N) (s2 : st) : plan :=
  let bc := N.of_nat (length blocks) in
  let '(lsz, mw, s3) := blocks_loop gs ovh maxG ng mm O blocks l0 0 s2 in
  let '(fully0, ovf0, ok_o) :=
    if bc <=? lc s3 then (true, 0, true)
    else (false, w ((bc - lc s3) * lsz), fits ((bc - lc s3) * lsz)) in
  let '(s4, fully, ovf, ok_o2) :=
    if (0 <? mout) && negb (capped ng (lc s3)) then
      let s' := place_out gs ovh maxG mout (length (ws s3)) s3 in
      if lc s' <? bc + 1 then (s', false, w (ovf0 + mout), fits (ovf0 + mout)) else (s', fully0, ovf0, true)
    else (s3, fully0, ovf0, true) in
  mkplan s4 fully ovf mw (ok s4 && ok_o && ok_o2).

(** Phase 4: graph add-back, the sums, the early returns *)
Definition estimate (gs : list gpu) (m : model) (o : opts) : result :=
  let lib := g_lib (hd gpu0 gs) in
  let n := length gs in
  let q := prepare gs m o in
  let ovh := o_overhead o in
  let maxG := N.max (q_gp q) (q_gf q) in
  let gzo := w (q_pw q + q_pg q) in
  let s2 := admission gs ovh maxG gzo (q_l0 q) (q_ok q && fits (q_pw q + q_pg q)) in
  let p := layout gs ovh maxG (o_numgpu o) (q_mm q) (m_blocks m) (q_l0 q) (q_mout q) s2 in
  let s4 := pl_st p in
  let g := if pl_fully p then q_gf q else q_gp q in
  let '(als, ok_a) := add_graph g (al s4) (ct s4) in
  let partial := sum_w als in
  let total := w (partial + pl_ovf p) in
  let okf := pl_ok p && ok_a && fits (sum_x als) && fits (partial + pl_ovf p) in
  let early := eqb_str lib s_cpu || (lc s4 =? 0) in
  mkresult
    (if early then 0 else lc s4)
    (if early then 0 else g)
    (if early then 0 else partial)
    total
    (if early then [] else als)
    (if early || negb (1 <? n)%nat then [] else ct s4)
    als (ct s4) (lc s4) (pl_fully p) (q_gp q) (q_gf q) (q_mout q) (q_pw q) (q_pg q) (q_kvt q) (pl_mw p) okf.

(** EstimateGPULayers indexes gpus[0] unconditionally: an empty list is a run-time panic *)
Definition estimate_gpus (gs : list gpu) (m : model) (o : opts) : option result :=
  match gs with [] => None | _ => Some (estimate gs m o) end.

(** discover.GpuInfoList.ByLibrary *)
Definition requested (g : gpu) : str :=
  match g_var g with [] => g_lib g | v => g_lib g ++ [95] ++ v end.

Fixpoint add_to {A} (key : str) (g : A) (groups : list (str * list A)) : list (str * list A) :=
  match groups with
  | [] => [(key, [g])]
  | (k, l) :: rest => if eqb_str k key then (k, l ++ [g]) :: rest else (k, l) :: add_to key g rest
  end.

(** ByLibrary over any record that carries a library/variant key (the scheduler's GPU records carry more fields) *)
Definition by_library_gen {A} (key : A -> str) (l : list A) : list (list A) :=
  map snd (fold_left (fun acc g => add_to (key g) g acc) l []).

Definition by_library (l : list gpu) : list (list gpu) := by_library_gen requested l.

(** the fit test of PredictServerFit for one library group *)
Definition fits_fully (m : model) (o : opts) (layers : N) : bool :=
  let bc := N.of_nat (length (m_blocks m)) in
  if (o_numgpu o <? 0)%Z then (0 <? layers) && (bc + 1 <=? layers)
  else (0 <? layers) && (o_numgpu o <=? Z.of_N layers)%Z.

Fixpoint predict_loop (groups : list (list gpu)) (m : model) (o : opts) (vram : N) : bool * N :=
  match groups with
  | [] => (false, vram)
  | g :: rest =>
    let r := estimate g m o in
    if fits_fully m o (r_layers r) then (true, r_vram r) else predict_loop rest m o (r_vram r)
  end.

Definition predict_server_fit (all : list gpu) (m : model) (o : opts) : bool * N :=
  predict_loop (by_library all) m o 0.
