(** Model of the path the scheduler takes to the memory estimator (server/sched.go):
    [filterGPUsWithoutLoadingModels], [updateFreeSpace], [pickBestFullFitByLibrary], [pickBestPartialFitByLibrary],
    on top of Mem/Model.v ([predict_server_fit], [estimate], [by_library_gen]).  Definitions only. *)
From Coq Require Import List NArith ZArith Bool Arith.
From V Require Import Common.Bytes Mem.Model.
Import ListNotations.
Open Scope N_scope.

(** discover.GpuInfo as the scheduler sees it: the estimator's fields plus ID and TotalMemory *)
Record xgpu := mkx { x_id : str; x_total : N; x_g : gpu }.
Definition x0 : xgpu := mkx [] 0 gpu0.
Definition x_free (g : xgpu) : N := g_free (x_g g).
Definition x_key (g : xgpu) : str := requested (x_g g).
Definition set_free (g : xgpu) (f : N) : xgpu :=
  mkx (x_id g) (x_total g) (mkgpu f (g_min (x_g g)) (g_lib (x_g g)) (g_var (x_g g))).

(** a loaded runner: what filterGPUsWithoutLoadingModels / updateFreeSpace read *)
Record runner := mkrunner {
  rn_loading : bool;              (* runner.loading *)
  rn_gpus : list str;             (* IDs of runner.gpus *)
  rn_llama : bool;                (* runner.llama != nil *)
  rn_vram : list (str * N)        (* llama.EstimatedVRAMByGPU, as an association list by GPU ID (absent = 0) *)
}.

Fixpoint vram_of (tbl : list (str * N)) (id : str) : N :=
  match tbl with
  | [] => 0
  | (k, v) :: t => if eqb_str k id then v else vram_of t id
  end.

(** ** filterGPUsWithoutLoadingModels: for every busy GPU of every loading runner drop the first entry with that ID *)
Fixpoint drop_first_id (id : str) (l : list xgpu) : list xgpu :=
  match l with
  | [] => []
  | g :: t => if eqb_str (x_id g) id then t else g :: drop_first_id id t
  end.

Definition filter_loading (rs : list runner) (gpus : list xgpu) : list xgpu :=
  fold_left (fun ret r => if rn_loading r then fold_left (fun ret' id => drop_first_id id ret') (rn_gpus r) ret else ret) rs gpus.

(** ** updateFreeSpace *)
Definition same_key (a b : xgpu) : bool :=
  eqb_str (g_lib (x_g a)) (g_lib (x_g b)) && eqb_str (x_id a) (x_id b).

(** predMap[{Library, ID}] after the loops over s.loaded and allGpus (uint64 sums) *)
Definition predicted (rs : list runner) (allg : list xgpu) (g : xgpu) : N :=
  fold_left (fun acc r =>
    if rn_llama r then
      fold_left (fun acc' g' => if same_key g' g then w (acc' + vram_of (rn_vram r) (x_id g')) else acc') allg acc
    else acc) rs 0.

Definition new_free (total free p : N) : N :=
  if total <? p then 0
  else if total - p <? free then total - p
  else free.

Definition update_free (rs : list runner) (allg : list xgpu) : list xgpu :=
  if existsb rn_llama rs
  then map (fun g => set_free g (new_free (x_total g) (x_free g) (predicted rs allg g))) allg
  else allg.

(** ** sort.Sort(sort.Reverse(discover.ByFreeMemory(sgl))): for the list lengths that occur (<= 12) Go's pdqsort is
    its insertion sort, which is stable *)
Fixpoint ins_desc (x : xgpu) (l : list xgpu) : list xgpu :=
  match l with
  | [] => [x]
  | y :: t => if x_free y <? x_free x then x :: y :: t else y :: ins_desc x t
  end.
Definition sort_desc (l : list xgpu) : list xgpu := fold_left (fun acc x => ins_desc x acc) l [].

(** ** pickBestFullFitByLibrary.  [mp p] = what the estimator reads from the model file when NumCtx = origNumCtx * p and
    numParallel = p (GraphSize depends on both) *)
Definition default_parallel : Z := 4.
Definition tries (np : Z) : list Z := if (np <=? 0)%Z then [default_parallel; 1%Z] else [np].

Fixpoint first_single (sgl : list xgpu) (m : model) (o : opts) : option xgpu :=
  match sgl with
  | [] => None
  | g :: t => if fst (predict_server_fit [x_g g] m o) then Some g else first_single t m o
  end.

Fixpoint try_single (ps : list Z) (sgl : list xgpu) (mp : Z -> model) (o : opts) : option (Z * list xgpu) :=
  match ps with
  | [] => None
  | p :: t => match first_single sgl (mp p) o with
              | Some g => Some (p, [g])
              | None => try_single t sgl mp o
              end
  end.

Fixpoint try_all (ps : list Z) (sgl : list xgpu) (mp : Z -> model) (o : opts) : option (Z * list xgpu) :=
  match ps with
  | [] => None
  | p :: t => if fst (predict_server_fit (map x_g sgl) (mp p) o) then Some (p, sgl) else try_all t sgl mp o
  end.

Fixpoint pick_groups (groups : list (list xgpu)) (spread : bool) (ps : list Z) (mp : Z -> model) (o : opts)
  : option (Z * list xgpu) :=
  match groups with
  | [] => None
  | gl :: rest =>
    let sgl := sort_desc gl in
    match (if spread then None else try_single ps sgl mp o) with
    | Some r => Some r
    | None => match try_all ps sgl mp o with
              | Some r => Some r
              | None => pick_groups rest spread ps mp o
              end
    end
  end.

Definition pick_full (gpus : list xgpu) (spread : bool) (np : Z) (mp : Z -> model) (o : opts) : option (Z * list xgpu) :=
  pick_groups (by_library_gen x_key gpus) spread (tries np) mp o.

(** ** pickBestPartialFitByLibrary *)
Fixpoint best_partial (groups : list (list xgpu)) (i : nat) (m : model) (o : opts) (best : N) (bi : nat) : nat :=
  match groups with
  | [] => bi
  | gl :: rest =>
    let v := snd (predict_server_fit (map x_g gl) m o) in
    if best <? v then best_partial rest (S i) m o v i else best_partial rest (S i) m o best bi
  end.

Definition pick_partial (gpus : list xgpu) (np : Z) (mp : Z -> model) (o : opts) : Z * list xgpu :=
  let p := if (np <=? 0)%Z then 1%Z else np in
  let groups := by_library_gen x_key gpus in
  match groups with
  | [] | [_] => (p, gpus)
  | _ => (p, nth (best_partial groups O (mp p) o 0 O) groups [])
  end.

(** ** the two ways processPending reaches the estimator *)
(** other models are loaded: filter, update free memory, full fit only *)
Definition sched_loaded (rs : list runner) (gpus : list xgpu) (spread : bool) (np : Z) (mp : Z -> model) (o : opts)
  : list xgpu * option (Z * list xgpu) :=
  let avail := update_free rs (filter_loading rs gpus) in
  (avail, pick_full avail spread np mp o).

(** no model is loaded: full fit, else the best partial fit *)
Definition sched_first (gpus : list xgpu) (spread : bool) (np : Z) (mp : Z -> model) (o : opts) : Z * list xgpu :=
  match pick_full gpus spread np mp o with
  | Some r => r
  | None => pick_partial gpus np mp o
  end.

(** what NewLlamaServer then computes for the GPUs it was handed *)
Definition plan_for (chosen : list xgpu) (m : model) (o : opts) : result := estimate (map x_g chosen) m o.

(** ** processPending, CPU branch (one inventory entry of library "cpu") and maybeFindCPURunnerToUnload *)
(** numParallel: OLLAMA_NUM_PARALLEL (0 = unset), 1 for embedding models, defaultParallel when still <= 0 *)
Definition cpu_parallel (np_env : Z) (emb : bool) : Z :=
  let np := if emb then 1%Z else np_env in
  if (np <=? 0)%Z then default_parallel else np.

Inductive cpu_action := CpuLoad (p : Z) | CpuEvict.

(** NumCtx is scaled by numParallel BEFORE the fit check: [mp p] are the inputs for NumCtx = origNumCtx * p, and
    maybeFindCPURunnerToUnload passes NumCtx / origNumCtx = p as the parallel setting *)
Definition sched_cpu (loaded : nat) (g : xgpu) (np_env : Z) (emb : bool) (mp : Z -> model) (o : opts) : cpu_action :=
  let p := cpu_parallel np_env emb in
  if Nat.eqb loaded 0 then CpuLoad p
  else if r_total (estimate [x_g g] (mp p) o) <=? x_free g then CpuLoad p
  else CpuEvict.
