(** C16 — Memory estimate never plans more on a GPU than it has free.  Theorems only (proofs: Mem/Proofs.v).

    [estimate gs m o] is the model of llm.EstimateGPULayers for the GPU list [gs] (any length >= 1, any free / minimum
    memory), the quantities [m] the estimator reads from the model file (any block count, any layer-size profile,
    graph and KV sizes, output / projector sizes) and the options [o] (overhead, num_gpu, projectors).
    [r_sizes / r_layers / r_split / r_vram / r_total] are MemoryEstimate.GPUSizes / Layers / TensorSplit / VRAMSize /
    TotalSize; [p_allocs / p_counts / p_lc / p_fully] are gpuAllocations / layerCounts / layerCount / fullyLoaded at
    the end of the function.  [r_ok r = true] says that no uint64 operation of the run wrapped around. *)
From Coq Require Import List NArith ZArith Bool.
From V Require Import Common.Bytes Mem.Model Mem.Proofs Mem.Sched Mem.SchedProofs.
Import ListNotations.
Open Scope N_scope.

(** ** 1. no GPU is planned above its free memory less the overhead *)

(** the statement without the no-wrap guard is false of the faithful model (and of the code): uint64 wrap-around *)
Definition C16_per_gpu_bound_full : Prop := forall gs m o i,
  let r := estimate gs m o in
  nth i (r_sizes r) 0 = 0 \/ nth i (r_sizes r) 0 + o_overhead o <= g_free (nth i gs gpu0).

Definition wrap_gs : list gpu := [mkgpu 10 0 [99; 117; 100; 97] []].
Definition wrap_m : model := mkmodel (Some 1) [(Some 1, 0, 0)] (0, 0) (0, 0) 0 None None None (0, 0).
Definition wrap_o : opts := mkopts 18446744073709551615 (-1) [].

Theorem C16_per_gpu_bound_refuted : ~ C16_per_gpu_bound_full.
Proof.
  intros H. specialize (H wrap_gs wrap_m wrap_o 0%nat). vm_compute in H.
  destruct H as [H|H]; [discriminate H|exact (H eq_refl)].
Qed.
Print Assumptions C16_per_gpu_bound_refuted.

(** the strongest true statement: guarded by the decidable flag "nothing wrapped" *)
Theorem C16_per_gpu_bound : forall gs m o i,
  let r := estimate gs m o in
  r_ok r = true ->
  (nth i (r_sizes r) 0 = 0 \/ nth i (r_sizes r) 0 + o_overhead o <= g_free (nth i gs gpu0)) /\
  (nth i (p_allocs r) 0 = 0 \/ nth i (p_allocs r) 0 + o_overhead o <= g_free (nth i gs gpu0)) /\
  length (p_allocs r) = length gs /\ (r_sizes r = [] \/ r_sizes r = p_allocs r).
Proof.
  intros gs m o i r Hok.
  destruct (estimate_bytes gs m o Hok) as (Hb & _).
  destruct (estimate_counts gs m o) as (Hlen & _ & _ & _ & _ & _ & _ & _ & Hsz).
  fold r in Hb, Hlen, Hsz.
  repeat split; auto.
  destruct Hsz as [-> | ->]; [left; now destruct i|apply Hb].
Qed.
Print Assumptions C16_per_gpu_bound.

(** a GPU whose free memory is below overhead + graph + minimum + two layers (the admission test without the
    projector term) gets nothing at all *)
Theorem C16_unadmitted_gpu_gets_nothing : forall gs m o i,
  let r := estimate gs m o in
  let q := prepare gs m o in
  r_ok r = true ->
  g_free (nth i gs gpu0) < o_overhead o + N.max (q_gp q) (q_gf q) + g_min (nth i gs gpu0) + 2 * q_l0 q ->
  nth i (p_allocs r) 0 = 0 /\ nth i (p_counts r) 0 = 0.
Proof. exact estimate_unadmitted. Qed.
Print Assumptions C16_unadmitted_gpu_gets_nothing.

(** ** 2. layers <= blocks + output, and <= num_gpu when the user gave a limit *)
Theorem C16_layers_le_model_and_limit : forall gs m o,
  let r := estimate gs m o in
  let bc := N.of_nat (length (m_blocks m)) in
  r_layers r <= bc + 1 /\ ((0 <= o_numgpu o)%Z -> (Z.of_N (r_layers r) <= o_numgpu o)%Z).
Proof.
  intros gs m o r bc.
  destruct (estimate_counts gs m o) as (_ & _ & _ & Hle & Hcap & _ & Hlay & _).
  fold r bc in Hle, Hcap, Hlay.
  destruct Hlay as [-> | ->]; split; auto. apply N.le_0_l.
Qed.
Print Assumptions C16_layers_le_model_and_limit.

(** ** 3. the reported split has one entry per GPU and sums to the layer count; it is reported whenever layers were
    placed on a multi-GPU list *)
Theorem C16_split_sums : forall gs m o,
  let r := estimate gs m o in
  (r_split r <> [] -> length (r_split r) = length gs /\ sum_x (r_split r) = r_layers r) /\
  ((1 < length gs)%nat -> r_layers r <> 0 -> r_split r <> []) /\
  sum_x (p_counts r) = p_lc r.
Proof.
  intros gs m o r.
  destruct (estimate_counts gs m o) as (_ & Hlen & Hsum & _ & _ & _ & _ & Hsp & _).
  fold r in Hlen, Hsum, Hsp.
  split; [|split; [|exact Hsum]].
  - intros Hne. destruct Hsp as [H|(H1 & H2)]; [contradiction|]. rewrite H1, H2. auto.
  - intros Hn Hl. pose proof (estimate_split_reported gs m o Hn Hl) as E0. fold r in E0. rewrite E0.
    intros E. apply (f_equal (@length N)) in E. rewrite Hlen in E. cbn in E. rewrite E in Hn. inversion Hn.
Qed.
Print Assumptions C16_split_sums.

(** ** 4. total >= the GPU-resident part *)
Definition C16_total_ge_vram_full : Prop := forall gs m o,
  let r := estimate gs m o in r_vram r <= r_total r.

Definition wrap2_gs : list gpu := [mkgpu 18446744073709551615 0 [99; 117; 100; 97] []].
Definition wrap2_m : model :=
  let S := 4611686018427387904 in
  mkmodel (Some S) [(Some S, 0, 0); (Some S, 0, 0); (Some S, 0, 0); (Some S, 0, 0)] (0, 0) (0, 0) 0 None None None (0, 0).
Definition wrap2_o : opts := mkopts 0 1 [].

Theorem C16_total_ge_vram_refuted : ~ C16_total_ge_vram_full.
Proof. intros H. specialize (H wrap2_gs wrap2_m wrap2_o). vm_compute in H. exact (H eq_refl). Qed.
Print Assumptions C16_total_ge_vram_refuted.

Theorem C16_total_ge_vram : forall gs m o,
  let r := estimate gs m o in
  r_ok r = true ->
  r_vram r <= r_total r /\ r_vram r = sum_x (r_sizes r) /\ sum_x (p_allocs r) <= r_total r.
Proof. intros gs m o r Hok. destruct (estimate_bytes gs m o Hok) as (_ & H). exact H. Qed.
Print Assumptions C16_total_ge_vram.

(** ** the guard [r_ok] follows from a condition on the inputs alone: the sizes read from the file add up without
    wrapping ([q_ok (prepare ..)], five explicit sums) and the explicit expression [demand gs m o] (overhead +
    (GPUs+1) x (sum of minimums + first layer + projector + blocks x (sum of layer sizes) + output + graph) + ...)
    is below 2^64 *)
Theorem C16_no_wrap_below_2_64 : forall gs m o,
  q_ok (prepare gs m o) = true -> demand gs m o < W -> r_ok (estimate gs m o) = true.
Proof. exact estimate_nowrap. Qed.
Print Assumptions C16_no_wrap_below_2_64.

Theorem C16_bytes_below_2_64 : forall gs m o i,
  let r := estimate gs m o in
  q_ok (prepare gs m o) = true -> demand gs m o < W ->
  (nth i (r_sizes r) 0 = 0 \/ nth i (r_sizes r) 0 + o_overhead o <= g_free (nth i gs gpu0)) /\
  r_vram r <= r_total r /\ r_vram r = sum_x (r_sizes r).
Proof.
  intros gs m o i r Hq HD. pose proof (estimate_nowrap gs m o Hq HD) as Hok.
  destruct (C16_per_gpu_bound gs m o i Hok) as (H1 & _).
  destruct (C16_total_ge_vram gs m o Hok) as (H2 & H3 & _).
  auto.
Qed.
Print Assumptions C16_bytes_below_2_64.

(** ** 5. a model is declared to fit only if one library group places all of its layers (blocks + output), or, when
    the user capped the number of layers with num_gpu >= 0, exactly that many (and the cap is at most blocks + 1) *)
Theorem C16_fit_sound : forall all m o v,
  predict_server_fit all m o = (true, v) ->
  exists g, In g (by_library all) /\ g <> [] /\ (forall x, In x g -> In x all) /\
    (forall x y, In x g -> In y g -> requested x = requested y) /\
    let r := estimate g m o in
    let bc := N.of_nat (length (m_blocks m)) in
    v = r_vram r /\ 0 < r_layers r /\ r_layers r = p_lc r /\
    ((o_numgpu o < 0)%Z -> r_layers r = bc + 1 /\ p_fully r = true) /\
    ((0 <= o_numgpu o)%Z -> Z.of_N (r_layers r) = o_numgpu o /\ (o_numgpu o <= Z.of_N bc + 1)%Z).
Proof. exact fit_sound. Qed.
Print Assumptions C16_fit_sound.

(** ByLibrary is a partition of the GPU list into non-empty groups of one library/variant *)
Theorem C16_by_library_partition : forall all,
  (forall grp, In grp (by_library all) ->
     grp <> [] /\ (forall x, In x grp -> In x all) /\ (forall x y, In x grp -> In y grp -> requested x = requested y)) /\
  (forall x, In x all -> exists grp, In grp (by_library all) /\ In x grp).
Proof. intros all. split; [apply by_library_groups|apply by_library_complete]. Qed.
Print Assumptions C16_by_library_partition.

(** ** 6. the path the scheduler takes to the estimator (server/sched.go; model Mem/Sched.v).
    [gpus] is the list reported by discovery, [rs] the loaded runners (loading flag, GPU IDs, EstimatedVRAMByGPU), [mp p]
    the model-file inputs for the parallel setting p. *)

(** updateFreeSpace never raises a GPU's FreeMemory and changes nothing else; with filterGPUsWithoutLoadingModels in front,
    every GPU handed to the estimator is a reported GPU whose FreeMemory is at most the reported value *)
Theorem C16_sched_free_never_raised : forall rs gpus,
  Forall2 not_raised gpus (update_free rs gpus) /\
  (forall g', In g' (update_free rs (filter_loading rs gpus)) -> exists g, In g gpus /\ not_raised g g').
Proof. intros rs gpus. split; [apply update_free_not_raised|apply handed_not_raised]. Qed.
Print Assumptions C16_sched_free_never_raised.

(** ... and it accounts for every resident runner (all of them, whoever holds their locks): what it leaves as free plus the
    usage predicted for the loaded runners on that GPU fits into the GPU's total memory; free is 0 if the prediction exceeds it *)
Theorem C16_sched_free_accounts_for_resident : forall rs gpus g',
  existsb rn_llama rs = true -> In g' (update_free rs gpus) ->
  (predicted rs gpus g' <= x_total g' -> x_free g' + predicted rs gpus g' <= x_total g') /\
  (x_total g' < predicted rs gpus g' -> x_free g' = 0).
Proof. exact update_free_accounts. Qed.
Print Assumptions C16_sched_free_accounts_for_resident.

(** pickBestFullFitByLibrary: a non-nil answer is a non-empty set of GPUs of the list it was given, of one
    library/variant, chosen with a parallel setting it was allowed to try, and PredictServerFit said yes for exactly it *)
Theorem C16_sched_pick_full_sound : forall gpus spread np mp o p chosen,
  pick_full gpus spread np mp o = Some (p, chosen) ->
  In p (tries np) /\ chosen <> [] /\ (forall x, In x chosen -> In x gpus) /\
  (forall x y, In x chosen -> In y chosen -> x_key x = x_key y) /\
  fst (predict_server_fit (map x_g chosen) (mp p) o) = true.
Proof. exact pick_full_sound. Qed.
Print Assumptions C16_sched_pick_full_sound.

(** end to end, other models loaded: whatever the scheduler hands to NewLlamaServer, the plan computed for it puts on
    every GPU nothing, or at most the REPORTED free memory of that GPU less the overhead *)
Theorem C16_sched_per_gpu_bound_reported : forall rs gpus spread np mp o avail p chosen i,
  sched_loaded rs gpus spread np mp o = (avail, Some (p, chosen)) ->
  let r := plan_for chosen (mp p) o in
  r_ok r = true ->
  nth i (r_sizes r) 0 = 0 \/
  exists g, In g gpus /\ same_ident g (nth i chosen x0) /\ nth i (r_sizes r) 0 + o_overhead o <= x_free g.
Proof. exact sched_loaded_bound. Qed.
Print Assumptions C16_sched_per_gpu_bound_reported.

(** end to end, first model (full fit, else best partial fit): the chosen GPUs are reported GPUs, unchanged *)
Theorem C16_sched_first_per_gpu_bound : forall gpus spread np mp o p chosen i,
  sched_first gpus spread np mp o = (p, chosen) ->
  let r := plan_for chosen (mp p) o in
  r_ok r = true ->
  nth i (r_sizes r) 0 = 0 \/
  (In (nth i chosen x0) gpus /\ nth i (r_sizes r) 0 + o_overhead o <= x_free (nth i chosen x0)).
Proof. exact sched_first_bound. Qed.
Print Assumptions C16_sched_first_per_gpu_bound.

(** CPU branch of processPending + maybeFindCPURunnerToUnload: when the model is loaded next to other runners, the
    configuration that is loaded (NumCtx = origNumCtx * p, parallel p, p = the scheduler's parallel setting) is the one the fit
    check was made for, and its TotalSize is within the reported free system memory *)
Theorem C16_sched_cpu_load_fits : forall loaded g np_env emb mp o p,
  sched_cpu loaded g np_env emb mp o = CpuLoad p ->
  p = cpu_parallel np_env emb /\ (1 <= p)%Z /\
  (loaded <> O -> r_total (plan_for [g] (mp p) o) <= x_free g).
Proof. exact sched_cpu_load_fits. Qed.
Print Assumptions C16_sched_cpu_load_fits.

(** ** non-vacuity: the guard [r_ok] and the fit hypothesis are met by non-trivial cases *)
Definition ex_gs : list gpu := [mkgpu 9000 100 [99; 117; 100; 97] []; mkgpu 400 100 [99; 117; 100; 97] []; mkgpu 5000 0 [99; 117; 100; 97] []].
Definition ex_m : model :=
  mkmodel (Some 300) [(Some 300, 20, 40); (Some 500, 20, 40); (None, 20, 40); (Some 100, 20, 40)] (64, 32) (128, 96) 4 (Some 8) None (Some 700) (0, 0).
Definition ex_o : opts := mkopts 50 (-1) [].

Example C16_guard_satisfiable :
  let r := estimate ex_gs ex_m ex_o in
  r_ok r = true /\ r_layers r = 5 /\ r_split r = [3; 0; 2] /\ r_sizes r = [2032; 0; 1024] /\ r_vram r = 3056 /\ r_total r = 3056.
Proof. vm_compute. repeat split. Qed.

Example C16_demand_satisfiable : q_ok (prepare ex_gs ex_m ex_o) = true /\ demand ex_gs ex_m ex_o < W.
Proof. vm_compute. split; reflexivity. Qed.

Example C16_fit_satisfiable : predict_server_fit (mkgpu 1 0 [99; 112; 117] [] :: ex_gs) ex_m ex_o = (true, 3056).
Proof. vm_compute. reflexivity. Qed.

Example C16_partial_offload_example :
  let r := estimate [mkgpu 2000 100 [99; 117; 100; 97] []] ex_m (mkopts 50 (-1) []) in
  r_ok r = true /\ r_layers r = 3 /\ p_fully r = false /\ r_vram r < r_total r.
Proof. vm_compute. repeat split. Qed.

(** non-vacuity: a GPU with 8000 of 10000 bytes free of which our loaded runner predicts 5000 is handed over with 5000;
    a GPU on which a foreign application holds memory (free 600 of 10000, ours 1000) keeps 600 *)
Definition ex_x (id : N) (total free : N) : xgpu := mkx [id] total (mkgpu free 100 [99; 117; 100; 97] []).
Definition ex_rs : list runner := [mkrunner false [[48]] true [([48], 5000); ([49], 1000)]].
Example C16_sched_example :
  map x_free (update_free ex_rs [ex_x 48 10000 8000; ex_x 49 10000 600; ex_x 50 10000 9000]) = [5000; 600; 9000] /\
  snd (sched_loaded ex_rs [ex_x 48 10000 8000; ex_x 49 10000 600; ex_x 50 10000 9000] false 1 (fun _ => ex_m) ex_o)
    = Some (1%Z, [ex_x 50 10000 9000]) /\
  r_ok (plan_for [ex_x 50 10000 9000] ex_m ex_o) = true /\ r_layers (plan_for [ex_x 50 10000 9000] ex_m ex_o) = 5.
Proof. vm_compute. repeat split. Qed.
