(** Correspondence functions for C16: each [chk_*] compares the model (Mem/Model.v) with one observation of the
    real llm.EstimateGPULayers / llm.PredictServerFit / discover.GpuInfoList.ByLibrary.  props/c16.py renders
    every case as one closed [bool] term. *)
From Coq Require Import List NArith ZArith Bool.
From V Require Import Common.Bytes Mem.Model Mem.Sched.
Import ListNotations.
Open Scope N_scope.

Fixpoint eqb_listN (a b : list N) : bool :=
  match a, b with
  | [], [] => true
  | x :: a', y :: b' => (x =? y) && eqb_listN a' b'
  | _, _ => false
  end.

Definition eqb_gpu (a b : gpu) : bool :=
  (g_free a =? g_free b) && (g_min a =? g_min b) && eqb_str (g_lib a) (g_lib b) && eqb_str (g_var a) (g_var b).

Fixpoint eqb_gpus (a b : list gpu) : bool :=
  match a, b with
  | [], [] => true
  | x :: a', y :: b' => eqb_gpu x y && eqb_gpus a' b'
  | _, _ => false
  end.

Fixpoint eqb_groups (a b : list (list gpu)) : bool :=
  match a, b with
  | [], [] => true
  | x :: a', y :: b' => eqb_gpus x y && eqb_groups a' b'
  | _, _ => false
  end.

(** the observable part of a MemoryEstimate (public fields, then the logging fields) *)
Record obs := mkobs {
  ob_layers : N; ob_graph : N; ob_vram : N; ob_total : N; ob_sizes : list N; ob_split : list N;
  ob_kv : N; ob_weights : N; ob_out : N; ob_gf : N; ob_gp : N; ob_pw : N; ob_pg : N
}.

Definition same (r : result) (o : obs) : bool :=
  (r_layers r =? ob_layers o) && (r_graph r =? ob_graph o) && (r_vram r =? ob_vram o) && (r_total r =? ob_total o)
  && eqb_listN (r_sizes r) (ob_sizes o) && eqb_listN (r_split r) (ob_split o)
  && (p_kv r =? ob_kv o) && (p_mw r =? ob_weights o) && (p_out r =? ob_out o)
  && (p_gf r =? ob_gf o) && (p_gp r =? ob_gp o) && (p_pw r =? ob_pw o) && (p_pg r =? ob_pg o).

(** [nowrap]: the case generator computed (in exact arithmetic) that the total demand of the case is below 2^64; the
    model's no-wrap flag must then be set, which ties the guard [r_ok] of the theorems to a simple condition on inputs *)
Definition chk_estimate (gs : list gpu) (m : model) (o : opts) (ob : obs) (nowrap : bool) : bool :=
  match estimate_gpus gs m o with
  | Some r => same r ob && implb nowrap (r_ok r)
  | None => false
  end.

(** the implementation panicked (index out of range on gpus[0]) *)
Definition chk_estimate_panic (gs : list gpu) (m : model) (o : opts) : bool :=
  match estimate_gpus gs m o with None => true | Some _ => false end.

Definition chk_fit (all : list gpu) (m : model) (o : opts) (fit : bool) (vram : N) : bool :=
  let '(f, v) := predict_server_fit all m o in Bool.eqb f fit && (v =? vram).

Definition chk_bylib (l : list gpu) (groups : list (list gpu)) : bool := eqb_groups (by_library l) groups.

(** model-side evaluation of the property's clauses (used to classify a disagreement and in Properties examples) *)
Fixpoint all2 {A B} (f : A -> B -> bool) (a : list A) (b : list B) : bool :=
  match a, b with
  | x :: a', y :: b' => f x y && all2 f a' b'
  | _, _ => true
  end.

Definition clauses_hold (gs : list gpu) (m : model) (o : opts) (r : result) : bool :=
  let bc := N.of_nat (length (m_blocks m)) in
  all2 (fun g a => (a =? 0) || (a + o_overhead o <=? g_free g)) gs (r_sizes r)
  && (r_layers r <=? bc + 1)
  && ((o_numgpu o <? 0)%Z || (Z.of_N (r_layers r) <=? o_numgpu o)%Z)
  && (match r_split r with [] => true | s => sum_x s =? r_layers r end)
  && (r_vram r <=? r_total r).

(** ** the scheduler path (Mem/Sched.v) *)
Definition eqb_xgpu (a b : xgpu) : bool :=
  eqb_str (x_id a) (x_id b) && (x_total a =? x_total b) && eqb_gpu (x_g a) (x_g b).

Fixpoint eqb_xgpus (a b : list xgpu) : bool :=
  match a, b with
  | [], [] => true
  | x :: a', y :: b' => eqb_xgpu x y && eqb_xgpus a' b'
  | _, _ => false
  end.

(** the model inputs per parallel setting, as an association list *)
Fixpoint mp_of (tbl : list (Z * model)) (d : model) (p : Z) : model :=
  match tbl with
  | [] => d
  | (k, m) :: t => if (k =? p)%Z then m else mp_of t d p
  end.

(** observed: the chosen GPU list with the parallel setting (or nil), and the estimate computed for it *)
Definition chk_choice (o : opts) (mp : Z -> model) (model_res : option (Z * list xgpu))
           (obs_res : option (Z * list xgpu)) (est : option obs) : bool :=
  match model_res, obs_res with
  | None, None => true
  | Some (p, c), Some (p', c') =>
    (p =? p')%Z && eqb_xgpus c c' &&
    match est with Some ob => same (plan_for c (mp p) o) ob | None => match c with [] => true | _ => false end end
  | _, _ => false
  end.

Definition chk_sched_loaded (rs : list runner) (gpus : list xgpu) (spread : bool) (np : Z) (tbl : list (Z * model)) (d : model)
           (o : opts) (filtered avail : list xgpu) (obs_res : option (Z * list xgpu)) (est : option obs) : bool :=
  let mp := mp_of tbl d in
  let '(av, r) := sched_loaded rs gpus spread np mp o in
  eqb_xgpus (filter_loading rs gpus) filtered && eqb_xgpus av avail && chk_choice o mp r obs_res est.

Definition chk_sched_first (gpus : list xgpu) (spread : bool) (np : Z) (tbl : list (Z * model)) (d : model)
           (o : opts) (full : bool) (obs_res : Z * list xgpu) (est : option obs) : bool :=
  let mp := mp_of tbl d in
  Bool.eqb full (match pick_full gpus spread np mp o with Some _ => true | None => false end) &&
  chk_choice o mp (Some (sched_first gpus spread np mp o)) (Some obs_res) est.

(** CPU branch: observed action (Some p = loadFn was called with parallel p and NumCtx = orig * [mult]; None = a runner was
    sent to expire) and the estimate of the loaded configuration *)
Definition chk_sched_cpu (loaded : nat) (g : xgpu) (np_env : Z) (emb : bool) (tbl : list (Z * model)) (d : model) (o : opts)
           (act : option (Z * Z)) (est : option obs) : bool :=
  let mp := mp_of tbl d in
  match sched_cpu loaded g np_env emb mp o, act with
  | CpuEvict, None => true
  | CpuLoad p, Some (p', mult) =>
    (p =? p')%Z && (mult =? p)%Z &&
    match est with Some ob => same (plan_for [g] (mp p) o) ob | None => false end
  | _, _ => false
  end.
