(** fs/ggml/type.go and the size tables of fs/ggml/ggml.go: small facts about the tables. *)
From Coq Require Import List NArith ZArith Bool Arith Lia ZifyBool ZifyNat ZifyN.
From V Require Import Common.Bytes Gguf.Model Gguf.Arith.
Import ListNotations.
Open Scope N_scope.

(** every named file type parses back to itself, and its name is the table's *)
Lemma file_type_roundtrip : forall t s, In (t, s) file_type_names -> parse_file_type s = Some t /\ file_type_name t = s.
Proof.
  assert (H : forallb (fun p => match parse_file_type (snd p) with Some t => t =? fst p | None => false end && eqb_str (file_type_name (fst p)) (snd p))
                      file_type_names = true) by (vm_compute; reflexivity).
  rewrite forallb_forall in H. intros t s Hin. specialize (H _ Hin). cbn [fst snd] in H.
  apply andb_true_iff in H as [H1 H2]. destruct (parse_file_type s) as [t'|]; [|discriminate].
  apply N.eqb_eq in H1. apply eqb_str_spec in H2. subst. auto.
Qed.

(** numbers that are not in the table (5, 6 and everything from 33 = fileTypeUnknown on) print as "unknown" *)
Lemma file_type_name_unknown t : 33 <= t -> file_type_name t = s_unknown_ft.
Proof.
  intro Ht. unfold file_type_name. destruct (find (fun p => fst p =? t) file_type_names) as [p|] eqn:E; [|reflexivity].
  apply find_some in E as [Hin Heq]. apply N.eqb_eq in Heq.
  assert (Hall : forallb (fun p => fst p <? 33) file_type_names = true) by (vm_compute; reflexivity).
  rewrite forallb_forall in Hall. specialize (Hall _ Hin). lia.
Qed.

(** ParseFileType accepts exactly the names of the table *)
Lemma parse_file_type_some s t : parse_file_type s = Some t -> file_type_name t = s /\ t < 33.
Proof.
  unfold parse_file_type. destruct (find (fun p => eqb_str (fst p) s) parse_names) as [p|] eqn:E; [|discriminate].
  intro H. inversion H; subst t. apply find_some in E as [Hin Heq]. apply eqb_str_spec in Heq. subst s.
  assert (Hall : forallb (fun p => eqb_str (file_type_name (snd p)) (fst p) && (snd p <? 33)) parse_names = true) by (vm_compute; reflexivity).
  rewrite forallb_forall in Hall. specialize (Hall _ Hin). apply andb_true_iff in Hall as [H1 H2]. apply eqb_str_spec in H1. split; [exact H1 | lia].
Qed.

(** tensor kinds: block sizes are 1, 32 or 256; kinds 4, 5 and everything from 31 on have type size 0, hence Size() = 0 *)
Lemma block_size_values k : block_size k = 1 \/ block_size k = 32 \/ block_size k = 256.
Proof.
  unfold block_size.
  repeat match goal with |- context [match ?x with _ => _ end] => destruct x; auto end.
Qed.

Lemma type_size_unknown k : 31 <= k -> type_size k = 0.
Proof.
  intro H. destruct k as [|p]; [lia|].
  do 6 (try (destruct p as [p|p|]; try lia; try reflexivity)).
Qed.

Lemma type_size_known k : k < 31 -> k <> 4 -> k <> 5 -> 0 < type_size k.
Proof.
  intros H H4 H5.
  assert (Hall : forallb (fun k => (k =? 4) || (k =? 5) || (0 <? type_size k)) (map N.of_nat (seq 0 31)) = true) by (vm_compute; reflexivity).
  rewrite forallb_forall in Hall. specialize (Hall k).
  assert (Hin : In k (map N.of_nat (seq 0 31))).
  { apply in_map_iff. exists (N.to_nat k). split; [lia | apply in_seq; lia]. }
  specialize (Hall Hin). lia.
Qed.

Lemma tensor_size_unknown k shape : 31 <= k -> tensor_size k shape = 0.
Proof. intro H. unfold tensor_size. rewrite type_size_unknown by exact H. rewrite N.mul_0_r. unfold wrap64. rewrite N.mod_0_l by discriminate. apply N.div_0_l. pose proof (block_size_pos k). lia. Qed.
