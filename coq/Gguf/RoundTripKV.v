(** C05, part 1: reading back what the typed KV writers wrote (version 3, little endian). *)
From Coq Require Import List NArith ZArith Bool Arith Lia ZifyBool ZifyNat ZifyN Permutation.
From V Require Import Common.Bytes Gguf.Model Gguf.Arith Gguf.Monad.
Import ListNotations.
Open Scope N_scope.

Definition nlen {A} (l : list A) : N := N.of_nat (length l).

Lemma oks_copyN l rest : oks (copyN (nlen l)) (l ++ rest) l rest.
Proof.
  unfold nlen. eexists. unfold copyN. rewrite app_length.
  destruct (N.ltb_spec (N.of_nat (length l + length rest)) (N.of_nat (length l))); [lia|].
  rewrite Nat2N.id. rewrite firstn_app, firstn_all, Nat.sub_diag, skipn_app, skipn_all, Nat.sub_diag.
  cbn [firstn skipn]. rewrite app_nil_r. reflexivity.
Qed.

Lemma oks_go_slice cap len r : (0 <= len <= cap)%Z -> oks (go_slice cap len) r tt r.
Proof.
  intro H. unfold go_slice. destruct (Z.ltb_spec len 0); [lia|]. destruct (Z.ltb_spec cap len); [lia|]. apply oks_ret.
Qed.

Lemma oks_go_make n r : (0 <= n <= 140737488355328)%Z -> oks (go_make n) r tt r.
Proof.
  intro H. unfold go_make. destruct (Z.ltb_spec n 0); [lia|]. destruct (Z.ltb_spec 140737488355328 n); [lia|]. apply oks_ret.
Qed.

Lemma oks_rd_string3 s rest : nlen s < two63 -> oks (rd_string 3 false) (enc_str s ++ rest) s rest.
Proof.
  intro Hs. unfold rd_string. change (3 =? 1) with false. cbv iota. unfold rd_string23, enc_str. fold (nlen s).
  rewrite <- app_assoc.
  eapply oks_bind; [apply oks_rd_u64; pose proof two63_lt_two64; lia|].
  cbv zeta. rewrite to_int64_small by exact Hs.
  destruct (Z.ltb_spec (Z.of_N (nlen s)) 0); [lia|].
  rewrite N2Z.id.
  destruct (Z.ltb_spec (Z.of_N scratch_len) (Z.of_N (nlen s))).
  - apply oks_copyN.
  - eapply oks_bind; [apply oks_go_slice; lia|].
    eapply oks_bind; [apply oks_take|].
    eapply oks_bind; [apply oks_alloc | apply oks_ret].
Qed.

Lemma oks_discard3 s rest : nlen s < two63 -> oks (discard_string false) (enc_str s ++ rest) tt rest.
Proof.
  intro Hs. unfold discard_string, enc_str. fold (nlen s). rewrite <- app_assoc.
  eapply oks_bind; [apply oks_rd_u64; pose proof two63_lt_two64; lia|].
  rewrite to_int64_small by exact Hs.
  destruct (Z.leb_spec (Z.of_N (nlen s)) 0) as [H0|H0].
  - assert (E : s = []) by (destruct s; [reflexivity | unfold nlen in H0; cbn [length] in H0; lia]).
    subst s. apply oks_ret.
  - exists 0. unfold nlen. rewrite app_length.
    destruct (N.ltb_spec (N.of_nat (length s + length rest)) (N.of_nat (length s))); [lia|].
    rewrite Nat2N.id, skipn_app, skipn_all, Nat.sub_diag. reflexivity.
Qed.

(** ** well-formed writer inputs: values within their Go types *)

Definition wf_wval (v : wval) : Prop :=
  match v with
  | WU32 n | WF32 n => n < two32
  | WBool _ | WStr _ | WStrs _ => True
  | WI32s l | WU32s l | WF32s l => Forall (fun x => x < two32) l
  end.

Lemma oks_rd_num4 ty n rest : n < two32 -> ty <> 7 -> oks (rd_num false ty 4) (le 4 n ++ rest) (VNum ty n) rest.
Proof.
  intros Hn Hty. unfold rd_num. eapply oks_bind; [apply (oks_rd_int_le 4); exact Hn|].
  destruct (N.eqb_spec ty 7); [contradiction|]. apply oks_ret.
Qed.

Lemma fold_left_cons_map {A B} (f : A -> B) l acc :
  fold_left (fun acc x => f x :: acc) l acc = rev (map f l) ++ acc.
Proof.
  revert acc; induction l as [|x l IH]; intro acc; [reflexivity|].
  cbn [fold_left map rev]. rewrite IH, <- app_assoc. reflexivity.
Qed.

Lemma fold_left_const {A B} (l : list A) (acc : B) : fold_left (fun acc _ => acc) l acc = acc.
Proof. induction l; cbn [fold_left]; auto. Qed.

(** the element loop of a numeric array *)
Lemma oks_num_elems ety coll l rest :
  ety = 4 \/ ety = 5 \/ ety = 6 -> Forall (fun x => x < two32) l ->
  oks (loop (nlen l) (fun acc =>
         e <- rd_elem 3 false coll ety ;;
         if coll then (alloc elem_cost ;;; ret (match e with Some v => v :: acc | None => acc end)) else ret acc) [])
      (flat_map (le 4) l ++ rest)
      (if coll then rev (map (VNum ety) l) else []) rest.
Proof.
  intros Hety Hl.
  pose proof (oks_loop (le 4)
    (fun acc => e <- rd_elem 3 false coll ety ;;
       if coll then (alloc elem_cost ;;; ret (match e with Some v => v :: acc | None => acc end)) else ret acc)
    (fun acc x => if coll then VNum ety x :: acc else acc) (fun x => x < two32)) as H.
  unfold nlen.
  replace (if coll then rev (map (VNum ety) l) else []) with (fold_left (fun acc x => if coll then VNum ety x :: acc else acc) l []).
  - apply H; [ | intros; rewrite le_length; lia | exact Hl].
    intros acc x r Hx.
    assert (Hw : num_width ety = Some 4) by (destruct Hety as [->|[->| ->]]; reflexivity).
    unfold rd_elem. rewrite Hw.
    eapply oks_bind.
    + eapply oks_bind; [apply oks_rd_num4; [exact Hx | destruct Hety as [->|[->| ->]]; discriminate] | apply oks_ret].
    + destruct coll; [eapply oks_bind; [apply oks_alloc | apply oks_ret] | apply oks_ret].
  - destruct coll.
    + rewrite fold_left_cons_map, app_nil_r. reflexivity.
    + apply fold_left_const.
Qed.

Lemma flat_map_length_in {A} (f : A -> list N) l x : In x l -> (length (f x) <= length (flat_map f l))%nat.
Proof.
  induction l as [|y l IH]; intro H; [destruct H|].
  cbn [flat_map]. rewrite app_length. destruct H as [->|H]; [lia | specialize (IH H); lia].
Qed.

(** the element loop of a string array *)
Lemma oks_str_elems coll l rest :
  Forall (fun s => nlen s < two63) l ->
  oks (loop (nlen l) (fun acc =>
         e <- rd_elem 3 false coll 8 ;;
         if coll then (alloc elem_cost ;;; ret (match e with Some v => v :: acc | None => acc end)) else ret acc) [])
      (flat_map enc_str l ++ rest)
      (if coll then rev (map VStr l) else []) rest.
Proof.
  intro Hl.
  pose proof (oks_loop enc_str
    (fun acc => e <- rd_elem 3 false coll 8 ;;
       if coll then (alloc elem_cost ;;; ret (match e with Some v => v :: acc | None => acc end)) else ret acc)
    (fun acc x => if coll then VStr x :: acc else acc) (fun s => nlen s < two63)) as H.
  unfold nlen at 1.
  replace (if coll then rev (map VStr l) else []) with (fold_left (fun acc x => if coll then VStr x :: acc else acc) l []).
  - apply H; [ | intros; unfold enc_str; rewrite app_length, le_length; lia | exact Hl].
    intros acc x r Hx.
    unfold rd_elem. change (num_width 8) with (@None N). cbv iota. change (8 =? 8) with true. change (3 =? 1) with false. cbv iota.
    cbn [orb]. destruct coll.
    + eapply oks_bind; [eapply oks_bind; [apply oks_rd_string3; exact Hx | apply oks_ret]|].
      eapply oks_bind; [apply oks_alloc | apply oks_ret].
    + eapply oks_bind; [eapply oks_bind; [apply oks_discard3; exact Hx | apply oks_ret]|]. apply oks_ret.
  - destruct coll.
    + rewrite fold_left_cons_map, app_nil_r. reflexivity.
    + apply fold_left_const.
Qed.

Lemma min_prealloc_ok n : (0 <= Z.of_N (N.min n prealloc) <= 140737488355328)%Z.
Proof. unfold prealloc. lia. Qed.

(** rd_array on what writeGGUFArray wrote *)
Lemma oks_rd_array_num ma ety l rest :
  ety = 4 \/ ety = 5 \/ ety = 6 -> Forall (fun x => x < two32) l -> nlen l < two63 ->
  oks (rd_array 3 false ma) (le 4 ety ++ le 8 (nlen l) ++ flat_map (le 4) l ++ rest)
      (clip ma (VArr (nlen l) (Some (map (VNum ety) l)))) rest.
Proof.
  intros Hety Hl Hn. unfold rd_array.
  eapply oks_bind; [apply oks_rd_u32; destruct Hety as [->|[->| ->]]; reflexivity|].
  change (3 =? 1) with false. cbv iota.
  eapply oks_bind; [apply oks_rd_u64; pose proof two63_lt_two64; lia|].
  destruct (N.leb_spec two63 (nlen l)); [lia|]. cbv zeta.
  eapply oks_bind.
  { destruct (can_collect ma (Z.of_N (nlen l))); [apply oks_go_make, min_prealloc_ok | apply oks_ret]. }
  eapply oks_bind; [apply oks_alloc|].
  eapply oks_bind; [apply oks_num_elems; assumption|].
  unfold clip. destruct (can_collect ma (Z.of_N (nlen l))); [rewrite rev_involutive|]; apply oks_ret.
Qed.

Lemma oks_rd_array_str ma l rest :
  Forall (fun s => nlen s < two63) l -> nlen l < two63 ->
  oks (rd_array 3 false ma) (le 4 8 ++ le 8 (nlen l) ++ flat_map enc_str l ++ rest)
      (clip ma (VArr (nlen l) (Some (map VStr l)))) rest.
Proof.
  intros Hl Hn. unfold rd_array.
  eapply oks_bind; [apply oks_rd_u32; reflexivity|].
  change (3 =? 1) with false. cbv iota.
  eapply oks_bind; [apply oks_rd_u64; pose proof two63_lt_two64; lia|].
  destruct (N.leb_spec two63 (nlen l)); [lia|]. cbv zeta.
  eapply oks_bind.
  { destruct (can_collect ma (Z.of_N (nlen l))); [apply oks_go_make, min_prealloc_ok | apply oks_ret]. }
  eapply oks_bind; [apply oks_alloc|].
  eapply oks_bind; [apply oks_str_elems; assumption|].
  unfold clip. destruct (can_collect ma (Z.of_N (nlen l))); [rewrite rev_involutive|]; apply oks_ret.
Qed.

(** sizes: everything written is shorter than 2^63 bytes when its encoding is *)
Definition small (l : list N) : Prop := nlen l < two63.

Lemma small_app_l a b : small (a ++ b) -> small a.
Proof. unfold small, nlen. rewrite app_length. lia. Qed.
Lemma small_app_r a b : small (a ++ b) -> small b.
Proof. unfold small, nlen. rewrite app_length. lia. Qed.

Lemma small_flat_map_len {A} (f : A -> list N) l : (forall x, (1 <= length (f x))%nat) -> small (flat_map f l) -> nlen l < two63.
Proof.
  intros Hf Hs. unfold small, nlen in *.
  assert (length l <= length (flat_map f l))%nat; [|lia].
  clear Hs. induction l as [|x l IH]; cbn [flat_map length]; [lia|]. rewrite app_length. specialize (Hf x). lia.
Qed.

Lemma small_flat_map_in {A} (f : A -> list N) l : small (flat_map f l) -> Forall (fun x => small (f x)) l.
Proof.
  intro Hs. apply Forall_forall. intros x Hx. pose proof (flat_map_length_in f l x Hx). unfold small, nlen in *. lia.
Qed.

Lemma small_enc_str s : small (enc_str s) -> nlen s < two63.
Proof. unfold enc_str. intro H. apply small_app_r in H. exact H. Qed.

(** type tag + value, as ggufWriteKV writes them *)
Lemma oks_rd_tagged_value ma v rest :
  wf_wval v -> small (enc_wval v) ->
  oks (t <- rd_u32 false ;; rd_value 3 false ma t) (enc_wval v ++ rest) (clip ma (val_of_wval v)) rest.
Proof.
  intros Hwf Hs. destruct v as [n|n|b|s|l|l|l|l]; cbn [enc_wval val_of_wval wf_wval] in *.
  - rewrite <- app_assoc. eapply oks_bind; [apply oks_rd_u32; reflexivity|].
    unfold rd_value. change (num_width 4) with (Some 4). cbv iota. apply (oks_rd_num4 4); [exact Hwf | discriminate].
  - rewrite <- app_assoc. eapply oks_bind; [apply oks_rd_u32; reflexivity|].
    unfold rd_value. change (num_width 6) with (Some 4). cbv iota. apply (oks_rd_num4 6); [exact Hwf | discriminate].
  - rewrite <- app_assoc. eapply oks_bind; [apply oks_rd_u32; reflexivity|].
    unfold rd_value. change (num_width 7) with (Some 1). cbv iota. unfold rd_num.
    destruct b.
    + eapply oks_bind; [change [1] with (le 1 1); apply (oks_rd_int_le 1); reflexivity | apply oks_ret].
    + eapply oks_bind; [change [0] with (le 1 0); apply (oks_rd_int_le 1); reflexivity | apply oks_ret].
  - rewrite <- app_assoc. eapply oks_bind; [apply oks_rd_u32; reflexivity|].
    unfold rd_value. change (num_width 8) with (@None N). cbv iota. change (8 =? 8) with true. cbv iota.
    eapply oks_bind; [apply oks_rd_string3; apply small_app_r in Hs; apply small_enc_str; exact Hs | apply oks_ret].
  - unfold enc_arr in *. rewrite <- !app_assoc. eapply oks_bind; [apply oks_rd_u32; reflexivity|].
    unfold rd_value. change (num_width 9) with (@None N). cbv iota. change (9 =? 8) with false. change (9 =? 9) with true. cbv iota.
    apply (oks_rd_array_num ma 5); [auto | exact Hwf |].
    apply small_app_r, small_app_r, small_app_r in Hs. apply (small_flat_map_len (le 4)); [intro; rewrite le_length; lia | exact Hs].
  - unfold enc_arr in *. rewrite <- !app_assoc. eapply oks_bind; [apply oks_rd_u32; reflexivity|].
    unfold rd_value. change (num_width 9) with (@None N). cbv iota. change (9 =? 8) with false. change (9 =? 9) with true. cbv iota.
    apply (oks_rd_array_num ma 4); [auto | exact Hwf |].
    apply small_app_r, small_app_r, small_app_r in Hs. apply (small_flat_map_len (le 4)); [intro; rewrite le_length; lia | exact Hs].
  - unfold enc_arr in *. rewrite <- !app_assoc. eapply oks_bind; [apply oks_rd_u32; reflexivity|].
    unfold rd_value. change (num_width 9) with (@None N). cbv iota. change (9 =? 8) with false. change (9 =? 9) with true. cbv iota.
    apply (oks_rd_array_num ma 6); [auto | exact Hwf |].
    apply small_app_r, small_app_r, small_app_r in Hs. apply (small_flat_map_len (le 4)); [intro; rewrite le_length; lia | exact Hs].
  - rewrite <- !app_assoc. eapply oks_bind; [apply oks_rd_u32; reflexivity|].
    unfold rd_value. change (num_width 9) with (@None N). cbv iota. change (9 =? 8) with false. change (9 =? 9) with true. cbv iota.
    apply small_app_r, small_app_r, small_app_r in Hs.
    apply oks_rd_array_str.
    + apply small_flat_map_in in Hs. eapply Forall_impl; [|exact Hs]. intros s0 H0. apply small_enc_str, H0.
    + apply (small_flat_map_len enc_str); [intro; unfold enc_str; rewrite app_length, le_length; lia | exact Hs].
Qed.

(** one key/value entry *)
Definition dec_kv (ma : Z) (e : str * wval) : str * val := (fst e, clip ma (val_of_wval (snd e))).

Lemma oks_rd_kv ma acc e rest :
  wf_wval (snd e) -> small (enc_kv e) ->
  oks (rd_kv 3 false ma acc) (enc_kv e ++ rest) (dec_kv ma e :: acc) rest.
Proof.
  intros Hwf Hs. destruct e as [k v]. unfold enc_kv, rd_kv, dec_kv in *. cbn [fst snd] in *. rewrite <- app_assoc.
  eapply oks_bind; [apply oks_rd_string3; apply small_app_l in Hs; apply small_enc_str; exact Hs|].
  pose proof (oks_rd_tagged_value ma v rest Hwf (small_app_r _ _ Hs)) as [al H].
  unfold bind in H. unfold oks, bind.
  destruct (rd_u32 false (enc_wval v ++ rest)) as [t r1 al1| |]; [|discriminate|discriminate].
  destruct (rd_value 3 false ma t r1) as [v' r2 al2| |]; cbn [add_al] in H; [|discriminate|discriminate].
  inversion H; subst. cbn [add_al alloc ret]. eexists. reflexivity.
Qed.

Lemma enc_kv_nonempty e : (1 <= length (enc_kv e))%nat.
Proof. unfold enc_kv, enc_str. rewrite !app_length, le_length. lia. Qed.

(** the whole key/value section *)
Lemma oks_kv_section ma kv rest :
  Forall (fun e => wf_wval (snd e)) kv -> small (flat_map enc_kv kv) ->
  oks (loop (nlen kv) (rd_kv 3 false ma) []) (flat_map enc_kv kv ++ rest) (rev (map (dec_kv ma) kv)) rest.
Proof.
  intros Hwf Hs. unfold nlen.
  replace (rev (map (dec_kv ma) kv)) with (fold_left (fun acc e => dec_kv ma e :: acc) kv []) by (rewrite fold_left_cons_map, app_nil_r; reflexivity).
  apply (oks_loop enc_kv (rd_kv 3 false ma) (fun acc e => dec_kv ma e :: acc) (fun e => wf_wval (snd e) /\ small (enc_kv e))).
  - intros acc e r [H1 H2]. apply oks_rd_kv; assumption.
  - intros e _. apply enc_kv_nonempty.
  - apply small_flat_map_in in Hs. rewrite Forall_forall in *. intros e He. split; auto.
Qed.
