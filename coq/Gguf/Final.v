(** C05: the exported statements, proved from RoundTrip.v (Properties_C05.v only restates them). *)
From Coq Require Import List NArith ZArith Bool Permutation.
From V Require Import Common.Bytes Gguf.Model Gguf.Arith Gguf.RoundTripKV Gguf.RoundTrip.
Import ListNotations.
Open Scope N_scope.

Record wf_input (kv : wkvs) (ts : list tensor) : Prop := {
  wf_keys : NoDup (map fst kv);
  wf_vals : Forall (fun e => wf_wval (snd e)) kv;
  wf_tens : Forall wf_tensor ts;
  wf_size : Forall sized ts;
  wf_align : 0 < walign kv
}.

(** the tensor order WriteGGUF leaves: a permutation of the input *)
Definition written_order (block : tensor -> Z) (ts : list tensor) : list tensor := sort_ts block ts.

Lemma wf_sorted block kv ts : wf_input kv ts -> wf_input kv (written_order block ts).
Proof.
  intros [H1 H2 H3 H4 H5]. pose proof (sort_ts_perm block ts) as Hp. split; auto.
  - eapply Permutation_Forall; eassumption.
  - eapply Permutation_Forall; eassumption.
Qed.

(** decoding succeeds, and the decoded map is the written map plus the patched-in parameter count - for every
    supported value type, empty strings/arrays included; arrays longer than maxArraySize keep their size only ([clip]) *)
Lemma kv_roundtrip : forall block kv ts maxArr,
  wf_input kv ts -> small (write_gguf true block kv ts) ->
  exists d al, decode (write_gguf true block kv ts) maxArr = DOk d al /\
    forall k, kv_get k (d_kv d) =
      if eqb_str k k_param_count then Some (VNum 10 (wparams ts))
      else option_map (fun v => clip (eff_max maxArr) (val_of_wval v)) (kv_get k kv).
Proof.
  intros block kv ts ma Hwf Hs. unfold write_gguf in *. pose proof (wf_sorted block kv ts Hwf) as [H1 H2 H3 H4 H5].
  destruct (decode_write ma kv (sort_ts block ts) H1 H2 H3 H4 H5 Hs) as [al Hd].
  eexists; exists al. split; [exact Hd|]. intro k. cbn [d_kv].
  rewrite expected_kv_get by exact H1. rewrite (wparams_perm _ _ (Permutation_sym (sort_ts_perm block ts))). reflexivity.
Qed.

(** tensor names, kinds and dimension-reversed shapes, in the writer's order (a permutation of the input) *)
Lemma tensor_meta_roundtrip : forall block kv ts maxArr,
  wf_input kv ts -> small (write_gguf true block kv ts) ->
  exists d al, decode (write_gguf true block kv ts) maxArr = DOk d al /\
    Permutation ts (written_order block ts) /\
    map ti_name (d_tensors d) = map t_name (written_order block ts) /\
    map ti_kind (d_tensors d) = map t_kind (written_order block ts) /\
    map ti_shape (d_tensors d) = map (fun t => rev (t_shape t)) (written_order block ts).
Proof.
  intros block kv ts ma Hwf Hs. unfold write_gguf in *. pose proof (wf_sorted block kv ts Hwf) as [H1 H2 H3 H4 H5].
  destruct (decode_write ma kv (sort_ts block ts) H1 H2 H3 H4 H5 Hs) as [al Hd].
  eexists; exists al. split; [exact Hd|]. split; [apply sort_ts_perm|]. cbn [d_tensors]. unfold written_order, hdr_tinfos.
  generalize (offsets_length true (walign kv) 0 (sort_ts block ts)).
  generalize (offsets true (walign kv) 0 (sort_ts block ts)) as offs. generalize (sort_ts block ts) as l.
  induction l as [|t l IH]; intros [|o offs] Hl; cbn in Hl; try discriminate; [repeat split|].
  cbn [combine map]. destruct (IH offs ltac:(congruence)) as (E1 & E2 & E3). rewrite E1, E2, E3. repeat split.
Qed.

(** for every tensor (position i in the writer's order): the bytes found at Tensors().Offset + tensor.Offset are exactly
    the bytes written, and that position is a multiple of the alignment *)
Lemma tensor_bytes_at_offset : forall block kv ts maxArr,
  wf_input kv ts -> small (write_gguf true block kv ts) ->
  exists d al, decode (write_gguf true block kv ts) maxArr = DOk d al /\
    forall i t ti, nth_error (written_order block ts) i = Some t -> nth_error (d_tensors d) i = Some ti ->
      let at_ := d_toff d + ti_offset ti in
      firstn (length (t_data t)) (skipn (N.to_nat at_) (write_gguf true block kv ts)) = t_data t /\
      at_ mod walign kv = 0.
Proof.
  intros block kv ts ma Hwf Hs. unfold write_gguf in *. pose proof (wf_sorted block kv ts Hwf) as [H1 H2 H3 H4 H5].
  destruct (decode_write ma kv (sort_ts block ts) H1 H2 H3 H4 H5 Hs) as [al Hd].
  eexists; exists al. split; [exact Hd|]. intros i t ti Ht Hti. cbn [d_tensors d_toff] in *. unfold written_order in *.
  unfold hdr_tinfos in Hti. rewrite nth_error_map in Hti.
  destruct (nth_error (combine (sort_ts block ts) (offsets true (walign kv) 0 (sort_ts block ts))) i) as [[t' o]|] eqn:E; [|discriminate].
  inversion Hti; subst ti. cbn [ti_offset tinfo_of snd].
  assert (E1 : nth_error (sort_ts block ts) i = Some t' /\ nth_error (offsets true (walign kv) 0 (sort_ts block ts)) i = Some o).
  { clear -E. revert E. generalize (offsets true (walign kv) 0 (sort_ts block ts)) as offs. generalize (sort_ts block ts) as l. revert i.
    induction i as [|i IH]; intros [|x l] [|y offs] E; cbn in E; try discriminate.
    - inversion E; subst. split; reflexivity.
    - cbn [nth_error]. apply IH, E. }
  destruct E1 as [E1 E2]. rewrite Ht in E1. inversion E1; subst t'.
  apply (tensor_bytes kv (sort_ts block ts) i t o H2 H4 H5 Hs Ht E2).
Qed.

(** the end offset reported by the decoder is the file length *)
Lemma end_offset : forall block kv ts maxArr,
  wf_input kv ts -> small (write_gguf true block kv ts) ->
  exists d al, decode (write_gguf true block kv ts) maxArr = DOk d al /\
    d_end d = Z.of_nat (length (write_gguf true block kv ts)).
Proof.
  intros block kv ts ma Hwf Hs. unfold write_gguf in *. pose proof (wf_sorted block kv ts Hwf) as [H1 H2 H3 H4 H5].
  destruct (decode_write ma kv (sort_ts block ts) H1 H2 H3 H4 H5 Hs) as [al Hd].
  eexists; exists al. split; [exact Hd|]. cbn [d_end]. unfold nlen. apply nat_N_Z.
Qed.

(** ** non-vacuity of the hypotheses: the three-tensor witness of the offset defect (F32 tensors of 1, 7 and 1
    elements, sizes 4, 28, 4 - not multiples of the alignment), with an alignment key and every value type *)
Definition wit_ts : list tensor :=
  [mkT [97] 0 [1] [1;2;3;4]; mkT [98;108;107;46;48;46;119] 0 [7] (repeat 170 28); mkT [99] 0 [1] [5;6;7;8]].
Definition wit_kv : wkvs :=
  [ (k_alignment, WU32 8); ([122], WStr []); ([97], WU32s []); ([98], WStrs [[]; [120]]); ([99], WBool true);
    ([100], WF32 1065353216); ([101], WI32s [4294967295]); ([102], WF32s [0]) ].
Definition wit_block (t : tensor) : Z := if eqb_str (t_name t) [98;108;107;46;48;46;119] then 0%Z else (-1)%Z.

Lemma Forall_dec_true {A} (P : A -> Prop) (f : A -> bool) l : (forall x, f x = true -> P x) -> forallb f l = true -> Forall P l.
Proof. intros H Hf. apply Forall_forall. intros x Hx. apply H. rewrite forallb_forall in Hf. apply Hf, Hx. Qed.

Lemma hypotheses_satisfiable : wf_input wit_kv wit_ts /\ small (write_gguf true wit_block wit_kv wit_ts).
Proof.
  split; [split|].
  - cbn [map fst wit_kv]. repeat constructor; cbn; intuition discriminate.
  - repeat constructor; cbn; unfold two32; try reflexivity; repeat constructor.
  - repeat constructor; cbn; unfold two32, two64, nlen; cbn; try reflexivity.
  - repeat constructor.
  - reflexivity.
  - reflexivity.
Qed.

(** the code before fixes/C05-offsets.patch *)
Definition C05_tensor_bytes_unrepaired_full : Prop :=
  forall kv ts maxArr, wf_input kv ts -> small (write_ordered false kv ts) ->
  exists d al, decode (write_ordered false kv ts) maxArr = DOk d al /\
    forall i t ti, nth_error ts i = Some t -> nth_error (d_tensors d) i = Some ti ->
      firstn (length (t_data t)) (skipn (N.to_nat (d_toff d + ti_offset ti)) (write_ordered false kv ts)) = t_data t.

Definition wit3 : list tensor := [mkT [97] 0 [1] [1;2;3;4]; mkT [98] 0 [7] (repeat 170 28); mkT [99] 0 [1] [5;6;7;8]].

Lemma tensor_bytes_unrepaired_refuted : ~ C05_tensor_bytes_unrepaired_full.
Proof.
  intro H. destruct (H [] wit3 0%Z) as (d & al & Hd & Hb).
  - split; [constructor | constructor | | | reflexivity].
    + repeat constructor; cbn; unfold two32, two64, nlen; cbn; reflexivity.
    + repeat constructor.
  - reflexivity.
  - vm_compute in Hd. inversion Hd; subst d. clear Hd.
    specialize (Hb 2%nat (mkT [99] 0 [1] [5;6;7;8]) (mkTI [99] 0 32 [1]) eq_refl eq_refl).
    vm_compute in Hb. discriminate.
Qed.
