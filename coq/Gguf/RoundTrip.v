(** C05, part 2: tensor infos, the header as a whole, the layout of the data section, and decode (write ...). *)
From Coq Require Import List NArith ZArith Bool Arith Lia ZifyBool ZifyNat ZifyN Permutation.
From V Require Import Common.Bytes Gguf.Model Gguf.Arith Gguf.Monad Gguf.RoundTripKV.
Import ListNotations.
Open Scope N_scope.

Definition wf_tensor (t : tensor) : Prop :=
  t_kind t < two32 /\ Forall (fun d => d < two64) (t_shape t) /\ nlen (t_shape t) < two32.

(** what the decoder is expected to report for tensor [t] recorded at offset [o] *)
Definition tinfo_of (p : tensor * N) : tinfo := mkTI (t_name (fst p)) (t_kind (fst p)) (snd p) (rev (t_shape (fst p))).

Definition enc_tinfo_p (p : tensor * N) : list N := enc_tinfo (fst p) (snd p).

Lemma enc_tinfos_flat ts offs : length offs = length ts -> enc_tinfos ts offs = flat_map enc_tinfo_p (combine ts offs).
Proof.
  revert offs; induction ts as [|t ts IH]; intros [|o offs] H; cbn in H; try lia; [reflexivity|].
  cbn [enc_tinfos combine flat_map]. unfold enc_tinfo_p at 1. cbn [fst snd]. rewrite IH by lia. reflexivity.
Qed.

Lemma offsets_length fixed al s ts : length (offsets fixed al s ts) = length ts.
Proof. revert s; induction ts as [|t ts IH]; intro s; cbn [offsets length]; [reflexivity | now rewrite IH]. Qed.

Lemma oks_dims l rest :
  Forall (fun d => d < two64) l ->
  oks (loop (nlen l) (fun sh => d <- rd_u64 false ;; alloc 16 ;;; ret (d :: sh)) []) (flat_map (le 8) l ++ rest) (rev l) rest.
Proof.
  intro Hl. unfold nlen.
  replace (rev l) with (fold_left (fun sh d => d :: sh) l []) by (rewrite (fold_left_cons_map (fun x => x)), map_id, app_nil_r; reflexivity).
  apply (oks_loop (le 8) _ (fun sh d => d :: sh) (fun d => d < two64)).
  - intros sh d r Hd. eapply oks_bind; [apply oks_rd_u64; exact Hd|]. eapply oks_bind; [apply oks_alloc | apply oks_ret].
  - intros. rewrite le_length. lia.
  - exact Hl.
Qed.

Lemma oks_rd_tensor acc p rest :
  wf_tensor (fst p) -> snd p < two64 -> small (enc_tinfo_p p) ->
  oks (rd_tensor 3 false acc) (enc_tinfo_p p ++ rest) (tinfo_of p :: acc) rest.
Proof.
  destruct p as [t o]. unfold enc_tinfo_p, enc_tinfo, tinfo_of, rd_tensor. cbn [fst snd].
  intros (Hk & Hsh & Hnd) Ho Hs. rewrite <- !app_assoc.
  eapply oks_bind; [apply oks_rd_string3; apply small_app_l in Hs; apply small_enc_str; exact Hs|].
  fold (nlen (t_shape t)).
  eapply oks_bind; [apply oks_rd_u32; exact Hnd|].
  eapply oks_bind; [apply oks_go_make; lia|].
  eapply oks_bind; [apply oks_alloc|].
  eapply oks_bind.
  { replace (nlen (t_shape t)) with (nlen (rev (t_shape t))) by (unfold nlen; now rewrite rev_length).
    apply oks_dims. apply Forall_rev. exact Hsh. }
  eapply oks_bind; [apply oks_rd_u32; exact Hk|].
  eapply oks_bind; [apply oks_rd_u64; exact Ho|].
  rewrite rev_involutive. apply oks_ret.
Qed.

Lemma enc_tinfo_nonempty p : (1 <= length (enc_tinfo_p p))%nat.
Proof. unfold enc_tinfo_p, enc_tinfo, enc_str. rewrite !app_length, !le_length. lia. Qed.

Lemma oks_tensor_section ps rest :
  Forall (fun p => wf_tensor (fst p) /\ snd p < two64) ps -> small (flat_map enc_tinfo_p ps) ->
  oks (loop (nlen ps) (rd_tensor 3 false) []) (flat_map enc_tinfo_p ps ++ rest) (rev (map tinfo_of ps)) rest.
Proof.
  intros Hwf Hs. unfold nlen.
  replace (rev (map tinfo_of ps)) with (fold_left (fun acc p => tinfo_of p :: acc) ps []) by (rewrite fold_left_cons_map, app_nil_r; reflexivity).
  apply (oks_loop enc_tinfo_p (rd_tensor 3 false) (fun acc p => tinfo_of p :: acc)
           (fun p => (wf_tensor (fst p) /\ snd p < two64) /\ small (enc_tinfo_p p))).
  - intros acc p r [[H1 H2] H3]. apply oks_rd_tensor; assumption.
  - intros p _. apply enc_tinfo_nonempty.
  - apply small_flat_map_in in Hs. rewrite Forall_forall in *. intros p Hp. split; auto.
Qed.

Lemma offsets_lt fixed al s ts : Forall (fun o => o < two64) (offsets fixed al s ts).
Proof.
  revert s; induction ts as [|t ts IH]; intro s; cbn [offsets]; constructor; [apply wrap64_lt | apply IH].
Qed.

(** ** the header *)

Definition hdr_tinfos (al : N) (ts : list tensor) : list tinfo := map tinfo_of (combine ts (offsets true al 0 ts)).

Lemma oks_rd_header ma kv ts rest :
  Forall (fun e => wf_wval (snd e)) kv -> Forall wf_tensor ts ->
  small (write_header true kv ts) ->
  oks (rd_header ma) (write_header true kv ts ++ rest)
      (3, rev (map (dec_kv ma) (sort_kv kv)), hdr_tinfos (walign kv) ts) rest.
Proof.
  intros Hkv Hts Hs. unfold write_header in *. unfold rd_header.
  change magic_gguf with (le 4 1179993927) in *. rewrite <- !app_assoc.
  eapply oks_bind; [apply oks_rd_u32; reflexivity|].
  change (1179993927 =? 1179993927) with true. cbv iota.
  eapply oks_bind; [apply oks_ret|].
  eapply oks_bind; [apply oks_rd_u32; reflexivity|].
  change (3 =? 1) with false. cbv iota zeta.
  assert (Hnt : nlen ts < two63 /\ nlen kv < two63).
  { apply small_app_r, small_app_r, small_app_r, small_app_r in Hs. split.
    - apply small_app_r in Hs. rewrite enc_tinfos_flat in Hs by apply offsets_length.
      apply small_flat_map_len in Hs; [|apply enc_tinfo_nonempty].
      unfold nlen in *. rewrite combine_length, offsets_length, Nat.min_id in Hs. exact Hs.
    - apply small_app_l in Hs. assert (E : nlen kv = nlen (sort_kv kv)).
      { unfold nlen. f_equal. unfold sort_kv. clear. induction kv as [|e l IH]; [reflexivity|]. cbn [fold_right length].
        rewrite IH. generalize (fold_right insert_kv [] l) as m. clear. induction m as [|e' m IH]; [reflexivity|].
        cbn [insert_kv]. destruct (str_ltb (fst e') (fst e)); cbn [length]; [rewrite IH|]; reflexivity. }
      rewrite E. apply (small_flat_map_len enc_kv); [apply enc_kv_nonempty | exact Hs]. }
  destruct Hnt as [Hnt Hnkv].
  rewrite (app_assoc (le 8 _) (le 8 _)).
  eapply oks_bind.
  { apply oks_take'. rewrite app_length, !le_length. reflexivity. }
  rewrite firstn_app, skipn_app, firstn_all2, skipn_all2 by (rewrite le_length; lia).
  rewrite !le_length. change (8 - 8)%nat with 0%nat. cbn [firstn skipn]. rewrite app_nil_r. cbn [app].
  fold (nlen ts) (nlen kv).
  rewrite !unle_le_small by (rewrite pow256_8; pose proof two63_lt_two64; lia).
  assert (Esort : nlen kv = nlen (sort_kv kv)).
  { unfold nlen. f_equal. unfold sort_kv. clear. induction kv as [|e l IH]; [reflexivity|]. cbn [fold_right length].
    rewrite IH. generalize (fold_right insert_kv [] l) as m. clear. induction m as [|e' m IH]; [reflexivity|].
    cbn [insert_kv]. destruct (str_ltb (fst e') (fst e)); cbn [length]; [rewrite IH|]; reflexivity. }
  rewrite Esort.
  assert (Hsortwf : Forall (fun e => wf_wval (snd e)) (sort_kv kv)).
  { unfold sort_kv. clear -Hkv. induction Hkv as [|e l He _ IH]; [constructor|]. cbn [fold_right].
    revert IH. generalize (fold_right insert_kv [] l) as m. induction m as [|e' m IHm]; intro Hm; cbn [insert_kv].
    - constructor; [exact He | constructor].
    - inversion Hm; subst. destruct (str_ltb (fst e') (fst e)); constructor; auto. }
  apply small_app_r, small_app_r, small_app_r, small_app_r in Hs.
  eapply oks_bind; [apply oks_kv_section; [exact Hsortwf | apply small_app_l in Hs; exact Hs]|].
  rewrite enc_tinfos_flat in * by apply offsets_length.
  assert (Elen : nlen ts = nlen (combine ts (offsets true (walign kv) 0 ts))).
  { unfold nlen. rewrite combine_length, offsets_length, Nat.min_id. reflexivity. }
  rewrite Elen.
  eapply oks_bind.
  { apply oks_tensor_section; [|apply small_app_r in Hs; exact Hs].
    apply Forall_forall. intros [t o] Hin. cbn [fst snd]. split.
    - rewrite Forall_forall in Hts. apply Hts. eapply in_combine_l; exact Hin.
    - pose proof (offsets_lt true (walign kv) 0 ts) as Ho. rewrite Forall_forall in Ho. apply Ho. eapply in_combine_r; exact Hin. }
  rewrite rev_involutive. apply oks_ret.
Qed.

(** ** the data section *)

Definition padded (x a : N) : N := x + padN x a.

Lemma padded_shift base y a : 0 < a -> base mod a = 0 -> padded (base + y) a = base + padded y a.
Proof. intros Ha Hb. unfold padded. rewrite padN_shift by assumption. lia. Qed.

Lemma write_data_cons al pos t r :
  0 < al ->
  write_data al pos (t :: r) =
  repeat 0 (N.to_nat (padN pos al)) ++ t_data t ++ write_data al (padded pos al + nlen (t_data t)) r.
Proof.
  intro Ha. cbn [write_data]. rewrite go_pad_N by exact Ha. rewrite N2Z.id. reflexivity.
Qed.

Lemma skipn_app_exact {A} (a b : list A) n : n = length a -> skipn n (a ++ b) = b.
Proof. intros ->. rewrite skipn_app, skipn_all, Nat.sub_diag. reflexivity. Qed.

Lemma firstn_app_exact {A} (a b : list A) n : n = length a -> firstn n (a ++ b) = a.
Proof. intros ->. rewrite firstn_app, firstn_all, Nat.sub_diag. cbn [firstn]. apply app_nil_r. Qed.

Definition sized (t : tensor) : Prop := nlen (t_data t) = t_size t.

Lemma layout ts : forall al pos s base,
  0 < al -> al < two64 -> base mod al = 0 -> padded pos al = base + padded s al ->
  Forall sized ts ->
  pos + nlen (write_data al pos ts) < two63 ->
  seek_tensors (Z.of_N al) (Z.of_N pos) (map tinfo_of (combine ts (offsets true al s ts)))
    = Some (Z.of_N (pos + nlen (write_data al pos ts)))
  /\ forall i t o, nth_error ts i = Some t -> nth_error (offsets true al s ts) i = Some o ->
       pos <= base + o /\ (base + o) mod al = 0 /\
       firstn (length (t_data t)) (skipn (N.to_nat (base + o - pos)) (write_data al pos ts)) = t_data t.
Proof.
  induction ts as [|t r IH]; intros al pos s base Ha Ha64 Hbase Hinv Hsz Hbound.
  - split.
    + cbn [offsets combine map seek_tensors write_data]. unfold nlen. cbn [length]. f_equal. lia.
    + intros [|i] t o H; discriminate.
  - rewrite write_data_cons in * by exact Ha.
    inversion Hsz as [|? ? Hszt Hszr]; subst.
    unfold nlen in Hbound. rewrite !app_length, repeat_length in Hbound. fold (nlen (t_data t)) in Hbound.
    pose proof (padN_lt pos al Ha) as Hp. pose proof (padN_lt s al Ha) as Hps.
    assert (Hs63 : s < two63) by (unfold padded, nlen in *; lia).
    assert (Eo : wrap64 (s + pad64 s al) = padded s al).
    { rewrite pad64_N by assumption. apply wrap64_small. unfold padded, nlen in *. pose proof two63_lt_two64. lia. }
    assert (Es' : wrap64 (padded s al + t_size t) = padded s al + nlen (t_data t)).
    { unfold sized in Hszt. rewrite <- Hszt. apply wrap64_small. unfold padded, nlen in *. pose proof two63_lt_two64. lia. }
    cbn [offsets]. rewrite Eo, Es'.
    assert (Hinv' : padded (padded pos al + nlen (t_data t)) al = base + padded (padded s al + nlen (t_data t)) al).
    { replace (padded pos al + nlen (t_data t)) with (base + (padded s al + nlen (t_data t))) by (rewrite Hinv; lia).
      apply padded_shift; assumption. }
    assert (Hbound' : padded pos al + nlen (t_data t) + nlen (write_data al (padded pos al + nlen (t_data t)) r) < two63).
    { unfold padded, nlen in *. lia. }
    destruct (IH al (padded pos al + nlen (t_data t)) (padded s al + nlen (t_data t)) base Ha Ha64 Hbase Hinv' Hszr Hbound') as [IH1 IH2].
    split.
    + cbn [combine map seek_tensors]. cbv zeta.
      change (ti_shape (tinfo_of (t, padded s al))) with (rev (t_shape t)). change (ti_kind (tinfo_of (t, padded s al))) with (t_kind t).
      rewrite go_pad_N by exact Ha.
      rewrite wrapZ64_small by (unfold padded in *; lia).
      destruct (Z.ltb_spec (Z.of_N pos + Z.of_N (padN pos al)) 0); [lia|].
      rewrite tensor_size_rev. fold (t_size t). unfold sized in Hszt. rewrite <- Hszt.
      rewrite to_int64_small by (unfold padded in *; lia).
      destruct (Z.ltb_spec (Z.of_N (nlen (t_data t))) 0); [lia|].
      rewrite wrapZ64_small by (unfold padded in *; lia).
      destruct (Z.ltb_spec (Z.of_N pos + Z.of_N (padN pos al) + Z.of_N (nlen (t_data t))) 0); [lia|].
      replace (Z.of_N pos + Z.of_N (padN pos al) + Z.of_N (nlen (t_data t)))%Z with (Z.of_N (padded pos al + nlen (t_data t))) by (unfold padded; lia).
      rewrite IH1. f_equal. f_equal. unfold nlen. rewrite !app_length, repeat_length. unfold padded. lia.
    + intros [|i] t' o Ht Ho.
      * cbn [nth_error] in Ht, Ho. inversion Ht; inversion Ho; subst t' o. clear Ht Ho.
        rewrite <- Hinv. split; [unfold padded; lia|]. split; [apply padN_aligned; exact Ha|].
        replace (N.to_nat (padded pos al - pos)) with (N.to_nat (padN pos al)) by (unfold padded; lia).
        rewrite skipn_app_exact by (rewrite repeat_length; reflexivity).
        apply firstn_app_exact. reflexivity.
      * cbn [nth_error] in Ht, Ho. destruct (IH2 i t' o Ht Ho) as (Hle & Hmod & Hdata).
        split; [unfold padded in *; lia|]. split; [exact Hmod|].
        assert (E : skipn (N.to_nat (base + o - pos)) (repeat 0 (N.to_nat (padN pos al)) ++ t_data t ++ write_data al (padded pos al + nlen (t_data t)) r)
                    = skipn (N.to_nat (base + o - (padded pos al + nlen (t_data t)))) (write_data al (padded pos al + nlen (t_data t)) r)).
        { rewrite app_assoc.
          replace (N.to_nat (base + o - pos)) with (length (repeat 0%N (N.to_nat (padN pos al)) ++ t_data t) + N.to_nat (base + o - (padded pos al + nlen (t_data t))))%nat.
          - rewrite skipn_app. rewrite skipn_all2 by lia. cbn [app]. f_equal. lia.
          - rewrite app_length, repeat_length. unfold padded, nlen in *. lia. }
        rewrite E. exact Hdata.
Qed.

(** ** decode (write_ordered ...) *)

Definition wparams (ts : list tensor) : N := fold_left (fun c t => wrap64 (c + parameters (t_shape t))) ts 0.

Lemma total_params_hdr al ts : total_params (hdr_tinfos al ts) = wparams ts.
Proof.
  unfold hdr_tinfos, total_params, wparams.
  assert (H : forall offs c, length offs = length ts ->
            fold_left (fun c t => wrap64 (c + parameters (ti_shape t))) (map tinfo_of (combine ts offs)) c =
            fold_left (fun c t => wrap64 (c + parameters (t_shape t))) ts c).
  { induction ts as [|t r IH]; intros [|o offs] c Hl; cbn in Hl; try lia; [reflexivity|].
    cbn [combine map fold_left]. change (ti_shape (tinfo_of (t, o))) with (rev (t_shape t)).
    rewrite parameters_rev. apply IH. lia. }
  apply H. apply offsets_length.
Qed.

(** the key/values a decode of the written file reports: parameter count first, then the written ones *)
Definition expected_kv (ma : Z) (kv : wkvs) (ts : list tensor) : kvs :=
  (k_param_count, VNum 10 (wparams ts)) :: rev (map (dec_kv ma) (sort_kv kv)).

(** lookups *)
Lemma kv_get_In {V} (l : list (str * V)) k v : NoDup (map fst l) -> (kv_get k l = Some v <-> In (k, v) l).
Proof.
  induction l as [|[k' v'] l IH]; intro Hnd; cbn [kv_get].
  - split; [discriminate | intros []].
  - inversion Hnd as [|? ? Hni Hnd']; subst. destruct (eqb_str k k') eqn:E.
    + apply eqb_str_spec in E. subst k'. split.
      * intro H. inversion H. left. reflexivity.
      * intros [H|H]; [inversion H; reflexivity|]. exfalso. apply Hni. cbn [map fst] in *. apply (in_map fst) in H. exact H.
    + rewrite IH by exact Hnd'. split; [intro H; right; exact H|].
      intros [H|H]; [|exact H]. inversion H; subst. assert (eqb_str k k = true) by (apply eqb_str_spec; reflexivity). congruence.
Qed.

Lemma kv_get_perm {V} (l1 l2 : list (str * V)) k : NoDup (map fst l1) -> Permutation l1 l2 -> kv_get k l1 = kv_get k l2.
Proof.
  intros Hnd Hp.
  assert (Hnd2 : NoDup (map fst l2)) by (eapply Permutation_NoDup; [apply Permutation_map; exact Hp | exact Hnd]).
  destruct (kv_get k l1) as [v|] eqn:E1.
  - symmetry. apply kv_get_In; [exact Hnd2|]. eapply Permutation_in; [exact Hp|]. apply kv_get_In; assumption.
  - destruct (kv_get k l2) as [v|] eqn:E2; [|reflexivity].
    apply kv_get_In in E2; [|exact Hnd2]. apply (Permutation_in _ (Permutation_sym Hp)) in E2.
    apply kv_get_In in E2; [congruence | exact Hnd].
Qed.

Lemma insert_kv_perm e l : Permutation (e :: l) (insert_kv e l).
Proof.
  induction l as [|e' l IH]; cbn [insert_kv]; [apply Permutation_refl|].
  destruct (str_ltb (fst e') (fst e)); [|apply Permutation_refl].
  eapply Permutation_trans; [apply perm_swap|]. apply perm_skip. exact IH.
Qed.

Lemma sort_kv_perm l : Permutation l (sort_kv l).
Proof.
  unfold sort_kv. induction l as [|e l IH]; cbn [fold_right]; [apply Permutation_refl|].
  eapply Permutation_trans; [apply perm_skip; exact IH | apply insert_kv_perm].
Qed.

Lemma kv_get_map {V W} (f : V -> W) (l : list (str * V)) k :
  kv_get k (map (fun e => (fst e, f (snd e))) l) = option_map f (kv_get k l).
Proof.
  induction l as [|[k' v] l IH]; [reflexivity|]. cbn [map kv_get fst snd]. destruct (eqb_str k k'); [reflexivity | exact IH].
Qed.

(** the decoded map, key by key *)
Lemma expected_kv_get ma kv ts k :
  NoDup (map fst kv) ->
  kv_get k (expected_kv ma kv ts) =
  if eqb_str k k_param_count then Some (VNum 10 (wparams ts))
  else option_map (fun v => clip ma (val_of_wval v)) (kv_get k kv).
Proof.
  intro Hnd. unfold expected_kv. cbn [kv_get]. destruct (eqb_str k k_param_count); [reflexivity|].
  change (map (dec_kv ma) (sort_kv kv)) with (map (fun e => (fst e, (fun v => clip ma (val_of_wval v)) (snd e))) (sort_kv kv)).
  rewrite <- kv_get_map.
  symmetry. apply kv_get_perm.
  - rewrite map_map. cbn [fst]. exact Hnd.
  - eapply Permutation_trans; [apply Permutation_map, sort_kv_perm | apply Permutation_rev].
Qed.

Lemma kv_get_some_in {V} (l : list (str * V)) k v : kv_get k l = Some v -> In (k, v) l.
Proof.
  induction l as [|[k' v'] l IH]; cbn [kv_get]; [discriminate|].
  destruct (eqb_str k k') eqn:E; intro H.
  - apply eqb_str_spec in E. subst. inversion H. left. reflexivity.
  - right. apply IH, H.
Qed.

Lemma walign_lt kv : Forall (fun e => wf_wval (snd e)) kv -> walign kv < two32.
Proof.
  intro Hwf. unfold walign, kv_uint. destruct (kv_get k_alignment kv) as [w|] eqn:E; [|reflexivity].
  apply kv_get_some_in in E. rewrite Forall_forall in Hwf. specialize (Hwf _ E). cbn [snd] in Hwf.
  destruct w; cbn [wval_u32]; try reflexivity. exact Hwf.
Qed.

Lemma decoded_align ma kv ts :
  NoDup (map fst kv) -> kv_uint val_u32 (expected_kv ma kv ts) k_alignment 32 = walign kv.
Proof.
  intro Hnd. unfold walign, kv_uint. rewrite expected_kv_get by exact Hnd.
  change (eqb_str k_alignment k_param_count) with false. cbv iota.
  destruct (kv_get k_alignment kv) as [w|]; [|reflexivity]. cbn [option_map].
  destruct w; cbn [val_of_wval clip val_u32 wval_u32]; try reflexivity;
    match goal with |- context [can_collect ?a ?b] => destruct (can_collect a b) end; reflexivity.
Qed.

Definition data_start (kv : wkvs) (ts : list tensor) : N := padded (nlen (write_header true kv ts)) (walign kv).

Theorem decode_write ma0 kv ts :
  NoDup (map fst kv) -> Forall (fun e => wf_wval (snd e)) kv -> Forall wf_tensor ts -> Forall sized ts ->
  0 < walign kv -> small (write_ordered true kv ts) ->
  exists al, decode (write_ordered true kv ts) ma0 =
    DOk (mkD 3 (expected_kv (eff_max ma0) kv ts) (hdr_tinfos (walign kv) ts) (data_start kv ts)
             (Z.of_N (nlen (write_ordered true kv ts)))) al.
Proof.
  intros Hnd Hkv Hts Hsz Hal Hsmall.
  unfold write_ordered in *. set (h := write_header true kv ts) in *. cbv zeta in *.
  set (data := write_data (walign kv) (N.of_nat (length h)) ts) in *.
  destruct (oks_rd_header (eff_max ma0) kv ts data Hkv Hts (small_app_l _ _ Hsmall)) as [al Hh].
  fold h in Hh.
  unfold decode, decode_from. fold (eff_max ma0). rewrite Hh.
  rewrite total_params_hdr. fold (expected_kv (eff_max ma0) kv ts).
  rewrite decoded_align by exact Hnd.
  rewrite (N.mod_small (walign kv) two32) by (apply walign_lt; exact Hkv).
  destruct (Z.eqb_spec (Z.of_N (walign kv)) 0) as [E|_]; [lia|].
  rewrite app_length. replace (length h + length data - length data)%nat with (length h) by lia.
  rewrite Z.add_0_l.
  unfold go_pad_p. destruct (Z.eqb_spec (Z.of_N (walign kv)) 0) as [E|_]; [lia|].
  rewrite <- nat_N_Z. fold (nlen h). rewrite go_pad_N by exact Hal.
  pose proof (walign_lt kv Hkv) as Hal32.
  assert (Hal64 : walign kv < two64) by (unfold two32, two64 in *; lia).
  pose proof (padN_lt (nlen h) (walign kv) Hal) as Hp.
  assert (Hh63 : nlen h < two63) by (apply small_app_l in Hsmall; exact Hsmall).
  assert (Etoff : wrap64 (Z.to_N ((Z.of_N (nlen h) + Z.of_N (padN (nlen h) (walign kv))) mod Z.of_N two64)) = data_start kv ts).
  { unfold data_start, padded. fold h. rewrite Z.mod_small by (unfold two32, two63, two64 in *; lia).
    rewrite <- N2Z.inj_add, N2Z.id. apply wrap64_small. unfold two32, two63, two64 in *. lia. }
  rewrite Etoff.
  destruct (layout ts (walign kv) (nlen h) 0 (padded (nlen h) (walign kv)) Hal Hal64) as [Hseek _].
  - apply padN_aligned. exact Hal.
  - unfold padded at 3. rewrite (padN_of_aligned 0) by (try apply N.mod_0_l; lia). lia.
  - exact Hsz.
  - unfold small, nlen in *. rewrite app_length in Hsmall. fold data. unfold nlen. lia.
  - unfold hdr_tinfos. fold (nlen h) in data. fold data in Hseek. rewrite Hseek.
    eexists. f_equal. f_equal. f_equal. unfold nlen. rewrite app_length. lia.
Qed.

(** bytes at the decoded location, in the whole file *)
Theorem tensor_bytes kv ts i t o :
  Forall (fun e => wf_wval (snd e)) kv -> Forall sized ts -> 0 < walign kv -> small (write_ordered true kv ts) ->
  nth_error ts i = Some t -> nth_error (offsets true (walign kv) 0 ts) i = Some o ->
  firstn (length (t_data t)) (skipn (N.to_nat (data_start kv ts + o)) (write_ordered true kv ts)) = t_data t
  /\ (data_start kv ts + o) mod walign kv = 0.
Proof.
  intros Hkv Hsz Hal Hsmall Ht Ho.
  unfold write_ordered in *. set (h := write_header true kv ts) in *. cbv zeta in *.
  pose proof (walign_lt kv Hkv) as Hal32.
  assert (Hal64 : walign kv < two64) by (unfold two32, two64 in *; lia).
  destruct (layout ts (walign kv) (nlen h) 0 (padded (nlen h) (walign kv)) Hal Hal64) as [_ Hb].
  - apply padN_aligned. exact Hal.
  - unfold padded at 3. rewrite (padN_of_aligned 0) by (try apply N.mod_0_l; lia). lia.
  - exact Hsz.
  - unfold small, nlen in *. rewrite app_length in Hsmall. lia.
  - destruct (Hb i t o Ht Ho) as (Hle & Hmod & Hdata). unfold data_start. fold h. split; [|exact Hmod].
    fold (nlen h). rewrite skipn_app. rewrite skipn_all2 by (unfold nlen in *; lia). cbn [app].
    replace (N.to_nat (padded (nlen h) (walign kv) + o) - length h)%nat with (N.to_nat (padded (nlen h) (walign kv) + o - nlen h)) by (unfold nlen in *; lia).
    exact Hdata.
Qed.

(** ** the stable sort only permutes *)
Lemma insert_ts_perm {T} (block : T -> Z) x l : Permutation (x :: l) (insert_ts block x l).
Proof.
  induction l as [|y l IH]; cbn [insert_ts]; [apply Permutation_refl|].
  destruct (cmp_block (block x) (block y) <? 0)%Z; [|apply Permutation_refl].
  eapply Permutation_trans; [apply perm_swap | apply perm_skip, IH].
Qed.

Lemma sort_ts_perm {T} (block : T -> Z) ts : Permutation ts (sort_ts block ts).
Proof.
  unfold sort_ts.
  assert (H : forall acc, Permutation (rev acc ++ ts) (rev (fold_left (fun acc x => insert_ts block x acc) ts acc))).
  { induction ts as [|x ts IH]; intro acc; cbn [fold_left].
    - rewrite app_nil_r. apply Permutation_refl.
    - eapply Permutation_trans; [|apply IH].
      apply Permutation_app_tail with (tl := ts) (l := rev acc ++ [x]) (l' := rev (insert_ts block x acc)) in IH || idtac.
      rewrite (app_assoc (rev acc) [x] ts) || idtac.
      change (x :: ts) with ([x] ++ ts). rewrite app_assoc. apply Permutation_app_tail.
      eapply Permutation_trans; [|apply Permutation_rev].
      eapply Permutation_trans; [|apply insert_ts_perm].
      eapply Permutation_trans; [apply Permutation_app_comm|]. cbn [app]. apply perm_skip. apply Permutation_sym, Permutation_rev. }
  apply (H []).
Qed.

(** parameter count does not depend on the tensor order *)
Definition psum (ts : list tensor) : N := fold_right (fun t acc => parameters (t_shape t) + acc) 0 ts.

Lemma wparams_psum ts : wparams ts = psum ts mod two64.
Proof.
  unfold wparams.
  assert (H : forall c, fold_left (fun c t => wrap64 (c + parameters (t_shape t))) ts (c mod two64) = (c + psum ts) mod two64).
  { induction ts as [|t r IH]; intro c; cbn [fold_left psum fold_right].
    - rewrite N.add_0_r. reflexivity.
    - unfold wrap64 at 2. rewrite N.add_mod_idemp_l by discriminate. rewrite IH. fold (psum r). f_equal. lia. }
  specialize (H 0). rewrite N.mod_0_l in H by discriminate. rewrite H. reflexivity.
Qed.

Lemma psum_perm a b : Permutation a b -> psum a = psum b.
Proof.
  unfold psum. induction 1 as [|x l l' _ IH|x y l|l l' l'' _ IH1 _ IH2]; cbn [fold_right]; [reflexivity | rewrite IH; reflexivity | lia | congruence].
Qed.

Lemma wparams_perm a b : Permutation a b -> wparams a = wparams b.
Proof. intro H. rewrite !wparams_psum, (psum_perm a b H). reflexivity. Qed.
