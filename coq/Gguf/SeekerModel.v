(** fs/util/bufioutil/buffer_seeker.go over a bytes.Reader: definitions.
    Abstract model = one logical position; concrete model = what the Go struct holds (position of the underlying reader and the
    bytes bufio has prefetched), with BufferedSeeker.Seek's compensation [offset -= Buffered()] for SeekCurrent. *)
From Coq Require Import List NArith ZArith Bool.
From V Require Import Common.Bytes Gguf.Model.
Import ListNotations.
Open Scope Z_scope.

Inductive sop := SRead (k : Z) | SSeek (off : Z) (whence : N).       (* io.ReadFull of k bytes; Seek; whence 0 start, 1 current, 2 end *)
Inductive sres := RRead (bytes : list N) (err : N) | RSeek (pos : Z) (ok : bool).   (* err: 0 none, 1 io.EOF, 2 io.ErrUnexpectedEOF *)

Definition zlen (l : list N) : Z := Z.of_nat (length l).

(** bytes.Reader.Seek target: start = offset, current = position + offset, end = length + offset (int64 arithmetic) *)
Definition seek_target (len pos off : Z) (whence : N) : Z :=
  match whence with
  | 0%N => off
  | 1%N => wrapZ64 (pos + off)
  | _ => wrapZ64 (len + off)
  end.

(** abstract: logical position [p] (never negative) *)
Definition abs_step (data : list N) (p : Z) (o : sop) : Z * sres :=
  match o with
  | SRead k =>
    let avail := Z.max 0 (zlen data - p) in
    let m := Z.min k avail in
    let bytes := if zlen data <=? p then [] else firstn (Z.to_nat m) (skipn (Z.to_nat p) data) in   (* never build a huge nat *)
    (p + m, RRead bytes (if k <=? 0 then 0%N else if m =? 0 then 1%N else if m <? k then 2%N else 0%N))
  | SSeek off w =>
    let t := seek_target (zlen data) p off w in
    if t <? 0 then (p, RSeek 0 false) else (t, RSeek t true)
  end.

Fixpoint abs_run (data : list N) (p : Z) (ops : list sop) : list sres :=
  match ops with
  | [] => []
  | o :: r => let '(p', res) := abs_step data p o in res :: abs_run data p' r
  end.

(** concrete: [cu] = position of the underlying reader, [cbuf] = bytes prefetched by bufio and not yet consumed *)
Record cst := mkC { cu : Z; cbuf : list N }.
Definition c_abs (c : cst) : Z := cu c - zlen (cbuf c).
(** bufio prefetches [m] more bytes (any amount that is there) *)
Definition c_fill (data : list N) (c : cst) (m : nat) : cst :=
  mkC (cu c + Z.of_nat (length (firstn m (skipn (Z.to_nat (cu c)) data)))) (cbuf c ++ firstn m (skipn (Z.to_nat (cu c)) data)).
(** BufferedSeeker.Seek *)
Definition c_seek (data : list N) (c : cst) (off : Z) (whence : N) : cst * sres :=
  let off' := if (whence =? 1)%N then wrapZ64 (off - zlen (cbuf c)) else off in
  let t := seek_target (zlen data) (cu c) off' whence in
  if t <? 0 then (c, RSeek 0 false) else (mkC t [], RSeek t true).   (* on success br.Reset: the buffer is dropped *)
(** a read served from the buffer *)
Definition c_read_buffered (c : cst) (k : nat) : cst * list N := (mkC (cu c) (skipn k (cbuf c)), firstn k (cbuf c)).

Definition c_inv (data : list N) (c : cst) : Prop :=
  0 <= c_abs c /\ cbuf c = firstn (length (cbuf c)) (skipn (Z.to_nat (c_abs c)) data).
