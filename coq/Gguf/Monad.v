(** Generic facts about the reader monad of Gguf/Model.v:
    - [oks m r a r']: m succeeds on r with value a and rest r' (allocation ignored) - used by the C05 round trip;
    - [G cs cf m]: m never panics, never runs out of fuel, and its metered allocation is paid for by the input it
      consumes at [K] bytes per input byte, up to the credits [cs] (success) / [cf] (failure) - used by C10. *)
From Coq Require Import List NArith ZArith Bool Arith Lia ZifyBool ZifyNat ZifyN.
From V Require Import Common.Bytes Gguf.Model Gguf.Arith.
Import ListNotations.
Open Scope N_scope.

(** * success relation *)

Definition oks {A} (m : M A) (r : list N) (a : A) (r' : list N) : Prop := exists al, m r = ROk a r' al.

Lemma oks_ret {A} (a : A) r : oks (ret a) r a r.
Proof. exists 0. reflexivity. Qed.

Lemma oks_bind {A B} (m : M A) (f : A -> M B) r a r' b r'' :
  oks m r a r' -> oks (f a) r' b r'' -> oks (bind m f) r b r''.
Proof. intros [al1 H1] [al2 H2]. unfold oks, bind. rewrite H1, H2. eexists; reflexivity. Qed.

Lemma oks_alloc k r : oks (alloc k) r tt r.
Proof. exists k. reflexivity. Qed.

Lemma oks_take l rest : oks (take (N.of_nat (length l))) (l ++ rest) l rest.
Proof.
  exists 0. unfold take. rewrite app_length.
  destruct (N.ltb_spec (N.of_nat (length l + length rest)) (N.of_nat (length l))); [lia|].
  rewrite Nat2N.id. rewrite firstn_app, firstn_all, Nat.sub_diag, skipn_app, skipn_all, Nat.sub_diag.
  cbn [firstn skipn]. rewrite app_nil_r. reflexivity.
Qed.

Lemma oks_take' k l rest : k = N.of_nat (length l) -> oks (take k) (l ++ rest) l rest.
Proof. intros ->. apply oks_take. Qed.

Lemma oks_rd_int_le (k : nat) n rest :
  n < 256 ^ N.of_nat k -> oks (rd_int false (N.of_nat k)) (le k n ++ rest) n rest.
Proof.
  intro H. unfold rd_int. eapply oks_bind.
  - apply oks_take'. now rewrite le_length.
  - cbn. rewrite unle_le_small by exact H. apply oks_ret.
Qed.

Lemma oks_rd_u32 n rest : n < two32 -> oks (rd_u32 false) (le 4 n ++ rest) n rest.
Proof. intro H. apply (oks_rd_int_le 4). exact H. Qed.

Lemma oks_rd_u64 n rest : n < two64 -> oks (rd_u64 false) (le 8 n ++ rest) n rest.
Proof. intro H. apply (oks_rd_int_le 8). exact H. Qed.

Lemma N_pred_of_nat_S n : N.pred (N.of_nat (S n)) = N.of_nat n.
Proof. lia. Qed.

(** a loop over the concatenated encodings of [xs] folds [step] over [xs] *)
Lemma oks_loopM {S X} (enc : X -> list N) (body : S -> M S) (step : S -> X -> S) (P : X -> Prop) :
  (forall s x rest, P x -> oks (body s) (enc x ++ rest) (step s x) rest) ->
  forall xs fuel s rest, Forall P xs -> (length xs <= fuel)%nat ->
    oks (loopM fuel (N.of_nat (length xs)) body s) (flat_map enc xs ++ rest) (fold_left step xs s) rest.
Proof.
  intros Hb xs. induction xs as [|x xs IH]; intros fuel s rest HP Hf.
  - cbn [length flat_map fold_left app]. destruct fuel; cbn [loopM N.of_nat N.eqb]; apply oks_ret.
  - destruct fuel as [|fuel]; [cbn in Hf; lia|].
    cbn [loopM]. destruct (N.eqb_spec (N.of_nat (length (x :: xs))) 0) as [E|_]; [cbn in E; lia|].
    cbn [flat_map fold_left]. rewrite <- app_assoc.
    inversion HP as [|? ? HPx HPxs]; subst.
    eapply oks_bind; [apply Hb; exact HPx|].
    cbn [length]. rewrite N_pred_of_nat_S. apply IH; [exact HPxs | cbn in Hf; lia].
Qed.

Lemma oks_loop {S X} (enc : X -> list N) (body : S -> M S) (step : S -> X -> S) (P : X -> Prop) :
  (forall s x rest, P x -> oks (body s) (enc x ++ rest) (step s x) rest) ->
  (forall x, P x -> (1 <= length (enc x))%nat) ->
  forall xs s rest, Forall P xs ->
    oks (loop (N.of_nat (length xs)) body s) (flat_map enc xs ++ rest) (fold_left step xs s) rest.
Proof.
  intros Hb Hl xs s rest HP. unfold loop. eapply oks_loopM; eauto.
  rewrite app_length.
  assert (length xs <= length (flat_map enc xs))%nat; [|lia].
  clear -Hl HP. induction HP as [|x xs Hx _ IH]; cbn [flat_map length]; [lia|].
  rewrite app_length. specialize (Hl x Hx). lia.
Qed.

(** * allocation / totality predicate *)

Definition K : Z := 256.
Definition zlen (l : list N) : Z := Z.of_nat (length l).

Definition G {A} (cs cf : Z) (m : M A) : Prop := forall rest,
  match m rest with
  | ROk _ r' al => (length r' <= length rest)%nat /\ (Z.of_N al + K * zlen r' <= K * zlen rest + cs)%Z
  | RErr e al => e <> EFuel /\ (Z.of_N al <= K * zlen rest + cf)%Z
  | RPanic _ _ => False
  end.

Lemma G_weaken {A} cs cf cs' cf' (m : M A) : G cs cf m -> (cs <= cs')%Z -> (cf <= cf')%Z -> G cs' cf' m.
Proof.
  intros H H1 H2 rest. specialize (H rest). destruct (m rest); [|intuition lia|exact H].
  destruct H as [Ha Hb]. split; [exact Ha | lia].
Qed.

Lemma G_ret {A} (a : A) : G 0 0 (ret a).
Proof. intro rest. unfold ret. unfold K, zlen. split; lia. Qed.

Lemma G_fail {A} e cs : e <> EFuel -> G cs 0 (@fail A e).
Proof. intros H rest. unfold fail. split; [exact H | unfold K, zlen; lia]. Qed.

Lemma G_ret' {A} (a : A) cs cf : (0 <= cs)%Z -> G cs cf (ret a).
Proof. intros H rest. unfold ret. unfold K, zlen. split; lia. Qed.

Lemma G_fail' {A} e cs cf : e <> EFuel -> (0 <= cf)%Z -> G cs cf (@fail A e).
Proof. intros H H2 rest. unfold fail. split; [exact H | unfold K, zlen; lia]. Qed.

Lemma G_alloc k : G (Z.of_N k) 0 (alloc k).
Proof. intro rest. unfold alloc. unfold K, zlen. split; lia. Qed.

Lemma G_take k : G (- K * Z.of_N k) 0 (take k).
Proof.
  intro rest. unfold take. destruct (N.ltb_spec (N.of_nat (length rest)) k) as [H|H].
  - split; [destruct rest; discriminate | unfold K, zlen; lia].
  - unfold K, zlen. rewrite !skipn_length. split; lia.
Qed.

Lemma G_copyN n : G (1536 - (K - 4) * Z.of_N n) 1536 (copyN n).
Proof.
  intro rest. unfold copyN, copy_cost. destruct (N.ltb_spec (N.of_nat (length rest)) n) as [H|H].
  - split; [discriminate | unfold K, zlen; lia].
  - unfold K, zlen. rewrite !skipn_length. split; lia.
Qed.

Lemma G_bind {A B} cs1 cf1 cs2 cf2 (m : M A) (f : A -> M B) :
  G cs1 cf1 m -> (forall a, G cs2 cf2 (f a)) -> G (cs1 + cs2) (Z.max cf1 (cs1 + cf2)) (bind m f).
Proof.
  intros Hm Hf rest. unfold bind. specialize (Hm rest). destruct (m rest) as [a r1 al1 | e al1 | p al1].
  - destruct Hm as [Hl1 Hc1]. specialize (Hf a r1). destruct (f a r1) as [b r2 al2 | e al2 | p al2]; cbn [add_al].
    + destruct Hf as [Hl2 Hc2]. split; [lia | lia].
    + destruct Hf as [He Hc2]. split; [exact He | lia].
    + exact Hf.
  - destruct Hm as [He Hc]. split; [exact He | lia].
  - exact Hm.
Qed.

(** bind where the continuation's credits are stated under what is known of the value *)
Lemma G_bind_dep {A B} cs1 cf1 cs2 cf2 (m : M A) (f : A -> M B) (Q : A -> Prop) :
  G cs1 cf1 m -> (forall rest a r al, m rest = ROk a r al -> Q a) -> (forall a, Q a -> G cs2 cf2 (f a)) ->
  G (cs1 + cs2) (Z.max cf1 (cs1 + cf2)) (bind m f).
Proof.
  intros Hm HQ Hf rest. unfold bind. specialize (Hm rest). destruct (m rest) as [a r1 al1 | e al1 | p al1] eqn:E.
  - destruct Hm as [Hl1 Hc1]. specialize (Hf a (HQ _ _ _ _ E) r1). destruct (f a r1) as [b r2 al2 | e al2 | p al2]; cbn [add_al].
    + destruct Hf as [Hl2 Hc2]. split; [lia | lia].
    + destruct Hf as [He Hc2]. split; [exact He | lia].
    + exact Hf.
  - destruct Hm as [He Hc]. split; [exact He | lia].
  - exact Hm.
Qed.

(** a loop whose body pays for itself ([cs < 0]: every iteration consumes input) never runs out of fuel when the
    fuel exceeds the input length; a successful run made exactly [n] iterations (credit [cs * n]); a failing run costs
    at most the failure credit of one iteration *)
Lemma G_loopM {S} cs cf (body : S -> M S) :
  (forall s, G cs cf (body s)) -> (cs < 0)%Z -> (0 <= cf)%Z ->
  forall fuel n s rest, (length rest < fuel)%nat ->
    match loopM fuel n body s rest with
    | ROk _ r' al => (length r' <= length rest)%nat /\ (Z.of_N al + K * zlen r' <= K * zlen rest + cs * Z.of_N n)%Z
    | RErr e al => e <> EFuel /\ (Z.of_N al <= K * zlen rest + cf)%Z
    | RPanic _ _ => False
    end.
Proof.
  intros Hb Hcs Hcf fuel. induction fuel as [|fuel IH]; intros n s rest Hf; [lia|].
  cbn [loopM]. destruct (N.eqb_spec n 0) as [En|En].
  - subst n. unfold ret. unfold K, zlen. split; lia.
  - unfold bind. pose proof (Hb s rest) as H. destruct (body s rest) as [s' r1 al1 | e al1 | p al1].
    + destruct H as [Hl Hc].
      assert (Hlt : (length r1 < length rest)%nat) by (unfold K, zlen in Hc; lia).
      specialize (IH (N.pred n) s' r1 ltac:(lia)).
      destruct (loopM fuel (N.pred n) body s' r1) as [s2 r2 al2 | e al2 | p al2]; cbn [add_al].
      * destruct IH as [Hl2 Hc2]. split; [lia|].
        replace (Z.of_N n) with (1 + Z.of_N (N.pred n))%Z by lia. lia.
      * destruct IH as [He Hc2]. split; [exact He | lia].
      * exact IH.
    + destruct H as [He Hc]. split; [exact He | lia].
    + exact H.
Qed.

Lemma G_loop {S} cs cf n (body : S -> M S) s :
  (forall s, G cs cf (body s)) -> (cs < 0)%Z -> (0 <= cf)%Z -> G (cs * Z.of_N n) cf (loop n body s).
Proof.
  intros Hb Hcs Hcf rest. unfold loop.
  exact (G_loopM cs cf body Hb Hcs Hcf (Datatypes.S (length rest)) n s rest ltac:(lia)).
Qed.

Lemma G_bind' {A B} cs1 cf1 cs2 cf2 cs cf (m : M A) (f : A -> M B) :
  G cs1 cf1 m -> (forall a, G cs2 cf2 (f a)) ->
  (cs1 + cs2 <= cs)%Z -> (cs1 + cf2 <= cf)%Z -> (cf1 <= cf)%Z -> G cs cf (bind m f).
Proof.
  intros Hm Hf H1 H2 H3. eapply G_weaken; [eapply G_bind; eassumption | exact H1 | lia].
Qed.

Lemma G_bind_dep' {A B} cs1 cf1 cs2 cf2 cs cf (m : M A) (f : A -> M B) (Q : A -> Prop) :
  G cs1 cf1 m -> (forall rest a r al, m rest = ROk a r al -> Q a) -> (forall a, Q a -> G cs2 cf2 (f a)) ->
  (cs1 + cs2 <= cs)%Z -> (cs1 + cf2 <= cf)%Z -> (cf1 <= cf)%Z -> G cs cf (bind m f).
Proof.
  intros Hm HQ Hf H1 H2 H3. eapply G_weaken; [eapply G_bind_dep; eassumption | exact H1 | lia].
Qed.

Lemma G_rd_int be k : G (- K * Z.of_N k) 0 (rd_int be k).
Proof.
  unfold rd_int.
  eapply G_weaken; [eapply G_bind; [apply G_take | intro a; apply G_ret] | unfold K; lia | unfold K; lia].
Qed.

Lemma G_alloc_ret {A} k (a : A) cs cf : (Z.of_N k <= cs)%Z -> G cs cf (alloc k ;;; ret a).
Proof. intros H rest. unfold bind, alloc, ret, add_al. unfold K, zlen. split; lia. Qed.

Lemma G_if {A} (b : bool) cs cf (m1 m2 : M A) : G cs cf m1 -> G cs cf m2 -> G cs cf (if b then m1 else m2).
Proof. destruct b; auto. Qed.
