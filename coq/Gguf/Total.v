(** C10: the decoder model never panics, never runs out of fuel, and allocates linearly in the input. *)
From Coq Require Import List NArith ZArith Bool Arith Lia ZifyBool ZifyNat ZifyN.
From V Require Import Common.Bytes Gguf.Model Gguf.Arith Gguf.Monad.
Import ListNotations.
Open Scope N_scope.

Ltac kz := unfold K in *; lia.

Lemma num_width_pos t w : num_width t = Some w -> 1 <= w <= 8.
Proof.
  unfold num_width. intro H.
  repeat match type of H with
         | (match ?x with _ => _ end) = _ => destruct x; try discriminate
         end; inversion H; lia.
Qed.

Lemma G_rd_num be ty w : 1 <= w -> G (-256) 0 (rd_num be ty w).
Proof.
  intro Hw. unfold rd_num.
  eapply (G_bind' _ _ 0 0); [apply G_rd_int | intro x; (apply G_ret'; lia) | kz | kz | kz].
Qed.

Lemma G_go_slice cap len : (0 <= len <= cap)%Z -> G 0 0 (go_slice cap len).
Proof.
  intro H. unfold go_slice.
  destruct (Z.ltb_spec len 0); [lia|]. destruct (Z.ltb_spec cap len); [lia|]. cbn [orb]. apply G_ret'; lia.
Qed.

Lemma G_go_make n : (0 <= n <= 140737488355328)%Z -> G 0 0 (go_make n).
Proof.
  intro H. unfold go_make.
  destruct (Z.ltb_spec n 0); [lia|]. destruct (Z.ltb_spec 140737488355328 n); [lia|]. cbn [orb]. apply G_ret'; lia.
Qed.

Lemma G_go_truncate len n : (0 <= n <= len)%Z -> G 0 0 (go_truncate len n).
Proof.
  intro H. unfold go_truncate.
  destruct (Z.ltb_spec n 0); [lia|]. destruct (Z.ltb_spec len n); [lia|]. cbn [orb]. apply G_ret'; lia.
Qed.

Lemma G_rd_string23 be : G (-512) 0 (rd_string23 be).
Proof.
  unfold rd_string23.
  eapply (G_bind' _ _ 1536 1536); [apply G_rd_int | | kz | kz | kz].
  intro n. cbv zeta.
  destruct (Z.ltb_spec (to_int64 n) 0) as [Hneg|Hpos].
  { apply G_fail'; [discriminate | lia]. }
  destruct (Z.ltb_spec (Z.of_N scratch_len) (to_int64 n)) as [Hbig|Hsmall].
  { eapply G_weaken; [apply G_copyN | kz | kz]. }
  unfold scratch_len in *.
  eapply (G_bind' 0 0 0 0); [apply G_go_slice; lia | intros _ | lia | lia | lia].
  eapply (G_bind' _ 0 (Z.of_N (Z.to_N (to_int64 n))) 0); [apply G_take | intro b | kz | kz | kz].
  apply G_alloc_ret; lia.
Qed.

Lemma copyN_length n rest a r al : copyN n rest = ROk a r al -> length a = N.to_nat n.
Proof.
  unfold copyN. destruct (N.ltb_spec (N.of_nat (length rest)) n); [discriminate|].
  intro Hc. inversion Hc; subst. apply firstn_length_le. lia.
Qed.

Lemma G_rd_string1 be : G (-512) 0 (rd_string1 be).
Proof.
  unfold rd_string1.
  eapply (G_bind' _ _ 1284 1536); [apply G_rd_int | | kz | kz | kz].
  intro n.
  destruct (N.eqb_spec n 0) as [E0|E0]; cbn [orb].
  { apply G_fail'; [discriminate | lia]. }
  destruct (N.leb_spec two63 n) as [Hb|Hb].
  { apply G_fail'; [discriminate | lia]. }
  eapply (G_bind_dep' _ _ 0 0 _ _ _ _ (fun b => length b = N.to_nat n));
    [apply G_copyN | intros rest a r al H; eapply copyN_length; exact H | | | | ].
  - intros b Hlen.
    eapply (G_bind' 0 0 0 0); [apply G_go_truncate; lia | intros _; (apply G_ret'; lia) | lia | lia | lia].
  - kz.
  - kz.
  - kz.
Qed.

Lemma G_rd_string ver be : G (-512) 0 (rd_string ver be).
Proof. unfold rd_string. destruct (ver =? 1); [apply G_rd_string1 | apply G_rd_string23]. Qed.

Lemma G_discard_string be : G (-2048) 0 (discard_string be).
Proof.
  unfold discard_string.
  eapply (G_bind' _ _ 0 0); [apply G_rd_int | | kz | kz | kz].
  intro n. destruct (to_int64 n <=? 0)%Z; [apply G_ret'; lia|].
  intro rest. destruct (N.ltb_spec (N.of_nat (length rest)) n).
  - split; [discriminate | unfold K, zlen; lia].
  - unfold K, zlen. rewrite !skipn_length. split; lia.
Qed.

Lemma G_rd_elem ver be coll ety : G (-256) 0 (rd_elem ver be coll ety).
Proof.
  unfold rd_elem. destruct (num_width ety) as [w|] eqn:Ew.
  - apply num_width_pos in Ew.
    eapply (G_bind' _ _ 0 0); [apply G_rd_num; lia | intro; (apply G_ret'; lia) | lia | lia | lia].
  - destruct (ety =? 8); [|apply G_fail'; [discriminate | lia]].
    destruct ((ver =? 1) || coll).
    + eapply (G_bind' _ _ 0 0); [apply G_rd_string | intro; (apply G_ret'; lia) | lia | lia | lia].
    + eapply (G_bind' _ _ 0 0); [apply G_discard_string | intro; (apply G_ret'; lia) | lia | lia | lia].
Qed.

Definition arr_cf : Z := 16416.

Lemma G_rd_array ver be maxArr : G (-2016) (arr_cf - 2048) (rd_array ver be maxArr).
Proof.
  unfold rd_array, arr_cf.
  eapply (G_bind' _ _ (-992) (16416 - 1024)); [apply G_rd_int | intro ety | kz | kz | kz].
  eapply (G_bind' (-1024) 0 32 16416); [ | intro n | lia | lia | lia].
  { destruct (ver =? 1); (eapply G_weaken; [apply G_rd_int | kz | kz]). }
  destruct (N.leb_spec two63 n) as [Hb|Hb].
  { apply G_fail'; [discriminate | lia]. }
  cbv zeta.
  set (coll := can_collect maxArr (Z.of_N n)).
  eapply (G_bind' 0 0 32 16416); [ | intros _ | lia | lia | lia].
  { destruct coll; [apply G_go_make; unfold prealloc; lia | apply G_ret'; lia]. }
  eapply (G_bind' _ 0 (Z.of_N (if coll then 0 else 0) - (if coll then 208 else 256) * Z.of_N n) 0);
    [apply G_alloc | intros _ | | | ].
  - eapply (G_bind' _ 0 0 0); [eapply (G_loop (if coll then -208 else -256) 0) | intro vs; (apply G_ret'; lia) | | | ].
    + intro acc. eapply (G_bind' (-256) 0 (if coll then 48 else 0) 0); [apply G_rd_elem | intro e | | | ].
      * destruct coll.
        -- apply G_alloc_ret; unfold elem_cost; lia.
        -- apply G_ret'; lia.
      * destruct coll; lia.
      * destruct coll; lia.
      * lia.
    + destruct coll; lia.
    + lia.
    + destruct coll; lia.
    + destruct coll; lia.
    + lia.
  - destruct coll; unfold prealloc; lia.
  - destruct coll; unfold prealloc; lia.
  - lia.
Qed.

Lemma G_rd_value ver be maxArr t : G (-256) (arr_cf - 2048) (rd_value ver be maxArr t).
Proof.
  unfold rd_value, arr_cf. destruct (num_width t) as [w|] eqn:Ew.
  - apply num_width_pos in Ew. eapply G_weaken; [apply G_rd_num; lia | lia | lia].
  - destruct (t =? 8).
    + eapply (G_bind' _ _ 0 0); [apply G_rd_string | intro; (apply G_ret'; lia) | lia | lia | lia].
    + destruct (t =? 9).
      * eapply G_weaken; [apply G_rd_array | lia | unfold arr_cf; lia].
      * apply G_fail'; [discriminate | lia].
Qed.

Definition kv_cf : Z := arr_cf - 2048 - 1536.

Lemma G_rd_kv ver be maxArr acc : G (-1728) kv_cf (rd_kv ver be maxArr acc).
Proof.
  unfold rd_kv, kv_cf, arr_cf.
  eapply (G_bind' _ _ (-1216) (16416 - 2048 - 1024)); [apply G_rd_string | intro k | lia | lia | lia].
  eapply (G_bind' _ _ (-192) (16416 - 2048)); [apply G_rd_int | intro t | kz | kz | kz].
  eapply (G_bind' _ _ 64 0); [apply G_rd_value | intro v | lia | unfold arr_cf; lia | unfold arr_cf; lia].
  apply G_alloc_ret; unfold kv_cost; lia.
Qed.

Lemma G_rd_tensor ver be acc : G (-4480) 0 (rd_tensor ver be acc).
Proof.
  unfold rd_tensor.
  eapply (G_bind' _ _ (-3968) 0); [apply G_rd_string | intro name | lia | lia | lia].
  eapply (G_bind' _ _ (-2944) 1024); [apply G_rd_int | intro dims | kz | kz | kz].
  eapply (G_bind' 0 0 (-2944) 1024); [apply G_go_make; lia | intros _ | lia | lia | lia].
  eapply (G_bind' _ 0 (-3072) 0); [apply G_alloc | intros _ | unfold tensor_cost; lia | unfold tensor_cost; lia | lia].
  eapply (G_bind' (-2032 * Z.of_N dims) 0 (-3072) 0 (-3072) 0).
  - eapply (G_loop (-2032) 0); [intro sh | lia | lia].
    eapply (G_bind' _ _ 16 0); [apply G_rd_int | intro d | kz | kz | kz].
    apply G_alloc_ret; lia.
  - intro shape.
    eapply (G_bind' _ _ (-2048) 0); [apply G_rd_int | intro kind | kz | kz | kz].
    eapply (G_bind' _ _ 0 0); [apply G_rd_int | intro off; (apply G_ret'; lia) | kz | kz | kz].
  - lia.
  - lia.
  - lia.
Qed.

Lemma G_rd_header maxArr : G (-4096) kv_cf (rd_header maxArr).
Proof.
  unfold rd_header. pose proof (eq_refl : kv_cf = 12832%Z) as Ekv.
  eapply (G_bind' _ _ (-3072) (kv_cf + 1024)); [apply G_rd_int | intro magic | kz | kz | kz].
  eapply (G_bind' 0 0 (-3072) (kv_cf + 1024)); [ | intro be | lia | lia | lia].
  { destruct (magic =? 1179993927); [apply G_ret'; lia|]. destruct (magic =? 1195857222); [(apply G_ret'; lia) | apply G_fail'; [discriminate | lia]]. }
  eapply (G_bind' _ _ (-2048) (kv_cf + 2048)); [apply G_rd_int | intro ver | kz | kz | kz].
  cbv zeta.
  eapply (G_bind' (-2048) 0 0 kv_cf); [ | intro cnt | lia | lia | lia].
  { eapply G_weaken; [apply G_take | destruct (ver =? 1); kz | lia]. }
  eapply (G_bind' 0 kv_cf 0 0); [ | intro kv | lia | lia | lia].
  { eapply G_weaken; [eapply (G_loop (-1728) kv_cf); [intro; apply G_rd_kv | lia | lia] | lia | lia]. }
  eapply (G_bind' 0 0 0 0); [ | intro ts; (apply G_ret'; lia) | lia | lia | lia].
  eapply G_weaken; [eapply (G_loop (-4480) 0); [intro; apply G_rd_tensor | lia | lia] | lia | lia].
Qed.

(** * the theorems about [decode] *)

Definition alloc_slack : N := 78368.   (* base_alloc + kv_cf *)

Theorem decode_from_total base bytes maxArr :
  match decode_from base bytes maxArr with
  | DPanic _ _ => False
  | DErr e _ => e <> EFuel
  | DOk _ _ => True
  end.
Proof.
  unfold decode_from. set (ma := if (maxArr =? 0)%Z then 1024%Z else maxArr).
  pose proof (G_rd_header ma bytes) as H.
  destruct (rd_header ma bytes) as [[[ver kv0] ts] rest al | e al | p al].
  - cbv zeta. set (a := Z.of_N _).
    destruct (Z.eqb_spec a 0) as [Ea|Ea]; [discriminate|].
    unfold go_pad_p. destruct (Z.eqb_spec a 0) as [Ea'|_]; [contradiction|].
    destruct (seek_tensors a _ ts); [exact I | discriminate].
  - exact (proj1 H).
  - exact H.
Qed.

Theorem decode_total bytes maxArr :
  match decode bytes maxArr with
  | DPanic _ _ => False
  | DErr e _ => e <> EFuel
  | DOk _ _ => True
  end.
Proof. apply decode_from_total. Qed.

Theorem decode_from_alloc_linear base bytes maxArr :
  d_alloc (decode_from base bytes maxArr) <= 256 * N.of_nat (length bytes) + alloc_slack.
Proof.
  unfold decode_from. set (ma := if (maxArr =? 0)%Z then 1024%Z else maxArr).
  pose proof (G_rd_header ma bytes) as H. pose proof (eq_refl : kv_cf = 12832%Z) as Ekv.
  unfold alloc_slack, base_alloc.
  destruct (rd_header ma bytes) as [[[ver kv0] ts] rest al | e al | p al].
  - destruct H as [Hl Hc]. unfold K, zlen in Hc. cbv zeta. set (a := Z.of_N _).
    destruct (a =? 0)%Z; [cbn [d_alloc]; lia|].
    destruct (go_pad_p _ a); [|cbn [d_alloc]; lia].
    destruct (seek_tensors a _ ts); cbn [d_alloc]; lia.
  - destruct H as [_ Hc]. unfold K, zlen in Hc. cbn [d_alloc]. lia.
  - destruct H.
Qed.

Theorem decode_alloc_linear bytes maxArr :
  d_alloc (decode bytes maxArr) <= 256 * N.of_nat (length bytes) + alloc_slack.
Proof. apply decode_from_alloc_linear. Qed.

(** ** progress: a successful decode ends at least 16 bytes after where it started (magic, version and counts were read,
    every seek over a tensor moves forward) - this is what makes the loop of server/create.go ggufLayers terminate *)
Lemma go_pad_nonneg pos al : (0 <= pos)%Z -> (0 < al)%Z -> (0 <= go_pad pos al)%Z.
Proof.
  intros Hp Ha. unfold go_pad. rewrite (Z.rem_mod_nonneg pos al) by lia.
  pose proof (Z.mod_pos_bound pos al Ha). rewrite Z.rem_mod_nonneg by lia. apply Z.mod_pos_bound. exact Ha.
Qed.

Lemma wrapZ64_cases z : (0 <= z < Z.of_N two64)%Z ->
  ((z < Z.of_N two63)%Z /\ wrapZ64 z = z) \/ ((Z.of_N two63 <= z)%Z /\ (wrapZ64 z < 0)%Z).
Proof.
  intro H. unfold wrapZ64. rewrite Z.mod_small by lia.
  destruct (Z.ltb_spec z (Z.of_N two63)); [left; split; [assumption | reflexivity] | right; split; [assumption | lia]].
Qed.

Lemma to_int64_lt n : (to_int64 n < Z.of_N two63)%Z.
Proof.
  unfold to_int64. pose proof (N.mod_lt n two64 ltac:(discriminate)).
  destruct (N.ltb_spec (n mod two64) two63); [lia|]. unfold two63, two64 in *. lia.
Qed.

Lemma seek_tensors_forward al ts : forall pos e,
  (0 < al <= Z.of_N two32)%Z -> (0 <= pos < Z.of_N two63)%Z -> seek_tensors al pos ts = Some e -> (pos <= e)%Z.
Proof.
  induction ts as [|t r IH]; intros pos e Ha Hp H; cbn [seek_tensors] in H.
  - inversion H. lia.
  - cbv zeta in H.
    pose proof (go_pad_nonneg pos al ltac:(lia) ltac:(lia)) as Hpad.
    assert (Hpadlt : (go_pad pos al < al)%Z).
    { unfold go_pad. rewrite (Z.rem_mod_nonneg pos al) by lia. pose proof (Z.mod_pos_bound pos al ltac:(lia)).
      rewrite Z.rem_mod_nonneg by lia. apply Z.mod_pos_bound. lia. }
    destruct (wrapZ64_cases (pos + go_pad pos al)) as [[H1 E1]|[H1 E1]]; [unfold two32, two63, two64 in *; lia | | ].
    2:{ destruct (Z.ltb_spec (wrapZ64 (pos + go_pad pos al)) 0); [discriminate | lia]. }
    rewrite E1 in H.
    destruct (Z.ltb_spec (pos + go_pad pos al) 0); [lia|].
    pose proof (to_int64_lt (tensor_size (ti_kind t) (ti_shape t))) as Hszlt.
    set (sz := to_int64 (tensor_size (ti_kind t) (ti_shape t))) in *.
    destruct (Z.ltb_spec sz 0) as [|Hsz]; [discriminate|].
    destruct (wrapZ64_cases (pos + go_pad pos al + sz)) as [[H2 E2]|[H2 E2]]; [unfold two32, two63, two64 in *; lia | | ].
    2:{ destruct (Z.ltb_spec (wrapZ64 (pos + go_pad pos al + sz)) 0); [discriminate | lia]. }
    rewrite E2 in H.
    destruct (Z.ltb_spec (pos + go_pad pos al + sz) 0); [lia|].
    assert (Hr : (0 <= pos + go_pad pos al + sz < Z.of_N two63)%Z) by lia.
    specialize (IH _ e Ha Hr H). lia.
Qed.

Theorem decode_from_progress base bytes maxArr d al :
  (0 <= base)%Z -> (base + Z.of_nat (length bytes) < Z.of_N two63)%Z ->
  decode_from base bytes maxArr = DOk d al -> (base + 16 <= d_end d)%Z.
Proof.
  intros Hb Hlen. unfold decode_from. set (ma := if (maxArr =? 0)%Z then 1024%Z else maxArr).
  pose proof (G_rd_header ma bytes) as H.
  destruct (rd_header ma bytes) as [[[ver kv0] ts] rest al0 | e al0 | p al0]; [|discriminate|discriminate].
  destruct H as [Hl Hc]. unfold K, zlen in Hc. cbv zeta. set (a := Z.of_N _).
  destruct (Z.eqb_spec a 0) as [|Ha]; [discriminate|].
  unfold go_pad_p. destruct (Z.eqb_spec a 0) as [|_]; [contradiction|].
  set (pos := (base + Z.of_nat (length bytes - length rest))%Z).
  assert (Ha32 : (0 < a <= Z.of_N two32)%Z).
  { unfold a in *. pose proof (N.mod_lt (kv_uint val_u32 ((k_param_count, VNum 10 (total_params ts)) :: kv0) k_alignment 32) two32 ltac:(discriminate)).
    unfold two32 in *. lia. }
  assert (Hpos : (base + 16 <= pos < Z.of_N two63)%Z) by (unfold pos; lia).
  clearbody pos a. clear Hl Hc Hlen. clearbody ma.
  destruct (seek_tensors a pos ts) as [e|] eqn:Es; [|discriminate].
  intro Hd.
  assert (Ee : e = d_end d) by exact (f_equal (fun r => match r with DOk x _ => d_end x | _ => 0%Z end) Hd).
  rewrite <- Ee. clear Hd Ee.
  apply seek_tensors_forward in Es; [lia | exact Ha32 | lia].
Qed.

Corollary decode_ok_or_error bytes maxArr :
  (exists d al, decode bytes maxArr = DOk d al) \/ (exists e al, decode bytes maxArr = DErr e al /\ e <> EFuel).
Proof.
  pose proof (decode_total bytes maxArr) as H.
  destruct (decode bytes maxArr) as [d al | e al | p al].
  - left. eauto.
  - right. eauto.
  - destruct H.
Qed.

(** ** the typed accessors create/show call never panic on a decoded KV *)
Lemma key_value_ok_default {T} (proj : val -> option T) m key d ds : is_ok (key_value proj m key (d :: ds)) = true.
Proof. unfold key_value. destruct (kv_get (key_for m key) m) as [v|]; [destruct (proj v)|]; reflexivity. Qed.

Theorem accessors_total base bytes maxArr d al :
  decode_from base bytes maxArr = DOk d al -> accessors_ok (d_kv d) = true.
Proof.
  unfold decode_from. destruct (rd_header _ bytes) as [[[ver kv0] ts] rest al0 | |]; [|discriminate|discriminate].
  cbv zeta. destruct (_ =? 0)%Z; [discriminate|]. destruct (go_pad_p _ _); [|discriminate].
  destruct (seek_tensors _ _ ts); [|discriminate]. intro H.
  assert (Ek : (k_param_count, VNum 10 (total_params ts)) :: kv0 = d_kv d) by exact (f_equal (fun r => match r with DOk x _ => d_kv x | _ => [] end) H).
  rewrite <- Ek. clear H Ek.
  unfold accessors_ok, r_architecture, r_kind, r_chat_template, r_file_type, r_parameter_count.
  rewrite !key_value_ok_default.
  assert (E4 : is_ok (match key_value val_u32 ((k_param_count, VNum 10 (total_params ts)) :: kv0) k_file_type [0] with
                      | AOk t => AOk (if 0 <? t then t else 33) | APanic p => APanic p end) = true).
  { pose proof (key_value_ok_default val_u32 ((k_param_count, VNum 10 (total_params ts)) :: kv0) k_file_type 0 []) as Hk.
    destruct (key_value val_u32 _ k_file_type [0]); [reflexivity | discriminate]. }
  rewrite E4. reflexivity.
Qed.

(** without the decoder's patch of general.parameter_count, ParameterCount does panic (it passes no default) *)
Lemma parameter_count_needs_decode : r_parameter_count [] = APanic PIndex.
Proof. reflexivity. Qed.

(** with at least one tensor the end offset is not before the tensor data offset *)
Theorem decode_from_end_ge_toff base bytes maxArr d al :
  (0 <= base)%Z -> (base + Z.of_nat (length bytes) < Z.of_N two63)%Z ->
  decode_from base bytes maxArr = DOk d al -> d_tensors d <> [] -> (Z.of_N (d_toff d) <= d_end d)%Z.
Proof.
  intros Hb Hlen. unfold decode_from. set (ma := if (maxArr =? 0)%Z then 1024%Z else maxArr).
  pose proof (G_rd_header ma bytes) as H.
  destruct (rd_header ma bytes) as [[[ver kv0] ts] rest al0 | e al0 | p al0]; [|discriminate|discriminate].
  destruct H as [Hl Hc]. cbv zeta. set (a := Z.of_N _).
  destruct (Z.eqb_spec a 0) as [|Ha]; [discriminate|].
  unfold go_pad_p. destruct (Z.eqb_spec a 0) as [|_]; [contradiction|].
  set (pos := (base + Z.of_nat (length bytes - length rest))%Z).
  assert (Ha32 : (0 < a <= Z.of_N two32)%Z).
  { unfold a in *. pose proof (N.mod_lt (kv_uint val_u32 ((k_param_count, VNum 10 (total_params ts)) :: kv0) k_alignment 32) two32 ltac:(discriminate)).
    unfold two32 in *. lia. }
  assert (Hpos : (0 <= pos < Z.of_N two63)%Z) by (unfold pos; lia).
  clearbody pos a. clear Hl Hc Hlen Hb.
  destruct (seek_tensors a pos ts) as [e|] eqn:Es; [|discriminate].
  intro Hd.
  assert (Ee : e = d_end d) by exact (f_equal (fun r => match r with DOk x _ => d_end x | _ => 0%Z end) Hd).
  assert (Et : ts = d_tensors d) by exact (f_equal (fun r => match r with DOk x _ => d_tensors x | _ => [] end) Hd).
  assert (Eo : wrap64 (Z.to_N ((pos + go_pad pos a) mod Z.of_N two64)) = d_toff d) by exact (f_equal (fun r => match r with DOk x _ => d_toff x | _ => 0 end) Hd).
  rewrite <- Ee, <- Et, <- Eo. clear Hd Ee Et Eo. intro Hne.
  destruct ts as [|t r]; [contradiction|]. cbn [seek_tensors] in Es. cbv zeta in Es.
  assert (Hp0 : (0 <= pos)%Z) by (destruct Hpos; assumption). assert (Ha0 : (0 < a)%Z) by (destruct Ha32; assumption).
  clearbody ma.
  pose proof (go_pad_nonneg pos a Hp0 Ha0) as Hpad.
  assert (Hpadlt : (go_pad pos a < a)%Z).
  { unfold go_pad. rewrite (Z.rem_mod_nonneg pos a) by lia. pose proof (Z.mod_pos_bound pos a ltac:(lia)).
    rewrite Z.rem_mod_nonneg by lia. apply Z.mod_pos_bound. lia. }
  destruct (wrapZ64_cases (pos + go_pad pos a)) as [[Hq1 E1]|[Hq1 E1]]; [unfold two32, two63, two64 in *; lia | | ].
  2:{ destruct (Z.ltb_spec (wrapZ64 (pos + go_pad pos a)) 0); [discriminate | lia]. }
  rewrite E1 in Es. destruct (Z.ltb_spec (pos + go_pad pos a) 0); [lia|].
  pose proof (to_int64_lt (tensor_size (ti_kind t) (ti_shape t))) as Hszlt.
  set (sz := to_int64 (tensor_size (ti_kind t) (ti_shape t))) in *.
  destruct (Z.ltb_spec sz 0) as [|Hsz]; [discriminate|].
  destruct (wrapZ64_cases (pos + go_pad pos a + sz)) as [[Hq2 E2]|[Hq2 E2]]; [unfold two32, two63, two64 in *; lia | | ].
  2:{ destruct (Z.ltb_spec (wrapZ64 (pos + go_pad pos a + sz)) 0); [discriminate | lia]. }
  rewrite E2 in Es. destruct (Z.ltb_spec (pos + go_pad pos a + sz) 0); [lia|].
  assert (Hr : (0 <= pos + go_pad pos a + sz < Z.of_N two63)%Z) by lia.
  pose proof (seek_tensors_forward a r _ e Ha32 Hr Es) as Hfw.
  rewrite Z.mod_small by (unfold two32, two63, two64 in *; lia).
  rewrite wrap64_small by (unfold two32, two63, two64 in *; lia).
  rewrite Z2N.id by lia. lia.
Qed.

(** ** array accessors (load path): not total on decoded KVs; total when the array was collected and its elements have the asserted type *)
Definition array_accessors_total_full : Prop :=
  forall base bytes maxArr d al key, decode_from base bytes maxArr = DOk d al -> is_ok (r_strings (d_kv d) key) = true.

(** witness: one key/value tokenizer.ggml.tokens = int32 array [1] *)
Definition wit_tokens_i32 : list N :=
  [71;71;85;70; 3;0;0;0; 0;0;0;0;0;0;0;0; 1;0;0;0;0;0;0;0; 21;0;0;0;0;0;0;0] ++ k_tokens ++ [9;0;0;0; 5;0;0;0; 1;0;0;0;0;0;0;0; 1;0;0;0].

Lemma array_accessors_total_refuted : ~ array_accessors_total_full.
Proof.
  intro H. destruct (decode_from 0 wit_tokens_i32 0) as [d al| |] eqn:E; [|vm_compute in E; discriminate|vm_compute in E; discriminate].
  specialize (H 0%Z wit_tokens_i32 0%Z d al k_tokens E). vm_compute in E. inversion E; subst d. vm_compute in H. discriminate.
Qed.

Definition collected_typed {T} (proj : val -> option T) (m : kvs) (key : str) : Prop :=
  match kv_get (key_for m key) m with
  | Some (VArr n (Some vs)) => Forall (fun v => proj v <> None) vs
  | Some (VArr n None) => n = 0
  | _ => True
  end.

Lemma arr_elems_partial {T} (proj : val -> option T) m key : collected_typed proj m key -> is_ok (arr_elems proj m key) = true.
Proof.
  unfold collected_typed, arr_elems. destruct (kv_get (key_for m key) m) as [[| |n [vs|]]|]; try reflexivity.
  - induction 1 as [|v r Hv _ IH]; [reflexivity|]. destruct (proj v); [|contradiction].
    destruct ((fix go (l : list val) : ares (list T) := match l with [] => AOk [] | v0 :: r0 => match proj v0 with None => APanic PAssert
              | Some x => match go r0 with AOk xs => AOk (x :: xs) | APanic p => APanic p end end end) r); [reflexivity | discriminate].
  - intros ->. reflexivity.
Qed.
