(** Arithmetic facts used by the C05 / C10 proofs: little-endian codec, wrap, int64 conversion, padding. *)
From Coq Require Import List NArith ZArith Bool Arith Lia ZifyBool ZifyNat ZifyN.
From V Require Import Common.Bytes Gguf.Model.
Import ListNotations.
Open Scope N_scope.

Lemma le_length k n : length (le k n) = k.
Proof. revert n; induction k as [|k IH]; intro n; cbn [le length]; [reflexivity | now rewrite IH]. Qed.

Lemma unle_le k n : unle (le k n) = n mod 256 ^ N.of_nat k.
Proof.
  revert n; induction k as [|k IH]; intro n.
  - cbn [le unle]. change (N.of_nat 0) with 0. rewrite N.pow_0_r, N.mod_1_r. reflexivity.
  - cbn [le unle]. rewrite IH. rewrite Nat2N.inj_succ, N.pow_succ_r'.
    rewrite N.mod_mul_r by (try apply N.pow_nonzero; lia). lia.
Qed.

Lemma unle_le_small k n : n < 256 ^ N.of_nat k -> unle (le k n) = n.
Proof. intro H. rewrite unle_le. apply N.mod_small, H. Qed.

Lemma pow256_4 : 256 ^ N.of_nat 4 = two32. Proof. reflexivity. Qed.
Lemma pow256_8 : 256 ^ N.of_nat 8 = two64. Proof. reflexivity. Qed.
Lemma pow256_1 : 256 ^ N.of_nat 1 = 256. Proof. reflexivity. Qed.

Lemma two63_lt_two64 : two63 < two64. Proof. reflexivity. Qed.

Lemma wrap64_small n : n < two64 -> wrap64 n = n.
Proof. intro H. apply N.mod_small, H. Qed.

Lemma wrap64_lt n : wrap64 n < two64.
Proof. apply N.mod_lt. discriminate. Qed.

Lemma to_int64_small n : n < two63 -> to_int64 n = Z.of_N n.
Proof.
  intro H. unfold to_int64. assert (H2 : n < two64) by (pose proof two63_lt_two64; lia).
  rewrite (N.mod_small _ _ H2). destruct (N.ltb_spec n two63); [reflexivity | lia].
Qed.

Lemma to_int64_neg n : two63 <= n -> n < two64 -> (to_int64 n < 0)%Z.
Proof.
  intros H1 H2. unfold to_int64. rewrite (N.mod_small _ _ H2).
  destruct (N.ltb_spec n two63); [lia|]. unfold two64 in *. lia.
Qed.

Lemma wrapZ64_small z : (0 <= z < Z.of_N two63)%Z -> wrapZ64 z = z.
Proof.
  intros [H1 H2]. unfold wrapZ64. assert (H3 : (z < Z.of_N two64)%Z) by (unfold two63, two64 in *; lia).
  rewrite Z.mod_small by lia. destruct (Z.ltb_spec z (Z.of_N two63)); [reflexivity | lia].
Qed.

(** ** padding *)

Definition padN (x a : N) : N := (a - x mod a) mod a.

Lemma padN_lt x a : 0 < a -> padN x a < a.
Proof. intro H. unfold padN. apply N.mod_lt. lia. Qed.

Lemma padN_aligned x a : 0 < a -> (x + padN x a) mod a = 0.
Proof.
  intro H. unfold padN.
  assert (Hm : x mod a < a) by (apply N.mod_lt; lia).
  destruct (N.eq_dec (x mod a) 0) as [E|E].
  - rewrite E, N.sub_0_r, N.mod_same, N.add_0_r by lia. exact E.
  - rewrite (N.mod_small (a - x mod a)) by lia.
    rewrite (N.div_mod x a) at 1 by lia.
    replace (a * (x / a) + x mod a + (a - x mod a)) with ((1 + x / a) * a) by lia.
    apply N.mod_mul. lia.
Qed.

Lemma padN_shift base x a : 0 < a -> base mod a = 0 -> padN (base + x) a = padN x a.
Proof.
  intros H Hb. unfold padN. f_equal. f_equal.
  rewrite N.add_mod by lia. rewrite Hb, N.add_0_l. apply N.mod_mod. lia.
Qed.

Lemma padN_of_aligned x a : 0 < a -> x mod a = 0 -> padN x a = 0.
Proof. intros H E. unfold padN. rewrite E, N.sub_0_r. apply N.mod_same. lia. Qed.

Lemma go_pad_N x a : 0 < a -> go_pad (Z.of_N x) (Z.of_N a) = Z.of_N (padN x a).
Proof.
  intro H. unfold go_pad, padN.
  assert (Hm : x mod a < a) by (apply N.mod_lt; lia).
  rewrite (Z.rem_mod_nonneg (Z.of_N x)) by lia.
  rewrite <- N2Z.inj_mod. rewrite <- N2Z.inj_sub by lia.
  rewrite Z.rem_mod_nonneg by lia.
  rewrite <- N2Z.inj_mod. reflexivity.
Qed.

Lemma pad64_N s a : 0 < a -> s < two63 -> a < two64 -> pad64 s a = padN s a.
Proof.
  intros H Hs Ha. unfold pad64. rewrite to_int64_small by exact Hs. rewrite go_pad_N by exact H.
  pose proof (padN_lt s a H) as Hp.
  rewrite Z.mod_small by (unfold two64 in *; lia).
  rewrite N2Z.id. apply wrap64_small. lia.
Qed.

(** ** parameters: the uint64 product does not depend on the order of the dimensions *)

Definition prod (l : list N) : N := fold_right N.mul 1 l.

Lemma parameters_gen l c : fold_left (fun c n => wrap64 (c * n)) l c = (c * prod l) mod two64 \/ l = [] /\ fold_left (fun c n => wrap64 (c * n)) l c = c.
Proof.
  revert c; induction l as [|x l IH]; intro c.
  - right. split; reflexivity.
  - left. cbn [fold_left prod fold_right]. destruct (IH (wrap64 (c * x))) as [E|[E1 E2]].
    + rewrite E. unfold wrap64, prod. rewrite N.mul_mod_idemp_l by discriminate. f_equal. lia.
    + subst l. cbn [fold_left prod fold_right]. unfold wrap64. f_equal. lia.
Qed.

Lemma parameters_prod l : parameters l = prod l mod two64.
Proof.
  unfold parameters. destruct (parameters_gen l 1) as [E|[E1 E2]].
  - rewrite E. f_equal. lia.
  - subst l. reflexivity.
Qed.

Lemma prod_app a b : prod (a ++ b) = prod a * prod b.
Proof. unfold prod. induction a as [|x a IH]; cbn [app fold_right]; [lia|]. rewrite IH. lia. Qed.

Lemma prod_rev l : prod (rev l) = prod l.
Proof. induction l as [|x l IH]; [reflexivity|]. cbn [rev]. rewrite prod_app, IH. unfold prod. cbn [fold_right]. lia. Qed.

Lemma parameters_rev l : parameters (rev l) = parameters l.
Proof. rewrite !parameters_prod, prod_rev. reflexivity. Qed.

Lemma tensor_size_rev k l : tensor_size k (rev l) = tensor_size k l.
Proof. unfold tensor_size. rewrite parameters_rev. reflexivity. Qed.

Lemma block_size_pos k : 0 < block_size k.
Proof.
  unfold block_size.
  repeat match goal with |- context [match ?x with _ => _ end] => destruct x; try lia end.
Qed.

Lemma tensor_size_lt k l : tensor_size k l < two64.
Proof.
  unfold tensor_size. pose proof (block_size_pos k). pose proof (wrap64_lt (parameters l * type_size k)).
  eapply N.le_lt_trans; [|exact H0]. apply N.div_le_upper_bound; [lia|]. nia.
Qed.
