(** Property C05 - a GGUF file written by WriteGGUF decodes to the same metadata, tensors and tensor bytes.
    Theorems only (proofs in RoundTripKV.v / RoundTrip.v).

    [write_gguf true block kv ts] is the byte string ggml.WriteGGUF writes (with fixes/C05-offsets.patch) for the
    key/value map [kv] (a Go map: distinct keys) and the tensors [ts], [block] being Tensor.block (any function: the
    sort key of the stable sort); [decode bytes maxArr] is ggml.Decode.  All statements hold
      - for every key/value list over the value types ggufWriteKV supports (wf_wval: numbers within uint32),
      - every tensor list (any count, names, kinds, shapes - wf_tensor: kind/dimension count within uint32, dimensions
        within uint64) whose data has Size() bytes ([sized]),
      - every alignment > 0 (general.alignment, default 32), every maxArraySize,
      - files shorter than 2^63 bytes (Go's int64 offsets). *)
From Coq Require Import List NArith ZArith Bool Permutation.
From V Require Import Common.Bytes Gguf.Model Gguf.Arith Gguf.RoundTripKV Gguf.RoundTrip Gguf.Final.
Import ListNotations.
Open Scope N_scope.

(** [wf_input kv ts] (Final.v): keys distinct, values/kinds/dimensions within their Go types, every tensor's data has
    Size() bytes, alignment > 0.  [written_order block ts] = the order the stable sort leaves (Final.v). *)

(** decoding succeeds, and the decoded map is the written map plus the patched-in parameter count - for every
    supported value type, empty strings/arrays included; arrays longer than maxArraySize keep their size only ([clip]) *)
Theorem C05_kv_roundtrip : forall block kv ts maxArr,
  wf_input kv ts -> small (write_gguf true block kv ts) ->
  exists d al, decode (write_gguf true block kv ts) maxArr = DOk d al /\
    forall k, kv_get k (d_kv d) =
      if eqb_str k k_param_count then Some (VNum 10 (wparams ts))
      else option_map (fun v => clip (eff_max maxArr) (val_of_wval v)) (kv_get k kv).
Proof. exact kv_roundtrip. Qed.
Print Assumptions C05_kv_roundtrip.

(** tensor names, kinds and dimension-reversed shapes, in the writer's order (a permutation of the input) *)
Theorem C05_tensor_meta_roundtrip : forall block kv ts maxArr,
  wf_input kv ts -> small (write_gguf true block kv ts) ->
  exists d al, decode (write_gguf true block kv ts) maxArr = DOk d al /\
    Permutation ts (written_order block ts) /\
    map ti_name (d_tensors d) = map t_name (written_order block ts) /\
    map ti_kind (d_tensors d) = map t_kind (written_order block ts) /\
    map ti_shape (d_tensors d) = map (fun t => rev (t_shape t)) (written_order block ts).
Proof. exact tensor_meta_roundtrip. Qed.
Print Assumptions C05_tensor_meta_roundtrip.

(** for every tensor (position i in the writer's order): the bytes found at Tensors().Offset + tensor.Offset are exactly
    the bytes written, and that position is a multiple of the alignment *)
Theorem C05_tensor_bytes_at_offset : forall block kv ts maxArr,
  wf_input kv ts -> small (write_gguf true block kv ts) ->
  exists d al, decode (write_gguf true block kv ts) maxArr = DOk d al /\
    forall i t ti, nth_error (written_order block ts) i = Some t -> nth_error (d_tensors d) i = Some ti ->
      let at_ := d_toff d + ti_offset ti in
      firstn (length (t_data t)) (skipn (N.to_nat at_) (write_gguf true block kv ts)) = t_data t /\
      at_ mod walign kv = 0.
Proof. exact tensor_bytes_at_offset. Qed.
Print Assumptions C05_tensor_bytes_at_offset.

(** the end offset reported by the decoder is the file length *)
Theorem C05_end_offset : forall block kv ts maxArr,
  wf_input kv ts -> small (write_gguf true block kv ts) ->
  exists d al, decode (write_gguf true block kv ts) maxArr = DOk d al /\
    d_end d = Z.of_nat (length (write_gguf true block kv ts)).
Proof. exact end_offset. Qed.
Print Assumptions C05_end_offset.

(** non-vacuity of the hypotheses: the three-tensor witness of the offset defect (F32 tensors of 1, 7 and 1 elements,
    sizes 4, 28, 4 - not multiples of the alignment 8), one block-numbered name, an alignment key and every value type *)
Example C05_hypotheses_satisfiable : wf_input wit_kv wit_ts /\ small (write_gguf true wit_block wit_kv wit_ts).
Proof. exact hypotheses_satisfiable. Qed.

(** the code before fixes/C05-offsets.patch ([fixed = false]: s += t.Size()) does NOT have the property
    ([C05_tensor_bytes_unrepaired_full], Final.v): on the witness [wit3] the third tensor is recorded at data offset 32,
    where the second tensor's bytes are *)
Theorem C05_tensor_bytes_unrepaired_refuted : ~ C05_tensor_bytes_unrepaired_full.
Proof. exact tensor_bytes_unrepaired_refuted. Qed.
Print Assumptions C05_tensor_bytes_unrepaired_refuted.
