(** Property C05 - a GGUF file written by WriteGGUF decodes to the same metadata, tensors and tensor bytes.
    Theorems only. *)
From Coq Require Import List NArith ZArith Bool.
From V Require Import Common.Bytes Gguf.Model.
Import ListNotations.
Open Scope N_scope.

(** the three-tensor witness of the offset defect: F32 tensors of 1, 7 and 1 elements, alignment 32 *)
Definition wit_ts : list tensor :=
  [mkT [97] 0 [1] [1;2;3;4]; mkT [98] 0 [7] (repeat 170 28); mkT [99] 0 [1] [5;6;7;8]].

(** the code before fixes/C05-offsets.patch ([fixed = false]) records offset 32 for the third tensor, where the
    second tensor's bytes are *)
Theorem C05_orig_offsets_refuted :
  offsets false 32 0 wit_ts = [0; 32; 32] /\ offsets true 32 0 wit_ts = [0; 32; 64].
Proof. vm_compute. split; reflexivity. Qed.
Print Assumptions C05_orig_offsets_refuted.
