(** Property C05 - a GGUF file written by WriteGGUF decodes to the same metadata, tensors and tensor bytes.
    Theorems only (proofs in RoundTripKV.v / RoundTrip.v).

    [write_gguf true block kv ts] is the byte string ggml.WriteGGUF writes (with fixes/C05-offsets.patch) for the
    key/value map [kv] (a Go map: distinct keys) and the tensors [ts], [block] being Tensor.block (any function: the
    sort key of the stable sort); [decode bytes maxArr] is ggml.Decode.  All statements hold
      - for every key/value list over the value types ggufWriteKV supports (wf_wval: numbers within uint32),
      - every tensor list (any count, names, kinds, shapes - wf_tensor: kind/dimension count within uint32, dimensions
        within uint64) whose data has Size() bytes ([sized]),
      - every alignment > 0 (general.alignment, default 32), every maxArraySize,
      - files shorter than 2^63 bytes (Go's int64 offsets). *)
From Coq Require Import List NArith ZArith Bool Permutation.
From Coq Require Import Sorting.Sorted.
From V Require Import Common.Bytes Gguf.Model Gguf.Arith Gguf.RoundTripKV Gguf.RoundTrip Gguf.Final Gguf.Order Gguf.Tables Gguf.SeekerModel Gguf.Seeker.
Import ListNotations.
Open Scope N_scope.

(** [wf_input kv ts] (Final.v): keys distinct, values/kinds/dimensions within their Go types, every tensor's data has
    Size() bytes, alignment > 0.  [written_order block ts] = the order the stable sort leaves (Final.v). *)

(** decoding succeeds, and the decoded map is the written map plus the patched-in parameter count - for every
    supported value type, empty strings/arrays included; arrays longer than maxArraySize keep their size only ([clip]) *)
Theorem C05_kv_roundtrip : forall block kv ts maxArr,
  wf_input kv ts -> small (write_gguf true block kv ts) ->
  exists d al, decode (write_gguf true block kv ts) maxArr = DOk d al /\
    forall k, kv_get k (d_kv d) =
      if eqb_str k k_param_count then Some (VNum 10 (wparams ts))
      else option_map (fun v => clip (eff_max maxArr) (val_of_wval v)) (kv_get k kv).
Proof. exact kv_roundtrip. Qed.
Print Assumptions C05_kv_roundtrip.

(** tensor names, kinds and dimension-reversed shapes, in the writer's order (a permutation of the input) *)
Theorem C05_tensor_meta_roundtrip : forall block kv ts maxArr,
  wf_input kv ts -> small (write_gguf true block kv ts) ->
  exists d al, decode (write_gguf true block kv ts) maxArr = DOk d al /\
    Permutation ts (written_order block ts) /\
    map ti_name (d_tensors d) = map t_name (written_order block ts) /\
    map ti_kind (d_tensors d) = map t_kind (written_order block ts) /\
    map ti_shape (d_tensors d) = map (fun t => rev (t_shape t)) (written_order block ts).
Proof. exact tensor_meta_roundtrip. Qed.
Print Assumptions C05_tensor_meta_roundtrip.

(** for every tensor (position i in the writer's order): the bytes found at Tensors().Offset + tensor.Offset are exactly
    the bytes written, and that position is a multiple of the alignment *)
Theorem C05_tensor_bytes_at_offset : forall block kv ts maxArr,
  wf_input kv ts -> small (write_gguf true block kv ts) ->
  exists d al, decode (write_gguf true block kv ts) maxArr = DOk d al /\
    forall i t ti, nth_error (written_order block ts) i = Some t -> nth_error (d_tensors d) i = Some ti ->
      let at_ := d_toff d + ti_offset ti in
      firstn (length (t_data t)) (skipn (N.to_nat at_) (write_gguf true block kv ts)) = t_data t /\
      at_ mod walign kv = 0.
Proof. exact tensor_bytes_at_offset. Qed.
Print Assumptions C05_tensor_bytes_at_offset.

(** the end offset reported by the decoder is the file length *)
Theorem C05_end_offset : forall block kv ts maxArr,
  wf_input kv ts -> small (write_gguf true block kv ts) ->
  exists d al, decode (write_gguf true block kv ts) maxArr = DOk d al /\
    d_end d = Z.of_nat (length (write_gguf true block kv ts)).
Proof. exact end_offset. Qed.
Print Assumptions C05_end_offset.

(** non-vacuity of the hypotheses: the three-tensor witness of the offset defect (F32 tensors of 1, 7 and 1 elements,
    sizes 4, 28, 4 - not multiples of the alignment 8), one block-numbered name, an alignment key and every value type *)
Example C05_hypotheses_satisfiable : wf_input wit_kv wit_ts /\ small (write_gguf true wit_block wit_kv wit_ts).
Proof. exact hypotheses_satisfiable. Qed.

(** the code before fixes/C05-offsets.patch ([fixed = false]: s += t.Size()) does NOT have the property
    ([C05_tensor_bytes_unrepaired_full], Final.v): on the witness [wit3] the third tensor is recorded at data offset 32,
    where the second tensor's bytes are *)
Theorem C05_tensor_bytes_unrepaired_refuted : ~ C05_tensor_bytes_unrepaired_full.
Proof. exact tensor_bytes_unrepaired_refuted. Qed.
Print Assumptions C05_tensor_bytes_unrepaired_refuted.

(** * the written order, for any number of tensors *)

(** WriteGGUF's sort (modelled as the insertion sort Go runs on up to 20 elements) leaves a permutation sorted by the block
    comparator - for ANY tensor count and ANY block function - whenever the comparator is a consistent order on the block numbers
    present, i.e. unless negative (no block), zero and positive block numbers all occur ([consistent], Order.v).  A stable sort is
    then determined by the comparator, so the result does not depend on the algorithm. *)
Theorem C05_order_sorted : forall (block : tensor -> Z) (ts : list tensor),
  consistent (map block ts) ->
  Permutation ts (sort_ts block ts) /\ StronglySorted (fun a b => (cmp_block (block a) (block b) <= 0)%Z) (sort_ts block ts).
Proof. exact order_sorted. Qed.
Print Assumptions C05_order_sorted.

(** the full statement - the comparator orders any block numbers - is false of the real comparator: a tensor without block
    number sorts before blk.0, blk.0 before blk.1, and blk.1 before the tensor without block number (so with all three kinds
    present "sorted" is not even well defined and the result depends on the sorting algorithm; the round-trip theorems above hold
    for every order) *)
Definition C05_comparator_transitive_full : Prop := comparator_transitive_full.   (* forall i j k, cmp i j <= 0 -> cmp j k <= 0 -> cmp i k <= 0 *)
Theorem C05_comparator_transitive_refuted : ~ C05_comparator_transitive_full.
Proof. exact comparator_not_transitive. Qed.
Print Assumptions C05_comparator_transitive_refuted.
Theorem C05_comparator_transitive_partial : forall bs i j k, consistent bs -> In i bs -> In j bs -> In k bs ->
  (cmp_block i j <= 0 -> cmp_block j k <= 0 -> cmp_block i k <= 0)%Z.
Proof. exact cmp_trans. Qed.
Print Assumptions C05_comparator_transitive_partial.
(** ... with real names and the Sscanf model of Tensor.block: token_embd.weight < blk.0.w < blk.1.w < token_embd.weight *)
Example C05_real_names_cycle :
  (cmp_block (block_of n_embd) (block_of n_blk0) < 0 /\ cmp_block (block_of n_blk0) (block_of n_blk1) < 0 /\
   cmp_block (block_of n_blk1) (block_of n_embd) < 0)%Z.
Proof. exact real_comparator_inconsistent. Qed.

(** Tensor.block (the model of fmt.Sscanf(name, "blk.%d.", &n)): a name "blk." ++ decimal digits ++ "." ++ anything has the block
    number its digits spell, when that fits an int64 *)
Theorem C05_block_canonical : forall d rest,
  d <> [] -> all_digits d -> (dec_value d < Z.of_N two63)%Z -> block_of (s_blk ++ d ++ 46 :: rest) = dec_value d.
Proof. exact block_of_canonical. Qed.
Print Assumptions C05_block_canonical.

(** * fs/ggml/type.go and the size tables *)
Theorem C05_file_type_roundtrip : forall t s, In (t, s) file_type_names -> parse_file_type s = Some t /\ file_type_name t = s.
Proof. exact file_type_roundtrip. Qed.
Print Assumptions C05_file_type_roundtrip.
Theorem C05_file_type_unknown : forall t, 33 <= t -> file_type_name t = s_unknown_ft.
Proof. exact file_type_name_unknown. Qed.
Print Assumptions C05_file_type_unknown.
Theorem C05_unknown_kind_size_zero : forall k shape, 31 <= k -> tensor_size k shape = 0.
Proof. exact tensor_size_unknown. Qed.
Print Assumptions C05_unknown_kind_size_zero.

(** * fs/util/bufioutil/buffer_seeker.go: Seek on the buffered seeker (which compensates SeekCurrent for what bufio has
    prefetched, in wrapping int64 arithmetic) is Seek on the logical position, whatever was prefetched; prefetching does not
    move the logical position *)
Theorem C05_buffered_seek_refines : forall data c off w,
  let '(c', r) := c_seek data c off w in
  let '(p', r') := abs_step data (c_abs c) (SSeek off w) in
  r = r' /\ c_abs c' = p' /\ (c_inv data c -> c_inv data c').
Proof. exact seek_refines. Qed.
Print Assumptions C05_buffered_seek_refines.
Theorem C05_prefetch_keeps_position : forall data c m,
  c_inv data c -> c_abs (c_fill data c m) = c_abs c /\ c_inv data (c_fill data c m).
Proof. exact fill_refines. Qed.
Print Assumptions C05_prefetch_keeps_position.
