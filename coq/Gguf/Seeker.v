(** buffer_seeker.go: the concrete seeker refines the logical-position model. *)
From Coq Require Import List NArith ZArith Bool Arith Lia ZifyBool ZifyNat ZifyN.
From V Require Import Common.Bytes Gguf.Model Gguf.SeekerModel.
Import ListNotations.
Open Scope Z_scope.

Lemma wrapZ64_mod z : wrapZ64 z mod Z.of_N two64 = z mod Z.of_N two64.
Proof.
  unfold wrapZ64. destruct (Z.ltb_spec (z mod Z.of_N two64) (Z.of_N two63)).
  - apply Z.mod_mod. discriminate.
  - rewrite <- (Z.mod_add _ 1) by discriminate. replace (z mod Z.of_N two64 - Z.of_N two64 + 1 * Z.of_N two64) with (z mod Z.of_N two64) by lia.
    apply Z.mod_mod. discriminate.
Qed.

Lemma wrapZ64_congr a b : a mod Z.of_N two64 = b mod Z.of_N two64 -> wrapZ64 a = wrapZ64 b.
Proof. intro H. unfold wrapZ64. rewrite H. reflexivity. Qed.

(** int64 arithmetic is a ring: compensating for the buffered bytes and then seeking lands where the logical seek lands *)
Lemma wrap_compensate u b off : wrapZ64 (u + wrapZ64 (off - b)) = wrapZ64 ((u - b) + off).
Proof.
  apply wrapZ64_congr. rewrite Z.add_mod by discriminate. rewrite wrapZ64_mod. rewrite <- Z.add_mod by discriminate. f_equal. lia.
Qed.

(** Seek on the concrete state = Seek on the logical position, whatever has been prefetched *)
Theorem seek_refines data c off w :
  let '(c', r) := c_seek data c off w in
  let '(p', r') := abs_step data (c_abs c) (SSeek off w) in
  r = r' /\ c_abs c' = p' /\ (c_inv data c -> c_inv data c').
Proof.
  unfold c_seek, abs_step, c_abs.
  assert (E : seek_target (zlen data) (cu c) (if (w =? 1)%N then wrapZ64 (off - zlen (cbuf c)) else off) w
              = seek_target (zlen data) (cu c - zlen (cbuf c)) off w).
  { unfold seek_target. destruct w as [|[| |]]; try reflexivity. cbn [N.eqb Pos.eqb]. apply wrap_compensate. }
  rewrite E. destruct (Z.ltb_spec (seek_target (zlen data) (cu c - zlen (cbuf c)) off w) 0).
  - split; [reflexivity | split; [reflexivity | intro Hi; exact Hi]].
  - split; [reflexivity|]. split.
    + cbn [cu cbuf]. unfold zlen in *. cbn [length]. lia.
    + intros _. unfold c_inv, c_abs. cbn [cu cbuf]. unfold zlen in *. cbn [length firstn]. split; [lia | reflexivity].
Qed.

Lemma firstn_add {A} (b k : nat) (s : list A) : firstn (b + k) s = firstn b s ++ firstn k (skipn b s).
Proof.
  revert s; induction b as [|b IH]; intro s; [reflexivity|]. destruct s as [|x s]; [cbn; now rewrite firstn_nil|].
  cbn [Nat.add firstn skipn app]. rewrite IH. reflexivity.
Qed.

Lemma skipn_plus {A} (p b : nat) (l : list A) : skipn (b + p) l = skipn b (skipn p l).
Proof.
  revert l; induction p as [|p IH]; intro l; [now rewrite Nat.add_0_r|].
  rewrite Nat.add_succ_r. destruct l as [|x l]; [now rewrite !skipn_nil|]. cbn [skipn]. apply IH.
Qed.

Lemma firstn_len_firstn {A} (m : nat) (l : list A) : firstn (length (firstn m l)) l = firstn m l.
Proof.
  rewrite firstn_length. destruct (Nat.le_ge_cases m (length l)) as [H|H].
  - rewrite Nat.min_l by exact H. reflexivity.
  - rewrite Nat.min_r by exact H. rewrite firstn_all, firstn_all2 by exact H. reflexivity.
Qed.

(** prefetching does not move the logical position and keeps the buffer equal to the data at that position *)
Theorem fill_refines data c m : c_inv data c -> c_abs (c_fill data c m) = c_abs c /\ c_inv data (c_fill data c m).
Proof.
  intros [H0 Hb]. unfold c_fill, c_abs, zlen in *. cbn [cu cbuf]. rewrite app_length.
  set (pre := firstn m (skipn (Z.to_nat (cu c)) data)).
  split; [lia|]. unfold c_inv, c_abs, zlen. cbn [cu cbuf]. rewrite app_length. split; [lia|].
  replace (Z.to_nat (cu c + Z.of_nat (length pre) - Z.of_nat (length (cbuf c) + length pre))) with (Z.to_nat (cu c - Z.of_nat (length (cbuf c)))) by lia.
  set (p := Z.to_nat (cu c - Z.of_nat (length (cbuf c)))) in *.
  assert (Ecu : Z.to_nat (cu c) = (length (cbuf c) + p)%nat) by lia.
  rewrite firstn_add. rewrite <- Hb. f_equal.
  unfold pre. rewrite Ecu, skipn_plus. symmetry. apply firstn_len_firstn.
Qed.

(** a read served from the buffer returns the data at the logical position and advances it *)
Theorem read_buffered_refines data c k :
  c_inv data c -> (k <= length (cbuf c))%nat ->
  let '(c', bytes) := c_read_buffered c k in
  bytes = firstn k (skipn (Z.to_nat (c_abs c)) data) /\ c_abs c' = c_abs c + Z.of_nat k.
Proof.
  intros [H0 Hb] Hk. unfold c_read_buffered, c_abs, zlen in *. cbn [cu cbuf]. split.
  - rewrite Hb at 1. rewrite firstn_firstn. f_equal. lia.
  - rewrite skipn_length. lia.
Qed.
