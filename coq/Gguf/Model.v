(** Executable model of fs/ggml/gguf.go (WriteGGUF, gguf.Decode and its readers), fs/ggml/ggml.go (Decode,
    Tensor.Size/typeSize/blockSize, keyValue) and fs/util/bufioutil/buffer_seeker.go (position arithmetic).

    Definitions only.  Bytes are [N]; byte strings are [list N] ([str]).  The model describes the code WITH the
    repairs of fixes/C05-offsets.patch and fixes/C10-decoder-guards.patch applied ([fixed = true] selects the
    repaired offset accumulation of WriteGGUF; the decoder is the guarded one).

    Go semantics carried explicitly: fixed-width wrap (uint64 products, uint64 -> int conversion), io.EOF vs
    io.ErrUnexpectedEOF, panics of the primitive operations (slice bounds, make, division by zero) as [RPanic],
    and an allocation meter (every make / buffer growth / boxed value adds the number of bytes it requests). *)
From Coq Require Import List NArith ZArith Bool Arith.
From V Require Import Common.Bytes.
Import ListNotations.
Open Scope N_scope.

(** * Integers *)

Definition two64 : N := 18446744073709551616.
Definition two63 : N := 9223372036854775808.
Definition two32 : N := 4294967296.
Definition wrap64 (n : N) : N := n mod two64.

(** [int64(x)] for a uint64 [x] *)
Definition to_int64 (n : N) : Z :=
  let m := n mod two64 in
  if m <? two63 then Z.of_N m else (Z.of_N m - Z.of_N two64)%Z.

(** wrap a mathematical integer into int64 (Go signed overflow wraps) *)
Definition wrapZ64 (z : Z) : Z :=
  let m := (z mod Z.of_N two64)%Z in
  if (m <? Z.of_N two63)%Z then m else (m - Z.of_N two64)%Z.

(** little endian, k bytes *)
Fixpoint le (k : nat) (n : N) : list N :=
  match k with
  | O => []
  | S k' => (n mod 256) :: le k' (n / 256)
  end.

Fixpoint unle (l : list N) : N :=
  match l with
  | [] => 0
  | b :: t => b + 256 * unle t
  end.

Definition unbe (l : list N) : N := unle (rev l).

(** * Outcomes *)

Inductive err := EEof | EUEof | EMagic | EType | EArrType | ELen | ESeek | EAlign | EFuel.
Inductive pan := PSlice | PMake | PIndex | PDivZero | PAssert | PTruncate.

(** reader result: value, remaining input, bytes of allocation requested by this computation *)
Inductive R (A : Type) :=
| ROk (a : A) (rest : list N) (al : N)
| RErr (e : err) (al : N)
| RPanic (p : pan) (al : N).
Arguments ROk {A}. Arguments RErr {A}. Arguments RPanic {A}.

Definition M (A : Type) := list N -> R A.

Definition ret {A} (a : A) : M A := fun rest => ROk a rest 0.
Definition fail {A} (e : err) : M A := fun _ => RErr e 0.
Definition add_al {A} (k : N) (r : R A) : R A :=
  match r with
  | ROk a rest al => ROk a rest (k + al)
  | RErr e al => RErr e (k + al)
  | RPanic p al => RPanic p (k + al)
  end.
Definition bind {A B} (m : M A) (f : A -> M B) : M B := fun rest =>
  match m rest with
  | ROk a rest' al => add_al al (f a rest')
  | RErr e al => RErr e al
  | RPanic p al => RPanic p al
  end.
Definition alloc (k : N) : M unit := fun rest => ROk tt rest k.

Notation "x <- m ;; f" := (bind m (fun x => f)) (at level 61, m at next level, right associativity).
Notation "m ;;; f" := (bind m (fun _ => f)) (at level 61, right associativity).

(** [io.ReadFull] of k bytes: nothing there = io.EOF, fewer than k = io.ErrUnexpectedEOF; k = 0 never fails *)
Definition take (k : N) : M (list N) := fun rest =>
  if N.of_nat (length rest) <? k
  then RErr (match rest with [] => EEof | _ => EUEof end) 0
  else ROk (firstn (N.to_nat k) rest) (skipn (N.to_nat k) rest) 0.

(** [io.CopyN(&bytes.Buffer, r, n)] for n > 0: the buffer grows with the data actually read - bytes.Buffer.ReadFrom
    asks for 512 free bytes before every Read and doubles, so a copy costs at most 1536 + 4 * (bytes read), String()
    included; a short input is io.EOF whatever was read *)
Definition copy_cost (k : N) : N := 1536 + 4 * k.
Definition copyN (n : N) : M (list N) := fun rest =>
  if N.of_nat (length rest) <? n
  then RErr EEof (copy_cost (N.of_nat (length rest)))
  else ROk (firstn (N.to_nat n) rest) (skipn (N.to_nat n) rest) (copy_cost n).

(** fixed-width integer in the file's byte order *)
Definition rd_int (be : bool) (k : N) : M N :=
  b <- take k ;; ret (if be then unbe b else unle b).
Definition rd_u32 be := rd_int be 4.
Definition rd_u64 be := rd_int be 8.

(** bounded loop: [n] iterations of [body], state threaded; fuel bounds the recursion ([EFuel] is excluded by
    GgufProofs.loopM_fuel whenever fuel >= length of the input and the body consumes input) *)
Fixpoint loopM {S : Type} (fuel : nat) (n : N) (body : S -> M S) (s : S) : M S :=
  match fuel with
  | O => if n =? 0 then ret s else fail EFuel
  | Datatypes.S f => if n =? 0 then ret s else bind (body s) (fun s' => loopM f (N.pred n) body s')
  end.
(** the loops of the decoder run with fuel = number of bytes left + 1 (every iteration consumes at least one
    byte or fails; the last unit of fuel is for the iteration that fails on the empty input) *)
Definition loop {S : Type} (n : N) (body : S -> M S) (s : S) : M S := fun rest => loopM (Datatypes.S (length rest)) n body s rest.

(** * Values *)

(** gguf type codes: 0 u8, 1 i8, 2 u16, 3 i16, 4 u32, 5 i32, 6 f32, 7 bool, 8 string, 9 array, 10 u64, 11 i64, 12 f64.
    Numbers are kept as their unsigned bit pattern; a bool is 0 / 1. *)
Inductive val :=
| VNum (ty : N) (bits : N)
| VStr (s : str)
| VArr (n : N) (vals : option (list val)).   (* array{size, values}; None = values not collected *)

Definition num_width (ty : N) : option N :=
  match ty with
  | 0 | 1 | 7 => Some 1
  | 2 | 3 => Some 2
  | 4 | 5 | 6 => Some 4
  | 10 | 11 | 12 => Some 8
  | _ => None
  end.

(** [readGGUF[T]] for a numeric/bool type; binary.Read of a bool is [b != 0] *)
Definition rd_num (be : bool) (ty : N) (w : N) : M val :=
  x <- rd_int be w ;; ret (VNum ty (if ty =? 7 then (if x =? 0 then 0 else 1) else x)).

Definition scratch_len : N := 16384.

(** Go primitive operations that can panic; the guards of the repaired code make every [RPanic] below
    unreachable, which is what C10_decode_total proves *)
Definition panic {A} (p : pan) : M A := fun _ => RPanic p 0.
(** [buf[:len]] on a buffer of capacity [cap] *)
Definition go_slice (cap len : Z) : M unit :=
  if ((len <? 0) || (cap <? len))%Z then panic PSlice else ret tt.
(** [make([]T, 0, n)]: negative or absurd capacity panics *)
Definition go_make (n : Z) : M unit :=
  if ((n <? 0) || (140737488355328 <? n))%Z then panic PMake else ret tt.
(** [bytes.Buffer.Truncate(n)] on a buffer of length [len] *)
Definition go_truncate (len n : Z) : M unit :=
  if ((n <? 0) || (len <? n))%Z then panic PTruncate else ret tt.

(** readGGUFString, versions 2 and 3 (repaired: a negative length is an error, a length above the scratch buffer
    is read incrementally instead of make([]byte, length)) *)
Definition rd_string23 (be : bool) : M str :=
  n <- rd_u64 be ;;
  let len := to_int64 n in
  if (len <? 0)%Z then fail ELen
  else if (Z.of_N scratch_len <? len)%Z then copyN (Z.to_N len)
  else (go_slice (Z.of_N scratch_len) len ;;; b <- take (Z.to_N len) ;; alloc (Z.to_N len) ;;; ret b).  (* string(buf) *)

(** readGGUFV1String (repaired: length 0 or above MaxInt64 is an error); the result drops the final NUL *)
Definition rd_string1 (be : bool) : M str :=
  n <- rd_u64 be ;;
  if (n =? 0) || (two63 <=? n) then fail ELen
  else (b <- copyN n ;;
        go_truncate (Z.of_nat (length b)) (Z.of_nat (length b) - 1) ;;;
        ret (firstn (length b - 1) b)).

Definition rd_string (ver : N) (be : bool) : M str :=
  if ver =? 1 then rd_string1 be else rd_string23 be.

(** discardGGUFString: a "negative" size consumes the 8 length bytes only *)
Definition discard_string (be : bool) : M unit :=
  n <- rd_u64 be ;;
  if (to_int64 n <=? 0)%Z then ret tt
  else fun rest =>
    if N.of_nat (length rest) <? n then RErr EEof 0
    else ROk tt (skipn (N.to_nat n) rest) 0.

Definition can_collect (maxArr : Z) (n : Z) : bool := ((maxArr <? 0) || (n <=? maxArr))%Z.

Definition prealloc : N := 1024.
(** metered cost of one collected element: slot of the []any (amortised append) + boxed value *)
Definition elem_cost : N := 48.

(** one array element of type [ety]; [coll] = values are collected *)
Definition rd_elem (ver : N) (be : bool) (coll : bool) (ety : N) : M (option val) :=
  match num_width ety with
  | Some w => v <- rd_num be ety w ;; ret (Some v)
  | None =>
    if ety =? 8 then
      if (ver =? 1) || coll then (s <- rd_string ver be ;; ret (Some (VStr s)))
      else (discard_string be ;;; ret None)
    else fail EArrType
  end.

(** readGGUFArray / readGGUFV1Array (repaired: a size above MaxInt is an error, values grow by append from a
    bounded pre-allocation instead of make([]any, n)) *)
Definition rd_array (ver : N) (be : bool) (maxArr : Z) : M val :=
  ety <- rd_u32 be ;;
  n <- (if ver =? 1 then rd_u32 be else rd_u64 be) ;;
  if two63 <=? n then fail ELen
  else
    let coll := can_collect maxArr (Z.of_N n) in
    (if coll then go_make (Z.of_N (N.min n prealloc)) else ret tt) ;;;
    alloc (32 + (if coll then 16 * N.min n prealloc else 0)) ;;;
    vs <- loop n (fun acc =>
            e <- rd_elem ver be coll ety ;;
            if coll then (alloc elem_cost ;;; ret (match e with Some v => v :: acc | None => acc end))
            else ret acc) [] ;;
    ret (VArr n (if coll then Some (rev vs) else None)).

(** one value of gguf type [t] *)
Definition rd_value (ver : N) (be : bool) (maxArr : Z) (t : N) : M val :=
  match num_width t with
  | Some w => rd_num be t w
  | None =>
    if t =? 8 then (s <- rd_string ver be ;; ret (VStr s))
    else if t =? 9 then rd_array ver be maxArr
    else fail EType
  end.

(** the decoded KV is a Go map: association list, most recent binding first, lookup = first match *)
Definition kvs := list (str * val).
Fixpoint kv_get {V : Type} (k : str) (m : list (str * V)) : option V :=
  match m with
  | [] => None
  | (k', v) :: r => if eqb_str k k' then Some v else kv_get k r
  end.

Definition kv_cost : N := 64.   (* map entry + key header *)

Definition rd_kv (ver : N) (be : bool) (maxArr : Z) (acc : kvs) : M kvs :=
  k <- rd_string ver be ;;
  t <- rd_u32 be ;;
  v <- rd_value ver be maxArr t ;;
  alloc kv_cost ;;;
  ret ((k, v) :: acc).

(** * Tensors *)

Definition block_size (kind : N) : N :=
  match kind with
  | 0 | 1 | 24 | 25 | 26 | 27 | 28 | 30 => 1
  | 2 | 3 | 6 | 7 | 8 | 9 | 20 => 32
  | _ => 256
  end.

Definition type_size (kind : N) : N :=
  let bs := block_size kind in
  match kind with
  | 0 => 4
  | 1 => 2
  | 2 => 2 + bs / 2
  | 3 => 2 + 2 + bs / 2
  | 6 => 2 + 4 + bs / 2
  | 7 => 2 + 2 + 4 + bs / 2
  | 8 => 2 + bs
  | 9 => 2 + 2 + bs
  | 10 => bs / 16 + bs / 4 + 2 + 2
  | 11 => bs / 8 + bs / 4 + 12 + 2
  | 12 => 2 + 2 + 12 + bs / 2
  | 13 => 2 + 2 + 12 + bs / 8 + bs / 2
  | 14 => bs / 2 + bs / 4 + bs / 16 + 2
  | 15 => 4 + bs + 2 * bs / 16
  | 16 => 2 + 2 * bs / 8
  | 17 => 2 + 2 * bs / 8 + bs / 32
  | 18 => 2 + bs / 4 + bs / 8
  | 19 => 2 + bs / 8 + bs / 16
  | 20 => 2 + bs / 2
  | 21 => 2 + bs / 4 + bs / 8 + bs / 32 + 4
  | 22 => 2 + bs / 4 + bs / 16
  | 23 => 2 + 2 + bs / 2 + bs / 64
  | 24 => 1
  | 25 => 2
  | 26 => 4
  | 27 => 8
  | 28 => 8
  | 29 => bs / 8 + bs / 16 + bs / 32
  | 30 => 2
  | _ => 0
  end.

(** Tensor.parameters: uint64 product of the shape *)
Definition parameters (shape : list N) : N := fold_left (fun c n => wrap64 (c * n)) shape 1.
(** Tensor.Size: parameters * typeSize / blockSize in uint64 *)
Definition tensor_size (kind : N) (shape : list N) : N :=
  wrap64 (parameters shape * type_size kind) / block_size kind.

(** a decoded tensor info: name, kind, offset, shape (in file order) *)
Record tinfo := mkTI { ti_name : str; ti_kind : N; ti_offset : N; ti_shape : list N }.

Definition tensor_cost : N := 128.   (* Tensor struct + slot of []*Tensor (amortised) + initial shape capacity *)

(** repaired: the shape grows by append with the data actually present instead of make([]uint64, dims) *)
Definition rd_tensor (ver : N) (be : bool) (acc : list tinfo) : M (list tinfo) :=
  name <- rd_string ver be ;;
  dims <- rd_u32 be ;;
  go_make (Z.of_N (N.min dims 4)) ;;;
  alloc tensor_cost ;;;
  shape <- loop dims (fun sh => d <- rd_u64 be ;; alloc 16 ;;; ret (d :: sh)) [] ;;
  kind <- rd_u32 be ;;
  off <- rd_u64 be ;;
  ret (mkTI name kind off (rev shape) :: acc).

(** * Padding and the position arithmetic of the data section *)

(** ggufPadding on int64 operands (Go's % truncates toward zero = Z.rem); a zero alignment is a division by zero *)
Definition go_pad (off al : Z) : Z := Z.rem (al - Z.rem off al) al.
Definition go_pad_p (off al : Z) : option Z := if (al =? 0)%Z then None else Some (go_pad off al).

(** the Seek loop at the end of gguf.Decode: from position [pos], for every tensor skip the padding, then
    int64(Size) bytes; bytes.Reader positions are int64 (wrap), a negative target is an error, a target beyond the
    end of the input is allowed.  BufferedSeeker is position arithmetic: Seek(off, Current) after reading p bytes lands
    at p + off whatever is buffered. *)
Fixpoint seek_tensors (al : Z) (pos : Z) (ts : list tinfo) : option Z :=
  match ts with
  | [] => Some pos
  | t :: r =>
    let p1 := wrapZ64 (pos + go_pad pos al) in
    if (p1 <? 0)%Z then None
    else
      let sz := to_int64 (tensor_size (ti_kind t) (ti_shape t)) in
      if (sz <? 0)%Z then None        (* repaired (fixes/C10-tensor-size-rewind.patch): a size above MaxInt64 is an error *)
      else
        let p2 := wrapZ64 (p1 + sz) in
        if (p2 <? 0)%Z then None else seek_tensors al p2 r
  end.

(** * Decode *)

Definition k_alignment : str := [103;101;110;101;114;97;108;46;97;108;105;103;110;109;101;110;116].   (* general.alignment *)
Definition k_param_count : str :=
  [103;101;110;101;114;97;108;46;112;97;114;97;109;101;116;101;114;95;99;111;117;110;116].        (* general.parameter_count *)

(** kv.Uint(key, dflt) for a "general." key with the repaired keyValue: a value of another type yields the default *)
Definition kv_uint {V} (proj : V -> option N) (m : list (str * V)) (k : str) (dflt : N) : N :=
  match kv_get k m with
  | Some v => match proj v with Some x => x | None => dflt end
  | None => dflt
  end.
Definition val_u32 (v : val) : option N := match v with VNum 4 x => Some x | _ => None end.

Record decoded := mkD {
  d_version : N;
  d_kv : kvs;                 (* Go map; most recent binding first *)
  d_tensors : list tinfo;     (* in file order *)
  d_toff : N;                 (* Tensors().Offset *)
  d_end : Z                   (* the offset returned by ggml.Decode *)
}.

Inductive D :=
| DOk (d : decoded) (al : N)
| DErr (e : err) (al : N)
| DPanic (p : pan) (al : N).

(** fixed allocations of one Decode: bufio buffer (32 KiB), gguf struct with its 16 KiB scratch, containers *)
Definition base_alloc : N := 65536.

(** header: magic, version, counts (one binary.Read of the V1/V2/V3 struct), key-values, tensor infos *)
Definition rd_header (maxArr : Z) : M (N * kvs * list tinfo) :=
  magic <- rd_u32 false ;;
  be <- (if magic =? 1179993927 then ret false           (* 0x46554747 "GGUF" little endian *)
         else if magic =? 1195857222 then ret true       (* 0x47475546 big endian *)
         else fail EMagic) ;;
  ver <- rd_u32 be ;;
  let w := if ver =? 1 then 4%nat else 8%nat in
  cnt <- take (N.of_nat (2 * w)) ;;
  let dec := fun b => if be then unbe b else unle b in
  let nt := dec (firstn w cnt) in
  let nkv := dec (skipn w cnt) in
  kv <- loop nkv (rd_kv ver be maxArr) [] ;;
  ts <- loop nt (rd_tensor ver be) [] ;;
  ret (ver, kv, rev ts).

Definition total_params (ts : list tinfo) : N := fold_left (fun c t => wrap64 (c + parameters (ti_shape t))) ts 0.

(** ggml.Decode(rs, maxArr) on a reader positioned at absolute offset [base] whose remaining content is [bytes]
    (server/create.go ggufLayers decodes several models from one file: every Seek(0, Current) is an absolute position,
    so paddings are computed on absolute offsets) *)
Definition decode_from (base : Z) (bytes : list N) (maxArr0 : Z) : D :=
  let maxArr := if (maxArr0 =? 0)%Z then 1024%Z else maxArr0 in
  match rd_header maxArr bytes with
  | RErr e al => DErr e (base_alloc + al)
  | RPanic p al => DPanic p (base_alloc + al)
  | ROk (ver, kv0, ts) rest al =>
    let al := base_alloc + al in
    let kv := (k_param_count, VNum 10 (total_params ts)) :: kv0 in
    let a := Z.of_N (kv_uint val_u32 kv k_alignment 32 mod two32) in   (* alignment is a uint32 *)
    if (a =? 0)%Z then DErr EAlign al            (* repaired: alignment 0 is an error *)
    else
      let pos := (base + Z.of_nat (length bytes - length rest))%Z in
      match go_pad_p pos a with
      | None => DPanic PDivZero al
      | Some pad =>
        let toff := wrap64 (Z.to_N ((pos + pad) mod Z.of_N two64)) in
        match seek_tensors a pos ts with
        | None => DErr ESeek al
        | Some e => DOk (mkD ver kv ts toff e) al
        end
      end
  end.

(** ggml.Decode(bytes.NewReader(bytes), maxArr) *)
Definition decode (bytes : list N) (maxArr0 : Z) : D := decode_from 0 bytes maxArr0.

Definition d_alloc (r : D) : N := match r with DOk _ al | DErr _ al | DPanic _ al => al end.

(** * Typed accessors of ggml.KV (repaired keyValue: a value of an unexpected type yields the default) used by
    create (ggufLayers, detectChatTemplate, createModel) and show (Capabilities) *)

Definition s_general_dot : str := [103;101;110;101;114;97;108;46].          (* "general." *)
Definition s_tokenizer_dot : str := [116;111;107;101;110;105;122;101;114;46].        (* "tokenizer." *)
Definition k_architecture : str := [103;101;110;101;114;97;108;46;97;114;99;104;105;116;101;99;116;117;114;101].         (* general.architecture *)
Definition k_type : str := [103;101;110;101;114;97;108;46;116;121;112;101].                 (* general.type *)
Definition k_file_type : str := [103;101;110;101;114;97;108;46;102;105;108;101;95;116;121;112;101].            (* general.file_type *)
Definition k_chat_template : str := [116;111;107;101;110;105;122;101;114;46;99;104;97;116;95;116;101;109;112;108;97;116;101].        (* tokenizer.chat_template *)
Definition s_unknown : str := [117;110;107;110;111;119;110].              (* "unknown" *)

Definition val_str (v : val) : option str := match v with VStr s => Some s | _ => None end.
Definition acc_architecture (m : kvs) : str :=
  match kv_get k_architecture m with Some (VStr s) => s | _ => s_unknown end.
(** keyValue's key rewriting: keys outside "tokenizer." / "general." are prefixed with the architecture *)
Definition key_for (m : kvs) (key : str) : str :=
  if prefixb s_tokenizer_dot key || prefixb s_general_dot key then key else acc_architecture m ++ [46] ++ key.
Definition acc_string (m : kvs) (key dflt : str) : str :=
  match kv_get (key_for m key) m with Some (VStr s) => s | _ => dflt end.
Definition acc_uint (m : kvs) (key : str) (dflt : N) : N :=
  match kv_get (key_for m key) m with Some (VNum 4 x) => x | _ => dflt end.
Definition acc_kind (m : kvs) : str := acc_string m k_type s_unknown.
Definition acc_chat_template (m : kvs) : str := acc_string m k_chat_template [].
(** FileType: general.file_type when > 0, else fileTypeUnknown (= 33) *)
Definition acc_file_type (m : kvs) : N := let t := acc_uint m k_file_type 0 in if 0 <? t then t else 33.

(** the same accessors with Go's panics made explicit.  keyValue[T](kv, key, defaultValue...) after the repair: the stored value is
    returned when it has type T (checked assertion), otherwise - and when the key is missing - [defaultValue[0]], an index
    expression that panics when no default was passed (ParameterCount passes none). *)
Inductive ares (A : Type) := AOk (a : A) | APanic (p : pan).
Arguments AOk {A}. Arguments APanic {A}.

Definition go_index0 {A} (l : list A) : ares A := match l with x :: _ => AOk x | [] => APanic PIndex end.

Definition key_value {T} (proj : val -> option T) (m : kvs) (key : str) (dflt : list T) : ares T :=
  match kv_get (key_for m key) m with
  | Some v => match proj v with Some x => AOk x | None => go_index0 dflt end
  | None => go_index0 dflt
  end.
Definition val_u64 (v : val) : option N := match v with VNum 10 x => Some x | _ => None end.

(** what create (ggufLayers, detectChatTemplate, createModel) and show (Capabilities) call on a decoded file *)
Definition r_architecture (m : kvs) : ares str := key_value val_str m k_architecture [s_unknown; []].   (* String(k, "unknown") *)
Definition r_kind (m : kvs) : ares str := key_value val_str m k_type [s_unknown; []].
Definition r_chat_template (m : kvs) : ares str := key_value val_str m k_chat_template [[]].
Definition r_file_type (m : kvs) : ares N :=
  match key_value val_u32 m k_file_type [0] with
  | AOk t => AOk (if 0 <? t then t else 33)
  | APanic p => APanic p
  end.
Definition r_parameter_count (m : kvs) : ares N := key_value val_u64 m k_param_count [].              (* no default *)

Definition is_ok {A} (r : ares A) : bool := match r with AOk _ => true | APanic _ => false end.
Definition accessors_ok (m : kvs) : bool :=
  is_ok (r_architecture m) && is_ok (r_kind m) && is_ok (r_chat_template m) && is_ok (r_file_type m) && is_ok (r_parameter_count m).

(** the array accessors KV.Strings / KV.Uints / KV.Floats (model-load path): [keyValue(kv, key, &array{})], then for i < size:
    [values[i].(T)] - an index panic when the values were not collected (size above maxArraySize), an assertion panic on an
    element of another type; a missing key or a value that is not an array gives the empty default *)
Definition arr_elems {T} (proj : val -> option T) (m : kvs) (key : str) : ares (list T) :=
  match kv_get (key_for m key) m with
  | Some (VArr n vals) =>
    match vals with
    | None => if n =? 0 then AOk [] else APanic PIndex
    | Some vs =>
      (fix go (l : list val) : ares (list T) :=
         match l with
         | [] => AOk []
         | v :: r => match proj v with
                     | None => APanic PAssert
                     | Some x => match go r with AOk xs => AOk (x :: xs) | APanic p => APanic p end
                     end
         end) vs
    end
  | _ => AOk []
  end.
Definition k_tokens : str := [116;111;107;101;110;105;122;101;114;46;103;103;109;108;46;116;111;107;101;110;115].        (* tokenizer.ggml.tokens *)
Definition k_token_type : str := [116;111;107;101;110;105;122;101;114;46;103;103;109;108;46;116;111;107;101;110;95;116;121;112;101].    (* tokenizer.ggml.token_type *)
Definition k_scores : str := [116;111;107;101;110;105;122;101;114;46;103;103;109;108;46;115;99;111;114;101;115].        (* tokenizer.ggml.scores *)
Definition val_i32 (v : val) : option N := match v with VNum 5 x => Some x | _ => None end.
Definition val_f32 (v : val) : option N := match v with VNum 6 x => Some x | _ => None end.
Definition r_strings (m : kvs) (key : str) : ares (list str) := arr_elems val_str m key.
Definition r_uints (m : kvs) (key : str) : ares (list N) := arr_elems val_i32 m key.     (* Uints asserts int32 elements *)
Definition r_floats (m : kvs) (key : str) : ares (list N) := arr_elems val_f32 m key.

(** ggml.DetectContentType as its callers use it: the first four bytes of the blob (server code hands it a 4-byte buffer
    or a bytes.Buffer of capacity >= 512, so a shorter blob reads as zero-padded), little endian.
    0 unknown, 1 ggml, 2 ggmf, 3 ggjt, 4 ggla, 5 gguf *)
Definition detect_content_type (b : list N) : N :=
  let w := unle (firstn 4 (b ++ [0; 0; 0; 0])) in
  if w =? 1734831468 then 1
  else if w =? 1734831462 then 2
  else if w =? 1734830708 then 3
  else if w =? 1734831201 then 4
  else if (w =? 1179993927) || (w =? 1195857222) then 5
  else 0.

(** * fs/ggml/type.go: fileType.String and ParseFileType (Tensor.Type() is fileType(Kind).String()) *)
Definition file_type_names : list (N * str) :=
  [ (0, [70;51;50])  (* F32 *);
    (1, [70;49;54])  (* F16 *);
    (2, [81;52;95;48])  (* Q4_0 *);
    (3, [81;52;95;49])  (* Q4_1 *);
    (4, [81;52;95;49;95;70;49;54])  (* Q4_1_F16 *);
    (7, [81;56;95;48])  (* Q8_0 *);
    (8, [81;53;95;48])  (* Q5_0 *);
    (9, [81;53;95;49])  (* Q5_1 *);
    (10, [81;50;95;75])  (* Q2_K *);
    (11, [81;51;95;75;95;83])  (* Q3_K_S *);
    (12, [81;51;95;75;95;77])  (* Q3_K_M *);
    (13, [81;51;95;75;95;76])  (* Q3_K_L *);
    (14, [81;52;95;75;95;83])  (* Q4_K_S *);
    (15, [81;52;95;75;95;77])  (* Q4_K_M *);
    (16, [81;53;95;75;95;83])  (* Q5_K_S *);
    (17, [81;53;95;75;95;77])  (* Q5_K_M *);
    (18, [81;54;95;75])  (* Q6_K *);
    (19, [73;81;50;95;88;88;83])  (* IQ2_XXS *);
    (20, [73;81;50;95;88;83])  (* IQ2_XS *);
    (21, [81;50;95;75;95;83])  (* Q2_K_S *);
    (22, [73;81;51;95;88;83])  (* IQ3_XS *);
    (23, [73;81;51;95;88;88;83])  (* IQ3_XXS *);
    (24, [73;81;49;95;83])  (* IQ1_S *);
    (25, [73;81;52;95;78;76])  (* IQ4_NL *);
    (26, [73;81;51;95;83])  (* IQ3_S *);
    (27, [73;81;51;95;77])  (* IQ3_M *);
    (28, [73;81;50;95;83])  (* IQ2_S *);
    (29, [73;81;50;95;77])  (* IQ2_M *);
    (30, [73;81;52;95;88;83])  (* IQ4_XS *);
    (31, [73;81;49;95;77])  (* IQ1_M *);
    (32, [66;70;49;54])  (* BF16 *) ].
Definition s_unknown_ft : str := [117;110;107;110;111;119;110].
Definition file_type_name (t : N) : str :=
  match find (fun p => fst p =? t) file_type_names with Some p => snd p | None => s_unknown_ft end.
Definition parse_names : list (str * N) :=
  [ ([70;51;50], 0)  (* F32 *);
    ([70;49;54], 1)  (* F16 *);
    ([81;52;95;48], 2)  (* Q4_0 *);
    ([81;52;95;49], 3)  (* Q4_1 *);
    ([81;52;95;49;95;70;49;54], 4)  (* Q4_1_F16 *);
    ([81;56;95;48], 7)  (* Q8_0 *);
    ([81;53;95;48], 8)  (* Q5_0 *);
    ([81;53;95;49], 9)  (* Q5_1 *);
    ([81;50;95;75], 10)  (* Q2_K *);
    ([81;51;95;75;95;83], 11)  (* Q3_K_S *);
    ([81;51;95;75;95;77], 12)  (* Q3_K_M *);
    ([81;51;95;75;95;76], 13)  (* Q3_K_L *);
    ([81;52;95;75;95;83], 14)  (* Q4_K_S *);
    ([81;52;95;75;95;77], 15)  (* Q4_K_M *);
    ([81;53;95;75;95;83], 16)  (* Q5_K_S *);
    ([81;53;95;75;95;77], 17)  (* Q5_K_M *);
    ([81;54;95;75], 18)  (* Q6_K *);
    ([73;81;50;95;88;88;83], 19)  (* IQ2_XXS *);
    ([73;81;50;95;88;83], 20)  (* IQ2_XS *);
    ([81;50;95;75;95;83], 21)  (* Q2_K_S *);
    ([73;81;51;95;88;83], 22)  (* IQ3_XS *);
    ([73;81;51;95;88;88;83], 23)  (* IQ3_XXS *);
    ([73;81;49;95;83], 24)  (* IQ1_S *);
    ([73;81;52;95;78;76], 25)  (* IQ4_NL *);
    ([73;81;51;95;83], 26)  (* IQ3_S *);
    ([73;81;51;95;77], 27)  (* IQ3_M *);
    ([73;81;50;95;83], 28)  (* IQ2_S *);
    ([73;81;50;95;77], 29)  (* IQ2_M *);
    ([73;81;52;95;88;83], 30)  (* IQ4_XS *);
    ([73;81;49;95;77], 31)  (* IQ1_M *);
    ([66;70;49;54], 32)  (* BF16 *) ].
(** ParseFileType: Some t, or None for the error case (which returns fileTypeUnknown = 33) *)
Definition parse_file_type (s : str) : option N :=
  match find (fun p => eqb_str (fst p) s) parse_names with Some p => Some (snd p) | None => None end.
Definition file_type_unknown : N := 33.

(** * WriteGGUF *)

(** the value types ggufWriteKV supports *)
Inductive wval :=
| WU32 (n : N) | WF32 (bits : N) | WBool (b : bool) | WStr (s : str)
| WI32s (l : list N) | WU32s (l : list N) | WF32s (l : list N) | WStrs (l : list str).

Definition wkvs := list (str * wval).

Record tensor := mkT { t_name : str; t_kind : N; t_shape : list N; t_data : list N }.
Definition t_size (t : tensor) : N := tensor_size (t_kind t) (t_shape t).

Definition enc_str (s : str) : list N := le 8 (N.of_nat (length s)) ++ s.
Definition enc_arr (ety : N) (l : list N) : list N :=
  le 4 9 ++ le 4 ety ++ le 8 (N.of_nat (length l)) ++ flat_map (le 4) l.
Definition enc_wval (v : wval) : list N :=
  match v with
  | WU32 n => le 4 4 ++ le 4 n
  | WF32 n => le 4 6 ++ le 4 n
  | WBool b => le 4 7 ++ [if b then 1 else 0]
  | WStr s => le 4 8 ++ enc_str s
  | WI32s l => enc_arr 5 l
  | WU32s l => enc_arr 4 l
  | WF32s l => enc_arr 6 l
  | WStrs l => le 4 9 ++ le 4 8 ++ le 8 (N.of_nat (length l)) ++ flat_map enc_str l
  end.
Definition enc_kv (e : str * wval) : list N := enc_str (fst e) ++ enc_wval (snd e).

(** bytewise string order (Go's < on strings) and the insertion sort standing for slices.Sort(keys) *)
Fixpoint str_ltb (a b : str) : bool :=
  match a, b with
  | _, [] => false
  | [], _ :: _ => true
  | x :: a', y :: b' => (x <? y) || ((x =? y) && str_ltb a' b')
  end.
Fixpoint insert_kv (e : str * wval) (l : wkvs) : wkvs :=
  match l with
  | [] => [e]
  | e' :: r => if str_ltb (fst e') (fst e) then e' :: insert_kv e r else e :: l
  end.
Definition sort_kv (l : wkvs) : wkvs := fold_right insert_kv [] l.

(** Tensor.block: [fmt.Sscanf(t.Name, "blk.%d.", &n)], -1 on any scan error.  The literal "blk." must match exactly; %d skips
    blanks (fmt's isSpace, UTF-8 encoded; a newline - also after a carriage return - is an error), accepts one sign, then a
    non-empty run of "0123456789_" that strconv.ParseInt(tok, 10, 64) must accept (so no underscore, value within int64);
    then the literal "." must follow.  Trailing input is ignored. *)
Definition s_blk : str := [98; 108; 107; 46].
Definition is_numch (b : N) : bool := ((48 <=? b) && (b <=? 57)) || (b =? 95).
Definition strip_space1 (r : str) : option str :=
  match r with
  | 9 :: t | 11 :: t | 12 :: t | 13 :: t | 32 :: t => Some t
  | 194 :: 133 :: t | 194 :: 160 :: t => Some t                 (* U+0085, U+00A0 *)
  | 225 :: 154 :: 128 :: t => Some t                            (* U+1680 *)
  | 226 :: 128 :: x :: t =>                                     (* U+2000..U+200A, U+2028, U+2029, U+202F *)
    if ((128 <=? x) && (x <=? 138)) || (x =? 168) || (x =? 169) || (x =? 175) then Some t else None
  | 226 :: 129 :: 159 :: t => Some t                            (* U+205F *)
  | 227 :: 128 :: 128 :: t => Some t                            (* U+3000 *)
  | _ => None
  end.
Fixpoint skip_space (fuel : nat) (r : str) : option str :=      (* None = "unexpected newline" *)
  match fuel with
  | O => Some r
  | Datatypes.S f =>
    match r with
    | 13 :: 10 :: _ => None
    | 10 :: _ => None
    | _ => match strip_space1 r with Some t => skip_space f t | None => Some r end
    end
  end.
Fixpoint take_while (p : N -> bool) (l : str) : str :=
  match l with x :: t => if p x then x :: take_while p t else [] | [] => [] end.
Definition dec_value (digs : str) : Z := fold_left (fun a d => (10 * a + Z.of_N (d - 48))%Z) digs 0%Z.
Definition split_sign (r : str) : bool * str :=
  match r with 43 :: t => (false, t) | 45 :: t => (true, t) | _ => (false, r) end.
Definition block_of (name : str) : Z :=
  if prefixb s_blk name then
    match skip_space (length name) (skipn 4 name) with
    | None => (-1)%Z
    | Some r =>
      let '(neg, r1) := split_sign r in
      let digs := take_while is_numch r1 in
      match digs with
      | [] => (-1)%Z
      | _ =>
        if existsb (N.eqb 95) digs then (-1)%Z
        else
          let v := if neg then (- dec_value digs)%Z else dec_value digs in
          if ((v <? - Z.of_N two63) || (Z.of_N two63 - 1 <? v))%Z then (-1)%Z
          else match skipn (length digs) r1 with 46 :: _ => v | _ => (-1)%Z end
      end
    end
  else (-1)%Z.

(** the comparator of slices.SortStableFunc in WriteGGUF on the block numbers i, j: <0, 0 or >0 *)
Definition cmp_block (i j : Z) : Z :=
  if ((i <? 0) && (j >? 0))%Z then 1%Z
  else if ((i >? 0) && (j <? 0))%Z then (-1)%Z
  else match (i ?= j)%Z with Lt => (-1)%Z | Eq => 0%Z | Gt => 1%Z end.
(** insertionSortCmpFunc (what slices.SortStableFunc runs on up to 20 elements; the comparator is not a
    consistent order, so the algorithm matters): insert each element leftwards while it compares below its left
    neighbour.  [insert_ts] takes the already sorted prefix REVERSED. *)
Fixpoint insert_ts {T} (block : T -> Z) (x : T) (rev_sorted : list T) : list T :=
  match rev_sorted with
  | [] => [x]
  | y :: r => if (cmp_block (block x) (block y) <? 0)%Z then y :: insert_ts block x r else x :: rev_sorted
  end.
Definition sort_ts {T} (block : T -> Z) (ts : list T) : list T :=
  rev (fold_left (fun acc x => insert_ts block x acc) ts []).

Definition enc_tinfo (t : tensor) (off : N) : list N :=
  enc_str (t_name t) ++ le 4 (N.of_nat (length (t_shape t))) ++ flat_map (le 8) (rev (t_shape t)) ++
  le 4 (t_kind t) ++ le 8 off.

(** uint64 padding as computed by WriteGGUF: uint64(ggufPadding(int64(s), int64(alignment))) *)
Definition pad64 (s al : N) : N := wrap64 (Z.to_N (go_pad (to_int64 s) (Z.of_N al) mod Z.of_N two64)).

(** offsets recorded in the tensor infos. [fixed = true]: s = t.Offset + t.Size() (fixes/C05-offsets.patch);
    [fixed = false]: s += t.Size() (the code before the repair) *)
Fixpoint offsets (fixed : bool) (al : N) (s : N) (ts : list tensor) : list N :=
  match ts with
  | [] => []
  | t :: r =>
    let o := wrap64 (s + pad64 s al) in
    o :: offsets fixed al (wrap64 ((if fixed then o else s) + t_size t)) r
  end.

Fixpoint enc_tinfos (ts : list tensor) (offs : list N) : list N :=
  match ts, offs with
  | t :: r, o :: ro => enc_tinfo t o ++ enc_tinfos r ro
  | _, _ => []
  end.

(** ggufWriteTensor for every tensor from absolute position [pos]: zero padding to the alignment, then the data *)
Fixpoint write_data (al : N) (pos : N) (ts : list tensor) : list N :=
  match ts with
  | [] => []
  | t :: r =>
    let p := Z.to_N (go_pad (Z.of_N pos) (Z.of_N al)) in
    repeat 0 (N.to_nat p) ++ t_data t ++ write_data al (pos + p + N.of_nat (length (t_data t))) r
  end.

Definition wval_u32 (v : wval) : option N := match v with WU32 x => Some x | _ => None end.
Definition walign (kv : wkvs) : N := kv_uint wval_u32 kv k_alignment 32.

Definition magic_gguf : list N := [71; 71; 85; 70].

Definition write_header (fixed : bool) (kv : wkvs) (ts : list tensor) : list N :=
  magic_gguf ++ le 4 3 ++ le 8 (N.of_nat (length ts)) ++ le 8 (N.of_nat (length kv)) ++
  flat_map enc_kv (sort_kv kv) ++ enc_tinfos ts (offsets fixed (walign kv) 0 ts).

(** WriteGGUF with the tensors already in the order the stable sort left them *)
Definition write_ordered (fixed : bool) (kv : wkvs) (ts : list tensor) : list N :=
  let h := write_header fixed kv ts in
  h ++ write_data (walign kv) (N.of_nat (length h)) ts.

(** WriteGGUF (kv has distinct keys: it is a Go map; [block] is Tensor.block) *)
Definition write_gguf (fixed : bool) (block : tensor -> Z) (kv : wkvs) (ts : list tensor) : list N :=
  write_ordered fixed kv (sort_ts block ts).
(** ... with the real Tensor.block *)
Definition tensor_block (t : tensor) : Z := block_of (t_name t).
Definition write_gguf_real (fixed : bool) (kv : wkvs) (ts : list tensor) : list N := write_gguf fixed tensor_block kv ts.

(** * What decoding a written file is expected to give *)

Definition val_of_wval (v : wval) : val :=
  match v with
  | WU32 n => VNum 4 n
  | WF32 n => VNum 6 n
  | WBool b => VNum 7 (if b then 1 else 0)
  | WStr s => VStr s
  | WI32s l => VArr (N.of_nat (length l)) (Some (map (VNum 5) l))
  | WU32s l => VArr (N.of_nat (length l)) (Some (map (VNum 4) l))
  | WF32s l => VArr (N.of_nat (length l)) (Some (map (VNum 6) l))
  | WStrs l => VArr (N.of_nat (length l)) (Some (map VStr l))
  end.
(** arrays larger than maxArraySize keep their size but not their values *)
Definition clip (maxArr : Z) (v : val) : val :=
  match v with
  | VArr n (Some _) => if can_collect maxArr (Z.of_N n) then v else VArr n None
  | _ => v
  end.
Definition eff_max (maxArr0 : Z) : Z := if (maxArr0 =? 0)%Z then 1024%Z else maxArr0.
