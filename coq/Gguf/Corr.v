(** Executable comparison functions of the C05 / C10 correspondence checks (cases rendered by props/c05.py and
    props/c10.py, evaluated with vm_compute). *)
From Coq Require Import List NArith ZArith Bool Arith Uint63.
From V Require Import Common.Bytes Gguf.Model Gguf.SeekerModel.
Import ListNotations.
Open Scope N_scope.

(** long byte strings are written by the renderers as 7-byte little-endian words held in primitive 63-bit integers
    (list literals of N elaborate ~15x slower): [unp len words] *)
Definition bytes7 (x : int) : list N :=
  (fix go (k : nat) (x : int) : list N :=
     match k with O => nil | S k' => Z.to_N (Uint63.to_Z (Uint63.land x 255%uint63)) :: go k' (Uint63.lsr x 8%uint63) end) 7%nat x.
Definition unp (n : N) (ws : list int) : list N := firstn (N.to_nat n) (flat_map bytes7 ws).

Fixpoint eqb_val (a b : val) : bool :=
  match a, b with
  | VNum t x, VNum t' x' => (t =? t') && (x =? x')
  | VStr s, VStr s' => eqb_str s s'
  | VArr n vs, VArr n' vs' =>
    (n =? n') &&
    match vs, vs' with
    | None, None => true
    | Some l, Some l' =>
      (fix go (l l' : list val) : bool :=
         match l, l' with
         | [], [] => true
         | x :: r, y :: r' => eqb_val x y && go r r'
         | _, _ => false
         end) l l'
    | _, _ => false
    end
  | _, _ => false
  end.

Fixpoint eqb_Ns (a b : list N) : bool :=
  match a, b with
  | [], [] => true
  | x :: a', y :: b' => (x =? y) && eqb_Ns a' b'
  | _, _ => false
  end.

Definition eqb_tinfo (a b : tinfo) : bool :=
  eqb_str (ti_name a) (ti_name b) && (ti_kind a =? ti_kind b) && (ti_offset a =? ti_offset b) &&
  eqb_Ns (ti_shape a) (ti_shape b).

Fixpoint eqb_tinfos (a b : list tinfo) : bool :=
  match a, b with
  | [], [] => true
  | x :: a', y :: b' => eqb_tinfo x y && eqb_tinfos a' b'
  | _, _ => false
  end.

(** the Go map (dumped sorted by key, keys distinct) equals the model's association list as a map *)
Definition eqb_kvmap (model : kvs) (dump : kvs) : bool :=
  forallb (fun e => match kv_get (fst e) model with Some v => eqb_val v (snd e) | None => false end) dump &&
  forallb (fun e => match kv_get (fst e) dump with Some _ => true | None => false end) model.

(** what the harness saw: decoded file / error class (0 eof, 1 unexpected eof, 2 other) / recovered panic *)
Inductive obs :=
| OOk (ver : N) (kv : kvs) (ts : list tinfo) (toff : N) (end_ : Z)
| OErr (cls : N)
| OPanic.

Definition err_class (e : err) : N := match e with EEof => 0 | EUEof => 1 | _ => 2 end.

Definition chk_decode_from (base : Z) (bytes : list N) (maxArr : Z) (o : obs) : bool :=
  match decode_from base bytes maxArr, o with
  | DOk d _, OOk ver kv ts toff e =>
    (d_version d =? ver) && eqb_kvmap (d_kv d) kv && eqb_tinfos (d_tensors d) ts && (d_toff d =? toff) && (d_end d =? e)%Z
  | DErr e _, OErr c => err_class e =? c
  | DPanic _ _, OPanic => true
  | _, _ => false
  end.

Definition chk_decode (bytes : list N) (maxArr : Z) (o : obs) : bool :=
  match decode bytes maxArr, o with
  | DOk d _, OOk ver kv ts toff e =>
    (d_version d =? ver) && eqb_kvmap (d_kv d) kv && eqb_tinfos (d_tensors d) ts && (d_toff d =? toff) && (d_end d =? e)%Z
  | DErr e _, OErr c => err_class e =? c
  | DPanic _ _, OPanic => true
  | _, _ => false
  end.

(** round trip case: the tensors come with Tensor.block() as reported by the implementation; [order] is the
    order WriteGGUF left the caller's slice in (indices into the input).  Up to 20 tensors the model's insertion
    sort must give that order; beyond, the order is taken as observed (it must be a permutation) *)
Definition pick {T} (l : list T) (order : list nat) : list T :=
  flat_map (fun i => match nth_error l i with Some x => [x] | None => [] end) order.
Fixpoint eqb_nats (a b : list nat) : bool :=
  match a, b with
  | [], [] => true
  | x :: a', y :: b' => Nat.eqb x y && eqb_nats a' b'
  | _, _ => false
  end.
Definition is_perm_of_range (order : list nat) (n : nat) : bool :=
  Nat.eqb (length order) n && forallb (fun i => Nat.eqb (count_occ Nat.eq_dec order i) 1) (seq 0 n).

Definition model_order (blocks : list Z) : list nat :=
  map fst (sort_ts (fun p : nat * Z => snd p) (combine (seq 0 (length blocks)) blocks)).

(** the comparator is a consistent order on these block numbers unless negative, zero and positive ones are all present *)
Definition consistent_blocks (blocks : list Z) : bool :=
  negb (existsb (fun b => (b <? 0)%Z) blocks && existsb (fun b => (b =? 0)%Z) blocks && existsb (fun b => (0 <? b)%Z) blocks).
(** up to 20 tensors SortStableFunc IS the modelled insertion sort; beyond, a stable sort is determined by the comparator when
    the comparator is consistent - then the observed order must be the model's as well; otherwise it must be a permutation *)
Definition chk_order (blocks : list Z) (order : list nat) : bool :=
  is_perm_of_range order (length blocks) &&
  (((20 <? length blocks)%nat && negb (consistent_blocks blocks)) || eqb_nats (model_order blocks) order).

(** the bytes the implementation wrote: given exactly, or (for long outputs, whose literals are slow to elaborate)
    by length and a polynomial hash modulo 2^61-1 computed the same way by the renderer *)
Inductive obytes := OBExact (l : list N) | OBHash (len h : N).
Definition hash_bytes (l : list N) : N :=
  fold_left (fun h b => (h * 1000003 + b + 1) mod 2305843009213693951) l 7.
Definition eqb_obytes (model : list N) (o : obytes) : bool :=
  match o with
  | OBExact l => eqb_str model l
  | OBHash len h => (N.of_nat (length model) =? len) && (hash_bytes model =? h)
  end.
(** procedurally generated tensor data (same formula in props/c05.py) *)
Definition pat (seed len : N) : list N :=
  map (fun j => (seed * 37 + N.of_nat j * 11 + 1) mod 251 + 1) (seq 0 (N.to_nat len)).

Definition chk_rt (fixed : bool) (kv : wkvs) (ts : list tensor) (blocks : list Z) (order : list nat) (out : obytes)
           (maxArr : Z) (o : obs) : bool :=
  let w := write_ordered fixed kv (pick ts order) in
  (* the block numbers the implementation reports are those of the Sscanf model *)
  (fix eqz (a b : list Z) : bool := match a, b with [], [] => true | x :: a', y :: b' => (x =? y)%Z && eqz a' b' | _, _ => false end)
    (map tensor_block ts) blocks &&
  chk_order blocks order && eqb_obytes w out && chk_decode w maxArr o.

Definition chk_kind (kind ts bs : N) : bool := (type_size kind =? ts) && (block_size kind =? bs).
Definition chk_pad (off al : Z) (p : Z) : bool := (go_pad off al =? p)%Z.

(** C10: decode of an arbitrary byte string.  [real] = bytes the implementation allocated during ggml.Decode
    (runtime TotalAlloc): the model's meter must cover it up to the factor/slack below (meter soundness) *)
Definition meter_covers (model real : N) : bool := real <=? 2 * model + 65536.

(** accessor results reported by the harness for a decoded file *)
Record accs := mkAcc { a_arch : str; a_kind : str; a_ftype : N; a_tmpl : str; a_params : N }.
Definition eqb_ares {A} (eq : A -> A -> bool) (r : ares A) (x : A) : bool := match r with AOk y => eq y x | APanic _ => false end.
Definition chk_accs (m : kvs) (a : accs) : bool :=
  eqb_ares eqb_str (r_architecture m) (a_arch a) && eqb_ares eqb_str (r_kind m) (a_kind a) && eqb_ares N.eqb (r_file_type m) (a_ftype a) &&
  eqb_ares eqb_str (r_chat_template m) (a_tmpl a) && eqb_ares N.eqb (r_parameter_count m) (a_params a) &&
  (* the total versions used elsewhere agree *)
  eqb_str (acc_architecture m) (a_arch a) && eqb_str (acc_kind m) (a_kind a) && (acc_file_type m =? a_ftype a) && eqb_str (acc_chat_template m) (a_tmpl a).

Definition chk_decode10_from (base : Z) (bytes : list N) (maxArr : Z) (o : obs) (real : N) (a : option accs) : bool :=
  chk_decode_from base bytes maxArr o && meter_covers (d_alloc (decode_from base bytes maxArr)) real &&
  match decode_from base bytes maxArr, a with
  | DOk d _, Some a => chk_accs (d_kv d) a
  | DOk _ _, None => false
  | _, _ => true
  end.

Definition chk_decode10 (bytes : list N) (maxArr : Z) (o : obs) (real : N) (a : option accs) : bool :=
  chk_decode bytes maxArr o && meter_covers (d_alloc (decode bytes maxArr)) real &&
  match decode bytes maxArr, a with
  | DOk d _, Some a => chk_accs (d_kv d) a
  | DOk _ _, None => false
  | _, _ => true
  end.

(** a case decoded from a real file (os.File) that failed with EINVAL from lseek: the kernel rejects positions beyond the
    file system's maximum file size, which the model's reader (bytes.Reader: any non-negative int64) accepts; the model must
    then have decoded the file with a far-away end position, or have failed in the seek loop itself *)
Definition chk_file_seek (bytes : list N) (maxArr : Z) : bool :=
  match decode bytes maxArr with
  | DOk d _ => (4294967296 <? d_end d)%Z
  | DErr ESeek _ => true
  | _ => false
  end.

Definition chk_detect (b : list N) (code : N) : bool := detect_content_type b =? code.

(** Tensor.block = block_of: per name, and exhaustively over prefix + every string of length 0..maxlen over an alphabet
    (same enumeration order and digest as harness op block_all) *)
Definition chk_block (name : str) (b : Z) : bool := (block_of name =? b)%Z.
Fixpoint enum_strs (alpha : list N) (n : nat) : list str :=
  match n with O => [[]] | S k => flat_map (fun a => map (cons a) (enum_strs alpha k)) alpha end.
Definition hash_step (h x : N) : N := (h * 1000003 + x + 1) mod 2305843009213693951.
Definition chk_block_all (prefix : str) (alpha : list N) (maxlen : nat) (n h : N) : bool :=
  let names := flat_map (fun k => map (app prefix) (enum_strs alpha k)) (seq 0 (S maxlen)) in
  (N.of_nat (length names) =? n) &&
  (fold_left (fun acc nm => hash_step acc (Z.to_N (block_of nm mod 18446744073709551616) mod 2305843009213693951)) names 7 =? h).

(** type.go: fileType(t).String() and ParseFileType of that / of an arbitrary string (-1 = error) *)
Definition chk_ftype (t : N) (name : str) (parsed : Z) : bool :=
  eqb_str (file_type_name t) name &&
  (match parse_file_type name with Some v => Z.of_N v | None => (-1)%Z end =? parsed)%Z.
Definition chk_parse (s : str) (parsed : Z) : bool :=
  (match parse_file_type s with Some v => Z.of_N v | None => (-1)%Z end =? parsed)%Z.

(** buffer_seeker.go: a sequence of io.ReadFull / Seek on the real BufferedSeeker over a bytes.Reader gives what the
    logical-position model gives *)
Definition eqb_sres (a b : sres) : bool :=
  match a, b with
  | RRead x e, RRead y f => eqb_str x y && (e =? f)
  | RSeek p ok, RSeek q ok' => Bool.eqb ok ok' && (negb ok || (p =? q)%Z)
  | _, _ => false
  end.
Fixpoint eqb_sress (a b : list sres) : bool :=
  match a, b with [], [] => true | x :: a', y :: b' => eqb_sres x y && eqb_sress a' b' | _, _ => false end.
Definition chk_bseek (data : list N) (ops : list sop) (obs : list sres) : bool := eqb_sress (abs_run data 0 ops) obs.

(** load-path array accessors: outcome code reported by the harness: 0 + length = no panic with that many elements (code = len),
    then 1000000 = index panic, 1000001 = assertion panic *)
Definition arr_code {T} (r : ares (list T)) : N :=
  match r with AOk l => N.of_nat (length l) | APanic PIndex => 1000000 | APanic _ => 1000001 end.
Definition chk_arrs (bytes : list N) (base : Z) (maxArr : Z) (cs ct cf : N) : bool :=
  match decode_from base bytes maxArr with
  | DOk d _ => (arr_code (r_strings (d_kv d) k_tokens) =? cs) && (arr_code (r_uints (d_kv d) k_token_type) =? ct) && (arr_code (r_floats (d_kv d) k_scores) =? cf)
  | _ => true
  end.
