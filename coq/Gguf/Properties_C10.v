(** Property C10 - untrusted model files: decoding ANY byte string ends with a decoded model or an error; it never
    panics, terminates, and allocates memory in proportion to the input.  Theorems only (proofs in Total.v).

    [decode bytes maxArr] models ggml.Decode(bytes.NewReader(bytes), maxArr) of /repo with
    fixes/C10-decoder-guards.patch applied: every Go operation that can panic (slice expression, make, Truncate,
    integer division) is a model primitive returning [RPanic] when Go would panic, every loop runs on fuel, and
    every allocation request is added to a meter. *)
From Coq Require Import List NArith ZArith Bool.
From V Require Import Common.Bytes Gguf.Model Gguf.Total.
Import ListNotations.
Open Scope N_scope.

(** no panic, for every byte string and every maxArraySize (negative = collect everything, 0 = default 1024);
    and termination: the loops of the decoder run on fuel [length of the remaining input + 1] and never exhaust it
    ([EFuel] is the model's "did not terminate") *)
Theorem C10_decode_total : forall (bytes : list N) (maxArr : Z),
  match decode bytes maxArr with
  | DOk _ _ => True
  | DErr e _ => e <> EFuel
  | DPanic _ _ => False
  end.
Proof. exact decode_total. Qed.
Print Assumptions C10_decode_total.

Corollary C10_decode_ok_or_error : forall bytes maxArr,
  (exists d al, decode bytes maxArr = DOk d al) \/ (exists e al, decode bytes maxArr = DErr e al /\ e <> EFuel).
Proof. exact decode_ok_or_error. Qed.
Print Assumptions C10_decode_ok_or_error.

(** allocation is linear in the input with explicit constants: at most 256 bytes per input byte plus 78368
    (65536 of fixed buffers + 12832 for the one bounded pre-allocation that can precede a failing read), whatever
    lengths and counts the file declares and whatever maxArraySize is - including "collect all arrays" *)
Theorem C10_alloc_linear : forall (bytes : list N) (maxArr : Z),
  d_alloc (decode bytes maxArr) <= 256 * N.of_nat (length bytes) + 78368.
Proof. exact decode_alloc_linear. Qed.
Print Assumptions C10_alloc_linear.

(** non-vacuity: the three outcomes exist, and a file declaring a 2^40-element array / a 2^63 string length /
    alignment 0 is an error with a small meter *)
Definition tiny_ok : list N := [71;71;85;70; 3;0;0;0; 0;0;0;0;0;0;0;0; 0;0;0;0;0;0;0;0].
Example C10_ex_ok : exists d al, decode tiny_ok 0 = DOk d al /\ d_end d = 24%Z.
Proof. vm_compute. eauto. Qed.

Definition huge_array : list N :=
  [71;71;85;70; 3;0;0;0; 0;0;0;0;0;0;0;0; 1;0;0;0;0;0;0;0;  1;0;0;0;0;0;0;0; 97;  9;0;0;0; 4;0;0;0; 0;0;0;0;0;1;0;0].
Example C10_ex_huge_array : decode huge_array (-1) = DErr EEof (65536 + 1 + 32 + 16 * 1024).
Proof. vm_compute. reflexivity. Qed.

Definition neg_string : list N := [71;71;85;70; 3;0;0;0; 0;0;0;0;0;0;0;0; 1;0;0;0;0;0;0;0;  255;255;255;255;255;255;255;255].
Example C10_ex_neg_string : decode neg_string 0 = DErr ELen 65536.
Proof. vm_compute. reflexivity. Qed.
