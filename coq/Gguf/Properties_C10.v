(** Property C10 - untrusted model files: error, never panic / runaway allocation. Theorems only. *)
From Coq Require Import List NArith ZArith Bool.
From V Require Import Common.Bytes Gguf.Model.
Import ListNotations.
Open Scope N_scope.

Theorem C10_empty_is_eof : forall maxArr, decode [] maxArr = DErr EEof base_alloc.
Proof. intros; reflexivity. Qed.
Print Assumptions C10_empty_is_eof.
