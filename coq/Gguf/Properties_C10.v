(** Property C10 - untrusted model files: decoding ANY byte string ends with a decoded model or an error; it never
    panics, terminates, and allocates memory in proportion to the input.  Theorems only (proofs in Total.v).

    [decode bytes maxArr] models ggml.Decode(bytes.NewReader(bytes), maxArr) of /repo with
    fixes/C10-decoder-guards.patch applied: every Go operation that can panic (slice expression, make, Truncate,
    integer division) is a model primitive returning [RPanic] when Go would panic, every loop runs on fuel, and
    every allocation request is added to a meter. *)
From Coq Require Import List NArith ZArith Bool.
From V Require Import Common.Bytes Gguf.Model Gguf.Total.
Import ListNotations.
Open Scope N_scope.

(** no panic, for every byte string and every maxArraySize (negative = collect everything, 0 = default 1024);
    and termination: the loops of the decoder run on fuel [length of the remaining input + 1] and never exhaust it
    ([EFuel] is the model's "did not terminate") *)
Theorem C10_decode_total : forall (bytes : list N) (maxArr : Z),
  match decode bytes maxArr with
  | DOk _ _ => True
  | DErr e _ => e <> EFuel
  | DPanic _ _ => False
  end.
Proof. exact decode_total. Qed.
Print Assumptions C10_decode_total.

Corollary C10_decode_ok_or_error : forall bytes maxArr,
  (exists d al, decode bytes maxArr = DOk d al) \/ (exists e al, decode bytes maxArr = DErr e al /\ e <> EFuel).
Proof. exact decode_ok_or_error. Qed.
Print Assumptions C10_decode_ok_or_error.

(** allocation is linear in the input with explicit constants: at most 256 bytes per input byte plus 78368
    (65536 of fixed buffers + 12832 for the one bounded pre-allocation that can precede a failing read), whatever
    lengths and counts the file declares and whatever maxArraySize is - including "collect all arrays" *)
Theorem C10_alloc_linear : forall (bytes : list N) (maxArr : Z),
  d_alloc (decode bytes maxArr) <= 256 * N.of_nat (length bytes) + 78368.
Proof. exact decode_alloc_linear. Qed.
Print Assumptions C10_alloc_linear.

(** the same two statements for a decode that starts at any absolute offset of a larger file (server/create.go ggufLayers
    decodes model after model from one blob) *)
Theorem C10_decode_from_total : forall (base : Z) (bytes : list N) (maxArr : Z),
  match decode_from base bytes maxArr with
  | DOk _ _ => True
  | DErr e _ => e <> EFuel
  | DPanic _ _ => False
  end.
Proof. exact decode_from_total. Qed.
Print Assumptions C10_decode_from_total.

(** progress: a successful decode ends at least 16 bytes after the position it started from - no tensor size can move
    the reader backwards (fixes/C10-tensor-size-rewind.patch) - so the loop of ggufLayers, which decodes again from the end
    position while it is inside the file, terminates.  Files shorter than 2^63 bytes (int64 positions). *)
Theorem C10_decode_progress : forall (base : Z) (bytes : list N) (maxArr : Z) d al,
  (0 <= base)%Z -> (base + Z.of_nat (length bytes) < Z.of_N two63)%Z ->
  decode_from base bytes maxArr = DOk d al -> (base + 16 <= d_end d)%Z.
Proof. exact decode_from_progress. Qed.
Print Assumptions C10_decode_progress.

(** ... and with at least one tensor it is not before the tensor data offset: the position arithmetic is carried out step by step
    in int64 and every step that leaves the int64 range is an error, so a table of tensor sizes whose running sum wraps (each
    size fitting an int64) cannot produce a small end offset *)
Theorem C10_decode_end_after_data : forall (base : Z) (bytes : list N) (maxArr : Z) d al,
  (0 <= base)%Z -> (base + Z.of_nat (length bytes) < Z.of_N two63)%Z ->
  decode_from base bytes maxArr = DOk d al -> d_tensors d <> [] -> (Z.of_N (d_toff d) <= d_end d)%Z.
Proof. exact decode_from_end_ge_toff. Qed.
Print Assumptions C10_decode_end_after_data.

(** the typed accessors that create (ggufLayers, detectChatTemplate, createModel) and show (Capabilities) call on a decoded
    file - Architecture, Kind, ChatTemplate, FileType, ParameterCount, with keyValue's checked assertion and its
    [defaultValue[0]] index expression modelled as panicking primitives - never panic on the KV of ANY decoded file.
    (The accessors of the model-load path - GraphSize, GQA, Strings/Uints/Floats - are NOT covered: they can panic and are
    monitored on the implementation only, see notes/C10.md.) *)
Theorem C10_accessors_total : forall base bytes maxArr d al,
  decode_from base bytes maxArr = DOk d al -> accessors_ok (d_kv d) = true.
Proof. exact accessors_total. Qed.
Print Assumptions C10_accessors_total.

(** ... and the hypothesis matters: on a KV that did not come out of the decoder ParameterCount panics *)
Example C10_parameter_count_needs_decode : r_parameter_count [] = APanic PIndex.
Proof. exact parameter_count_needs_decode. Qed.

(** the scalar typed accessor (keyValue with at least one default, as String / Uint / Float / Bool pass) is total on ANY KV: a value
    of another type or a missing key yields the default *)
Theorem C10_key_value_total : forall (T : Type) (proj : val -> option T) m key d ds, is_ok (key_value proj m key (d :: ds)) = true.
Proof. exact @key_value_ok_default. Qed.
Print Assumptions C10_key_value_total.

(** the array accessors of the model-load path (KV.Strings / Uints / Floats) are NOT total on decoded files - the element type and
    the array length come from the file, and arrays above maxArraySize have a size but no values - so this statement is refuted
    (witness: tokenizer.ggml.tokens stored as an int32 array); they are total exactly when the array was collected and its elements
    have the asserted type.  No create/show consumer calls them on /repo (monitored through the API on every consumed key). *)
Definition C10_array_accessors_total_full : Prop := array_accessors_total_full.
Theorem C10_array_accessors_total_refuted : ~ C10_array_accessors_total_full.
Proof. exact array_accessors_total_refuted. Qed.
Print Assumptions C10_array_accessors_total_refuted.
Theorem C10_array_accessors_total_partial : forall (T : Type) (proj : val -> option T) m key,
  collected_typed proj m key -> is_ok (arr_elems proj m key) = true.
Proof. exact @arr_elems_partial. Qed.
Print Assumptions C10_array_accessors_total_partial.

(** non-vacuity: the three outcomes exist, and a file declaring a 2^40-element array / a 2^63 string length /
    alignment 0 is an error with a small meter *)
Definition tiny_ok : list N := [71;71;85;70; 3;0;0;0; 0;0;0;0;0;0;0;0; 0;0;0;0;0;0;0;0].
Example C10_ex_ok : exists d al, decode tiny_ok 0 = DOk d al /\ d_end d = 24%Z.
Proof. vm_compute. eauto. Qed.

Definition huge_array : list N :=
  [71;71;85;70; 3;0;0;0; 0;0;0;0;0;0;0;0; 1;0;0;0;0;0;0;0;  1;0;0;0;0;0;0;0; 97;  9;0;0;0; 4;0;0;0; 0;0;0;0;0;1;0;0].
Example C10_ex_huge_array : decode huge_array (-1) = DErr EEof (65536 + 1 + 32 + 16 * 1024).
Proof. vm_compute. reflexivity. Qed.

Definition neg_string : list N := [71;71;85;70; 3;0;0;0; 0;0;0;0;0;0;0;0; 1;0;0;0;0;0;0;0;  255;255;255;255;255;255;255;255].
Example C10_ex_neg_string : decode neg_string 0 = DErr ELen 65536.
Proof. vm_compute. reflexivity. Qed.
