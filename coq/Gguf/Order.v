(** C05: the order WriteGGUF leaves the tensors in (slices.SortStableFunc with the block comparator), for ANY number of tensors:
    always a permutation; sorted by the comparator whenever the comparator is a consistent order on the block numbers present;
    and the comparator is NOT consistent in general (non-block < blk.0 < blk.1 < non-block). *)
From Coq Require Import List NArith ZArith Bool Arith Lia ZifyBool ZifyNat ZifyN Permutation Sorting.Sorted.
From V Require Import Common.Bytes Gguf.Model Gguf.RoundTrip.
Import ListNotations.
Open Scope Z_scope.

Lemma cmp_le_iff i j : cmp_block i j <= 0 <-> ~ (i < 0 /\ 0 < j) /\ ((0 < i /\ j < 0) \/ i <= j).
Proof.
  unfold cmp_block.
  destruct (Z.ltb_spec i 0), (Z.gtb_spec j 0), (Z.gtb_spec i 0), (Z.ltb_spec j 0); cbn [andb];
    try (destruct (Z.compare_spec i j)); lia.
Qed.

Lemma cmp_lt_iff i j : cmp_block i j < 0 <-> ~ (i < 0 /\ 0 < j) /\ ((0 < i /\ j < 0) \/ i < j).
Proof.
  unfold cmp_block.
  destruct (Z.ltb_spec i 0), (Z.gtb_spec j 0), (Z.gtb_spec i 0), (Z.ltb_spec j 0); cbn [andb];
    try (destruct (Z.compare_spec i j)); lia.
Qed.

(** the comparator is total ... *)
Lemma cmp_total i j : cmp_block i j <= 0 \/ cmp_block j i <= 0.
Proof. rewrite !cmp_le_iff. lia. Qed.
Lemma cmp_not_lt i j : ~ cmp_block i j < 0 -> cmp_block j i <= 0.
Proof. rewrite cmp_lt_iff, cmp_le_iff. lia. Qed.

(** ... and transitive on a set of block numbers that does not contain negative, zero and positive numbers all at once *)
Definition consistent (bs : list Z) : Prop :=
  (forall b, In b bs -> 0 <= b) \/ (forall b, In b bs -> b <> 0) \/ (forall b, In b bs -> b <= 0).

Lemma cmp_trans bs i j k : consistent bs -> In i bs -> In j bs -> In k bs ->
  cmp_block i j <= 0 -> cmp_block j k <= 0 -> cmp_block i k <= 0.
Proof.
  intros Hc Hi Hj Hk. rewrite !cmp_le_iff.
  destruct Hc as [H|[H|H]]; pose proof (H i Hi); pose proof (H j Hj); pose proof (H k Hk); lia.
Qed.

(** the real comparator is not transitive: a tensor without block number sorts before blk.0, blk.0 before blk.1, and blk.1
    before the tensor without block number *)
Lemma cmp_cycle : cmp_block (-1) 0 < 0 /\ cmp_block 0 1 < 0 /\ cmp_block 1 (-1) < 0.
Proof. vm_compute. repeat split. Qed.

Definition comparator_transitive_full : Prop :=
  forall i j k : Z, cmp_block i j <= 0 -> cmp_block j k <= 0 -> cmp_block i k <= 0.
Lemma comparator_not_transitive : ~ comparator_transitive_full.
Proof.
  intro H. assert (H0 : cmp_block 1 0 <= 0) by (apply (H 1 (-1) 0); vm_compute; discriminate).
  vm_compute in H0. apply H0. reflexivity.
Qed.

Section Sort.
  Context {T : Type} (block : T -> Z).
  Definition le_t (a b : T) : Prop := cmp_block (block a) (block b) <= 0.

  (** [Desc l]: every element is le_t all earlier ones (the reversed sorted prefix insert_ts works on) *)
  Definition Desc (l : list T) : Prop := StronglySorted (fun a b => le_t b a) l.

  Lemma insert_ts_in x l y : In y (insert_ts block x l) -> y = x \/ In y l.
  Proof.
    intro H. apply (Permutation_in _ (Permutation_sym (insert_ts_perm block x l))) in H. destruct H; auto.
  Qed.

  Lemma insert_desc bs x l :
    consistent bs -> (forall y, In y (x :: l) -> In (block y) bs) -> Desc l -> Desc (insert_ts block x l).
  Proof.
    intros Hc. induction l as [|y r IH]; intros Hin Hd; cbn [insert_ts].
    - constructor; constructor.
    - inversion Hd as [|? ? Hdr Hall]; subst.
      destruct (Z.ltb_spec (cmp_block (block x) (block y)) 0) as [Hlt|Hge].
      + constructor.
        * apply IH; [intros z Hz; apply Hin; destruct Hz; [left|right; right]; assumption | exact Hdr].
        * apply Forall_forall. intros z Hz. apply insert_ts_in in Hz. destruct Hz as [->|Hz].
          -- unfold le_t. lia.
          -- rewrite Forall_forall in Hall. apply Hall, Hz.
      + constructor; [exact Hd|]. constructor.
        * unfold le_t. apply cmp_not_lt. lia.
        * apply Forall_forall. intros z Hz. rewrite Forall_forall in Hall. specialize (Hall z Hz). unfold le_t in *.
          eapply (cmp_trans bs _ (block y)); try eassumption.
          -- apply Hin. right. right. exact Hz.
          -- apply Hin. right. left. reflexivity.
          -- apply Hin. left. reflexivity.
          -- apply cmp_not_lt. lia.
  Qed.

  Lemma fold_insert_desc bs ts : forall acc,
    consistent bs -> (forall y, In y (acc ++ ts) -> In (block y) bs) -> Desc acc ->
    Desc (fold_left (fun acc x => insert_ts block x acc) ts acc).
  Proof.
    induction ts as [|x ts IH]; intros acc Hc Hin Hd; cbn [fold_left]; [exact Hd|].
    apply IH; [exact Hc | | ].
    - intros y Hy. apply in_app_or in Hy. destruct Hy as [Hy|Hy].
      + apply insert_ts_in in Hy. apply Hin. apply in_or_app. destruct Hy as [->|Hy]; [right; left; reflexivity | left; exact Hy].
      + apply Hin. apply in_or_app. right. right. exact Hy.
    - eapply insert_desc; [exact Hc | | exact Hd].
      intros y Hy. apply Hin. apply in_or_app. destruct Hy as [->|Hy]; [right; left; reflexivity | left; exact Hy].
  Qed.

  Lemma ss_snoc (R : T -> T -> Prop) m a : StronglySorted R m -> Forall (fun b => R b a) m -> StronglySorted R (m ++ [a]).
  Proof.
    induction 1 as [|b m Hs IH Hb]; intro Hall; cbn [app].
    - constructor; constructor.
    - inversion Hall; subst. constructor; [apply IH; assumption|].
      apply Forall_app. split; [exact Hb | constructor; [assumption | constructor]].
  Qed.

  Lemma desc_rev l : Desc l -> StronglySorted le_t (rev l).
  Proof.
    induction 1 as [|a l Hd IH Hall]; cbn [rev]; [constructor|].
    apply ss_snoc; [exact IH|].
    apply Forall_forall. intros b Hb. rewrite Forall_forall in Hall. apply Hall. apply in_rev. exact Hb.
  Qed.

  (** sorted by the comparator, for any number of tensors, when the comparator is consistent on their block numbers *)
  Theorem sort_ts_sorted ts : consistent (map block ts) -> StronglySorted le_t (sort_ts block ts).
  Proof.
    intro Hc. unfold sort_ts. apply desc_rev. apply (fold_insert_desc (map block ts)); [exact Hc | | constructor].
    intros y Hy. cbn [app] in Hy. apply in_map, Hy.
  Qed.
End Sort.

(** with the real Tensor.block (the Sscanf model): names that do and do not carry a block number *)
Definition n_embd : str := [116;111;107;101;110;95;101;109;98;100;46;119;101;105;103;104;116]%N.   (* token_embd.weight *)
Definition n_blk0 : str := [98;108;107;46;48;46;119]%N.                                             (* blk.0.w *)
Definition n_blk1 : str := [98;108;107;46;49;46;119]%N.                                             (* blk.1.w *)

Lemma real_comparator_inconsistent :
  cmp_block (block_of n_embd) (block_of n_blk0) < 0 /\ cmp_block (block_of n_blk0) (block_of n_blk1) < 0 /\
  cmp_block (block_of n_blk1) (block_of n_embd) < 0.
Proof. vm_compute. repeat split. Qed.

(** block_of on canonical names: "blk." ++ decimal digits ++ "." ++ anything is the number written *)
Definition all_digits (d : str) : Prop := Forall (fun b => (48 <= b <= 57)%N) d.

Lemma take_while_digits d rest : all_digits d -> take_while is_numch (d ++ 46%N :: rest) = d.
Proof.
  induction 1 as [|b d Hb _ IH]; cbn [app take_while].
  - reflexivity.
  - unfold is_numch at 1. destruct (N.leb_spec 48 b), (N.leb_spec b 57); try lia. cbn [andb orb]. rewrite IH. reflexivity.
Qed.

Lemma dec_value_nonneg d : forall a, 0 <= a -> 0 <= fold_left (fun a d => 10 * a + Z.of_N (d - 48)) d a.
Proof. induction d as [|b d IH]; intros a Ha; cbn [fold_left]; [exact Ha | apply IH; lia]. Qed.

Lemma digit_cases b : (48 <= b <= 57)%N ->
  b = 48%N \/ b = 49%N \/ b = 50%N \/ b = 51%N \/ b = 52%N \/ b = 53%N \/ b = 54%N \/ b = 55%N \/ b = 56%N \/ b = 57%N.
Proof. lia. Qed.

Lemma skip_space_digit fuel b t : (48 <= b <= 57)%N -> skip_space fuel (b :: t) = Some (b :: t).
Proof.
  intro Hb. destruct fuel; [reflexivity|].
  destruct (digit_cases b Hb) as [->|[->|[->|[->|[->|[->|[->|[->|[->| ->]]]]]]]]]; reflexivity.
Qed.

(** "blk." ++ digits ++ "." ++ anything has the block number the digits spell (when it fits an int64) *)
Theorem block_of_canonical d rest :
  d <> [] -> all_digits d -> dec_value d < Z.of_N two63 ->
  block_of (s_blk ++ d ++ 46%N :: rest) = dec_value d.
Proof.
  intros Hne Hd Hlt. unfold block_of.
  change (prefixb s_blk (s_blk ++ d ++ 46%N :: rest)) with (prefixb s_blk ([98; 108; 107; 46]%N ++ d ++ 46%N :: rest)).
  cbn [app prefixb s_blk N.eqb Pos.eqb andb skipn].
  destruct d as [|b d]; [contradiction|]. inversion Hd as [|? ? Hb Hd']; subst.
  cbn [app]. rewrite skip_space_digit by exact Hb.
  assert (Esign : split_sign (b :: d ++ 46%N :: rest) = (false, b :: d ++ 46%N :: rest)).
  { destruct (digit_cases b Hb) as [->|[->|[->|[->|[->|[->|[->|[->|[->| ->]]]]]]]]]; reflexivity. }
  rewrite Esign.
  change (b :: d ++ 46%N :: rest) with ((b :: d) ++ 46%N :: rest).
  rewrite take_while_digits by exact Hd.
  assert (Eu : existsb (N.eqb 95) (b :: d) = false).
  { clear -Hd. induction Hd as [|c l Hc _ IH]; [reflexivity|]. cbn [existsb]. rewrite IH. destruct (N.eqb_spec 95 c); [lia | reflexivity]. }
  rewrite Eu.
  pose proof (dec_value_nonneg (b :: d) 0 ltac:(lia)) as Hnn. fold (dec_value (b :: d)) in Hnn.
  destruct (Z.ltb_spec (dec_value (b :: d)) (- Z.of_N two63)); [unfold two63 in *; lia|].
  destruct (Z.ltb_spec (Z.of_N two63 - 1) (dec_value (b :: d))); [lia|]. cbn [orb].
  rewrite skipn_app, skipn_all, Nat.sub_diag. reflexivity.
Qed.

Lemma order_sorted (block : tensor -> Z) (ts : list tensor) :
  consistent (map block ts) ->
  Permutation ts (sort_ts block ts) /\ StronglySorted (fun a b => cmp_block (block a) (block b) <= 0) (sort_ts block ts).
Proof. intro H. split; [apply sort_ts_perm | exact (sort_ts_sorted block ts H)]. Qed.
