(** C19 - Chat prompt keeps newest messages that fit, system messages, each image once.
    Theorems only (proofs in Proofs.v, ProofsImg.v, ProofsRender.v, ProofsMain.v).

    Everything is quantified over the conversation [msgs] (any roles, contents, images), the context length
    [numctx], the token counter [count], the model kind ([mllama], [projcount]) and the template style: the
    renderer [render] is an arbitrary function from message lists to strings in the main theorems; the
    prompt-string statements are for the modelled template families with arbitrary literal texts.

    [scan_all ... msgs = Ok n]: the backwards scan of chatPrompt ends with the retained run [msgs[n:]].
    [fits ... msgs k]: the template's rendering of [system messages of msgs[:k]] ++ msgs[k:] (plus image tokens)
    does not exceed the context length - what chatPrompt measures for the suffix start [k].  *)
From Coq Require Import List NArith ZArith Bool Arith Lia.
From V Require Import Common.Bytes Prompt.Model Prompt.Proofs Prompt.ProofsImg Prompt.ProofsRender Prompt.ProofsMain.
Import ListNotations.
Open Scope N_scope.

(** a prompt is built for every non-empty conversation (for mllama: unless a message carries several images,
    in which case the request is rejected with errTooManyImages) *)
Theorem C19_prompt_built :
  forall render count mllama projcount numctx msgs,
    msgs <> [] -> (mllama = false \/ forall m, In m msgs -> (length (images m) <= 1)%nat) ->
    exists p imgs, chat_prompt render count mllama projcount numctx msgs = Ok (p, imgs).
Proof. exact chat_prompt_total. Qed.
Print Assumptions C19_prompt_built.

(** the prompt and the image list are those of the retained start computed by the scan *)
Theorem C19_prompt_of_start :
  forall render count mllama projcount numctx msgs p imgs,
    chat_prompt render count mllama projcount numctx msgs = Ok (p, imgs) <->
    exists n, scan_all render count mllama projcount numctx msgs = Ok n /\
              p = render (final_list mllama msgs n) /\ imgs = final_images msgs n.
Proof. exact prompt_of_start. Qed.
Print Assumptions C19_prompt_of_start.

(** the latest message is always the last message handed to the template: same role and images, unchanged if it
    has no images, and its content still ends the rewritten content when it holds no "[img]" placeholder *)
Theorem C19_latest_retained :
  forall render count mllama projcount numctx msgs n,
    scan_all render count mllama projcount numctx msgs = Ok n ->
    exists pre x x',
      nth_error msgs (length msgs - 1) = Some x /\
      final_list mllama msgs n = pre ++ [x'] /\
      role x' = role x /\ images x' = images x /\
      (images x = [] -> x' = x) /\
      (containsb (content x) s_img = false -> Suffix (content x) (content x')).
Proof. exact latest_retained. Qed.
Print Assumptions C19_latest_retained.

(** the retained messages are the run msgs[n:]: every later suffix start fits, the next earlier one does not;
    if fitting is monotone in the suffix start this is the longest fitting suffix; only the latest message is
    retained if nothing more fits *)
Theorem C19_retained_run :
  forall render count mllama projcount numctx msgs n,
    scan_all render count mllama projcount numctx msgs = Ok n ->
    (n < length msgs)%nat /\
    (forall k, (n <= k)%nat -> (k < length msgs - 1)%nat -> fits render count mllama projcount numctx msgs k = true) /\
    (n = O \/ fits render count mllama projcount numctx msgs (n - 1) = false) /\
    ((forall k, (S k < length msgs - 1)%nat ->
        fits render count mllama projcount numctx msgs k = true -> fits render count mllama projcount numctx msgs (S k) = true) ->
     forall k, (k < length msgs - 1)%nat -> fits render count mllama projcount numctx msgs k = true -> (n <= k)%nat) /\
    ((2 <= length msgs)%nat -> fits render count mllama projcount numctx msgs (length msgs - 2) = false -> n = (length msgs - 1)%nat).
Proof. exact start_facts. Qed.
Print Assumptions C19_retained_run.

(** every system message that precedes the retained run is handed to the template, ahead of the run, in the
    original order (the list is: system messages of msgs[:n], then the rewritten msgs[n:]) *)
Theorem C19_system_kept :
  forall render count mllama projcount numctx msgs n,
    scan_all render count mllama projcount numctx msgs = Ok n ->
    final_list mllama msgs n = filter is_system (firstn n msgs) ++ rewrite_all mllama 0 (skipn n msgs) /\
    forall j m, (j < n)%nat -> nth_error msgs j = Some m -> is_system m = true ->
      In m (filter is_system (firstn n msgs)).
Proof. exact system_kept. Qed.
Print Assumptions C19_system_kept.

(** the retained messages keep their original order, roles and images; only contents of messages with images
    are rewritten *)
Theorem C19_order :
  forall render count mllama projcount numctx msgs n,
    scan_all render count mllama projcount numctx msgs = Ok n ->
    map role (final_list mllama msgs n) = map role (filter is_system (firstn n msgs)) ++ map role (skipn n msgs) /\
    map images (retained mllama msgs n) = map images (skipn n msgs) /\
    length (retained mllama msgs n) = length (skipn n msgs) /\
    (forall j m, nth_error (skipn n msgs) j = Some m ->
       nth_error (retained mllama msgs n) j = Some (rewrite_msg mllama (nimages (firstn j (skipn n msgs))) m)) /\
    ((forall m, In m (skipn n msgs) -> images m = []) -> retained mllama msgs n = skipn n msgs).
Proof. exact order_kept. Qed.
Print Assumptions C19_order.

(** the image list is exactly the images of the retained messages in order, numbered 0..k-1; nothing of a
    dropped message is sent *)
Theorem C19_images_sent :
  forall render count mllama projcount numctx msgs n,
    scan_all render count mllama projcount numctx msgs = Ok n ->
    let sent := concat (map images (skipn n msgs)) in
    map snd (final_images msgs n) = sent /\
    map fst (final_images msgs n) = map N.of_nat (seq 0 (length sent)) /\
    (forall k id d, nth_error (final_images msgs n) k = Some (id, d) -> id = N.of_nat k /\ nth_error sent k = Some d).
Proof. exact images_sent. Qed.
Print Assumptions C19_images_sent.

(** for retained contents free of the literal "[img-": the tag of image index i occurs exactly once in the
    retained messages if i is an index of the image list and never otherwise, and it occurs in the message
    that carries that image ([occ t s] = number of positions of s at which t starts) *)
Theorem C19_images_once :
  forall render count mllama projcount numctx msgs n,
    scan_all render count mllama projcount numctx msgs = Ok n ->
    free_of_tags (skipn n msgs) ->
    (forall i, occ_total (tag i) (retained mllama msgs n) = if i <? nimages (skipn n msgs) then 1%nat else 0%nat) /\
    (forall i j m m', nth_error (skipn n msgs) j = Some m -> nth_error (retained mllama msgs n) j = Some m' ->
       occ (tag i) (content m') = in_range (nimages (firstn j (skipn n msgs))) i (nimg m)) /\
    nimages (skipn n msgs) = N.of_nat (length (final_images msgs n)).
Proof. exact images_once. Qed.
Print Assumptions C19_images_once.

(** ** prompt strings of the modelled template families *)

(** templates that range over .Messages print the contents of everything they are handed, in order *)
Theorem C19_range_prompt_ordered :
  forall pre mid post fin count mllama projcount numctx msgs p imgs,
    chat_prompt (render_style (Range pre mid post fin)) count mllama projcount numctx msgs = Ok (p, imgs) ->
    exists n, scan_all (render_style (Range pre mid post fin)) count mllama projcount numctx msgs = Ok n /\
      ordered_in (map content (final_list mllama msgs n)) p.
Proof.
  intros pre mid post fin count mllama projcount numctx msgs p imgs H.
  apply prompt_of_start in H as (n & Hn & -> & _). exists n. split; [exact Hn | apply range_ordered].
Qed.
Print Assumptions C19_range_prompt_ordered.

Theorem C19_range_prompt_contains :
  forall pre mid post fin count mllama projcount numctx msgs p imgs,
    chat_prompt (render_style (Range pre mid post fin)) count mllama projcount numctx msgs = Ok (p, imgs) ->
    exists n, scan_all (render_style (Range pre mid post fin)) count mllama projcount numctx msgs = Ok n /\
      (forall j m, (j < n)%nat -> nth_error msgs j = Some m -> is_system m = true -> Infix (content m) p) /\
      (forall j m, nth_error (skipn n msgs) j = Some m ->
         Infix (content (rewrite_msg mllama (nimages (firstn j (skipn n msgs))) m)) p).
Proof.
  intros pre mid post fin count mllama projcount numctx msgs p imgs H.
  apply prompt_of_start in H as (n & Hn & -> & _). exists n. split; [exact Hn|]. split.
  - intros j m Hj Hm Hs. apply range_contains. eapply final_list_In_sys; eassumption.
  - intros j m Hj. apply range_contains, final_list_In_retained, Hj.
Qed.
Print Assumptions C19_range_prompt_contains.

(** templates that print .System and the user/assistant messages of .Messages *)
Theorem C19_sysrange_prompt_contains :
  forall a b c d e f g count mllama projcount numctx msgs p imgs,
    chat_prompt (render_style (SysRange a b c d e f g)) count mllama projcount numctx msgs = Ok (p, imgs) ->
    exists n, scan_all (render_style (SysRange a b c d e f g)) count mllama projcount numctx msgs = Ok n /\
      (forall j m, (j < n)%nat -> nth_error msgs j = Some m -> is_system m = true -> Infix (content m) p) /\
      (forall j m, nth_error (skipn n msgs) j = Some m -> std_role (role m) ->
         Infix (content (rewrite_msg mllama (nimages (firstn j (skipn n msgs))) m)) p).
Proof.
  intros a b c d e f g count mllama projcount numctx msgs p imgs H.
  apply prompt_of_start in H as (n & Hn & -> & _). exists n. split; [exact Hn|]. split.
  - intros j m Hj Hm Hs. apply sysrange_contains; [eapply final_list_In_sys; eassumption | apply std_role_system, Hs].
  - intros j m Hj Hr. apply sysrange_contains; [apply final_list_In_retained, Hj | rewrite rewrite_msg_role; exact Hr].
Qed.
Print Assumptions C19_sysrange_prompt_contains.

(** legacy System/Prompt/Response templates: the full statement is false (known finding
    C19-legacy-flow-overwrite), it holds when every message handed to the template has a standard role and a
    non-empty content *)
Definition C19_legacy_contains_full : Prop :=
  forall respif a b c d e f l m,
    In m l -> std_role (role m) -> Infix (content m) (render_style (Legacy respif a b c d e f) l).

Theorem C19_legacy_contains_refuted : ~ C19_legacy_contains_full.
Proof.
  intros H. apply legacy_loses. apply (H false [] [] [] [] [] [] legacy_witness (mkMsg s_system [83] [])); [left; reflexivity | left; reflexivity].
Qed.
Print Assumptions C19_legacy_contains_refuted.

Theorem C19_legacy_contains_partial :
  forall respif a b c d e f l m,
    (forall x, In x l -> std_role (role x) /\ content x <> []) ->
    In m l -> Infix (content m) (render_style (Legacy respif a b c d e f) l).
Proof. intros respif a b c d e f l m. exact (legacy_contains respif a b c d e f l m). Qed.
Print Assumptions C19_legacy_contains_partial.

(** the code before fixes/C19-system-at-stop.patch ([chat_prompt_unrepaired]) drops the system message at which
    the scan stops; the repaired code keeps it *)
Definition C19_system_kept_unrepaired_full : Prop :=
  forall pre mid post fin count mllama projcount numctx msgs p imgs n j m,
    chat_prompt_unrepaired (render_style (Range pre mid post fin)) count mllama projcount numctx msgs = Ok (p, imgs) ->
    scan_all (render_style (Range pre mid post fin)) count mllama projcount numctx msgs = Ok n ->
    (j < n)%nat -> nth_error msgs j = Some m -> is_system m = true -> Infix (content m) p.

Theorem C19_system_kept_unrepaired_refuted : ~ C19_system_kept_unrepaired_full.
Proof.
  intros H. destruct unrepaired_drops as (Hn & (p & imgs & Hp & Hno) & _).
  apply Hno. exact (H [60] [62] [10] [] count_fields false false 2%Z unrepaired_witness p imgs 1%nat O _ Hp Hn (le_n 1) eq_refl eq_refl).
Qed.
Print Assumptions C19_system_kept_unrepaired_refuted.

(** ** non-vacuity *)
Definition ex_style : style := Range [60] [62] [10] [].
Definition ex_msgs : list msg :=
  [ mkMsg s_user [111;108;100;32;111;108;100;32;111;108;100] [7];      (* "old old old", one image: dropped *)
    mkMsg s_system [83;32;83] [];                                       (* "S S" *)
    mkMsg s_assistant [97;32;91;105;109;103;93] [8;9];                  (* "a [img]", two images *)
    mkMsg s_user [104;105] [] ].                                        (* "hi" *)

(** the scan stops at index 0: the older user message and its image are dropped, the run msgs[1:] is retained *)
Example C19_example_run :
  scan_all (render_style ex_style) count_fields false false 6 ex_msgs = Ok 1%nat /\
  chat_prompt (render_style ex_style) count_fields false false 6 ex_msgs =
    Ok ([60;115;121;115;116;101;109;62;83;32;83;10;
         60;97;115;115;105;115;116;97;110;116;62;91;105;109;103;45;49;93;97;32;91;105;109;103;45;48;93;10;
         60;117;115;101;114;62;104;105;10], [(0, 8); (1, 9)]).
Proof. split; vm_compute; reflexivity. Qed.

Example C19_example_free : free_of_tags (skipn 1 ex_msgs).
Proof.
  intros m [<-|[<-|[<-|[]]]]; apply containsb_false; vm_compute; reflexivity.
Qed.

(** fitting is monotone on the example, so its retained run is the longest fitting suffix *)
Example C19_example_monotone :
  forall k, (S k < length ex_msgs - 1)%nat ->
    fits (render_style ex_style) count_fields false false 6 ex_msgs k = true ->
    fits (render_style ex_style) count_fields false false 6 ex_msgs (S k) = true.
Proof.
  intros k Hk. assert (Hc : (k = 0 \/ k = 1)%nat) by (cbn in Hk; lia).
  destruct Hc as [-> | ->]; vm_compute; intros H; first [discriminate | reflexivity].
Qed.

Example C19_example_legacy_guard :
  forall x, In x [mkMsg s_system [83] []; mkMsg s_user [104;105] []] -> std_role (role x) /\ content x <> [].
Proof. intros x [<-|[<-|[]]]; split; try discriminate; [left | right; left]; reflexivity. Qed.

(** ** where the scan can stop, and what the chat handler passes *)

(** rendering [system messages of msgs[:i]] ++ msgs[i:] is the same list for i and i+1 when msgs[i] is a system
    message, so the scan stops at an image-free system message only if it is the one right before the latest
    message (which is never measured) - the situation repaired by fixes/C19-system-at-stop.patch *)
Theorem C19_stop_at_system :
  forall render count mllama projcount numctx msgs n m,
    scan_all render count mllama projcount numctx msgs = Ok (S n) ->
    nth_error msgs n = Some m -> is_system m = true -> images m = [] -> S n = (length msgs - 1)%nat.
Proof. exact stop_at_system. Qed.
Print Assumptions C19_stop_at_system.

(** server/routes.go ChatHandler: the conversation is the model's messages followed by the request's (so the latest
    message of the request is the latest message of the conversation), with the model's system prompt in front
    exactly when it is non-empty and the request does not start with a system message *)
Theorem C19_handler_conversation :
  forall system model_msgs req,
    req <> [] ->
    exists pre, chat_msgs system model_msgs req = pre ++ model_msgs ++ req /\
      ((pre = [] /\ (system = [] \/ exists r0 t, req = r0 :: t /\ is_system r0 = true)) \/
       (pre = [mkMsg s_system system []] /\ system <> [] /\ exists r0 t, req = r0 :: t /\ is_system r0 = false)).
Proof. exact chat_msgs_spec. Qed.
Print Assumptions C19_handler_conversation.

Example C19_example_stop_at_system :
  scan_all (render_style ex_style) count_fields false false 2
    [mkMsg s_system [83;32;83;32;83;32;83] []; mkMsg s_user [104;105] []] = Ok 1%nat.
Proof. vm_compute. reflexivity. Qed.
