(** The statements of Properties_C19.v assembled from Proofs.v / ProofsImg.v / ProofsRender.v. *)
From Coq Require Import List NArith ZArith Bool Arith Lia ZifyBool ZifyNat ZifyN.
From V Require Import Common.Bytes Prompt.Model Prompt.Proofs Prompt.ProofsImg Prompt.ProofsRender.
Import ListNotations.
Open Scope N_scope.

Section Main.
  Variable render : list msg -> str.
  Variable count : str -> N.
  Variable mllama : bool.
  Variable projcount : bool.
  Variable numctx : Z.

  Notation fitsb := (fits render count mllama projcount numctx).
  Notation startf := (scan_all render count mllama projcount numctx).
  Notation chatf := (chat_prompt render count mllama projcount numctx).

  Lemma prompt_of_start msgs p imgs :
    chatf msgs = Ok (p, imgs) <->
    exists n, startf msgs = Ok n /\ p = render (final_list mllama msgs n) /\ imgs = final_images msgs n.
  Proof.
    unfold chat_prompt. split.
    - destruct (startf msgs) as [n| |]; try discriminate. intros [= <- <-]. exists n. repeat split.
    - intros (n & -> & -> & ->). reflexivity.
  Qed.

  Lemma start_facts msgs n :
    startf msgs = Ok n ->
    (n < length msgs)%nat /\
    (forall k, (n <= k)%nat -> (k < length msgs - 1)%nat -> fitsb msgs k = true) /\
    (n = O \/ fitsb msgs (n - 1) = false) /\
    ((forall k, (S k < length msgs - 1)%nat -> fitsb msgs k = true -> fitsb msgs (S k) = true) ->
     forall k, (k < length msgs - 1)%nat -> fitsb msgs k = true -> (n <= k)%nat) /\
    ((2 <= length msgs)%nat -> fitsb msgs (length msgs - 2) = false -> n = (length msgs - 1)%nat).
  Proof.
    intros H. apply scan_all_ok in H. pose proof H as (H1 & H2 & H3 & _).
    split; [exact H1|]. split; [exact H2|]. split; [exact H3|]. split.
    - apply run_start_longest, H.
    - apply run_start_only_latest, H.
  Qed.

  Lemma place_images_plain imgs : forall id prefix prompt,
    containsb prompt s_img = false -> snd (place_images imgs id prefix prompt) = prompt.
  Proof.
    induction imgs as [|d imgs IH]; intros id prefix prompt H; cbn [place_images]; [reflexivity|].
    rewrite H. apply IH, H.
  Qed.

  Lemma rewrite_msg_keeps_content ml id m :
    containsb (content m) s_img = false -> Suffix (content m) (content (rewrite_msg ml id m)).
  Proof.
    intros H. unfold rewrite_msg. pose proof (place_images_plain (images m) id [] (content m) H) as Hp.
    destruct (place_images (images m) id [] (content m)) as [prefix prompt]. cbn [snd] in Hp. subst prompt.
    cbn [content]. eexists. rewrite app_assoc. reflexivity.
  Qed.

  Lemma latest_retained msgs n :
    startf msgs = Ok n ->
    exists pre x x',
      nth_error msgs (length msgs - 1) = Some x /\
      final_list mllama msgs n = pre ++ [x'] /\
      role x' = role x /\ images x' = images x /\
      (images x = [] -> x' = x) /\
      (containsb (content x) s_img = false -> Suffix (content x) (content x')).
  Proof.
    intros H. apply scan_all_ok in H as (Hlt & _).
    destruct (final_list_last mllama msgs n Hlt) as (pre & x & Hx & Hf).
    exists pre, x. eexists. split; [exact Hx|]. split; [exact Hf|].
    split; [apply rewrite_msg_role|]. split; [apply rewrite_msg_images|].
    split; [apply rewrite_msg_noimg | apply rewrite_msg_keeps_content].
  Qed.

  Lemma system_kept msgs n :
    startf msgs = Ok n ->
    final_list mllama msgs n = filter is_system (firstn n msgs) ++ rewrite_all mllama 0 (skipn n msgs) /\
    forall j m, (j < n)%nat -> nth_error msgs j = Some m -> is_system m = true ->
      In m (filter is_system (firstn n msgs)).
  Proof.
    intros _. split; [reflexivity|]. intros j m Hj Hn Hs. exact (system_before_kept msgs n j m Hj Hn Hs).
  Qed.

  Lemma order_kept msgs n :
    startf msgs = Ok n ->
    map role (final_list mllama msgs n) = map role (filter is_system (firstn n msgs)) ++ map role (skipn n msgs) /\
    map images (retained mllama msgs n) = map images (skipn n msgs) /\
    length (retained mllama msgs n) = length (skipn n msgs) /\
    (forall j m, nth_error (skipn n msgs) j = Some m ->
       nth_error (retained mllama msgs n) j = Some (rewrite_msg mllama (nimages (firstn j (skipn n msgs))) m)) /\
    ((forall m, In m (skipn n msgs) -> images m = []) -> retained mllama msgs n = skipn n msgs).
  Proof.
    intros _. unfold final_list, retained, sysmsgs. split; [rewrite map_app, map_role_rewrite_all; reflexivity|].
    split; [apply map_images_rewrite_all|]. split; [apply rewrite_all_length|]. split.
    - intros j m Hj. rewrite (rewrite_all_nth mllama 0 _ j m Hj). reflexivity.
    - apply rewrite_all_noimg.
  Qed.

  Lemma images_sent msgs n :
    startf msgs = Ok n ->
    let sent := concat (map images (skipn n msgs)) in
    map snd (final_images msgs n) = sent /\
    map fst (final_images msgs n) = map N.of_nat (seq 0 (length sent)) /\
    (forall k id d, nth_error (final_images msgs n) k = Some (id, d) -> id = N.of_nat k /\ nth_error sent k = Some d).
  Proof.
    intros _ sent. unfold final_images. fold sent. split; [apply number_snd|]. split.
    - rewrite number_fst. apply map_ext. intros k. lia.
    - intros k id d H. destruct (nth_error sent k) as [d'|] eqn:E.
      + rewrite (number_nth 0 sent k d' E) in H. injection H as <- <-. split; [lia | reflexivity].
      + exfalso. apply nth_error_None in E. assert (Hl : length (number 0 sent) = length sent).
        { rewrite <- (map_length snd), number_snd. reflexivity. }
        assert (nth_error (number 0 sent) k <> None) by congruence. apply nth_error_Some in H0. lia.
  Qed.

  Lemma images_once msgs n :
    startf msgs = Ok n -> free_of_tags (skipn n msgs) ->
    (forall i, occ_total (tag i) (retained mllama msgs n) = if i <? nimages (skipn n msgs) then 1%nat else 0%nat) /\
    (forall i j m m', nth_error (skipn n msgs) j = Some m -> nth_error (retained mllama msgs n) j = Some m' ->
       occ (tag i) (content m') = in_range (nimages (firstn j (skipn n msgs))) i (nimg m)) /\
    nimages (skipn n msgs) = N.of_nat (length (final_images msgs n)).
  Proof.
    intros _ Hfree. unfold retained. split; [|split].
    - intros i. rewrite rewrite_all_occ_total by exact Hfree. unfold in_range.
      destruct (i <? nimages (skipn n msgs)) eqn:E; destruct ((0 <=? i) && (i <? 0 + nimages (skipn n msgs))) eqn:E2; lia.
    - intros i j m m' Hj Hj'. eapply rewrite_all_occ_nth; eassumption.
    - unfold final_images. rewrite nimages_concat. rewrite <- (map_length snd (number 0 _)), number_snd. reflexivity.
  Qed.
End Main.

(** ** prompt level, for the modelled template families *)
Lemma std_role_system m : is_system m = true -> std_role (role m).
Proof. unfold is_system. intros H. apply eqb_str_spec in H. left. exact H. Qed.

Lemma final_list_In_sys ml msgs n j m :
  (j < n)%nat -> nth_error msgs j = Some m -> is_system m = true -> In m (final_list ml msgs n).
Proof. intros Hj Hn Hs. apply in_or_app. left. exact (system_before_kept msgs n j m Hj Hn Hs). Qed.

Lemma final_list_In_retained ml msgs n j m :
  nth_error (skipn n msgs) j = Some m ->
  In (rewrite_msg ml (nimages (firstn j (skipn n msgs))) m) (final_list ml msgs n).
Proof.
  intros Hj. apply in_or_app. right. unfold retained. eapply nth_error_In.
  rewrite (rewrite_all_nth ml 0 _ j m Hj). reflexivity.
Qed.

(** the legacy flow loses a system message: [system S, user "", system T] *)
Definition legacy_witness : list msg :=
  [mkMsg s_system [83] []; mkMsg s_user [] []; mkMsg s_system [84] []].

Lemma legacy_loses :
  ~ Infix [83] (render_legacy false [] [] [] [] [] [] legacy_witness).
Proof. apply containsb_false. vm_compute. reflexivity. Qed.

(** the code before the repair drops the system message at which the scan stopped *)
Definition unrepaired_witness : list msg :=
  [mkMsg s_system [83;32;83;32;83;32;83] []; mkMsg s_user [104;105] []].

Lemma unrepaired_drops :
  let render := render_range [60] [62] [10] [] in
  scan_all render count_fields false false 2 unrepaired_witness = Ok 1%nat /\
  (exists p imgs, chat_prompt_unrepaired render count_fields false false 2 unrepaired_witness = Ok (p, imgs) /\
                  ~ Infix [83;32;83;32;83;32;83] p) /\
  (exists p imgs, chat_prompt render count_fields false false 2 unrepaired_witness = Ok (p, imgs) /\
                  Infix [83;32;83;32;83;32;83] p).
Proof.
  cbv zeta. split; [vm_compute; reflexivity|]. split.
  - eexists _, _. split; [vm_compute; reflexivity|]. apply containsb_false. vm_compute. reflexivity.
  - eexists _, _. split; [vm_compute; reflexivity|]. apply containsb_spec. vm_compute. reflexivity.
Qed.

(** ** the scan can stop at a system message only right before the latest message (or if it carries images) *)
Lemma firstn_S_nth {A} (l : list A) i x : nth_error l i = Some x -> firstn (S i) l = firstn i l ++ [x].
Proof.
  revert i; induction l as [|y l IH]; intros [|i] H; cbn in *; try discriminate.
  - injection H as ->. reflexivity.
  - f_equal. apply IH, H.
Qed.

Lemma skipn_nth_cons {A} (l : list A) i x : nth_error l i = Some x -> skipn i l = x :: skipn (S i) l.
Proof.
  revert i; induction l as [|y l IH]; intros [|i] H; cbn in *; try discriminate.
  - injection H as ->. reflexivity.
  - apply IH, H.
Qed.

Lemma candidate_system_eq msgs i m :
  nth_error msgs i = Some m -> is_system m = true -> candidate msgs i = candidate msgs (S i).
Proof.
  intros Hn Hs. unfold candidate, sysmsgs. rewrite (firstn_S_nth msgs i m Hn), (skipn_nth_cons msgs i m Hn), filter_app.
  cbn [filter]. rewrite Hs, <- app_assoc. reflexivity.
Qed.

Lemma fits_system_eq render count mllama projcount numctx msgs i m :
  nth_error msgs i = Some m -> is_system m = true -> images m = [] ->
  fits render count mllama projcount numctx msgs i = fits render count mllama projcount numctx msgs (S i).
Proof.
  intros Hn Hs Hi. unfold fits, ctxlen. rewrite (candidate_system_eq msgs i m Hn Hs), (skipn_nth_cons msgs i m Hn), nimages_cons.
  unfold nimg. rewrite Hi. reflexivity.
Qed.

Lemma stop_at_system render count mllama projcount numctx msgs n m :
  scan_all render count mllama projcount numctx msgs = Ok (S n) ->
  nth_error msgs n = Some m -> is_system m = true -> images m = [] -> S n = (length msgs - 1)%nat.
Proof.
  intros H Hn Hs Hi. apply start_facts in H as (Hlt & Hall & Hstop & _).
  destruct Hstop as [Hz|Hnf]; [discriminate|]. replace (S n - 1)%nat with n in Hnf by lia.
  destruct (Nat.eq_dec (S n) (length msgs - 1)) as [E|E]; [exact E|]. exfalso.
  rewrite (fits_system_eq render count mllama projcount numctx msgs n m Hn Hs Hi) in Hnf.
  rewrite Hall in Hnf by lia. discriminate.
Qed.

(** ** the conversation assembled by the chat handler *)
Lemma chat_msgs_spec system model_msgs req :
  req <> [] ->
  exists pre, chat_msgs system model_msgs req = pre ++ model_msgs ++ req /\
    ((pre = [] /\ (system = [] \/ exists r0 t, req = r0 :: t /\ is_system r0 = true)) \/
     (pre = [mkMsg s_system system []] /\ system <> [] /\ exists r0 t, req = r0 :: t /\ is_system r0 = false)).
Proof.
  intros Hne. unfold chat_msgs. destruct req as [|r0 t]; [congruence|].
  destruct (is_system r0) eqn:Es; cbn [negb andb].
  - exists []. split; [reflexivity|]. left. split; [reflexivity|]. right. exists r0, t. split; [reflexivity | exact Es].
  - destruct system as [|c s]; cbn [is_nil negb].
    + exists []. split; [reflexivity|]. left. split; [reflexivity|]. left. reflexivity.
    + exists [mkMsg s_system (c :: s) []]. split; [reflexivity|]. right. split; [reflexivity|]. split; [discriminate|]. exists r0, t. split; [reflexivity | exact Es].
Qed.
