(** Image tags: every image of a retained message gets exactly one tag "[img-<id>]" with its index in the image
    list, placed in the message that carries the image (contents free of the literal "[img-"). *)
From Coq Require Import List NArith ZArith Bool Arith Lia ZifyBool ZifyNat ZifyN.
From V Require Import Common.Bytes Prompt.Model Prompt.Proofs.
Import ListNotations.
Open Scope N_scope.

(** number of positions of [s] at which [t] starts *)
Fixpoint occ (t s : str) : nat :=
  match s with
  | [] => O
  | _ :: s' => ((if prefixb t s then 1 else 0) + occ t s')%nat
  end.

Lemma occ_pos_infix t s : occ t s <> O -> Infix t s.
Proof.
  induction s as [|c s IH]; cbn [occ]; [congruence|].
  destruct (prefixb t (c :: s)) eqn:E.
  - intros _. apply prefixb_spec in E as [r Hr]. exists [], r. exact Hr.
  - intros H. destruct (IH H) as (a & b & Hab). exists (c :: a), b. rewrite Hab. reflexivity.
Qed.

Lemma occ_zero t s : ~ Infix t s -> occ t s = O.
Proof. intros H. destruct (occ t s) eqn:E; [reflexivity|]. exfalso. apply H, occ_pos_infix. congruence. Qed.

Lemma prefixb_app_same p x y : prefixb (p ++ x) (p ++ y) = prefixb x y.
Proof. induction p as [|c p IH]; cbn; [reflexivity|]. rewrite N.eqb_refl. exact IH. Qed.

(** a string [t'] without the character [c] cannot reach over a [c] *)
Lemma prefixb_app_skip c t' a z : ~ In c t' -> prefixb t' (a ++ c :: z) = prefixb t' a.
Proof.
  revert a; induction t' as [|e t' IH]; intros a Hc; [destruct a; reflexivity|].
  assert (Hec : e <> c) by (intros ->; apply Hc; left; reflexivity).
  assert (Hc' : ~ In c t') by (intros H; apply Hc; right; exact H).
  destruct a as [|f a]; cbn.
  - replace (e =? c) with false by (symmetry; apply N.eqb_neq; exact Hec). reflexivity.
  - rewrite IH by exact Hc'. reflexivity.
Qed.

(** occurrences of a string that starts with [c] cannot start inside a string without [c] *)
Lemma occ_skip c t' x b : ~ In c x -> occ (c :: t') (x ++ b) = occ (c :: t') b.
Proof.
  induction x as [|d x IH]; intros H; [reflexivity|]. cbn [app occ prefixb].
  replace (c =? d) with false.
  - cbn. apply IH. intros Hx. apply H. right. exact Hx.
  - symmetry. apply N.eqb_neq. intros ->. apply H. left. reflexivity.
Qed.

(** the key counting lemma: [t = c :: t'] contains [c] only at its head; around a block [c :: x] with no further
    [c], occurrences of [t] neither straddle into the block nor start inside it *)
Lemma occ_app_head c t' x a b :
  ~ In c t' -> ~ In c x ->
  occ (c :: t') (a ++ c :: (x ++ b)) =
  (occ (c :: t') a + (if prefixb (c :: t') (c :: (x ++ b)) then 1 else 0) + occ (c :: t') b)%nat.
Proof.
  intros Ht Hx. induction a as [|d a IH].
  - cbn [app occ]. rewrite (occ_skip c t' x b Hx). lia.
  - cbn [app]. cbn [occ]. rewrite IH.
    assert (E : prefixb (c :: t') (d :: a ++ c :: (x ++ b)) = prefixb (c :: t') (d :: a)).
    { cbn [prefixb]. rewrite (prefixb_app_skip c t' a (x ++ b) Ht). reflexivity. }
    rewrite E. lia.
Qed.

(** ** decimal numerals are injective and consist of digits *)
Definition dval (l : str) : N := fold_left (fun a d => a * 10 + (d - 48)) l 0.
Definition digit (d : N) : Prop := 48 <= d /\ d <= 57.

Lemma itoa_aux_app f n acc : itoa_aux f n acc = itoa_aux f n [] ++ acc.
Proof.
  revert n acc; induction f as [|f IH]; intros n acc; cbn [itoa_aux]; [reflexivity|].
  destruct (n <? 10); [reflexivity|].
  rewrite (IH (n / 10) ((48 + n mod 10) :: acc)), (IH (n / 10) [48 + n mod 10]), <- app_assoc. reflexivity.
Qed.

Lemma dval_itoa_aux f n : n < 10 ^ N.of_nat f -> dval (itoa_aux f n []) = n.
Proof.
  revert n; induction f as [|f IH]; intros n Hn.
  - cbn in Hn. cbn. lia.
  - cbn [itoa_aux]. destruct (n <? 10) eqn:E.
    + unfold dval. cbn [fold_left]. assert (n mod 10 = n) by (apply N.mod_small; lia). lia.
    + rewrite itoa_aux_app. unfold dval. rewrite fold_left_app. cbn [fold_left]. fold (dval (itoa_aux f (n / 10) [])).
      rewrite IH.
      * pose proof (N.div_mod' n 10). lia.
      * rewrite Nat2N.inj_succ, N.pow_succ_r' in Hn. apply N.div_lt_upper_bound; lia.
Qed.

Lemma pos_size_bound p : N.pos p < 2 ^ N.of_nat (Pos.size_nat p).
Proof.
  induction p as [p IH|p IH|]; cbn [Pos.size_nat]; try rewrite Nat2N.inj_succ, N.pow_succ_r'; try lia.
Qed.

Lemma itoa_bound n : n < 10 ^ N.of_nat (S (N.size_nat n)).
Proof.
  assert (H : n < 2 ^ N.of_nat (N.size_nat n)).
  { destruct n as [|p]; [cbn; lia | apply pos_size_bound]. }
  rewrite Nat2N.inj_succ, N.pow_succ_r'.
  assert (H2 : 2 ^ N.of_nat (N.size_nat n) <= 10 ^ N.of_nat (N.size_nat n)) by (apply N.pow_le_mono_l; lia).
  assert (H3 : 0 < 10 ^ N.of_nat (N.size_nat n)) by (apply N.neq_0_lt_0, N.pow_nonzero; lia).
  lia.
Qed.

Lemma dval_itoa n : dval (itoa n) = n.
Proof. apply dval_itoa_aux, itoa_bound. Qed.

Lemma itoa_inj i j : itoa i = itoa j -> i = j.
Proof. intros H. rewrite <- (dval_itoa i), <- (dval_itoa j), H. reflexivity. Qed.

Lemma itoa_aux_digits f n acc : Forall digit acc -> Forall digit (itoa_aux f n acc).
Proof.
  revert n acc; induction f as [|f IH]; intros n acc Hacc; cbn [itoa_aux]; [exact Hacc|].
  assert (Hd : Forall digit ((48 + n mod 10) :: acc)).
  { constructor; [|exact Hacc]. pose proof (N.mod_upper_bound n 10). unfold digit. lia. }
  destruct (n <? 10); [exact Hd | apply IH, Hd].
Qed.

Lemma itoa_digits n : Forall digit (itoa n).
Proof. apply itoa_aux_digits. constructor. Qed.

Lemma digits_sep di dj b :
  Forall digit di -> Forall digit dj -> prefixb (di ++ [93]) (dj ++ 93 :: b) = eqb_str di dj.
Proof.
  revert dj; induction di as [|d di IH]; intros dj Hi Hj.
  - destruct dj as [|e dj]; cbn [app prefixb eqb_str].
    + rewrite N.eqb_refl. reflexivity.
    + inversion Hj as [|? ? He _]; subst. unfold digit in He.
      replace (93 =? e) with false by (symmetry; apply N.eqb_neq; lia). reflexivity.
  - inversion Hi as [|? ? Hd Hi']; subst. unfold digit in Hd. destruct dj as [|e dj]; cbn [app prefixb eqb_str].
    + replace (d =? 93) with false by (symmetry; apply N.eqb_neq; lia). reflexivity.
    + inversion Hj as [|? ? He Hj']; subst. rewrite (IH dj Hi' Hj'). reflexivity.
Qed.

(** ** the tags *)
Definition tag_tail (i : N) : str := [105;109;103;45] ++ itoa i ++ [93].

Lemma tag_head i : tag i = 91 :: tag_tail i.
Proof. reflexivity. Qed.

Lemma tag_tail_no_bracket i : ~ In 91 (tag_tail i).
Proof.
  unfold tag_tail. intros H. cbn [app In] in H.
  repeat (destruct H as [H|H]; [discriminate|]).
  apply in_app_or in H as [H|H].
  - pose proof (itoa_digits i) as Hd. rewrite Forall_forall in Hd. apply Hd in H. unfold digit in H. lia.
  - cbn in H. destruct H as [H|[]]. discriminate.
Qed.

Lemma tag_prefix i j b : prefixb (tag i) (tag j ++ b) = (i =? j).
Proof.
  unfold tag. rewrite <- !app_assoc, prefixb_app_same. cbn [app].
  rewrite digits_sep by apply itoa_digits.
  destruct (i =? j) eqn:E.
  - apply N.eqb_eq in E. subst. apply eqb_str_spec. reflexivity.
  - destruct (eqb_str (itoa i) (itoa j)) eqn:E2; [|reflexivity].
    apply eqb_str_spec, itoa_inj in E2. apply N.eqb_neq in E. contradiction.
Qed.

Lemma tag_not_placeholder i b : prefixb (tag i) (s_img ++ b) = false.
Proof. reflexivity. Qed.

Lemma occ_around_tag i j a b :
  occ (tag i) (a ++ tag j ++ b) = (occ (tag i) a + (if (i =? j)%N then 1 else 0) + occ (tag i) b)%nat.
Proof.
  pose proof (tag_prefix i j b) as Hp. revert Hp.
  rewrite (tag_head j), (tag_head i). cbn [app]. intros Hp.
  rewrite (occ_app_head 91 (tag_tail i) (tag_tail j) a b (tag_tail_no_bracket i) (tag_tail_no_bracket j)).
  rewrite Hp. reflexivity.
Qed.

Lemma occ_around_placeholder i a b :
  occ (tag i) (a ++ s_img ++ b) = (occ (tag i) a + occ (tag i) b)%nat.
Proof.
  pose proof (tag_not_placeholder i b) as Hp. revert Hp.
  rewrite (tag_head i). change s_img with (91 :: [105;109;103;93]). cbn [app]. intros Hp.
  change (91 :: 105 :: 109 :: 103 :: 93 :: b) with (91 :: ([105;109;103;93] ++ b)) in *.
  rewrite (occ_app_head 91 (tag_tail i) [105;109;103;93] a b (tag_tail_no_bracket i)).
  - rewrite Hp. lia.
  - cbn. intros H. repeat (destruct H as [H|H]; [discriminate|]). exact H.
Qed.

Definition is_tags (p : str) : Prop := exists js, p = concat (map tag js).

Lemma occ_tags_app i p r : is_tags p -> occ (tag i) (p ++ r) = (occ (tag i) p + occ (tag i) r)%nat.
Proof.
  intros [js ->]. induction js as [|j js IH]; [reflexivity|]. cbn [map concat]. rewrite <- app_assoc.
  pose proof (occ_around_tag i j [] (concat (map tag js) ++ r)) as H1.
  pose proof (occ_around_tag i j [] (concat (map tag js))) as H2.
  cbn [app] in H1, H2. rewrite H1, H2, IH. cbn [occ]. lia.
Qed.

Lemma is_tags_snoc p j : is_tags p -> is_tags (p ++ tag j).
Proof. intros [js ->]. exists (js ++ [j]). rewrite map_app, concat_app. cbn. rewrite app_nil_r. reflexivity. Qed.

(** strings.Replace(s, old, new, 1) when [old] occurs *)
Lemma replace_first_split s old new :
  containsb s old = true -> exists a b, s = a ++ old ++ b /\ replace_first s old new = a ++ new ++ b.
Proof.
  unfold containsb, replace_first. destruct (index_of s old) as [k|] eqn:E; [|discriminate]. intros _.
  apply index_of_some in E as (a & b & -> & -> & _). exists a, b. split; [reflexivity|].
  rewrite firstn_app, firstn_all, Nat.sub_diag. cbn [firstn]. rewrite app_nil_r.
  do 2 f_equal. rewrite app_assoc, <- app_length. rewrite skipn_app, Nat.sub_diag. cbn [skipn].
  rewrite skipn_all. reflexivity.
Qed.

Definition in_range (id i k : N) : nat := if (id <=? i) && (i <? id + k) then 1%nat else 0%nat.

Lemma place_images_occ i imgs : forall id prefix prompt prefix' prompt',
  place_images imgs id prefix prompt = (prefix', prompt') ->
  is_tags prefix ->
  is_tags prefix' /\
  (occ (tag i) prefix' + occ (tag i) prompt' =
   occ (tag i) prefix + occ (tag i) prompt + in_range id i (N.of_nat (length imgs)))%nat.
Proof.
  induction imgs as [|d imgs IH]; intros id prefix prompt prefix' prompt' H Htags; cbn [place_images] in H.
  - injection H as <- <-. split; [exact Htags|]. unfold in_range. cbn. replace ((id <=? i) && (i <? id + 0)) with false by lia. lia.
  - assert (Hr : forall x : nat, (x + in_range (id + 1) i (N.of_nat (length imgs)) + (if (i =? id)%N then 1 else 0))%nat
                             = (x + in_range id i (N.of_nat (length (d :: imgs))))%nat).
    { intros x. unfold in_range. cbn [length]. destruct (i =? id) eqn:E1;
      destruct ((id + 1 <=? i) && (i <? id + 1 + N.of_nat (length imgs))) eqn:E2;
      destruct ((id <=? i) && (i <? id + N.of_nat (S (length imgs)))) eqn:E3; lia. }
    destruct (containsb prompt s_img) eqn:Ec.
    + destruct (replace_first_split prompt s_img (tag id) Ec) as (a & b & -> & Hrep). rewrite Hrep in H.
      apply IH in H as (Ht & Ho); [|exact Htags]. split; [exact Ht|].
      rewrite occ_around_tag in Ho. rewrite occ_around_placeholder. rewrite <- Hr. lia.
    + apply IH in H as (Ht & Ho); [|apply is_tags_snoc, Htags]. split; [exact Ht|].
      pose proof (occ_around_tag i id prefix []) as Hp. rewrite app_nil_r in Hp. cbn [occ] in Hp.
      rewrite <- Hr. lia.
Qed.

Lemma s_image_no_bracket : ~ In 91 s_image.
Proof. cbn. intros H. repeat (destruct H as [H|H]; [discriminate|]). exact H. Qed.

Lemma tag_infix_dash i s : Infix (tag i) s -> Infix s_imgdash s.
Proof. intros (a & b & ->). exists a, (itoa i ++ [93] ++ b). unfold tag. rewrite <- !app_assoc. reflexivity. Qed.

(** one message: tag [i] occurs once iff [i] is the index of one of its images, else not at all *)
Lemma rewrite_msg_occ ml id m i :
  ~ Infix s_imgdash (content m) ->
  occ (tag i) (content (rewrite_msg ml id m)) = in_range id i (nimg m).
Proof.
  intros Hfree. unfold rewrite_msg. destruct (place_images (images m) id [] (content m)) as [prefix prompt] eqn:E.
  apply (place_images_occ i) in E as (Ht & Ho); [|exists []; reflexivity]. cbn [content].
  rewrite occ_tags_app by exact Ht.
  match goal with |- context [occ (tag i) (?x ++ prompt)] =>
    assert (Himg : occ (tag i) (x ++ prompt) = occ (tag i) prompt);
    [ rewrite (tag_head i); apply occ_skip; destruct (ml && negb (is_nil (images m))); [apply s_image_no_bracket | intros []] | rewrite Himg ]
  end. rewrite (occ_zero (tag i) (content m)) in Ho by (intros H; apply Hfree, (tag_infix_dash i), H).
  cbn [occ] in Ho. unfold nimg. lia.
Qed.

Definition free_of_tags (l : list msg) : Prop := forall m, In m l -> ~ Infix s_imgdash (content m).

(** position-wise: in the rewritten run, tag [i] occurs exactly in the message that owns image [i] *)
Lemma rewrite_all_occ_nth ml l j m m' i :
  free_of_tags l -> nth_error l j = Some m -> nth_error (rewrite_all ml 0 l) j = Some m' ->
  occ (tag i) (content m') = in_range (nimages (firstn j l)) i (nimg m).
Proof.
  intros Hfree Hn Hn'. rewrite (rewrite_all_nth ml 0 l j m Hn) in Hn'. injection Hn' as <-.
  change (0 + nimages (firstn j l)) with (nimages (firstn j l)). apply rewrite_msg_occ. apply Hfree. eapply nth_error_In, Hn.
Qed.

(** summed over the run: exactly one occurrence for every image index, none for other numbers *)
Definition occ_total (t : str) (l : list msg) : nat := list_sum (map (fun m => occ t (content m)) l).

Lemma occ_total_cons t m l : occ_total t (m :: l) = (occ t (content m) + occ_total t l)%nat.
Proof. reflexivity. Qed.

Lemma rewrite_all_occ_total ml i l : forall id,
  free_of_tags l -> occ_total (tag i) (rewrite_all ml id l) = in_range id i (nimages l).
Proof.
  induction l as [|m t IH]; intros id Hfree.
  - unfold occ_total, in_range. cbn. change (nimages []) with 0. replace ((id <=? i) && (i <? id + 0)) with false by lia. reflexivity.
  - cbn [rewrite_all]. rewrite occ_total_cons. rewrite IH by (intros x Hx; apply Hfree; right; exact Hx).
    rewrite rewrite_msg_occ by (apply Hfree; left; reflexivity). rewrite nimages_cons. unfold in_range.
    destruct ((id <=? i) && (i <? id + nimg m)) eqn:E1;
    destruct ((id + nimg m <=? i) && (i <? id + nimg m + nimages t)) eqn:E2;
    destruct ((id <=? i) && (i <? id + (nimg m + nimages t))) eqn:E3; lia.
Qed.
