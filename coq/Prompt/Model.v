(** Model of [chatPrompt] (server/prompt.go, with fixes/C19-system.patch applied: the system messages
    are collected over the whole dropped prefix [msgs[:n]] after the scan) and of
    [template.Template.Execute] / [collate] (template/template.go) for two concrete templates.
    Definitions only.

    A message is (role, content, images); an image is an opaque identifier (the harness turns it into
    distinct image bytes).  Byte strings are [list N] (Common/Bytes.v).  *)
From Coq Require Import List NArith ZArith Bool Arith.
From V Require Import Common.Bytes.
Import ListNotations.
Open Scope N_scope.

Record msg := mkMsg { role : str; content : str; images : list N }.

(** string literals *)
Definition s_system : str := [115;121;115;116;101;109].                  (* "system" *)
Definition s_user : str := [117;115;101;114].                            (* "user" *)
Definition s_assistant : str := [97;115;115;105;115;116;97;110;116].     (* "assistant" *)
Definition s_img : str := [91;105;109;103;93].                           (* "[img]" *)
Definition s_imgdash : str := [91;105;109;103;45].                       (* "[img-" *)
Definition s_image : str := [60;124;105;109;97;103;101;124;62].          (* "<|image|>" *)
Definition s_nn : str := [10;10].                                        (* "\n\n" *)
Definition s_im_start : str := [60;124;105;109;95;115;116;97;114;116;124;62].   (* "<|im_start|>" *)
Definition s_im_end : str := [60;124;105;109;95;101;110;100;124;62;10].         (* "<|im_end|>\n" *)

Definition is_system (m : msg) : bool := eqb_str (role m) s_system.
Definition is_nil {A} (l : list A) : bool := match l with [] => true | _ => false end.

Inductive res (A : Type) : Type := Ok (a : A) | ErrTooManyImages.
Arguments Ok {A} a.
Arguments ErrTooManyImages {A}.

(** ** fmt.Sprintf("[img-%d]", id) *)
Fixpoint itoa_aux (fuel : nat) (n : N) (acc : str) : str :=
  match fuel with
  | O => acc
  | S f => let acc' := (48 + n mod 10) :: acc in
           if n <? 10 then acc' else itoa_aux f (n / 10) acc'
  end.
Definition itoa (n : N) : str := itoa_aux (S (N.size_nat n)) n [].
Definition tag (id : N) : str := s_imgdash ++ itoa id ++ [93].

(** strings.Replace(s, old, new, 1) *)
Definition replace_first (s old new : str) : str :=
  match index_of s old with
  | Some k => firstn k s ++ new ++ skipn (k + length old) s
  | None => s
  end.

(** the loop [for _, i := range msg.Images] of chatPrompt: every image either replaces the first
    remaining "[img]" of the content or adds its tag to the prefix *)
Fixpoint place_images (imgs : list N) (id : N) (prefix prompt : str) : str * str :=
  match imgs with
  | [] => (prefix, prompt)
  | _ :: t => if containsb prompt s_img
              then place_images t (id + 1) prefix (replace_first prompt s_img (tag id))
              else place_images t (id + 1) (prefix ++ tag id) prompt
  end.

Definition nimg (m : msg) : N := N.of_nat (length (images m)).

(** msgs[currMsgIdx+cnt].Content = prefix + imgPrompt + prompt *)
Definition rewrite_msg (mllama : bool) (id0 : N) (m : msg) : msg :=
  let '(prefix, prompt) := place_images (images m) id0 [] (content m) in
  let imgp := if mllama && negb (is_nil (images m)) then s_image else [] in
  mkMsg (role m) (prefix ++ imgp ++ prompt) (images m).

Fixpoint rewrite_all (mllama : bool) (id0 : N) (l : list msg) : list msg :=
  match l with
  | [] => []
  | m :: t => rewrite_msg mllama id0 m :: rewrite_all mllama (id0 + nimg m) t
  end.

(** the returned [[]llm.ImageData]: (ID, data) *)
Fixpoint number (id0 : N) (l : list N) : list (N * N) :=
  match l with
  | [] => []
  | d :: t => (id0, d) :: number (id0 + 1) t
  end.

Definition sysmsgs (l : list msg) : list msg := filter is_system l.
Definition nimages (l : list msg) : N := fold_right (fun m a => nimg m + a) 0 l.

Section ChatPrompt.
  Variable render : list msg -> str.   (* m.Template.Execute(template.Values{Messages: ...}) *)
  Variable count : str -> N.           (* len(tokenize(ctx, s)) *)
  Variable mllama : bool.              (* checkMllamaModelFamily(m) *)
  Variable projcount : bool.           (* m.ProjectorPaths != nil *)
  Variable numctx : Z.                 (* opts.NumCtx *)

  Definition img_tokens : N := if mllama then 1 else 768.

  (** the list handed to the template when the scan looks at index [i] *)
  Definition candidate (msgs : list msg) (i : nat) : list msg := sysmsgs (firstn i msgs) ++ skipn i msgs.

  Definition ctxlen (msgs : list msg) (i : nat) : N :=
    count (render (candidate msgs i)) + (if projcount then img_tokens * nimages (skipn i msgs) else 0).

  Definition fits (msgs : list msg) (i : nat) : bool := (Z.of_N (ctxlen msgs i) <=? numctx)%Z.

  Definition too_many (msgs : list msg) (i : nat) : bool :=
    match nth_error msgs i with
    | Some m => mllama && (1 <? nimg m)
    | None => false
    end.

  (** the backwards loop: [scan msgs k] is the state "n = k, next index to look at is k-1" *)
  Fixpoint scan (msgs : list msg) (k : nat) : res nat :=
    match k with
    | O => Ok O
    | S i => if too_many msgs i then ErrTooManyImages
             else if fits msgs i then scan msgs i else Ok (S i)
    end.

  Definition scan_all (msgs : list msg) : res nat :=
    let last := (length msgs - 1)%nat in
    if too_many msgs last then ErrTooManyImages else scan msgs last.

  (** what is handed to the template at the end, for a retained-run start [n] *)
  Definition final_list (msgs : list msg) (n : nat) : list msg :=
    sysmsgs (firstn n msgs) ++ rewrite_all mllama 0 (skipn n msgs).

  Definition final_images (msgs : list msg) (n : nat) : list (N * N) :=
    number 0 (concat (map images (skipn n msgs))).

  Definition chat_prompt (msgs : list msg) : res (str * list (N * N)) :=
    match scan_all msgs with
    | ErrTooManyImages => ErrTooManyImages
    | Ok n => Ok (render (final_list msgs n), final_images msgs n)
    end.

  (** the code before the repair: [system] is what the last executed loop iteration computed, i.e. the
      system messages of [msgs[:n-1]] (kept for the refutation theorem only) *)
  Definition chat_prompt_unrepaired (msgs : list msg) : res (str * list (N * N)) :=
    match scan_all msgs with
    | ErrTooManyImages => ErrTooManyImages
    | Ok n => Ok (render (sysmsgs (firstn (pred n) msgs) ++ rewrite_all mllama 0 (skipn n msgs)), final_images msgs n)
    end.
End ChatPrompt.

(** ** token counters used by the harness *)
Definition is_space (b : N) : bool := (b =? 32) || ((9 <=? b) && (b <=? 13)).
Fixpoint count_fields_aux (inword : bool) (s : str) : N :=
  match s with
  | [] => 0
  | b :: t => if is_space b then count_fields_aux false t
              else (if inword then 0 else 1) + count_fields_aux true t
  end.
Definition count_fields (s : str) : N := count_fields_aux false s.
Definition count_len4 (s : str) : N := (N.of_nat (length s) + 3) / 4.

(** ** template/template.go collate: consecutive messages of one role are merged with "\n\n" *)
Fixpoint collate (l : list msg) : list msg :=
  match l with
  | [] => []
  | m :: t => match collate t with
              | h :: r => if eqb_str (role m) (role h)
                          then mkMsg (role m) (content m ++ s_nn ++ content h) (images m) :: r
                          else m :: h :: r
              | [] => [m]
              end
  end.

(** ** style 1: a [.Messages] range template (template/chatml.gotmpl):
    {{- range .Messages }}<|im_start|>{{ .Role }}\n{{ .Content }}<|im_end|>\n{{ end }}<|im_start|>assistant\n *)
Definition chatml_msg (m : msg) : str := s_im_start ++ role m ++ [10] ++ content m ++ s_im_end.
Definition render_chatml (l : list msg) : str :=
  concat (map chatml_msg (collate l)) ++ s_im_start ++ s_assistant ++ [10].

(** ** style 2: the legacy System/Prompt/Response template
    {{ if .System }}<|im_start|>system\n{{ .System }}<|im_end|>\n{{ end }}{{ if .Prompt }}<|im_start|>user\n{{ .Prompt }}<|im_end|>\n{{ end }}<|im_start|>assistant\n{{ .Response }}<|im_end|>\n
    executed by the legacy branch of Template.Execute; the last execution cuts everything after {{ .Response }} *)
Definition legacy_exec (final : bool) (sy pr rs : str) : str :=
  (if is_nil sy then [] else s_im_start ++ s_system ++ [10] ++ sy ++ s_im_end) ++
  (if is_nil pr then [] else s_im_start ++ s_user ++ [10] ++ pr ++ s_im_end) ++
  s_im_start ++ s_assistant ++ [10] ++ rs ++ (if final then [] else s_im_end).

(** state of the loop [for _, m := range messages]: system, prompt, response, buffer *)
Definition lstate : Type := (str * str * str * str)%type.
Definition legacy_step (st : lstate) (m : msg) : lstate :=
  let '(sy, pr, rs, buf) := st in
  if eqb_str (role m) s_system then
    if negb (is_nil pr) || negb (is_nil rs)
    then (content m, [], [], buf ++ legacy_exec false sy pr rs)
    else (content m, pr, rs, buf)
  else if eqb_str (role m) s_user then
    if negb (is_nil rs)
    then ([], content m, [], buf ++ legacy_exec false sy pr rs)
    else (sy, content m, rs, buf)
  else if eqb_str (role m) s_assistant then (sy, pr, content m, buf)
  else st.
Definition legacy_finish (st : lstate) : str :=
  let '(sy, pr, rs, buf) := st in buf ++ legacy_exec true sy pr rs.
Definition render_legacy (l : list msg) : str :=
  legacy_finish (fold_left legacy_step (collate l) ([], [], [], [])).
