(** Model of [chatPrompt] (server/prompt.go, with fixes/C19-system-at-stop.patch applied: the system
    messages are collected over the whole dropped prefix [msgs[:n]] after the scan) and of
    [template.Template.Execute] / [collate] (template/template.go) for four template families.
    Definitions only.

    A message is (role, content, images); an image is an opaque identifier (the harness turns it into
    distinct image bytes).  Byte strings are [list N] (Common/Bytes.v).  *)
From Coq Require Import List NArith ZArith Bool Arith.
From V Require Import Common.Bytes.
Import ListNotations.
Open Scope N_scope.

Record msg := mkMsg { role : str; content : str; images : list N }.

(** string literals *)
Definition s_system : str := [115;121;115;116;101;109].                  (* "system" *)
Definition s_user : str := [117;115;101;114].                            (* "user" *)
Definition s_assistant : str := [97;115;115;105;115;116;97;110;116].     (* "assistant" *)
Definition s_img : str := [91;105;109;103;93].                           (* "[img]" *)
Definition s_imgdash : str := [91;105;109;103;45].                       (* "[img-" *)
Definition s_image : str := [60;124;105;109;97;103;101;124;62].          (* "<|image|>" *)
Definition s_nn : str := [10;10].                                        (* "\n\n" *)

Definition is_system (m : msg) : bool := eqb_str (role m) s_system.
Definition is_nil {A} (l : list A) : bool := match l with [] => true | _ => false end.

(** outcome of chatPrompt: a result, the error [errTooManyImages], or the run-time panic
    ([msgs[-1:]], slice bounds out of range) of an empty conversation *)
Inductive res (A : Type) : Type := Ok (a : A) | ErrTooManyImages | PanicEmpty.
Arguments Ok {A} a.
Arguments ErrTooManyImages {A}.
Arguments PanicEmpty {A}.

(** ** fmt.Sprintf("[img-%d]", id) *)
Fixpoint itoa_aux (fuel : nat) (n : N) (acc : str) : str :=
  match fuel with
  | O => acc
  | S f => let acc' := (48 + n mod 10) :: acc in
           if n <? 10 then acc' else itoa_aux f (n / 10) acc'
  end.
Definition itoa (n : N) : str := itoa_aux (S (N.size_nat n)) n [].
Definition tag (id : N) : str := s_imgdash ++ itoa id ++ [93].

(** strings.Replace(s, old, new, 1) *)
Definition replace_first (s old new : str) : str :=
  match index_of s old with
  | Some k => firstn k s ++ new ++ skipn (k + length old) s
  | None => s
  end.

(** the loop [for _, i := range msg.Images] of chatPrompt: every image either replaces the first
    remaining "[img]" of the content or adds its tag to the prefix *)
Fixpoint place_images (imgs : list N) (id : N) (prefix prompt : str) : str * str :=
  match imgs with
  | [] => (prefix, prompt)
  | _ :: t => if containsb prompt s_img
              then place_images t (id + 1) prefix (replace_first prompt s_img (tag id))
              else place_images t (id + 1) (prefix ++ tag id) prompt
  end.

Definition nimg (m : msg) : N := N.of_nat (length (images m)).

(** msgs[currMsgIdx+cnt].Content = prefix + imgPrompt + prompt *)
Definition rewrite_msg (mllama : bool) (id0 : N) (m : msg) : msg :=
  let '(prefix, prompt) := place_images (images m) id0 [] (content m) in
  let imgp := if mllama && negb (is_nil (images m)) then s_image else [] in
  mkMsg (role m) (prefix ++ imgp ++ prompt) (images m).

Fixpoint rewrite_all (mllama : bool) (id0 : N) (l : list msg) : list msg :=
  match l with
  | [] => []
  | m :: t => rewrite_msg mllama id0 m :: rewrite_all mllama (id0 + nimg m) t
  end.

(** the returned [[]llm.ImageData]: (ID, data) *)
Fixpoint number (id0 : N) (l : list N) : list (N * N) :=
  match l with
  | [] => []
  | d :: t => (id0, d) :: number (id0 + 1) t
  end.

Definition sysmsgs (l : list msg) : list msg := filter is_system l.
Definition nimages (l : list msg) : N := fold_right (fun m a => nimg m + a) 0 l.

Section ChatPrompt.
  Variable render : list msg -> str.   (* m.Template.Execute(template.Values{Messages: ...}) *)
  Variable count : str -> N.           (* len(tokenize(ctx, s)) *)
  Variable mllama : bool.              (* checkMllamaModelFamily(m) *)
  Variable projcount : bool.           (* m.ProjectorPaths != nil *)
  Variable numctx : Z.                 (* opts.NumCtx *)

  Definition img_tokens : N := if mllama then 1 else 768.

  (** the list handed to the template when the scan looks at index [i] *)
  Definition candidate (msgs : list msg) (i : nat) : list msg := sysmsgs (firstn i msgs) ++ skipn i msgs.

  Definition ctxlen (msgs : list msg) (i : nat) : N :=
    count (render (candidate msgs i)) + (if projcount then img_tokens * nimages (skipn i msgs) else 0).

  Definition fits (msgs : list msg) (i : nat) : bool := (Z.of_N (ctxlen msgs i) <=? numctx)%Z.

  Definition too_many (msgs : list msg) (i : nat) : bool :=
    match nth_error msgs i with
    | Some m => mllama && (1 <? nimg m)
    | None => false
    end.

  (** the backwards loop: [scan msgs k] is the state "n = k, next index to look at is k-1" *)
  Fixpoint scan (msgs : list msg) (k : nat) : res nat :=
    match k with
    | O => Ok O
    | S i => if too_many msgs i then ErrTooManyImages
             else if fits msgs i then scan msgs i else Ok (S i)
    end.

  Definition scan_all (msgs : list msg) : res nat :=
    match msgs with
    | [] => PanicEmpty
    | _ => let last := (length msgs - 1)%nat in
           if too_many msgs last then ErrTooManyImages else scan msgs last
    end.

  (** number of calls of [tokenize] the scan makes (one per measured suffix start, the non-fitting one included);
      a tokenizer error on one of them makes chatPrompt return that error *)
  Fixpoint scan_calls (msgs : list msg) (k : nat) : nat :=
    match k with
    | O => O
    | S i => if too_many msgs i then O
             else if fits msgs i then S (scan_calls msgs i) else 1%nat
    end.

  Definition tokenize_calls (msgs : list msg) : nat :=
    match msgs with
    | [] => O
    | _ => let last := (length msgs - 1)%nat in
           if too_many msgs last then O else scan_calls msgs last
    end.

  (** the retained run after the image loop, and what is handed to the template at the end *)
  Definition retained (msgs : list msg) (n : nat) : list msg := rewrite_all mllama 0 (skipn n msgs).

  Definition final_list (msgs : list msg) (n : nat) : list msg :=
    sysmsgs (firstn n msgs) ++ retained msgs n.

  Definition final_images (msgs : list msg) (n : nat) : list (N * N) :=
    number 0 (concat (map images (skipn n msgs))).

  (** the caller's slice after the call (chatPrompt rewrites the contents of the retained messages in place) *)
  Definition after_call (msgs : list msg) (n : nat) : list msg := firstn n msgs ++ retained msgs n.

  Definition chat_prompt (msgs : list msg) : res (str * list (N * N)) :=
    match scan_all msgs with
    | ErrTooManyImages => ErrTooManyImages
    | PanicEmpty => PanicEmpty
    | Ok n => Ok (render (final_list msgs n), final_images msgs n)
    end.

  (** the code before the repair: [system] is what the last executed loop iteration computed, i.e. the
      system messages of [msgs[:n-1]] (kept for the refutation theorem only) *)
  Definition unrepaired_list (msgs : list msg) (n : nat) : list msg :=
    sysmsgs (firstn (pred n) msgs) ++ retained msgs n.

  Definition chat_prompt_unrepaired (msgs : list msg) : res (str * list (N * N)) :=
    match scan_all msgs with
    | ErrTooManyImages => ErrTooManyImages
    | PanicEmpty => PanicEmpty
    | Ok n => Ok (render (unrepaired_list msgs n), final_images msgs n)
    end.
End ChatPrompt.

(** ** server/routes.go ChatHandler: the conversation handed to chatPrompt is the model's own messages followed by the
    request's, with the model's system prompt in front unless the request starts with a system message *)
Definition chat_msgs (system : str) (model_msgs req : list msg) : list msg :=
  let msgs := model_msgs ++ req in
  match req with
  | r0 :: _ => if negb (is_system r0) && negb (is_nil system) then mkMsg s_system system [] :: msgs else msgs
  | [] => msgs
  end.

(** ** token counters used by the harness *)
Definition is_space (b : N) : bool := (b =? 32) || ((9 <=? b) && (b <=? 13)).
Fixpoint count_fields_aux (inword : bool) (s : str) : N :=
  match s with
  | [] => 0
  | b :: t => if is_space b then count_fields_aux false t
              else (if inword then 0 else 1) + count_fields_aux true t
  end.
Definition count_fields (s : str) : N := count_fields_aux false s.
(** one token per started group of [k] bytes *)
Definition count_len (k : N) (s : str) : N := (N.of_nat (length s) + (k - 1)) / k.

(** ** template/template.go collate: consecutive messages of one role are merged with "\n\n";
    the returned system string joins the contents of all system messages with "\n\n" *)
Fixpoint collate (l : list msg) : list msg :=
  match l with
  | [] => []
  | m :: t => match collate t with
              | h :: r => if eqb_str (role m) (role h)
                          then mkMsg (role m) (content m ++ s_nn ++ content h) (images m) :: r
                          else m :: h :: r
              | [] => [m]
              end
  end.

Fixpoint join_nn (l : list str) : str :=
  match l with
  | [] => []
  | [x] => x
  | x :: t => x ++ s_nn ++ join_nn t
  end.
Definition system_of (l : list msg) : str := join_nn (map content (sysmsgs l)).

(** ** template families (literal texts are parameters)

    [Range pre mid post fin]:
      {{range .Messages}}pre{{.Role}}mid{{.Content}}post{{end}}fin
    [Legacy respif a b c d e f] (no .Messages: executed by the legacy branch of Template.Execute):
      {{if .System}}a{{.System}}b{{end}}{{if .Prompt}}c{{.Prompt}}d{{end}}e{{.Response}}f            (respif = false)
      {{if .System}}a{{.System}}b{{end}}{{if .Prompt}}c{{.Prompt}}d{{end}}{{if .Response}}e{{.Response}}f{{end}}   (respif = true)
    [SysRange a b c d e f g]:
      {{if .System}}a{{.System}}b{{end}}{{range .Messages}}{{if eq .Role "user"}}c{{.Content}}d{{else if eq .Role "assistant"}}e{{.Content}}f{{end}}{{end}}g *)
Inductive style : Type :=
| Range (pre mid post fin : str)
| Legacy (respif : bool) (a b c d e f : str)
| SysRange (a b c d e f g : str).

Definition range_msg (pre mid post : str) (m : msg) : str := pre ++ role m ++ mid ++ content m ++ post.
Definition render_range (pre mid post fin : str) (l : list msg) : str :=
  concat (map (range_msg pre mid post) (collate l)) ++ fin.

(** one execution of a legacy template; the last execution cuts everything after {{ .Response }} *)
Definition legacy_exec (respif : bool) (a b c d e f : str) (final : bool) (sy pr rs : str) : str :=
  (if is_nil sy then [] else a ++ sy ++ b) ++
  (if is_nil pr then [] else c ++ pr ++ d) ++
  (if respif && is_nil rs then [] else e ++ rs ++ (if final then [] else f)).

(** state of the loop [for _, m := range messages]: system, prompt, response, buffer *)
Definition lstate : Type := (str * str * str * str)%type.
Definition legacy_step (ex : str -> str -> str -> str) (st : lstate) (m : msg) : lstate :=
  let '(sy, pr, rs, buf) := st in
  if eqb_str (role m) s_system then
    if negb (is_nil pr) || negb (is_nil rs)
    then (content m, [], [], buf ++ ex sy pr rs)
    else (content m, pr, rs, buf)
  else if eqb_str (role m) s_user then
    if negb (is_nil rs)
    then ([], content m, [], buf ++ ex sy pr rs)
    else (sy, content m, rs, buf)
  else if eqb_str (role m) s_assistant then (sy, pr, content m, buf)
  else st.
Definition render_legacy (respif : bool) (a b c d e f : str) (l : list msg) : str :=
  let '(sy, pr, rs, buf) := fold_left (legacy_step (legacy_exec respif a b c d e f false)) (collate l) ([], [], [], []) in
  buf ++ legacy_exec respif a b c d e f true sy pr rs.

Definition sysrange_msg (c d e f : str) (m : msg) : str :=
  if eqb_str (role m) s_user then c ++ content m ++ d
  else if eqb_str (role m) s_assistant then e ++ content m ++ f
  else [].
Definition render_sysrange (a b c d e f g : str) (l : list msg) : str :=
  (if is_nil (system_of l) then [] else a ++ system_of l ++ b) ++
  concat (map (sysrange_msg c d e f) (collate l)) ++ g.

Definition render_style (s : style) : list msg -> str :=
  match s with
  | Range pre mid post fin => render_range pre mid post fin
  | Legacy respif a b c d e f => render_legacy respif a b c d e f
  | SysRange a b c d e f g => render_sysrange a b c d e f g
  end.
