(** Executable comparison functions of the C19 correspondence check (cases rendered by props/c19.py). *)
From Coq Require Import List NArith ZArith Bool Arith.
From V Require Import Common.Bytes Prompt.Model.
Import ListNotations.
Open Scope N_scope.

(** tokenizer of the harness: 0 = white-space fields, k > 0 = one token per started group of k bytes *)
Definition tok_count (tok : N) : str -> N :=
  if tok =? 0 then count_fields else count_len tok.

Fixpoint eqb_imgs (a b : list (N * N)) : bool :=
  match a, b with
  | [], [] => true
  | (i, d) :: a', (j, e) :: b' => (i =? j) && (d =? e) && eqb_imgs a' b'
  | _, _ => false
  end.

Fixpoint eqb_Ns (a b : list N) : bool :=
  match a, b with
  | [], [] => true
  | x :: a', y :: b' => (x =? y) && eqb_Ns a' b'
  | _, _ => false
  end.

Fixpoint eqb_strs (a b : list str) : bool :=
  match a, b with
  | [], [] => true
  | x :: a', y :: b' => eqb_str x y && eqb_strs a' b'
  | _, _ => false
  end.

Definition model_scan (st : style) (tok : N) (mllama projcount : bool) (numctx : Z) (msgs : list msg) :=
  scan_all (render_style st) (tok_count tok) mllama projcount numctx msgs.

Definition model_chat (st : style) (tok : N) (mllama projcount : bool) (numctx : Z) (msgs : list msg) :=
  chat_prompt (render_style st) (tok_count tok) mllama projcount numctx msgs.

(** the observation of chatPrompt: outcome (0 = ok, 1 = errTooManyImages, 2 = panic), prompt, image list (ID, data),
    the contents of the caller's messages after the call *)
Definition chk_chat (st : style) (tok : N) (mllama projcount : bool) (numctx : Z) (msgs : list msg)
           (outcome : N) (prompt : str) (imgs : list (N * N)) (after : list str) : bool :=
  match model_scan st tok mllama projcount numctx msgs with
  | ErrTooManyImages => outcome =? 1
  | PanicEmpty => outcome =? 2
  | Ok n => (outcome =? 0)
            && eqb_str (render_style st (final_list mllama msgs n)) prompt
            && eqb_imgs (final_images msgs n) imgs
            && eqb_strs (map content (after_call mllama msgs n)) after
  end.

(** the same with a tokenizer that fails on its [k]-th call (k > 0): outcome 3 = that error is returned *)
Definition chk_chat_fail (k : nat) (st : style) (tok : N) (mllama projcount : bool) (numctx : Z) (msgs : list msg)
           (outcome : N) (prompt : str) (imgs : list (N * N)) (after : list str) : bool :=
  if (Nat.leb 1 k) && (Nat.leb k (tokenize_calls (render_style st) (tok_count tok) mllama projcount numctx msgs))
  then outcome =? 3
  else chk_chat st tok mllama projcount numctx msgs outcome prompt imgs after.

(** the candidate prompts (real Template.Execute, one per suffix start) and their token counts (harness tokenizer) *)
Definition chk_cand (st : style) (tok : N) (msgs : list msg) (prompts : list str) (counts : list N) : bool :=
  eqb_strs (map (fun k => render_style st (candidate msgs k)) (seq 0 (length msgs))) prompts
  && eqb_Ns (map (fun k => tok_count tok (render_style st (candidate msgs k))) (seq 0 (length msgs))) counts.

(** POST /api/chat end to end (ChatHandler + chatPrompt, white-space tokenizer of the test mock, no projector):
    what reaches the runner's Completion *)
Definition chk_handler (st : style) (numctx : Z) (system : str) (model_msgs req : list msg)
           (outcome : N) (prompt : str) (imgs : list (N * N)) : bool :=
  let msgs := chat_msgs system model_msgs req in
  match model_scan st 0 false false numctx msgs with
  | Ok n => (outcome =? 0)
            && eqb_str (render_style st (final_list false msgs n)) prompt
            && eqb_imgs (final_images msgs n) imgs
  | _ => negb (outcome =? 0)
  end.
