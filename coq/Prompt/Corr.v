(** Executable comparison functions of the C19 correspondence check (cases rendered by props/c19.py). *)
From Coq Require Import List NArith ZArith Bool Arith.
From V Require Import Common.Bytes Prompt.Model.
Import ListNotations.
Open Scope N_scope.

Definition style_render (style : N) : list msg -> str :=
  if style =? 0 then render_chatml else render_legacy.
Definition tok_count (tok : N) : str -> N :=
  if tok =? 0 then count_fields else count_len4.

Fixpoint eqb_imgs (a b : list (N * N)) : bool :=
  match a, b with
  | [], [] => true
  | (i, d) :: a', (j, e) :: b' => (i =? j) && (d =? e) && eqb_imgs a' b'
  | _, _ => false
  end.

Fixpoint eqb_Ns (a b : list N) : bool :=
  match a, b with
  | [], [] => true
  | x :: a', y :: b' => (x =? y) && eqb_Ns a' b'
  | _, _ => false
  end.

Definition model_chat (style tok : N) (mllama projcount : bool) (numctx : Z) (msgs : list msg) :=
  chat_prompt (style_render style) (tok_count tok) mllama projcount numctx msgs.

(** the observation of chatPrompt: error flag, prompt, image list (ID, data) *)
Definition chk_chat (style tok : N) (mllama projcount : bool) (numctx : Z) (msgs : list msg)
           (is_err : bool) (prompt : str) (imgs : list (N * N)) : bool :=
  match model_chat style tok mllama projcount numctx msgs with
  | ErrTooManyImages => is_err
  | Ok (p, im) => negb is_err && eqb_str p prompt && eqb_imgs im imgs
  end.

(** the token counts of the candidate prompts (real Template.Execute + tokenizer, one per suffix start) *)
Definition chk_cand (style tok : N) (msgs : list msg) (counts : list N) : bool :=
  eqb_Ns (map (fun k => tok_count tok (style_render style (candidate msgs k))) (seq 0 (length msgs))) counts.
