(** The modelled template families print what they are handed: containment and order of message contents in the
    rendered prompt ([Range], [SysRange]), and the guarded statement for the legacy System/Prompt/Response flow,
    which overwrites pending slots when empty-content or unknown-role messages lie in between. *)
From Coq Require Import List NArith ZArith Bool Arith Lia.
From V Require Import Common.Bytes Prompt.Model.
Import ListNotations.
Open Scope N_scope.

(** [cs] occur in [s] as disjoint substrings, in this order *)
Fixpoint ordered_in (cs : list str) (s : str) : Prop :=
  match cs with
  | [] => True
  | c :: cs' => exists a b, s = a ++ c ++ b /\ ordered_in cs' b
  end.

Lemma ordered_in_app_l cs x s : ordered_in cs s -> ordered_in cs (x ++ s).
Proof.
  destruct cs as [|c cs]; [trivial|]. intros (a & b & -> & H). exists (x ++ a), b. split; [|exact H].
  rewrite <- app_assoc. reflexivity.
Qed.

Lemma ordered_in_app_r cs : forall x s, ordered_in cs s -> ordered_in cs (s ++ x).
Proof.
  induction cs as [|c cs IH]; intros x s; [trivial|]. intros (a & b & -> & H). exists a, (b ++ x). split.
  - rewrite <- !app_assoc. reflexivity.
  - apply IH, H.
Qed.

Lemma ordered_in_infix cs : forall s c, ordered_in cs s -> In c cs -> Infix c s.
Proof.
  induction cs as [|c0 cs IH]; intros s c H Hin; [destruct Hin|].
  destruct H as (a & b & -> & H). destruct Hin as [->|Hin].
  - exists a, b. reflexivity.
  - apply Infix_app_l, Infix_app_l. eapply IH; eassumption.
Qed.

Lemma Infix_refl (s : str) : Infix s s.
Proof. exists [], []. rewrite app_nil_r. reflexivity. Qed.

Lemma Infix_trans (a b c : str) : Infix a b -> Infix b c -> Infix a c.
Proof.
  intros (x & y & ->) (u & v & ->). exists (u ++ x), (y ++ v). rewrite <- !app_assoc. reflexivity.
Qed.

Lemma Infix_concat (x : str) l : In x l -> Infix x (concat l).
Proof.
  induction l as [|y l IH]; intros H; [destruct H|]. cbn [concat]. destruct H as [->|H].
  - apply Infix_app_r, Infix_refl.
  - apply Infix_app_l, IH, H.
Qed.

Lemma Infix_nil (s : str) : Infix [] s.
Proof. exists [], s. reflexivity. Qed.

(** ** collate *)
Lemma collate_cons m t :
  collate (m :: t) = match collate t with
                     | h :: r => if eqb_str (role m) (role h)
                                 then mkMsg (role m) (content m ++ s_nn ++ content h) (images m) :: r
                                 else m :: h :: r
                     | [] => [m]
                     end.
Proof. reflexivity. Qed.

Lemma collate_nil_inv l : collate l = [] -> l = [].
Proof.
  destruct l as [|m t]; [reflexivity|]. rewrite collate_cons. destruct (collate t) as [|h r]; [discriminate|].
  destruct (eqb_str (role m) (role h)); discriminate.
Qed.

(** every message survives collation inside a message of its role *)
Lemma collate_contains l m :
  In m l -> exists h, In h (collate l) /\ role h = role m /\ Infix (content m) (content h).
Proof.
  induction l as [|x t IH]; intros H; [destruct H|]. rewrite collate_cons. destruct H as [->|H].
  - destruct (collate t) as [|h r].
    + exists m. split; [left; reflexivity|]. split; [reflexivity | apply Infix_refl].
    + destruct (eqb_str (role m) (role h)).
      * eexists. split; [left; reflexivity|]. split; [reflexivity|]. cbn [content]. apply Infix_app_r, Infix_refl.
      * exists m. split; [left; reflexivity|]. split; [reflexivity | apply Infix_refl].
  - destruct (IH H) as (h0 & Hin & Hr & Hi). destruct (collate t) as [|h r]; [destruct Hin|].
    destruct (eqb_str (role x) (role h)) eqn:E.
    + destruct Hin as [<-|Hin].
      * eexists. split; [left; reflexivity|]. cbn [role content]. split.
        -- apply eqb_str_spec in E. congruence.
        -- apply Infix_app_l, Infix_app_l, Hi.
      * exists h0. split; [right; exact Hin|]. split; assumption.
    + exists h0. split; [right; exact Hin|]. split; assumption.
Qed.

(** adjacent collated messages have different roles *)
Fixpoint alt (prev : option str) (l : list msg) : Prop :=
  match l with
  | [] => True
  | m :: t => prev <> Some (role m) /\ alt (Some (role m)) t
  end.

Lemma alt_weaken p q l : (forall m t, l = m :: t -> q <> Some (role m)) -> alt p l -> alt q l.
Proof. destruct l as [|m t]; [trivial|]. intros H [_ Ht]. split; [eapply H; reflexivity | exact Ht]. Qed.

Lemma collate_alt l : alt None (collate l).
Proof.
  induction l as [|m t IH]; [exact I|]. rewrite collate_cons. destruct (collate t) as [|h r].
  - split; [discriminate | exact I].
  - destruct IH as [_ Hr]. destruct (eqb_str (role m) (role h)) eqn:E.
    + apply eqb_str_spec in E. split; [discriminate|]. cbn [role]. rewrite E. exact Hr.
    + split; [discriminate|]. split; [|exact Hr]. intros [= Heq]. rewrite Heq in E.
      assert (eqb_str (role h) (role h) = true) by (apply eqb_str_spec; reflexivity). congruence.
Qed.

(** ** [Range]: everything handed to the template is printed, in order *)
Section RangeFamily.
  Variables pre mid post fin : str.
  Notation rm := (range_msg pre mid post).

  Lemma range_shape l :
    match collate l with
    | [] => l = []
    | h :: r => ordered_in (map content l) (content h ++ post ++ concat (map rm r))
    end.
  Proof.
    induction l as [|m t IH]; [reflexivity|]. rewrite collate_cons. destruct (collate t) as [|h r].
    - subst t. cbn [map ordered_in]. exists [], (post ++ concat (map rm [])). split; [reflexivity | exact I].
    - destruct (eqb_str (role m) (role h)).
      + cbn [content map ordered_in]. exists [], (s_nn ++ content h ++ post ++ concat (map rm r)). split.
        * rewrite <- !app_assoc. reflexivity.
        * apply ordered_in_app_l, IH.
      + cbn [map ordered_in concat]. exists [], (post ++ rm h ++ concat (map rm r)). split; [reflexivity|].
        apply ordered_in_app_l. unfold range_msg at 1. rewrite <- !app_assoc. do 3 apply ordered_in_app_l. exact IH.
  Qed.

  Lemma range_ordered l : ordered_in (map content l) (render_range pre mid post fin l).
  Proof.
    unfold render_range. pose proof (range_shape l) as H. destruct (collate l) as [|h r].
    - subst l. exact I.
    - cbn [map concat]. apply ordered_in_app_r. unfold range_msg at 1. rewrite <- !app_assoc.
      do 3 apply ordered_in_app_l. exact H.
  Qed.

  Lemma range_contains l m : In m l -> Infix (content m) (render_range pre mid post fin l).
  Proof. intros H. eapply ordered_in_infix; [apply range_ordered | apply in_map, H]. Qed.
End RangeFamily.

(** ** [SysRange]: system contents through [.System], user and assistant messages in the range *)
Lemma join_nn_contains (x : str) l : In x l -> Infix x (join_nn l).
Proof.
  induction l as [|y l IH]; intros H; [destruct H|]. destruct l as [|z l].
  - destruct H as [->|[]]. apply Infix_refl.
  - change (join_nn (y :: z :: l)) with (y ++ s_nn ++ join_nn (z :: l)). destruct H as [->|H].
    + apply Infix_app_r, Infix_refl.
    + apply Infix_app_l, Infix_app_l, IH, H.
Qed.

Definition std_role (r : str) : Prop := r = s_system \/ r = s_user \/ r = s_assistant.

Lemma sysrange_contains a b c d e f g l m :
  In m l -> std_role (role m) -> Infix (content m) (render_sysrange a b c d e f g l).
Proof.
  intros Hin Hr. unfold render_sysrange. destruct Hr as [Hr|Hr].
  - (* system: printed through .System *)
    assert (Hs : Infix (content m) (system_of l)).
    { unfold system_of. apply join_nn_contains, in_map. apply filter_In. split; [exact Hin|].
      unfold is_system. rewrite Hr. reflexivity. }
    destruct (system_of l) as [|s0 sl] eqn:E.
    + destruct Hs as (x & y & Hxy). destruct x; [|discriminate]. destruct (content m); [|discriminate]. apply Infix_nil.
    + cbn [is_nil]. apply Infix_app_r, Infix_app_l, Infix_app_r. exact Hs.
  - apply Infix_app_l, Infix_app_r.
    destruct (collate_contains l m Hin) as (h & Hh & Hrole & Hi).
    eapply Infix_trans; [exact Hi|]. eapply Infix_trans; [|apply Infix_concat, in_map, Hh].
    unfold sysrange_msg. rewrite Hrole. destruct Hr as [->| ->]; cbn.
    + apply Infix_app_l, Infix_app_r, Infix_refl.
    + apply Infix_app_l, Infix_app_r, Infix_refl.
Qed.

(** ** the legacy flow *)
Section LegacyFamily.
  Variable respif : bool.
  Variables a b c d e f : str.
  Notation ex := (legacy_exec respif a b c d e f).

  Lemma exec_shows final sy pr rs x : x <> [] -> x = sy \/ x = pr \/ x = rs -> Infix x (ex final sy pr rs).
  Proof.
    intros Hne H. unfold legacy_exec. destruct H as [<-|[<-|<-]].
    - destruct x; [congruence|]. cbn [is_nil]. apply Infix_app_r, Infix_app_l, Infix_app_r, Infix_refl.
    - apply Infix_app_l, Infix_app_r. destruct x; [congruence|]. cbn [is_nil]. apply Infix_app_l, Infix_app_r, Infix_refl.
    - do 2 apply Infix_app_l. destruct x; [congruence|]. cbn [is_nil]. rewrite andb_false_r.
      apply Infix_app_l, Infix_app_r, Infix_refl.
  Qed.

  Definition shown (st : lstate) (x : str) : Prop :=
    let '(sy, pr, rs, buf) := st in Infix x buf \/ x = sy \/ x = pr \/ x = rs.

  Definition pinv (prev : option str) (st : lstate) : Prop :=
    let '(sy, pr, rs, buf) := st in
    match prev with
    | None => sy = [] /\ pr = [] /\ rs = []
    | Some r => (r = s_system /\ pr = [] /\ rs = []) \/ (r = s_user /\ rs = [] /\ pr <> []) \/ (r = s_assistant /\ rs <> [])
    end.

  Definition good (m : msg) : Prop := std_role (role m) /\ content m <> [].

  Lemma nonnil_false {A} (l : list A) : l <> [] -> is_nil l = false.
  Proof. destruct l; [congruence | reflexivity]. Qed.

  Lemma legacy_step_inv prev st m seen :
    prev <> Some (role m) -> good m -> pinv prev st ->
    (forall x, In x seen -> x <> [] /\ shown st x) ->
    let st' := legacy_step (ex false) st m in
    pinv (Some (role m)) st' /\ (forall x, In x (content m :: seen) -> x <> [] /\ shown st' x).
  Proof.
    intros Hprev [Hrole Hc] Hinv Hseen. destruct st as [[[sy pr] rs] buf].
    assert (Hbuf : forall x, shown (sy, pr, rs, buf) x -> x <> [] -> Infix x (buf ++ ex false sy pr rs)).
    { intros x [H|H] Hx; [apply Infix_app_r, H | apply Infix_app_l, exec_shows; assumption]. }
    destruct Hrole as [Hr|[Hr|Hr]]; unfold legacy_step; rewrite Hr in *; cbn [eqb_str N.eqb Pos.eqb andb s_system s_user s_assistant].
    - (* system *)
      destruct (negb (is_nil pr) || negb (is_nil rs)) eqn:E.
      + split; [left; auto|]. intros x [<-|Hx]; [split; [exact Hc | right; left; reflexivity]|].
        destruct (Hseen x Hx) as [Hne Hs]. split; [exact Hne|]. left. apply (Hbuf x Hs Hne).
      + apply orb_false_iff in E as [E1 E2]. apply negb_false_iff in E1, E2.
        destruct pr; [|discriminate]. destruct rs; [|discriminate].
        split; [left; auto|]. intros x [<-|Hx]; [split; [exact Hc | right; left; reflexivity]|].
        destruct (Hseen x Hx) as [Hne Hs]. split; [exact Hne|]. cbn in Hs |- *.
        destruct Hs as [Hs|[Hs|[Hs|Hs]]]; [left; exact Hs | | congruence | congruence].
        (* x = sy: the previous message was none (the system slot is empty) *)
        exfalso. cbn in Hinv. destruct prev as [r|].
        * destruct Hinv as [(-> & _)|[(_ & _ & Hn)|(_ & Hn)]]; [congruence | congruence | congruence].
        * destruct Hinv as (-> & _). congruence.
    - (* user *)
      destruct (negb (is_nil rs)) eqn:E.
      + split; [right; left; auto|]. intros x [<-|Hx]; [split; [exact Hc | right; right; left; reflexivity]|].
        destruct (Hseen x Hx) as [Hne Hs]. split; [exact Hne|]. left. apply (Hbuf x Hs Hne).
      + apply negb_false_iff in E. destruct rs; [|discriminate].
        split; [right; left; auto|]. intros x [<-|Hx]; [split; [exact Hc | right; right; left; reflexivity]|].
        destruct (Hseen x Hx) as [Hne Hs]. split; [exact Hne|]. cbn in Hs |- *.
        destruct Hs as [Hs|[Hs|[Hs|Hs]]]; [left; exact Hs | right; left; exact Hs | | congruence].
        exfalso. cbn in Hinv. destruct prev as [r|].
        * destruct Hinv as [(_ & -> & _)|[(-> & _)|(_ & Hn)]]; [congruence | congruence | congruence].
        * destruct Hinv as (_ & -> & _). congruence.
    - (* assistant *)
      split; [right; right; auto|]. intros x [<-|Hx]; [split; [exact Hc | right; right; right; reflexivity]|].
      destruct (Hseen x Hx) as [Hne Hs]. split; [exact Hne|]. cbn in Hs |- *.
      destruct Hs as [Hs|[Hs|[Hs|Hs]]]; [left; exact Hs | right; left; exact Hs | right; right; left; exact Hs |].
      exfalso. cbn in Hinv. destruct prev as [r|].
      * destruct Hinv as [(_ & _ & ->)|[(_ & -> & _)|(-> & _)]]; [congruence | congruence | congruence].
      * destruct Hinv as (_ & _ & ->). congruence.
  Qed.

  Lemma legacy_fold_inv cl : forall prev st seen,
    alt prev cl -> (forall m, In m cl -> good m) -> pinv prev st ->
    (forall x, In x seen -> x <> [] /\ shown st x) ->
    forall x, In x (seen ++ map content cl) -> shown (fold_left (legacy_step (ex false)) cl st) x.
  Proof.
    induction cl as [|m t IH]; intros prev st seen Halt Hgood Hinv Hseen x Hx.
    - cbn [map fold_left] in *. rewrite app_nil_r in Hx. apply Hseen, Hx.
    - destruct Halt as [Hp Ht]. cbn [fold_left].
      destruct (legacy_step_inv prev st m seen Hp (Hgood m (or_introl eq_refl)) Hinv Hseen) as [Hinv' Hseen'].
      apply (IH (Some (role m)) _ (content m :: seen) Ht (fun y Hy => Hgood y (or_intror Hy)) Hinv' Hseen').
      cbn [map] in Hx. apply in_app_or in Hx as [Hx|[Hx|Hx]]; apply in_or_app.
      + left. right. exact Hx.
      + left. left. exact Hx.
      + right. exact Hx.
  Qed.

  Lemma collate_good l : (forall m, In m l -> good m) -> forall h, In h (collate l) -> good h.
  Proof.
    induction l as [|m t IH]; intros Hg h Hh; [destruct Hh|]. rewrite collate_cons in Hh.
    assert (Ht : forall h, In h (collate t) -> good h) by (apply IH; intros y Hy; apply Hg; right; exact Hy).
    destruct (collate t) as [|h0 r].
    - destruct Hh as [<-|[]]. apply Hg. left. reflexivity.
    - destruct (eqb_str (role m) (role h0)).
      + destruct Hh as [<-|Hh]; [|apply Ht; right; exact Hh]. split; cbn [role content].
        * apply (Hg m). left. reflexivity.
        * destruct (Hg m (or_introl eq_refl)) as [_ Hc]. destruct (content m); [congruence | discriminate].
      + destruct Hh as [<-|Hh]; [apply Hg; left; reflexivity | apply Ht, Hh].
  Qed.

  (** with the three standard roles and non-empty contents nothing is overwritten *)
  Lemma legacy_contains l m :
    (forall x, In x l -> good x) -> In m l -> Infix (content m) (render_legacy respif a b c d e f l).
  Proof.
    intros Hg Hin. destruct (collate_contains l m Hin) as (h & Hh & _ & Hi).
    eapply Infix_trans; [exact Hi|]. unfold render_legacy.
    pose proof (legacy_fold_inv (collate l) None ([], [], [], []) [] (collate_alt l) (collate_good l Hg)) as H.
    specialize (H (conj eq_refl (conj eq_refl eq_refl)) (fun x Hx => match Hx with end) (content h)).
    cbn [app] in H. specialize (H (in_map content _ _ Hh)).
    destruct (fold_left _ (collate l) _) as [[[sy pr] rs] buf]. cbn in H.
    destruct (collate_good l Hg h Hh) as [_ Hne].
    destruct H as [H|H]; [apply Infix_app_r, H | apply Infix_app_l, exec_shows; assumption].
  Qed.
End LegacyFamily.
