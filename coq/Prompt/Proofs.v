(** Lemmas about the model of chatPrompt (Prompt/Model.v): the backwards scan, the retained run, the system
    messages, the rewriting of the retained messages.  The renderer and the token counter are arbitrary. *)
From Coq Require Import List NArith ZArith Bool Arith Lia ZifyBool ZifyNat ZifyN.
From V Require Import Common.Bytes Prompt.Model.
Import ListNotations.
Open Scope N_scope.

(** ** the backwards scan *)
Section Scan.
  Variable render : list msg -> str.
  Variable count : str -> N.
  Variable mllama : bool.
  Variable projcount : bool.
  Variable numctx : Z.

  Notation fitsb := (fits render count mllama projcount numctx).
  Notation scanf := (scan render count mllama projcount numctx).
  Notation scan_allf := (scan_all render count mllama projcount numctx).

  Lemma scan_ok msgs k n :
    scanf msgs k = Ok n ->
    (n <= k)%nat /\
    (forall j, (n <= j < k)%nat -> fitsb msgs j = true /\ too_many mllama msgs j = false) /\
    (n = O \/ exists i, n = S i /\ fitsb msgs i = false /\ too_many mllama msgs i = false).
  Proof.
    revert n; induction k as [|i IH]; intros n H; cbn [scan] in H.
    - injection H as <-. split; [lia|]. split; [intros j Hj; lia | left; reflexivity].
    - destruct (too_many mllama msgs i) eqn:Etm; [discriminate|].
      destruct (fitsb msgs i) eqn:Ef.
      + apply IH in H as (Hle & Hall & Hstop). split; [lia|]. split; [|exact Hstop].
        intros j Hj. destruct (Nat.eq_dec j i) as [->|Hne]; [split; assumption|]. apply Hall. lia.
      + injection H as <-. split; [lia|]. split; [intros j Hj; lia|].
        right. exists i. repeat split; assumption.
  Qed.

  Lemma scan_err msgs k :
    scanf msgs k = ErrTooManyImages -> exists j, (j < k)%nat /\ too_many mllama msgs j = true.
  Proof.
    induction k as [|i IH]; intros H; cbn [scan] in H; [discriminate|].
    destruct (too_many mllama msgs i) eqn:Etm.
    - exists i. split; [lia | exact Etm].
    - destruct (fitsb msgs i); [|discriminate]. apply IH in H as (j & Hj & Hm). exists j. split; [lia | exact Hm].
  Qed.

  Lemma scan_no_panic msgs k : scanf msgs k <> PanicEmpty.
  Proof.
    induction k as [|i IH]; cbn [scan]; [discriminate|].
    destruct (too_many mllama msgs i); [discriminate|]. destruct (fitsb msgs i); [exact IH | discriminate].
  Qed.

  (** everything the scan establishes about the start [n] of the retained run *)
  Definition run_start (msgs : list msg) (n : nat) : Prop :=
    (n < length msgs)%nat /\
    (forall k, (n <= k)%nat -> (k < length msgs - 1)%nat -> fitsb msgs k = true) /\
    (n = O \/ fitsb msgs (n - 1) = false) /\
    (forall k, (n - 1 <= k)%nat -> (k < length msgs)%nat -> too_many mllama msgs k = false).

  Lemma scan_all_ok msgs n : scan_allf msgs = Ok n -> run_start msgs n.
  Proof.
    unfold scan_all. destruct msgs as [|m0 t]; [discriminate|].
    set (msgs := m0 :: t). assert (Hlen : (length msgs >= 1)%nat) by (cbn; lia).
    destruct (too_many mllama msgs (length msgs - 1)) eqn:Etm; [discriminate|].
    intros H. apply scan_ok in H as (Hle & Hall & Hstop).
    unfold run_start. split; [lia|]. split; [intros k H1 H2; apply Hall; lia|]. split.
    - destruct Hstop as [->|(i & -> & Hf & _)]; [left; reflexivity|]. right. replace (S i - 1)%nat with i by lia. exact Hf.
    - intros k H1 H2. destruct (Nat.eq_dec k (length msgs - 1)) as [->|Hne]; [exact Etm|].
      destruct Hstop as [->|(i & -> & _ & Hi)].
      + apply Hall. lia.
      + destruct (Nat.eq_dec k i) as [->|Hne']; [exact Hi|]. apply Hall. lia.
  Qed.

  Lemma scan_all_err msgs :
    scan_allf msgs = ErrTooManyImages ->
    mllama = true /\ exists j m, nth_error msgs j = Some m /\ (1 < length (images m))%nat.
  Proof.
    unfold scan_all. destruct msgs as [|m0 t]; [discriminate|]. set (msgs := m0 :: t).
    assert (Hex : forall j, too_many mllama msgs j = true -> mllama = true /\ exists j m, nth_error msgs j = Some m /\ (1 < length (images m))%nat).
    { intros j Hj. unfold too_many in Hj. destruct (nth_error msgs j) as [m|] eqn:En; [|discriminate].
      apply andb_true_iff in Hj as [Hm Hc]. split; [exact Hm|]. exists j, m. split; [exact En|]. unfold nimg in Hc. lia. }
    destruct (too_many mllama msgs (length msgs - 1)) eqn:Etm.
    - intros _. eapply Hex, Etm.
    - intros H. apply scan_err in H as (j & _ & Hj). eapply Hex, Hj.
  Qed.

  Lemma scan_all_panic msgs : scan_allf msgs = PanicEmpty <-> msgs = [].
  Proof.
    unfold scan_all. destruct msgs as [|m0 t]; [split; reflexivity|]. split; [|discriminate].
    destruct (too_many mllama (m0 :: t) (length (m0 :: t) - 1)); [discriminate|]. intros H. exfalso. eapply scan_no_panic, H.
  Qed.

  Lemma chat_prompt_ok msgs p imgs :
    chat_prompt render count mllama projcount numctx msgs = Ok (p, imgs) ->
    exists n, run_start msgs n /\ p = render (final_list mllama msgs n) /\ imgs = final_images msgs n.
  Proof.
    unfold chat_prompt. destruct (scan_allf msgs) as [n| |] eqn:E; try discriminate.
    intros [= <- <-]. exists n. split; [apply scan_all_ok, E|]. split; reflexivity.
  Qed.

  (** a prompt is built for every non-empty conversation unless an mllama message carries several images *)
  Lemma chat_prompt_total msgs :
    msgs <> [] -> (mllama = false \/ forall m, In m msgs -> (length (images m) <= 1)%nat) ->
    exists p imgs, chat_prompt render count mllama projcount numctx msgs = Ok (p, imgs).
  Proof.
    intros Hne Hok. unfold chat_prompt. destruct (scan_allf msgs) as [n| |] eqn:E.
    - eexists _, _. reflexivity.
    - exfalso. apply scan_all_err in E as (Hm & j & m & Hn & Hl). destruct Hok as [Hf|Hall]; [congruence|].
      apply nth_error_In in Hn. apply Hall in Hn. lia.
    - apply scan_all_panic in E. contradiction.
  Qed.

  (** under monotone fitting the run is the longest fitting suffix *)
  Lemma run_start_longest msgs n :
    run_start msgs n ->
    (forall k, (S k < length msgs - 1)%nat -> fitsb msgs k = true -> fitsb msgs (S k) = true) ->
    forall k, (k < length msgs - 1)%nat -> fitsb msgs k = true -> (n <= k)%nat.
  Proof.
    intros (Hlt & Hall & Hstop & _) Hmono k Hk Hf.
    destruct Hstop as [->|Hnf]; [lia|].
    destruct (le_lt_dec n k) as [Hle|Hgt]; [exact Hle|]. exfalso.
    (* fits k, k < n : climb up to n - 1 *)
    assert (Hup : forall d, (k + d <= n - 1)%nat -> fitsb msgs (k + d) = true).
    { induction d as [|d IHd]; intros Hd.
      - rewrite Nat.add_0_r. exact Hf.
      - replace (k + S d)%nat with (S (k + d)) by lia. apply Hmono; [lia|]. apply IHd. lia. }
    specialize (Hup (n - 1 - k)%nat). replace (k + (n - 1 - k))%nat with (n - 1)%nat in Hup by lia.
    rewrite Hup in Hnf by lia. discriminate.
  Qed.

  Lemma run_start_only_latest msgs n :
    run_start msgs n -> (2 <= length msgs)%nat -> fitsb msgs (length msgs - 2) = false -> n = (length msgs - 1)%nat.
  Proof.
    intros (Hlt & Hall & _) Hlen Hnf.
    destruct (Nat.eq_dec n (length msgs - 1)) as [->|Hne]; [reflexivity|]. exfalso.
    rewrite Hall in Hnf by lia. discriminate.
  Qed.
End Scan.

(** ** system messages and the retained run in the list handed to the template *)
Lemma sysmsgs_In l m : In m (sysmsgs l) <-> In m l /\ is_system m = true.
Proof. apply filter_In. Qed.

Lemma nth_error_firstn_lt {A} (l : list A) n j : (j < n)%nat -> nth_error (firstn n l) j = nth_error l j.
Proof.
  revert n j; induction l as [|x l IH]; intros [|n] [|j] H; cbn; try reflexivity; try lia.
  apply IH. lia.
Qed.

Lemma system_before_kept msgs n j m :
  (j < n)%nat -> nth_error msgs j = Some m -> is_system m = true -> In m (sysmsgs (firstn n msgs)).
Proof.
  intros Hj Hn Hs. apply sysmsgs_In. split; [|exact Hs].
  eapply nth_error_In. rewrite nth_error_firstn_lt; eassumption.
Qed.

(** ** rewrite_all keeps length, roles, images and order; only contents change *)
Lemma rewrite_msg_role ml id m : role (rewrite_msg ml id m) = role m.
Proof. unfold rewrite_msg. destruct (place_images _ _ _ _). reflexivity. Qed.

Lemma rewrite_msg_images ml id m : images (rewrite_msg ml id m) = images m.
Proof. unfold rewrite_msg. destruct (place_images _ _ _ _). reflexivity. Qed.

Lemma rewrite_msg_noimg ml id m : images m = [] -> rewrite_msg ml id m = m.
Proof.
  intros H. unfold rewrite_msg. rewrite H. cbn. rewrite andb_false_r. cbn. destruct m; cbn in *. subst. reflexivity.
Qed.

Lemma rewrite_all_length ml id l : length (rewrite_all ml id l) = length l.
Proof. revert id; induction l as [|m t IH]; intros id; cbn; [reflexivity | f_equal; apply IH]. Qed.

Lemma nimages_cons m l : nimages (m :: l) = nimg m + nimages l.
Proof. reflexivity. Qed.

Lemma nimages_app a b : nimages (a ++ b) = nimages a + nimages b.
Proof. induction a as [|m a IH]; [reflexivity|]. cbn [app]. rewrite !nimages_cons, IH. lia. Qed.

Lemma rewrite_all_nth ml id l j m :
  nth_error l j = Some m ->
  nth_error (rewrite_all ml id l) j = Some (rewrite_msg ml (id + nimages (firstn j l)) m).
Proof.
  revert id j; induction l as [|x t IH]; intros id [|j] H; cbn [nth_error rewrite_all firstn] in *; try discriminate.
  - injection H as ->. f_equal. f_equal. change (nimages []) with 0. lia.
  - rewrite (IH _ _ H). f_equal. f_equal. rewrite nimages_cons. lia.
Qed.

Lemma rewrite_all_app ml id a b :
  rewrite_all ml id (a ++ b) = rewrite_all ml id a ++ rewrite_all ml (id + nimages a) b.
Proof.
  revert id; induction a as [|m a IH]; intros id; cbn [app rewrite_all].
  - f_equal. change (nimages []) with 0. lia.
  - f_equal. rewrite IH. f_equal. f_equal. rewrite nimages_cons. lia.
Qed.

Lemma rewrite_all_noimg ml id l : (forall m, In m l -> images m = []) -> rewrite_all ml id l = l.
Proof.
  revert id; induction l as [|m t IH]; intros id H; cbn; [reflexivity|].
  rewrite rewrite_msg_noimg by (apply H; left; reflexivity).
  assert (Hn : nimg m = 0) by (unfold nimg; rewrite (H m (or_introl eq_refl)); reflexivity).
  rewrite Hn, N.add_0_r. f_equal. apply IH. intros x Hx. apply H. right. exact Hx.
Qed.

Lemma map_role_rewrite_all ml id l : map role (rewrite_all ml id l) = map role l.
Proof. revert id; induction l as [|m t IH]; intros id; cbn; [reflexivity|]. rewrite rewrite_msg_role, IH. reflexivity. Qed.

Lemma map_images_rewrite_all ml id l : map images (rewrite_all ml id l) = map images l.
Proof. revert id; induction l as [|m t IH]; intros id; cbn; [reflexivity|]. rewrite rewrite_msg_images, IH. reflexivity. Qed.

(** the latest message is the last element of the list handed to the template *)
Lemma skipn_last_split {A} (l : list A) n :
  (n < length l)%nat -> exists mid x, skipn n l = mid ++ [x] /\ nth_error l (length l - 1) = Some x /\ length mid = (length l - 1 - n)%nat.
Proof.
  intros H. assert (Hne : skipn n l <> []).
  { intros E. apply (f_equal (@length A)) in E. rewrite skipn_length in E. cbn in E. lia. }
  destruct (exists_last Hne) as (mid & x & E). exists mid, x. split; [exact E|].
  assert (Hl : length (skipn n l) = (length mid + 1)%nat) by (rewrite E, app_length; reflexivity).
  rewrite skipn_length in Hl. split; [|lia].
  rewrite <- (firstn_skipn n l) at 1. rewrite E.
  rewrite nth_error_app2 by (rewrite firstn_length; lia).
  rewrite firstn_length. replace (length l - 1 - Nat.min n (length l))%nat with (length mid) by lia.
  rewrite nth_error_app2 by lia. rewrite Nat.sub_diag. reflexivity.
Qed.

Lemma final_list_last ml msgs n :
  (n < length msgs)%nat ->
  exists pre x, nth_error msgs (length msgs - 1) = Some x /\
    final_list ml msgs n = pre ++ [rewrite_msg ml (nimages (firstn (length msgs - 1 - n) (skipn n msgs))) x].
Proof.
  intros H. destruct (skipn_last_split msgs n H) as (mid & x & E & Hx & Hl).
  exists (sysmsgs (firstn n msgs) ++ rewrite_all ml 0 mid), x. split; [exact Hx|].
  unfold final_list, retained. rewrite E, rewrite_all_app. cbn. rewrite <- app_assoc. do 3 f_equal.
  rewrite <- Hl, firstn_app, firstn_all, Nat.sub_diag. cbn [firstn]. rewrite app_nil_r. reflexivity.
Qed.

(** ** the image list *)
Lemma number_fst id l : map fst (number id l) = map (fun k => id + N.of_nat k) (seq 0 (length l)).
Proof.
  revert id; induction l as [|d t IH]; intros id; cbn; [reflexivity|]. f_equal; [lia|].
  rewrite IH, <- seq_shift, map_map. apply map_ext. intros k. lia.
Qed.

Lemma number_snd id l : map snd (number id l) = l.
Proof. revert id; induction l as [|d t IH]; intros id; cbn; [reflexivity|]. f_equal. apply IH. Qed.

Lemma number_nth id l k d : nth_error l k = Some d -> nth_error (number id l) k = Some (id + N.of_nat k, d).
Proof.
  revert id k; induction l as [|x t IH]; intros id [|k] H; cbn in *; try discriminate.
  - injection H as ->. f_equal. f_equal. lia.
  - rewrite (IH _ _ H). f_equal. f_equal. lia.
Qed.

Lemma nimages_concat l : nimages l = N.of_nat (length (concat (map images l))).
Proof. induction l as [|m t IH]; [reflexivity|]. rewrite nimages_cons. cbn [map concat]. rewrite app_length, IH. unfold nimg. lia. Qed.
