(** Executable comparison functions of the C17 correspondence check (cases are written by props/c17.py).
    Every chk_* evaluates the model on the runner script of a case and compares with what the real server /
    the real api.Client produced, record by record. *)
From Coq Require Import List NArith ZArith Bool Arith.
From V Require Import Common.Bytes Stream.Model.
Import ListNotations.

Definition eqb_ostr (a b : option str) : bool :=
  match a, b with Some x, Some y => eqb_str x y | None, None => true | _, _ => false end.
Definition eqb_counts (a b : counts) : bool :=
  Z.eqb (pc a) (pc b) && Z.eqb (pd a) (pd b) && Z.eqb (ec a) (ec b) && Z.eqb (ed a) (ed b).
Definition eqb_call (a b : call) : bool :=
  eqb_str (cname a) (cname b) && eqb_str (cargs a) (cargs b) && Nat.eqb (cidx a) (cidx b).
Fixpoint eqb_list {A} (f : A -> A -> bool) (a b : list A) : bool :=
  match a, b with
  | [], [] => true
  | x :: a', y :: b' => f x y && eqb_list f a' b'
  | _, _ => false
  end.
Definition eqb_nrec (a b : nrec) : bool :=
  match a, b with
  | Msg c1 l1 d1 r1 n1 x1, Msg c2 l2 d2 r2 n2 x2 =>
      eqb_str c1 c2 && eqb_list eqb_call l1 l2 && Bool.eqb d1 d2 && eqb_str r1 r2 && eqb_counts n1 n2 && eqb_ostr x1 x2
  | ErrRec m1, ErrRec m2 => eqb_str m1 m2
  | _, _ => false
  end.
Definition eqb_http (a b : http) : bool :=
  match a, b with Http s1 r1, Http s2 r2 => Z.eqb s1 s2 && eqb_nrec r1 r2 end.
Definition eqb_sse (a b : sse) : bool :=
  match a, b with
  | SChunk c1 l1 f1, SChunk c2 l2 f2 => eqb_str c1 c2 && eqb_list eqb_call l1 l2 && eqb_ostr f1 f2
  | SUsage p1 e1, SUsage p2 e2 => Z.eqb p1 p2 && Z.eqb e1 e2
  | SMarker, SMarker => true
  | SError m1, SError m2 => eqb_str m1 m2
  | _, _ => false
  end.
Definition eqb_v1body (a b : Z * v1body) : bool :=
  Z.eqb (fst a) (fst b) &&
  match snd a, snd b with
  | VCompletion c1 l1 f1 p1 e1, VCompletion c2 l2 f2 p2 e2 =>
      eqb_str c1 c2 && eqb_list eqb_call l1 l2 && eqb_ostr f1 f2 && Z.eqb p1 p2 && Z.eqb e1 e2
  | VError m1, VError m2 => eqb_str m1 m2
  | _, _ => false
  end.

(** the real parser's answers on the strings the model can ask about (all runs of consecutive chunks),
    as a table; a missing entry answers with a sentinel call so that the comparison fails *)
Definition ptable := list (str * option (list (str * str))).
Definition missing : option (list (str * str)) := Some [([63;63]%N, [63;63]%N)].
Fixpoint P_of (t : ptable) (s : str) : option (list (str * str)) :=
  match t with
  | [] => missing
  | (k, v) :: t' => if eqb_str k s then v else P_of t' s
  end.

(** /api/generate *)
Definition chk_gen_stream (cfg : gcfg) (o : rout) (obs : list nrec) : bool :=
  eqb_list eqb_nrec (gen_stream cfg o) obs.
Definition chk_gen_nonstream (cfg : gcfg) (o : rout) (obs : http) : bool :=
  eqb_http (gen_nonstream cfg o) obs.
(** /api/chat *)
Definition chk_chat_stream (t : ptable) (tools : bool) (o : rout) (obs : list nrec) : bool :=
  eqb_list eqb_nrec (chat_stream (P_of t) (mkCc true tools) o) obs.
Definition chk_chat_nonstream (t : ptable) (tools : bool) (o : rout) (obs : http) : bool :=
  eqb_http (chat_nonstream (P_of t) tools o) obs.
(** /v1/completions *)
Definition chk_v1comp_stream (usage : bool) (cfg : gcfg) (o : rout) (obs : list sse) : bool :=
  eqb_list eqb_sse (v1comp_stream usage (gen_stream cfg o)) obs.
Definition chk_v1comp_nonstream (cfg : gcfg) (o : rout) (obs : Z * v1body) : bool :=
  eqb_v1body (v1comp_nonstream (gen_nonstream cfg o)) obs.
(** /v1/chat/completions *)
Definition chk_v1chat_stream (usage : bool) (t : ptable) (tools : bool) (o : rout) (obs : list sse) : bool :=
  eqb_list eqb_sse (v1chat_stream usage false (chat_stream (P_of t) (mkCc true tools) o)) obs.
Definition chk_v1chat_nonstream (t : ptable) (tools : bool) (o : rout) (obs : Z * v1body) : bool :=
  eqb_v1body (v1chat_nonstream (chat_nonstream (P_of t) tools o)) obs.

(** api.Client over the native endpoints: what the callback saw and how the call returned.
    ok = returned nil; the error text must be the server's message otherwise *)
Fixpoint upto_err (recs : list nrec) : list nrec * option str :=
  match recs with
  | [] => ([], None)
  | ErrRec m :: _ => ([], Some m)
  | r :: rest => let '(d, e) := upto_err rest in (r :: d, e)
  end.
Definition chk_client_native (model_recs : list nrec) (got : list nrec) (err : option str) : bool :=
  let '(d, e) := upto_err model_recs in eqb_list eqb_nrec d got && eqb_ostr e err.
Definition http_as_stream (h : http) : list nrec := match h with Http _ r => [r] end.

Definition chk_client_gen (stream : bool) (cfg : gcfg) (o : rout) (got : list nrec) (err : option str) : bool :=
  chk_client_native (if stream then gen_stream cfg o else http_as_stream (gen_nonstream cfg o)) got err.
Definition chk_client_chat (stream : bool) (t : ptable) (tools : bool) (o : rout) (got : list nrec) (err : option str) : bool :=
  chk_client_native (if stream then chat_stream (P_of t) (mkCc true tools) o
                     else http_as_stream (chat_nonstream (P_of t) tools o)) got err.

(** api.Client against scripted lines: delivered (done flag, length) and error class
    0 = nil, 1 = server error message, 2 = unmarshal, 3 = token too long, 4 = status, 5 = transport (unexpected EOF) *)
Definition cres_code (r : cres) : N :=
  match r with COk => 0 | CFail (EServer _) => 1 | CFail EUnmarshal => 2 | CFail ETooLong => 3 | CFail EStatus => 4 | CFail ETransport => 5 end%N.
Definition eqb_line (a b : line) : bool :=
  match a, b with
  | LMsg n1 d1, LMsg n2 d2 => N.eqb n1 n2 && Bool.eqb d1 d2
  | _, _ => false
  end.
Definition chk_client_lines (max : N) (status : Z) (ls : list line) (got : list line) (code : N) : bool :=
  let '(d, r) := client_stream true max status ls in
  eqb_list eqb_line d got && N.eqb (cres_code r) code.

(** the same with a transport fault: ls = the lines sent completely, c = what followed before the connection was cut *)
Definition chk_client_cut (max : N) (status : Z) (ls : list line) (c : cutpoint) (got : list line) (code : N) : bool :=
  let '(d, r) := client_stream_cut true max status ls c in
  eqb_list eqb_line d got && N.eqb (cres_code r) code.

(** /v1/chat/completions stream: merging the observed tool-call deltas by index gives the calls of the model's native stream *)
Definition eqb_pair (a b : str * str) : bool := eqb_str (fst a) (fst b) && eqb_str (snd a) (snd b).
Definition chk_v1chat_reassemble (t : ptable) (tools : bool) (o : rout) (obs : list sse) : bool :=
  eqb_list eqb_pair (reassemble (sse_calls obs)) (strip (rec_calls (chat_stream (P_of t) (mkCc true tools) o))).

(** the handlers on the callback trace that the real llm client (or an off-contract mock) actually produced *)
Definition chk_gen_trace (cfg : gcfg) (t : ctrace) (obs : list nrec) : bool :=
  eqb_list eqb_nrec (gen_trace_stream cfg t) obs.
Definition chk_gen_trace_ns (cfg : gcfg) (t : ctrace) (obs : http) : bool :=
  eqb_http (ns_fold [] zero_msg (gen_trace_stream cfg t)) obs.
Definition chk_chat_trace (pt : ptable) (tools : bool) (t : ctrace) (obs : list nrec) : bool :=
  eqb_list eqb_nrec (chat_trace_stream (P_of pt) (mkCc true tools) t) obs.
Definition chk_chat_trace_ns (pt : ptable) (tools : bool) (t : ctrace) (obs : http) : bool :=
  eqb_http (chat_ns_final (P_of pt) tools (ns_fold [] zero_msg (chat_trace_stream (P_of pt) (mkCc false tools) t))) obs.
