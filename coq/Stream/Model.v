(** C17 - executable model of the response aggregation of server/routes.go (GenerateHandler, ChatHandler,
    streamResponse), of the OpenAI writers of openai/openai.go (ChatWriter, CompleteWriter, toChunk,
    toChatCompletion, toCompleteChunk, toCompletion) and of api/client.go stream.  Definitions only.

    Conventions.  Strings are byte lists.  A *runner output* is what the handler's callback receives from
    llm.LlamaServer.Completion: content chunks (Done=false, no counts) followed by how Completion ends:
    a final response (Done=true, reason, counts, possibly content), an error return, or a return without
    either ("silent": llm/server.go returns nil after the token-repeat abort or a clean end of the runner's
    body).  Wall-clock fields (created_at, total_duration, load_duration) and ids are not modelled.
    The JSON text of a record is not modelled: a record is its decoded field tuple (trusted: encoding/json). *)
From Coq Require Import List NArith ZArith Bool Arith.
From V Require Import Common.Bytes.
Import ListNotations.

(** ** runner side *)
Inductive reason := RStop | RLength | RClosed.
Definition s_stop : str := [115;116;111;112]%N.
Definition s_length : str := [108;101;110;103;116;104]%N.
Definition s_tool_calls : str := [116;111;111;108;95;99;97;108;108;115]%N.
(** llm.DoneReason.String *)
Definition reason_str (r : reason) : str :=
  match r with RStop => s_stop | RLength => s_length | RClosed => [] end.

(** prompt_eval_count, prompt_eval_duration, eval_count, eval_duration of the final runner response *)
Record counts := mkC { pc : Z; pd : Z; ec : Z; ed : Z }.
Definition zeroc := mkC 0 0 0 0.

Inductive fin :=
| FDone (content : str) (r : reason) (c : counts)
| FErr (msg : str)
| FSilent.
Record rout := mkOut { chunks : list str; ending : fin }.

(** the text the model produced *)
Definition fin_content (f : fin) : str := match f with FDone c _ _ => c | _ => [] end.
Definition text_of (o : rout) : str := concat (chunks o) ++ fin_content (ending o).

(** ** native records (one NDJSON line / the single JSON body) *)
Record call := mkCall { cname : str; cargs : str; cidx : nat }.
Inductive nrec :=
| Msg (content : str) (calls : list call) (done : bool) (rs : str) (c : counts) (ctx : option str)
| ErrRec (msg : str).
Definition is_terminal (r : nrec) : bool :=
  match r with Msg _ _ d _ _ _ => d | ErrRec _ => true end.

(** ** GenerateHandler *)
Record gcfg := mkG { g_raw : bool; g_tokfail : bool; g_prompt : str }.
Definition tokfail_msg : str := [116;111;107;101;110;105;122;101;32;102;97;105;108;101;100]%N. (* "tokenize failed" *)

(** the callback on the final runner response: res.DoneReason, and (unless raw) res.Context = Tokenize(prompt+sb);
    a Tokenize error sends the error instead of the response. sb already contains the final content. *)
Definition gen_done (cfg : gcfg) (sb content : str) (r : reason) (c : counts) : list nrec :=
  if g_raw cfg then [Msg content [] true (reason_str r) c None]
  else if g_tokfail cfg then [ErrRec tokfail_msg]
  else [Msg content [] true (reason_str r) c (Some (g_prompt cfg ++ sb))].

(** everything the goroutine sends on the channel, in order (sb = strings.Builder of the callback) *)
Fixpoint gen_items (cfg : gcfg) (sb : str) (cs : list str) (f : fin) : list nrec :=
  match cs with
  | c :: cs' => Msg c [] false [] zeroc None :: gen_items cfg (sb ++ c) cs' f
  | [] => match f with
          | FDone content r cnt => gen_done cfg (sb ++ content) content r cnt
          | FErr m => [ErrRec m]
          | FSilent => []
          end
  end.

(** streamResponse: one NDJSON line per channel value *)
Definition gen_stream (cfg : gcfg) (o : rout) : list nrec := gen_items cfg [] (chunks o) (ending o).

(** the non-stream loop `for rr := range ch` of both handlers: concatenate, keep the last, stop at an error *)
Inductive http := Http (status : Z) (body : nrec).
Definition zero_msg : nrec := Msg [] [] false [] zeroc None.
Definition set_content (r : nrec) (s : str) : nrec :=
  match r with Msg _ calls d rs c x => Msg s calls d rs c x | e => e end.
Fixpoint ns_fold (sb : str) (last : nrec) (items : list nrec) : http :=
  match items with
  | [] => Http 200 (set_content last sb)
  | (Msg c _ _ _ _ _ as t) :: rest => ns_fold (sb ++ c) t rest
  | ErrRec m :: _ => Http 500 (ErrRec m)
  end.
Definition gen_nonstream (cfg : gcfg) (o : rout) : http := ns_fold [] zero_msg (gen_stream cfg o).

(** ** ChatHandler *)
Record ccfg := mkCc { c_stream : bool;   (* false iff req.Stream != nil && !*req.Stream *)
                      c_tools : bool }.  (* len(req.Tools) > 0 *)

Section Chat.
  (** Model.parseToolCalls: Some (name, arguments) list (non-empty in the code) or None *)
  Variable P : str -> option (list (str * str)).

  Fixpoint number (i : nat) (l : list (str * str)) : list call :=
    match l with [] => [] | (n, a) :: t => mkCall n a i :: number (S i) t end.

  (** one invocation of the callback; state = (sb, toolCallIndex) *)
  Definition chat_step (cfg : ccfg) (st : str * nat) (content : str) (done : bool) (rs : str) (cnt : counts)
    : (str * nat) * list nrec :=
    let '(sb, idx) := st in
    if negb (c_stream cfg) || negb (c_tools cfg) then (st, [Msg content [] done rs cnt None])
    else
      let sb' := sb ++ content in
      match P sb' with
      | Some calls => (([], idx + length calls), [Msg [] (number idx calls) done rs cnt None])
      | None =>
          if done then ((sb', idx), [Msg (if Nat.eqb idx 0 then sb' else content) [] done rs cnt None])
          else ((sb', idx), [])
      end.

  Fixpoint chat_items (cfg : ccfg) (st : str * nat) (cs : list str) (f : fin) : list nrec :=
    match cs with
    | c :: cs' => let '(st', out) := chat_step cfg st c false [] zeroc in out ++ chat_items cfg st' cs' f
    | [] => match f with
            | FDone content r cnt => snd (chat_step cfg st content true (reason_str r) cnt)
            | FErr m => [ErrRec m]
            | FSilent => []
            end
    end.

  Definition chat_stream (cfg : ccfg) (o : rout) : list nrec := chat_items cfg ([], 0) (chunks o) (ending o).

  (** after the loop: with tools, parse the whole text once *)
  Definition chat_ns_final (tools : bool) (h : http) : http :=
    match h with
    | Http 200 (Msg c _ d rs cnt x) =>
        if tools then
          match P c with
          | Some calls => Http 200 (Msg [] (map (fun na => mkCall (fst na) (snd na) 0) calls) d rs cnt x)
          | None => h
          end
        else h
    | _ => h
    end.
  Definition chat_nonstream (tools : bool) (o : rout) : http :=
    chat_ns_final tools (ns_fold [] zero_msg (chat_stream (mkCc false tools) o)).
End Chat.

(** ** raw requests.  In the JSON body a field can be absent, null, or present with a value (possibly empty: [], "", {}).
    encoding/json gives the handler nil for absent and null, and an empty non-nil value for an empty one.  The handler
    reads `stream` as `req.Stream != nil && !*req.Stream` and "tools were requested" as `len(req.Tools) > 0` at EVERY
    site (capability check, streaming callback, non-stream parse); /v1 re-marshals the request and drops an empty list. *)
Inductive jfield (A : Type) := JAbsent | JNull | JVal (v : A).
Arguments JAbsent {A}. Arguments JNull {A}. Arguments JVal {A} v.
Record chat_raw := mkRaw { q_stream : jfield bool; q_tools : jfield (list str) }.   (* tools: the function names *)

Definition stream_false (f : jfield bool) : bool := match f with JVal false => true | _ => false end.
Definition tools_len_pos (f : jfield (list str)) : bool := match f with JVal (_ :: _) => true | _ => false end.
Definition tools_non_nil (f : jfield (list str)) : bool := match f with JVal _ => true | _ => false end.  (* NOT what the code asks *)

Definition chat_cfg_of (q : chat_raw) : ccfg := mkCc (negb (stream_false (q_stream q))) (tools_len_pos (q_tools q)).
Definition chat_ns_tools_of (q : chat_raw) : bool := tools_len_pos (q_tools q).

(** normal form of a request: nil and empty are the same request *)
Definition norm_raw (q : chat_raw) : bool * option (list str) :=
  (match q_stream q with JVal b => b | _ => true end,
   match q_tools q with JVal (x :: l) => Some (x :: l) | _ => None end).

(** ** arbitrary callback traces.  [rout] is what llm.LlamaServer.Completion promises (its contract: content callbacks, then
    a final response and nil, or an error and no final response).  The handlers themselves do not rely on it: they
    forward every callback and append an error record when Completion returns an error.  A trace is any sequence of
    callbacks with any return value - e.g. a final response followed by more callbacks, or by an error return
    ("done then fault"). *)
Inductive cev := CChunk (c : str) | CFinal (content : str) (r : reason) (c : counts).
Record ctrace := mkTrace { events : list cev; returned : option str }.

Definition trace_of (o : rout) : ctrace :=
  match ending o with
  | FDone c r n => mkTrace (map CChunk (chunks o) ++ [CFinal c r n]) None
  | FErr m => mkTrace (map CChunk (chunks o)) (Some m)
  | FSilent => mkTrace (map CChunk (chunks o)) None
  end.

(** Completion's contract on a trace: at most one final response, nothing after it, and an error return iff there is none *)
Definition is_final (e : cev) : bool := match e with CFinal _ _ _ => true | CChunk _ => false end.
Definition finals (t : ctrace) : nat := length (filter is_final (events t)).
Definition errs (t : ctrace) : nat := match returned t with Some _ => 1 | None => 0 end.
Definition contractb (t : ctrace) : bool :=
  match rev (events t), returned t with
  | CFinal _ _ _ :: before, None => negb (existsb is_final before)
  | evs, Some _ => negb (existsb is_final evs)
  | _, None => false
  end.

Fixpoint gen_trace_items (cfg : gcfg) (sb : str) (evs : list cev) : list nrec :=
  match evs with
  | [] => []
  | CChunk c :: t => Msg c [] false [] zeroc None :: gen_trace_items cfg (sb ++ c) t
  | CFinal content r n :: t => gen_done cfg (sb ++ content) content r n ++ gen_trace_items cfg (sb ++ content) t
  end.
Definition ret_items (t : ctrace) : list nrec := match returned t with Some m => [ErrRec m] | None => [] end.
Definition gen_trace_stream (cfg : gcfg) (t : ctrace) : list nrec := gen_trace_items cfg [] (events t) ++ ret_items t.

Section ChatTrace.
  Variable P : str -> option (list (str * str)).
  Fixpoint chat_trace_items (cfg : ccfg) (st : str * nat) (evs : list cev) : list nrec :=
    match evs with
    | [] => []
    | CChunk c :: t => let '(st', out) := chat_step P cfg st c false [] zeroc in out ++ chat_trace_items cfg st' t
    | CFinal content r n :: t =>
        let '(st', out) := chat_step P cfg st content true (reason_str r) n in out ++ chat_trace_items cfg st' t
    end.
  Definition chat_trace_stream (cfg : ccfg) (t : ctrace) : list nrec :=
    chat_trace_items cfg ([], 0) (events t) ++ ret_items t.
End ChatTrace.

(** ** OpenAI writers (openai/openai.go).  The middleware turns the request into the native one
    (Stream always set) and wraps the response writer: every Write of the handler is translated. *)
Inductive sse :=
| SChunk (content : str) (calls : list call) (finish : option str)   (* toChunk / toCompleteChunk *)
| SUsage (p e : Z)                                                   (* include_usage chunk, choices = [] *)
| SMarker                                                            (* data: [DONE] *)
| SError (msg : str).                                                (* data: {"error":{...}} (repaired writer) *)

Definition nonempty {A} (l : list A) : bool := match l with [] => false | _ => true end.
Definition fin_opt (rs : str) : option str := if nonempty rs then Some rs else None.

(** ChatWriter.writeResponse, stream branch; sent = w.toolCallSent *)
Fixpoint v1chat_stream (usage : bool) (sent : bool) (recs : list nrec) : list sse :=
  match recs with
  | [] => []
  | Msg c calls d rs cnt _ :: rest =>
      SChunk c calls (if nonempty rs then Some (if sent then s_tool_calls else rs) else None)
      :: (if d then (if usage then [SUsage (pc cnt) (ec cnt)] else []) ++ [SMarker] else [])
      ++ v1chat_stream usage (sent || nonempty calls) rest
  | ErrRec m :: rest => SError m :: v1chat_stream usage sent rest
  end.

(** CompleteWriter.writeResponse, stream branch *)
Fixpoint v1comp_stream (usage : bool) (recs : list nrec) : list sse :=
  match recs with
  | [] => []
  | Msg c _ d rs cnt _ :: rest =>
      SChunk c [] (fin_opt rs)
      :: (if d then (if usage then [SUsage (pc cnt) (ec cnt)] else []) ++ [SMarker] else [])
      ++ v1comp_stream usage rest
  | ErrRec m :: rest => SError m :: v1comp_stream usage rest
  end.

(** non-stream bodies: toChatCompletion / toCompletion / writeError *)
Inductive v1body :=
| VCompletion (content : str) (calls : list call) (finish : option str) (p e : Z)
| VError (msg : str).
Definition v1chat_nonstream (h : http) : Z * v1body :=
  match h with
  | Http st (Msg c calls _ rs cnt _) =>
      (st, VCompletion c calls (if nonempty calls then Some s_tool_calls else fin_opt rs) (pc cnt) (ec cnt))
  | Http st (ErrRec m) => (st, VError m)
  end.
Definition v1comp_nonstream (h : http) : Z * v1body :=
  match h with
  | Http st (Msg c _ _ rs cnt _) => (st, VCompletion c [] (fin_opt rs) (pc cnt) (ec cnt))
  | Http st (ErrRec m) => (st, VError m)
  end.

(** ** api/client.go stream: bufio.Scanner over the body with a maximum token size, one JSON value per line *)
Inductive line :=
| LMsg (len : N) (done : bool)     (* a response object *)
| LErr (len : N) (msg : str)       (* {"error": msg}, msg non-empty *)
| LGarbage (len : N).              (* not a JSON value *)
Definition line_len (l : line) : N := match l with LMsg n _ => n | LErr n _ => n | LGarbage n => n end.
Inductive cerr := EServer (msg : str) | EUnmarshal | ETooLong | EStatus | ETransport.
Inductive cres := COk | CFail (e : cerr).

(** [checked]: the loop is followed by `return scanner.Err()` (the repaired client); without it the scanner's
    error is dropped and the call returns nil.  Every line is newline-terminated: the scanner finds a line of
    [len] bytes iff len + 1 <= max. *)
Fixpoint client_stream (checked : bool) (max : N) (status : Z) (ls : list line) : list line * cres :=
  match ls with
  | [] => ([], COk)
  | l :: rest =>
      if (max <=? line_len l)%N then ([], if checked then CFail ETooLong else COk)
      else match l with
           | LGarbage _ => ([], CFail EUnmarshal)
           | LErr _ m => ([], CFail (EServer m))
           | LMsg _ _ =>
               if (400 <=? status)%Z then ([], CFail EStatus)
               else let '(d, r) := client_stream checked max status rest in (l :: d, r)
           end
  end.

(** *** transport faults: the reader sees a prefix of the body, cut anywhere, and then a read error (the end-of-body
    marker of the chunked / Content-Length framing never arrives).  [ls] are the lines received completely (with their
    newline); the cut point says what follows them.  bufio.Scanner hands the unterminated rest to the loop as a last
    token (split is called with atEOF on any read error) and remembers the read error for Err(). *)
Inductive cutpoint :=
| CutNone                      (* the whole body and its end marker arrived *)
| CutBetween                   (* cut right after a newline (or: everything arrived but the end marker) *)
| CutInside (m : N)            (* m bytes of the next line, a proper prefix of its content: not a JSON value *)
| CutBeforeNewline (l : line). (* the whole content of the next line, its newline missing *)

Definition cut_tail (checked : bool) (max : N) (status : Z) (c : cutpoint) : list line * cres :=
  let lost := if checked then CFail ETransport else COk in
  match c with
  | CutNone => ([], COk)
  | CutBetween => ([], lost)
  | CutInside m => if (max <=? m)%N then ([], if checked then CFail ETooLong else COk) else ([], CFail EUnmarshal)
  | CutBeforeNewline l =>
      if (max <=? line_len l)%N then ([], if checked then CFail ETooLong else COk)
      else match l with
           | LGarbage _ => ([], CFail EUnmarshal)
           | LErr _ m => ([], CFail (EServer m))
           | LMsg _ _ => if (400 <=? status)%Z then ([], CFail EStatus) else ([l], lost)
           end
  end.

Fixpoint client_stream_cut (checked : bool) (max : N) (status : Z) (ls : list line) (c : cutpoint) : list line * cres :=
  match ls with
  | [] => cut_tail checked max status c
  | l :: rest =>
      if (max <=? line_len l)%N then ([], if checked then CFail ETooLong else COk)
      else match l with
           | LGarbage _ => ([], CFail EUnmarshal)
           | LErr _ m => ([], CFail (EServer m))
           | LMsg _ _ =>
               if (400 <=? status)%Z then ([], CFail EStatus)
               else let '(d, r) := client_stream_cut checked max status rest c in (l :: d, r)
           end
  end.

Definition strip (l : list call) : list (str * str) := map (fun c => (cname c, cargs c)) l.

(** ** tool-call deltas: an OpenAI client merges the tool_calls of the streamed chunks by their index
    (name and arguments of deltas with the same index are concatenated; a new index starts a new call) *)
Fixpoint merge_call (acc : list (nat * (str * str))) (c : call) : list (nat * (str * str)) :=
  match acc with
  | [] => [(cidx c, (cname c, cargs c))]
  | (i, (n, a)) :: t =>
      if Nat.eqb i (cidx c) then (i, (n ++ cname c, a ++ cargs c)) :: t else (i, (n, a)) :: merge_call t c
  end.
Definition reassemble (l : list call) : list (str * str) := map snd (fold_left merge_call l []).
Definition sse_calls (l : list sse) : list call :=
  flat_map (fun e => match e with SChunk _ cl _ => cl | _ => [] end) l.
Definition rec_calls (l : list nrec) : list call :=
  flat_map (fun r => match r with Msg _ cl _ _ _ _ => cl | ErrRec _ => [] end) l.
Definition v1_calls (b : Z * v1body) : list (str * str) :=
  match snd b with VCompletion _ cl _ _ _ => strip cl | VError _ => [] end.

(** ** results: what a client ends up with *)
Inductive result :=
| ROk (text : str) (calls : list (str * str)) (rs : str) (c : counts) (ctx : option str)
| RFail (msg : str)
| RUnfinished (text : str) (calls : list (str * str)).


(** concatenate a stream up to its first terminal record *)
Fixpoint stream_result_from (text : str) (calls : list (str * str)) (recs : list nrec) : result :=
  match recs with
  | [] => RUnfinished text calls
  | Msg c cl d rs cnt x :: rest =>
      if d then ROk (text ++ c) (calls ++ strip cl) rs cnt x
      else stream_result_from (text ++ c) (calls ++ strip cl) rest
  | ErrRec m :: _ => RFail m
  end.
Definition stream_result (recs : list nrec) : result := stream_result_from [] [] recs.

Definition http_result (h : http) : result :=
  match h with
  | Http _ (Msg c cl true rs cnt x) => ROk c (strip cl) rs cnt x
  | Http _ (Msg c cl false _ _ _) => RUnfinished c (strip cl)
  | Http _ (ErrRec m) => RFail m
  end.

(** what the OpenAI endpoints must show for a native result *)
Inductive oresult :=
| OOk (text : str) (calls : list (str * str)) (finish : option str) (usage : option (Z * Z))
| OFail (msg : str)
| OUnfinished (text : str) (calls : list (str * str)).
Definition openai_of (with_usage : bool) (r : result) : oresult :=
  match r with
  | ROk t cl rs cnt _ =>
      OOk t cl (if nonempty cl then (if nonempty rs then Some s_tool_calls else None) else fin_opt rs)
          (if with_usage then Some (pc cnt, ec cnt) else None)
  | RFail m => OFail m
  | RUnfinished t cl => OUnfinished t cl
  end.

(** reading an SSE stream: concatenate deltas, remember the finish reason and usage, stop at [DONE] / error *)
Fixpoint sse_result_from (text : str) (calls : list (str * str)) (fr : option str) (us : option (Z * Z)) (l : list sse) : oresult :=
  match l with
  | [] => OUnfinished text calls
  | SChunk c cl f :: rest =>
      sse_result_from (text ++ c) (calls ++ strip cl) (match f with Some _ => f | None => fr end) us rest
  | SUsage p e :: rest => sse_result_from text calls fr (Some (p, e)) rest
  | SMarker :: _ => OOk text calls fr us
  | SError m :: _ => OFail m
  end.
Definition sse_result (l : list sse) : oresult := sse_result_from [] [] None None l.

Definition v1_result (b : Z * v1body) : oresult :=
  match snd b with
  | VCompletion c cl f p e => OOk c (strip cl) f (Some (p, e))
  | VError m => OFail m
  end.

(** ** terminal counting *)
Definition count_terminal (recs : list nrec) : nat := length (filter is_terminal recs).
Definition sse_terminal (e : sse) : bool := match e with SMarker | SError _ => true | _ => false end.
Definition count_sse_terminal (l : list sse) : nat := length (filter sse_terminal l).
Definition last_is {A} (p : A -> bool) (l : list A) : bool :=
  match rev l with x :: _ => p x | [] => false end.
