(** C17 - streaming, non-streaming and OpenAI-compatible responses carry the same result.  Theorems only. *)
From Coq Require Import List NArith ZArith Bool Arith.
From V Require Import Common.Bytes Stream.Model Stream.Proofs.
Import ListNotations.

(** /api/generate: for every request shape (raw or not, tokenizer failing or not), every two runner outputs
    that carry the same text and end the same way (any two splits of one model output, a failure at any
    point, a silent end), the concatenation of the streamed records and the single non-streamed response are
    the same result (text, done reason, counts, context - or the same error). *)
Theorem C17_generate_equiv : forall cfg o1 o2,
  text_of o1 = text_of o2 -> ending o1 = ending o2 ->
  stream_result (gen_stream cfg o1) = http_result (gen_nonstream cfg o2).
Proof. intros cfg o1 o2 Ht He. rewrite gen_stream_result, gen_nonstream_result, Ht, He. reflexivity. Qed.
Print Assumptions C17_generate_equiv.
