(** C17 - streaming, non-streaming and OpenAI-compatible responses carry the same result.  Theorems only.

    Reading guide.  A runner output [o : rout] is what the handler's callback receives: the content chunks and how
    Completion ended (final response | error | silent return).  [text_of o] is the text the model produced; two
    outputs with the same text and the same ending are two splits of one model output (the failure point is the
    position of the ending).  [stream_result] concatenates the NDJSON records of a stream up to its terminal
    record; [http_result] reads the single non-streamed body; [sse_result] / [v1_result] do the same for the /v1
    endpoints and [openai_of] is the OpenAI rendering of a native result (finish_reason tool_calls when calls
    are present, usage = prompt/eval counts).  The model describes the repaired writers and client
    (fixes/C17-openai-stream-error.patch, fixes/C17-client-scanner-err.patch). *)
From Coq Require Import List NArith ZArith Bool Arith.
From V Require Import Common.Bytes Stream.Model Stream.Proofs.
Import ListNotations.

(** ** /api/generate *)

(** for every request shape (raw or not, final tokenization failing or not) and every two splits of the same
    output with the same ending (final response, error at any point, silent return): the streamed records
    concatenate to the non-streamed response: same text, done reason, counts, context - or the same error *)
Theorem C17_generate_equiv : forall cfg o1 o2,
  text_of o1 = text_of o2 -> ending o1 = ending o2 ->
  stream_result (gen_stream cfg o1) = http_result (gen_nonstream cfg o2).
Proof. intros cfg o1 o2 Ht He. rewrite gen_stream_result, gen_nonstream_result, Ht, He. reflexivity. Qed.
Print Assumptions C17_generate_equiv.

(** ... and the streamed result does not depend on the split *)
Theorem C17_generate_split_independent : forall cfg o1 o2,
  text_of o1 = text_of o2 -> ending o1 = ending o2 ->
  stream_result (gen_stream cfg o1) = stream_result (gen_stream cfg o2).
Proof. intros cfg o1 o2 Ht He. rewrite !gen_stream_result, Ht, He. reflexivity. Qed.
Print Assumptions C17_generate_split_independent.

(** ** /api/chat without tools (any parser, stream flag either way) *)
Theorem C17_chat_equiv_no_tools : forall P s o1 o2,
  text_of o1 = text_of o2 -> ending o1 = ending o2 ->
  stream_result (chat_stream P (mkCc s false) o1) = http_result (chat_nonstream P false o2).
Proof. exact chat_equiv_no_tools. Qed.
Print Assumptions C17_chat_equiv_no_tools.

(** ** raw requests: fields that are present but empty or null *)

(** two raw requests with the same normal form (stream: absent = null = true; tools: absent = null = []) get the same
    streamed records and the same non-streamed response, for every parser and every runner output *)
Theorem C17_request_normalisation : forall q1 q2, norm_raw q1 = norm_raw q2 -> forall P o,
  chat_stream P (chat_cfg_of q1) o = chat_stream P (chat_cfg_of q2) o /\
  chat_nonstream P (chat_ns_tools_of q1) o = chat_nonstream P (chat_ns_tools_of q2) o.
Proof. intros q1 q2 H P o. destruct (norm_raw_cfg q1 q2 H) as [-> ->]. split; reflexivity. Qed.
Print Assumptions C17_request_normalisation.

(** for every raw request whose tools field is absent, null or an empty list - whatever its stream field - the streamed
    and the non-streamed response of any two splits carry the same result (the streaming callback and the non-stream
    parse read "tools requested" the same way: both are [tools_len_pos]) *)
Theorem C17_chat_equiv_raw_request : forall q, tools_len_pos (q_tools q) = false -> forall P o1 o2,
  text_of o1 = text_of o2 -> ending o1 = ending o2 ->
  stream_result (chat_stream P (chat_cfg_of q) o1) = http_result (chat_nonstream P (chat_ns_tools_of q) o2).
Proof.
  intros q Hq P o1 o2 Ht He. unfold chat_cfg_of, chat_ns_tools_of. rewrite Hq. apply chat_equiv_no_tools; assumption.
Qed.
Print Assumptions C17_chat_equiv_raw_request.

(** the agreement of the sites is needed: if the streaming callback asked `req.Tools != nil` while the non-stream parse
    asks `len(req.Tools) > 0`, the request {"tools": []} with a tool-call shaped output streams content "" plus a call
    and answers non-streamed with the text and no call *)
Theorem C17_tools_site_mismatch_refuted :
  ~ (forall q P o, stream_result (chat_stream P (mkCc true (tools_non_nil (q_tools q))) o) =
                   http_result (chat_nonstream P (tools_len_pos (q_tools q)) o)).
Proof.
  intros H. specialize (H (mkRaw JAbsent (JVal [])) Pm (mkOut [[33%N]] (FDone [] RStop zeroc))).
  vm_compute in H. discriminate.
Qed.
Print Assumptions C17_tools_site_mismatch_refuted.

Example C17_request_normalisation_nonvacuous :
  norm_raw (mkRaw JAbsent (JVal [])) = norm_raw (mkRaw JNull JAbsent) /\
  norm_raw (mkRaw (JVal true) JNull) = norm_raw (mkRaw JAbsent JAbsent) /\
  norm_raw (mkRaw JAbsent (JVal [[102%N]])) <> norm_raw (mkRaw JAbsent (JVal [])).
Proof. vm_compute. repeat split; try reflexivity. discriminate. Qed.

(** ** exactly one final message or one error, as the last record of the stream *)

(** full statement: every native stream, however the runner ends *)
Definition C17_exactly_one_terminal_full : Prop :=
  forall cfg o, one_terminal_last is_terminal (gen_stream cfg o).

(** false when Completion returns without a final response and without an error (known finding
    C17-silent-runner-end): the stream is just the content records *)
Theorem C17_exactly_one_terminal_refuted : ~ C17_exactly_one_terminal_full.
Proof.
  intros H. specialize (H (mkG false false [104%N]) (mkOut [[72%N]; [105%N]] FSilent)).
  apply one_terminal_last_count in H. destruct H as [H _]. vm_compute in H. discriminate.
Qed.
Print Assumptions C17_exactly_one_terminal_refuted.

(** for every runner that ends with a final response or an error - after any number of chunks, with any
    request shape, any tool-call parser, tokenization failing or not - the NDJSON stream of /api/generate and
    of /api/chat consists of non-terminal records followed by exactly one terminal record *)
Theorem C17_exactly_one_terminal_partial : forall o, ending o <> FSilent ->
  (forall cfg, one_terminal_last is_terminal (gen_stream cfg o)) /\
  (forall P cfg, one_terminal_last is_terminal (chat_stream P cfg o)).
Proof.
  intros o Hs. split.
  - intros cfg. apply gen_items_terminal; exact Hs.
  - intros P cfg. apply chat_items_terminal; exact Hs.
Qed.
Print Assumptions C17_exactly_one_terminal_partial.

Example C17_exactly_one_terminal_nonvacuous :
  ending (mkOut [[72%N]; [105%N]] (FErr [98%N])) <> FSilent /\
  count_terminal (gen_stream (mkG false false [104%N]) (mkOut [[72%N]; [105%N]] (FErr [98%N]))) = 1 /\
  length (gen_stream (mkG false false [104%N]) (mkOut [[72%N]; [105%N]] (FErr [98%N]))) = 3.
Proof. split; [discriminate|]. vm_compute. split; reflexivity. Qed.

(** what the handlers need from llm.LlamaServer.Completion.  For ANY callback trace (any number of final responses
    anywhere, callbacks after a final response, any return value - e.g. "done then fault": a final response
    followed by an error return), every request shape and every parser, the NDJSON stream carries exactly one
    terminal record per final response plus one per error return ... *)
Theorem C17_terminal_count : forall t,
  (forall cfg, count_terminal (gen_trace_stream cfg t) = finals t + errs t) /\
  (forall P cfg, count_terminal (chat_trace_stream P cfg t) = finals t + errs t).
Proof. intros t. split; [intros; apply gen_trace_count|intros; apply chat_trace_count]. Qed.
Print Assumptions C17_terminal_count.

(** ... so "exactly one final message or one error" holds for the API stream iff it holds for Completion itself; and
    when Completion keeps its contract ([contractb]: at most one final response, nothing after it, an error return
    iff there is none - tested on the real llmServer.Completion against a scripted runner on every run), the stream
    is the one of C17_exactly_one_terminal_partial: non-terminal records, then exactly one terminal record *)
Theorem C17_exactly_one_terminal_under_contract : forall t, contractb t = true ->
  (forall cfg, one_terminal_last is_terminal (gen_trace_stream cfg t)) /\
  (forall P cfg, one_terminal_last is_terminal (chat_trace_stream P cfg t)).
Proof.
  intros t H. destruct (contract_trace t H) as (o & Hs & ->). split.
  - intros cfg. rewrite gen_trace_of. apply gen_items_terminal; exact Hs.
  - intros P cfg. rewrite chat_trace_of. apply chat_items_terminal; exact Hs.
Qed.
Print Assumptions C17_exactly_one_terminal_under_contract.

(** the contract is needed: a Completion that delivers the final response and then reports a fault makes the handlers
    send done:true AND an error line *)
Theorem C17_done_then_fault_refuted :
  ~ (forall t cfg, finals t >= 1 -> one_terminal_last is_terminal (gen_trace_stream cfg t)).
Proof.
  intros H.
  specialize (H (mkTrace [CChunk [72%N]; CFinal [] RStop zeroc] (Some [69%N])) (mkG true false []) (le_n _)).
  apply one_terminal_last_count in H. destruct H as [H _]. vm_compute in H. discriminate.
Qed.
Print Assumptions C17_done_then_fault_refuted.

Example C17_contract_nonvacuous :
  contractb (mkTrace [CChunk [72%N]; CFinal [] RStop zeroc] None) = true /\
  contractb (mkTrace [CChunk [72%N]] (Some [69%N])) = true /\
  contractb (mkTrace [CChunk [72%N]; CFinal [] RStop zeroc] (Some [69%N])) = false /\
  contractb (mkTrace [CFinal [] RStop zeroc; CChunk [72%N]] None) = false /\
  contractb (mkTrace [CChunk [72%N]] None) = false /\
  count_terminal (gen_trace_stream (mkG true false []) (mkTrace [CChunk [72%N]; CFinal [] RStop zeroc] (Some [69%N]))) = 2.
Proof. vm_compute. repeat split; reflexivity. Qed.

(** the same through the OpenAI writers: one [DONE] marker or one error event, last *)
Theorem C17_openai_exactly_one_terminal : forall o, ending o <> FSilent ->
  (forall u cfg, one_terminal_last sse_terminal (v1comp_stream u (gen_stream cfg o))) /\
  (forall u P cfg, one_terminal_last sse_terminal (v1chat_stream u false (chat_stream P cfg o))).
Proof.
  intros o Hs. split.
  - intros u cfg. apply v1comp_stream_terminal, gen_items_terminal; exact Hs.
  - intros u P cfg. apply v1chat_stream_terminal, chat_items_terminal; exact Hs.
Qed.
Print Assumptions C17_openai_exactly_one_terminal.

(** api.Client.stream (with `return scanner.Err()`): over a response whose lines end with exactly one terminal
    line - of any lengths, any status, possibly with undecodable lines before it - the caller gets either nil
    and exactly one final message (the last delivered), or an error and no final message *)
Theorem C17_client_exactly_one_terminal : forall max status ls,
  one_terminal_last line_terminal ls ->
  let '(d, r) := client_stream true max status ls in
  (r = COk /\ one_terminal_last line_terminal d) \/
  (exists e, r = CFail e /\ forallb (fun x => negb (line_terminal x)) d = true).
Proof. exact client_stream_terminal. Qed.
Print Assumptions C17_client_exactly_one_terminal.

(** the unrepaired client (no scanner.Err() check) on a final line of 512000 bytes: nil and no final message *)
Theorem C17_client_unchecked_refuted :
  ~ (forall max status ls, one_terminal_last line_terminal ls ->
       let '(d, r) := client_stream false max status ls in
       (r = COk /\ one_terminal_last line_terminal d) \/ (exists e, r = CFail e)).
Proof.
  intros H. specialize (H 512000%N 200%Z [LMsg 512000 true] (one_terminal_last_single _ _ eq_refl)).
  vm_compute in H. destruct H as [[_ (pre & t & E & _)]|[e E]]; [destruct pre; discriminate|discriminate].
Qed.
Print Assumptions C17_client_unchecked_refuted.

(** the same under transport faults: the reader receives any prefix of the body - the complete lines [ls] and then, per
    [c], nothing more (CutBetween), a proper part of the next line (CutInside), or the next line without its newline
    (CutBeforeNewline) - and then a read error instead of the end of the body (chunked terminator / Content-Length not
    reached).  For every stream [ls ++ tail] with exactly one terminal line (last), any lengths, any status: the repaired
    client never returns nil without a final message; it returns an error and no final message - except when the whole
    content of the final line had arrived (only the newline or the end-of-body marker was lost): then the final message
    was delivered and the call still reports the transport error. *)
Theorem C17_client_transport_fault : forall max status ls tail c,
  one_terminal_last line_terminal (ls ++ tail) ->
  match c with
  | CutNone => tail = []
  | CutBetween => True
  | CutInside _ => tail <> []
  | CutBeforeNewline l => exists tl, tail = l :: tl
  end ->
  let '(d, r) := client_stream_cut true max status ls c in
  (r = COk /\ one_terminal_last line_terminal d) \/
  (exists e, r = CFail e /\ nonterm d) \/
  (exists e, r = CFail e /\ one_terminal_last line_terminal d /\
             match c with CutBetween => tail = [] | CutBeforeNewline l => tail = [l] | _ => False end).
Proof. exact client_cut_terminal. Qed.
Print Assumptions C17_client_transport_fault.

(** a client that ends its loop silently on a read error (no scanner.Err() check; equally a json.Decoder loop
    `for dec.More() {...}; return nil`) returns nil with no final message when the connection is lost between two lines *)
Theorem C17_client_transport_fault_unchecked_refuted :
  ~ (forall max status ls tail c,
       one_terminal_last line_terminal (ls ++ tail) ->
       let '(d, r) := client_stream_cut false max status ls c in
       (r = COk /\ one_terminal_last line_terminal d) \/ (exists e, r = CFail e)).
Proof.
  intros H. specialize (H 512000%N 200%Z [LMsg 70 false] [LMsg 80 true] CutBetween).
  assert (W : one_terminal_last line_terminal ([LMsg 70 false] ++ [LMsg 80 true])).
  { exists [LMsg 70 false], (LMsg 80 true). repeat split; reflexivity. }
  specialize (H W). vm_compute in H.
  destruct H as [[_ (pre & t & E & Ht & _)]|[e E]]; [|discriminate].
  destruct pre as [|p [|q pre]]; inversion E; subst; discriminate.
Qed.
Print Assumptions C17_client_transport_fault_unchecked_refuted.

Example C17_client_transport_fault_nonvacuous :
  client_stream_cut true 512000 200 [LMsg 70 false] CutBetween = ([LMsg 70 false], CFail ETransport) /\
  client_stream_cut true 512000 200 [LMsg 70 false] (CutInside 10) = ([LMsg 70 false], CFail EUnmarshal) /\
  client_stream_cut true 512000 200 [LMsg 70 false] (CutBeforeNewline (LMsg 80 true)) = ([LMsg 70 false; LMsg 80 true], CFail ETransport) /\
  client_stream_cut true 512000 200 [LMsg 70 false; LMsg 80 true] CutNone = ([LMsg 70 false; LMsg 80 true], COk).
Proof. vm_compute. repeat split; reflexivity. Qed.

(** ** /api/chat with tools *)

(** full statement: for every tool-call parser *)
Definition C17_chat_equiv_tools_full : Prop :=
  forall (P : str -> option (list (str * str))) o1 o2,
    text_of o1 = text_of o2 -> ending o1 = ending o2 ->
    ending o1 <> FSilent -> fin_content (ending o1) = [] ->
    stream_result (chat_stream P (mkCc true true) o1) = http_result (chat_nonstream P true o2).

(** false (known finding C17-tools-split-dependent): with a parser that, like parseObjects, reads calls left to
    right and ignores an unfinished one at the end, the chunks "<a><b" "c>" stream the call a only (the buffer
    holding "<b" is cleared when a is reported) while the non-streamed response has a and bc *)
Theorem C17_chat_equiv_tools_refuted : ~ C17_chat_equiv_tools_full.
Proof.
  intros H.
  specialize (H P0 (mkOut [[60;97;62;60;98]%N; [99;62]%N] (FDone [] RStop zeroc))
                   (mkOut [[60;97;62;60;98]%N; [99;62]%N] (FDone [] RStop zeroc)) eq_refl eq_refl).
  assert (E : FDone [] RStop zeroc <> FSilent) by discriminate.
  specialize (H E eq_refl). vm_compute in H. discriminate.
Qed.
Print Assumptions C17_chat_equiv_tools_refuted.

(** ... and the streamed tool calls depend on the split *)
Theorem C17_chat_tools_split_dependent :
  exists P o1 o2, text_of o1 = text_of o2 /\ ending o1 = ending o2 /\
    stream_result (chat_stream P (mkCc true true) o1) <> stream_result (chat_stream P (mkCc true true) o2).
Proof.
  exists P0, (mkOut [[60;97;62;60;98]%N; [99;62]%N] (FDone [] RStop zeroc)),
             (mkOut [[60;97;62]%N; [60;98;99;62]%N] (FDone [] RStop zeroc)).
  split; [reflexivity|]. split; [reflexivity|]. vm_compute. discriminate.
Qed.
Print Assumptions C17_chat_tools_split_dependent.

(** for every parser that never succeeds with an empty list and is additive over concatenation once it has
    succeeded on the left part (P a = Some ca -> P (a ++ b) = Some (ca ++ cb) when P b = Some cb, Some ca when
    P b = None), every two splits of one output, every failure point, final response without content (the
    llm.Completion contract): the streamed records carry the same text, tool calls (name, arguments), done
    reason and counts as the non-streamed response.  The hypothesis is evaluated on the real parseToolCalls by
    the check on every split where the modes disagree. *)
Theorem C17_chat_equiv_tools_partial : forall P, parser_nonempty P -> parser_additive P -> forall o1 o2,
  text_of o1 = text_of o2 -> ending o1 = ending o2 ->
  ending o1 <> FSilent -> fin_content (ending o1) = [] ->
  stream_result (chat_stream P (mkCc true true) o1) = http_result (chat_nonstream P true o2).
Proof. exact chat_equiv_tools_partial. Qed.
Print Assumptions C17_chat_equiv_tools_partial.

(** the hypotheses are satisfiable by a parser that finds calls (every '!' is a call), and the theorem then
    speaks about streams that do carry tool calls: "a!b" "!" streams two calls *)
Example C17_chat_equiv_tools_nonvacuous :
  parser_nonempty Pm /\ parser_additive Pm /\
  stream_result (chat_stream Pm (mkCc true true) (mkOut [[97;33;98]%N; [33]%N] (FDone [] RLength (mkC 3 7 5 9)))) =
  ROk [] [([33%N], []); ([33%N], [])] s_length (mkC 3 7 5 9) None.
Proof. split; [exact Pm_nonempty|]. split; [exact Pm_additive|]. vm_compute. reflexivity. Qed.

(** ** the OpenAI-compatible endpoints show the native result *)

(** /v1/completions, stream (with or without usage) and non-stream, for every split: the SSE events
    concatenate to, and the completion object is, the OpenAI rendering of the one native result *)
Theorem C17_openai_same_content_generate : forall cfg o,
  (forall u, sse_result (v1comp_stream u (gen_stream cfg o)) = openai_of u (stream_result (gen_stream cfg o))) /\
  (ending o <> FSilent ->
   v1_result (v1comp_nonstream (gen_nonstream cfg o)) = openai_of true (http_result (gen_nonstream cfg o))).
Proof.
  intros cfg o. split.
  - intros u. rewrite openai_gen_stream, gen_stream_result. reflexivity.
  - intros Hs. rewrite openai_gen_nonstream, gen_nonstream_result by exact Hs. reflexivity.
Qed.
Print Assumptions C17_openai_same_content_generate.

(** /v1/chat/completions: without tools for every parser; with tools when the parser does not succeed on the
    empty string and the final runner response carries no content (so that no call arrives in the final record);
    non-stream: unless tool calls meet the empty done reason of a closed connection *)
Theorem C17_openai_same_content_chat : forall P cfg o,
  (negb (c_stream cfg) || negb (c_tools cfg) = true \/ (P [] = None /\ fin_content (ending o) = [])) ->
  (forall u, sse_result (v1chat_stream u false (chat_stream P cfg o)) = openai_of u (stream_result (chat_stream P cfg o))) /\
  (forall tools,
     match ending o with
     | FDone _ r _ => tools = false \/ r <> RClosed
     | FErr _ => True
     | FSilent => False
     end ->
     v1_result (v1chat_nonstream (chat_nonstream P tools o)) = openai_of true (http_result (chat_nonstream P tools o))).
Proof.
  intros P cfg o H. split.
  - intros u. apply openai_chat_stream. exact H.
  - intros tools Ht. apply openai_chat_nonstream. exact Ht.
Qed.
Print Assumptions C17_openai_same_content_chat.

(** tool-call indices.  An OpenAI client rebuilds the tool calls of a streamed /v1/chat/completions by merging the
    tool_calls deltas of all chunks by their index ([reassemble]: same index = concatenate name and arguments).
    For every parser, request shape, split and ending: the streamed deltas carry the handler's running toolCallIndex,
    so merging by index gives back exactly the calls of the native stream, one per call, in order *)
Theorem C17_openai_tool_index_stream : forall P cfg u o,
  reassemble (sse_calls (v1chat_stream u false (chat_stream P cfg o))) = strip (rec_calls (chat_stream P cfg o)).
Proof. exact openai_tool_index_stream. Qed.
Print Assumptions C17_openai_tool_index_stream.

(** ... and, under the parser hypotheses of C17_chat_equiv_tools_partial, for any two splits of one output that ends
    with a final response: the reassembled calls are the tool_calls list of the non-streamed /v1 response *)
Theorem C17_openai_tool_index_consistent : forall P, parser_nonempty P -> parser_additive P -> forall u o1 o2 r cnt,
  text_of o1 = text_of o2 -> ending o1 = FDone [] r cnt -> ending o2 = ending o1 ->
  reassemble (sse_calls (v1chat_stream u false (chat_stream P (mkCc true true) o1))) =
  v1_calls (v1chat_nonstream (chat_nonstream P true o2)).
Proof. exact openai_tool_index_consistent. Qed.
Print Assumptions C17_openai_tool_index_consistent.

(** two calls in two chunks and two calls in one chunk reassemble to the same two calls; with every delta at index 0
    (what `Index = position inside the converted message` would produce) the merge collapses them into one *)
Example C17_openai_tool_index_nonvacuous :
  reassemble (sse_calls (v1chat_stream false false (chat_stream Pm (mkCc true true) (mkOut [[33]%N; [33]%N] (FDone [] RStop zeroc))))) =
    [([33%N], []); ([33%N], [])] /\
  reassemble (sse_calls (v1chat_stream false false (chat_stream Pm (mkCc true true) (mkOut [[33;33]%N] (FDone [] RStop zeroc))))) =
    [([33%N], []); ([33%N], [])] /\
  reassemble [mkCall [97%N] [49%N] 0; mkCall [98%N] [50%N] 0] = [([97;98]%N, [49;50]%N)].
Proof. vm_compute. repeat split; reflexivity. Qed.

(** all four views of one generate output and of one chat output without tools, for any two splits *)
Theorem C17_openai_same_content : forall o1 o2,
  text_of o1 = text_of o2 -> ending o1 = ending o2 -> ending o1 <> FSilent ->
  (forall cfg u,
     sse_result (v1comp_stream u (gen_stream cfg o1)) = openai_of u (http_result (gen_nonstream cfg o2)) /\
     v1_result (v1comp_nonstream (gen_nonstream cfg o1)) = openai_of true (stream_result (gen_stream cfg o2))) /\
  (forall P s u,
     sse_result (v1chat_stream u false (chat_stream P (mkCc s false) o1)) = openai_of u (http_result (chat_nonstream P false o2)) /\
     v1_result (v1chat_nonstream (chat_nonstream P false o1)) = openai_of true (stream_result (chat_stream P (mkCc s false) o2))).
Proof.
  intros o1 o2 Ht He Hs. split.
  - intros cfg u. split.
    + rewrite openai_gen_stream, gen_nonstream_result, Ht, He. reflexivity.
    + rewrite openai_gen_nonstream, gen_stream_result, Ht, He by exact Hs. reflexivity.
  - intros P s u. split.
    + rewrite openai_chat_stream by (left; cbn; apply orb_true_r).
      rewrite (chat_equiv_no_tools P s o1 o2 Ht He). reflexivity.
    + rewrite openai_chat_nonstream.
      * rewrite <- (chat_equiv_no_tools P s o2 o1 (eq_sym Ht) (eq_sym He)). reflexivity.
      * destruct (ending o1); auto.
Qed.
Print Assumptions C17_openai_same_content.

Example C17_openai_same_content_nonvacuous :
  sse_result (v1chat_stream true false (chat_stream P0 (mkCc true false) (mkOut [[72]%N; [105]%N] (FDone [] RStop (mkC 3 7 5 9))))) =
  OOk [72;105]%N [] (Some s_stop) (Some (3, 5)%Z).
Proof. vm_compute. reflexivity. Qed.
