(** C17 - lemmas about Stream/Model.v *)
From Coq Require Import List NArith ZArith Bool Arith Lia.
From V Require Import Common.Bytes Stream.Model.
Import ListNotations.

(** * Generate *)

(** the ideal result of a generate request: depends on the runner output only through its text and ending *)
Definition gen_ideal (cfg : gcfg) (text : str) (f : fin) : result :=
  match f with
  | FDone _ r c =>
      if g_raw cfg then ROk text [] (reason_str r) c None
      else if g_tokfail cfg then RFail tokfail_msg
      else ROk text [] (reason_str r) c (Some (g_prompt cfg ++ text))
  | FErr m => RFail m
  | FSilent => RUnfinished text []
  end.

Lemma gen_items_stream cfg f : forall cs sb acc,
  acc = sb ->
  stream_result_from acc [] (gen_items cfg sb cs f) = gen_ideal cfg (sb ++ concat cs ++ fin_content f) f.
Proof.
  induction cs as [|c cs IH]; intros sb acc ->; cbn [gen_items concat app].
  - destruct f as [content r cnt | m | ]; cbn [fin_content gen_ideal].
    + unfold gen_done. destruct (g_raw cfg); [|destruct (g_tokfail cfg)]; cbn; rewrite ?app_nil_r; reflexivity.
    + reflexivity.
    + cbn. rewrite !app_nil_r. reflexivity.
  - cbn [stream_result_from strip map app]. rewrite IH by reflexivity. rewrite <- !app_assoc. reflexivity.
Qed.

Lemma gen_stream_result cfg o : stream_result (gen_stream cfg o) = gen_ideal cfg (text_of o) (ending o).
Proof.
  unfold stream_result, gen_stream, text_of. rewrite gen_items_stream by reflexivity.
  reflexivity.
Qed.

(** every record gen_items sends carries no calls; the last one sent before the end is kept by ns_fold *)
Lemma gen_items_ns cfg f : forall cs sb acc last,
  acc = sb ->
  (match last with Msg _ cl d _ _ _ => cl = [] /\ d = false | ErrRec _ => False end) ->
  http_result (ns_fold acc last (gen_items cfg sb cs f)) = gen_ideal cfg (sb ++ concat cs ++ fin_content f) f.
Proof.
  induction cs as [|c cs IH]; intros sb acc last -> Hlast; cbn [gen_items concat app].
  - destruct f as [content r cnt | m | ]; cbn [fin_content gen_ideal].
    + unfold gen_done. destruct (g_raw cfg); [|destruct (g_tokfail cfg)]; cbn; rewrite ?app_nil_r; reflexivity.
    + reflexivity.
    + cbn. rewrite !app_nil_r. destruct last as [c0 cl d rs cn x|]; [|contradiction].
      destruct Hlast as [-> ->]. reflexivity.
  - cbn [ns_fold]. rewrite IH; [|reflexivity|split; reflexivity]. rewrite <- !app_assoc. reflexivity.
Qed.

Lemma gen_nonstream_result cfg o : http_result (gen_nonstream cfg o) = gen_ideal cfg (text_of o) (ending o).
Proof.
  unfold gen_nonstream, gen_stream, text_of. rewrite gen_items_ns; [|reflexivity|split; reflexivity].
  reflexivity.
Qed.

(** * Exactly one terminal record, and it is the last one *)
Definition one_terminal_last {A} (p : A -> bool) (l : list A) : Prop :=
  exists pre t, l = pre ++ [t] /\ p t = true /\ forallb (fun x => negb (p x)) pre = true.

Lemma one_terminal_last_cons {A} (p : A -> bool) x l :
  p x = false -> one_terminal_last p l -> one_terminal_last p (x :: l).
Proof.
  intros Hx (pre & t & -> & Ht & Hpre). exists (x :: pre), t. repeat split; auto.
  cbn. rewrite Hx, Hpre. reflexivity.
Qed.

Lemma one_terminal_last_app {A} (p : A -> bool) a l :
  forallb (fun x => negb (p x)) a = true -> one_terminal_last p l -> one_terminal_last p (a ++ l).
Proof.
  induction a as [|x a IH]; intros Ha Hl; cbn in *; auto.
  apply andb_true_iff in Ha as [Hx Ha]. apply one_terminal_last_cons; auto.
  now apply negb_true_iff in Hx.
Qed.

Lemma one_terminal_last_single {A} (p : A -> bool) t : p t = true -> one_terminal_last p [t].
Proof. intros Ht. exists [], t. repeat split; auto. Qed.

Lemma one_terminal_last_count {A} (p : A -> bool) l :
  one_terminal_last p l -> length (filter p l) = 1 /\ last_is p l = true.
Proof.
  intros (pre & t & -> & Ht & Hpre). split.
  - rewrite filter_app, app_length. cbn. rewrite Ht. cbn.
    assert (filter p pre = []) as ->; [|reflexivity].
    induction pre as [|x pre IH]; cbn in *; auto.
    apply andb_true_iff in Hpre as [Hx Hpre]. apply negb_true_iff in Hx. rewrite Hx. auto.
  - unfold last_is. rewrite rev_app_distr. cbn. exact Ht.
Qed.

Lemma gen_items_terminal cfg f : f <> FSilent -> forall cs sb,
  one_terminal_last is_terminal (gen_items cfg sb cs f).
Proof.
  intros Hf. induction cs as [|c cs IH]; intros sb; cbn [gen_items].
  - destruct f as [content r cnt | m | ]; [| |congruence].
    + unfold gen_done. destruct (g_raw cfg); [|destruct (g_tokfail cfg)]; apply one_terminal_last_single; reflexivity.
    + apply one_terminal_last_single; reflexivity.
  - apply one_terminal_last_cons; [reflexivity|apply IH].
Qed.

Section ChatTerminal.
  Variable P : str -> option (list (str * str)).

  Lemma chat_step_nondone cfg st c rs cnt :
    forallb (fun x => negb (is_terminal x)) (snd (chat_step P cfg st c false rs cnt)) = true.
  Proof.
    unfold chat_step. destruct st as [sb idx].
    destruct (negb (c_stream cfg) || negb (c_tools cfg)); [reflexivity|].
    destruct (P (sb ++ c)); reflexivity.
  Qed.

  Lemma chat_step_done cfg st c rs cnt :
    exists t, snd (chat_step P cfg st c true rs cnt) = [t] /\ is_terminal t = true.
  Proof.
    unfold chat_step. destruct st as [sb idx].
    destruct (negb (c_stream cfg) || negb (c_tools cfg)); [eexists; split; reflexivity|].
    destruct (P (sb ++ c)); eexists; split; reflexivity.
  Qed.

  Lemma chat_items_terminal cfg f : f <> FSilent -> forall cs st,
    one_terminal_last is_terminal (chat_items P cfg st cs f).
  Proof.
    intros Hf. induction cs as [|c cs IH]; intros st; cbn [chat_items].
    - destruct f as [content r cnt | m | ]; [| |congruence].
      + destruct (chat_step_done cfg st content (reason_str r) cnt) as (t & -> & Ht).
        now apply one_terminal_last_single.
      + apply one_terminal_last_single; reflexivity.
    - pose proof (chat_step_nondone cfg st c [] zeroc) as Hn.
      destruct (chat_step P cfg st c false [] zeroc) as [st' out]. cbn in Hn.
      apply one_terminal_last_app; auto.
  Qed.
End ChatTerminal.

(** * SSE framing keeps the terminal structure *)
Definition wf_nondone (r : nrec) : Prop :=
  match r with Msg _ _ d rs _ _ => d = false -> rs = [] | ErrRec _ => True end.

Lemma v1chat_stream_app u : forall a s b,
  v1chat_stream u s (a ++ b) =
  v1chat_stream u s a ++
  v1chat_stream u (fold_left (fun s r => match r with Msg _ cl _ _ _ _ => s || nonempty cl | ErrRec _ => s end) a s) b.
Proof.
  induction a as [|r a IH]; intros s b; cbn [app v1chat_stream fold_left]; [reflexivity|].
  destruct r as [c cl d rs cnt x|m]; rewrite IH; [|reflexivity].
  cbn [app]. rewrite <- ?app_assoc. reflexivity.
Qed.

Lemma v1chat_stream_pre u : forall pre s,
  forallb (fun x => negb (is_terminal x)) pre = true ->
  forallb (fun x => negb (sse_terminal x)) (v1chat_stream u s pre) = true.
Proof.
  induction pre as [|r pre IH]; intros s H; cbn in *; [reflexivity|].
  apply andb_true_iff in H as [Hr H]. destruct r as [c cl d rs cnt x|m]; cbn in Hr; [|discriminate].
  apply negb_true_iff in Hr. subst d. cbn. apply IH; auto.
Qed.

Lemma v1chat_stream_terminal u s recs :
  one_terminal_last is_terminal recs -> one_terminal_last sse_terminal (v1chat_stream u s recs).
Proof.
  intros (pre & t & -> & Ht & Hpre). rewrite v1chat_stream_app.
  apply one_terminal_last_app; [apply v1chat_stream_pre; auto|].
  destruct t as [c cl d rs cnt x|m]; cbn in Ht; cbn [v1chat_stream].
  - subst d. rewrite app_nil_r. destruct u; cbn [app].
    + eexists [_; _], SMarker. split; [reflexivity|]. split; reflexivity.
    + eexists [_], SMarker. split; [reflexivity|]. split; reflexivity.
  - apply one_terminal_last_single. reflexivity.
Qed.

Lemma v1comp_stream_app u : forall a b, v1comp_stream u (a ++ b) = v1comp_stream u a ++ v1comp_stream u b.
Proof.
  induction a as [|r a IH]; intros b; cbn [app v1comp_stream]; [reflexivity|].
  destruct r as [c cl d rs cnt x|m]; rewrite IH; [|reflexivity].
  cbn [app]. rewrite <- ?app_assoc. reflexivity.
Qed.

Lemma v1comp_stream_pre u : forall pre,
  forallb (fun x => negb (is_terminal x)) pre = true ->
  forallb (fun x => negb (sse_terminal x)) (v1comp_stream u pre) = true.
Proof.
  induction pre as [|r pre IH]; intros H; cbn in *; [reflexivity|].
  apply andb_true_iff in H as [Hr H]. destruct r as [c cl d rs cnt x|m]; cbn in Hr; [|discriminate].
  apply negb_true_iff in Hr. subst d. cbn. apply IH; auto.
Qed.

Lemma v1comp_stream_terminal u recs :
  one_terminal_last is_terminal recs -> one_terminal_last sse_terminal (v1comp_stream u recs).
Proof.
  intros (pre & t & -> & Ht & Hpre). rewrite v1comp_stream_app.
  apply one_terminal_last_app; [apply v1comp_stream_pre; auto|].
  destruct t as [c cl d rs cnt x|m]; cbn in Ht; cbn [v1comp_stream].
  - subst d. rewrite app_nil_r. destruct u; cbn [app].
    + exists [SChunk c [] (fin_opt rs); SUsage (pc cnt) (ec cnt)], SMarker. repeat split; reflexivity.
    + exists [SChunk c [] (fin_opt rs)], SMarker. repeat split; reflexivity.
  - apply one_terminal_last_single. reflexivity.
Qed.

(** * api.Client *)
Definition line_terminal (l : line) : bool :=
  match l with LMsg _ d => d | LErr _ _ => true | LGarbage _ => false end.

Lemma client_stream_pre max status : forall pre rest,
  forallb (fun x => negb (line_terminal x)) pre = true ->
  let '(d, r) := client_stream true max status (pre ++ rest) in
  (exists e, r = CFail e /\ forallb (fun x => negb (line_terminal x)) d = true) \/
  (exists d', d = pre ++ d' /\ client_stream true max status rest = (d', r)).
Proof.
  induction pre as [|l pre IH]; intros rest H; cbn [app].
  - destruct (client_stream true max status rest) as [d r] eqn:E. right. exists d. split; reflexivity.
  - cbn in H. apply andb_true_iff in H as [Hl H]. cbn [client_stream].
    destruct (max <=? line_len l)%N; [left; eexists; split; reflexivity|].
    destruct l as [n dn|n m|n]; cbn in Hl.
    + destruct (400 <=? status)%Z; [left; eexists; split; reflexivity|].
      specialize (IH rest H). destruct (client_stream true max status (pre ++ rest)) as [d r].
      destruct IH as [(e & -> & Hd)|(d' & -> & E)].
      * left. exists e. split; [reflexivity|]. cbn. rewrite Hl, Hd. reflexivity.
      * right. exists d'. split; [reflexivity|exact E].
    + discriminate.
    + left; eexists; split; reflexivity.
Qed.

Lemma client_stream_terminal max status ls :
  one_terminal_last line_terminal ls ->
  let '(d, r) := client_stream true max status ls in
  (r = COk /\ one_terminal_last line_terminal d) \/
  (exists e, r = CFail e /\ forallb (fun x => negb (line_terminal x)) d = true).
Proof.
  intros (pre & t & -> & Ht & Hpre).
  pose proof (client_stream_pre max status pre [t] Hpre) as H.
  destruct (client_stream true max status (pre ++ [t])) as [d r].
  destruct H as [H|(d' & -> & E)]; [right; exact H|].
  cbn [client_stream] in E.
  destruct (max <=? line_len t)%N.
  { inversion E; subst. right. eexists. split; [reflexivity|]. rewrite app_nil_r. exact Hpre. }
  destruct t as [n dn|n m|n]; cbn in Ht; try discriminate.
  - destruct (400 <=? status)%Z.
    + inversion E; subst. right. eexists. split; [reflexivity|]. rewrite app_nil_r. exact Hpre.
    + inversion E; subst. left. split; [reflexivity|]. eexists pre, _. repeat split; auto.
  - inversion E; subst. right. eexists. split; [reflexivity|]. rewrite app_nil_r. exact Hpre.
Qed.

(** * Chat *)

(** what both modes must show when the parser plays no role (no tools requested) *)
Definition chat_ideal (text : str) (f : fin) : result :=
  match f with
  | FDone _ r c => ROk text [] (reason_str r) c None
  | FErr m => RFail m
  | FSilent => RUnfinished text []
  end.

(** the records of a pass-through callback (no tools requested, or stream=false) *)
Fixpoint plain_items (cs : list str) (f : fin) : list nrec :=
  match cs with
  | c :: cs' => Msg c [] false [] zeroc None :: plain_items cs' f
  | [] => match f with
          | FDone content r cnt => [Msg content [] true (reason_str r) cnt None]
          | FErr m => [ErrRec m]
          | FSilent => []
          end
  end.

Lemma plain_items_stream f : forall cs acc,
  stream_result_from acc [] (plain_items cs f) = chat_ideal (acc ++ concat cs ++ fin_content f) f.
Proof.
  induction cs as [|c cs IH]; intros acc; cbn [plain_items concat app].
  - destruct f as [content r cnt | m | ]; cbn; rewrite ?app_nil_r; reflexivity.
  - cbn [stream_result_from strip map app]. rewrite IH, <- !app_assoc. reflexivity.
Qed.

Lemma plain_items_ns f : forall cs acc last,
  (match last with Msg _ cl d _ _ _ => cl = [] /\ d = false | ErrRec _ => False end) ->
  ns_fold acc last (plain_items cs f) =
  match f with
  | FDone _ r cnt => Http 200 (Msg (acc ++ concat cs ++ fin_content f) [] true (reason_str r) cnt None)
  | FErr m => Http 500 (ErrRec m)
  | FSilent => Http 200 (set_content (match cs with [] => last | _ => zero_msg end) (acc ++ concat cs))
  end.
Proof.
  induction cs as [|c cs IH]; intros acc last Hlast; cbn [plain_items concat app].
  - destruct f as [content r cnt | m | ]; cbn; rewrite ?app_nil_r; reflexivity.
  - cbn [ns_fold]. rewrite IH by (split; reflexivity). rewrite <- !app_assoc.
    destruct f; try reflexivity. destruct cs; reflexivity.
Qed.

Section ChatProofs.
  Variable P : str -> option (list (str * str)).

  Lemma chat_items_pass cfg f : negb (c_stream cfg) || negb (c_tools cfg) = true ->
    forall cs st, chat_items P cfg st cs f = plain_items cs f.
  Proof.
    intros Hp. induction cs as [|c cs IH]; intros st; cbn [chat_items plain_items].
    - destruct f; try reflexivity. unfold chat_step. destruct st. rewrite Hp. reflexivity.
    - unfold chat_step at 1. destruct st as [sb idx]. rewrite Hp. cbn [app]. rewrite IH. reflexivity.
  Qed.

  Lemma chat_stream_pass_result cfg o : negb (c_stream cfg) || negb (c_tools cfg) = true ->
    stream_result (chat_stream P cfg o) = chat_ideal (text_of o) (ending o).
  Proof.
    intros Hp. unfold stream_result, chat_stream. rewrite chat_items_pass by exact Hp.
    rewrite plain_items_stream. reflexivity.
  Qed.

  (** the non-stream loop sees the whole text whatever the split *)
  Lemma chat_ns_fold tools o :
    ns_fold [] zero_msg (chat_stream P (mkCc false tools) o) =
    match ending o with
    | FDone _ r cnt => Http 200 (Msg (text_of o) [] true (reason_str r) cnt None)
    | FErr m => Http 500 (ErrRec m)
    | FSilent => Http 200 (set_content zero_msg (text_of o))
    end.
  Proof.
    unfold chat_stream. rewrite chat_items_pass by reflexivity.
    rewrite plain_items_ns by (split; reflexivity). unfold text_of. cbn [app].
    destruct (ending o); try reflexivity. cbn [fin_content]. rewrite app_nil_r.
    destruct (chunks o); reflexivity.
  Qed.

  Definition chat_ns_ideal (tools : bool) (text : str) (f : fin) : result :=
    match f with
    | FDone _ r c =>
        if tools then match P text with
                      | Some calls => ROk [] calls (reason_str r) c None
                      | None => ROk text [] (reason_str r) c None
                      end
        else ROk text [] (reason_str r) c None
    | FErr m => RFail m
    | FSilent =>
        if tools then match P text with
                      | Some calls => RUnfinished [] calls
                      | None => RUnfinished text []
                      end
        else RUnfinished text []
    end.

  Lemma strip_zero calls : strip (map (fun na : str * str => mkCall (fst na) (snd na) 0) calls) = calls.
  Proof. induction calls as [|[n a] l IH]; cbn; [reflexivity|]. unfold strip in IH. rewrite IH. reflexivity. Qed.

  Lemma chat_nonstream_result tools o :
    http_result (chat_nonstream P tools o) = chat_ns_ideal tools (text_of o) (ending o).
  Proof.
    unfold chat_nonstream. rewrite chat_ns_fold. destruct (ending o) as [content r cnt|m|]; cbn.
    - destruct tools; [|reflexivity]. destruct (P (text_of o)); cbn; [rewrite strip_zero|]; reflexivity.
    - reflexivity.
    - destruct tools; [|reflexivity]. destruct (P (text_of o)); cbn; [rewrite strip_zero|]; reflexivity.
  Qed.

  Lemma chat_equiv_no_tools s o1 o2 :
    text_of o1 = text_of o2 -> ending o1 = ending o2 ->
    stream_result (chat_stream P (mkCc s false) o1) = http_result (chat_nonstream P false o2).
  Proof.
    intros Ht He. rewrite chat_stream_pass_result by (cbn; apply orb_true_r).
    rewrite chat_nonstream_result, Ht, He. destruct (ending o2); reflexivity.
  Qed.

  (** ** streaming with tools *)
  Lemma strip_number : forall calls i, strip (number i calls) = calls.
  Proof. induction calls as [|[n a] l IH]; intros i; cbn; [reflexivity|]. unfold strip in IH. rewrite IH. reflexivity. Qed.

  (** what the streaming callback emits from buffer sb over the remaining chunks and the final (empty) response:
      (calls, what is left in the buffer, did the parser ever succeed) *)
  Fixpoint scan (sb : str) (cs : list str) : list (str * str) * str * bool :=
    match cs with
    | [] => match P sb with Some c => (c, [], true) | None => ([], sb, false) end
    | c :: cs' =>
        match P (sb ++ c) with
        | Some cl => let '(n, s, _) := scan [] cs' in (cl ++ n, s, true)
        | None => scan (sb ++ c) cs'
        end
    end.

  Lemma chat_items_scan r cnt : forall cs sb idx acc,
    stream_result_from [] acc (chat_items P (mkCc true true) (sb, idx) cs (FDone [] r cnt)) =
    let '(n, s, _) := scan sb cs in
    ROk (if Nat.eqb (idx + length n) 0 then s else []) (acc ++ n) (reason_str r) cnt None.
  Proof.
    induction cs as [|c cs IH]; intros sb idx acc; cbn [chat_items scan].
    - unfold chat_step. cbn [c_stream c_tools negb orb]. rewrite app_nil_r.
      destruct (P sb) as [calls|]; cbn [snd stream_result_from app].
      + rewrite strip_number. destruct (Nat.eqb (idx + length calls) 0); reflexivity.
      + cbn. rewrite Nat.add_0_r, !app_nil_r. reflexivity.
    - unfold chat_step at 1. cbn [c_stream c_tools negb orb].
      destruct (P (sb ++ c)) as [calls|].
      + cbn [app stream_result_from]. rewrite strip_number. cbn [app]. rewrite IH.
        destruct (scan [] cs) as [[n s] h]. rewrite app_length, Nat.add_assoc, <- app_assoc. reflexivity.
      + cbn [app]. apply IH.
  Qed.

  Lemma chat_items_err m : forall cs st acc t cfg,
    stream_result_from t acc (chat_items P cfg st cs (FErr m)) = RFail m.
  Proof.
    induction cs as [|c cs IH]; intros st acc t cfg; cbn [chat_items]; [reflexivity|].
    unfold chat_step at 1. destruct st as [sb idx].
    destruct (negb (c_stream cfg) || negb (c_tools cfg)).
    - cbn [app stream_result_from]. apply IH.
    - destruct (P (sb ++ c)); cbn [app stream_result_from]; apply IH.
  Qed.

  (** the hypotheses on the parser: it never succeeds with an empty list, and it is additive over concatenation
      once it has succeeded on the left part *)
  Definition parser_nonempty : Prop := forall s, P s <> Some [].
  Definition parser_additive : Prop :=
    (forall a b ca cb, P a = Some ca -> P b = Some cb -> P (a ++ b) = Some (ca ++ cb)) /\
    (forall a b ca, P a = Some ca -> P b = None -> P (a ++ b) = Some ca).

  Lemma scan_spec : parser_additive -> forall cs sb,
    let '(n, s, hit) := scan sb cs in
    if hit then P (sb ++ concat cs) = Some n
    else P (sb ++ concat cs) = None /\ n = [] /\ s = sb ++ concat cs.
  Proof.
    intros [H1 H2]. induction cs as [|c cs IH]; intros sb; cbn [scan concat].
    - rewrite app_nil_r. destruct (P sb) eqn:E; auto.
    - destruct (P (sb ++ c)) as [cl|] eqn:E.
      + specialize (IH []). destruct (scan [] cs) as [[n s] h]. cbn [app] in IH. rewrite app_assoc.
        destruct h.
        * apply H1; auto.
        * destruct IH as (Hn & -> & _). rewrite app_nil_r. apply H2; auto.
      + specialize (IH (sb ++ c)). rewrite <- app_assoc in IH. exact IH.
  Qed.

  Lemma chat_equiv_tools_partial : parser_nonempty -> parser_additive -> forall o1 o2,
    text_of o1 = text_of o2 -> ending o1 = ending o2 ->
    ending o1 <> FSilent -> fin_content (ending o1) = [] ->
    stream_result (chat_stream P (mkCc true true) o1) = http_result (chat_nonstream P true o2).
  Proof.
    intros Hne Hadd o1 o2 Ht He Hs Hc. rewrite chat_nonstream_result, <- Ht, <- He.
    unfold stream_result, chat_stream, text_of. destruct (ending o1) as [content r cnt|m|]; [| |congruence].
    - cbn in Hc. subst content. cbn [fin_content chat_ns_ideal]. rewrite app_nil_r.
      rewrite chat_items_scan. pose proof (scan_spec Hadd (chunks o1) []) as Hsp.
      destruct (scan [] (chunks o1)) as [[n s] hit]. cbn [app] in *. destruct hit.
      + rewrite Hsp. destruct n as [|x n]; [exfalso; eapply Hne; eauto|]. reflexivity.
      + destruct Hsp as (-> & -> & ->). reflexivity.
    - cbn. apply chat_items_err.
  Qed.

  (** the invariant behind "no tool call arrives in the final record" *)
  Lemma chat_items_wf cfg f : P [] = None -> fin_content f = [] -> forall cs st,
    (negb (c_stream cfg) || negb (c_tools cfg) = true \/ P (fst st) = None) ->
    Forall (fun r => match r with Msg _ cl d rs _ _ => (d = false -> rs = []) /\ (d = true -> cl = []) | ErrRec _ => True end)
           (chat_items P cfg st cs f).
  Proof.
    intros H0 Hc. induction cs as [|c cs IH]; intros [sb idx] Hst; cbn [chat_items fst] in *.
    - destruct f as [content r cnt|m|]; [|repeat constructor|constructor].
      cbn in Hc. subst content. unfold chat_step.
      destruct (negb (c_stream cfg) || negb (c_tools cfg)) eqn:Ep; cbn [snd].
      + repeat constructor; congruence.
      + destruct Hst as [?|Hst]; [discriminate|]. rewrite app_nil_r, Hst. repeat constructor; congruence.
    - unfold chat_step at 1. destruct (negb (c_stream cfg) || negb (c_tools cfg)) eqn:Ep.
      + cbn [app]. constructor; [split; congruence|]. apply IH. left; reflexivity.
      + destruct (P (sb ++ c)) eqn:E; cbn [app].
        * constructor; [split; congruence|]. apply IH. right. exact H0.
        * apply IH. right. exact E.
  Qed.
End ChatProofs.

(** ** a concrete non-additive parser: calls are written <name>; an unfinished call at the end is ignored
    (the shape of parseObjects: objects are decoded left to right, an incomplete one ends the scan) *)
Fixpoint p0_scan (inside : option str) (s : str) : list (str * str) :=
  match s with
  | [] => []
  | b :: t =>
      match inside with
      | None => if N.eqb b 60 then p0_scan (Some []) t else p0_scan None t
      | Some nm => if N.eqb b 62 then (rev nm, []) :: p0_scan None t else p0_scan (Some (b :: nm)) t
      end
  end.
Definition P0 (s : str) : option (list (str * str)) :=
  match p0_scan None s with [] => None | l => Some l end.

(** ** an additive parser: every '!' is a call *)
Fixpoint pm_scan (s : str) : list (str * str) :=
  match s with
  | [] => []
  | b :: t => if N.eqb b 33 then ([33%N], []) :: pm_scan t else pm_scan t
  end.
Definition Pm (s : str) : option (list (str * str)) :=
  match pm_scan s with [] => None | l => Some l end.

Lemma pm_scan_app a b : pm_scan (a ++ b) = pm_scan a ++ pm_scan b.
Proof. induction a as [|x a IH]; cbn; [reflexivity|]. destruct (N.eqb x 33); cbn; rewrite IH; reflexivity. Qed.

Lemma Pm_nonempty : parser_nonempty Pm.
Proof. intros s. unfold Pm. destruct (pm_scan s); congruence. Qed.

Lemma Pm_additive : parser_additive Pm.
Proof.
  split.
  - intros a b ca cb. unfold Pm. rewrite pm_scan_app.
    destruct (pm_scan a) eqn:Ea; [discriminate|]. destruct (pm_scan b) eqn:Eb; [discriminate|].
    intros [= <-] [= <-]. reflexivity.
  - intros a b ca. unfold Pm. rewrite pm_scan_app.
    destruct (pm_scan a) eqn:Ea; [discriminate|]. destruct (pm_scan b) eqn:Eb; [|discriminate].
    intros [= <-] _. rewrite app_nil_r. reflexivity.
Qed.

(** * OpenAI views *)
Definition wf_rec (r : nrec) : Prop :=
  match r with Msg _ cl d rs _ _ => (d = false -> rs = []) /\ (d = true -> cl = []) | ErrRec _ => True end.

Lemma v1chat_stream_result u : forall recs sent text calls,
  Forall wf_rec recs -> sent = nonempty calls ->
  sse_result_from text calls None None (v1chat_stream u sent recs) =
  openai_of u (stream_result_from text calls recs).
Proof.
  induction recs as [|r recs IH]; intros sent text calls Hwf Hs; cbn [v1chat_stream stream_result_from].
  - reflexivity.
  - inversion Hwf as [|? ? Hr Hrest]; subst. destruct r as [c cl d rs cnt x|m]; [|reflexivity].
    destruct Hr as [Hnd Hd]. destruct d.
    + rewrite (Hd eq_refl). cbn [strip map]. rewrite !app_nil_r.
      cbn [sse_result_from app]. unfold openai_of, fin_opt.
      destruct (nonempty rs) eqn:Er; destruct u; cbn [app sse_result_from]; rewrite ?app_nil_r;
        destruct (nonempty calls); reflexivity.
    + rewrite (Hnd eq_refl). cbn [nonempty app sse_result_from].
      apply IH; auto. unfold strip. destruct calls, cl; reflexivity.
Qed.

Lemma v1comp_stream_result u : forall recs text,
  Forall (fun r => match r with Msg _ cl d rs _ _ => cl = [] /\ (d = false -> rs = []) | ErrRec _ => True end) recs ->
  sse_result_from text [] None None (v1comp_stream u recs) = openai_of u (stream_result_from text [] recs).
Proof.
  induction recs as [|r recs IH]; intros text Hwf; cbn [v1comp_stream stream_result_from].
  - reflexivity.
  - inversion Hwf as [|? ? Hr Hrest]; subst. destruct r as [c cl d rs cnt x|m]; [|reflexivity].
    destruct Hr as [-> Hnd]. destruct d.
    + cbn [strip map app sse_result_from]. unfold openai_of, fin_opt. cbn [nonempty].
      destruct (nonempty rs); destruct u; reflexivity.
    + rewrite (Hnd eq_refl). cbn [fin_opt nonempty app sse_result_from strip map]. apply IH; auto.
Qed.

Lemma gen_items_wf cfg f : forall cs sb,
  Forall (fun r => match r with Msg _ cl d rs _ _ => cl = [] /\ (d = false -> rs = []) | ErrRec _ => True end)
         (gen_items cfg sb cs f).
Proof.
  induction cs as [|c cs IH]; intros sb; cbn [gen_items].
  - destruct f; [|repeat constructor|constructor]. unfold gen_done.
    destruct (g_raw cfg); [|destruct (g_tokfail cfg)]; repeat constructor; congruence.
  - constructor; [split; auto|apply IH].
Qed.

Lemma v1_nonstream_result (h : http) :
  match h with
  | Http _ (Msg _ cl true rs _ _) => cl = [] \/ rs <> []
  | Http _ (Msg _ _ false _ _ _) => False
  | Http _ (ErrRec _) => True
  end ->
  v1_result (v1chat_nonstream h) = openai_of true (http_result h).
Proof.
  destruct h as [st [c cl d rs cnt x|m]]; [|reflexivity]. destruct d; [|contradiction].
  intros H. cbn. unfold strip. destruct cl; cbn; [reflexivity|].
  destruct H as [?|H]; [discriminate|]. destruct rs; [congruence|reflexivity].
Qed.

Lemma v1comp_nonstream_result (h : http) :
  match h with
  | Http _ (Msg _ cl true _ _ _) => cl = []
  | Http _ (Msg _ _ false _ _ _) => False
  | Http _ (ErrRec _) => True
  end ->
  v1_result (v1comp_nonstream h) = openai_of true (http_result h).
Proof.
  destruct h as [st [c cl d rs cnt x|m]]; [|reflexivity]. destruct d; [|contradiction].
  intros ->. reflexivity.
Qed.

(** * OpenAI views of the handlers' outputs *)
Lemma reason_str_nonempty r : r <> RClosed -> reason_str r <> [].
Proof. destruct r; unfold reason_str, s_stop, s_length; congruence. Qed.

Lemma openai_gen_stream u cfg o :
  sse_result (v1comp_stream u (gen_stream cfg o)) = openai_of u (gen_ideal cfg (text_of o) (ending o)).
Proof.
  unfold sse_result. rewrite v1comp_stream_result by apply gen_items_wf.
  fold (stream_result (gen_stream cfg o)). rewrite gen_stream_result. reflexivity.
Qed.

Lemma gen_nonstream_shape cfg o : ending o <> FSilent ->
  match gen_nonstream cfg o with
  | Http _ (Msg _ cl true _ _ _) => cl = []
  | Http _ (Msg _ _ false _ _ _) => False
  | Http _ (ErrRec _) => True
  end.
Proof.
  intros Hs. unfold gen_nonstream, gen_stream.
  assert (G : forall cs sb acc last,
             match ns_fold acc last (gen_items cfg sb cs (ending o)) with
             | Http _ (Msg _ cl true _ _ _) => cl = []
             | Http _ (Msg _ _ false _ _ _) => False
             | Http _ (ErrRec _) => True
             end).
  { induction cs as [|c cs IH]; intros sb acc last; cbn [gen_items].
    - destruct (ending o) as [content r cnt|m|]; [| |congruence].
      + unfold gen_done. destruct (g_raw cfg); [|destruct (g_tokfail cfg)]; cbn; auto.
      + cbn. auto.
    - cbn [ns_fold]. apply IH. }
  apply G.
Qed.

Lemma openai_gen_nonstream cfg o : ending o <> FSilent ->
  v1_result (v1comp_nonstream (gen_nonstream cfg o)) = openai_of true (gen_ideal cfg (text_of o) (ending o)).
Proof.
  intros Hs. rewrite v1comp_nonstream_result by (apply gen_nonstream_shape; exact Hs).
  rewrite gen_nonstream_result. reflexivity.
Qed.

Section ChatOpenAI.
  Variable P : str -> option (list (str * str)).

  Lemma openai_chat_stream u cfg o :
    (negb (c_stream cfg) || negb (c_tools cfg) = true \/ (P [] = None /\ fin_content (ending o) = [])) ->
    sse_result (v1chat_stream u false (chat_stream P cfg o)) = openai_of u (stream_result (chat_stream P cfg o)).
  Proof.
    intros H. unfold sse_result, stream_result. apply v1chat_stream_result; [|reflexivity].
    unfold chat_stream. destruct H as [Hp|[H0 Hc]].
    - rewrite chat_items_pass by exact Hp.
      generalize (chunks o). induction l as [|c cs IH]; cbn [plain_items].
      + destruct (ending o); repeat constructor; congruence.
      + constructor; [split; congruence|exact IH].
    - apply chat_items_wf; auto.
  Qed.

  Lemma openai_chat_nonstream tools o :
    match ending o with
    | FDone _ r _ => tools = false \/ r <> RClosed
    | FErr _ => True
    | FSilent => False
    end ->
    v1_result (v1chat_nonstream (chat_nonstream P tools o)) = openai_of true (http_result (chat_nonstream P tools o)).
  Proof.
    intros H. apply v1_nonstream_result. unfold chat_nonstream. rewrite chat_ns_fold.
    destruct (ending o) as [content r cnt|m|]; [| exact I | contradiction].
    cbn. destruct tools.
    - destruct H as [?|H]; [discriminate|]. destruct (P (text_of o)); right; apply reason_str_nonempty; exact H.
    - left; reflexivity.
  Qed.
End ChatOpenAI.

(** * api.Client under transport faults *)
Definition nonterm (d : list line) : Prop := forallb (fun x => negb (line_terminal x)) d = true.

Lemma client_cut_pre max status c : forall ls,
  nonterm ls ->
  let '(d, r) := client_stream_cut true max status ls c in
  (exists e, r = CFail e /\ nonterm d) \/
  (exists d', d = ls ++ d' /\ cut_tail true max status c = (d', r)).
Proof.
  unfold nonterm. induction ls as [|l ls IH]; intros H; cbn [client_stream_cut].
  - destruct (cut_tail true max status c) as [d r]. right. exists d. split; reflexivity.
  - cbn in H. apply andb_true_iff in H as [Hl H].
    destruct (max <=? line_len l)%N; [left; eexists; split; reflexivity|].
    destruct l as [n dn|n m|n]; cbn in Hl.
    + destruct (400 <=? status)%Z; [left; eexists; split; reflexivity|].
      specialize (IH H). destruct (client_stream_cut true max status ls c) as [d r].
      destruct IH as [(e & -> & Hd)|(d' & -> & E)].
      * left. exists e. split; [reflexivity|]. cbn. rewrite Hl, Hd. reflexivity.
      * right. exists d'. split; [reflexivity|exact E].
    + discriminate.
    + left; eexists; split; reflexivity.
Qed.

Lemma nonterm_app a b : nonterm (a ++ b) <-> nonterm a /\ nonterm b.
Proof. unfold nonterm. rewrite forallb_app, andb_true_iff. reflexivity. Qed.

(** a strict prefix of a stream whose only terminal line is the last one contains no terminal line *)
Lemma split_last {A} (ls : list A) x tail pre t :
  ls ++ x :: tail = pre ++ [t] ->
  (tail = [] /\ ls = pre /\ x = t) \/ (exists y, pre = ls ++ x :: y).
Proof.
  revert pre. induction ls as [|a ls IH]; intros pre E; cbn in E.
  - destruct pre as [|p pre]; cbn in E.
    + inversion E; subst. left. auto.
    + inversion E; subst. right. exists pre. reflexivity.
  - destruct pre as [|p pre]; cbn in E.
    + inversion E as [[Ea El]]. destruct ls; discriminate.
    + inversion E as [[Ea El]]. subst. destruct (IH pre El) as [(-> & -> & ->)|(y & ->)].
      * left. auto.
      * right. exists y. reflexivity.
Qed.

Lemma client_cut_terminal max status ls tail c :
  one_terminal_last line_terminal (ls ++ tail) ->
  match c with
  | CutNone => tail = []
  | CutBetween => True
  | CutInside _ => tail <> []
  | CutBeforeNewline l => exists tl, tail = l :: tl
  end ->
  let '(d, r) := client_stream_cut true max status ls c in
  (r = COk /\ one_terminal_last line_terminal d) \/
  (exists e, r = CFail e /\ nonterm d) \/
  (exists e, r = CFail e /\ one_terminal_last line_terminal d /\
             match c with CutBetween => tail = [] | CutBeforeNewline l => tail = [l] | _ => False end).
Proof.
  intros (pre & t & E & Ht & Hpre) Hc.
  (* either everything was received (tail = []) or ls holds no terminal line *)
  destruct tail as [|x tail].
  - rewrite app_nil_r in E. subst ls.
    pose proof (client_cut_pre max status c pre Hpre) as H1.
    assert (G : forall d r, client_stream_cut true max status (pre ++ [t]) c = (d, r) ->
              (r = COk /\ one_terminal_last line_terminal d) \/
              (exists e, r = CFail e /\ nonterm d) \/
              (exists e, r = CFail e /\ one_terminal_last line_terminal d /\
                 match c with CutBetween => @nil line = [] | CutBeforeNewline l => [] = [l] | _ => False end)).
    { clear H1. induction pre as [|p pre IH]; intros d r; cbn [app client_stream_cut].
      - destruct (max <=? line_len t)%N; [intros [= <- <-]; right; left; eexists; split; reflexivity|].
        destruct t as [n dn|n m|n]; cbn in Ht; try discriminate.
        + destruct (400 <=? status)%Z; [intros [= <- <-]; right; left; eexists; split; reflexivity|].
          destruct c; cbn [cut_tail]; try (destruct Hc; congruence).
          * intros [= <- <-]. left. split; [reflexivity|]. apply one_terminal_last_single; exact Ht.
          * intros [= <- <-]. right. right. eexists. split; [reflexivity|]. split; [|reflexivity].
            apply one_terminal_last_single; exact Ht.
        + intros [= <- <-]. right; left; eexists; split; reflexivity.
      - unfold nonterm in Hpre. cbn in Hpre. apply andb_true_iff in Hpre as [Hp Hpre].
        destruct (max <=? line_len p)%N; [intros [= <- <-]; right; left; eexists; split; reflexivity|].
        destruct p as [n dn|n m|n]; cbn in Hp; try discriminate.
        + destruct (400 <=? status)%Z; [intros [= <- <-]; right; left; eexists; split; reflexivity|].
          destruct (client_stream_cut true max status (pre ++ [t]) c) as [d' r'] eqn:E'.
          intros [= <- <-]. destruct (IH Hpre d' r' eq_refl) as [[-> Hd]|[(e & -> & Hd)|(e & -> & Hd & Hcc)]].
          * left. split; [reflexivity|]. apply one_terminal_last_cons; auto. now apply negb_true_iff in Hp.
          * right; left. exists e. split; [reflexivity|]. unfold nonterm in *. cbn. rewrite Hp, Hd. reflexivity.
          * right; right. exists e. split; [reflexivity|]. split; [|exact Hcc].
            apply one_terminal_last_cons; auto. now apply negb_true_iff in Hp.
        + intros [= <- <-]. right; left; eexists; split; reflexivity. }
    destruct (client_stream_cut true max status (pre ++ [t]) c) as [d r]. apply (G d r eq_refl).
  - destruct (split_last ls x tail pre t E) as [(-> & -> & ->)|(y & Ey)].
    + (* the cut is before the newline of / inside the final line *)
      pose proof (client_cut_pre max status c pre Hpre) as H1.
      destruct (client_stream_cut true max status pre c) as [d r].
      destruct H1 as [H1|(d' & -> & Et)]; [right; left; exact H1|].
      destruct c as [| |m|l]; cbn [cut_tail] in Et.
      * discriminate.
      * inversion Et; subst. right; left. eexists. split; [reflexivity|]. rewrite app_nil_r. exact Hpre.
      * destruct (max <=? m)%N; inversion Et; subst; right; left; eexists; (split; [reflexivity|]); rewrite app_nil_r; exact Hpre.
      * destruct Hc as (tl & [= <- <-]).
        destruct (max <=? line_len t)%N.
        { inversion Et; subst. right; left. eexists. split; [reflexivity|]. rewrite app_nil_r. exact Hpre. }
        destruct t as [n dn|n m|n]; cbn in Ht; try discriminate.
        -- destruct (400 <=? status)%Z; inversion Et; subst.
           ++ right; left. eexists. split; [reflexivity|]. rewrite app_nil_r. exact Hpre.
           ++ right; right. eexists. split; [reflexivity|]. split; [|reflexivity].
              eexists pre, _. repeat split; auto.
        -- inversion Et; subst. right; left. eexists. split; [reflexivity|]. rewrite app_nil_r. exact Hpre.
    + (* the cut is earlier: everything received, and the line being cut, is non-terminal *)
      subst pre. apply nonterm_app in Hpre as [Hls Hxy].
      pose proof (client_cut_pre max status c ls Hls) as H1.
      destruct (client_stream_cut true max status ls c) as [d r].
      destruct H1 as [H1|(d' & -> & Et)]; [right; left; exact H1|].
      right; left.
      destruct c as [| |m|l]; cbn [cut_tail] in Et.
      * discriminate.
      * inversion Et; subst. eexists. split; [reflexivity|]. rewrite app_nil_r. exact Hls.
      * destruct (max <=? m)%N; inversion Et; subst; eexists; (split; [reflexivity|]); rewrite app_nil_r; exact Hls.
      * destruct Hc as (tl & [= <- <-]). unfold nonterm in Hxy. cbn in Hxy. apply andb_true_iff in Hxy as [Hx _].
        destruct (max <=? line_len x)%N.
        { inversion Et; subst. eexists. split; [reflexivity|]. rewrite app_nil_r. exact Hls. }
        destruct x as [n dn|n m|n]; cbn in Hx; try discriminate.
        -- destruct (400 <=? status)%Z; inversion Et; subst.
           ++ eexists. split; [reflexivity|]. rewrite app_nil_r. exact Hls.
           ++ eexists. split; [reflexivity|]. apply nonterm_app. split; [exact Hls|]. unfold nonterm. cbn. rewrite Hx. reflexivity.
        -- inversion Et; subst. eexists. split; [reflexivity|]. rewrite app_nil_r. exact Hls.
Qed.

(** * tool-call indices: the running index of ChatHandler makes merge-by-index the identity *)
Lemma number_app : forall a b i, number i (a ++ b) = number i a ++ number (i + length a) b.
Proof.
  induction a as [|[n x] a IH]; intros b i; cbn [app number length].
  - rewrite Nat.add_0_r. reflexivity.
  - rewrite IH. replace (S i + length a) with (i + S (length a)) by lia. reflexivity.
Qed.

Lemma strip_app a b : strip (a ++ b) = strip a ++ strip b.
Proof. unfold strip. apply map_app. Qed.

Lemma rec_calls_app a b : rec_calls (a ++ b) = rec_calls a ++ rec_calls b.
Proof. unfold rec_calls. apply flat_map_app. Qed.

Lemma merge_call_fresh c : forall acc,
  Forall (fun e => fst e <> cidx c) acc -> merge_call acc c = acc ++ [(cidx c, (cname c, cargs c))].
Proof.
  induction acc as [|[i [n a]] acc IH]; intros H; cbn [merge_call app]; [reflexivity|].
  inversion H as [|? ? Hi Hrest]; subst. cbn in Hi.
  destruct (Nat.eqb i (cidx c)) eqn:E; [apply Nat.eqb_eq in E; contradiction|].
  rewrite IH by exact Hrest. reflexivity.
Qed.

Lemma fold_merge_number : forall l i acc,
  Forall (fun e => fst e < i) acc ->
  fold_left merge_call (number i l) acc = acc ++ map (fun c => (cidx c, (cname c, cargs c))) (number i l).
Proof.
  induction l as [|[n a] l IH]; intros i acc H; cbn [number fold_left map].
  - rewrite app_nil_r. reflexivity.
  - rewrite merge_call_fresh.
    + cbn [cidx cname cargs]. rewrite IH.
      * rewrite <- app_assoc. reflexivity.
      * apply Forall_app. split.
        -- eapply Forall_impl; [|exact H]. cbn. intros; lia.
        -- constructor; [cbn; lia|constructor].
    + cbn [cidx]. eapply Forall_impl; [|exact H]. cbn. intros; lia.
Qed.

Lemma reassemble_number l i : reassemble (number i l) = l.
Proof.
  unfold reassemble. rewrite fold_merge_number by constructor. cbn [app]. rewrite map_map. cbn.
  generalize i. induction l as [|[n a] l IH]; intros j; cbn; [reflexivity|]. rewrite IH. reflexivity.
Qed.

Lemma sse_calls_app a b : sse_calls (a ++ b) = sse_calls a ++ sse_calls b.
Proof. unfold sse_calls. apply flat_map_app. Qed.

Lemma sse_calls_v1chat u : forall recs s, sse_calls (v1chat_stream u s recs) = rec_calls recs.
Proof.
  induction recs as [|r recs IH]; intros s; cbn [v1chat_stream]; [reflexivity|].
  destruct r as [c cl d rs cnt x|m].
  - change (sse_calls (?a :: ?b)) with (match a with SChunk _ cl0 _ => cl0 | _ => [] end ++ sse_calls b).
    cbn beta iota. rewrite sse_calls_app, IH.
    assert (sse_calls (if d then (if u then [SUsage (pc cnt) (ec cnt)] else []) ++ [SMarker] else []) = []) as ->
      by (destruct d, u; reflexivity).
    reflexivity.
  - change (sse_calls (SError m :: ?b)) with (sse_calls b). rewrite IH. reflexivity.
Qed.

Lemma rec_calls_single a cl d r n x : rec_calls [Msg a cl d r n x] = cl.
Proof. cbn. apply app_nil_r. Qed.

Section IndexProofs.
  Variable P : str -> option (list (str * str)).

  (** the calls of a native chat stream are numbered consecutively from the handler's toolCallIndex *)
  Lemma chat_items_numbered cfg f : forall cs sb idx,
    rec_calls (chat_items P cfg (sb, idx) cs f) = number idx (strip (rec_calls (chat_items P cfg (sb, idx) cs f))).
  Proof.
    induction cs as [|c cs IH]; intros sb idx; cbn [chat_items].
    - destruct f as [content r cnt|m|]; [|reflexivity|reflexivity].
      unfold chat_step. destruct (negb (c_stream cfg) || negb (c_tools cfg)); [reflexivity|].
      destruct (P (sb ++ content)) as [calls|]; cbn [snd]; [|reflexivity].
      cbn. rewrite !app_nil_r, strip_number. reflexivity.
    - destruct (chat_step P cfg (sb, idx) c false [] zeroc) as [[sb' idx'] out] eqn:E.
      rewrite rec_calls_app, strip_app. unfold chat_step in E.
      destruct (negb (c_stream cfg) || negb (c_tools cfg)).
      + inversion E; subst. rewrite rec_calls_single. cbn [strip map app]. apply IH.
      + destruct (P (sb ++ c)) as [calls|]; inversion E; subst.
        * rewrite rec_calls_single, strip_number, number_app. f_equal. apply IH.
        * cbn [rec_calls flat_map strip map app]. apply IH.
  Qed.

  Lemma openai_tool_index_stream cfg u o :
    reassemble (sse_calls (v1chat_stream u false (chat_stream P cfg o))) = strip (rec_calls (chat_stream P cfg o)).
  Proof.
    rewrite sse_calls_v1chat. unfold chat_stream.
    etransitivity; [apply f_equal, chat_items_numbered|apply reassemble_number].
  Qed.

  Lemma rec_calls_scan r cnt : forall cs sb idx,
    strip (rec_calls (chat_items P (mkCc true true) (sb, idx) cs (FDone [] r cnt))) = fst (fst (scan P sb cs)).
  Proof.
    induction cs as [|c cs IH]; intros sb idx; cbn [chat_items scan].
    - unfold chat_step. cbn [c_stream c_tools negb orb]. rewrite app_nil_r.
      destruct (P sb) as [calls|]; cbn; [rewrite app_nil_r, strip_number|]; reflexivity.
    - unfold chat_step at 1. cbn [c_stream c_tools negb orb].
      destruct (P (sb ++ c)) as [calls|]; cbn [app].
      + change (rec_calls (?a :: ?b)) with (match a with Msg _ cl _ _ _ _ => cl | ErrRec _ => [] end ++ rec_calls b).
        cbn beta iota. rewrite strip_app, strip_number, IH.
        destruct (scan P [] cs) as [[n s] h]. reflexivity.
      + apply IH.
  Qed.

  Lemma openai_tool_index_consistent : parser_nonempty P -> parser_additive P -> forall u o1 o2 r cnt,
    text_of o1 = text_of o2 -> ending o1 = FDone [] r cnt -> ending o2 = ending o1 ->
    reassemble (sse_calls (v1chat_stream u false (chat_stream P (mkCc true true) o1))) =
    v1_calls (v1chat_nonstream (chat_nonstream P true o2)).
  Proof.
    intros Hne Hadd u o1 o2 r cnt Ht He1 He2. rewrite openai_tool_index_stream.
    unfold chat_stream at 1. rewrite He1, rec_calls_scan.
    unfold chat_nonstream. rewrite chat_ns_fold, He2, He1, <- Ht. unfold text_of. rewrite He1. cbn [fin_content]. rewrite app_nil_r.
    pose proof (scan_spec P Hadd (chunks o1) []) as Hsp.
    destruct (scan P [] (chunks o1)) as [[n s] hit]. cbn [app fst] in *.
    cbn [chat_ns_final]. destruct hit.
    - rewrite Hsp. cbn. rewrite strip_zero. reflexivity.
    - destruct Hsp as (-> & -> & _). reflexivity.
  Qed.
End IndexProofs.

(** * arbitrary callback traces: the handlers emit one terminal record per final response and one per error return *)
Lemma count_terminal_app a b : count_terminal (a ++ b) = count_terminal a + count_terminal b.
Proof. unfold count_terminal. rewrite filter_app, app_length. reflexivity. Qed.

Lemma gen_done_count cfg sb content r n : count_terminal (gen_done cfg sb content r n) = 1.
Proof. unfold gen_done. destruct (g_raw cfg); [|destruct (g_tokfail cfg)]; reflexivity. Qed.

Lemma gen_trace_items_count cfg : forall evs sb,
  count_terminal (gen_trace_items cfg sb evs) = length (filter is_final evs).
Proof.
  induction evs as [|e evs IH]; intros sb; cbn [gen_trace_items filter]; [reflexivity|].
  destruct e as [c|content r n]; cbn [is_final].
  - change (count_terminal (?x :: ?l)) with (count_terminal ([x] ++ l)). rewrite count_terminal_app, IH. reflexivity.
  - rewrite count_terminal_app, gen_done_count, IH. reflexivity.
Qed.

Lemma ret_items_count t : count_terminal (ret_items t) = errs t.
Proof. unfold ret_items, errs. destruct (returned t); reflexivity. Qed.

Lemma gen_trace_count cfg t : count_terminal (gen_trace_stream cfg t) = finals t + errs t.
Proof. unfold gen_trace_stream. rewrite count_terminal_app, gen_trace_items_count, ret_items_count. reflexivity. Qed.

Definition fin_events (f : fin) : list cev := match f with FDone c r n => [CFinal c r n] | _ => [] end.
Definition fin_ret (f : fin) : list nrec := match f with FErr m => [ErrRec m] | _ => [] end.

Lemma gen_trace_items_chunks cfg f : forall cs sb,
  gen_trace_items cfg sb (map CChunk cs ++ fin_events f) ++ fin_ret f = gen_items cfg sb cs f.
Proof.
  induction cs as [|c cs IH]; intros sb; cbn [map app gen_trace_items gen_items].
  - destruct f; cbn; rewrite ?app_nil_r; reflexivity.
  - cbn [app]. f_equal. apply IH.
Qed.

Lemma gen_trace_of cfg o : gen_trace_stream cfg (trace_of o) = gen_stream cfg o.
Proof.
  unfold gen_trace_stream, gen_stream, trace_of. rewrite <- gen_trace_items_chunks.
  destruct (ending o); cbn [events returned ret_items fin_events fin_ret]; rewrite ?app_nil_r; reflexivity.
Qed.

Section ChatTraceProofs.
  Variable P : str -> option (list (str * str)).

  Lemma chat_step_done_count cfg st c rs cnt : count_terminal (snd (chat_step P cfg st c true rs cnt)) = 1.
  Proof. destruct (chat_step_done P cfg st c rs cnt) as (t & -> & Ht). unfold count_terminal. cbn. rewrite Ht. reflexivity. Qed.

  Lemma chat_step_nondone_count cfg st c rs cnt : count_terminal (snd (chat_step P cfg st c false rs cnt)) = 0.
  Proof.
    pose proof (chat_step_nondone P cfg st c rs cnt) as H. unfold count_terminal.
    induction (snd (chat_step P cfg st c false rs cnt)) as [|x l IH]; cbn in *; [reflexivity|].
    apply andb_true_iff in H as [Hx H]. apply negb_true_iff in Hx. rewrite Hx. apply IH; exact H.
  Qed.

  Lemma chat_trace_items_count cfg : forall evs st,
    count_terminal (chat_trace_items P cfg st evs) = length (filter is_final evs).
  Proof.
    induction evs as [|e evs IH]; intros st; cbn [chat_trace_items filter]; [reflexivity|].
    destruct e as [c|content r n]; cbn [is_final].
    - pose proof (chat_step_nondone_count cfg st c [] zeroc) as H.
      destruct (chat_step P cfg st c false [] zeroc) as [st' out]. cbn [snd] in H.
      rewrite count_terminal_app, H, IH. reflexivity.
    - pose proof (chat_step_done_count cfg st content (reason_str r) n) as H.
      destruct (chat_step P cfg st content true (reason_str r) n) as [st' out]. cbn [snd] in H.
      rewrite count_terminal_app, H, IH. reflexivity.
  Qed.

  Lemma chat_trace_count cfg t : count_terminal (chat_trace_stream P cfg t) = finals t + errs t.
  Proof. unfold chat_trace_stream. rewrite count_terminal_app, chat_trace_items_count, ret_items_count. reflexivity. Qed.

  Lemma chat_trace_of cfg o : chat_trace_stream P cfg (trace_of o) = chat_stream P cfg o.
  Proof.
    unfold chat_trace_stream, chat_stream, trace_of.
    destruct (ending o) as [content r n|m|]; cbn [events returned ret_items];
      generalize (@nil N, 0) as st; induction (chunks o) as [|c cs IH]; intros st; cbn [map app chat_trace_items chat_items].
    - destruct (chat_step P cfg st content true (reason_str r) n) as [st' out]. cbn. rewrite !app_nil_r. reflexivity.
    - destruct (chat_step P cfg st c false [] zeroc) as [st' out]. rewrite <- app_assoc. f_equal. apply IH.
    - reflexivity.
    - destruct (chat_step P cfg st c false [] zeroc) as [st' out]. rewrite <- app_assoc. f_equal. apply IH.
    - reflexivity.
    - destruct (chat_step P cfg st c false [] zeroc) as [st' out]. rewrite <- app_assoc. f_equal. apply IH.
  Qed.
End ChatTraceProofs.

(** a trace that obeys the contract is the trace of a runner output that does not end silently *)
Lemma existsb_final_map_chunk cs : existsb is_final (map CChunk cs) = false.
Proof. induction cs; cbn; auto. Qed.

Lemma no_final_chunks : forall evs, existsb is_final evs = false -> exists cs, evs = map CChunk cs.
Proof.
  induction evs as [|e evs IH]; intros H; [exists []; reflexivity|].
  cbn in H. apply orb_false_iff in H as [He H]. destruct e as [c|]; [|discriminate].
  destruct (IH H) as (cs & ->). exists (c :: cs). reflexivity.
Qed.

Lemma existsb_rev {A} (f : A -> bool) l : existsb f (rev l) = existsb f l.
Proof. induction l as [|x l IH]; cbn; [reflexivity|]. rewrite existsb_app, IH. cbn. rewrite orb_false_r, orb_comm. reflexivity. Qed.

Lemma contract_trace t : contractb t = true -> exists o, ending o <> FSilent /\ t = trace_of o.
Proof.
  destruct t as [evs ret]. unfold contractb. cbn [events returned].
  destruct ret as [m|].
  - intros H. assert (He : existsb is_final evs = false).
    { destruct (rev evs) as [|e before] eqn:E.
      - apply (f_equal (@rev cev)) in E. rewrite rev_involutive in E. subst. reflexivity.
      - assert (existsb is_final (rev evs) = false) as Hr.
        { rewrite E. destruct e; apply negb_true_iff in H; exact H. }
        rewrite existsb_rev in Hr. exact Hr. }
    destruct (no_final_chunks evs He) as (cs & ->).
    exists (mkOut cs (FErr m)). split; [discriminate|reflexivity].
  - intros H. destruct (rev evs) as [|e before] eqn:E; [discriminate|].
    destruct e as [c|content r n]; [discriminate|].
    apply negb_true_iff in H. rewrite <- (rev_involutive before), existsb_rev in H.
    destruct (no_final_chunks _ H) as (cs & Hcs).
    apply (f_equal (@rev cev)) in E. rewrite rev_involutive in E. cbn in E. rewrite Hcs in E. subst evs.
    exists (mkOut cs (FDone content r n)). split; [discriminate|reflexivity].
Qed.

(** * raw requests: nil and empty are the same request, and every site reads "tools requested" the same way *)
Lemma norm_raw_cfg q1 q2 : norm_raw q1 = norm_raw q2 ->
  chat_cfg_of q1 = chat_cfg_of q2 /\ chat_ns_tools_of q1 = chat_ns_tools_of q2.
Proof.
  destruct q1 as [s1 t1], q2 as [s2 t2]. unfold norm_raw, chat_cfg_of, chat_ns_tools_of. cbn.
  intros [= Hs Ht]. split.
  - f_equal.
    + destruct s1 as [| |[|]], s2 as [| |[|]]; cbn in *; congruence.
    + destruct t1 as [| |[|]], t2 as [| |[|]]; cbn in *; congruence.
  - destruct t1 as [| |[|]], t2 as [| |[|]]; cbn in *; congruence.
Qed.

Lemma raw_sites_agree q : c_tools (chat_cfg_of q) = chat_ns_tools_of q.
Proof. reflexivity. Qed.
