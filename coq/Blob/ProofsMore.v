(** C08 — termination of copyNamedFile in the model, and: a crash inside one write leaves a state that a crash
    *between* writes of a re-chunked source also leaves (so the crash points produced on the implementation, which are
    between writes, cover the partial-write crash points of the theorems). *)
From Coq Require Import List NArith Bool Arith Lia.
From V Require Import Common.Bytes Blob.Model Blob.Proofs.
Import ListNotations.

Section More.
  Variable D : Type.
  Variable deq : D -> D -> bool.
  Variable H : list N -> D.

  Notation writer := (writer D).
  Notation w_step := (w_step D deq H).
  Notation w_read := (w_read D deq H).
  Notation w_run := (w_run D deq H).

  Local Opaque Nat.ltb Nat.eqb Nat.leb.

  Definition is_done (w : writer) : Prop := exists r, w_stage w = WDone r.

  Lemma w_read_progress (w : writer) f :
    w_stage w = WCopy ->
    is_done (snd (w_read w f)) \/
    (w_stage (snd (w_read w f)) = WCopy /\ length (w_src (snd (w_read w f))) < length (w_src w)).
  Proof.
    intros Hst. unfold Model.w_read, w_eof, w_fail, set_stage, is_done.
    destruct (w_src w) as [|[p st] rest]; cbn.
    - destruct (w_n w <? w_size w); cbn; left; eauto.
    - destruct p as [|b p']; cbn.
      + destruct st; cbn.
        * right. split; [exact Hst | lia].
        * destruct (w_n w <? w_size w); cbn; left; eauto.
        * left; eauto.
      + destruct (cw_check D deq H w (b :: p')); cbn; [left; eauto|].
        destruct st; cbn.
        * right. split; [exact Hst | lia].
        * match goal with |- context [if ?c then _ else _] => destruct c end; cbn; left; eauto.
        * left; eauto.
  Qed.

  Lemma w_run_copy_done fuel : forall (w : writer) fo,
    w_stage w = WCopy -> length (w_src w) < fuel -> is_done (snd (w_run fuel w fo)).
  Proof.
    induction fuel as [|fuel IH]; intros w fo Hst Hlt; [lia|].
    cbn. rewrite Hst. unfold Model.w_step. rewrite Hst.
    destruct (w_read_progress w (file_of fo) Hst) as [Hd | [Hc Hl]];
      destruct (w_read w (file_of fo)) as [fo' w'] eqn:E; cbn [snd] in *.
    - destruct Hd as [r Hr]. destruct fuel; cbn; [exists r; exact Hr|]. rewrite Hr. exists r. exact Hr.
    - apply IH; [exact Hc | lia].
  Qed.

  Lemma w_start_stage (w : writer) fo :
    w_stage (snd (w_start D w fo)) = WDone ROk \/
    (w_stage (snd (w_start D w fo)) = WCopy /\ w_src (snd (w_start D w fo)) = w_src w).
  Proof.
    unfold w_start, set_stage. destruct fo as [f|].
    - destruct (length f =? w_size w); [left; reflexivity|].
      destruct (w_size w =? 0); [left; reflexivity | right; split; reflexivity].
    - destruct (w_size w =? 0); [left; reflexivity | right; split; reflexivity].
  Qed.

  Lemma w_run_done_stays fuel (w : writer) fo r : w_stage w = WDone r -> w_run fuel w fo = (fo, w).
  Proof. intros Hst. destruct fuel; cbn; [reflexivity|]. rewrite Hst. reflexivity. Qed.

  Lemma w_run_new_done fuel (w : writer) fo :
    w_stage w = WNew -> length (w_src w) + 1 < fuel -> is_done (snd (w_run fuel w fo)).
  Proof.
    intros Hst Hlt. destruct fuel as [|fuel]; [lia|]. cbn [Model.w_run]. rewrite Hst.
    unfold Model.w_step. rewrite Hst.
    destruct (w_start_stage w fo) as [Hd | [Hc Hs]]; destruct (w_start D w fo) as [fo' w'] eqn:E; cbn [snd] in *.
    - rewrite (w_run_done_stays fuel w' fo' ROk Hd). exists ROk. exact Hd.
    - apply w_run_copy_done; [exact Hc | rewrite Hs; lia].
  Qed.

  (** without a crash, copyNamedFile returns (the fuel of the model suffices) *)
  Theorem copy_terminates fo d size src :
    exists r, snd (copy_named_file D deq H fo d size src None) = WDone r.
  Proof.
    unfold Model.copy_named_file.
    pose proof (w_run_new_done (length src + 2) (new_writer D d size src) fo eq_refl) as Hd.
    cbn [new_writer w_src] in Hd. specialize (Hd ltac:(lia)).
    destruct (w_run (length src + 2) (new_writer D d size src) fo) as [fo' w']. exact Hd.
  Qed.

  (** a write cut short after j bytes = a complete write of the first j bytes by a source that delivers them separately *)
  Theorem partial_crash_is_boundary_crash (w : writer) f p st rest j :
    w_stage w = WCopy -> w_src w = (p, st) :: rest -> cw_check D deq H w p = None ->
    0 < j -> j < length p -> w_n w <= length f ->
    let w' := mkW (w_d w) (w_size w) (w_n w) (w_acc w) ((firstn j p, RMore) :: (skipn j p, st) :: rest) WCopy in
    fst (w_step (APartial j) w (Some f)) = fst (w_step AStep w' (Some f)).
  Proof.
    intros Hst Hsrc Hc Hj0 Hjp Hn w'.
    unfold Model.w_step. rewrite Hst. cbn [w_stage w' file_of]. rewrite Hsrc.
    destruct p as [|b p']; [cbn in Hjp; lia|]. rewrite Hc. cbn [fst].
    unfold Model.w_read. cbn [w_src w'].
    assert (Hne : firstn j (b :: p') <> []) by (destruct j; [lia | cbn; discriminate]).
    destruct (firstn j (b :: p')) as [|x q] eqn:Ef; [congruence|].
    assert (Hlen : length (x :: q) = j) by (rewrite <- Ef, firstn_length; lia).
    assert (Hc' : cw_check D deq H w' (x :: q) = None).
    { pose proof Hc as Hc0. unfold cw_check in *. cbn [w_n w_size w_acc w_d w'].
      destruct (w_n w + length (b :: p') =? w_size w) eqn:E1.
      - apply Nat.eqb_eq in E1.
        assert ((w_n w + length (x :: q) =? w_size w) = false) as -> by (apply Nat.eqb_neq; lia).
        assert ((w_size w <? w_n w + length (x :: q)) = false) as -> by (apply Nat.ltb_ge; lia). reflexivity.
      - destruct (w_size w <? w_n w + length (b :: p')) eqn:E2; [discriminate|]. apply Nat.ltb_ge in E2. apply Nat.eqb_neq in E1.
        assert ((w_n w + length (x :: q) =? w_size w) = false) as -> by (apply Nat.eqb_neq; lia).
        assert ((w_size w <? w_n w + length (x :: q)) = false) as -> by (apply Nat.ltb_ge; lia). reflexivity. }
    rewrite Hc'. cbn [fst w_n w']. reflexivity.
  Qed.

End More.
