(** C08 — "blob cache entries of the right size always have the right content": exported theorems.
    Reading of every statement: notes/C08.md.  Model: Blob/Model.v (tied to server/internal/cache/blob by props/c08.py).

    [D], [deq], [H] are the digest type, its equality test and SHA-256; "content is intact" means [H content = d].
    [Inv D H d size fo]: if the file exists and has the size the blob is stored under (size > 0), its content hashes to d. *)
From Coq Require Import List NArith Bool Arith Lia.
From V Require Import Common.Bytes Blob.Model Blob.Proofs Blob.ProofsHist Blob.ProofsLink Blob.ProofsConc Blob.ProofsMore Blob.Corr Blob.Witness.
Import ListNotations.

(** ** single writer: every source behaviour, every crash point (also inside one write), every prior file *)
Theorem C08_size_implies_content :
  forall (D : Type) (deq : D -> D -> bool) (H : list N -> D),
    (forall a b, deq a b = true <-> a = b) ->
    forall (d : D) (size : nat) (src : list rd) (fo : option (list N)) (acts : list action),
      Inv D H d size fo ->
      Inv D H d size (fst (w_exec D deq H acts (new_writer D d size src) fo)).
Proof. intros D deq H Hs. exact (single_writer_inv D deq H Hs). Qed.
Print Assumptions C08_size_implies_content.

(** the same for copyNamedFile as the cache calls it (run to completion or to the crash point [cr]) *)
Theorem C08_copy_named_file :
  forall (D : Type) (deq : D -> D -> bool) (H : list N -> D),
    (forall a b, deq a b = true <-> a = b) ->
    forall fo d size src (cr : crash),
      Inv D H d size fo -> Inv D H d size (fst (copy_named_file D deq H fo d size src cr)).
Proof. intros D deq H Hs. exact (copy_named_file_inv D deq H Hs). Qed.
Print Assumptions C08_copy_named_file.

(** non-vacuity: a prior file that is partial junk satisfies the hypothesis, and the run below really writes *)
Example C08_size_implies_content_ex :
  Inv Dg Hid [1;2;3]%N 3 (Some [9]%N) /\
  fst (w_exec Dg eqb_str Hid [AStep; AStep; APartial 1] (new_writer Dg [1;2;3]%N 3 [([1]%N, RMore); ([2;3]%N, RMore)]) (Some [9]%N))
  = Some [1;2]%N.
Proof. split; [intros f Hf Hl _; inversion Hf; subst; discriminate | vm_compute; reflexivity]. Qed.

(** the model's copyNamedFile always returns when the process does not die (the fuel of [w_run] suffices) *)
Theorem C08_copy_terminates :
  forall (D : Type) (deq : D -> D -> bool) (H : list N -> D) fo d size src,
    exists r, snd (copy_named_file D deq H fo d size src None) = WDone r.
Proof. exact copy_terminates. Qed.
Print Assumptions C08_copy_terminates.

(** a crash inside one write (after j of its bytes) leaves the file that a crash *between* writes leaves when the
    source delivers those j bytes as a read of their own: the crash points exercised on the implementation (the child
    process is killed when a Read begins) cover the partial-write crash points of C08_size_implies_content *)
Theorem C08_partial_crash_is_boundary_crash :
  forall (D : Type) (deq : D -> D -> bool) (H : list N -> D) (w : writer D) f p st rest j,
    w_stage w = WCopy -> w_src w = (p, st) :: rest -> cw_check D deq H w p = None ->
    0 < j -> j < length p -> w_n w <= length f ->
    let w' := mkW (w_d w) (w_size w) (w_n w) (w_acc w) ((firstn j p, RMore) :: (skipn j p, st) :: rest) WCopy in
    fst (w_step D deq H (APartial j) w (Some f)) = fst (w_step D deq H AStep w' (Some f)).
Proof. exact partial_crash_is_boundary_crash. Qed.
Print Assumptions C08_partial_crash_is_boundary_crash.

Example C08_partial_crash_ex :
  let w := mkW [1;2;3;4]%N 4 1 [1]%N [([2;3;4]%N, RMore)] WCopy in
  cw_check Dg eqb_str Hid w [2;3;4]%N = None /\
  fst (w_step Dg eqb_str Hid (APartial 2) w (Some [1]%N)) = Some [1;2;3]%N.
Proof. vm_compute. split; reflexivity. Qed.

(** ** concurrent honest writers: any number, any interleaving, any crash pattern *)
Theorem C08_honest_concurrent :
  forall (D : Type) (deq : D -> D -> bool) (H : list N -> D),
    (forall a b, deq a b = true <-> a = b) ->
    forall (c : list N) (fo0 : option (list N)) (ws : list (writer D)) (sched : list (nat * action)),
      (length (file_of fo0) < length c \/ file_of fo0 = c) ->
      Forall (honest_new D H c) ws ->
      Inv D H (H c) (length c) (fst (crun D deq H (fo0, ws) sched)).
Proof. intros D deq H Hs. exact (honest_concurrent D deq H Hs). Qed.
Print Assumptions C08_honest_concurrent.

Example C08_honest_concurrent_ex :
  let c := [1;2;3]%N in
  let ws := [new_writer Dg c 3 [([1]%N, RMore); ([2;3]%N, RMore)]; new_writer Dg c 3 [([1;2;3]%N, REof)]] in
  Forall (honest_new Dg Hid c) ws /\
  fst (crun Dg eqb_str Hid (Some [7]%N, ws) [(0, AStep); (1, AStep); (0, AStep); (1, AStep); (0, AStep)]) = Some c.
Proof.
  cbv zeta. split.
  - repeat constructor.
    + eexists. split; [reflexivity|]. cbn. exists [2;3]%N. split; [reflexivity|]. exists []. split; reflexivity.
    + eexists. split; [reflexivity|]. reflexivity.
  - vm_compute. reflexivity.
Qed.

(** ** the product "misbehaving source x concurrent writer" is false of the faithful model *)
Definition C08_concurrent_full : Prop :=
  forall (D : Type) (deq : D -> D -> bool) (H : list N -> D),
    (forall a b, deq a b = true <-> a = b) ->
    forall (d : D) (size : nat) (fo0 : option (list N)) (srcs : list (list rd)) (sched : list (nat * action)),
      Inv D H d size fo0 ->
      Inv D H d size (fst (crun D deq H (fo0, map (new_writer D d size) srcs) sched)).

(** witness (the harness reproduces it on the real DiskCache, known finding C08-concurrent-misbehaving-writer):
    writer 0 carries the right content in two reads, writer 1's reader fails; schedule 0 0 1 1 0:
    open, write "he", (1) open, (1) source error -> Truncate(0), (0) write "llo" at offset 2 -> full size, zeros in front *)
Theorem C08_concurrent_refuted : ~ C08_concurrent_full.
Proof.
  intros F. apply conc_witness_breaks. apply (F Dg eqb_str Hid eqb_str_spec). intros f Hf; discriminate.
Qed.
Print Assumptions C08_concurrent_refuted.

(** strongest partial: one writer at a time with arbitrary sources, or any number of honest writers *)
Theorem C08_concurrent_partial :
  forall (D : Type) (deq : D -> D -> bool) (H : list N -> D),
    (forall a b, deq a b = true <-> a = b) ->
    forall (c : list N) (fo0 : option (list N)) (srcs : list (list rd)) (sched : list (nat * action)),
      Inv D H (H c) (length c) fo0 ->
      (length srcs <= 1 \/
       ((length (file_of fo0) < length c \/ file_of fo0 = c) /\ Forall (fun s => src_honest s c) srcs)) ->
      Inv D H (H c) (length c) (fst (crun D deq H (fo0, map (new_writer D (H c) (length c)) srcs) sched)).
Proof. intros D deq H Hs. exact (concurrent_partial D deq H Hs). Qed.
Print Assumptions C08_concurrent_partial.

(** ** histories: every blob of the store, after any sequence of operations (sources and crash points arbitrary) *)
Theorem C08_history_inv :
  forall (D : Type) (deq : D -> D -> bool) (H : list N -> D),
    (forall a b, deq a b = true <-> a = b) ->
    forall (bufsz : nat) (fixed : bool) (sz : D -> nat) (ops : list (op D)),
      Forall (op_wf D sz) ops ->
      forall d n f,
        let c := run D deq H bufsz fixed (empty_cache D) ops in
        get D deq c d = Some n -> n = sz d -> blob_get D deq (blobs c) d = Some f -> H f = d.
Proof. intros D deq H Hs. exact (history_inv D deq H Hs). Qed.
Print Assumptions C08_history_inv.

(** non-vacuity: a history with a crashed Put, a junk Put, an Import, a Link and a Resolve is well-formed for
    [sz := length] (digests are their own preimages in this instance) and ends with the blob present and intact *)
Example C08_history_inv_ex :
  let ops : list cop :=
    [ OPut [1;2;3]%N 3 [([1]%N, RMore); ([2;3]%N, RMore)] (Some (2, None));
      OPut [1;2;3]%N 3 [([9;9]%N, RErr)] None;
      OPut [1;2;3]%N 3 [([1;2]%N, RMore); ([3]%N, REof)] None;
      @OImport Dg [([4;5]%N, REof)] 2;
      OLink (Some [[104]%N; [110]%N; [109]%N; [116]%N]) [1;2;3]%N;
      @OResolve Dg (Some [[72]%N; [110]%N; [109]%N; [116]%N]) ] in
  Forall (op_wf Dg (@length N)) ops /\
  get Dg eqb_str (run Dg eqb_str Hid bufsz32k true (empty_cache Dg) ops) [1;2;3]%N = Some 3.
Proof. cbv zeta. split; [repeat constructor | vm_compute; reflexivity]. Qed.

(** ** a successful store makes the blob retrievable (and, in a store satisfying the invariant, intact) *)
Theorem C08_put_then_get :
  forall (D : Type) (deq : D -> D -> bool) (H : list N -> D),
    (forall a b, deq a b = true <-> a = b) ->
    forall bufsz fixed (sz : D -> nat) (c : cache D) d size src cr c',
      BInv D deq H sz c -> size = sz d -> 0 < size ->
      step D deq H bufsz fixed c (OPut d size src cr) = (c', OutOk) ->
      get D deq c' d = Some size /\
      exists f, blob_get D deq (blobs c') d = Some f /\ length f = size /\ H f = d.
Proof. intros D deq H Hs bufsz fixed sz c d size src cr c'. apply put_then_get. exact Hs. Qed.
Print Assumptions C08_put_then_get.

(** ** a name is linked only to a manifest blob whose file exists *)
Theorem C08_link_requires_blob :
  forall (D : Type) (deq : D -> D -> bool) (H : list N -> D) bufsz fixed (c : cache D) p d c',
    step D deq H bufsz fixed c (OLink (Some p) d) = (c', OutOk) ->
    exists bf, blob_get D deq (blobs c) d = Some bf.
Proof. intros. eapply link_requires_blob; eauto. Qed.
Print Assumptions C08_link_requires_blob.

(** "exists" in the sense of Get (a non-empty file) is false: known finding C08-link-empty-blob *)
Definition C08_link_requires_present_full : Prop :=
  forall (D : Type) (deq : D -> D -> bool) (H : list N -> D),
    (forall a b, deq a b = true <-> a = b) ->
    forall bufsz fixed (ops : list (op D)) p d c',
      step D deq H bufsz fixed (run D deq H bufsz fixed (empty_cache D) ops) (OLink (Some p) d) = (c', OutOk) ->
      get D deq (run D deq H bufsz fixed (empty_cache D) ops) d <> None.

Theorem C08_link_requires_present_refuted : ~ C08_link_requires_present_full.
Proof.
  intros F. destruct link_empty_witness as [Hl Hg]. cbv zeta in Hl, Hg.
  refine (F Dg eqb_str Hid eqb_str_spec bufsz32k true _ _ _ _ _ Hg). apply surjective_pairing_ok. exact Hl.
Qed.
Print Assumptions C08_link_requires_present_refuted.

Theorem C08_link_requires_present_partial :
  forall (D : Type) (deq : D -> D -> bool) (H : list N -> D) bufsz fixed (c : cache D) p d c',
    step D deq H bufsz fixed c (OLink (Some p) d) = (c', OutOk) ->
    (forall bf, blob_get D deq (blobs c) d = Some bf -> 0 < length bf) ->
    get D deq c d <> None.
Proof. exact link_requires_present_partial. Qed.
Print Assumptions C08_link_requires_present_partial.

(** ** resolving a name returns the digest of exactly the bytes linked (Link as repaired by
    fixes/C08-link-size-shortcut.patch; any case variant [p'] of the name) *)
Theorem C08_resolve_digest_of_linked_bytes :
  forall (D : Type) (deq : D -> D -> bool) (H : list N -> D),
    (forall a b, deq a b = true <-> a = b) ->
    forall bufsz (c : cache D) p p' d c' bf,
      fold_eq p' p = true ->
      blob_get D deq (blobs c) d = Some bf -> 0 < length bf ->
      step D deq H bufsz true c (OLink (Some p) d) = (c', OutOk) ->
      snd (step D deq H bufsz true c' (OResolve (Some p'))) = OutDigest d /\
      exists m, link_get (links c') (manifest_path (links c') p') = Some m /\ H m = d /\ length m = length bf.
Proof. intros D deq H Hs bufsz c p p' d c' bf. apply link_then_resolve. exact Hs. Qed.
Print Assumptions C08_resolve_digest_of_linked_bytes.

(** the unrepaired Link ([fixed = false]) does not have this property: two intact manifests of equal length *)
Theorem C08_unrepaired_link_refuted :
  ~ (forall bufsz (c : cache Dg) p d c' bf,
       blob_get Dg eqb_str (blobs c) d = Some bf -> 0 < length bf ->
       step Dg eqb_str Hid bufsz false c (OLink (Some p) d) = (c', OutOk) ->
       snd (step Dg eqb_str Hid bufsz false c' (OResolve (Some p))) = OutDigest d).
Proof. exact unrepaired_link_refuted. Qed.
Print Assumptions C08_unrepaired_link_refuted.

Example C08_resolve_ex :
  let p := [[104]%N; [110]%N; [109]%N; [116]%N] in
  let c := run Dg eqb_str Hid bufsz32k true (empty_cache Dg)
             [OPut [1;1]%N 2 [([1;1]%N, RMore)] None; OPut [2;2]%N 2 [([2;2]%N, RMore)] None; OLink (Some p) [1;1]%N] in
  snd (step Dg eqb_str Hid bufsz32k true c (OLink (Some p) [2;2]%N)) = OutOk /\
  snd (step Dg eqb_str Hid bufsz32k true (fst (step Dg eqb_str Hid bufsz32k true c (OLink (Some p) [2;2]%N)))
         (OResolve (Some [[72]%N; [78]%N; [109]%N; [116]%N]))) = OutDigest [2;2]%N.
Proof. vm_compute. split; reflexivity. Qed.
