(** C08 — concrete witnesses (refutations of the full statements) in the instance used by the correspondence check
    ([D := list N], [H := id]); evaluated by vm_compute. *)
From Coq Require Import List NArith Bool Arith Lia.
From V Require Import Common.Bytes Blob.Model Blob.Proofs Blob.ProofsHist Blob.ProofsLink Blob.ProofsConc Blob.Corr.
Import ListNotations.

(** writer 0 carries the right content "hello" in two reads, writer 1's reader fails; schedule 0 0 1 1 0:
    open, write "he", (1) open, (1) source error -> Truncate(0), (0) write "llo" at offset 2 -> full size, zeros in front *)
Lemma conc_witness :
  fst (crun Dg eqb_str Hid (None, map (new_writer Dg [104;101;108;108;111]%N 5)
         [[([104;101]%N, RMore); ([108;108;111]%N, RMore)]; [([120;120]%N, RErr)]])
         [(0, AStep); (0, AStep); (1, AStep); (1, AStep); (0, AStep)]) = Some [0;0;108;108;111]%N.
Proof. vm_compute. reflexivity. Qed.

Lemma conc_witness_breaks :
  ~ Inv Dg Hid [104;101;108;108;111]%N 5
      (fst (crun Dg eqb_str Hid (None, map (new_writer Dg [104;101;108;108;111]%N 5)
         [[([104;101]%N, RMore); ([108;108;111]%N, RMore)]; [([120;120]%N, RErr)]])
         [(0, AStep); (0, AStep); (1, AStep); (1, AStep); (0, AStep)])).
Proof.
  rewrite conc_witness. intros F. specialize (F _ eq_refl eq_refl ltac:(lia)). discriminate.
Qed.

(** Link to the empty file that a failed Put leaves: Link succeeds, Get reports the blob absent *)
Lemma link_empty_witness :
  let c := run Dg eqb_str Hid bufsz32k true (empty_cache Dg) [OPut [1;2;3]%N 3 [([9]%N, RErr)] None] in
  snd (step Dg eqb_str Hid bufsz32k true c (OLink (Some [[104]%N; [110]%N; [109]%N; [116]%N]) [1;2;3]%N)) = OutOk /\
  get Dg eqb_str c [1;2;3]%N = None.
Proof. vm_compute. split; reflexivity. Qed.

(** the unrepaired Link: two intact manifests of equal length, the second Link is a no-op *)
Lemma link_same_size_witness :
  let p := [[104]%N; [110]%N; [109]%N; [116]%N] in
  let c := run Dg eqb_str Hid bufsz32k false (empty_cache Dg)
             [OPut [1;1]%N 2 [([1;1]%N, RMore)] None; OPut [2;2]%N 2 [([2;2]%N, RMore)] None; OLink (Some p) [1;1]%N] in
  blob_get Dg eqb_str (blobs c) [2;2]%N = Some [2;2]%N /\
  snd (step Dg eqb_str Hid bufsz32k false c (OLink (Some p) [2;2]%N)) = OutOk /\
  snd (step Dg eqb_str Hid bufsz32k false (fst (step Dg eqb_str Hid bufsz32k false c (OLink (Some p) [2;2]%N))) (OResolve (Some p)))
    = OutDigest [1;1]%N.
Proof. vm_compute. repeat split; reflexivity. Qed.

Lemma unrepaired_link_refuted :
  ~ (forall bufsz (c : cache Dg) p d c' bf,
       blob_get Dg eqb_str (blobs c) d = Some bf -> 0 < length bf ->
       step Dg eqb_str Hid bufsz false c (OLink (Some p) d) = (c', OutOk) ->
       snd (step Dg eqb_str Hid bufsz false c' (OResolve (Some p))) = OutDigest d).
Proof.
  intros F. destruct link_same_size_witness as (Hb & Hl & Hr). cbv zeta in Hb, Hl, Hr.
  pose proof (F bufsz32k _ _ _ _ _ Hb ltac:(cbn; lia) (surjective_pairing_ok _ _ Hl)) as F'.
  vm_compute in F'. discriminate.
Qed.
